/-
  LMV.Lemmas.Tfm — shared lemmas of C12 / C13 about the exact (`Rat`) instance of LMV.Model.Tfm.

  * `expect` : the exact distribution of the score of a background-distributed word, as a
    functional `f ↦ Σ_w P(w)·f(score w)` defined by recursion over the rows, and its expansion over
    the explicit list of all words (`expect_eq_words`).
  * (D) `distribution_spec` : what `distribution min max` computes, for every window.
  * (R) `rounding` : integer score vs rescaled real score of every word.
-/
import Mathlib.Algebra.BigOperators.Group.List.Basic
import Mathlib.Algebra.BigOperators.Ring.List
import Mathlib.Algebra.Order.BigOperators.Group.List
import Mathlib.Data.Rat.Floor
import Mathlib.Tactic.Linarith
import Mathlib.Tactic.Ring
import LMV.Model.Tfm

namespace LMV.Tfm

/-! ### the `Rat` instance, unfolded -/

@[simp] theorem add_rat (a b : Rat) : Num.add a b = a + b := rfl
@[simp] theorem sub_rat (a b : Rat) : Num.sub a b = a - b := rfl
@[simp] theorem mul_rat (a b : Rat) : Num.mul a b = a * b := rfl
@[simp] theorem div_rat (a b : Rat) : Num.div a b = a / b := rfl
@[simp] theorem lt_rat (a b : Rat) : Num.lt a b = decide (a < b) := rfl
@[simp] theorem le_rat (a b : Rat) : Num.le a b = decide (a ≤ b) := rfl
@[simp] theorem beq_rat (a b : Rat) : Num.beq a b = decide (a = b) := rfl
@[simp] theorem ofInt_rat (i : Int) : (Num.ofInt i : Rat) = (i : Rat) := rfl
@[simp] theorem floor_rat (a : Rat) : Num.floor a = ⌊a⌋ := rfl
@[simp] theorem zero_rat : (Num.zero : Rat) = 0 := rfl
@[simp] theorem one_rat : (Num.one : Rat) = 1 := rfl
@[simp] theorem half_rat : (Num.half : Rat) = 1 / 2 := rfl
@[simp] theorem tenth_rat : (Num.tenth : Rat) = 1 / 10 := rfl
@[simp] theorem ten_rat : (Num.ten : Rat) = 10 := rfl

/-! ### weighted sums over association lists -/

/-- `Σ v·G(k)` over the entries `(k, v)` -/
def wsum (l : List (Int × Rat)) (G : Int → Rat) : Rat := (l.map fun e => e.2 * G e.1).sum

@[simp] theorem wsum_nil (G : Int → Rat) : wsum [] G = 0 := rfl

@[simp] theorem wsum_cons (e : Int × Rat) (l : List (Int × Rat)) (G : Int → Rat) :
    wsum (e :: l) G = e.2 * G e.1 + wsum l G := by
  simp [wsum]

theorem wsum_append (l₁ l₂ : List (Int × Rat)) (G : Int → Rat) :
    wsum (l₁ ++ l₂) G = wsum l₁ G + wsum l₂ G := by
  simp [wsum]

theorem wsum_perm {l₁ l₂ : List (Int × Rat)} (h : l₁.Perm l₂) (G : Int → Rat) :
    wsum l₁ G = wsum l₂ G := by
  unfold wsum
  exact (h.map _).sum_eq

theorem wsum_flatMap {β : Type} (l : List β) (f : β → List (Int × Rat)) (G : Int → Rat) :
    wsum (l.flatMap f) G = (l.map fun a => wsum (f a) G).sum := by
  induction l with
  | nil => simp
  | cons a t ih => simp [List.flatMap_cons, wsum_append, ih]

theorem wsum_filterMap {β : Type} (l : List β) (g : β → Option (Int × Rat)) (G : Int → Rat) :
    wsum (l.filterMap g) G =
      (l.map fun a => match g a with | some e => e.2 * G e.1 | none => 0).sum := by
  induction l with
  | nil => simp
  | cons a t ih =>
    cases h : g a with
    | none => simp [h, ih]
    | some e => simp [h, ih]

theorem wsum_congr {l : List (Int × Rat)} {G H : Int → Rat} (h : ∀ e ∈ l, G e.1 = H e.1) :
    wsum l G = wsum l H := by
  induction l with
  | nil => simp
  | cons a t ih =>
    simp only [wsum_cons]
    rw [h a (by simp), ih (fun e he => h e (by simp [he]))]

theorem wsum_mono {l : List (Int × Rat)} {G H : Int → Rat} (hv : ∀ e ∈ l, 0 ≤ e.2)
    (h : ∀ e ∈ l, G e.1 ≤ H e.1) : wsum l G ≤ wsum l H := by
  induction l with
  | nil => simp
  | cons a t ih =>
    simp only [wsum_cons]
    have h1 : a.2 * G a.1 ≤ a.2 * H a.1 :=
      mul_le_mul_of_nonneg_left (h a (by simp)) (hv a (by simp))
    have h2 := ih (fun e he => hv e (by simp [he])) (fun e he => h e (by simp [he]))
    linarith

theorem wsum_nonneg {l : List (Int × Rat)} {G : Int → Rat} (hv : ∀ e ∈ l, 0 ≤ e.2)
    (h : ∀ e ∈ l, 0 ≤ G e.1) : 0 ≤ wsum l G := by
  have := wsum_mono (G := fun _ => 0) (H := G) hv h
  simpa [wsum] using this

/-! ### `normalize` keeps every weighted sum, the key set, non-negativity, and sorts -/

theorem wsum_combineAux (k : Int) (v : Rat) (t : List (Int × Rat)) (G : Int → Rat) :
    wsum (combineAux k v t) G = v * G k + wsum t G := by
  induction t generalizing k v with
  | nil => simp [combineAux]
  | cons a t ih =>
    obtain ⟨k', v'⟩ := a
    unfold combineAux
    split
    · next h => subst h; rw [ih]; simp; ring
    · next h => simp [ih]

theorem wsum_combine (l : List (Int × Rat)) (G : Int → Rat) : wsum (combine l) G = wsum l G := by
  cases l with
  | nil => rfl
  | cons a t => obtain ⟨k, v⟩ := a; simp [combine, wsum_combineAux]

theorem wsum_normalize (l : List (Int × Rat)) (G : Int → Rat) :
    wsum (normalize l) G = wsum l G := by
  unfold normalize
  rw [wsum_combine]
  exact wsum_perm (List.mergeSort_perm _ _) G

/-- every entry of `combineAux k v t` carries the key `k` or a key of `t`; values stay ≥ 0 -/
theorem mem_combineAux {k : Int} {v : Rat} {t : List (Int × Rat)} {e : Int × Rat}
    (he : e ∈ combineAux k v t) :
    (e.1 = k ∨ ∃ e' ∈ t, e'.1 = e.1) ∧ (0 ≤ v → (∀ e' ∈ t, 0 ≤ e'.2) → 0 ≤ e.2) := by
  induction t generalizing k v with
  | nil =>
    simp [combineAux] at he
    subst he
    exact ⟨Or.inl rfl, fun hv _ => hv⟩
  | cons a t ih =>
    obtain ⟨k', v'⟩ := a
    unfold combineAux at he
    split at he
    · next h =>
      subst h
      obtain ⟨h1, h2⟩ := ih he
      refine ⟨?_, fun hv ht => h2 ?_ (fun e' he' => ht e' (by simp [he']))⟩
      · rcases h1 with h1 | ⟨e', he', h1⟩
        · exact Or.inl h1
        · exact Or.inr ⟨e', by simp [he'], h1⟩
      · have := ht (k', v') (by simp)
        simp at this ⊢
        linarith
    · next h =>
      rcases List.mem_cons.1 he with he | he
      · subst he
        exact ⟨Or.inl rfl, fun hv _ => hv⟩
      · obtain ⟨h1, h2⟩ := ih he
        refine ⟨Or.inr ?_, fun _ ht => h2 (ht (k', v') (by simp)) (fun e' he' => ht e' (by simp [he']))⟩
        rcases h1 with h1 | ⟨e', he', h1⟩
        · exact ⟨(k', v'), by simp, h1.symm⟩
        · exact ⟨e', by simp [he'], h1⟩

/-- a property of keys and the sign of the values pass through `normalize` -/
theorem normalize_forall {l : List (Int × Rat)} {P : Int → Prop}
    (h : ∀ e ∈ l, P e.1 ∧ 0 ≤ e.2) : ∀ e ∈ normalize l, P e.1 ∧ 0 ≤ e.2 := by
  intro e he
  unfold normalize at he
  have hperm := List.mergeSort_perm l (fun a b => decide (a.1 ≤ b.1))
  have h' : ∀ e ∈ l.mergeSort (fun a b => decide (a.1 ≤ b.1)), P e.1 ∧ 0 ≤ e.2 :=
    fun e he => h e (hperm.mem_iff.1 he)
  generalize l.mergeSort (fun a b => decide (a.1 ≤ b.1)) = s at he h'
  cases s with
  | nil => simp [combine] at he
  | cons a t =>
    obtain ⟨k, v⟩ := a
    simp only [combine] at he
    obtain ⟨h1, h2⟩ := mem_combineAux he
    refine ⟨?_, h2 (h' (k, v) (by simp)).2 (fun e' he' => (h' e' (by simp [he'])).2)⟩
    rcases h1 with h1 | ⟨e', he', h1⟩
    · rw [h1]; exact (h' (k, v) (by simp)).1
    · rw [← h1]; exact (h' e' (by simp [he'])).1

theorem pairwise_combineAux {k : Int} {v : Rat} {t : List (Int × Rat)}
    (h : List.Pairwise (fun a b : Int × Rat => a.1 ≤ b.1) ((k, v) :: t)) :
    List.Pairwise (fun a b : Int × Rat => a.1 ≤ b.1) (combineAux k v t) := by
  induction t generalizing k v with
  | nil => simp [combineAux]
  | cons a t ih =>
    obtain ⟨k', v'⟩ := a
    unfold combineAux
    rw [List.pairwise_cons] at h
    obtain ⟨hk, ht⟩ := h
    rw [List.pairwise_cons] at ht
    split
    · next heq =>
      apply ih
      rw [List.pairwise_cons]
      exact ⟨fun e he => hk e (by simp [he]), ht.2⟩
    · next hne =>
      rw [List.pairwise_cons]
      refine ⟨?_, ih (by rw [List.pairwise_cons]; exact ht)⟩
      intro e he
      rcases (mem_combineAux he).1 with h1 | ⟨e', he', h1⟩
      · rw [h1]; exact hk (k', v') (by simp)
      · rw [← h1]; exact hk e' (by simp [he'])

/-- `normalize` yields keys in ascending order -/
theorem pairwise_normalize (l : List (Int × Rat)) :
    List.Pairwise (fun a b : Int × Rat => a.1 ≤ b.1) (normalize l) := by
  unfold normalize
  have hs : List.Pairwise (fun a b : Int × Rat => a.1 ≤ b.1)
      (l.mergeSort (fun a b => decide (a.1 ≤ b.1))) := by
    have := List.pairwise_mergeSort (le := fun a b : Int × Rat => decide (a.1 ≤ b.1))
      (by intro a b c; simp; omega) (by intro a b; simp; omega) l
    simpa using this
  generalize l.mergeSort (fun a b => decide (a.1 ≤ b.1)) = s at hs
  cases s with
  | nil => simp [combine]
  | cons a t => obtain ⟨k, v⟩ := a; exact pairwise_combineAux hs

/-! ### the exact distribution of a word score -/

/-- `Σ_w P(w)·f(score w)` over all words `w` (one column per row), `P(w) = Π bg[w_i]`,
    `score w = Σ rows[i][w_i]`; by recursion over the rows.  `expect_eq_words` expands it. -/
def expect {σ : Type} [Add σ] [Zero σ] (bg : List Rat) : List (List σ) → (σ → Rat) → Rat
  | [], f => f 0
  | r :: rs, f => ((r.zip bg).map fun xb => xb.2 * expect bg rs (fun s => f (xb.1 + s))).sum

/-- all words over the rows: the chosen entry of each row with its background frequency -/
def words {σ : Type} (bg : List Rat) : List (List σ) → List (List (σ × Rat))
  | [] => [[]]
  | r :: rs => (r.zip bg).flatMap fun xb => (words bg rs).map (xb :: ·)

def wordScore {σ : Type} [Add σ] [Zero σ] : List (σ × Rat) → σ
  | [] => 0
  | xb :: t => xb.1 + wordScore t

def wordProb {σ : Type} (w : List (σ × Rat)) : Rat := (w.map (·.2)).prod

theorem expect_eq_words {σ : Type} [Add σ] [Zero σ] (bg : List Rat) (rows : List (List σ))
    (f : σ → Rat) :
    expect bg rows f = ((words bg rows).map fun w => wordProb w * f (wordScore w)).sum := by
  induction rows generalizing f with
  | nil => simp [expect, words, wordProb, wordScore]
  | cons r rs ih =>
    simp only [expect, words]
    generalize r.zip bg = z
    induction z with
    | nil => simp
    | cons xb t iht =>
      simp only [List.map_cons, List.sum_cons, List.flatMap_cons, List.map_append, List.sum_append]
      rw [iht, ih]
      congr 1
      simp only [List.map_map]
      rw [← List.sum_map_mul_left]
      congr 1
      apply List.map_congr_left
      intro w _
      simp [wordProb, wordScore]
      ring

theorem expect_zero {σ : Type} [Add σ] [Zero σ] (bg : List Rat) (rows : List (List σ)) :
    expect bg rows (fun _ => 0) = 0 := by
  induction rows with
  | nil => rfl
  | cons r rs ih => simp [expect, ih]

theorem expect_mono {σ : Type} [Add σ] [Zero σ] {bg : List Rat} (hbg : ∀ b ∈ bg, 0 ≤ b)
    (rows : List (List σ)) {f h : σ → Rat} (hfh : ∀ s, f s ≤ h s) :
    expect bg rows f ≤ expect bg rows h := by
  induction rows generalizing f h with
  | nil => exact hfh 0
  | cons r rs ih =>
    simp only [expect]
    apply List.sum_le_sum
    intro xb hxb
    exact mul_le_mul_of_nonneg_left (ih fun s => hfh _) (hbg _ (List.of_mem_zip hxb).2)

/-! ### (D): what `distribution min max` computes -/

theorem le_foldl_max (t : List Int) (x : Int) :
    x ≤ t.foldl max x ∧ ∀ y ∈ t, y ≤ t.foldl max x := by
  induction t generalizing x with
  | nil => simp
  | cons a t ih =>
    simp only [List.foldl_cons]
    obtain ⟨h1, h2⟩ := ih (max x a)
    refine ⟨le_trans (le_max_left _ _) h1, ?_⟩
    intro y hy
    rcases List.mem_cons.1 hy with hy | hy
    · subst hy; exact le_trans (le_max_right _ _) h1
    · exact h2 y hy

theorem le_listMax {r : List Int} {x : Int} (hx : x ∈ r) : x ≤ listMax r := by
  cases r with
  | nil => simp at hx
  | cons a t =>
    simp only [listMax]
    rcases List.mem_cons.1 hx with hx | hx
    · subst hx; exact (le_foldl_max t x).1
    · exact (le_foldl_max t a).2 x hx

theorem foldl_min_le (t : List Int) (x : Int) :
    t.foldl min x ≤ x ∧ ∀ y ∈ t, t.foldl min x ≤ y := by
  induction t generalizing x with
  | nil => simp
  | cons a t ih =>
    simp only [List.foldl_cons]
    obtain ⟨h1, h2⟩ := ih (min x a)
    refine ⟨le_trans h1 (min_le_left _ _), ?_⟩
    intro y hy
    rcases List.mem_cons.1 hy with hy | hy
    · subst hy; exact le_trans h1 (min_le_right _ _)
    · exact h2 y hy

theorem listMin_le {r : List Int} {x : Int} (hx : x ∈ r) : listMin r ≤ x := by
  cases r with
  | nil => simp at hx
  | cons a t =>
    simp only [listMin]
    rcases List.mem_cons.1 hx with hx | hx
    · subst hx; exact (foldl_min_le t x).1
    · exact (foldl_min_le t a).2 x hx

/-- every cell of the integer matrix is ≥ 0 (true after the offsets have been added) -/
def NonnegRows (rows : List (List Int)) : Prop := ∀ r ∈ rows, ∀ x ∈ r, 0 ≤ x

theorem listMax_nonneg {r : List Int} (h : ∀ x ∈ r, 0 ≤ x) : 0 ≤ listMax r := by
  cases r with
  | nil => simp [listMax]
  | cons a t => exact le_trans (h a (by simp)) (le_listMax (by simp))

theorem sumMax_nonneg {rows : List (List Int)} (h : NonnegRows rows) : 0 ≤ sumMax rows := by
  induction rows with
  | nil => simp [sumMax]
  | cons r rs ih =>
    have h1 := listMax_nonneg (h r (by simp))
    have h2 := ih (fun r' hr' => h r' (by simp [hr']))
    simp only [sumMax, List.map_cons, List.sum_cons] at h2 ⊢
    omega

theorem sumMax_cons (r : List Int) (rs : List (List Int)) :
    sumMax (r :: rs) = listMax r + sumMax rs := by
  simp [sumMax]

/-- only scores between 0 and the sum of the row maxima are reachable -/
theorem expect_congr_reach (bg : List Rat) {rows : List (List Int)} (hrows : NonnegRows rows)
    {f h : Int → Rat} (hfh : ∀ s, 0 ≤ s → s ≤ sumMax rows → f s = h s) :
    expect bg rows f = expect bg rows h := by
  induction rows generalizing f h with
  | nil => exact hfh 0 (le_refl _) (by simp [sumMax])
  | cons r rs ih =>
    simp only [expect]
    congr 1
    apply List.map_congr_left
    intro xb hxb
    have hx : xb.1 ∈ r := (List.of_mem_zip hxb).1
    have h0 : 0 ≤ xb.1 := hrows r (by simp) _ hx
    have h1 : xb.1 ≤ listMax r := le_listMax hx
    congr 1
    apply ih (fun r' hr' => hrows r' (by simp [hr']))
    intro s hs0 hs1
    apply hfh
    · omega
    · rw [sumMax_cons]; omega

/-- test functions a window `[min, max]` can tell apart: zero below `min`, constant above `max` -/
def Adm (min max : Int) (f : Int → Rat) : Prop :=
  (∀ k, k < min → f k = 0) ∧ (∀ k, max < k → f k = f (max + 1))

/-- mass that the entries of a map put on `f` once extended through the remaining rows -/
def push (bg : List Rat) (rest : List (List Int)) (f : Int → Rat) (q : List (Int × Rat)) : Rat :=
  wsum q (fun k => expect bg rest (fun s => f (k + s)))

/-- one entry `(key, val)` of the previous row, extended by every symbol of `row` -/
def entryStep (row : List Int) (bg : List Rat) (maxsNext min max : Int) (key : Int) (val : Rat) :
    List (Int × Rat) :=
  (row.zip bg).filterMap fun xb =>
    if key + xb.1 + maxsNext ≥ min then
      some (if key + xb.1 > max then max + 1 else key + xb.1, val * xb.2)
    else none

theorem stepEntries_eq (row : List Int) (bg : List Rat) (maxsNext min max : Int)
    (q : List (Int × Rat)) :
    stepEntries row bg maxsNext min max q =
      q.flatMap fun e => entryStep row bg maxsNext min max e.1 e.2 := rfl

theorem entryStep_spec (bg : List Rat) {row : List Int} {rest : List (List Int)}
    (hrest : NonnegRows rest) {min max : Int} {f : Int → Rat}
    (hf : Adm min max f) (key : Int) (val : Rat) :
    wsum (entryStep row bg (sumMax rest) min max key val)
        (fun k => expect bg rest (fun s => f (k + s))) =
      val * expect bg (row :: rest) (fun s => f (key + s)) := by
  unfold entryStep
  rw [wsum_filterMap]
  simp only [expect]
  rw [← List.sum_map_mul_left]
  congr 1
  apply List.map_congr_left
  intro xb _
  obtain ⟨x, b⟩ := xb
  by_cases hp : key + x + sumMax rest ≥ min
  · simp only [hp, if_true]
    by_cases ho : key + x > max
    · simp only [ho, if_true]
      have : expect bg rest (fun s => f (max + 1 + s)) = expect bg rest (fun s => f (key + (x + s))) := by
        apply expect_congr_reach bg hrest
        intro s hs0 _
        rw [hf.2 (max + 1 + s) (by omega), hf.2 (key + (x + s)) (by omega)]
      rw [this]; ring
    · simp only [ho, if_false]
      have : (fun s => f (key + x + s)) = (fun s => f (key + (x + s))) := by
        funext s; rw [add_assoc]
      rw [this]; ring
  · simp only [hp, if_false]
    have : expect bg rest (fun s => f (key + (x + s))) = expect bg rest (fun _ => 0) := by
      apply expect_congr_reach bg hrest
      intro s _ hs1
      exact hf.1 _ (by omega)
    rw [this, expect_zero]; ring

theorem step_spec (bg : List Rat) {row : List Int} {rest : List (List Int)}
    (hrest : NonnegRows rest) {min max : Int} {f : Int → Rat}
    (hf : Adm min max f) (q : List (Int × Rat)) :
    push bg rest f (stepEntries row bg (sumMax rest) min max q) = push bg (row :: rest) f q := by
  unfold push
  rw [stepEntries_eq, wsum_flatMap]
  unfold wsum
  congr 1
  apply List.map_congr_left
  intro e _
  exact entryStep_spec bg hrest hf e.1 e.2

theorem push_normalize (bg : List Rat) (rest : List (List Int)) (f : Int → Rat)
    (l : List (Int × Rat)) : push bg rest f (normalize l) = push bg rest f l :=
  wsum_normalize l _

theorem distFrom_spec (bg : List Rat) {rest : List (List Int)} (hrest : NonnegRows rest)
    {min max : Int} {f : Int → Rat} (hf : Adm min max f)
    (q : List (Int × Rat)) :
    wsum (distFrom bg min max rest q) f = push bg rest f q := by
  induction rest generalizing q with
  | nil => simp [distFrom, push, expect]
  | cons row rest ih =>
    have hr : NonnegRows rest := fun r' hr' => hrest r' (by simp [hr'])
    simp only [distFrom]
    rw [ih hr, push_normalize, step_spec bg hr hf]

theorem first_spec (bg : List Rat) {row : List Int} {rest : List (List Int)}
    (hrest : NonnegRows rest) {min max : Int} {f : Int → Rat} (hf : Adm min max f) :
    push bg rest f (firstEntries row bg (sumMax rest) min) = expect bg (row :: rest) f := by
  unfold push firstEntries
  rw [wsum_filterMap]
  simp only [expect]
  congr 1
  apply List.map_congr_left
  intro xb _
  obtain ⟨x, b⟩ := xb
  by_cases hp : x + sumMax rest ≥ min
  · simp only [hp, if_true]
  · simp only [hp, if_false]
    have : expect bg rest (fun s => f (x + s)) = expect bg rest (fun _ => 0) := by
      apply expect_congr_reach bg hrest
      intro s _ hs1
      exact hf.1 _ (by omega)
    rw [this, expect_zero]; ring

/-- **(D)**  For every window and every test function that is zero below `min`
    and constant above `max`, the map returned by `distribution min max` integrates it exactly as
    the distribution of the integer word score `D` does.  (Instances: `f = 1_{k}` for
    `min ≤ k ≤ max` gives `q[k] = P(D = k)`; `f = 1_{> max}` gives `q[max+1] = P(D > max)`;
    `f = 1_{≥ t}` for `min ≤ t ≤ max+1` gives the tails.)  Pruning soundness is the `k < min` half
    of `Adm`, the bucket is the `k > max` half. -/
theorem distribution_spec (bg : List Rat) {im : List (List Int)} (him : NonnegRows im)
    (hne : im ≠ []) {min max : Int} {f : Int → Rat} (hf : Adm min max f) :
    wsum (distribution im bg min max) f = expect bg im f := by
  cases im with
  | nil => exact absurd rfl hne
  | cons row0 rest =>
    have hr : NonnegRows rest := fun r' hr' => him r' (by simp [hr'])
    simp only [distribution]
    rw [wsum_normalize, wsum_cons, distFrom_spec bg hr hf, push_normalize,
      first_spec bg hr hf]
    simp

/-! ### keys and values of the map returned by `distribution` -/

theorem mem_entryStep {row : List Int} {bg : List Rat} {maxsNext min max key : Int} {val : Rat}
    {e : Int × Rat} (he : e ∈ entryStep row bg maxsNext min max key val) :
    ∃ xb ∈ row.zip bg, key + xb.1 + maxsNext ≥ min ∧
      e = (if key + xb.1 > max then max + 1 else key + xb.1, val * xb.2) := by
  unfold entryStep at he
  rw [List.mem_filterMap] at he
  obtain ⟨xb, hxb, h⟩ := he
  refine ⟨xb, hxb, ?_⟩
  by_cases hp : key + xb.1 + maxsNext ≥ min
  · simp only [hp, if_true, Option.some.injEq] at h
    exact ⟨hp, h.symm⟩
  · simp [hp] at h

theorem distFrom_forall {bg : List Rat} (hbg : ∀ b ∈ bg, 0 ≤ b) {min max : Int}
    (hmm : min ≤ max + 1) {rest : List (List Int)} (hrest : NonnegRows rest)
    {q : List (Int × Rat)} (hq : ∀ e ∈ q, min ≤ e.1 + sumMax rest ∧ 0 ≤ e.2) :
    ∀ e ∈ distFrom bg min max rest q, min ≤ e.1 ∧ 0 ≤ e.2 := by
  induction rest generalizing q with
  | nil => simpa [distFrom, sumMax] using hq
  | cons row rest ih =>
    have hr : NonnegRows rest := fun r' hr' => hrest r' (by simp [hr'])
    simp only [distFrom]
    apply ih hr
    apply normalize_forall (P := fun k => min ≤ k + sumMax rest)
    intro e he
    rw [stepEntries_eq, List.mem_flatMap] at he
    obtain ⟨e0, he0, he⟩ := he
    obtain ⟨xb, hxb, hp, rfl⟩ := mem_entryStep he
    have hs := sumMax_nonneg hr
    refine ⟨?_, mul_nonneg (hq e0 he0).2 (hbg _ (List.of_mem_zip hxb).2)⟩
    by_cases ho : e0.1 + xb.1 > max
    · simp only [ho, if_true]; omega
    · simp only [ho, if_false]; omega

/-- every key of `distribution min max` is `≥ min`, every value is `≥ 0` -/
theorem distribution_forall {bg : List Rat} (hbg : ∀ b ∈ bg, 0 ≤ b) {im : List (List Int)}
    (him : NonnegRows im) {min max : Int} (hmm : min ≤ max + 1) :
    ∀ e ∈ distribution im bg min max, min ≤ e.1 ∧ 0 ≤ e.2 := by
  cases im with
  | nil => simp [distribution]
  | cons row0 rest =>
    have hr : NonnegRows rest := fun r' hr' => him r' (by simp [hr'])
    simp only [distribution]
    apply normalize_forall (P := fun k => min ≤ k)
    intro e he
    rcases List.mem_cons.1 he with he | he
    · subst he; exact ⟨hmm, le_refl _⟩
    · refine distFrom_forall hbg hmm hr ?_ e he
      apply normalize_forall (P := fun k => min ≤ k + sumMax rest)
      intro e he
      unfold firstEntries at he
      rw [List.mem_filterMap] at he
      obtain ⟨xb, hxb, h⟩ := he
      by_cases hp : xb.1 + sumMax rest ≥ min
      · simp only [hp, if_true, Option.some.injEq] at h
        subst h
        exact ⟨hp, hbg _ (List.of_mem_zip hxb).2⟩
      · simp [hp] at h

/-! ### tails read off a map -/

theorem total_eq (q : List (Int × Rat)) : total q = (q.map (·.2)).sum := by
  induction q with
  | nil => rfl
  | cons e t ih =>
    simp only [total, List.foldr_cons, add_rat, List.map_cons, List.sum_cons] at ih ⊢
    rw [ih]; ring

theorem tailFrom_eq (q : List (Int × Rat)) (k : Int) :
    tailFrom q k = wsum q (fun j => if k ≤ j then 1 else 0) := by
  unfold tailFrom
  rw [total_eq]
  induction q with
  | nil => simp
  | cons e t ih =>
    by_cases h : k ≤ e.1
    · simp [h, ih]
    · simp [h, ih]

/-! ### reachable scores; marginals -/

/-- the scores words can have -/
def Reach {σ : Type} [Add σ] [Zero σ] : List (List σ) → σ → Prop
  | [], s => s = 0
  | r :: rs, s => ∃ x ∈ r, ∃ s', Reach rs s' ∧ s = x + s'

theorem expect_mono_reach {σ : Type} [Add σ] [Zero σ] {bg : List Rat} (hbg : ∀ b ∈ bg, 0 ≤ b)
    (rows : List (List σ)) {f h : σ → Rat} (hfh : ∀ s, Reach rows s → f s ≤ h s) :
    expect bg rows f ≤ expect bg rows h := by
  induction rows generalizing f h with
  | nil => exact hfh 0 rfl
  | cons r rs ih =>
    simp only [expect]
    apply List.sum_le_sum
    intro xb hxb
    refine mul_le_mul_of_nonneg_left (ih fun s hs => hfh _ ?_) (hbg _ (List.of_mem_zip hxb).2)
    exact ⟨xb.1, (List.of_mem_zip hxb).1, s, hs, rfl⟩

/-- the distribution of an additive image of the score -/
theorem expect_map {σ τ : Type} [Add σ] [Zero σ] [Add τ] [Zero τ] (bg : List Rat) (φ : σ → τ)
    (hadd : ∀ a b, φ (a + b) = φ a + φ b) (h0 : φ 0 = 0) (rows : List (List σ)) (f : τ → Rat) :
    expect bg (rows.map (List.map φ)) f = expect bg rows (fun s => f (φ s)) := by
  induction rows generalizing f with
  | nil => simp [expect, h0]
  | cons r rs ih =>
    simp only [List.map_cons, expect, List.zip_map_left, List.map_map]
    congr 1
    apply List.map_congr_left
    intro xb _
    simp only [Function.comp, Prod.map_fst, Prod.map_snd, id]
    rw [ih]
    congr 2
    funext s
    rw [hadd]

/-! ### (R): rounding -/

theorem foldl_maxBy (t : List Rat) (x : Rat) :
    x ≤ t.foldl (fun acc y => if y < acc then acc else y) x ∧
      (∀ y ∈ t, y ≤ t.foldl (fun acc y => if y < acc then acc else y) x) ∧
      (t.foldl (fun acc y => if y < acc then acc else y) x = x ∨
        t.foldl (fun acc y => if y < acc then acc else y) x ∈ t) := by
  induction t generalizing x with
  | nil => simp
  | cons a t ih =>
    simp only [List.foldl_cons]
    by_cases h : a < x
    · simp only [h, if_true]
      obtain ⟨h1, h2, h3⟩ := ih x
      refine ⟨h1, ?_, ?_⟩
      · intro y hy
        rcases List.mem_cons.1 hy with hy | hy
        · subst hy; exact le_trans (le_of_lt h) h1
        · exact h2 y hy
      · rcases h3 with h3 | h3
        · exact Or.inl h3
        · exact Or.inr (List.mem_cons_of_mem _ h3)
    · simp only [h, if_false]
      obtain ⟨h1, h2, h3⟩ := ih a
      refine ⟨le_trans (not_lt.1 h) h1, ?_, ?_⟩
      · intro y hy
        rcases List.mem_cons.1 hy with hy | hy
        · subst hy; exact h1
        · exact h2 y hy
      · rcases h3 with h3 | h3
        · exact Or.inr (by rw [h3]; exact List.mem_cons_self)
        · exact Or.inr (List.mem_cons_of_mem _ h3)

theorem maxBy_cons (x : Rat) (t : List Rat) :
    maxBy (x :: t) = t.foldl (fun acc y => if y < acc then acc else y) x := by
  simp [maxBy]

theorem maxBy_ge {l : List Rat} {y : Rat} (hy : y ∈ l) : y ≤ maxBy l := by
  cases l with
  | nil => simp at hy
  | cons x t =>
    rw [maxBy_cons]
    obtain ⟨h1, h2, _⟩ := foldl_maxBy t x
    rcases List.mem_cons.1 hy with hy | hy
    · subst hy; exact h1
    · exact h2 y hy

theorem maxBy_mem {l : List Rat} (hl : l ≠ []) : maxBy l ∈ l := by
  cases l with
  | nil => exact absurd rfl hl
  | cons x t =>
    rw [maxBy_cons]
    obtain ⟨_, _, h3⟩ := foldl_maxBy t x
    rcases h3 with h3 | h3
    · rw [h3]; exact List.mem_cons_self
    · exact List.mem_cons_of_mem _ h3

/-- the error bound of one row dominates the rounding error of each of its cells and lies in [0,1) -/
theorem rowErr_spec (g : Rat) (r : List Rat) :
    (∀ x ∈ r, x / g - (⌊x / g⌋ : Rat) ≤ rowErr g r) ∧ 0 ≤ rowErr g r ∧ rowErr g r < 1 := by
  have hfrac : ∀ y ∈ rowErrs g r, 0 ≤ y ∧ y < 1 := by
    intro y hy
    simp only [rowErrs, List.mem_map, div_rat, sub_rat, ofInt_rat, floor_rat] at hy
    obtain ⟨x, _, rfl⟩ := hy
    have h1 := Int.floor_le (x / g)
    have h2 := Int.lt_floor_add_one (x / g)
    constructor <;> linarith
  refine ⟨?_, ?_, ?_⟩
  · intro x hx
    apply maxBy_ge
    simp only [rowErrs, List.mem_map, div_rat, sub_rat, ofInt_rat, floor_rat]
    exact ⟨x, hx, rfl⟩
  · by_cases hr : rowErrs g r = []
    · simp [rowErr, hr, maxBy]
    · exact (hfrac _ (maxBy_mem hr)).1
  · by_cases hr : rowErrs g r = []
    · simp [rowErr, hr, maxBy]
    · exact (hfrac _ (maxBy_mem hr)).2

theorem foldl_add_rat {β : Type} (F : β → Rat) (l : List β) (a : Rat) :
    l.foldl (fun acc r => Num.add acc (F r)) a = a + (l.map F).sum := by
  induction l generalizing a with
  | nil => simp
  | cons x t ih =>
    rw [List.foldl_cons, ih]
    simp only [add_rat, List.map_cons, List.sum_cons]
    ring

theorem errorMax_eq (g : Rat) (rows : List (List Rat)) :
    errorMax g rows = ((rows.drop 1).map (rowErr g)).sum := by
  unfold errorMax
  rw [foldl_add_rat]
  simp

theorem sum_rowErr_bounds (g : Rat) (rs : List (List Rat)) :
    0 ≤ (rs.map (rowErr g)).sum ∧ (rs.map (rowErr g)).sum ≤ rs.length := by
  induction rs with
  | nil => simp
  | cons r rs ih =>
    obtain ⟨_, h1, h2⟩ := rowErr_spec g r
    simp only [List.map_cons, List.sum_cons, List.length_cons, Nat.cast_add, Nat.cast_one]
    constructor <;> linarith [ih.1, ih.2]

/-- `0 ≤ error_max ≤ M - 1` -/
theorem errorMax_bounds (g : Rat) (rows : List (List Rat)) :
    0 ≤ errorMax g rows ∧ errorMax g rows ≤ ((rows.length - 1 : Nat) : Rat) := by
  rw [errorMax_eq]
  have := sum_rowErr_bounds g (rows.drop 1)
  simpa using this

/-- a row of cells paired with their integer images (offset included) -/
def pairRow (g : Rat) (r : List Rat) : List (Rat × Int) :=
  r.map fun x => (x, ⌊x / g⌋ + rowOffset (floorRow g r))

def pairRows (g : Rat) (rows : List (List Rat)) : List (List (Rat × Int)) := rows.map (pairRow g)

theorem pairRows_fst (g : Rat) (rows : List (List Rat)) :
    (pairRows g rows).map (List.map Prod.fst) = rows := by
  simp [pairRows, pairRow, Function.comp_def]

theorem pairRows_snd (g : Rat) (rows : List (List Rat)) :
    (pairRows g rows).map (List.map Prod.snd) = (recompute rows g).im := by
  simp [pairRows, pairRow, recompute, intRow, floorRow, Function.comp_def]

/-- the real-score marginal of the coupling -/
theorem expect_pair_fst (bg : List Rat) (g : Rat) (rows : List (List Rat)) (f : Rat → Rat) :
    expect bg (pairRows g rows) (fun sd => f sd.1) = expect bg rows f := by
  have := expect_map bg (Prod.fst : Rat × Int → Rat) (fun _ _ => rfl) rfl (pairRows g rows) f
  rw [pairRows_fst] at this
  exact this.symm

/-- the integer-score marginal of the coupling -/
theorem expect_pair_snd (bg : List Rat) (g : Rat) (rows : List (List Rat)) (f : Int → Rat) :
    expect bg (pairRows g rows) (fun sd => f sd.2) = expect bg (recompute rows g).im f := by
  have := expect_map bg (Prod.snd : Rat × Int → Int) (fun _ _ => rfl) rfl (pairRows g rows) f
  rw [pairRows_snd] at this
  exact this.symm

theorem nonneg_im (g : Rat) (rows : List (List Rat)) : NonnegRows (recompute rows g).im := by
  intro r hr x hx
  simp only [recompute, List.mem_map] at hr
  obtain ⟨r0, _, rfl⟩ := hr
  simp only [intRow, List.mem_map] at hx
  obtain ⟨y, hy, rfl⟩ := hx
  have := listMin_le hy
  simp only [rowOffset]
  omega

theorem offsets_eq (g : Rat) (rows : List (List Rat)) :
    (recompute rows g).offsets = rows.map (fun r => rowOffset (floorRow g r)) := rfl

/-- rows whose error bound is part of `error_max` -/
theorem reach_tailRows (g : Rat) (rs : List (List Rat)) {S : Rat} {D : Int}
    (h : Reach (pairRows g rs) (S, D)) :
    ((D : Rat) - ((rs.map fun r => rowOffset (floorRow g r)).sum : Int) ≤ S / g) ∧
      S / g ≤ (D : Rat) - ((rs.map fun r => rowOffset (floorRow g r)).sum : Int)
        + (rs.map (rowErr g)).sum := by
  induction rs generalizing S D with
  | nil =>
    simp only [pairRows, List.map_nil, Reach] at h
    have h1 : S = 0 := congrArg Prod.fst h
    have h2 : D = 0 := congrArg Prod.snd h
    subst h1; subst h2
    simp
  | cons r rs ih =>
    simp only [pairRows, List.map_cons, Reach] at h
    obtain ⟨xd, hxd, ⟨S', D'⟩, hr, heq⟩ := h
    simp only [pairRow, List.mem_map] at hxd
    obtain ⟨x, hx, rfl⟩ := hxd
    have h1 : S = x + S' := congrArg Prod.fst heq
    have h2 : D = ⌊x / g⌋ + rowOffset (floorRow g r) + D' := congrArg Prod.snd heq
    obtain ⟨i1, i2⟩ := ih hr
    obtain ⟨e1, _, _⟩ := rowErr_spec g r
    have e1 := e1 x hx
    have f1 := Int.floor_le (x / g)
    subst h1; subst h2
    simp only [List.map_cons, List.sum_cons, Int.cast_add, add_div]
    constructor <;> linarith

/-- **(R)**  For every word, with `X = S/g + Σ offsets` its rescaled real score, `D` its integer
    score and `E = error_max`:  `D ≤ X < D + E + 1`  (row 0 contributes less than 1 and is not part
    of `E`; every other row contributes at most its error bound). -/
theorem rounding (g : Rat) (rows : List (List Rat)) {S : Rat} {D : Int}
    (h : Reach (pairRows g rows) (S, D)) :
    ((D : Rat) ≤ S / g + ((recompute rows g).offsets.sum : Int)) ∧
      S / g + ((recompute rows g).offsets.sum : Int) < (D : Rat) + errorMax g rows + 1 := by
  cases rows with
  | nil =>
    simp only [pairRows, List.map_nil, Reach] at h
    have h1 : S = 0 := congrArg Prod.fst h
    have h2 : D = 0 := congrArg Prod.snd h
    subst h1; subst h2
    simp [recompute, errorMax]
  | cons r rs =>
    simp only [pairRows, List.map_cons, Reach] at h
    obtain ⟨xd, hxd, ⟨S', D'⟩, hr, heq⟩ := h
    simp only [pairRow, List.mem_map] at hxd
    obtain ⟨x, hx, rfl⟩ := hxd
    have h1 : S = x + S' := congrArg Prod.fst heq
    have h2 : D = ⌊x / g⌋ + rowOffset (floorRow g r) + D' := congrArg Prod.snd heq
    obtain ⟨i1, i2⟩ := reach_tailRows g rs hr
    have f1 := Int.floor_le (x / g)
    have f2 := Int.lt_floor_add_one (x / g)
    subst h1; subst h2
    rw [errorMax_eq, offsets_eq]
    simp only [List.map_cons, List.sum_cons, Int.cast_add, add_div, List.drop_one, List.tail_cons]
    constructor <;> linarith

/-! ### more on `normalize` / `distribution`: strict order, key range, non-emptiness (used by C13) -/

theorem pairwise_combineAux_lt {k : Int} {v : Rat} {t : List (Int × Rat)}
    (h : List.Pairwise (fun a b : Int × Rat => a.1 ≤ b.1) ((k, v) :: t)) :
    List.Pairwise (fun a b : Int × Rat => a.1 < b.1) (combineAux k v t) := by
  induction t generalizing k v with
  | nil => simp [combineAux]
  | cons a t ih =>
    obtain ⟨k', v'⟩ := a
    unfold combineAux
    rw [List.pairwise_cons] at h
    obtain ⟨hk, ht⟩ := h
    have ht' := ht
    rw [List.pairwise_cons] at ht
    split
    · next heq =>
      apply ih
      rw [List.pairwise_cons]
      exact ⟨fun e he => hk e (by simp [he]), ht.2⟩
    · next hne =>
      rw [List.pairwise_cons]
      refine ⟨?_, ih ht'⟩
      have hkk : k < k' := lt_of_le_of_ne (hk (k', v') (by simp)) (Ne.symm hne)
      intro e he
      rcases (mem_combineAux he).1 with h1 | ⟨e', he', h1⟩
      · rw [h1]; exact hkk
      · rw [← h1]; exact lt_of_lt_of_le hkk (ht.1 e' he')

/-- `normalize` yields strictly ascending keys -/
theorem pairwise_normalize_lt (l : List (Int × Rat)) :
    List.Pairwise (fun a b : Int × Rat => a.1 < b.1) (normalize l) := by
  unfold normalize
  have hs : List.Pairwise (fun a b : Int × Rat => a.1 ≤ b.1)
      (l.mergeSort (fun a b => decide (a.1 ≤ b.1))) := by
    have := List.pairwise_mergeSort (le := fun a b : Int × Rat => decide (a.1 ≤ b.1))
      (by intro a b c; simp; omega) (by intro a b; simp; omega) l
    simpa using this
  generalize l.mergeSort (fun a b => decide (a.1 ≤ b.1)) = s at hs
  cases s with
  | nil => simp [combine]
  | cons a t => obtain ⟨k, v⟩ := a; exact pairwise_combineAux_lt hs

theorem normalize_keys {l : List (Int × Rat)} {P : Int → Prop} (h : ∀ e ∈ l, P e.1) :
    ∀ e ∈ normalize l, P e.1 := by
  intro e he
  unfold normalize at he
  have hperm := List.mergeSort_perm l (fun a b => decide (a.1 ≤ b.1))
  have h' : ∀ e ∈ l.mergeSort (fun a b => decide (a.1 ≤ b.1)), P e.1 :=
    fun e he => h e (hperm.mem_iff.1 he)
  generalize l.mergeSort (fun a b => decide (a.1 ≤ b.1)) = s at he h'
  cases s with
  | nil => simp [combine] at he
  | cons a t =>
    obtain ⟨k, v⟩ := a
    simp only [combine] at he
    rcases (mem_combineAux he).1 with h1 | ⟨e', he', h1⟩
    · rw [h1]; exact h' (k, v) (by simp)
    · rw [← h1]; exact h' e' (by simp [he'])

theorem combineAux_ne_nil (k : Int) (v : Rat) (t : List (Int × Rat)) : combineAux k v t ≠ [] := by
  induction t generalizing k v with
  | nil => simp [combineAux]
  | cons a t ih =>
    obtain ⟨k', v'⟩ := a
    unfold combineAux
    split
    · exact ih _ _
    · simp

theorem normalize_ne_nil {l : List (Int × Rat)} (h : l ≠ []) : normalize l ≠ [] := by
  unfold normalize
  have hperm := List.mergeSort_perm l (fun a b => decide (a.1 ≤ b.1))
  have hne : l.mergeSort (fun a b => decide (a.1 ≤ b.1)) ≠ [] := by
    intro h0; rw [h0] at hperm; exact h (List.Perm.eq_nil hperm.symm)
  generalize l.mergeSort (fun a b => decide (a.1 ≤ b.1)) = s at hne
  cases s with
  | nil => exact absurd rfl hne
  | cons a t => obtain ⟨k, v⟩ := a; exact combineAux_ne_nil k v t

theorem distribution_ne_nil (bg : List Rat) {im : List (List Int)} (hne : im ≠ []) (min max : Int) :
    distribution im bg min max ≠ [] := by
  cases im with
  | nil => exact absurd rfl hne
  | cons row0 rest => exact normalize_ne_nil (by simp)

theorem distribution_sorted (bg : List Rat) (im : List (List Int)) (min max : Int) :
    (distribution im bg min max).Pairwise (fun a b => a.1 < b.1) := by
  unfold distribution
  split
  · exact List.Pairwise.nil
  · exact pairwise_normalize_lt _

theorem distFrom_keys_le (bg : List Rat) (min max : Int) {rest : List (List Int)} (hne : rest ≠ [])
    (q : List (Int × Rat)) : ∀ e ∈ distFrom bg min max rest q, e.1 ≤ max + 1 := by
  induction rest generalizing q with
  | nil => exact absurd rfl hne
  | cons row rest ih =>
    simp only [distFrom]
    cases rest with
    | nil =>
      simp only [distFrom]
      apply normalize_keys (P := fun k => k ≤ max + 1)
      intro e he
      rw [stepEntries_eq, List.mem_flatMap] at he
      obtain ⟨e0, _, he⟩ := he
      obtain ⟨xb, _, _, rfl⟩ := mem_entryStep he
      by_cases ho : e0.1 + xb.1 > max
      · simp only [ho, if_true]; omega
      · simp only [ho, if_false]; omega
    | cons row' rest' => exact ih (by simp) _

/-- with at least two rows every key of `distribution min max` is `≤ max + 1` -/
theorem distribution_keys_le (bg : List Rat) {im : List (List Int)} (hlen : 2 ≤ im.length)
    (min max : Int) : ∀ e ∈ distribution im bg min max, e.1 ≤ max + 1 := by
  cases im with
  | nil => simp at hlen
  | cons row0 rest =>
    have hne : rest ≠ [] := by intro h; simp [h] at hlen
    simp only [distribution]
    apply normalize_keys (P := fun k => k ≤ max + 1)
    intro e he
    rcases List.mem_cons.1 he with he | he
    · subst he; exact le_refl _
    · exact distFrom_keys_le bg min max hne _ e he

/-- `P(D ≥ k)` for the integer score `D` -/
def tailD (bg : List Rat) (im : List (List Int)) (k : Int) : Rat :=
  expect bg im (fun j => if k ≤ j then 1 else 0)

/-- the tails read off the map are the exact tails of `D`, for every threshold inside the window -/
theorem tailFrom_distribution (bg : List Rat) {im : List (List Int)} (him : NonnegRows im)
    (hne : im ≠ []) {min max k : Int} (h1 : min ≤ k) (h2 : k ≤ max + 1) :
    tailFrom (distribution im bg min max) k = tailD bg im k := by
  rw [tailFrom_eq, tailD, ← distribution_spec bg him hne (min := min) (max := max)]
  constructor
  · intro j hj; simp; omega
  · intro j hj
    have h3 : k ≤ j := by omega
    simp [h3, h2]

theorem tailD_antitone {bg : List Rat} (hbg : ∀ b ∈ bg, 0 ≤ b) (im : List (List Int)) {j k : Int}
    (h : j ≤ k) : tailD bg im k ≤ tailD bg im j := by
  apply expect_mono hbg
  intro s
  by_cases hk : k ≤ s
  · have : j ≤ s := le_trans h hk
    simp [hk, this]
  · by_cases hj : j ≤ s <;> simp [hk, hj]

/-- scores below the sum of the row minima are not reachable -/
theorem expect_congr_ge_min (bg : List Rat) {rows : List (List Int)} {f h : Int → Rat}
    (hfh : ∀ s, (rows.map listMin).sum ≤ s → f s = h s) : expect bg rows f = expect bg rows h := by
  induction rows generalizing f h with
  | nil => exact hfh 0 (by simp)
  | cons r rs ih =>
    simp only [expect]
    congr 1
    apply List.map_congr_left
    intro xb hxb
    have h1 : listMin r ≤ xb.1 := listMin_le (List.of_mem_zip hxb).1
    congr 1
    apply ih
    intro s hs
    apply hfh
    simp only [List.map_cons, List.sum_cons]
    omega

/-! ### every contributed key is a key of the normalized map; linearity of `expect` -/

theorem combineAux_key {k0 : Int} {v : Rat} {t : List (Int × Rat)} {k : Int}
    (h : k0 = k ∨ ∃ e ∈ t, e.1 = k) : ∃ e ∈ combineAux k0 v t, e.1 = k := by
  induction t generalizing k0 v with
  | nil =>
    rcases h with h | ⟨e, he, _⟩
    · exact ⟨(k0, v), by simp [combineAux], h⟩
    · simp at he
  | cons a t ih =>
    obtain ⟨k', v'⟩ := a
    unfold combineAux
    split
    · next heq =>
      apply ih
      rcases h with h | ⟨e, he, hk⟩
      · exact Or.inl h
      · rcases List.mem_cons.1 he with he | he
        · subst he; exact Or.inl (by rw [← heq]; exact hk)
        · exact Or.inr ⟨e, he, hk⟩
    · next hne =>
      rcases h with h | ⟨e, he, hk⟩
      · exact ⟨(k0, v), List.mem_cons_self, h⟩
      · obtain ⟨e', he', hk'⟩ := ih (k0 := k') (v := v') (by
          rcases List.mem_cons.1 he with he | he
          · subst he; exact Or.inl hk
          · exact Or.inr ⟨e, he, hk⟩)
        exact ⟨e', List.mem_cons_of_mem _ he', hk'⟩

theorem normalize_key {l : List (Int × Rat)} {k : Int} (h : ∃ e ∈ l, e.1 = k) :
    ∃ e ∈ normalize l, e.1 = k := by
  unfold normalize
  have hperm := List.mergeSort_perm l (fun a b => decide (a.1 ≤ b.1))
  obtain ⟨e, he, hk⟩ := h
  have he' : e ∈ l.mergeSort (fun a b => decide (a.1 ≤ b.1)) := hperm.mem_iff.2 he
  generalize l.mergeSort (fun a b => decide (a.1 ≤ b.1)) = s at he'
  cases s with
  | nil => simp at he'
  | cons a t =>
    obtain ⟨k0, v0⟩ := a
    simp only [combine]
    apply combineAux_key
    rcases List.mem_cons.1 he' with h | h
    · subst h; exact Or.inl hk
    · exact Or.inr ⟨e, h, hk⟩

/-- the key `max + 1` (the bucket) is always present -/
theorem distribution_bucket_key (bg : List Rat) {im : List (List Int)} (hne : im ≠ [])
    (min max : Int) : ∃ e ∈ distribution im bg min max, e.1 = max + 1 := by
  cases im with
  | nil => exact absurd rfl hne
  | cons row0 rest =>
    simp only [distribution]
    exact normalize_key ⟨(max + 1, Num.zero), List.mem_cons_self, rfl⟩

theorem expect_add {σ : Type} [Add σ] [Zero σ] (bg : List Rat) (rows : List (List σ))
    (f h : σ → Rat) :
    expect bg rows (fun s => f s + h s) = expect bg rows f + expect bg rows h := by
  induction rows generalizing f h with
  | nil => rfl
  | cons r rs ih =>
    simp only [expect]
    rw [← List.sum_map_add]
    congr 1
    apply List.map_congr_left
    intro xb _
    rw [ih]; ring

theorem tailFrom_eq_of_no_key {Q : List (Int × Rat)} {lo hi : Int}
    (h : ∀ e ∈ Q, e.1 < lo ∨ hi ≤ e.1) (hle : lo ≤ hi) : tailFrom Q lo = tailFrom Q hi := by
  rw [tailFrom_eq, tailFrom_eq]
  apply wsum_congr
  intro e he
  rcases h e he with h1 | h1
  · have a : ¬ lo ≤ e.1 := by omega
    have b : ¬ hi ≤ e.1 := by omega
    simp [a, b]
  · have a : lo ≤ e.1 := by omega
    simp [a, h1]

/-! ### the hypotheses of (D) and (R) are satisfiable -/

example : NonnegRows [[0, 3], [1, 0]] ∧ ([[0, 3], [1, 0]] : List (List Int)) ≠ [] ∧
    Adm 1 2 (fun k => if k = 2 then 1 else 0) := by
  refine ⟨by intro r hr x hx; simp at hr; rcases hr with rfl | rfl <;> simp at hx <;> omega,
    by simp, ?_, ?_⟩
  · intro k hk
    have : k ≠ 2 := by omega
    simp [this]
  · intro k hk
    have : k ≠ 2 := by omega
    simp [this]

example : Reach (pairRows (1 / 10) [[1 / 4]]) (1 / 4, 0) := by
  refine ⟨(1 / 4, 0), ?_, (0, 0), rfl, by simp⟩
  simp [pairRow, floorRow, rowOffset, listMin]

end LMV.Tfm
