/-
  LMV.Lemmas.Jaspar16RT — round trip of the JASPAR 2016 format (symbol lines in any order, any
  subset of the alphabet).  Core Lean only.
-/
import LMV.Lemmas.JasparRT

namespace LMV

open Io Nom

/-- the letters of the alphabet are ASCII, are read back by `from_ascii` as their own index, and
    `>` is not a letter (facts of the regenerated tables, decided for both alphabets) -/
def Alphabet.LettersOK (A : Alphabet) : Prop :=
  (∀ a, a < A.K → A.letters.getD a 0 < 0x80 ∧ A.fromAscii (A.letters.getD a 0) = some a ∧
    A.letters.getD a 0 ≠ 0x3E) ∧ A.fromAscii 0x3E = none

instance (A : Alphabet) : Decidable A.LettersOK := by unfold Alphabet.LettersOK; infer_instance

theorem dna_lettersOK : dna.LettersOK := by decide
theorem protein_lettersOK : protein.LettersOK := by decide

namespace Jaspar16

theorem symbol_letter {A : Alphabet} (hA : A.LettersOK) (a : Nat) (ha : a < A.K) (rest : Bytes) :
    symbol A (A.letters.getD a 0 :: rest) = .ok rest a := by
  obtain ⟨h1, h2, _⟩ := hA.1 a ha
  generalize A.letters.getD a 0 = l at h1 h2
  have hc : charLen l = 1 := by simp [charLen, h1]
  simp [symbol, mapRes, anychar, hc, h1, h2]

theorem symbol_mark {A : Alphabet} (hA : A.LettersOK) (rest : Bytes) :
    symbol A (0x3E :: rest) = .err := by
  have hc : charLen 0x3E = 1 := by decide
  have : (0x3E : UInt8) < 0x80 := by decide
  simp [symbol, mapRes, anychar, hc, this, hA.2]

theorem symbol_nil (A : Alphabet) : symbol A [] = .err := by
  simp [symbol, mapRes, anychar]

theorem space0_stop (b : UInt8) (hb : isSpace b = false) (rest : Bytes) :
    space0 (b :: rest) = .ok (b :: rest) [] := by
  simp [space0, takeWhile, hb]

theorem space0_of_space1_err (i : Bytes) (h : space1 i = .err) : space0 i = .ok i [] := by
  cases i with
  | nil => simp [space0, takeWhile]
  | cons b bs =>
    have hb : isSpace b = false := by
      cases hb : isSpace b with
      | false => rfl
      | true => simp [space1, hb] at h
    exact space0_stop b hb bs

theorem counts_render (xs : List Nat) (hx : ∀ x ∈ xs, x < 4294967296) (rest : Bytes) :
    counts (0x5B :: (Jaspar.renderCounts xs ++ 0x5D :: 0x0A :: rest)) = .ok (0x0A :: rest) xs := by
  unfold counts
  have hopen : delimited space0 (tag [0x5B]) space0 (0x5B :: (Jaspar.renderCounts xs ++ 0x5D :: 0x0A :: rest))
      = .ok (Jaspar.renderCounts xs ++ 0x5D :: 0x0A :: rest) [0x5B] := by
    exact delimited_eval (space0_stop 0x5B (by decide) _) (tag_eval [0x5B] _)
      (space0_of_space1_err _ (Jaspar.space1_renderCounts xs 0x5D (by decide) (0x0A :: rest)))
  have hclose : delimited space0 (tag [0x5D]) space0 (0x5D :: 0x0A :: rest) = .ok (0x0A :: rest) [0x5D] :=
    delimited_eval (space0_stop 0x5D (by decide) _) (tag_eval [0x5D] _) (space0_stop 0x0A (by decide) _)
  exact delimited_eval hopen (Jaspar.sepList0_render xs hx 0x5D (by decide) (by decide) _) hclose

/-- a rendered symbol line is read back exactly -/
theorem matrixColumn_render {A : Alphabet} (hA : A.LettersOK) (c : Nat × List Nat) (hc : c.1 < A.K)
    (hx : ∀ x ∈ c.2, x < 4294967296) (rest : Bytes) :
    matrixColumn A (renderCol A c ++ rest) = .ok rest c := by
  have e : renderCol A c ++ rest = A.letters.getD c.1 0 :: 0x20 :: 0x5B ::
      (Jaspar.renderCounts c.2 ++ 0x5D :: 0x0A :: rest) := by simp [renderCol]
  rw [e]
  unfold matrixColumn
  have hsp : space1 (0x20 :: 0x5B :: (Jaspar.renderCounts c.2 ++ 0x5D :: 0x0A :: rest))
      = .ok (0x5B :: (Jaspar.renderCounts c.2 ++ 0x5D :: 0x0A :: rest)) [0x20] := by
    simp [space1, isSpace]
  have hle : lineEnding (0x0A :: rest) = .ok rest [0x0A] := by simp [lineEnding]
  exact terminated_eval
    (pair_eval (symbol_letter hA c.1 hc _) (preceded_eval hsp (counts_render c.2 hx rest))) hle

/-- `matrix_column` fails where a file or the next record begins -/
theorem matrixColumn_stop {A : Alphabet} (hA : A.LettersOK) (rest : Bytes)
    (h : rest = [] ∨ rest = [0x3E]) : matrixColumn A rest = .err := by
  rcases h with h | h <;> subst h
  · simp [matrixColumn, terminated, separatedPair, pmap, pair, symbol_nil, PRes.map]
  · simp [matrixColumn, terminated, separatedPair, pmap, pair, symbol_mark hA, PRes.map]

theorem renderCol_length (A : Alphabet) (c : Nat × List Nat) (x : Bytes) :
    x.length < (renderCol A c ++ x).length := by simp [renderCol]; omega

theorem manyLoop_render {A : Alphabet} (hA : A.LettersOK) (cols : List (Nat × List Nat))
    (hc : ∀ c ∈ cols, c.1 < A.K) (hx : ∀ c ∈ cols, ∀ x ∈ c.2, x < 4294967296) (rest : Bytes)
    (hr : rest = [] ∨ rest = [0x3E]) :
    ∀ acc, manyLoop (matrixColumn A) (cols.flatMap (renderCol A) ++ rest) acc
      = .ok rest (acc.reverse ++ cols) := by
  induction cols with
  | nil =>
    intro acc
    rw [manyLoop]
    simp [matrixColumn_stop hA rest hr]
  | cons c cs ih =>
    intro acc
    have e : (c :: cs).flatMap (renderCol A) ++ rest = renderCol A c ++ (cs.flatMap (renderCol A) ++ rest) := by
      simp
    rw [e, manyLoop, matrixColumn_render hA c (hc c (by simp)) (hx c (by simp))]
    simp only
    rw [if_pos (renderCol_length A c _)]
    rw [ih (fun c' h' => hc c' (by simp [h'])) (fun c' h' => hx c' (by simp [h'])) (c :: acc)]
    simp

theorem many1_render {A : Alphabet} (hA : A.LettersOK) (cols : List (Nat × List Nat))
    (hne : cols ≠ []) (hc : ∀ c ∈ cols, c.1 < A.K) (hx : ∀ c ∈ cols, ∀ x ∈ c.2, x < 4294967296)
    (rest : Bytes) (hr : rest = [] ∨ rest = [0x3E]) :
    many1 (matrixColumn A) (cols.flatMap (renderCol A) ++ rest) = .ok rest cols := by
  cases cols with
  | nil => exact absurd rfl hne
  | cons c cs =>
    have e : (c :: cs).flatMap (renderCol A) ++ rest = renderCol A c ++ (cs.flatMap (renderCol A) ++ rest) := by
      simp
    rw [e]
    unfold many1
    rw [matrixColumn_render hA c (hc c (by simp)) (hx c (by simp))]
    simp only
    rw [manyLoop_render hA cs (fun c' h' => hc c' (by simp [h'])) (fun c' h' => hx c' (by simp [h']))
      rest hr [c]]
    simp

/-- the loop of `build_matrix` puts every column where its symbol says -/
theorem buildSymLoop_spec {K : Nat} (cols : List (Nat × List Nat)) :
    ∀ (m : Mat Nat K) (done : List Nat),
      (∀ c ∈ cols, c.1 < K) → (∀ c ∈ cols, c.1 ∉ done) → (cols.map (·.1)).Nodup →
      (∀ c ∈ cols, c.2.length = m.rows) →
      ∃ m', buildSymLoop m done cols = .ok m' ∧ m'.rows = m.rows ∧
        ∀ r c, r < m.rows → m'.get r c =
          match cols.find? (·.1 == c) with
          | some col => col.2.getD r 0
          | none => m.get r c := by
  induction cols with
  | nil => intro m done _ _ _ _; exact ⟨m, rfl, rfl, fun r c _ => rfl⟩
  | cons p rest ih =>
    intro m done hK hdone hnd hlen
    obtain ⟨s, cs⟩ := p
    have hs : s < K := hK (s, cs) (by simp)
    have hsd : s ∉ done := hdone (s, cs) (by simp)
    have hl : cs.length = m.rows := hlen (s, cs) (by simp)
    simp only [List.map_cons, List.nodup_cons] at hnd
    obtain ⟨m1, f1, r1⟩ := fillColumn_some s hs cs m 0 (by omega)
    obtain ⟨_, g1⟩ := Jaspar.fillColumn_get s cs m m1 0 f1
    obtain ⟨m', b1, b2, b3⟩ := ih m1 (s :: done) (fun c hc => hK c (by simp [hc]))
      (fun c hc => by
        simp only [List.mem_cons, not_or]
        refine ⟨?_, hdone c (by simp [hc])⟩
        intro e
        exact hnd.1 (by rw [← e]; exact List.mem_map_of_mem hc))
      hnd.2 (fun c hc => by rw [r1]; exact hlen c (by simp [hc]))
    refine ⟨m', ?_, by omega, ?_⟩
    · have hcontains : done.contains s = false := by simpa using hsd
      simp only [buildSymLoop, Nat.not_le.mpr hs, if_false, hcontains, Bool.false_eq_true, hl, ne_eq,
        not_true_eq_false, f1]
      exact b1
    · intro r c hr
      rw [b3 r c (by omega)]
      by_cases hcs : s = c
      · subst hcs
        have hfind : rest.find? (·.1 == s) = none := by
          rw [List.find?_eq_none]
          intro x hx hxs
          exact hnd.1 (by
            have : x.1 = s := by simpa using hxs
            rw [← this]; exact List.mem_map_of_mem hx)
        simp only [hfind, List.find?_cons, beq_self_eq_true]
        rw [g1 r s, if_pos ⟨rfl, Nat.zero_le _, by omega⟩]
        simp
      · have hbeq : ((s, cs).1 == c) = false := by simpa using hcs
        simp only [List.find?_cons, hbeq]
        cases hfind : rest.find? (·.1 == c) with
        | some col => rfl
        | none =>
          simp only
          rw [g1 r c, if_neg (fun e => hcs e.1.symm)]

theorem buildMatrix_render (A : Alphabet) (r : Src) (h : WF A r) :
    buildMatrix A r.cols = .ok (expect A r).matrix := by
  obtain ⟨_, hne, hK, hnd, hlen, _⟩ := h
  cases hcols : r.cols with
  | nil => exact absurd hcols hne
  | cons p rest =>
    rw [hcols] at hK hnd hlen
    simp only [List.headD_cons] at hlen
    unfold buildMatrix
    simp only
    obtain ⟨m', b1, b2, b3⟩ := buildSymLoop_spec (p :: rest)
      ((Mat.empty : Mat Nat A.K).resize p.2.length 0) [] hK (fun _ _ => by simp) hnd
      (fun c hc => by rw [hlen c hc]; simp)
    rw [b1]
    congr 1
    apply Mat.ext
    · simp [expect, hcols, b2]
    · intro i j hi hj
      rw [b2] at hi
      simp only [Mat.rows_resize] at hi
      rw [b3 i j (by simpa using hi)]
      simp only [expect, hcols, List.headD_cons, Mat.get_ofFn, hi, hj, and_self, if_true]
      cases List.find? (fun x => x.1 == j) (p :: rest) with
      | some col => rfl
      | none => simp [hi, hj]

/-- **the JASPAR 2016 record parser reads a rendered motif back exactly** -/
theorem record_render {A : Alphabet} (hA : A.LettersOK) (r : Src) (h : WF A r) (rest : Bytes)
    (hr : rest = [] ∨ rest = [0x3E]) :
    record A (render1 A r ++ rest) = .ok rest (.ok (expect A r)) := by
  have e : render1 A r ++ rest = Jaspar.renderHeader r.id r.description ++
      (r.cols.flatMap (renderCol A) ++ rest) := by simp [render1]
  rw [e]
  unfold record
  have hm : matrix A (r.cols.flatMap (renderCol A) ++ rest) = .ok rest (.ok (expect A r).matrix) := by
    unfold matrix built
    rw [many1_render hA r.cols h.2.1 h.2.2.1 h.2.2.2.2.2 rest hr]
    simp only [buildMatrix_render A r h]
  rw [pmap_eval (pair_eval (Jaspar.header_render r.id r.description h.1 _) hm)]
  rfl

theorem renderCol_ok {A : Alphabet} (hA : A.LettersOK) (c : Nat × List Nat) (hc : c.1 < A.K) :
    (0x3E : UInt8) ∉ renderCol A c ∧ ∀ x : Bytes, validUtf8 (renderCol A c ++ x) = validUtf8 x := by
  obtain ⟨h1, _, h3⟩ := hA.1 c.1 hc
  constructor
  · intro hm
    simp only [renderCol, List.mem_cons, List.mem_append, List.not_mem_nil, or_false] at hm
    rcases hm with (hm | hm | hm | hm) | hm | hm
    · exact h3 hm.symm
    · cases hm
    · cases hm
    · exact (Jaspar.renderCounts_ok _).1 hm
    · cases hm
    · cases hm
  · intro x
    have e : renderCol A c ++ x = A.letters.getD c.1 0 :: 0x20 :: 0x5B ::
        (Jaspar.renderCounts c.2 ++ 0x5D :: 0x0A :: x) := by simp [renderCol]
    rw [e, validUtf8_cons, if_pos h1, validUtf8_cons, if_pos (by decide), validUtf8_cons,
      if_pos (by decide), validUtf8_append _ _ (Jaspar.renderCounts_ok _).2, validUtf8_cons,
      if_pos (by decide), validUtf8_cons, if_pos (by decide)]

theorem cols_ok {A : Alphabet} (hA : A.LettersOK) (cols : List (Nat × List Nat))
    (hc : ∀ c ∈ cols, c.1 < A.K) :
    (0x3E : UInt8) ∉ cols.flatMap (renderCol A) ∧
    ∀ x : Bytes, validUtf8 (cols.flatMap (renderCol A) ++ x) = validUtf8 x := by
  induction cols with
  | nil => simp
  | cons c cs ih =>
    obtain ⟨i1, i2⟩ := ih (fun c' h' => hc c' (by simp [h']))
    obtain ⟨c1, c2⟩ := renderCol_ok hA c (hc c (by simp))
    constructor
    · simp only [List.flatMap_cons, List.mem_append, not_or]; exact ⟨c1, i1⟩
    · intro x
      rw [List.flatMap_cons, List.append_assoc, c2, i2]

theorem formatOK {A : Alphabet} (hA : A.LettersOK) :
    Jaspar.FormatOK (record A) (render1 A) (expect A) (WF A) := by
  have hbody : ∀ r, WF A r → render1 A r = 0x3E :: (r.id ++ (Jaspar.descTail r.description ++ [0x0A]) ++
      r.cols.flatMap (renderCol A)) := by
    intro r h
    simp only [render1, (Jaspar.header_ok _ _ h.1).1]
    simp
  constructor
  · intro r h; rw [Jaspar.gbody, hbody r h]; rfl
  · intro r h
    rw [Jaspar.gbody, hbody r h]
    simp only [List.tail_cons]
    intro hm
    rcases List.mem_append.mp hm with hm | hm
    · exact (Jaspar.header_ok _ _ h.1).2.1 hm
    · exact (cols_ok hA r.cols h.2.2.1).1 hm
  · intro r h
    have := (cols_ok hA r.cols h.2.2.1).2 []
    simp only [List.append_nil] at this
    rw [render1, (Jaspar.header_ok _ _ h.1).2.2, this]
    rfl
  · intro r h
    rw [Jaspar.gbody, hbody r h]
    cases hd : r.description <;> simp [Jaspar.descTail]
  · intro r h rest hr; exact record_render hA r h rest hr

/-- **JASPAR 2016 round trip** -/
theorem roundTrip {A : Alphabet} (hA : A.LettersOK) (grow : Nat → Nat → Nat → Nat) (sched : List Nat)
    (rs : List Src) (hwf : ∀ r ∈ rs, WF A r) :
    outcomes (Jaspar.next (record A) grow) (rs.length + 1) (Jaspar.new grow sched (render A rs))
      = rs.map (fun r => Outcome.record (expect A r)) ++ [Outcome.done] :=
  Jaspar.roundTrip_of (formatOK hA) grow sched rs hwf

end Jaspar16
end LMV
