/-
  LMV.Lemmas.Score — helper lemmas for the scoring models: panicking loops, materialised
  registers, write loops into a result matrix over ANY carrier, and the closed form of the generic
  scoring loops.
-/
import LMV.Model.Score
import LMV.Lemmas.Stripe

namespace LMV
namespace Score

open Striped (foldl_range_succ)

variable {α : Type} {C K : Nat}

/-! ### loops that may panic -/

theorem foldE_ok {ι β ε : Type} (l : List ι) (f : β → ι → Except ε β) (g : β → ι → β)
    (h : ∀ b x, x ∈ l → f b x = .ok (g b x)) (b : β) : foldE l f b = .ok (l.foldl g b) := by
  induction l generalizing b with
  | nil => rfl
  | cons x xs ih =>
    simp only [foldE, List.foldl_cons]
    rw [h b x (by simp)]
    exact ih (fun b y hy => h b y (by simp [hy])) (g b x)

/-- a loop with an iteration that panics whatever the state panics (at that iteration or before) -/
theorem foldE_error_of_mem {ι β ε : Type} (l : List ι) (f : β → ι → Except ε β) (x : ι) (hx : x ∈ l)
    (h : ∀ b, ∃ e, f b x = .error e) (b : β) : ∃ e, foldE l f b = .error e := by
  induction l generalizing b with
  | nil => cases hx
  | cons y ys ih =>
    unfold foldE
    cases hfy : f b y with
    | error e => exact ⟨e, rfl⟩
    | ok b' =>
      simp only
      rcases List.mem_cons.mp hx with rfl | hmem
      · obtain ⟨e, he⟩ := h b
        rw [he] at hfy; cases hfy
      · exact ih hmem b'

theorem foldl_ext_mem' {β γ : Type} (f g : β → γ → β) (l : List γ)
    (H : ∀ a, ∀ b ∈ l, f a b = g a b) (a : β) : l.foldl f a = l.foldl g a := by
  induction l generalizing a with
  | nil => rfl
  | cons x xs ih =>
    simp only [List.foldl_cons]
    rw [H a x (by simp), ih (fun a b hb => H a b (by simp [hb]))]

/-! ### materialised registers -/

theorem tab_getD {β : Type} (n : Nat) (f : Nat → β) (i : Nat) (d : β) (h : i < n) :
    (tab n f).getD i d = f i := by
  simp [tab, Array.getD, h]

theorem rd_tab {β : Type} (d : β) (nq nl : Nat) (f : Nat → Nat → β) (q l : Nat) (hq : q < nq)
    (hl : l < nl) : rd d (tab nq fun q => tab nl fun l => f q l) q l = f q l := by
  unfold rd
  rw [tab_getD _ _ _ _ hq, tab_getD _ _ _ _ hl]

/-- a loop over a register file, seen from one lane -/
theorem rd_foldl {β : Type} (d : β) (G : Nat → Array (Array β) → Array (Array β)) (g : Nat → β → β)
    (q l : Nat) (h : ∀ j s, rd d (G j s) q l = g j (rd d s q l)) (n : Nat) (s0 : Array (Array β)) :
    rd d ((List.range n).foldl (fun s j => G j s) s0) q l =
      (List.range n).foldl (fun v j => g j v) (rd d s0 q l) := by
  induction n with
  | zero => rfl
  | succ n ih => rw [foldl_range_succ, foldl_range_succ, h, ih]

theorem getD_foldl {β : Type} (d : β) (G : Nat → Array β → Array β) (g : Nat → β → β)
    (c : Nat) (h : ∀ j s, (G j s).getD c d = g j (s.getD c d)) (n : Nat) (s0 : Array β) :
    ((List.range n).foldl (fun s j => G j s) s0).getD c d =
      (List.range n).foldl (fun v j => g j v) (s0.getD c d) := by
  induction n with
  | zero => rfl
  | succ n ih => rw [foldl_range_succ, foldl_range_succ, h, ih]

/-! ### write loops over any carrier -/

/-- `for l in 0..n { data[k][off + l] = g l }` -/
def segWrite (k off n : Nat) (g : Nat → α) (d : Mat α C) : Mat α C :=
  (List.range n).foldl (fun d l => d.set k (off + l) (g l)) d

theorem segWrite_rows (k off n : Nat) (g : Nat → α) (d : Mat α C) :
    (segWrite k off n g d).rows = d.rows := by
  unfold segWrite
  induction n with
  | zero => rfl
  | succ n ih => rw [foldl_range_succ]; simp [ih]

theorem segWrite_getD (k off n : Nat) (g : Nat → α) (d : Mat α C) (r c : Nat) (e : α) :
    (segWrite k off n g d).getD r c e =
      if r = k ∧ off ≤ c ∧ c < off + n ∧ k < d.rows ∧ c < C then g (c - off) else d.getD r c e := by
  induction n with
  | zero =>
    simp only [segWrite, List.range_zero, List.foldl_nil]
    rw [if_neg]; omega
  | succ n ih =>
    have hstep : segWrite k off (n + 1) g d = (segWrite k off n g d).set k (off + n) (g n) := by
      unfold segWrite; rw [foldl_range_succ]
    rw [hstep, Mat.getD_set, segWrite_rows, ih]
    by_cases h1 : r = k ∧ c = off + n ∧ k < d.rows ∧ off + n < C
    · obtain ⟨ha, hb, hc, hd⟩ := h1
      rw [if_pos ⟨ha, hb, hc, hd⟩, if_pos ⟨ha, by omega, by omega, hc, by omega⟩]
      have : c - off = n := by omega
      rw [this]
    · rw [if_neg h1]
      by_cases h2 : r = k ∧ off ≤ c ∧ c < off + n ∧ k < d.rows ∧ c < C
      · rw [if_pos h2, if_pos ⟨h2.1, h2.2.1, by omega, h2.2.2.2.1, h2.2.2.2.2⟩]
      · rw [if_neg h2, if_neg]
        intro h3
        by_cases hcn : c = off + n
        · exact h1 ⟨h3.1, hcn, h3.2.2.2.1, by omega⟩
        · exact h2 ⟨h3.1, h3.2.1, by omega, h3.2.2.2.1, h3.2.2.2.2⟩

/-- the last of a list of `w`-wide stores `(offset, register)` that covers column `c`:
    `(register, lane)` -/
def lastStore (w : Nat) (stores : List (Nat × Nat)) (c : Nat) : Option (Nat × Nat) :=
  stores.foldl (fun acc op => if op.1 ≤ c ∧ c < op.1 + w then some (op.2, c - op.1) else acc) none

/-- a sequence of `w`-wide stores into row `k`, in program order -/
def storesWrite (w k : Nat) (stores : List (Nat × Nat)) (val : Nat → Nat → α) (d : Mat α C) : Mat α C :=
  stores.foldl (fun d op => segWrite k op.1 w (val op.2) d) d

theorem storesWrite_rows (w k : Nat) (stores : List (Nat × Nat)) (val : Nat → Nat → α) (d : Mat α C) :
    (storesWrite w k stores val d).rows = d.rows := by
  unfold storesWrite
  induction stores generalizing d with
  | nil => rfl
  | cons op ops ih => rw [List.foldl_cons, ih, segWrite_rows]

theorem list_snoc_induction {γ : Type} {P : List γ → Prop} (nil : P [])
    (snoc : ∀ l a, P l → P (l ++ [a])) (l : List γ) : P l := by
  have h : ∀ l : List γ, P l.reverse := by
    intro l
    induction l with
    | nil => exact nil
    | cons a l ih => rw [List.reverse_cons]; exact snoc _ _ ih
  rw [← List.reverse_reverse l]; exact h _

theorem storesWrite_getD (w k : Nat) (stores : List (Nat × Nat)) (val : Nat → Nat → α) (d : Mat α C)
    (r c : Nat) (e : α) :
    (storesWrite w k stores val d).getD r c e =
      match lastStore w stores c with
      | some (p, l) => if r = k ∧ k < d.rows ∧ c < C then val p l else d.getD r c e
      | none => d.getD r c e := by
  induction stores using list_snoc_induction with
  | nil => rfl
  | snoc ops op ih =>
    have e1 : storesWrite w k (ops ++ [op]) val d =
        segWrite k op.1 w (val op.2) (storesWrite w k ops val d) := by
      unfold storesWrite; rw [List.foldl_append]; rfl
    have e2 : lastStore w (ops ++ [op]) c =
        if op.1 ≤ c ∧ c < op.1 + w then some (op.2, c - op.1) else lastStore w ops c := by
      unfold lastStore; rw [List.foldl_append]; rfl
    rw [e1, e2, segWrite_getD, storesWrite_rows, ih]
    by_cases h1 : op.1 ≤ c ∧ c < op.1 + w
    · rw [if_pos h1]
      simp only
      by_cases h2 : r = k ∧ k < d.rows ∧ c < C
      · rw [if_pos ⟨h2.1, h1.1, h1.2, h2.2.1, h2.2.2⟩, if_pos h2]
      · rw [if_neg (fun h => h2 ⟨h.1, h.2.2.2.1, h.2.2.2.2⟩), if_neg h2]
        cases lastStore w ops c with
        | none => rfl
        | some pl => obtain ⟨p, l⟩ := pl; simp only; rw [if_neg h2]
    · rw [if_neg h1, if_neg (fun h => h1 ⟨h.2.1, h.2.2.1⟩)]

/-- a loop whose iteration `k` rewrites (part of) row `k` only -/
theorem rowLoop_getD (F : Nat → Mat α C → Mat α C) (v : Nat → Nat → α) (P : Nat → Bool) (e : α)
    (n : Nat)
    (hrows : ∀ k d, (F k d).rows = d.rows)
    (hget : ∀ k, k < n → ∀ d r c, (F k d).getD r c e =
      if r = k ∧ k < d.rows ∧ P c = true then v k c else d.getD r c e)
    (d : Mat α C) (r c : Nat) :
    ((List.range n).foldl (fun d k => F k d) d).rows = d.rows ∧
    ((List.range n).foldl (fun d k => F k d) d).getD r c e =
      if r < n ∧ r < d.rows ∧ P c = true then v r c else d.getD r c e := by
  have aux : ∀ m, m ≤ n →
      ((List.range m).foldl (fun d k => F k d) d).rows = d.rows ∧
      ((List.range m).foldl (fun d k => F k d) d).getD r c e =
        if r < m ∧ r < d.rows ∧ P c = true then v r c else d.getD r c e := by
    intro m
    induction m with
    | zero =>
      intro _
      refine ⟨rfl, ?_⟩
      simp only [List.range_zero, List.foldl_nil]
      rw [if_neg]; omega
    | succ m ih =>
      intro hm
      have ih := ih (by omega)
      rw [foldl_range_succ]
      refine ⟨by rw [hrows, ih.1], ?_⟩
      rw [hget m (by omega), ih.1, ih.2]
      by_cases h1 : r = m ∧ m < d.rows ∧ P c = true
      · rw [if_pos h1, if_pos ⟨by omega, by omega, h1.2.2⟩, h1.1]
      · rw [if_neg h1]
        by_cases h2 : r < m ∧ r < d.rows ∧ P c = true
        · rw [if_pos h2, if_pos ⟨by omega, h2.2.1, h2.2.2⟩]
        · rw [if_neg h2, if_neg]
          intro h3
          by_cases hrn : r = m
          · exact h1 ⟨hrn, by omega, h3.2.2⟩
          · exact h2 ⟨by omega, h3.2.1, h3.2.2⟩
  exact aux n (Nat.le_refl n)

/-- extensionality through `getD` (no `Inhabited` instance needed) -/
theorem mat_ext (e : α) {x y : Mat α C} (hr : x.rows = y.rows)
    (h : ∀ r c, r < x.rows → c < C → x.getD r c e = y.getD r c e) : x = y := by
  letI : Inhabited α := ⟨e⟩
  exact Mat.ext hr h

/-! ### the generic loops: closed form -/

/-- the score of one window given the symbol at each motif position, in scalar order:
    `((0 + m[0][sym 0]) + m[1][sym 1]) + …` -/
def cellSum (zero : α) (add : α → α → α) (pssm : Mat α K) (sym : Nat → Nat) : α :=
  (List.range pssm.rows).foldl (fun v j => add v (pssm.getD j (sym j) zero)) zero

theorem cellGeneric_ok (zero : α) (add : α → α → α) (pssm : Mat α K) (seq : Mat Nat C)
    (seqRow col : Nat)
    (h : ∀ j, j < pssm.rows → seqRow + j < seq.rows ∧ seq.getD (seqRow + j) col 0 < K) :
    cellGeneric zero add pssm seq seqRow col =
      .ok (cellSum zero add pssm fun j => seq.getD (seqRow + j) col 0) := by
  unfold cellGeneric cellSum
  apply foldE_ok
  intro b j hj
  have hj := h j (List.mem_range.mp hj)
  simp only [hj.1, hj.2, if_true]

/-- the matrix the generic loops produce -/
def genericRows (zero : α) (add : α → α → α) (pssm : Mat α K) (seq : Mat Nat C) (a n : Nat)
    (d : Mat α C) : Mat α C :=
  (List.range n).foldl (fun d k =>
    segWrite k 0 C (fun col => cellSum zero add pssm fun j => seq.getD (a + k + j) col 0) d) d

theorem rowsGeneric_ok (zero : α) (add : α → α → α) (pssm : Mat α K) (seq : Mat Nat C) (a n : Nat)
    (d : Mat α C)
    (h : ∀ k j col, k < n → j < pssm.rows → col < C →
      a + k + j < seq.rows ∧ seq.getD (a + k + j) col 0 < K) :
    rowsGeneric zero add pssm seq a n d = .ok (genericRows zero add pssm seq a n d) := by
  unfold rowsGeneric genericRows
  apply foldE_ok
  intro d k hk
  have hk := List.mem_range.mp hk
  unfold segWrite
  apply foldE_ok
  intro d col hcol
  have hcol := List.mem_range.mp hcol
  rw [cellGeneric_ok zero add pssm seq (a + k) col (fun j hj => h k j col hk hj hcol)]
  simp only [Nat.zero_add]

/-- the generic loops panic as soon as one row of the range lacks a look-ahead row -/
theorem rowsGeneric_error (hC : 0 < C) (zero : α) (add : α → α → α) (pssm : Mat α K) (seq : Mat Nat C)
    (a n : Nat) (d : Mat α C) (k j : Nat) (hk : k < n) (hj : j < pssm.rows)
    (hrow : seq.rows ≤ a + k + j) : ∃ e, rowsGeneric zero add pssm seq a n d = .error e := by
  unfold rowsGeneric
  apply foldE_error_of_mem _ _ k (List.mem_range.mpr hk)
  intro d
  apply foldE_error_of_mem _ _ 0 (List.mem_range.mpr hC)
  intro d'
  have hcell : ∃ e, cellGeneric zero add pssm seq (a + k) 0 = .error e := by
    unfold cellGeneric
    apply foldE_error_of_mem _ _ j (List.mem_range.mpr hj)
    intro sc
    exact ⟨"row-oob", by rw [if_neg (by omega)]⟩
  obtain ⟨e, he⟩ := hcell
  exact ⟨e, by rw [he]⟩

theorem genericRows_spec (zero : α) (add : α → α → α) (pssm : Mat α K) (seq : Mat Nat C) (a n : Nat)
    (d : Mat α C) (r c : Nat) :
    (genericRows zero add pssm seq a n d).rows = d.rows ∧
    (genericRows zero add pssm seq a n d).getD r c zero =
      if r < n ∧ r < d.rows ∧ decide (c < C) = true
      then cellSum zero add pssm fun j => seq.getD (a + r + j) c 0 else d.getD r c zero := by
  unfold genericRows
  apply rowLoop_getD
    (F := fun k d => segWrite k 0 C (fun col => cellSum zero add pssm fun j => seq.getD (a + k + j) col 0) d)
    (v := fun r c => cellSum zero add pssm fun j => seq.getD (a + r + j) c 0)
  · intro k d; exact segWrite_rows ..
  · intro k _ d r c
    rw [segWrite_getD]
    simp only [Nat.zero_le, Nat.zero_add, true_and, Nat.sub_zero, decide_eq_true_eq]
    by_cases h : r = k ∧ c < C ∧ k < d.rows ∧ c < C
    · rw [if_pos h, if_pos ⟨h.1, h.2.2.1, h.2.1⟩]
    · rw [if_neg h, if_neg (fun h' => h ⟨h'.1, h'.2.2, h'.2.1, h'.2.2⟩)]

end Score
end LMV
