/-
  LMV.Lemmas.Utf8 — UTF-8 validity of concatenations.  Core Lean only.
-/
import LMV.Model.Stream

namespace LMV
namespace Io

theorem validUtf8_cons (b0 : UInt8) (rest : Bytes) :
    validUtf8 (b0 :: rest) =
      if b0 < 0x80 then validUtf8 rest
      else if 0xC2 ≤ b0 && b0 ≤ 0xDF then
        match rest with
        | b1 :: rest => isCont b1 && validUtf8 rest
        | _ => false
      else if 0xE0 ≤ b0 && b0 ≤ 0xEF then
        match rest with
        | b1 :: b2 :: rest =>
          (if b0 = 0xE0 then 0xA0 ≤ b1 && b1 ≤ 0xBF
           else if b0 = 0xED then 0x80 ≤ b1 && b1 ≤ 0x9F
           else isCont b1) && isCont b2 && validUtf8 rest
        | _ => false
      else if 0xF0 ≤ b0 && b0 ≤ 0xF4 then
        match rest with
        | b1 :: b2 :: b3 :: rest =>
          (if b0 = 0xF0 then 0x90 ≤ b1 && b1 ≤ 0xBF
           else if b0 = 0xF4 then 0x80 ≤ b1 && b1 ≤ 0x8F
           else isCont b1) && isCont b2 && isCont b3 && validUtf8 rest
        | _ => false
      else false := by
  conv => lhs; rw [validUtf8.eq_def]
  rfl

theorem validUtf8_append (a b : Bytes) (ha : validUtf8 a = true) :
    validUtf8 (a ++ b) = validUtf8 b := by
  induction hn : a.length using Nat.strongRecOn generalizing a with
  | _ n ih =>
    subst hn
    cases a with
    | nil => rfl
    | cons b0 rest =>
      rw [List.cons_append, validUtf8_cons]
      rw [validUtf8_cons] at ha
      by_cases h0 : b0 < 0x80
      · rw [if_pos h0] at ha ⊢
        exact ih _ (by simp) rest ha rfl
      · rw [if_neg h0] at ha ⊢
        by_cases h1 : (0xC2 ≤ b0 && b0 ≤ 0xDF) = true
        · rw [if_pos h1] at ha ⊢
          cases rest with
          | nil => simp at ha
          | cons b1 rest' =>
            simp only [List.cons_append, Bool.and_eq_true] at ha ⊢
            rw [ha.1, ih _ (by simp; omega) rest' ha.2 rfl]
            simp
        · rw [if_neg h1] at ha ⊢
          by_cases h2 : (0xE0 ≤ b0 && b0 ≤ 0xEF) = true
          · rw [if_pos h2] at ha ⊢
            match rest, ha with
            | b1 :: b2 :: rest', ha =>
              simp only [List.cons_append, Bool.and_eq_true] at ha ⊢
              rw [ha.1.1, ha.1.2, ih _ (by simp; omega) rest' ha.2 rfl]
              simp
            | [_], ha => simp at ha
            | [], ha => simp at ha
          · rw [if_neg h2] at ha ⊢
            by_cases h3 : (0xF0 ≤ b0 && b0 ≤ 0xF4) = true
            · rw [if_pos h3] at ha ⊢
              match rest, ha with
              | b1 :: b2 :: b3 :: rest', ha =>
                simp only [List.cons_append, Bool.and_eq_true] at ha ⊢
                rw [ha.1.1.1, ha.1.1.2, ha.1.2, ih _ (by simp; omega) rest' ha.2 rfl]
                simp
              | [_, _], ha => simp at ha
              | [_], ha => simp at ha
              | [], ha => simp at ha
            · rw [if_neg h3] at ha
              cases ha

theorem validUtf8_ascii (a : Bytes) (h : ∀ b ∈ a, b < 0x80) : validUtf8 a = true := by
  induction a with
  | nil => rfl
  | cons b bs ih =>
    rw [validUtf8_cons, if_pos (h b (by simp))]
    exact ih (fun b' hb' => h b' (by simp [hb']))

end Io
end LMV
