/-
  LMV.Lemmas.Mem — how the accesses of an extracted intrinsic call sit in a window of a buffer
  (helper lemmas of C06).
-/
import LMV.Mem.Kernels

namespace LMV
namespace Mem

/-- what the kernel theorems need to know about a class of calls: placed at any `base` that is a
    multiple of `al0`, with `room` bytes available from `base`, every access stays in
    `[base, base + room)` of the buffer it was placed in and is aligned -/
def Window (cs : List MemCall) (K esz room al0 : Nat) : Prop :=
  ∀ c ∈ cs, ∀ (buf : Buf) (base : Nat), base % al0 = 0 →
    ∀ a ∈ c.accesses K buf base esz,
      a.buf = buf ∧ a.off + a.width ≤ base + room ∧ 0 < a.align ∧ a.off % a.align = 0

/-- decidable sufficient condition for a class of plain calls (no gather, no symbolic offset) -/
def fitsPlain (cs : List MemCall) (esz room al0 : Nat) : Bool :=
  cs.all fun c =>
    c.intr != "_mm256_i32gather_ps" && c.sym == "" &&
    match intrinsic c.intr with
    | some (w, al, _) => decide (c.off * esz + w ≤ room) && decide (0 < al) && decide (al0 % al = 0) &&
        decide ((c.off * esz) % al = 0)
    | none => false

theorem add_mod_of_dvd (base x al0 al : Nat) (hb : base % al0 = 0) (ha : al0 % al = 0) (hx : x % al = 0) :
    (base + x) % al = 0 := by
  have h1 : al ∣ al0 := Nat.dvd_of_mod_eq_zero ha
  have h2 : al0 ∣ base := Nat.dvd_of_mod_eq_zero hb
  have h3 : al ∣ x := Nat.dvd_of_mod_eq_zero hx
  exact Nat.mod_eq_zero_of_dvd (Nat.dvd_add (Nat.dvd_trans h1 h2) h3)

theorem window_of_fitsPlain (cs : List MemCall) (K esz room al0 : Nat)
    (h : fitsPlain cs esz room al0 = true) : Window cs K esz room al0 := by
  intro c hc buf base hbase a ha
  have hcall := List.all_eq_true.mp h c hc
  simp only [Bool.and_eq_true, bne_iff_ne, ne_eq, beq_iff_eq] at hcall
  obtain ⟨⟨hng, hsym⟩, hm⟩ := hcall
  unfold MemCall.accesses at ha
  rw [if_neg hng, if_pos hsym] at ha
  simp only [List.mem_singleton] at ha
  subst ha
  unfold MemCall.access
  cases hi : intrinsic c.intr with
  | none => rw [hi] at hm; exact absurd hm (by simp)
  | some t =>
    obtain ⟨w, al, rw'⟩ := t
    rw [hi] at hm
    simp only [Bool.and_eq_true, decide_eq_true_eq] at hm
    obtain ⟨⟨⟨h1, h2⟩, h3⟩, h4⟩ := hm
    refine ⟨rfl, ?_, h2, ?_⟩
    · show base + c.off * esz + w ≤ base + room
      omega
    · show (base + c.off * esz) % al = 0
      exact add_mod_of_dvd base _ al0 al hbase h3 h4

/-- a window stays a window when more room is available -/
theorem Window.mono {cs : List MemCall} {K esz room room' al0 : Nat} (h : Window cs K esz room al0)
    (hr : room ≤ room') : Window cs K esz room' al0 := by
  intro c hc buf base hb a ha
  obtain ⟨h1, h2, h3, h4⟩ := h c hc buf base hb a ha
  exact ⟨h1, by omega, h3, h4⟩

/-- the gather reads 4 bytes at `base + 4·x`, `x < K`: inside `4·K` bytes, no alignment required -/
theorem window_gather (cs : List MemCall) (K esz al0 : Nat)
    (h : cs.all (fun c => c.intr == "_mm256_i32gather_ps") = true) : Window cs K esz (K * 4) al0 := by
  intro c hc buf base _ a ha
  have hg : c.intr = "_mm256_i32gather_ps" := by
    have := List.all_eq_true.mp h c hc
    simpa using this
  unfold MemCall.accesses at ha
  rw [if_pos hg] at ha
  simp only [List.mem_map, List.mem_range] at ha
  obtain ⟨x, hx, rfl⟩ := ha
  refine ⟨rfl, ?_, Nat.one_pos, Nat.mod_one _⟩
  show base + x * 4 + 4 ≤ base + K * 4
  omega

/-- a 4-byte load with a symbolic element offset `k < K` through a pointer to 4-byte elements:
    inside `4·K` bytes, 4-aligned when the base is -/
theorem window_sym (cs : List MemCall) (K al0 : Nat) (hal : al0 % 4 = 0)
    (h : cs.all (fun c => c.intr == "_mm_load1_ps" && c.sym != "") = true) : Window cs K 4 (K * 4) al0 := by
  intro c hc buf base hb a ha
  have hcall := List.all_eq_true.mp h c hc
  simp only [Bool.and_eq_true, beq_iff_eq, bne_iff_ne, ne_eq] at hcall
  obtain ⟨hi, hs⟩ := hcall
  unfold MemCall.accesses at ha
  rw [if_neg (by rw [hi]; decide), if_neg hs] at ha
  simp only [List.mem_map, List.mem_range] at ha
  obtain ⟨x, hx, rfl⟩ := ha
  unfold MemCall.access
  simp only [hi]
  have hint : intrinsic "_mm_load1_ps" = some (4, 4, Rw.read) := by decide
  rw [hint]
  refine ⟨rfl, ?_, (by show 0 < 4; omega), ?_⟩
  · show base + x * 4 + 4 ≤ base + K * 4
    omega
  · show (base + x * 4) % 4 = 0
    exact add_mod_of_dvd base _ al0 4 hb hal (Nat.mul_mod_left x 4)

/-- membership in a placed class -/
theorem mem_place {tbl : List MemCall} {ptr : String} {depth K : Nat} {buf : Buf} {base esz : Nat}
    {a : Access} (h : a ∈ place tbl ptr depth K buf base esz) :
    ∃ c ∈ sel tbl ptr depth, a ∈ c.accesses K buf base esz := by
  unfold place at h
  simpa [List.mem_flatMap] using h

/-- the accesses of a placed class, through its window -/
theorem place_spec {tbl : List MemCall} {ptr : String} {depth K esz room al0 : Nat}
    (hw : Window (sel tbl ptr depth) K esz room al0) {buf : Buf} {base : Nat} (hb : base % al0 = 0)
    {a : Access} (h : a ∈ place tbl ptr depth K buf base esz) :
    a.buf = buf ∧ a.off + a.width ≤ base + room ∧ 0 < a.align ∧ a.off % a.align = 0 := by
  obtain ⟨c, hc, ha⟩ := mem_place h
  exact hw c hc buf base hb a ha

theorem not_mem_unhandled {tbl : List MemCall} {classes : List (String × Nat)}
    (h : handled tbl classes = true) (a : Access) : a ∉ unhandled tbl classes := by
  unfold unhandled; rw [if_pos h]; exact List.not_mem_nil

/-- row `j` of `M` rows of `rb` bytes: a window of `rb` bytes at `j·rb` ends inside `M·rb` -/
theorem row_end_le (j M rb : Nat) (hj : j < M) : j * rb + rb ≤ M * rb := by
  have : (j + 1) * rb ≤ M * rb := Nat.mul_le_mul_right rb hj
  rw [Nat.add_mul, Nat.one_mul] at this
  exact this

theorem rowB_mod (C size : Nat) : rowB C size % 32 = 0 :=
  Nat.mod_eq_zero_of_dvd (Nat.dvd_mul_left _ _)

theorem row_mod (j C size : Nat) : (j * rowB C size) % 32 = 0 :=
  Nat.mod_eq_zero_of_dvd (Nat.dvd_mul_left_of_dvd (Nat.dvd_mul_left _ _) j)

/-- a row holds its `C` elements (C19's `rowBytes_ge`) -/
theorem rowB_ge (C size : Nat) : C * size ≤ rowB C size := by
  unfold rowB Dense.rowBytes ALIGN
  have h1 := Nat.div_add_mod (C * size + 32 - 1) 32
  have h2 := Nat.mod_lt (C * size + 32 - 1) (by decide : 0 < 32)
  have : (C * size + 32 - 1) / 32 * 32 = 32 * ((C * size + 32 - 1) / 32) := Nat.mul_comm _ _
  omega

/-- a non-empty row occupies at least one alignment unit -/
theorem rowB_ge_32 (C size : Nat) (h : 0 < C * size) : 32 ≤ rowB C size := by
  have h1 := rowB_ge C size
  have h2 := rowB_mod C size
  omega

end Mem
end LMV
