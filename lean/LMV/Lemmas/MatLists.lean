/-
  LMV.Lemmas.MatLists — the row-by-row view of a `Mat` (what `iter()` visits) in terms of `get`.
  (This file, like Mat.lean, may look at the representation.)
-/
import LMV.Model.Mat

namespace LMV
namespace Mat

variable {α : Type} {C : Nat}

theorem toLists_length (m : Mat α C) : m.toLists.length = m.rows := by
  simp [toLists, rows]

/-- iterating the matrix visits exactly the rows `0, 1, …, rows-1` in order, each with its `C`
    logical cells in column order -/
theorem toLists_eq_get [Inhabited α] (m : Mat α C) :
    m.toLists = (List.range m.rows).map fun r => (List.range C).map fun c => m.get r c := by
  apply List.ext_getElem
  · simp [toLists, rows]
  · intro i h1 h2
    have hi : i < m.data.size := by simpa [toLists] using h1
    simp only [toLists, List.getElem_map, Array.getElem_toList, List.getElem_range]
    apply List.ext_getElem
    · simp
    · intro j h3 h4
      have hj : j < C := by simpa using h3
      simp [get, getD, hi, hj]

end Mat
end LMV
