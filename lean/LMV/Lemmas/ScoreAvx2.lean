/-
  LMV.Lemmas.ScoreAvx2 — the AVX2 scoring kernels, lane by lane.

  For the two `f32` kernels the composite
      shuffle mask m_q → dword index lane → table look-up → accumulator lane → `permute2f128`
      immediate → store offset
  is the IDENTITY ON COLUMNS: `IdentityTable T` is a finite statement about the tables regenerated
  from avx2.rs (32 columns), evaluated by the kernel (`decide +kernel`), and lifted here to the
  executed model over any carrier.  A changed mask byte, immediate or store offset changes the
  regenerated table and the evaluation no longer yields `true`.
-/
import LMV.Lemmas.Score

namespace LMV
namespace Score
namespace Avx2

open Isa
open Striped (foldl_range_succ)

variable {α : Type} {K : Nat}

/-! ### the index table of one `f32` kernel -/

/-- the column of the loaded sequence row that lane `l` of the index vector of accumulator `q`
    holds: defined when the lane's four mask bytes are (plain byte `c`, zeroed, zeroed, zeroed) -/
def accCol (T : F32Tables) (q l : Nat) : Option Nat :=
  match shuffleEpi8Src (maskByte T q) (4 * l), shuffleEpi8Src (maskByte T q) (4 * l + 1),
        shuffleEpi8Src (maskByte T q) (4 * l + 2), shuffleEpi8Src (maskByte T q) (4 * l + 3) with
  | some c, none, none, none => some c
  | _, _, _, _ => none

/-- the accumulator lane that lane `l` of `r_p` is a copy of -/
def laneSrc (T : F32Tables) (p l : Nat) : Option (Nat × Nat) :=
  match T.lanes.getD p (0, 0, 0) with
  | (a, b, imm) =>
    match permute2f128 imm l with
    | (Side.a, k) => some (a, k)
    | (Side.b, k) => some (b, k)
    | (Side.zero, _) => none

/-- for result column `c`: (accumulator, lane, column of the sequence row indexing the look-up) -/
def colSrc (T : F32Tables) (c : Nat) : Option (Nat × Nat × Nat) :=
  match lastStore 8 T.stores c with
  | none => none
  | some (p, l) =>
    match laneSrc T p l with
    | none => none
    | some (q, k) => if q < 4 ∧ k < 8 then (accCol T q k).map fun c' => (q, k, c') else none

/-- the complete table: every one of the 32 result columns is written, and what is written there
    was looked up with the symbol of the SAME column -/
def IdentityTable (T : F32Tables) : Prop :=
  ∀ c, c < 32 → (colSrc T c).map (fun x => x.2.2) = some c

instance (T : F32Tables) : Decidable (IdentityTable T) := by unfold IdentityTable; infer_instance

theorem permute_table : IdentityTable permuteTables := by decide +kernel

theorem gather_table : IdentityTable gatherTables := by decide +kernel

/-! ### lifting -/

theorem idxVec_of_accCol (T : F32Tables) (q l c : Nat) (h : accCol T q l = some c) (x : Nat → Nat) :
    idxVec T x q l = x c := by
  unfold accCol at h
  split at h
  · rename_i h0 h1 h2 h3
    cases h
    simp [idxVec, dwordLE, shuffleEpi8, h0, h1, h2, h3]
  · cases h

theorem laneVal_of_laneSrc (T : F32Tables) (zero : α) (s : Array (Array α)) (p l q k : Nat)
    (h : laneSrc T p l = some (q, k)) : laneVal T zero s p l = rd zero s q k := by
  unfold laneSrc at h
  unfold laneVal Isa.apply
  generalize T.lanes.getD p (0, 0, 0) = t at h ⊢
  obtain ⟨a, b, imm⟩ := t
  simp only at h ⊢
  rcases hsrc : permute2f128 imm l with ⟨side, k'⟩
  rw [hsrc] at h
  cases side <;> simp at h ⊢
  · obtain ⟨rfl, rfl⟩ := h; rfl
  · obtain ⟨rfl, rfl⟩ := h; rfl

theorem colSrc_spec (T : F32Tables) (hT : IdentityTable T) (c : Nat) (hc : c < 32) :
    ∃ p l q k, lastStore 8 T.stores c = some (p, l) ∧ laneSrc T p l = some (q, k) ∧ q < 4 ∧ k < 8 ∧
      accCol T q k = some c := by
  have h := hT c hc
  unfold colSrc at h
  rcases h1 : lastStore 8 T.stores c with _ | ⟨p, l⟩
  · rw [h1] at h; simp at h
  · rw [h1] at h
    simp only at h
    rcases h2 : laneSrc T p l with _ | ⟨q, k⟩
    · rw [h2] at h; simp at h
    · rw [h2] at h
      simp only at h
      by_cases h3 : q < 4 ∧ k < 8
      · rw [if_pos h3] at h
        rcases h4 : accCol T q k with _ | c'
        · rw [h4] at h; simp at h
        · rw [h4] at h
          simp at h
          exact ⟨p, l, q, k, rfl, h2, h3.1, h3.2, by rw [h4, h]⟩
      · rw [if_neg h3] at h; simp at h

/-- lane `l` of accumulator `q` after the motif loop -/
theorem accRow_rd (T : F32Tables) (zero : α) (add : α → α → α)
    (lookup : Nat → (Nat → Nat) → Nat → α) (M : Nat) (seq : Mat Nat 32) (i q l : Nat)
    (hq : q < 4) (hl : l < 8) :
    rd zero (accRow T zero add lookup M seq i) q l =
      (List.range M).foldl (fun v j =>
        add v (lookup j (idxVec T (fun c => seq.getD (i + j) c 0) q) l)) zero := by
  unfold accRow
  rw [rd_foldl zero
    (fun j s => tab 4 fun q => tab 8 fun l =>
      add (rd zero s q l) (lookup j (idxVec T (fun c => seq.getD (i + j) c 0) q) l))
    (fun j v => add v (lookup j (idxVec T (fun c => seq.getD (i + j) c 0) q) l)) q l
    (fun j s => rd_tab zero 4 8 _ q l hq hl)]
  rw [rd_tab zero 4 8 _ q l hq hl]

theorem storeRow_eq (T : F32Tables) (zero : α) (s : Array (Array α)) (k : Nat) (d : Mat α 32) :
    storeRow T zero s k d = storesWrite 8 k T.stores (laneVal T zero s) d := rfl

/-- one result row of an `f32` kernel whose look-up is `val j (index lane)` -/
theorem storeRow_getD (T : F32Tables) (hT : IdentityTable T) (zero : α) (add : α → α → α)
    (lookup : Nat → (Nat → Nat) → Nat → α) (val : Nat → Nat → α)
    (hlook : ∀ j idx l, lookup j idx l = val j (idx l))
    (M : Nat) (seq : Mat Nat 32) (i k : Nat) (d : Mat α 32) (r c : Nat) :
    (storeRow T zero (accRow T zero add lookup M seq i) k d).getD r c zero =
      if r = k ∧ k < d.rows ∧ decide (c < 32) = true
      then (List.range M).foldl (fun v j => add v (val j (seq.getD (i + j) c 0))) zero
      else d.getD r c zero := by
  rw [storeRow_eq, storesWrite_getD]
  by_cases hc : c < 32
  · obtain ⟨p, l, q, k', h1, h2, hq, hk', h3⟩ := colSrc_spec T hT c hc
    rw [h1]
    simp only [hc, decide_true, and_true]
    by_cases h : r = k ∧ k < d.rows
    · rw [if_pos h, if_pos h, laneVal_of_laneSrc T zero _ p l q k' h2, accRow_rd T zero add lookup M seq i q k' hq hk']
      apply foldl_ext_mem'
      intro v j _
      rw [hlook, idxVec_of_accCol T q k' c h3]
    · rw [if_neg h, if_neg h]
  · have hne : ¬ (r = k ∧ k < d.rows ∧ decide (c < 32) = true) := by
      intro h; exact hc (by simpa using h.2.2)
    rw [if_neg hne]
    cases lastStore 8 T.stores c with
    | none => rfl
    | some pl =>
      obtain ⟨p, l⟩ := pl
      simp only
      rw [if_neg (fun h => hc h.2.2)]

/-- the whole kernel: closed form of every cell -/
theorem kernel_spec (T : F32Tables) (hT : IdentityTable T) (zero : α) (add : α → α → α)
    (lookup : Nat → (Nat → Nat) → Nat → α) (val : Nat → Nat → α)
    (hlook : ∀ j idx l, lookup j idx l = val j (idx l))
    (M : Nat) (seq : Mat Nat 32) (a n : Nat) (d : Mat α 32) (r c : Nat) :
    (kernel T zero add lookup M seq a n d).rows = d.rows ∧
    (kernel T zero add lookup M seq a n d).getD r c zero =
      if r < n ∧ r < d.rows ∧ decide (c < 32) = true
      then (List.range M).foldl (fun v j => add v (val j (seq.getD (a + r + j) c 0))) zero
      else d.getD r c zero := by
  unfold kernel
  apply rowLoop_getD
    (F := fun k d => storeRow T zero (accRow T zero add lookup M seq (a + k)) k d)
    (v := fun r c => (List.range M).foldl (fun v j => add v (val j (seq.getD (a + r + j) c 0))) zero)
  · intro k d; rw [storeRow_eq, storesWrite_rows]
  · intro k _ d r c
    exact storeRow_getD T hT zero add lookup val hlook M seq (a + k) k d r c

/-- an `f32` kernel whose look-up returns the PSSM entry for every in-alphabet symbol writes
    exactly the matrix the generic loops write -/
theorem kernel_eq_genericRows (T : F32Tables) (hT : IdentityTable T) (zero : α) (add : α → α → α)
    (pssm : Mat α K) (lookup : Nat → (Nat → Nat) → Nat → α) (val : Nat → Nat → α)
    (hlook : ∀ j idx l, lookup j idx l = val j (idx l))
    (hval : ∀ j sym, sym < K → val j sym = pssm.getD j sym zero)
    (seq : Mat Nat 32) (a n : Nat) (d : Mat α 32)
    (hsym : ∀ k j col, k < n → j < pssm.rows → col < 32 → seq.getD (a + k + j) col 0 < K) :
    kernel T zero add lookup pssm.rows seq a n d = genericRows zero add pssm seq a n d := by
  apply mat_ext zero
  · rw [(kernel_spec T hT zero add lookup val hlook pssm.rows seq a n d 0 0).1,
      (genericRows_spec zero add pssm seq a n d 0 0).1]
  · intro r c _ _
    rw [(kernel_spec T hT zero add lookup val hlook pssm.rows seq a n d r c).2,
      (genericRows_spec zero add pssm seq a n d r c).2]
    by_cases h : r < n ∧ r < d.rows ∧ decide (c < 32) = true
    · rw [if_pos h, if_pos h]
      unfold cellSum
      apply foldl_ext_mem'
      intro v j hj
      rw [hval j _ (hsym r j c h.1 (List.mem_range.mp hj) (by simpa using h.2.2))]
    · rw [if_neg h, if_neg h]

/-! ### the `u8` kernel: every lane, directly -/

theorem shuffle_broadcast (zero : α) (row : Nat → α) (x : Nat → Nat) (c : Nat) (hx : x c < 16) :
    shuffleEpi8 zero (broadcastsi128 row) x c = row (x c) := by
  unfold shuffleEpi8 shuffleEpi8Src broadcastsi128
  have h1 : ¬ (x c % 256 / 128 = 1) := by omega
  rw [if_neg h1]
  simp only
  congr 1
  omega

theorem accRowU8_getD (zero : α) (add : α → α → α) (pssm : Mat α K) (seq : Mat Nat 32) (i c : Nat)
    (hc : c < 32) :
    (accRowU8 zero add pssm seq i).getD c zero =
      (List.range pssm.rows).foldl (fun v j =>
        add v (shuffleEpi8 zero (broadcastsi128 fun k => pssm.getD j k zero)
          (fun c => seq.getD (i + j) c 0) c)) zero := by
  unfold accRowU8
  rw [getD_foldl zero
    (fun j s => tab 32 fun c => add (s.getD c zero)
      (shuffleEpi8 zero (broadcastsi128 fun k => pssm.getD j k zero) (fun c => seq.getD (i + j) c 0) c))
    (fun j v => add v (shuffleEpi8 zero (broadcastsi128 fun k => pssm.getD j k zero)
      (fun c => seq.getD (i + j) c 0) c)) c
    (fun j s => tab_getD 32 _ c zero hc)]
  rw [tab_getD 32 _ c zero hc]

theorem kernelU8_spec (zero : α) (add : α → α → α) (pssm : Mat α K) (seq : Mat Nat 32) (a n : Nat)
    (d : Mat α 32) (r c : Nat) :
    (kernelU8 zero add pssm seq a n d).rows = d.rows ∧
    (kernelU8 zero add pssm seq a n d).getD r c zero =
      if r < n ∧ r < d.rows ∧ decide (c < 32) = true
      then (accRowU8 zero add pssm seq (a + r)).getD c zero
      else d.getD r c zero := by
  unfold kernelU8
  apply rowLoop_getD
    (F := fun k d => (List.range 32).foldl (fun d c =>
      d.set k (Gen.Avx2Score.u8StoreOffset + c) ((accRowU8 zero add pssm seq (a + k)).getD c zero)) d)
    (v := fun r c => (accRowU8 zero add pssm seq (a + r)).getD c zero)
  · intro k d; exact segWrite_rows k Gen.Avx2Score.u8StoreOffset 32 _ d
  · intro k _ d r c
    have := segWrite_getD k Gen.Avx2Score.u8StoreOffset 32
      (fun c => (accRowU8 zero add pssm seq (a + k)).getD c zero) d r c zero
    unfold segWrite at this
    rw [this]
    simp only [Gen.Avx2Score.u8StoreOffset, Nat.zero_le, Nat.zero_add, true_and, Nat.sub_zero,
      decide_eq_true_eq]
    by_cases h : r = k ∧ c < 32 ∧ k < d.rows ∧ c < 32
    · rw [if_pos h, if_pos ⟨h.1, h.2.2.1, h.2.1⟩]
    · rw [if_neg h, if_neg (fun h' => h ⟨h'.1, h'.2.2, h'.2.1, h'.2.2⟩)]

theorem kernelU8_eq_genericRows (zero : α) (add : α → α → α) (pssm : Mat α K) (hK : K ≤ 16)
    (seq : Mat Nat 32) (a n : Nat) (d : Mat α 32)
    (hsym : ∀ k j col, k < n → j < pssm.rows → col < 32 → seq.getD (a + k + j) col 0 < K) :
    kernelU8 zero add pssm seq a n d = genericRows zero add pssm seq a n d := by
  apply mat_ext zero
  · rw [(kernelU8_spec zero add pssm seq a n d 0 0).1, (genericRows_spec zero add pssm seq a n d 0 0).1]
  · intro r c _ _
    rw [(kernelU8_spec zero add pssm seq a n d r c).2, (genericRows_spec zero add pssm seq a n d r c).2]
    by_cases h : r < n ∧ r < d.rows ∧ decide (c < 32) = true
    · rw [if_pos h, if_pos h]
      have hc : c < 32 := by simpa using h.2.2
      rw [accRowU8_getD zero add pssm seq (a + r) c hc]
      unfold cellSum
      apply foldl_ext_mem'
      intro v j hj
      have hs := hsym r j c h.1 (List.mem_range.mp hj) hc
      rw [shuffle_broadcast zero _ _ c (by omega)]
    · rw [if_neg h, if_neg h]

end Avx2
end Score
end LMV
