/-
  LMV.Lemmas.SamplerInit — `Sampler::_new` establishes the invariant.
-/
import LMV.Lemmas.SamplerStep

namespace LMV
namespace Sampler

theorem sumTo_const_one (n : Nat) : sumTo n (fun _ => 1) = n := by
  induction n with
  | zero => rfl
  | succ n ih => rw [sumTo_succ, ih]

/-- a `BitVec` whose counter agrees with its flags -/
def BitsOK (D : Data) (b : Bits) : Prop :=
  b.data.size = D.n ∧ b.count = alignCount D (fun i => b.data.getD i false)

theorem bitsOK_ones (D : Data) : BitsOK D (Bits.ones D.n) := by
  refine ⟨by simp [Bits.ones], ?_⟩
  show D.n = alignCount D _
  unfold alignCount
  have : sumTo D.n (fun i => if (fun i => (Bits.ones D.n).data.getD i false) i = true then 1 else 0) =
      sumTo D.n (fun _ => 1) := by
    apply sumTo_congr
    intro i hi
    simp [Bits.ones, hi]
  rw [this, sumTo_const_one]

theorem ones_getD (n i : Nat) (hi : i < n) : (Bits.ones n).data.getD i false = true := by
  simp [Bits.ones, hi]

theorem bitsOK_zeros (D : Data) : BitsOK D (Bits.zeros D.n) := by
  refine ⟨by simp [Bits.zeros], ?_⟩
  show 0 = alignCount D _
  unfold alignCount
  symm
  rw [sumTo_eq_zero]
  intro i hi
  simp [Bits.zeros, hi]

theorem set_spec (D : Data) (b : Bits) (i : Nat) (hb : BitsOK D b) (hi : i < D.n) :
    ∃ b', b.set i = .ok b' ∧ BitsOK D b' ∧ b'.data.getD i false = true ∧
      ∀ k, b.data.getD k false = true → b'.data.getD k false = true := by
  have his : i < b.data.size := by rw [hb.1]; exact hi
  unfold Bits.set
  rw [if_pos his]
  cases h : b.data.getD i false with
  | true => exact ⟨b, by simp, hb, h, fun _ hk => hk⟩
  | false =>
    have hmono : ∀ k, b.data.getD k false = true → (b.data.setIfInBounds i true).getD k false = true := by
      intro k hk
      rw [getD_setIfInBounds]
      by_cases e : i = k ∧ i < b.data.size
      · rw [if_pos e]
      · rw [if_neg e]; exact hk
    have hset : (b.data.setIfInBounds i true).getD i false = true := by
      rw [getD_setIfInBounds, if_pos ⟨rfl, his⟩]
    refine ⟨⟨b.data.setIfInBounds i true, b.count + 1⟩, by simp, ⟨?_, ?_⟩, hset, hmono⟩
    · show (b.data.setIfInBounds i true).size = D.n
      rw [Array.size_setIfInBounds]; exact hb.1
    · show b.count + 1 = alignCount D (fun k => (b.data.setIfInBounds i true).getD k false)
      have hnew : (fun k => (b.data.setIfInBounds i true).getD k false) =
          withSeq (fun k => b.data.getD k false) i := by
        funext k
        rw [getD_setIfInBounds]
        unfold withSeq
        by_cases e : k = i
        · subst e; rw [if_pos ⟨rfl, his⟩, if_pos rfl]
        · rw [if_neg (fun hh => e hh.1.symm), if_neg e]
      rw [hnew, alignCount_without D _ hi (by unfold withSeq; rw [if_pos rfl]),
        without_withSeq _ _ h, hb.2]

theorem seedLoop_spec (D : Data) (seeds : List Nat) (b : Bits) (acc : List Nat)
    (hb : BitsOK D b) (hs : ∀ i, i ∈ seeds → i < D.n) (hacc : ∀ i, i ∈ acc → i < D.n) :
    ∃ b' seed, seedLoop seeds b acc = .ok (b', seed) ∧ BitsOK D b' ∧ (∀ i, i ∈ seed → i < D.n) ∧
      (∀ k, (b.data.getD k false = true ∨ k ∈ seeds) → b'.data.getD k false = true) := by
  induction seeds generalizing b acc with
  | nil => exact ⟨b, acc, rfl, hb, hacc, fun k hk => by
      cases hk with
      | inl h => exact h
      | inr h => cases h⟩
  | cons i is ih =>
    obtain ⟨b1, h1, hb1, hset, hmono⟩ := set_spec D b i hb (hs i (List.mem_cons_self ..))
    unfold seedLoop
    rw [h1]; dsimp only
    obtain ⟨b', seed, h2, h3, h4, h5⟩ := ih b1 (acc ++ [i]) hb1 (fun k hk => hs k (List.mem_cons_of_mem _ hk))
      (by
        intro k hk
        rw [List.mem_append] at hk
        cases hk with
        | inl h => exact hacc k h
        | inr h =>
          rw [List.mem_singleton] at h
          rw [h]; exact hs i (List.mem_cons_self ..))
    refine ⟨b', seed, h2, h3, h4, ?_⟩
    intro k hk
    apply h5
    cases hk with
    | inl h => exact Or.inl (hmono k h)
    | inr h =>
      cases h with
      | head => exact Or.inl hset
      | tail _ h' => exact Or.inr h'

/-! ### the two construction loops of `_new` -/

theorem initMotif_ok {K : Nat} {D : Data} (hwf : D.WF K) (w : Nat) (starts : Array Nat) (a : Array Bool)
    (hin : ∀ i, i < D.n → starts.getD i 0 + w ≤ (D.seq i).size) :
    ∃ m : Mat Nat K, forUp D.n (fun i m =>
        if a.getD i false then addWindow (D.seq i) (starts.getD i 0) w m else .ok m)
        (Mat.ofFn w (fun _ _ => 0)) = .ok m ∧ m.rows = w ∧
      ∀ j, j < w → ∀ c, m.get j c =
        alignMotif D (fun i => starts.getD i 0) (fun i => a.getD i false) j c := by
  have := forUp_inv (fun k (t : Mat Nat K) => t.rows = w ∧ ∀ j c, t.get j c =
      sumTo k (fun i => if a.getD i false = true then
        (if j < w ∧ (D.seq i).getD (starts.getD i 0 + j) 0 = c then 1 else 0) else 0))
    D.n (fun i m => if a.getD i false then addWindow (D.seq i) (starts.getD i 0) w m else .ok m)
    (Mat.ofFn w (fun _ _ => 0))
    ⟨Mat.rows_ofFn _ _, fun j c => by rw [Mat.get_ofFn]; split <;> rfl⟩
    (by
      intro k t hk ⟨hr, hc⟩
      by_cases ha : a.getD k false = true
      · rw [if_pos ha]
        obtain ⟨m', h1, h2, h3⟩ := addWindow_ok (D.seq k) (starts.getD k 0) w t hr (hin k hk) (hwf.sym k hk)
        refine ⟨m', h1, h2, ?_⟩
        intro j c
        rw [h3, hc, sumTo_succ, if_pos ha]
      · rw [if_neg ha]
        refine ⟨t, rfl, hr, ?_⟩
        intro j c
        rw [hc, sumTo_succ, if_neg ha]; rfl)
  obtain ⟨m, h1, h2, h3⟩ := this
  refine ⟨m, h1, h2, ?_⟩
  intro j hj c
  rw [h3]
  unfold alignMotif
  apply sumTo_congr
  intro i _
  by_cases ha : a.getD i false = true
  · rw [if_pos ha]
    by_cases e : (D.seq i).getD (starts.getD i 0 + j) 0 = c
    · rw [if_pos ⟨hj, e⟩, if_pos ⟨ha, e⟩]
    · rw [if_neg (fun hh => e hh.2), if_neg (fun hh => e hh.2)]
  · rw [if_neg ha, if_neg (fun hh => ha hh.1)]

theorem initBg_ok {K : Nat} {D : Data} (hwf : D.WF K) (w : Nat) (starts : Array Nat) (a : Array Bool)
    (hin : ∀ i, i < D.n → starts.getD i 0 + w ≤ (D.seq i).size) :
    ∃ b : Array Nat, forUp D.n (fun i b =>
        if a.getD i false then addOutside K (D.cnt i) (D.seq i) (starts.getD i 0) w b
        else .ok b)
        (Array.replicate K 0) = .ok b ∧ b.size = K ∧
      ∀ c, c < K → b.getD c 0 =
        alignBg D w (fun i => starts.getD i 0) (fun i => a.getD i false) c := by
  apply forUp_inv (fun k (t : Array Nat) => t.size = K ∧ ∀ c, c < K → t.getD c 0 =
      sumTo k (fun i => if a.getD i false = true then outCount (D.seq i) (starts.getD i 0) w c else 0))
  · exact ⟨by simp, fun c hc => by simp [hc]⟩
  · intro k t hk ⟨hs, hc⟩
    by_cases ha : a.getD k false = true
    · rw [if_pos ha]
      unfold addOutside
      obtain ⟨b1, hb1, hb2, hb3⟩ := addCounts_ok (D.cnt k) t (hwf.csize k hk) hs
      rw [hb1]; dsimp only
      have hav : ∀ c, c < K → winCount (D.seq k) (starts.getD k 0) w c ≤ b1.getD c 0 := by
        intro c hcc
        rw [hb3 c hcc, hwf.cnt k hk c hcc, symCount_eq _ _ w c (hin k hk)]
        omega
      obtain ⟨b2, hc1, hc2, hc3⟩ := bgSubWindow_ok (D.seq k) (starts.getD k 0) w b1 hb2 (hin k hk) (hwf.sym k hk) hav
      refine ⟨b2, hc1, hc2, ?_⟩
      intro c hcc
      rw [sumTo_succ, if_pos ha, ← hc c hcc]
      have h1 := hc3 c
      have h2 := hb3 c hcc
      have h4 := hwf.cnt k hk c hcc
      rw [symCount_eq _ (starts.getD k 0) w c (hin k hk)] at h4
      omega
    · rw [if_neg ha]
      refine ⟨t, rfl, hs, ?_⟩
      intro c hcc
      rw [sumTo_succ, if_neg ha, hc c hcc]; rfl

/-! ### `_new` -/

/-- `Sampler::_new` with admissible draws: it panics exactly when a sequence has fewer wrap rows
    than the width (`panic!("booh")`), and otherwise returns a state satisfying the invariant. -/
theorem init_spec {K : Nat} {D : Data} {P : Params} {ic : InitChoice}
    (hwf : D.WF K) (hadm : InitAdm D P ic) :
    (D.wraps.any (· < P.w) = true ∧ init (K := K) D P ic = .error "booh") ∨
    (D.wraps.any (· < P.w) = false ∧ ∃ s : State K, init D P ic = .ok s ∧ Inv D P.w s ∧
      s.starts = ic.starts ∧ s.step = 0 ∧ s.converged = false ∧
      (P.zoops = false → ∀ i, i < D.n → act s i = true) ∧
      (P.zoops = true → ∀ i, i ∈ ic.seeds → act s i = true)) := by
  obtain ⟨hn, hin, hseeds⟩ := hadm
  unfold init
  cases hw : D.wraps.any (· < P.w) with
  | true => left; exact ⟨rfl, by simp⟩
  | false =>
    right
    refine ⟨rfl, ?_⟩
    rw [if_neg (by simp)]
    have hlen : D.seqs.any (·.size < P.w) = false := by
      rw [Array.any_eq_false]
      intro i hi
      have := hin i hi
      have hseq : D.seq i = D.seqs[i] := by simp [Data.seq, Array.getD_eq_getD_getElem?, hi]
      rw [hseq] at this
      simp; omega
    rw [hlen, if_neg (by simp), if_neg (fun h => by rcases h with h | h; exact h hn; exact h hwf.ncounts)]
    dsimp only
    -- the active flags
    have hbits : ∃ b seed, (if P.zoops = true then seedLoop ic.seeds (Bits.zeros D.n) []
          else .ok (Bits.ones D.n, [])) = .ok (b, seed) ∧ BitsOK D b ∧ (∀ i, i ∈ seed → i < D.n) ∧
          (P.zoops = false → ∀ i, i < D.n → b.data.getD i false = true) ∧
          (P.zoops = true → ∀ i, i ∈ ic.seeds → b.data.getD i false = true) := by
      cases hz : P.zoops with
      | true =>
        obtain ⟨b, seed, h1, h2, h3, h4⟩ := seedLoop_spec D ic.seeds (Bits.zeros D.n) [] (bitsOK_zeros D)
          (hseeds hz).1 (fun i hi => by cases hi)
        exact ⟨b, seed, by rw [if_pos rfl]; exact h1, h2, h3, (fun h => by cases h),
          fun _ i hi => h4 i (Or.inr hi)⟩
      | false =>
        exact ⟨Bits.ones D.n, [], by rw [if_neg (by simp)], bitsOK_ones D, (fun i hi => by cases hi),
          (fun _ i hi => ones_getD D.n i hi), fun h => by cases h⟩
    obtain ⟨b, seed, hb1, hb2, hb3, hb4, hb5⟩ := hbits
    rw [hb1]; dsimp only
    obtain ⟨m, hm1, hm2, hm3⟩ := initMotif_ok (K := K) hwf P.w ic.starts b.data hin
    rw [hm1]; dsimp only
    obtain ⟨bg, hg1, hg2, hg3⟩ := initBg_ok (K := K) hwf P.w ic.starts b.data hin
    rw [hg1]; dsimp only
    refine ⟨_, rfl, ?_, rfl, rfl, rfl, hb4, hb5⟩
    constructor
    · exact hn
    · exact hb2.1
    · exact hm2
    · exact hg2
    · exact hin
    · intro j hj c _; exact hm3 j hj c
    · exact hg3
    · exact hb2.2
    · exact Nat.le_refl _
    · exact hb3

end Sampler
end LMV
