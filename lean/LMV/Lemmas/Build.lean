/-
  LMV.Lemmas.Build — the `build_matrix` loops never hit an index panic: symbols come out of
  `from_ascii` (hence `< K`, a fact of the regenerated alphabet tables) and the column length is
  checked against the row count before the cells are written.  Core Lean only.
-/
import LMV.Model.ReaderCommon
import LMV.Lemmas.Nom

namespace LMV

/-- every symbol index produced by `from_ascii` is a column of the matrix -/
def Alphabet.IndexOK (A : Alphabet) : Prop := ∀ p ∈ A.fromTbl, p.2 < A.K

instance (A : Alphabet) : Decidable A.IndexOK := by unfold Alphabet.IndexOK; infer_instance

theorem dna_indexOK : dna.IndexOK := by decide
theorem protein_indexOK : protein.IndexOK := by decide

theorem Alphabet.fromAscii_lt {A : Alphabet} (h : A.IndexOK) {b : UInt8} {a : Nat}
    (ha : A.fromAscii b = some a) : a < A.K := by
  unfold Alphabet.fromAscii at ha
  cases hf : A.fromTbl.find? (·.1 == b) with
  | none => rw [hf] at ha; cases ha
  | some p =>
    rw [hf] at ha
    simp only [Option.map_some, Option.some.injEq] at ha
    rw [← ha]
    exact h p (List.mem_of_find?_eq_some hf)

namespace Io

open Nom

variable {α : Type} {K : Nat}

theorem fillColumn_some (s : Nat) (hs : s < K) (xs : List α) :
    ∀ (m : Mat α K) (i : Nat), i + xs.length ≤ m.rows →
      ∃ m', fillColumn m s i xs = some m' ∧ m'.rows = m.rows := by
  induction xs with
  | nil => intro m i _; exact ⟨m, rfl, rfl⟩
  | cons x xs ih =>
    intro m i h
    simp only [List.length_cons] at h
    have hi : i < m.rows := by omega
    simp only [fillColumn, hi, hs, and_self, if_true]
    obtain ⟨m', h1, h2⟩ := ih (m.set i s x) (i + 1) (by simp; omega)
    exact ⟨m', h1, by simpa using h2⟩

/-- `symbol A` only produces column indices -/
theorem symbol_lt {A : Alphabet} (hA : A.IndexOK) {i r : Bytes} {a : Nat}
    (h : symbol A i = .ok r a) : a < A.K := by
  unfold symbol mapRes at h
  cases h1 : anychar i with
  | ok r1 cs =>
    rw [h1] at h; simp only at h
    split at h
    · rename_i w hw
      simp only [PRes.ok.injEq] at h
      split at hw
      · split at hw
        · rw [← h.2]; exact Alphabet.fromAscii_lt hA hw
        · cases hw
      · cases hw
    · cases h
  | _ => rw [h1] at h; simp at h

theorem good_symbol (A : Alphabet) : Good (symbol A) := good_mapRes good_anychar _

theorem strict_symbol (A : Alphabet) : Strict (symbol A) := strict_mapRes strict_anychar _

theorem buildSymLoop_noPanic (l : List (Nat × List α)) (hl : ∀ p ∈ l, p.1 < K) :
    ∀ (m : Mat α K) (done : List Nat) (site : String), buildSymLoop m done l ≠ .panic site := by
  induction l with
  | nil => intro m done site; simp [buildSymLoop]
  | cons p rest ih =>
    intro m done site
    obtain ⟨s, cs⟩ := p
    have hs : s < K := hl (s, cs) (by simp)
    have hrest : ∀ p ∈ rest, p.1 < K := fun p hp => hl p (by simp [hp])
    simp only [buildSymLoop]
    split
    · omega
    · split
      · simp
      · split
        · simp
        · rename_i hlen
          have hlen' : cs.length = m.rows := by simpa using hlen
          obtain ⟨m', h1, _⟩ := fillColumn_some s hs cs m 0 (by omega)
          rw [h1]
          exact ih hrest m' (s :: done) site

/-- the values of a `many1` are values of the element parser -/
theorem manyLoop_mem {f : Parser α} (P : α → Prop) (hP : ∀ i r v, f i = .ok r v → P v) :
    ∀ (i : Bytes) (acc : List α), (∀ a ∈ acc, P a) →
      ∀ r vs, manyLoop f i acc = .ok r vs → ∀ a ∈ vs, P a := by
  intro i
  induction hn : i.length using Nat.strongRecOn generalizing i with
  | _ n ih =>
    subst hn
    intro acc hacc r vs h
    rw [manyLoop] at h
    cases h1 : f i with
    | ok i1 o =>
      rw [h1] at h; simp only at h
      split at h
      · rename_i hlt
        exact ih _ hlt i1 rfl (o :: acc) (by
          intro a ha
          cases ha with
          | head => exact hP _ _ _ h1
          | tail _ ha => exact hacc a ha) r vs h
      · cases h
    | err =>
      rw [h1] at h; simp only [PRes.ok.injEq] at h
      intro a ha
      rw [← h.2] at ha
      exact hacc a (by simpa using ha)
    | fail => rw [h1] at h; cases h
    | incomplete => rw [h1] at h; cases h

theorem many1_mem {f : Parser α} (P : α → Prop) (hP : ∀ i r v, f i = .ok r v → P v)
    {i r : Bytes} {vs : List α} (h : many1 f i = .ok r vs) : ∀ a ∈ vs, P a := by
  unfold many1 at h
  cases h1 : f i with
  | ok i1 o =>
    rw [h1] at h
    exact manyLoop_mem P hP i1 [o] (by intro a ha; simp at ha; rw [ha]; exact hP _ _ _ h1) r vs h
  | _ => rw [h1] at h; simp at h

/-- the values of a `separated_list` are values of the element parser -/
theorem sepLoop_mem {β : Type} {s : Parser β} {f : Parser α} (P : α → Prop)
    (hP : ∀ i r v, f i = .ok r v → P v) :
    ∀ (i : Bytes) (acc : List α), (∀ a ∈ acc, P a) →
      ∀ r vs, sepLoop s f i acc = .ok r vs → ∀ a ∈ vs, P a := by
  intro i
  induction hn : i.length using Nat.strongRecOn generalizing i with
  | _ n ih =>
    subst hn
    intro acc hacc r vs h
    rw [sepLoop] at h
    have hdone : ∀ r vs, (PRes.ok i acc.reverse : PRes (List α)) = .ok r vs → ∀ a ∈ vs, P a := by
      intro r vs h a ha
      simp only [PRes.ok.injEq] at h
      rw [← h.2] at ha
      exact hacc a (by simpa using ha)
    cases h1 : s i with
    | ok i1 _ =>
      rw [h1] at h; simp only at h
      split at h
      · rename_i hlt
        cases h2 : f i1 with
        | ok i2 o =>
          rw [h2] at h; simp only at h
          split at h
          · rename_i hle
            exact ih i2.length (by omega) i2 rfl (o :: acc) (by
              intro a ha
              cases ha with
              | head => exact hP _ _ _ h2
              | tail _ ha => exact hacc a ha) r vs h
          · cases h
        | err => rw [h2] at h; exact hdone r vs h
        | fail => rw [h2] at h; cases h
        | incomplete => rw [h2] at h; cases h
      · cases h
    | err => rw [h1] at h; exact hdone r vs h
    | fail => rw [h1] at h; cases h
    | incomplete => rw [h1] at h; cases h

theorem sepList1_mem {β : Type} {s : Parser β} {f : Parser α} (P : α → Prop)
    (hP : ∀ i r v, f i = .ok r v → P v) {i r : Bytes} {vs : List α}
    (h : sepList1 s f i = .ok r vs) : ∀ a ∈ vs, P a := by
  unfold sepList1 at h
  cases h1 : f i with
  | ok i1 o =>
    rw [h1] at h
    exact sepLoop_mem P hP i1 [o] (by intro a ha; simp at ha; rw [ha]; exact hP _ _ _ h1) r vs h
  | _ => rw [h1] at h; simp at h

/-! ### `built` -/

theorem good_built {β : Type} {f : Parser α} (hf : Good f) (g : α → Built β K) : Good (built f g) := by
  constructor
  · intro i; unfold built
    have := hf.noInc i
    cases h : f i with
    | ok r v => simp only; split <;> simp
    | _ => simp_all
  · intro i r v h; unfold built at h
    cases h' : f i with
    | ok r' v' =>
      rw [h'] at h; simp only at h
      split at h
      · simp only [PRes.ok.injEq] at h; rw [← h.1]; exact hf.le i r' v' h'
      · cases h
      · simp only [PRes.ok.injEq] at h; rw [← h.1]; exact hf.le i r' v' h'
    | _ => rw [h'] at h; simp at h

theorem strict_built {β : Type} {f : Parser α} (hf : Strict f) (g : α → Built β K) :
    Strict (built f g) := by
  intro i r v h; unfold built at h
  cases h' : f i with
  | ok r' v' =>
    rw [h'] at h; simp only at h
    split at h
    · simp only [PRes.ok.injEq] at h; rw [← h.1]; exact hf i r' v' h'
    · cases h
    · simp only [PRes.ok.injEq] at h; rw [← h.1]; exact hf i r' v' h'
  | _ => rw [h'] at h; simp at h

/-- if `g` never panics on the values `f` produces, `built f g` never yields `Except.error` -/
theorem built_noPanic {β : Type} {f : Parser α} {g : α → Built β K}
    (hg : ∀ i r v, f i = .ok r v → ∀ site, g v ≠ .panic site)
    {i r : Bytes} {e : Except String (Mat β K)} (h : built f g i = .ok r e) : ∃ m, e = .ok m := by
  unfold built at h
  cases h' : f i with
  | ok r' v' =>
    rw [h'] at h; simp only at h
    split at h
    · rename_i m _
      simp only [PRes.ok.injEq] at h; exact ⟨m, h.2.symm⟩
    · cases h
    · rename_i site hs
      exact absurd hs (hg i r' v' h' site)
  | _ => rw [h'] at h; simp at h

end Io
end LMV
