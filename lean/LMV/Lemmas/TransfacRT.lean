/-
  LMV.Lemmas.TransfacRT — round trip of the TRANSFAC format: records as lists of items (field
  lines in any order, `XX` lines, `P0` blocks).  Core Lean only.
-/
import LMV.Lemmas.Transfac
import LMV.Lemmas.UniprobeRT
import LMV.Lemmas.Consumer

namespace LMV
namespace Transfac

open Io Nom

variable {α : Type}

/-! ### field lines -/

theorem trimEnd_newline (v : Bytes) : trimEnd (v ++ [0x0A]) = trimEnd v := by
  unfold trimEnd
  rw [List.reverse_append]
  simp only [List.reverse_cons, List.reverse_nil, List.nil_append, List.singleton_append]
  conv => lhs; unfold trimEndRev
  simp [isWs1]

theorem trim_field (v : Bytes) (h : WFField v) : trim (0x20 :: 0x20 :: v ++ [0x0A]) = v := by
  obtain ⟨hhead, htrim, _, _⟩ := h
  cases v with
  | nil => exact absurd hhead (by simp)
  | cons b tl =>
    simp only at hhead
    have hs : trimStart (b :: tl) = b :: tl := Uniprobe.trimStart_ascii b tl hhead.1 hhead.2
    have he : trimEnd (b :: tl) = b :: tl := by
      have := htrim
      unfold trim at this
      rw [hs] at this
      exact this
    unfold trim
    rw [List.cons_append, List.cons_append, Jaspar.trimStart_blank, Jaspar.trimStart_blank]
    have hs2 : trimStart (b :: tl ++ [0x0A]) = b :: tl ++ [0x0A] := by
      rw [List.cons_append]
      exact Uniprobe.trimStart_ascii b (tl ++ [0x0A]) hhead.1 hhead.2
    rw [hs2, trimEnd_newline, he]

theorem parseLine_eval (line rest : Bytes) (h : (0x0A : UInt8) ∉ line) :
    parseLine (line ++ 0x0A :: rest) = .ok rest (line ++ [0x0A]) := by
  unfold parseLine
  have hc : (line ++ 0x0A :: rest).contains 0x0A = true := by simp
  rw [if_pos hc, through_append, after_append, if_neg h, if_neg h]
  simp [through, after]

theorem tagLine_field (a b : UInt8) (v : Bytes) (h : WFField v) (rest : Bytes) :
    tagLine a b (renderField a b v ++ rest) = .ok rest (0x20 :: 0x20 :: v ++ [0x0A]) := by
  have e : renderField a b v ++ rest = [a, b] ++ ((0x20 :: 0x20 :: v) ++ 0x0A :: rest) := by
    simp [renderField]
  rw [e]
  unfold tagLine
  apply preceded_eval (tag_eval _ _)
  have := parseLine_eval (0x20 :: 0x20 :: v) rest (by
    intro hm
    simp only [List.mem_cons] at hm
    rcases hm with hm | hm | hm
    · cases hm
    · cases hm
    · exact h.2.2.1 _ hm rfl)
  simpa using this

theorem parseTag_eval (a b : UInt8) (rest : Bytes) (ha : a < 0x80) (hb : b < 0x80)
    (hk : knownTags.contains (t a b) = true) : parseTag (a :: b :: rest) = .ok rest (t a b) := by
  have ca : charLen a = 1 := by simp [charLen, ha]
  have cb : charLen b = 1 := by simp [charLen, hb]
  have hk' : [a, b] ∈ knownTags := by simpa [t] using hk
  simp [parseTag, takeChars, splitChars, ca, cb, hk', t]

/-! ### one item, one iteration of the record loop -/

variable (A : Alphabet) (conv : Bytes → Option α) (zero : α)

theorem renderField_head (a b : UInt8) (v rest : Bytes) :
    renderField a b v ++ rest = a :: b :: (0x20 :: 0x20 :: v ++ [0x0A] ++ rest) := by
  simp [renderField]

theorem recordStep_ac (r : TRecord α A.K) (v : Bytes) (h : WFField v) (rest : Bytes) :
    recordStep A conv zero space1 r (renderItem A (.ac v) ++ rest)
      = .continue rest (applyItem A conv zero r (.ac v)) := by
  have hp : parseTag (renderField 0x41 0x43 v ++ rest) = .ok (0x20 :: 0x20 :: v ++ [0x0A] ++ rest) (t 0x41 0x43) := by
    rw [renderField_head]; exact parseTag_eval _ _ _ (by decide) (by decide) (by decide)
  simp only [renderItem, recordStep, hp, stepOf, tagLine_field _ _ v h rest, trim_field v h, if_true,
    applyItem]

theorem recordStep_de (r : TRecord α A.K) (v : Bytes) (h : WFField v) (rest : Bytes) :
    recordStep A conv zero space1 r (renderItem A (.de v) ++ rest)
      = .continue rest (applyItem A conv zero r (.de v)) := by
  have hp : parseTag (renderField 0x44 0x45 v ++ rest) = .ok (0x20 :: 0x20 :: v ++ [0x0A] ++ rest) (t 0x44 0x45) := by
    rw [renderField_head]; exact parseTag_eval _ _ _ (by decide) (by decide) (by decide)
  simp only [renderItem, recordStep, hp, stepOf, tagLine_field _ _ v h rest, trim_field v h, applyItem]
  simp [t]

theorem recordStep_id (r : TRecord α A.K) (v : Bytes) (h : WFField v) (rest : Bytes) :
    recordStep A conv zero space1 r (renderItem A (.id v) ++ rest)
      = .continue rest (applyItem A conv zero r (.id v)) := by
  have hp : parseTag (renderField 0x49 0x44 v ++ rest) = .ok (0x20 :: 0x20 :: v ++ [0x0A] ++ rest) (t 0x49 0x44) := by
    rw [renderField_head]; exact parseTag_eval _ _ _ (by decide) (by decide) (by decide)
  simp only [renderItem, recordStep, hp, stepOf, tagLine_field _ _ v h rest, trim_field v h, applyItem]
  simp [t]

theorem recordStep_na (r : TRecord α A.K) (v : Bytes) (h : WFField v) (rest : Bytes) :
    recordStep A conv zero space1 r (renderItem A (.na v) ++ rest)
      = .continue rest (applyItem A conv zero r (.na v)) := by
  have hp : parseTag (renderField 0x4E 0x41 v ++ rest) = .ok (0x20 :: 0x20 :: v ++ [0x0A] ++ rest) (t 0x4E 0x41) := by
    rw [renderField_head]; exact parseTag_eval _ _ _ (by decide) (by decide) (by decide)
  simp only [renderItem, recordStep, hp, stepOf, tagLine_field _ _ v h rest, trim_field v h, applyItem]
  simp [t]

theorem recordStep_xx (r : TRecord α A.K) (rest : Bytes) :
    recordStep A conv zero space1 r (renderItem A .xx ++ rest)
      = .continue rest (applyItem A conv zero r .xx) := by
  have hp : parseTag (renderItem A .xx ++ rest) = .ok (0x0A :: rest) (t 0x58 0x58) :=
    parseTag_eval 0x58 0x58 (0x0A :: rest) (by decide) (by decide) (by decide)
  have hl : parseLine (renderItem A .xx ++ rest) = .ok rest [0x58, 0x58, 0x0A] := by
    have := parseLine_eval [0x58, 0x58] rest (by decide)
    simpa [renderItem] using this
  simp only [recordStep, hp, stepOf, hl, applyItem]
  simp [t]

/-- the `//` line ends the record -/
theorem recordStep_end (r : TRecord α A.K) :
    recordStep A conv zero space1 r [0x2F, 0x2F, 0x0A] = .finish [] r := by
  have hp : parseTag [0x2F, 0x2F, 0x0A] = .ok [0x0A] (t 0x2F 0x2F) :=
    parseTag_eval _ _ _ (by decide) (by decide) (by decide)
  have hl : preceded (tag (t 0x2F 0x2F)) (alt parseLine eof) [0x2F, 0x2F, 0x0A] = .ok [] [0x0A] := by
    apply preceded_eval (a := t 0x2F 0x2F) (r1 := [0x0A])
    · exact tag_eval (t 0x2F 0x2F) [0x0A]
    · have := parseLine_eval [] [] (by simp)
      simp only [List.nil_append] at this
      simp [alt, this]
  simp only [recordStep, hp, stepOf, hl]
  simp [t]

/-! ### the `P0` block -/

def symsText (syms : List Nat) : Bytes := syms.flatMap fun s => [0x20, A.letters.getD s 0]

theorem isSpace_of_not_ws {b : UInt8} (h : isWs1 b = false) : isSpace b = false := by
  cases hs : isSpace b with
  | false => rfl
  | true =>
    simp only [isSpace, Bool.or_eq_true, decide_eq_true_eq] at hs
    rcases hs with hs | hs <;> rw [hs] at h <;> revert h <;> decide

theorem space1_blank_letter (hB : Uniprobe.LettersNotBlank A) (s : Nat) (hs : s < A.K) (y : Bytes) :
    space1 (0x20 :: A.letters.getD s 0 :: y) = .ok (A.letters.getD s 0 :: y) [0x20] := by
  have hsp := isSpace_of_not_ws (hB s hs)
  have h20 : isSpace 0x20 = true := by decide
  generalize A.letters.getD s 0 = l at hsp
  simp [space1, List.dropWhile, List.takeWhile, hsp, h20]

theorem sepLoop_syms (hA : A.LettersOK) (hB : Uniprobe.LettersNotBlank A) (syms : List Nat)
    (hs : ∀ s ∈ syms, s < A.K) (rest : Bytes) :
    ∀ acc : List Nat, sepLoop space1 (symbol A) (symsText A syms ++ 0x0A :: rest) acc
      = .ok (0x0A :: rest) (acc.reverse ++ syms) := by
  induction syms with
  | nil =>
    intro acc
    rw [sepLoop]
    simp [symsText, space1, isSpace]
  | cons s ss ih =>
    intro acc
    have hsK := hs s (by simp)
    have e : symsText A (s :: ss) ++ 0x0A :: rest =
        0x20 :: A.letters.getD s 0 :: (symsText A ss ++ 0x0A :: rest) := by simp [symsText]
    rw [e, sepLoop, space1_blank_letter A hB s hsK]
    simp only
    rw [if_pos (by simp), Jaspar16.symbol_letter hA s hsK]
    simp only
    rw [if_pos (by simp), ih (fun s' h' => hs s' (by simp [h'])) (s :: acc)]
    simp

theorem parseAlphabet_render (hA : A.LettersOK) (hB : Uniprobe.LettersNotBlank A) (syms : List Nat)
    (hne : syms ≠ []) (hs : ∀ s ∈ syms, s < A.K) (rest : Bytes) :
    parseAlphabetWith space1 A (0x50 :: 0x30 :: (symsText A syms ++ 0x0A :: rest)) = .ok rest syms := by
  cases syms with
  | nil => exact absurd rfl hne
  | cons s ss =>
    have hsK := hs s (by simp)
    have e : symsText A (s :: ss) ++ 0x0A :: rest =
        0x20 :: A.letters.getD s 0 :: (symsText A ss ++ 0x0A :: rest) := by simp [symsText]
    have htag : alt (tag (t 0x50 0x4F)) (tag (t 0x50 0x30))
        (0x50 :: 0x30 :: (symsText A (s :: ss) ++ 0x0A :: rest))
        = .ok (symsText A (s :: ss) ++ 0x0A :: rest) (t 0x50 0x30) := by
      have h1 : tag (t 0x50 0x4F) (0x50 :: 0x30 :: (symsText A (s :: ss) ++ 0x0A :: rest)) = .err := by
        simp [tag, t, List.isPrefixOf]
      unfold alt
      rw [h1]
      exact tag_eval (t 0x50 0x30) (symsText A (s :: ss) ++ 0x0A :: rest)
    have hlist : sepList1 space1 (symbol A) (A.letters.getD s 0 :: (symsText A ss ++ 0x0A :: rest))
        = .ok (0x0A :: rest) (s :: ss) := by
      unfold sepList1
      rw [Jaspar16.symbol_letter hA s hsK]
      simp only
      rw [sepLoop_syms A hA hB ss (fun s' h' => hs s' (by simp [h'])) rest [s]]
      simp
    unfold parseAlphabetWith
    apply delimited_eval htag _ (by simp [lineEnding] : lineEnding (0x0A :: rest) = .ok rest [0x0A])
    rw [e]
    exact preceded_eval (space1_blank_letter A hB s hsK _) hlist

/-- the lexemes of a row, each followed by a blank -/
def rowBody (lexs : List Bytes) : Bytes := lexs.flatMap fun l => l ++ [0x20]

theorem wfLex_head (lex : Bytes) (h : Uniprobe.wfLex lex = true) :
    ∃ b tl, lex = b :: tl ∧ isDigit b = true := by
  unfold Uniprobe.wfLex at h
  simp only [Bool.and_eq_true, Bool.not_eq_true', List.isEmpty_eq_false_iff] at h
  cases lex with
  | nil => simp at h
  | cons b tl =>
    refine ⟨b, tl, rfl, ?_⟩
    cases hb : isDigit b with
    | true => rfl
    | false => simp [List.takeWhile, hb] at h

theorem rowBody_startsNot_space (ls : List Bytes) (h : ∀ lex ∈ ls, Uniprobe.wfLex lex = true) (rest : Bytes) :
    StartsNot isSpace (rowBody ls ++ 0x0A :: rest) := by
  cases ls with
  | nil => simp only [rowBody, List.flatMap_nil, List.nil_append, StartsNot]; decide
  | cons l ls' =>
    obtain ⟨b, tl, hl, hb⟩ := wfLex_head l (h l (by simp))
    simp only [rowBody, List.flatMap_cons, hl, List.cons_append, StartsNot]
    exact isDigit_not_space hb

/-- one element of a row: optional blanks, the lexeme, the blank after it -/
theorem rowElem (pre : Bytes) (hpre : ∀ b ∈ pre, isSpace b = true) (lex : Bytes)
    (h : Uniprobe.wfLex lex = true) (hv : (conv lex).isSome = true) (y : Bytes) (hy : StartsNot isSpace y) :
    delimited space0 (float conv) space0 (pre ++ (lex ++ 0x20 :: y)) = .ok y ((conv lex).getD zero) := by
  obtain ⟨v, hv'⟩ := Option.isSome_iff_exists.mp hv
  obtain ⟨b, tl, hl, hb⟩ := wfLex_head lex h
  have hstart : StartsNot isSpace (lex ++ 0x20 :: y) := by
    rw [hl]; simp only [List.cons_append, StartsNot]; exact isDigit_not_space hb
  obtain ⟨t1, t2⟩ := takeWhile_append_stop isSpace pre (lex ++ 0x20 :: y) hpre hstart
  have h1 : space0 (pre ++ (lex ++ 0x20 :: y)) = .ok (lex ++ 0x20 :: y) pre := by
    simp [space0, takeWhile, t1, t2]
  have h2 : float conv (lex ++ 0x20 :: y) = .ok (0x20 :: y) v :=
    Uniprobe.float_lex conv lex h v hv' 0x20 (Or.inr (Or.inr rfl)) y
  obtain ⟨u1, u2⟩ := takeWhile_append_stop isSpace [0x20] y (by simp [isSpace]) hy
  have h3 : space0 (0x20 :: y) = .ok y [0x20] := by
    simp only [List.cons_append, List.nil_append] at u1 u2
    simp [space0, takeWhile, u1, u2]
  rw [hv']
  exact delimited_eval h1 h2 h3

theorem count_row_aux (lexs : List Bytes)
    (h : ∀ lex ∈ lexs, Uniprobe.wfLex lex = true ∧ (conv lex).isSome = true) (rest : Bytes) :
    count (delimited space0 (float conv) space0) lexs.length (rowBody lexs ++ 0x0A :: rest)
      = .ok (0x0A :: rest) (Uniprobe.values conv zero lexs) := by
  induction lexs with
  | nil => simp [count, rowBody, Uniprobe.values]
  | cons lex ls ih =>
    obtain ⟨h1, h2⟩ := h lex (by simp)
    have hls : ∀ l ∈ ls, Uniprobe.wfLex l = true := fun l hl => (h l (by simp [hl])).1
    have e : rowBody (lex :: ls) ++ 0x0A :: rest = [] ++ (lex ++ 0x20 :: (rowBody ls ++ 0x0A :: rest)) := by
      simp [rowBody]
    rw [e]
    simp only [List.length_cons, count]
    rw [rowElem conv zero [] (by simp) lex h1 h2 _ (rowBody_startsNot_space ls hls rest)]
    simp only
    rw [ih (fun l hl => h l (by simp [hl]))]
    simp [Uniprobe.values]

/-- the elements of a row after the row number and its blank -/
theorem count_row (lexs : List Bytes)
    (h : ∀ lex ∈ lexs, Uniprobe.wfLex lex = true ∧ (conv lex).isSome = true) (hne : lexs ≠ []) (rest : Bytes) :
    count (delimited space0 (float conv) space0) lexs.length (0x20 :: (rowBody lexs ++ 0x0A :: rest))
      = .ok (0x0A :: rest) (Uniprobe.values conv zero lexs) := by
  cases lexs with
  | nil => exact absurd rfl hne
  | cons lex ls =>
    obtain ⟨h1, h2⟩ := h lex (by simp)
    have hls : ∀ l ∈ ls, Uniprobe.wfLex l = true := fun l hl => (h l (by simp [hl])).1
    have e : 0x20 :: (rowBody (lex :: ls) ++ 0x0A :: rest) =
        [0x20] ++ (lex ++ 0x20 :: (rowBody ls ++ 0x0A :: rest)) := by simp [rowBody]
    rw [e]
    simp only [List.length_cons, count]
    rw [rowElem conv zero [0x20] (by simp [isSpace]) lex h1 h2 _ (rowBody_startsNot_space ls hls rest)]
    simp only
    rw [count_row_aux conv zero ls (fun l hl => h l (by simp [hl]))]
    simp [Uniprobe.values]

theorem renderRows_cons (i : Nat) (lexs : List Bytes) (rows : List (List Bytes)) :
    renderRows i (lexs :: rows) =
      Jaspar.digits (i + 1) ++ 0x20 :: (rowBody lexs ++ 0x0A :: renderRows (i + 1) rows) := by
  simp [renderRows, rowBody]

/-- a rendered row is read back exactly -/
theorem parseRow_render (i : Nat) (hi : i + 1 < 4294967296) (lexs : List Bytes) (hne : lexs ≠ [])
    (h : ∀ lex ∈ lexs, Uniprobe.wfLex lex = true ∧ (conv lex).isSome = true) (rest : Bytes) :
    parseRow conv lexs.length (Jaspar.digits (i + 1) ++ 0x20 :: (rowBody lexs ++ 0x0A :: rest))
      = .ok rest (Uniprobe.values conv zero lexs) := by
  unfold parseRow
  have hu : u32 (Jaspar.digits (i + 1) ++ 0x20 :: (rowBody lexs ++ 0x0A :: rest))
      = .ok (0x20 :: (rowBody lexs ++ 0x0A :: rest)) (i + 1) :=
    Jaspar.uint_digits _ (i + 1) hi _ (by simp only [StartsNot]; decide)
  have hl : parseLine (0x0A :: rest) = .ok rest [0x0A] := by
    have := parseLine_eval [] rest (by simp)
    simpa using this
  exact delimited_eval hu (count_row conv zero lexs h hne rest) hl

theorem parseRow_stop (k : Nat) (rest : Bytes) (h : StartsNot isDigit rest) :
    parseRow conv k rest = .err := by
  have hu : u32 rest = .err := by
    cases rest with
    | nil => simp [u32, uint]
    | cons b bs => simp only [StartsNot] at h; simp [u32, uint, h]
  simp [parseRow, delimited, preceded, terminated, pmap, pair, hu, PRes.map]

/-- well-formedness of the rows of a block -/
def RowsOK (k : Nat) (rows : List (List Bytes)) : Prop :=
  ∀ row ∈ rows, row.length = k ∧ row ≠ [] ∧
    ∀ lex ∈ row, Uniprobe.wfLex lex = true ∧ (conv lex).isSome = true

theorem manyLoop_rows (k : Nat) (rows : List (List Bytes)) (hrows : RowsOK conv k rows) (rest : Bytes)
    (hrest : StartsNot isDigit rest) :
    ∀ (i : Nat) (acc : List (List α)), i + rows.length < 4294967296 →
      manyLoop (parseRow conv k) (renderRows i rows ++ rest) acc
        = .ok rest (acc.reverse ++ rows.map (Uniprobe.values conv zero)) := by
  induction rows with
  | nil =>
    intro i acc _
    rw [manyLoop]
    simp [renderRows, parseRow_stop conv k rest hrest]
  | cons lexs rows ih =>
    intro i acc hi
    obtain ⟨hk, hne, hlex⟩ := hrows lexs (by simp)
    simp only [List.length_cons] at hi
    have e : renderRows i (lexs :: rows) ++ rest =
        Jaspar.digits (i + 1) ++ 0x20 :: (rowBody lexs ++ 0x0A :: (renderRows (i + 1) rows ++ rest)) := by
      rw [renderRows_cons]; simp
    have hp := parseRow_render conv zero i (by omega) lexs hne hlex (renderRows (i + 1) rows ++ rest)
    rw [hk] at hp
    rw [e, manyLoop, hp]
    simp only
    rw [if_pos (by simp; omega), ih (fun r hr => hrows r (by simp [hr])) (i + 1) _ (by omega)]
    simp

theorem many1_rows (k : Nat) (rows : List (List Bytes)) (hne : rows ≠ []) (hrows : RowsOK conv k rows)
    (hlen : rows.length < 4294967296) (rest : Bytes) (hrest : StartsNot isDigit rest) :
    many1 (parseRow conv k) (renderRows 0 rows ++ rest)
      = .ok rest (rows.map (Uniprobe.values conv zero)) := by
  cases rows with
  | nil => exact absurd rfl hne
  | cons lexs rows =>
    obtain ⟨hk, hne', hlex⟩ := hrows lexs (by simp)
    simp only [List.length_cons] at hlen
    have e : renderRows 0 (lexs :: rows) ++ rest =
        Jaspar.digits (0 + 1) ++ 0x20 :: (rowBody lexs ++ 0x0A :: (renderRows (0 + 1) rows ++ rest)) := by
      rw [renderRows_cons]; simp
    have hp := parseRow_render conv zero 0 (by omega) lexs hne' hlex (renderRows (0 + 1) rows ++ rest)
    rw [hk] at hp
    unfold many1
    rw [e, hp]
    simp only
    rw [manyLoop_rows conv zero k rows (fun r hr => hrows r (by simp [hr])) rest hrest (0 + 1) _ (by omega)]
    simp

/-! ### filling the matrix -/

section Fill
variable {K : Nat} [Inhabited α]

theorem fillRow_spec (i : Nat) (syms : List Nat) (hs : ∀ s ∈ syms, s < K) (hnd : syms.Nodup) :
    ∀ (row : List α) (m : Mat α K), i < m.rows →
      ∃ m', fillRow m i syms row = some m' ∧ m'.rows = m.rows ∧
        ∀ r c, m'.get r c =
          if r = i then
            (match (syms.zip row).find? (·.1 == c) with
             | some p => p.2
             | none => m.get r c)
          else m.get r c := by
  induction syms with
  | nil =>
    intro row m _
    refine ⟨m, by simp [fillRow], rfl, ?_⟩
    intro r c
    simp
  | cons s ss ih =>
    intro row m hi
    cases row with
    | nil =>
      refine ⟨m, by simp [fillRow], rfl, ?_⟩
      intro r c
      simp
    | cons x xs =>
      have hsK : s < K := hs s (by simp)
      simp only [List.nodup_cons] at hnd
      obtain ⟨m', h1, h2, h3⟩ := ih (fun s' h' => hs s' (by simp [h'])) hnd.2 xs (m.set i s x)
        (by simpa using hi)
      refine ⟨m', by simp only [fillRow, hi, hsK, and_self, if_true]; exact h1, by simpa using h2, ?_⟩
      intro r c
      rw [h3 r c]
      by_cases hr : r = i
      · subst hr
        simp only [if_true, List.zip_cons_cons, List.find?_cons]
        by_cases hc : s = c
        · subst hc
          have hnone : (ss.zip xs).find? (·.1 == s) = none := by
            rw [List.find?_eq_none]
            intro p hp hps
            have : p.1 = s := by simpa using hps
            have hmem : p.1 ∈ ss := (List.of_mem_zip hp).1
            exact hnd.1 (this ▸ hmem)
          simp only [hnone, beq_self_eq_true]
          rw [Mat.get_set, if_pos ⟨rfl, rfl, hi, hsK⟩]
        · have hbeq : (s == c) = false := by simpa using hc
          simp only [hbeq]
          cases (ss.zip xs).find? (·.1 == c) with
          | some p => rfl
          | none =>
            simp only
            rw [Mat.get_set, if_neg (fun e => hc e.2.1.symm)]
      · simp only [hr, if_false]
        rw [Mat.get_set, if_neg (fun e => hr e.1)]

theorem fillRows_spec (syms : List Nat) (hs : ∀ s ∈ syms, s < K) (hnd : syms.Nodup)
    (rows : List (List α)) :
    ∀ (m : Mat α K) (i0 : Nat), i0 + rows.length ≤ m.rows →
      ∃ m', fillRows m syms i0 rows = some m' ∧ m'.rows = m.rows ∧
        ∀ r c, m'.get r c =
          if i0 ≤ r ∧ r < i0 + rows.length then
            (match (syms.zip (rows.getD (r - i0) [])).find? (·.1 == c) with
             | some p => p.2
             | none => m.get r c)
          else m.get r c := by
  induction rows with
  | nil =>
    intro m i0 _
    exact ⟨m, rfl, rfl, fun r c => by rw [if_neg (by simp)]⟩
  | cons row rows ih =>
    intro m i0 h
    simp only [List.length_cons] at h
    obtain ⟨m1, f1, f2, f3⟩ := fillRow_spec i0 syms hs hnd row m (by omega)
    obtain ⟨m', g1, g2, g3⟩ := ih m1 (i0 + 1) (by rw [f2]; omega)
    refine ⟨m', by simp only [fillRows, f1]; exact g1, by omega, ?_⟩
    intro r c
    rw [g3 r c]
    by_cases hr : r = i0
    · subst hr
      rw [if_neg (by omega), f3 r c, if_pos rfl, if_pos ⟨Nat.le_refl _, by simp⟩]
      simp
    · by_cases hlo : i0 + 1 ≤ r ∧ r < i0 + 1 + rows.length
      · rw [if_pos hlo, if_pos ⟨by omega, by simp; omega⟩]
        have : r - i0 = (r - (i0 + 1)) + 1 := by omega
        rw [this, List.getD_cons_succ, f3 r c, if_neg hr]
      · rw [if_neg hlo, if_neg (by simp; omega), f3 r c, if_neg hr]

end Fill

theorem fillRows_expect (syms : List Nat) (hs : ∀ s ∈ syms, s < A.K) (hnd : syms.Nodup)
    (rows : List (List Bytes)) :
    fillRows ((Mat.empty : Mat α A.K).resize (rows.map (Uniprobe.values conv zero)).length zero) syms 0
      (rows.map (Uniprobe.values conv zero)) = some (expectData A conv zero syms rows) := by
  letI : Inhabited α := ⟨zero⟩
  have hd : (default : α) = zero := rfl
  obtain ⟨m', g1, g2, g3⟩ := fillRows_spec syms hs hnd (rows.map (Uniprobe.values conv zero))
    ((Mat.empty : Mat α A.K).resize (rows.map (Uniprobe.values conv zero)).length zero) 0 (by simp)
  rw [g1]
  congr 1
  apply Mat.ext
  · simp [expectData, g2]
  · intro i j hi hj
    rw [g2] at hi
    simp only [Mat.rows_resize, List.length_map] at hi
    rw [g3 i j, if_pos ⟨Nat.zero_le _, by simpa using hi⟩]
    simp only [expectData, Mat.get_ofFn, hi, hj, and_self, if_true, Nat.sub_zero]
    have hrow : (rows.map (Uniprobe.values conv zero)).getD i [] = Uniprobe.values conv zero (rows.getD i []) := by
      simp [List.getD_eq_getElem?_getD, List.getElem?_map, List.getElem?_eq_getElem hi]
    rw [hrow]
    have hzip : syms.zip (Uniprobe.values conv zero (rows.getD i [])) =
        (syms.zip (rows.getD i [])).map (fun p => (p.1, (conv p.2).getD zero)) := by
      simp [Uniprobe.values, List.zip_map_right]
    rw [hzip, List.find?_map]
    have hcomp : ((fun (p : Nat × α) => p.1 == j) ∘ fun (p : Nat × Bytes) => (p.1, (conv p.2).getD zero))
        = fun p => p.1 == j := rfl
    rw [hcomp]
    cases (syms.zip (rows.getD i [])).find? (fun p => p.1 == j) with
    | some p => simp
    | none => simp [hi, hj, hd]

theorem recordStep_matrix (hA : A.LettersOK) (hB : Uniprobe.LettersNotBlank A) (r : TRecord α A.K)
    (syms : List Nat) (rows : List (List Bytes)) (h : WFItem A conv (.matrix syms rows)) (rest : Bytes)
    (hrest : StartsNot isDigit rest) :
    recordStep A conv zero space1 r (renderItem A (.matrix syms rows) ++ rest)
      = .continue rest (applyItem A conv zero r (.matrix syms rows)) := by
  obtain ⟨hne, hK, hnd, hrne, hrlen, hrows⟩ := h
  have e : renderItem A (.matrix syms rows) ++ rest =
      0x50 :: 0x30 :: (symsText A syms ++ 0x0A :: (renderRows 0 rows ++ rest)) := by
    simp [renderItem, symsText]
  have hp : parseTag (0x50 :: 0x30 :: (symsText A syms ++ 0x0A :: (renderRows 0 rows ++ rest)))
      = .ok (symsText A syms ++ 0x0A :: (renderRows 0 rows ++ rest)) (t 0x50 0x30) :=
    parseTag_eval 0x50 0x30 _ (by decide) (by decide) (by decide)
  have hal := parseAlphabet_render A hA hB syms hne hK (renderRows 0 rows ++ rest)
  have hrowsOK : RowsOK conv syms.length rows := by
    intro row hr
    obtain ⟨h1, h2⟩ := hrows row hr
    refine ⟨h1, ?_, h2⟩
    intro e
    rw [e] at h1
    cases syms with
    | nil => exact hne rfl
    | cons _ _ => simp at h1
  have hmany := many1_rows conv zero syms.length rows hrne hrowsOK (by omega) rest hrest
  rw [e]
  simp only [recordStep, hp, stepOf, hal, hmany, fillRows_expect A conv zero syms hK hnd rows, applyItem]
  simp [t]

/-! ### a whole record -/

/-- the first byte of a rendered item, or of the `//` line -/
theorem renderItem_head (it : Item) (rest : Bytes) :
    ∃ b y, renderItem A it ++ rest = b :: y ∧ isDigit b = false ∧ b ≠ 0x56 ∧ b ≠ 0x2F := by
  cases it with
  | ac v => exact ⟨0x41, _, rfl, by decide, by decide, by decide⟩
  | id v => exact ⟨0x49, _, rfl, by decide, by decide, by decide⟩
  | na v => exact ⟨0x4E, _, rfl, by decide, by decide, by decide⟩
  | de v => exact ⟨0x44, _, rfl, by decide, by decide, by decide⟩
  | xx => exact ⟨0x58, _, rfl, by decide, by decide, by decide⟩
  | «matrix» syms rows => exact ⟨0x50, _, rfl, by decide, by decide, by decide⟩

theorem items_startsNot_digit (items : List Item) :
    StartsNot isDigit (items.flatMap (renderItem A) ++ [0x2F, 0x2F, 0x0A]) := by
  cases items with
  | nil => simp only [List.flatMap_nil, List.nil_append, StartsNot]; decide
  | cons it rest =>
    obtain ⟨b, y, e, hb, _, _⟩ := renderItem_head A it (rest.flatMap (renderItem A) ++ [0x2F, 0x2F, 0x0A])
    rw [List.flatMap_cons, List.append_assoc, e]
    exact hb

theorem recordStep_item (hA : A.LettersOK) (hB : Uniprobe.LettersNotBlank A) (r : TRecord α A.K)
    (it : Item) (h : WFItem A conv it) (rest : Bytes) (hrest : StartsNot isDigit rest) :
    recordStep A conv zero space1 r (renderItem A it ++ rest)
      = .continue rest (applyItem A conv zero r it) := by
  cases it with
  | ac v => exact recordStep_ac A conv zero r v h rest
  | id v => exact recordStep_id A conv zero r v h rest
  | na v => exact recordStep_na A conv zero r v h rest
  | de v => exact recordStep_de A conv zero r v h rest
  | xx => exact recordStep_xx A conv zero r rest
  | «matrix» syms rows => exact recordStep_matrix A conv zero hA hB r syms rows h rest hrest

theorem recordLoop_items (hA : A.LettersOK) (hB : Uniprobe.LettersNotBlank A) (items : List Item)
    (hwf : ∀ it ∈ items, WFItem A conv it) :
    ∀ r : TRecord α A.K,
      recordLoop A conv zero space1 r (items.flatMap (renderItem A) ++ [0x2F, 0x2F, 0x0A])
        = .ok [] (items.foldl (applyItem A conv zero) r) := by
  induction items with
  | nil =>
    intro r
    rw [recordLoop]
    simp only [List.flatMap_nil, List.nil_append, recordStep_end A conv zero r, List.foldl_nil]
  | cons it rest ih =>
    intro r
    have hstep := recordStep_item A conv zero hA hB r it (hwf it (by simp))
      (rest.flatMap (renderItem A) ++ [0x2F, 0x2F, 0x0A]) (items_startsNot_digit A rest)
    rw [List.flatMap_cons, List.append_assoc, recordLoop, hstep]
    simp only
    obtain ⟨b, y, e, _⟩ := renderItem_head A it []
    have hlen : 0 < (renderItem A it).length := by
      rw [List.append_nil] at e; rw [e]; simp
    rw [if_pos (by simp; omega), ih (fun it' h' => hwf it' (by simp [h']))]
    rfl

/-- **the TRANSFAC record parser reads a rendered record back exactly** -/
theorem parseRecord_render (hA : A.LettersOK) (hB : Uniprobe.LettersNotBlank A) (items : List Item)
    (hwf : ∀ it ∈ items, WFItem A conv it) :
    parseRecord A conv zero (render1 A items) = .ok [] (expect A conv zero items) := by
  unfold parseRecord parseRecordWith render1 expect
  exact recordLoop_items A conv zero hA hB items hwf {}

/-! ### the text of a record as lines -/

def unlines (ls : List Bytes) : Bytes := ls.flatMap fun l => l ++ [0x0A]

def rowLines : Nat → List (List Bytes) → List Bytes
  | _, [] => []
  | i, lexs :: rest => (Jaspar.digits (i + 1) ++ 0x20 :: rowBody lexs) :: rowLines (i + 1) rest

def itemLines : Item → List Bytes
  | .ac v => [0x41 :: 0x43 :: 0x20 :: 0x20 :: v]
  | .id v => [0x49 :: 0x44 :: 0x20 :: 0x20 :: v]
  | .na v => [0x4E :: 0x41 :: 0x20 :: 0x20 :: v]
  | .de v => [0x44 :: 0x45 :: 0x20 :: 0x20 :: v]
  | .xx => [[0x58, 0x58]]
  | .matrix syms rows => (0x50 :: 0x30 :: symsText A syms) :: rowLines 0 rows

theorem renderRows_lines (i : Nat) (rows : List (List Bytes)) :
    renderRows i rows = unlines (rowLines i rows) := by
  induction rows generalizing i with
  | nil => rfl
  | cons lexs rest ih =>
    rw [renderRows_cons, ih]
    simp [unlines, rowLines]

theorem renderItem_lines (it : Item) : renderItem A it = unlines (itemLines A it) := by
  cases it with
  | «matrix» syms rows =>
    simp only [renderItem, itemLines, renderRows_lines]
    simp [unlines, symsText]
  | _ => simp [renderItem, renderField, itemLines, unlines]

/-- a line of a record: no line feed inside, valid UTF-8, does not start with `/` -/
def LineOK (line : Bytes) : Prop :=
  (0x0A : UInt8) ∉ line ∧ validUtf8 line = true ∧ line.head? ≠ some 0x2F

theorem fieldLine_ok (a b : UInt8) (ha : a < 0x80 ∧ a ≠ 0x0A ∧ a ≠ 0x2F) (hb : b < 0x80 ∧ b ≠ 0x0A)
    (v : Bytes) (h : WFField v) : LineOK (a :: b :: 0x20 :: 0x20 :: v) := by
  refine ⟨?_, ?_, by simpa using ha.2.2⟩
  · intro hm
    simp only [List.mem_cons] at hm
    rcases hm with hm | hm | hm | hm | hm
    · exact ha.2.1 hm.symm
    · exact hb.2 hm.symm
    · cases hm
    · cases hm
    · exact h.2.2.1 _ hm rfl
  · rw [validUtf8_cons, if_pos ha.1, validUtf8_cons, if_pos hb.1, validUtf8_cons, if_pos (by decide),
      validUtf8_cons, if_pos (by decide)]
    exact h.2.2.2

theorem ascii_line_ok (line : Bytes) (h : ∀ b ∈ line, b < 0x80 ∧ b ≠ 0x0A) (hh : line.head? ≠ some 0x2F) :
    LineOK line :=
  ⟨fun hm => (h _ hm).2 rfl, validUtf8_ascii line (fun b hb => (h b hb).1), hh⟩

theorem rowBody_bytes (lexs : List Bytes) (h : ∀ lex ∈ lexs, Uniprobe.wfLex lex = true) :
    ∀ b ∈ rowBody lexs, b < 0x80 ∧ b ≠ 0x0A := by
  intro b hb
  simp only [rowBody, List.mem_flatMap, List.mem_append, List.mem_singleton] at hb
  obtain ⟨lex, hl, hb⟩ := hb
  rcases hb with hb | hb
  · rcases Uniprobe.wfLex_bytes lex (h lex hl) b hb with hd | hd
    · have := Jaspar.isDigit_props hd
      exact ⟨this.2, by intro e; rw [e] at hd; revert hd; decide⟩
    · rw [hd]; decide
  · rw [hb]; decide

theorem rowLines_ok (rows : List (List Bytes))
    (h : ∀ row ∈ rows, ∀ lex ∈ row, Uniprobe.wfLex lex = true) :
    ∀ i, ∀ line ∈ rowLines i rows, LineOK line := by
  induction rows with
  | nil => intro i line hl; simp [rowLines] at hl
  | cons lexs rest ih =>
    intro i line hl
    simp only [rowLines, List.mem_cons] at hl
    rcases hl with hl | hl
    · rw [hl]
      obtain ⟨d1, _, d3⟩ := Jaspar.digits_spec (i + 1)
      apply ascii_line_ok
      · intro b hb
        simp only [List.mem_append, List.mem_cons] at hb
        rcases hb with hb | hb | hb
        · have := Jaspar.isDigit_props (d1 b hb)
          exact ⟨this.2, by intro e; rw [e] at hb; have := d1 _ hb; revert this; decide⟩
        · rw [hb]; decide
        · exact rowBody_bytes lexs (h lexs (by simp)) b hb
      · cases hd : Jaspar.digits (i + 1) with
        | nil => exact absurd hd d3
        | cons b bs =>
          have hb := d1 b (by rw [hd]; simp)
          simp only [List.cons_append, List.head?_cons, ne_eq, Option.some.injEq]
          intro e; rw [e] at hb; revert hb; decide
    · exact ih (fun row hr => h row (by simp [hr])) (i + 1) line hl

theorem itemLines_ok (hA : A.LettersOK) (hB : Uniprobe.LettersNotBlank A) (it : Item)
    (h : WFItem A conv it) : ∀ line ∈ itemLines A it, LineOK line := by
  cases it with
  | ac v =>
    intro line hl; simp only [itemLines, List.mem_singleton] at hl; rw [hl]
    exact fieldLine_ok _ _ (by decide) (by decide) v h
  | id v =>
    intro line hl; simp only [itemLines, List.mem_singleton] at hl; rw [hl]
    exact fieldLine_ok _ _ (by decide) (by decide) v h
  | na v =>
    intro line hl; simp only [itemLines, List.mem_singleton] at hl; rw [hl]
    exact fieldLine_ok _ _ (by decide) (by decide) v h
  | de v =>
    intro line hl; simp only [itemLines, List.mem_singleton] at hl; rw [hl]
    exact fieldLine_ok _ _ (by decide) (by decide) v h
  | xx =>
    intro line hl; simp only [itemLines, List.mem_singleton] at hl; rw [hl]
    exact ⟨by decide, by decide, by decide⟩
  | «matrix» syms rows =>
    obtain ⟨_, hK, _, _, _, hrows⟩ := h
    intro line hl
    simp only [itemLines, List.mem_cons] at hl
    rcases hl with hl | hl
    · rw [hl]
      apply ascii_line_ok _ _ (by simp)
      intro b hb
      simp only [List.mem_cons, symsText, List.mem_flatMap, List.not_mem_nil, or_false] at hb
      rcases hb with hb | hb | ⟨s, hs, hb⟩
      · rw [hb]; decide
      · rw [hb]; decide
      · rcases hb with hb | hb
        · rw [hb]; decide
        · rw [hb]
          refine ⟨(hA.1 s (hK s hs)).1, ?_⟩
          have := hB s (hK s hs)
          intro e; rw [e] at this; revert this; decide
    · exact rowLines_ok rows (fun row hr lex hlx => ((hrows row hr).2 lex hlx).1) 0 line hl

/-- all the lines of a record before its `//` -/
def recLines (items : List Item) : List Bytes := items.flatMap (itemLines A)

theorem render1_lines (items : List Item) :
    render1 A items = unlines (recLines A items) ++ [0x2F, 0x2F, 0x0A] := by
  unfold render1 recLines unlines
  congr 1
  induction items with
  | nil => rfl
  | cons it rest ih =>
    simp only [List.flatMap_cons, List.flatMap_append, ih]
    rw [renderItem_lines]
    rfl

theorem recLines_ok (hA : A.LettersOK) (hB : Uniprobe.LettersNotBlank A) (items : List Item)
    (hwf : ∀ it ∈ items, WFItem A conv it) : ∀ line ∈ recLines A items, LineOK line := by
  intro line hl
  simp only [recLines, List.mem_flatMap] at hl
  obtain ⟨it, hit, hl⟩ := hl
  exact itemLines_ok A conv hA hB it (hwf it hit) line hl

/-! ### the reader on a rendered file -/

theorem not_slashes (line : Bytes) (h : line.head? ≠ some 0x2F) :
    (t 0x2F 0x2F).isPrefixOf (line ++ [0x0A]) = false := by
  cases line with
  | nil => decide
  | cons b tl =>
    have : b ≠ 0x2F := by simpa using h
    have hb : ((0x2F : UInt8) == b) = false := by
      simp only [beq_eq_false_iff_ne, ne_eq]; exact fun e => this e.symm
    simp [t, List.isPrefixOf, hb]

theorem nextLoop_lines (lines : List Bytes) (hl : ∀ line ∈ lines, LineOK line) (more : Bytes) :
    ∀ (buffer : Bytes) (sched : List Nat),
      ∃ s', nextLoop buffer buffer.length sched (unlines lines ++ 0x2F :: 0x2F :: 0x0A :: more)
        = .ok (buffer ++ (unlines lines ++ [0x2F, 0x2F, 0x0A]))
            (buffer ++ (unlines lines ++ [0x2F, 0x2F, 0x0A])).length none more s' := by
  induction lines with
  | nil =>
    intro buffer sched
    obtain ⟨h1, h2⟩ := Uniprobe.readLine_line sched [0x2F, 0x2F] more (by decide) (by decide)
    simp only [unlines, List.flatMap_nil, List.nil_append]
    have e : (0x2F : UInt8) :: 0x2F :: 0x0A :: more = [0x2F, 0x2F] ++ 0x0A :: more := rfl
    rw [e, nextLoop]
    split
    · rename_i h; rw [h1] at h; cases h
    · rename_i l h
      rw [h1] at h
      cases h
      have hne : ([0x2F, 0x2F] ++ [0x0A] : Bytes) ≠ [] := by simp
      simp only [hne, dite_false]
      rw [tailStartsSlashes_append buffer _ hne (by decide)]
      have hp : (t 0x2F 0x2F).isPrefixOf ([0x2F, 0x2F] ++ [0x0A]) = true := by decide
      simp only [hp, h2]
      exact ⟨(readLine sched ([0x2F, 0x2F] ++ 0x0A :: more)).2.2, by simp⟩
  | cons line rest ih =>
    intro buffer sched
    obtain ⟨k1, k2, k3⟩ := hl line (by simp)
    have e : unlines (line :: rest) ++ 0x2F :: 0x2F :: 0x0A :: more =
        line ++ 0x0A :: (unlines rest ++ 0x2F :: 0x2F :: 0x0A :: more) := by simp [unlines]
    obtain ⟨h1, h2⟩ := Uniprobe.readLine_line sched line (unlines rest ++ 0x2F :: 0x2F :: 0x0A :: more) k1 k2
    rw [e, nextLoop]
    split
    · rename_i h; rw [h1] at h; cases h
    · rename_i l h
      rw [h1] at h
      cases h
      have hne : line ++ [0x0A] ≠ [] := by simp
      have hv : validUtf8 (line ++ [0x0A]) = true := by rw [validUtf8_append _ _ k2]; decide
      simp only [hne, dite_false]
      rw [tailStartsSlashes_append buffer _ hne hv, not_slashes line k3]
      simp only [h2]
      obtain ⟨s', hs'⟩ := ih (fun l' h' => hl l' (by simp [h'])) (buffer ++ (line ++ [0x0A])) (readLine sched
        (line ++ 0x0A :: (unlines rest ++ 0x2F :: 0x2F :: 0x0A :: more))).2.2
      have hlen : buffer.length + (line ++ [0x0A]).length = (buffer ++ (line ++ [0x0A])).length := by simp
      rw [hlen, hs']
      exact ⟨s', by simp [unlines]⟩

theorem newLoop_lines (lines : List Bytes) (hl : ∀ line ∈ lines, LineOK line) (more : Bytes) :
    ∀ (buffer : Bytes) (sched : List Nat),
      ∃ s', newLoop buffer buffer.length sched (unlines lines ++ 0x2F :: 0x2F :: 0x0A :: more)
        = .ok (buffer ++ (unlines lines ++ [0x2F, 0x2F, 0x0A]))
            (buffer ++ unlines lines).length none more s' := by
  induction lines with
  | nil =>
    intro buffer sched
    obtain ⟨h1, h2⟩ := Uniprobe.readLine_line sched [0x2F, 0x2F] more (by decide) (by decide)
    simp only [unlines, List.flatMap_nil, List.nil_append, List.append_nil]
    have e : (0x2F : UInt8) :: 0x2F :: 0x0A :: more = [0x2F, 0x2F] ++ 0x0A :: more := rfl
    rw [e, newLoop]
    split
    · rename_i h; rw [h1] at h; cases h
    · rename_i l h
      rw [h1] at h
      cases h
      have hne : ([0x2F, 0x2F] ++ [0x0A] : Bytes) ≠ [] := by simp
      simp only [hne, dite_false]
      rw [tailStartsSlashes_append buffer _ hne (by decide)]
      have hp : (t 0x2F 0x2F).isPrefixOf ([0x2F, 0x2F] ++ [0x0A]) = true := by decide
      simp only [hp, h2]
      exact ⟨(readLine sched ([0x2F, 0x2F] ++ 0x0A :: more)).2.2, by simp⟩
  | cons line rest ih =>
    intro buffer sched
    obtain ⟨k1, k2, k3⟩ := hl line (by simp)
    have e : unlines (line :: rest) ++ 0x2F :: 0x2F :: 0x0A :: more =
        line ++ 0x0A :: (unlines rest ++ 0x2F :: 0x2F :: 0x0A :: more) := by simp [unlines]
    obtain ⟨h1, h2⟩ := Uniprobe.readLine_line sched line (unlines rest ++ 0x2F :: 0x2F :: 0x0A :: more) k1 k2
    rw [e, newLoop]
    split
    · rename_i h; rw [h1] at h; cases h
    · rename_i l h
      rw [h1] at h
      cases h
      have hne : line ++ [0x0A] ≠ [] := by simp
      have hv : validUtf8 (line ++ [0x0A]) = true := by rw [validUtf8_append _ _ k2]; decide
      simp only [hne, dite_false]
      rw [tailStartsSlashes_append buffer _ hne hv, not_slashes line k3]
      simp only [h2]
      obtain ⟨s', hs'⟩ := ih (fun l' h' => hl l' (by simp [h'])) (buffer ++ (line ++ [0x0A])) (readLine sched
        (line ++ 0x0A :: (unlines rest ++ 0x2F :: 0x2F :: 0x0A :: more))).2.2
      have hlen : buffer.length + (line ++ [0x0A]).length = (buffer ++ (line ++ [0x0A])).length := by simp
      rw [hlen, hs']
      exact ⟨s', by simp [unlines]⟩

theorem next_eval (s : State) (herr : s.error = none) (e0 : Bool)
    (hts : tailStartsSlashes s.buffer s.last = some e0) (b : Bytes) (l : Nat) (d : Bytes) (sc : List Nat)
    (hfill : (if e0 = true then Fill.ok s.buffer s.last none s.data s.sched
      else nextLoop s.buffer s.last s.sched s.data) = .ok b l none d sc)
    (hne : b.isEmpty = false) (rest : Bytes) (rec : TRecord α A.K)
    (hparse : parseRecord A conv zero b = .ok rest rec) :
    next A conv zero s = (.record rec, { buffer := [], last := 0, error := none, data := d, sched := sc }) := by
  unfold next
  simp only [herr, hts, hfill, hne, Bool.false_eq_true, if_false, hparse]

/-- nothing buffered, the records `rs` still in the stream -/
def S0 (rs : List (List Item)) (s : State) : Prop :=
  s.buffer = [] ∧ s.last = 0 ∧ s.error = none ∧ s.data = render A rs

/-- the record `r` buffered by `Reader::new` (with `last` at its `//` line), `rs` in the stream -/
def S1 (r : List Item) (rs : List (List Item)) (s : State) : Prop :=
  s.buffer = render1 A r ∧ s.last = (unlines (recLines A r)).length ∧ s.error = none ∧ s.data = render A rs

theorem render_cons (r : List Item) (rs : List (List Item)) :
    render A (r :: rs) = unlines (recLines A r) ++ 0x2F :: 0x2F :: 0x0A :: render A rs := by
  simp [render, render1_lines]

theorem render1_nonempty (r : List Item) : (render1 A r).isEmpty = false := by
  simp [render1]

theorem next_S0 (hA : A.LettersOK) (hB : Uniprobe.LettersNotBlank A) (r : List Item)
    (rs : List (List Item)) (hr : ∀ it ∈ r, WFItem A conv it) (s : State) (hs : S0 A (r :: rs) s) :
    (next A conv zero s).1 = .record (expect A conv zero r) ∧ S0 A rs (next A conv zero s).2 := by
  obtain ⟨h1, h2, h3, h4⟩ := hs
  obtain ⟨s', hloop⟩ := nextLoop_lines (recLines A r) (recLines_ok A conv hA hB r hr) (render A rs) [] s.sched
  simp only [List.nil_append, List.length_nil] at hloop
  rw [← render_cons, ← render1_lines] at hloop
  have hts : tailStartsSlashes s.buffer s.last = some false := by rw [h1, h2]; rfl
  have hfill : (if false = true then Fill.ok s.buffer s.last none s.data s.sched
      else nextLoop s.buffer s.last s.sched s.data) = .ok (render1 A r) (render1 A r).length none (render A rs) s' := by
    simp only [Bool.false_eq_true, if_false, h1, h2, h4]
    exact hloop
  rw [next_eval A conv zero s h3 false hts _ _ _ _ hfill (render1_nonempty A r) []
    (expect A conv zero r) (parseRecord_render A conv zero hA hB r hr)]
  exact ⟨rfl, rfl, rfl, rfl, rfl⟩

theorem next_S1 (hA : A.LettersOK) (hB : Uniprobe.LettersNotBlank A) (r : List Item)
    (rs : List (List Item)) (hr : ∀ it ∈ r, WFItem A conv it) (s : State) (hs : S1 A r rs s) :
    (next A conv zero s).1 = .record (expect A conv zero r) ∧ S0 A rs (next A conv zero s).2 := by
  obtain ⟨h1, h2, h3, h4⟩ := hs
  have hts : tailStartsSlashes s.buffer s.last = some true := by
    rw [h1, h2, render1_lines]
    unfold tailStartsSlashes
    rw [if_neg (by simp)]
    simp only [List.drop_left]
    rfl
  have hfill : (if true = true then Fill.ok s.buffer s.last none s.data s.sched
      else nextLoop s.buffer s.last s.sched s.data) = .ok (render1 A r) s.last none (render A rs) s.sched := by
    simp only [if_true, h1, h4]
  rw [next_eval A conv zero s h3 true hts _ _ _ _ hfill (render1_nonempty A r) []
    (expect A conv zero r) (parseRecord_render A conv zero hA hB r hr)]
  exact ⟨rfl, rfl, rfl, rfl, rfl⟩

theorem next_S0_nil (s : State) (hs : S0 A [] s) : (next A conv zero s).1 = .done := by
  obtain ⟨h1, h2, h3, h4⟩ := hs
  obtain ⟨r1, r2⟩ := Uniprobe.readLine_nil s.sched
  have hloop : nextLoop [] 0 s.sched [] = .ok [] 0 none [] (readLine s.sched []).2.2 := by
    rw [nextLoop]
    split
    · rename_i h; rw [r1] at h; cases h
    · rename_i l h
      rw [r1] at h
      cases h
      simp only [dite_true, r2]
  unfold next
  have hts : tailStartsSlashes ([] : Bytes) 0 = some false := rfl
  simp only [h3, h1, h2, hts, Bool.false_eq_true, if_false, h4, render, List.flatMap_nil, hloop,
    List.isEmpty_nil, if_true]

theorem outcomes_S0 (hA : A.LettersOK) (hB : Uniprobe.LettersNotBlank A) (rs : List (List Item))
    (hwf : ∀ r ∈ rs, ∀ it ∈ r, WFItem A conv it) :
    ∀ s : State, S0 A rs s →
      outcomes (next A conv zero) (rs.length + 1) s
        = rs.map (fun r => Outcome.record (expect A conv zero r)) ++ [Outcome.done] := by
  induction rs with
  | nil =>
    intro s hs
    simp only [List.length_nil, outcomes, List.map_nil, List.nil_append]
    rw [next_S0_nil A conv zero s hs]
  | cons r rs ih =>
    intro s hs
    obtain ⟨h1, h2⟩ := next_S0 A conv zero hA hB r rs (hwf r (by simp)) s hs
    simp only [List.length_cons, outcomes, List.map_cons, List.cons_append]
    rw [h1]
    congr 1
    exact ih (fun r' h' => hwf r' (by simp [h'])) _ h2

/-- what `Reader::new` returns on a rendered file -/
theorem new_render (hA : A.LettersOK) (hB : Uniprobe.LettersNotBlank A) (sched : List Nat)
    (rs : List (List Item)) (hwf : ∀ r ∈ rs, ∀ it ∈ r, WFItem A conv it) :
    ∃ s, new sched (render A rs) = .ok s ∧
      (rs = [] → S0 A [] s) ∧ (∀ r rs', rs = r :: rs' → S1 A r rs' s) := by
  cases rs with
  | nil =>
    obtain ⟨r1, r2⟩ := Uniprobe.readLine_nil sched
    have hloop : newLoop [] 0 sched [] = .ok [] 0 none [] (readLine sched []).2.2 := by
      rw [newLoop]
      split
      · rename_i h; rw [r1] at h; cases h
      · rename_i l h
        rw [r1] at h
        cases h
        simp only [dite_true, r2]
    refine ⟨State.mk [] 0 none [] (readLine sched []).2.2, ?_,
      fun _ => ⟨rfl, rfl, rfl, rfl⟩, fun r rs' h => by cases h⟩
    unfold new
    simp only [render, List.flatMap_nil, hloop]
    rfl
  | cons r rs' =>
    obtain ⟨s', hloop⟩ := newLoop_lines (recLines A r) (recLines_ok A conv hA hB r (hwf r (by simp)))
      (render A rs') [] sched
    simp only [List.nil_append, List.length_nil] at hloop
    rw [← render_cons, ← render1_lines] at hloop
    -- the record does not start with `VV`
    have hvv : (t 0x56 0x56).isPrefixOf (render1 A r) = false := by
      cases r with
      | nil => rfl
      | cons it rest =>
        obtain ⟨b, y, e, _, hb, _⟩ := renderItem_head A it (rest.flatMap (renderItem A) ++ [0x2F, 0x2F, 0x0A])
        have : render1 A (it :: rest) = b :: y := by
          rw [← e]; simp [render1]
        rw [this]
        have hbeq : ((0x56 : UInt8) == b) = false := by
          simp only [beq_eq_false_iff_ne, ne_eq]; exact fun e' => hb e'.symm
        simp [t, List.isPrefixOf, hbeq]
    refine ⟨State.mk (render1 A r) (unlines (recLines A r)).length none (render A rs') s', ?_,
      (fun h => by cases h), ?_⟩
    · unfold new
      simp only [hloop, hvv, Bool.false_eq_true, if_false]
    · intro r2 rs2 h
      cases h
      exact ⟨rfl, rfl, rfl, rfl⟩

/-- **TRANSFAC round trip**: reading a rendered file of well-formed records returns exactly those
    records, in order, then end of input, for every number of records and every chunk schedule -/
theorem roundTrip (hA : A.LettersOK) (hB : Uniprobe.LettersNotBlank A) (sched : List Nat)
    (rs : List (List Item)) (hwf : ∀ r ∈ rs, ∀ it ∈ r, WFItem A conv it) :
    ∃ s0, new sched (render A rs) = .ok s0 ∧
      outcomes (next A conv zero) (rs.length + 1) s0
        = rs.map (fun r => Outcome.record (expect A conv zero r)) ++ [Outcome.done] := by
  obtain ⟨s0, hnew, hst0, hst1⟩ := new_render A conv hA hB sched rs hwf
  refine ⟨s0, hnew, ?_⟩
  cases rs with
  | nil => exact outcomes_S0 A conv zero hA hB [] hwf s0 (hst0 rfl)
  | cons r rs' =>
    obtain ⟨h1, h2⟩ := next_S1 A conv zero hA hB r rs' (hwf r (by simp)) s0 (hst1 r rs' rfl)
    simp only [List.length_cons, outcomes, List.map_cons, List.cons_append]
    rw [h1]
    congr 1
    exact outcomes_S0 A conv zero hA hB rs' (fun r' h' => hwf r' (by simp [h'])) _ h2

end Transfac






end LMV
