/-
  LMV.Lemmas.UniprobeRT — round trip of the UniPROBE format.  Core Lean only.
-/
import LMV.Lemmas.Uniprobe
import LMV.Lemmas.Jaspar16RT
import LMV.Lemmas.BuildSpec

namespace LMV
namespace Uniprobe

open Io Nom

variable {α : Type}

/-! ### float lexemes -/

theorem mem_takeWhile {p : UInt8 → Bool} {l : Bytes} {x : UInt8} (h : x ∈ l.takeWhile p) : p x = true := by
  induction l with
  | nil => simp at h
  | cons b bs ih =>
    simp only [List.takeWhile_cons] at h
    split at h
    · rename_i hb
      simp only [List.mem_cons] at h
      rcases h with h | h
      · rw [h]; exact hb
      · exact ih h
    · simp at h

theorem isDigit_facts {b : UInt8} (h : isDigit b = true) :
    b ≠ 0x2B ∧ b ≠ 0x2D ∧ b ≠ 0x2E ∧ b ≠ 0x65 ∧ b ≠ 0x45 := by
  simp only [isDigit, Bool.and_eq_true, decide_eq_true_eq, UInt8.le_iff_toNat_le] at h
  refine ⟨?_, ?_, ?_, ?_, ?_⟩ <;> intro e <;> rw [e] at h <;> simp at h

/-- the bytes that may follow a lexeme in a rendered file: tab, line feed (and blank for TRANSFAC) -/
def Stop (t : UInt8) : Prop := t = 0x09 ∨ t = 0x0A ∨ t = 0x20

theorem stop_facts {t : UInt8} (h : Stop t) :
    isDigit t = false ∧ t ≠ 0x2E ∧ t ≠ 0x65 ∧ t ≠ 0x45 := by
  rcases h with h | h | h <;> subst h <;> decide

/-- **a plain decimal lexeme is recognised exactly**, whatever follows the stop byte -/
theorem recognizeFloat_lex (lex : Bytes) (h : wfLex lex = true) (t : UInt8) (ht : Stop t) (rest : Bytes) :
    recognizeFloat (lex ++ t :: rest) = .ok (t :: rest) lex := by
  obtain ⟨t1, t2, t3, t4⟩ := stop_facts ht
  unfold wfLex at h
  simp only [Bool.and_eq_true, Bool.not_eq_true', List.isEmpty_eq_false_iff] at h
  obtain ⟨hip, hrest⟩ := h
  -- the lexeme starts with a digit
  obtain ⟨b, tl, hlex, hb⟩ : ∃ b tl, lex = b :: tl ∧ isDigit b = true := by
    cases lex with
    | nil => simp at hip
    | cons b tl =>
      refine ⟨b, tl, rfl, ?_⟩
      cases hb : isDigit b with
      | true => rfl
      | false => simp [List.takeWhile, hb] at hip
  obtain ⟨f1, f2, f3, f4, f5⟩ := isDigit_facts hb
  have hsplit : lex = lex.takeWhile isDigit ++ lex.dropWhile isDigit := (List.takeWhile_append_dropWhile).symm
  -- the end of the mantissa
  have hmant : mantissaEnd (lex ++ t :: rest) = some (t :: rest) := by
    have hstart : lex ++ t :: rest = b :: (tl ++ t :: rest) := by rw [hlex]; rfl
    unfold mantissaEnd
    rw [hstart]
    simp only [hb, if_true]
    rw [← hstart]
    -- digits of the integer part
    have hdw : ∀ R : Bytes, StartsNot isDigit (R ++ t :: rest) →
        (lex.takeWhile isDigit ++ (R ++ t :: rest)).dropWhile isDigit = R ++ t :: rest := by
      intro R hR
      exact (takeWhile_append_stop isDigit _ _ (fun x hx => mem_takeWhile hx) hR).2
    cases hR : lex.dropWhile isDigit with
    | nil =>
      rw [hR] at hsplit
      have e : lex ++ t :: rest = lex.takeWhile isDigit ++ ([] ++ t :: rest) := by
        conv => lhs; rw [hsplit]
        simp
      rw [e, hdw [] (by simpa [StartsNot] using t1)]
      simp only [List.nil_append]
      split
      · rename_i r2 heq
        simp only [List.cons.injEq] at heq
        exact absurd heq.1 t2
      · rfl
    | cons c fp =>
      rw [hR] at hrest hsplit
      split at hrest
      · cases ‹_ = []›
      · rename_i fp' heq
        simp only [List.cons.injEq] at heq
        obtain ⟨hc, hfp⟩ := heq
        subst hc; subst hfp
        have e : lex ++ t :: rest = lex.takeWhile isDigit ++ ((0x2E :: fp) ++ t :: rest) := by
          conv => lhs; rw [hsplit]
          simp
        rw [e, hdw (0x2E :: fp) (by simp only [List.cons_append, StartsNot]; decide)]
        simp only [List.cons_append]
        have := (takeWhile_append_stop isDigit fp (t :: rest)
          (fun x hx => by simpa using List.all_eq_true.mp hrest x hx) (by simpa [StartsNot] using t1)).2
        rw [this]
      · cases hrest
  have hopt : optSign (lex ++ t :: rest) = lex ++ t :: rest := by
    rw [hlex]
    simp only [List.cons_append, optSign]
    rw [if_neg]
    simp only [Bool.or_eq_true, decide_eq_true_eq, not_or]
    exact ⟨f1, f2⟩
  have hexp : exponentEnd (t :: rest) = .ok (t :: rest) () := by
    unfold exponentEnd
    simp only
    rw [if_neg]
    simp only [Bool.or_eq_true, decide_eq_true_eq, not_or]
    exact ⟨t3, t4⟩
  unfold recognizeFloat floatEnd
  rw [hopt, hmant]
  simp only [hexp]
  simp

theorem float_lex (conv : Bytes → Option α) (lex : Bytes) (h : wfLex lex = true) (v : α)
    (hv : conv lex = some v) (t : UInt8) (ht : Stop t) (rest : Bytes) :
    float conv (lex ++ t :: rest) = .ok (t :: rest) v := by
  simp [float, mapRes, recognizeFloat_lex lex h t ht rest, hv]

/-! ### a matrix line -/

/-- the values of a list of lexemes -/
def values (conv : Bytes → Option α) (zero : α) (lexs : List Bytes) : List α :=
  lexs.map fun l => (conv l).getD zero

/-- tab-separated lexemes -/
def tabbed (lexs : List Bytes) : Bytes := lexs.flatMap fun lex => 0x09 :: lex

theorem tabElem (conv : Bytes → Option α) (zero : α) (lex : Bytes) (h : wfLex lex = true)
    (hv : (conv lex).isSome = true) (t : UInt8) (ht : Stop t) (rest : Bytes) :
    preceded (char 0x09) (float conv) (0x09 :: (lex ++ t :: rest)) = .ok (t :: rest) ((conv lex).getD zero) := by
  obtain ⟨v, hv'⟩ := Option.isSome_iff_exists.mp hv
  apply preceded_eval (a := (0x09 : UInt8)) (r1 := lex ++ t :: rest) (by simp [char])
  rw [hv']
  exact float_lex conv lex h v hv' t ht rest

theorem manyLoop_tabbed (conv : Bytes → Option α) (zero : α) (lexs : List Bytes)
    (h : ∀ lex ∈ lexs, wfLex lex = true ∧ (conv lex).isSome = true) (rest : Bytes) :
    ∀ acc, manyLoop (preceded (char 0x09) (float conv)) (tabbed lexs ++ 0x0A :: rest) acc
      = .ok (0x0A :: rest) (acc.reverse ++ values conv zero lexs) := by
  induction lexs with
  | nil =>
    intro acc
    rw [manyLoop]
    simp [tabbed, values, preceded, pmap, pair, char, PRes.map]
  | cons lex ls ih =>
    intro acc
    obtain ⟨h1, h2⟩ := h lex (by simp)
    -- what follows the lexeme: a tab (more lexemes) or the line feed
    have hnext : ∃ t y, Stop t ∧ tabbed ls ++ 0x0A :: rest = t :: y := by
      cases ls with
      | nil => exact ⟨0x0A, rest, Or.inr (Or.inl rfl), by simp [tabbed]⟩
      | cons l2 ls' => exact ⟨0x09, l2 ++ (tabbed ls' ++ 0x0A :: rest), Or.inl rfl, by simp [tabbed]⟩
    obtain ⟨t, y, ht, hy⟩ := hnext
    have e : tabbed (lex :: ls) ++ 0x0A :: rest = 0x09 :: (lex ++ t :: y) := by
      rw [← hy]; simp [tabbed]
    rw [e, manyLoop, tabElem conv zero lex h1 h2 t ht y]
    simp only
    rw [if_pos (by simp; omega), ← hy, ih (fun l hl => h l (by simp [hl])) _]
    simp [values]

theorem frequencies_render (conv : Bytes → Option α) (zero : α) (lexs : List Bytes) (hne : lexs ≠ [])
    (h : ∀ lex ∈ lexs, wfLex lex = true ∧ (conv lex).isSome = true) (rest : Bytes) :
    frequencies conv (tabbed lexs ++ 0x0A :: rest) = .ok (0x0A :: rest) (values conv zero lexs) := by
  cases lexs with
  | nil => exact absurd rfl hne
  | cons lex ls =>
    obtain ⟨h1, h2⟩ := h lex (by simp)
    have hnext : ∃ t y, Stop t ∧ tabbed ls ++ 0x0A :: rest = t :: y := by
      cases ls with
      | nil => exact ⟨0x0A, rest, Or.inr (Or.inl rfl), by simp [tabbed]⟩
      | cons l2 ls' => exact ⟨0x09, l2 ++ (tabbed ls' ++ 0x0A :: rest), Or.inl rfl, by simp [tabbed]⟩
    obtain ⟨t, y, ht, hy⟩ := hnext
    have e : tabbed (lex :: ls) ++ 0x0A :: rest = 0x09 :: (lex ++ t :: y) := by
      rw [← hy]; simp [tabbed]
    unfold frequencies many1
    rw [e, tabElem conv zero lex h1 h2 t ht y]
    simp only
    rw [← hy, manyLoop_tabbed conv zero ls (fun l hl => h l (by simp [hl])) rest]
    simp [values]

/-- a rendered matrix line is read back exactly -/
theorem matrixColumn_render {A : Alphabet} (hA : A.LettersOK) (conv : Bytes → Option α) (zero : α)
    (c : Nat × List Bytes) (hc : c.1 < A.K) (hne : c.2 ≠ [])
    (h : ∀ lex ∈ c.2, wfLex lex = true ∧ (conv lex).isSome = true) (rest : Bytes) :
    matrixColumn A conv (renderCol A c ++ rest) = .ok rest (c.1, values conv zero c.2) := by
  have e : renderCol A c ++ rest = A.letters.getD c.1 0 :: 0x3A :: (tabbed c.2 ++ 0x0A :: rest) := by
    simp [renderCol, tabbed]
  rw [e]
  unfold matrixColumn
  exact terminated_eval (b := [0x0A])
    (pair_eval (Jaspar16.symbol_letter hA c.1 hc _)
      (preceded_eval (a := (0x3A : UInt8)) (by simp [char]) (frequencies_render conv zero c.2 hne h rest)))
    (by simp [lineEnding])

/-! ### the reader on a rendered file -/

/-- the letters of the alphabet are not blanks (a fact of the regenerated tables) -/
def LettersNotBlank (A : Alphabet) : Prop := ∀ a, a < A.K → isWs1 (A.letters.getD a 0) = false

instance (A : Alphabet) : Decidable (LettersNotBlank A) := by unfold LettersNotBlank; infer_instance

theorem dna_lettersNotBlank : LettersNotBlank dna := by decide
theorem protein_lettersNotBlank : LettersNotBlank protein := by decide

theorem trimStart_ascii (b : UInt8) (tl : Bytes) (h1 : b < 0x80) (h2 : isWs1 b = false) :
    trimStart (b :: tl) = b :: tl := by
  have hn : b.toNat < 128 := by simpa [UInt8.lt_iff_toNat_lt] using h1
  have e1 : ¬ b = 0xC2 := by intro e; rw [e] at hn; simp at hn
  have e2 : ¬ b = 0xE1 := by intro e; rw [e] at hn; simp at hn
  have e3 : ¬ b = 0xE2 := by intro e; rw [e] at hn; simp at hn
  have e4 : ¬ b = 0xE3 := by intro e; rw [e] at hn; simp at hn
  conv => lhs; unfold trimStart
  simp [h2, e1, e2, e3, e4]

theorem not_blank_ascii (b : UInt8) (tl : Bytes) (h1 : b < 0x80) (h2 : isWs1 b = false) :
    isBlank (b :: tl) = false := by
  simp [isBlank, trimStart_ascii b tl h1 h2]

theorem readLine_nil (sched : List Nat) : (readLine sched []).1 = some [] ∧ (readLine sched []).2.1 = [] := by
  obtain ⟨h1, h2⟩ := readLine_eq sched []
  rw [h1, h2]
  simp [through, after, validUtf8]

theorem readLine_line (sched : List Nat) (line more : Bytes) (hnl : (0x0A : UInt8) ∉ line)
    (hv : validUtf8 line = true) :
    (readLine sched (line ++ 0x0A :: more)).1 = some (line ++ [0x0A]) ∧
    (readLine sched (line ++ 0x0A :: more)).2.1 = more := by
  obtain ⟨h1, h2⟩ := readLine_eq sched (line ++ 0x0A :: more)
  have ht : through 10 (line ++ 0x0A :: more) = line ++ [0x0A] := by
    rw [through_append, if_neg hnl]; simp [through]
  have ha : after 10 (line ++ 0x0A :: more) = more := by
    rw [after_append, if_neg hnl]; simp [after]
  rw [h1, h2, ht, ha, validUtf8_append _ _ hv]
  simp [validUtf8_cons, validUtf8]

theorem advance_nil (sched : List Nat) : ∃ s, advance [] sched [] = .eof [] [] s := by
  obtain ⟨h1, h2⟩ := readLine_nil sched
  rw [advance]
  split
  · rename_i h; rw [h1] at h; cases h
  · rename_i l h
    rw [h1] at h
    cases h
    simp only [dite_true, h2]
    exact ⟨_, rfl⟩

/-- a non-blank line is found -/
theorem advance_line (sched : List Nat) (line more : Bytes) (hnl : (0x0A : UInt8) ∉ line)
    (hv : validUtf8 line = true) (hnb : isBlank (line ++ [0x0A]) = false) :
    ∃ s, advance [] sched (line ++ 0x0A :: more) = .found (line ++ [0x0A]) more s := by
  obtain ⟨h1, h2⟩ := readLine_line sched line more hnl hv
  rw [advance]
  split
  · rename_i h; rw [h1] at h; cases h
  · rename_i l h
    rw [h1] at h
    cases h
    have hne : line ++ [0x0A] ≠ [] := by simp
    simp only [hne, dite_false, List.nil_append, hnb, Bool.not_false, if_true, h2]
    exact ⟨_, rfl⟩

/-- an empty line is skipped -/
theorem advance_blank (sched : List Nat) (more : Bytes) :
    ∃ s, advance [] sched (0x0A :: more) = advance [] s more := by
  obtain ⟨h1, h2⟩ := readLine_line sched [] more (by simp) rfl
  simp only [List.nil_append] at h1 h2
  rw [advance]
  split
  · rename_i h; rw [h1] at h; cases h
  · rename_i l h
    rw [h1] at h
    cases h
    have hb : isBlank [0x0A] = true := by decide
    simp only [List.cons_ne_nil, dite_false, List.nil_append, hb, Bool.not_true, Bool.false_eq_true,
      if_false, h2]
    exact ⟨_, rfl⟩

variable (A : Alphabet) (conv : Bytes → Option α) (zero : α)

/-- what is pending once the matrix lines of a motif have been read, the motifs `rs` following -/
def tailBuf : List Src → Bytes
  | [] => []
  | r :: _ => r.id ++ [0x0A]

def tailLine : List Src → Bool
  | [] => false
  | _ :: _ => true

/-- what the stream holds once the id line of the first of the motifs `rs` has been read -/
def tailData : List Src → Bytes
  | [] => []
  | r :: rs => r.cols.flatMap (renderCol A) ++ 0x0A :: render A rs

theorem render_cons (r : Src) (rs : List Src) :
    render A (r :: rs) = r.id ++ 0x0A :: tailData A (r :: rs) := by
  simp [render, render1, tailData]

theorem wfLex_bytes (lex : Bytes) (h : wfLex lex = true) : ∀ b ∈ lex, isDigit b = true ∨ b = 0x2E := by
  unfold wfLex at h
  simp only [Bool.and_eq_true] at h
  obtain ⟨_, hrest⟩ := h
  intro b hb
  rw [← List.takeWhile_append_dropWhile (p := isDigit) (l := lex)] at hb
  rcases List.mem_append.mp hb with hb | hb
  · exact Or.inl (mem_takeWhile hb)
  · cases hR : lex.dropWhile isDigit with
    | nil => rw [hR] at hb; simp at hb
    | cons c fp =>
      rw [hR] at hb hrest
      split at hrest
      · cases ‹_ = []›
      · rename_i fp' heq
        simp only [List.cons.injEq] at heq
        obtain ⟨hc, hfp⟩ := heq
        subst hc; subst hfp
        simp only [List.mem_cons] at hb
        rcases hb with hb | hb
        · exact Or.inr hb
        · exact Or.inl (by simpa using List.all_eq_true.mp hrest b hb)
      · cases hrest

theorem tabbed_bytes (lexs : List Bytes) (h : ∀ lex ∈ lexs, wfLex lex = true) :
    ∀ b ∈ tabbed lexs, b ≠ 0x0A ∧ b < 0x80 := by
  intro b hb
  simp only [tabbed, List.mem_flatMap, List.mem_cons] at hb
  obtain ⟨lex, hl, hb⟩ := hb
  rcases hb with hb | hb
  · rw [hb]; decide
  · rcases wfLex_bytes lex (h lex hl) b hb with hd | hd
    · have := Jaspar.isDigit_props hd
      refine ⟨?_, this.2⟩
      intro e; rw [e] at hd; revert hd; decide
    · rw [hd]; decide

theorem renderCol_line {A : Alphabet} (hA : A.LettersOK) (hB : LettersNotBlank A)
    (c : Nat × List Bytes) (hc : c.1 < A.K)
    (h : ∀ lex ∈ c.2, wfLex lex = true) :
    ∃ line, renderCol A c = line ++ [0x0A] ∧ (0x0A : UInt8) ∉ line ∧ validUtf8 line = true ∧
      isBlank (line ++ [0x0A]) = false := by
  have hl := (hA.1 c.1 hc).1
  have hb := hB c.1 hc
  refine ⟨A.letters.getD c.1 0 :: 0x3A :: tabbed c.2, by simp [renderCol, tabbed], ?_, ?_, ?_⟩
  · intro hm
    simp only [List.mem_cons] at hm
    rcases hm with hm | hm | hm
    · rw [← hm] at hb; revert hb; decide
    · cases hm
    · exact (tabbed_bytes c.2 h _ hm).1 rfl
  · apply validUtf8_ascii
    intro b hm
    simp only [List.mem_cons] at hm
    rcases hm with hm | hm | hm
    · rw [hm]; exact hl
    · rw [hm]; decide
    · exact (tabbed_bytes c.2 h _ hm).2
  · exact not_blank_ascii _ _ hl hb

/-- the id line of a well-formed motif: not blank, one line, valid; `id` reads it back; it is not
    a matrix line -/
theorem idLine_facts {A : Alphabet} (id : Bytes) (h : WFId id) :
    (0x0A : UInt8) ∉ id ∧ validUtf8 id = true ∧ isBlank (id ++ [0x0A]) = false ∧
    idLine (id ++ [0x0A]) = .ok [] id ∧ matrixColumn A conv (id ++ [0x0A]) = .err := by
  obtain ⟨hhead, htrim, hnl, hv, hsec⟩ := h
  cases id with
  | nil => exact absurd hhead (by simp)
  | cons b tl =>
    simp only at hhead
    refine ⟨fun hm => (hnl _ hm).1 rfl, hv, not_blank_ascii _ _ hhead.1 hhead.2, ?_, ?_⟩
    · -- `not_line_ending` stops at the line feed
      have hp : ∀ x ∈ b :: tl, (fun (c : UInt8) => !(c = 0x0D || c = 0x0A)) x = true := by
        intro x hx
        have := hnl x hx
        simp [this.1, this.2]
      obtain ⟨t1, t2⟩ := takeWhile_append_stop (fun (c : UInt8) => !(c = 0x0D || c = 0x0A)) (b :: tl) [0x0A] hp
        (by simp [StartsNot])
      have hnle : notLineEnding ((b :: tl) ++ [0x0A]) = .ok [0x0A] (b :: tl) := by
        simp only [notLineEnding, t1, t2]
        rfl
      unfold idLine
      rw [pmap_eval (terminated_eval (b := [0x0A]) (r2 := []) hnle (by simp [lineEnding])), htrim]
    · -- the second byte is not `:`
      have hc : charLen b = 1 := by simp [charLen, hhead.1]
      have hcolon : char 0x3A (tl ++ [0x0A]) = .err := by
        cases tl with
        | nil => simp [char]
        | cons c tl' =>
          have : c ≠ 0x3A := by simpa using hsec
          simp [char, this]
      have hsym : symbol A (b :: (tl ++ [0x0A])) = .err ∨ ∃ a, symbol A (b :: (tl ++ [0x0A])) = .ok (tl ++ [0x0A]) a := by
        simp only [symbol, mapRes, anychar, hc, Nat.sub_self, List.take_zero, List.drop_zero,
          hhead.1, if_true]
        cases A.fromAscii b with
        | none => exact Or.inl rfl
        | some a => exact Or.inr ⟨a, rfl⟩
      unfold matrixColumn terminated separatedPair preceded
      rw [List.cons_append]
      rcases hsym with hs | ⟨a, hs⟩
      · simp [pmap, pair, hs, PRes.map]
      · simp [pmap, pair, hs, hcolon, PRes.map]

variable (freqOk : Mat α A.K → Bool)

/-- the parsed form of the symbol lines of a motif -/
def parsedCols (cols : List (Nat × List Bytes)) : List (Nat × List α) :=
  cols.map fun c => (c.1, values conv zero c.2)

/-- well-formedness of the symbol lines, as `columnsLoop` needs it -/
def ColsOK (cols : List (Nat × List Bytes)) : Prop :=
  ∀ c ∈ cols, c.1 < A.K ∧ c.2 ≠ [] ∧ ∀ lex ∈ c.2, wfLex lex = true ∧ (conv lex).isSome = true

theorem columnsLoop_render (hA : A.LettersOK) (hB : LettersNotBlank A) (rs : List Src)
    (hrs : ∀ r ∈ rs, WFId r.id) (cols : List (Nat × List Bytes)) (hcols : ColsOK A conv cols) :
    ∀ (sched : List Nat) (acc : List (Nat × List α)),
      ∃ s', columnsLoop A conv acc sched (cols.flatMap (renderCol A) ++ 0x0A :: render A rs)
        = .stop (acc ++ parsedCols conv zero cols) (tailBuf rs) (tailLine rs) (tailData A rs) s' := by
  induction cols with
  | nil =>
    intro sched acc
    simp only [List.flatMap_nil, List.nil_append, parsedCols, List.map_nil, List.append_nil]
    obtain ⟨s1, h1⟩ := advance_blank sched (render A rs)
    cases rs with
    | nil =>
      obtain ⟨s2, h2⟩ := advance_nil s1
      have hadv : advance [] sched (0x0A :: render A []) = .eof [] [] s2 := by
        rw [h1]; exact h2
      rw [columnsLoop]
      split
      · rename_i heq; rw [hadv] at heq; cases heq
      · rename_i heq; rw [hadv] at heq; cases heq; exact ⟨_, rfl⟩
      · rename_i heq; rw [hadv] at heq; cases heq
    | cons r rs' =>
      obtain ⟨f1, f2, f3, _, f5⟩ := idLine_facts (A := A) conv r.id (hrs r (by simp))
      have hr : render A (r :: rs') = r.id ++ 0x0A :: tailData A (r :: rs') := render_cons A r rs'
      obtain ⟨s2, h2⟩ := advance_line s1 r.id (tailData A (r :: rs')) f1 f2 f3
      have hadv : advance [] sched (0x0A :: render A (r :: rs')) =
          .found (r.id ++ [0x0A]) (tailData A (r :: rs')) s2 := by
        rw [h1, hr]; exact h2
      rw [columnsLoop]
      split
      · rename_i heq; rw [hadv] at heq; cases heq
      · rename_i heq; rw [hadv] at heq; cases heq
      · rename_i heq
        rw [hadv] at heq
        cases heq
        rw [f5]
        exact ⟨_, rfl⟩
  | cons c cs ih =>
    intro sched acc
    obtain ⟨hc1, hc2, hc3⟩ := hcols c (by simp)
    obtain ⟨line, hl1, hl2, hl3, hl4⟩ := renderCol_line hA hB c hc1 (fun lex hl => (hc3 lex hl).1)
    have hdata : (c :: cs).flatMap (renderCol A) ++ 0x0A :: render A rs =
        line ++ 0x0A :: (cs.flatMap (renderCol A) ++ 0x0A :: render A rs) := by
      simp [hl1]
    obtain ⟨s2, h2⟩ := advance_line sched line (cs.flatMap (renderCol A) ++ 0x0A :: render A rs) hl2 hl3 hl4
    rw [hdata, columnsLoop]
    split
    · rename_i heq; rw [h2] at heq; cases heq
    · rename_i heq; rw [h2] at heq; cases heq
    · rename_i heq
      rw [h2] at heq
      cases heq
      have hm := matrixColumn_render hA conv zero c hc1 hc2 hc3 []
      rw [List.append_nil, hl1] at hm
      rw [hm]
      simp only
      obtain ⟨s3, h3⟩ := ih (fun c' h' => hcols c' (by simp [h'])) s2 (acc ++ [(c.1, values conv zero c.2)])
      rw [h3]
      exact ⟨s3, by simp [parsedCols]⟩

/-- `build_matrix` on the parsed symbol lines of a well-formed motif -/
theorem buildMatrix_render (r : Src) (h : WF A conv zero freqOk r) :
    buildMatrix A zero (parsedCols conv zero r.cols) = .ok (expectMatrix A conv zero r) := by
  letI : Inhabited α := ⟨zero⟩
  obtain ⟨_, hne, hK, hnd, hlen, _, _, _⟩ := h
  cases hcols : r.cols with
  | nil => exact absurd hcols hne
  | cons p rest =>
    rw [hcols] at hK hnd hlen
    simp only [List.headD_cons] at hlen
    unfold buildMatrix
    simp only [parsedCols, List.map_cons]
    have hmap : ((p :: rest).map fun c => (c.1, values conv zero c.2)).map (·.1) = (p :: rest).map (·.1) := by
      simp [List.map_map, Function.comp_def]
    obtain ⟨m', b1, b2, b3⟩ := buildSymLoop_specG ((p :: rest).map fun c => (c.1, values conv zero c.2))
      ((Mat.empty : Mat α A.K).resize (values conv zero p.2).length zero) []
      (by intro c hc; simp only [List.mem_map] at hc; obtain ⟨c', hc', e⟩ := hc; rw [← e]; exact hK c' hc')
      (fun _ _ => by simp) (by rw [hmap]; exact hnd)
      (by
        intro c hc
        simp only [List.mem_map] at hc
        obtain ⟨c', hc', e⟩ := hc
        rw [← e]
        simp [values, hlen c' hc'])
    simp only [List.map_cons] at b1
    rw [b1]
    congr 1
    apply Mat.ext
    · simp [expectMatrix, hcols, b2, values]
    · intro i j hi hj
      rw [b2] at hi
      simp only [Mat.rows_resize, values, List.length_map] at hi
      rw [b3 i j (by simpa [values] using hi)]
      simp only [expectMatrix, hcols, List.headD_cons, Mat.get_ofFn, hi, hj, and_self, if_true]
      rw [List.find?_map]
      cases hf : List.find? ((fun x => x.1 == j) ∘ fun c => (c.1, values conv zero c.2)) (p :: rest) with
      | some col =>
        have hf' : List.find? (fun x => x.1 == j) (p :: rest) = some col := by
          simpa [Function.comp_def] using hf
        have hmem : col ∈ p :: rest := List.mem_of_find?_eq_some hf'
        have hl := hlen col hmem
        have hd : (default : α) = zero := rfl
        have hi' : i < col.2.length := by omega
        simp only [hf', Option.map_some, values, hd, List.getD_eq_getElem?_getD, List.getElem?_map,
          List.getElem?_eq_getElem hi', Option.map_some, Option.getD_some]
      | none =>
        have hf' : List.find? (fun x => x.1 == j) (p :: rest) = none := by
          simpa [Function.comp_def] using hf
        have hd : (default : α) = zero := rfl
        simp only [hf', Option.map_none]
        simp [hi, hj, hd]

theorem next_found (s : State) (b d : Bytes) (sc : List Nat)
    (hp : (if s.line then Adv.found s.buffer s.data s.sched else advance s.buffer s.sched s.data)
      = .found b d sc)
    (id : Bytes) (hid : idLine b = .ok [] id) (cols : List (Nat × List α)) (b' : Bytes) (line' : Bool)
    (d' : Bytes) (sc' : List Nat) (hcl : columnsLoop A conv [] sc d = .stop cols b' line' d' sc')
    (m : Mat α A.K) (hm : buildMatrix A zero cols = .ok m) (hf : freqOk m = true) :
    next A conv zero freqOk s =
      (.record { id := id, matrix := m }, { buffer := b', line := line', data := d', sched := sc' }) := by
  unfold next
  simp only [hp, hid, hcl, hm, hf, if_true]

/-- the reader state in which the motifs `rs` are still to come (the id line of the first one
    pending in the buffer) -/
def St (rs : List Src) (s : State) : Prop :=
  s.buffer = tailBuf rs ∧ s.line = tailLine rs ∧ s.data = tailData A rs

theorem wf_colsOK (r : Src) (h : WF A conv zero freqOk r) : ColsOK A conv r.cols := by
  obtain ⟨_, hne, hK, _, hlen, hpos, hlex, _⟩ := h
  intro c hc
  refine ⟨hK c hc, ?_, hlex c hc⟩
  intro e
  have := hlen c hc
  rw [e, List.length_nil] at this
  omega

/-- one call of `next` on a pending motif -/
theorem next_St (hA : A.LettersOK) (hB : LettersNotBlank A) (r : Src) (rs : List Src)
    (hr : WF A conv zero freqOk r) (hrs : ∀ r' ∈ rs, WF A conv zero freqOk r') (s : State)
    (hs : St A (r :: rs) s ∨ (s.buffer = [] ∧ s.line = false ∧ s.data = render A (r :: rs))) :
    (next A conv zero freqOk s).1 = .record (expect A conv zero r) ∧
    St A rs (next A conv zero freqOk s).2 := by
  obtain ⟨f1, f2, f3, f4, _⟩ := idLine_facts (A := A) conv r.id hr.1
  -- the pending id line
  have hp : ∃ sc, (if s.line then Adv.found s.buffer s.data s.sched else advance s.buffer s.sched s.data)
      = .found (r.id ++ [0x0A]) (tailData A (r :: rs)) sc := by
    rcases hs with ⟨h1, h2, h3⟩ | ⟨h1, h2, h3⟩
    · exact ⟨s.sched, by simp [h2, tailLine, h1, tailBuf, h3]⟩
    · obtain ⟨s2, hadv⟩ := advance_line s.sched r.id (tailData A (r :: rs)) f1 f2 f3
      exact ⟨s2, by simp only [h2, Bool.false_eq_true, if_false, h1, h3, render_cons]; exact hadv⟩
  obtain ⟨sc, hp⟩ := hp
  obtain ⟨sc', hcl⟩ := columnsLoop_render A conv zero hA hB rs (fun r' h' => (hrs r' h').1) r.cols
    (wf_colsOK A conv zero freqOk r hr) sc []
  simp only [List.nil_append] at hcl
  have hdata : tailData A (r :: rs) = r.cols.flatMap (renderCol A) ++ 0x0A :: render A rs := rfl
  rw [← hdata] at hcl
  have hnext := next_found A conv zero freqOk s _ _ sc hp r.id f4 _ _ _ _ sc' hcl _
    (buildMatrix_render A conv zero freqOk r hr) hr.2.2.2.2.2.2.2
  rw [hnext]
  exact ⟨rfl, rfl, rfl, rfl⟩

theorem next_end (s : State) (h : St A [] s) : (next A conv zero freqOk s).1 = .done := by
  obtain ⟨h1, h2, h3⟩ := h
  obtain ⟨s2, hadv⟩ := advance_nil s.sched
  unfold next
  simp only [h2, tailLine, Bool.false_eq_true, if_false, h1, tailBuf, h3, tailData, hadv]

theorem outcomes_St (hA : A.LettersOK) (hB : LettersNotBlank A) (rs : List Src)
    (hwf : ∀ r ∈ rs, WF A conv zero freqOk r) :
    ∀ s : State, St A rs s →
      outcomes (next A conv zero freqOk) (rs.length + 1) s
        = rs.map (fun r => Outcome.record (expect A conv zero r)) ++ [Outcome.done] := by
  induction rs with
  | nil =>
    intro s hs
    simp only [List.length_nil, outcomes, List.map_nil, List.nil_append]
    rw [next_end A conv zero freqOk s hs]
  | cons r rs ih =>
    intro s hs
    obtain ⟨h1, h2⟩ := next_St A conv zero freqOk hA hB r rs (hwf r (by simp))
      (fun r' h' => hwf r' (by simp [h'])) s (Or.inl hs)
    simp only [List.length_cons, outcomes, List.map_cons, List.cons_append]
    rw [h1]
    congr 1
    exact ih (fun r' h' => hwf r' (by simp [h'])) _ h2

/-- **UniPROBE round trip**: reading a rendered file of well-formed motifs returns exactly those
    motifs, in order, then end of input, for every number of motifs and every chunk schedule -/
theorem roundTrip (hA : A.LettersOK) (hB : LettersNotBlank A) (sched : List Nat) (rs : List Src)
    (hwf : ∀ r ∈ rs, WF A conv zero freqOk r) :
    outcomes (next A conv zero freqOk) (rs.length + 1) (new sched (render A rs))
      = rs.map (fun r => Outcome.record (expect A conv zero r)) ++ [Outcome.done] := by
  cases rs with
  | nil => exact outcomes_St A conv zero freqOk hA hB [] hwf _ ⟨rfl, rfl, rfl⟩
  | cons r rs =>
    obtain ⟨h1, h2⟩ := next_St A conv zero freqOk hA hB r rs (hwf r (by simp))
      (fun r' h' => hwf r' (by simp [h'])) (new sched (render A (r :: rs))) (Or.inr ⟨rfl, rfl, rfl⟩)
    simp only [List.length_cons, outcomes, List.map_cons, List.cons_append]
    rw [h1]
    congr 1
    exact outcomes_St A conv zero freqOk hA hB rs (fun r' h' => hwf r' (by simp [h'])) _ h2

end Uniprobe



end LMV
