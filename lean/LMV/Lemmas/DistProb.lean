/-
  LMV.Lemmas.DistProb — sums over words: the functional convolution `specQ` is the distribution
  of the integer score of a background-distributed word.
-/
import LMV.Lemmas.Dist
import LMV.Spec.Dist

namespace LMV.Dist

/-! ### list sums -/

theorem sum_flatMap {α β : Type} (l : List α) (f : α → List β) (g : β → Rat) :
    ((l.flatMap f).map g).sum = (l.map (fun x => ((f x).map g).sum)).sum := by
  induction l with
  | nil => simp
  | cons x l ih => simp [List.flatMap_cons, List.sum_append, ih]

theorem sum_map_mul_const {α : Type} (l : List α) (f : α → Rat) (c : Rat) :
    (l.map (fun a => f a * c)).sum = (l.map f).sum * c := by
  induction l with
  | nil => simp
  | cons x l ih => simp [ih, add_mul]

theorem sum_map_const_mul {α : Type} (l : List α) (f : α → Rat) (c : Rat) :
    (l.map (fun a => c * f a)).sum = c * (l.map f).sum := by
  induction l with
  | nil => simp
  | cons x l ih => simp [ih, mul_add]

theorem sum_map_congr {α : Type} (l : List α) (f g : α → Rat) (h : ∀ a ∈ l, f a = g a) :
    (l.map f).sum = (l.map g).sum := by
  rw [List.map_congr_left h]

/-! ### words -/

theorem mem_words {syms : List Nat} : ∀ {n : Nat} {w : List Nat}, w ∈ words syms n →
    w.length = n ∧ ∀ a ∈ w, a ∈ syms
  | 0, w, h => by
    simp [words] at h; subst h; simp
  | n + 1, w, h => by
    simp only [words, List.mem_flatMap, List.mem_map] at h
    obtain ⟨w', hw', a, ha, rfl⟩ := h
    obtain ⟨hl, hm⟩ := mem_words hw'
    refine ⟨by simp [hl], ?_⟩
    intro b hb
    rcases List.mem_cons.mp hb with rfl | hb
    · exact ha
    · exact hm b hb

theorem wt_nonneg {syms : List Nat} {bg : List Rat} (hbg : ∀ a ∈ syms, 0 ≤ bg.getD a 0) :
    ∀ {w : List Nat}, (∀ a ∈ w, a ∈ syms) → 0 ≤ wt bg w
  | [], _ => by simp [wt]
  | a :: w, h => by
    unfold wt
    exact mul_nonneg (hbg a (h a List.mem_cons_self))
      (wt_nonneg hbg (fun b hb => h b (List.mem_cons_of_mem _ hb)))

theorem wt_nonneg_of_mem {syms : List Nat} {bg : List Rat} (hbg : ∀ a ∈ syms, 0 ≤ bg.getD a 0)
    {n : Nat} {w : List Nat} (hw : w ∈ words syms n) : 0 ≤ wt bg w :=
  wt_nonneg hbg (mem_words hw).2

/-- sum over the words of length `n+1`: first the tail word, then the head symbol -/
theorem sum_words_succ (syms : List Nat) (n : Nat) (g : List Nat → Rat) :
    ((words syms (n + 1)).map g).sum =
      ((words syms n).map (fun w => (syms.map (fun a => g (a :: w))).sum)).sum := by
  rw [words, sum_flatMap]
  congr 1
  apply List.map_congr_left
  intro w _
  rw [List.map_map]; rfl

/-! ### probabilities -/

theorem prob_mono {syms : List Nat} {bg : List Rat} (hbg : ∀ a ∈ syms, 0 ≤ bg.getD a 0) (M : Nat)
    (e1 e2 : List Nat → Bool) (h : ∀ w ∈ words syms M, e1 w = true → e2 w = true) :
    prob syms bg M e1 ≤ prob syms bg M e2 := by
  unfold prob
  apply List.sum_le_sum
  intro w hw
  have hnn := wt_nonneg_of_mem hbg hw
  by_cases h1 : e1 w = true
  · rw [if_pos h1, if_pos (h w hw h1)]
  · rw [if_neg h1]
    split
    · exact hnn
    · exact le_refl _

theorem prob_nonneg {syms : List Nat} {bg : List Rat} (hbg : ∀ a ∈ syms, 0 ≤ bg.getD a 0) (M : Nat)
    (e : List Nat → Bool) : 0 ≤ prob syms bg M e := by
  unfold prob
  apply List.sum_nonneg
  intro x hx
  obtain ⟨w, hw, rfl⟩ := List.mem_map.mp hx
  split
  · exact wt_nonneg_of_mem hbg hw
  · exact le_refl _

/-- total mass of all words: `(Σ bg)^M` -/
theorem prob_true (syms : List Nat) (bg : List Rat) (M : Nat) :
    prob syms bg M (fun _ => true) = ((syms.map (fun a => bg.getD a 0)).sum) ^ M := by
  unfold prob
  induction M with
  | zero => simp [words, wt]
  | succ n ih =>
    rw [sum_words_succ]
    simp only [if_true] at ih ⊢
    have : ∀ w, (syms.map (fun a => wt bg (a :: w))).sum =
        (syms.map (fun a => bg.getD a 0)).sum * wt bg w := by
      intro w
      simp only [wt]
      rw [sum_map_mul_const]
    simp only [this]
    rw [sum_map_const_mul, ih, pow_succ]; ring

theorem prob_le_one {syms : List Nat} {bg : List Rat} (hbg : ∀ a ∈ syms, 0 ≤ bg.getD a 0)
    (hsum : (syms.map (fun a => bg.getD a 0)).sum ≤ 1) (M : Nat) (e : List Nat → Bool) :
    prob syms bg M e ≤ 1 := by
  calc prob syms bg M e ≤ prob syms bg M (fun _ => true) := prob_mono hbg M _ _ (fun _ _ _ => rfl)
    _ = ((syms.map (fun a => bg.getD a 0)).sum) ^ M := prob_true syms bg M
    _ ≤ 1 := by
      apply pow_le_one₀ _ hsum
      apply List.sum_nonneg
      intro x hx
      obtain ⟨a, ha, rfl⟩ := List.mem_map.mp hx
      exact hbg a ha

/-! ### the functional convolution is a sum over words -/

/-- contribution of the word `w` to cell `j` when the rows `data` are convolved onto density `q` -/
def wordTerm (bg : List Rat) (data : List (List Int)) (q : Nat → Rat) (j : Nat) (w : List Nat) : Rat :=
  match dscore data w with
  | some t => if t ≤ j then q (j - t) * wt bg w else 0
  | none => 0

theorem dscore_cons (row : List Int) (rest : List (List Int)) (a : Nat) (w : List Nat) :
    dscore (row :: rest) (a :: w) =
      if row.getD a 0 = I32_MIN then none
      else match dscore rest w with
        | some t => some (t + (row.getD a 0).toNat)
        | none => none := by
  rw [dscore]; rfl

theorem wordTerm_cons_min (bg : List Rat) (row : List Int) (rest : List (List Int)) (q : Nat → Rat)
    (j a : Nat) (w : List Nat) (h : row.getD a 0 = I32_MIN) :
    wordTerm bg (row :: rest) q j (a :: w) = 0 := by
  unfold wordTerm; rw [dscore_cons, if_pos h]

theorem wordTerm_cons_none (bg : List Rat) (row : List Int) (rest : List (List Int)) (q : Nat → Rat)
    (j a : Nat) (w : List Nat) (h : dscore rest w = none) :
    wordTerm bg (row :: rest) q j (a :: w) = 0 := by
  have : dscore (row :: rest) (a :: w) = none := by
    rw [dscore_cons, h]; split <;> rfl
  unfold wordTerm; rw [this]

theorem wordTerm_cons_some (bg : List Rat) (row : List Int) (rest : List (List Int)) (q : Nat → Rat)
    (j a : Nat) (w : List Nat) (t : Nat) (hmin : ¬ row.getD a 0 = I32_MIN) (h : dscore rest w = some t) :
    wordTerm bg (row :: rest) q j (a :: w) =
      if t + (row.getD a 0).toNat ≤ j then q (j - (t + (row.getD a 0).toNat)) * wt bg (a :: w) else 0 := by
  unfold wordTerm; rw [dscore_cons, if_neg hmin, h]

theorem wordTerm_step (syms : List Nat) (bg : List Rat) (row : List Int) (rest : List (List Int))
    (q : Nat → Rat) (j : Nat) (w : List Nat) :
    wordTerm bg rest (stepQ syms bg row q) j w =
      (syms.map (fun a => wordTerm bg (row :: rest) q j (a :: w))).sum := by
  cases h : dscore rest w with
  | none =>
    have hl : wordTerm bg rest (stepQ syms bg row q) j w = 0 := by unfold wordTerm; rw [h]
    rw [hl]; symm
    apply List.sum_eq_zero
    intro x hx
    obtain ⟨a, _, rfl⟩ := List.mem_map.mp hx
    exact wordTerm_cons_none bg row rest q j a w h
  | some t =>
    by_cases htj : t ≤ j
    · have hl : wordTerm bg rest (stepQ syms bg row q) j w =
          (syms.map (fun a => symTerm bg row q a (j - t))).sum * wt bg w := by
        unfold wordTerm; rw [h]; simp only [if_pos htj]; rfl
      rw [hl, ← sum_map_mul_const]
      apply sum_map_congr
      intro a _
      by_cases hmin : row.getD a 0 = I32_MIN
      · rw [wordTerm_cons_min bg row rest q j a w hmin]
        unfold symTerm; rw [if_pos hmin, zero_mul]
      · rw [wordTerm_cons_some bg row rest q j a w t hmin h]
        unfold symTerm; rw [if_neg hmin]
        by_cases hs : (row.getD a 0).toNat ≤ j - t
        · have h2 : t + (row.getD a 0).toNat ≤ j := by omega
          rw [if_pos hs, if_pos h2, Nat.sub_sub]
          simp only [wt]; ring
        · have h2 : ¬ t + (row.getD a 0).toNat ≤ j := by omega
          rw [if_neg hs, if_neg h2, zero_mul]
    · have hl : wordTerm bg rest (stepQ syms bg row q) j w = 0 := by
        unfold wordTerm; rw [h]; simp only [if_neg htj]
      rw [hl]; symm
      apply List.sum_eq_zero
      intro x hx
      obtain ⟨a, _, rfl⟩ := List.mem_map.mp hx
      by_cases hmin : row.getD a 0 = I32_MIN
      · exact wordTerm_cons_min bg row rest q j a w hmin
      · rw [wordTerm_cons_some bg row rest q j a w t hmin h, if_neg (by omega)]

theorem specQ_eq_sum (syms : List Nat) (bg : List Rat) (data : List (List Int)) :
    ∀ (q : Nat → Rat) (j : Nat),
      specQ syms bg data q j = ((words syms data.length).map (wordTerm bg data q j)).sum := by
  induction data with
  | nil =>
    intro q j
    simp [specQ, words, wordTerm, dscore, wt]
  | cons row rest ih =>
    intro q j
    show specQ syms bg rest (stepQ syms bg row q) j = _
    rw [ih, List.length_cons, sum_words_succ]
    apply sum_map_congr
    intro w _
    exact wordTerm_step syms bg row rest q j w

/-- clause (1): the density computed by the convolution, as a function, is the distribution of the
    integer score -/
theorem specQ_delta0 (syms : List Nat) (bg : List Rat) (data : List (List Int)) (j : Nat) :
    specQ syms bg data delta0 j = prob syms bg data.length (dEq data j) := by
  rw [specQ_eq_sum]; unfold prob
  apply sum_map_congr
  intro w _
  unfold wordTerm dEq delta0
  cases dscore data w with
  | none => simp
  | some t =>
    by_cases htj : t = j
    · subst htj; simp
    · by_cases hle : t ≤ j
      · have : ¬ j - t = 0 := by omega
        simp [htj, hle, this]
      · simp [htj, hle]

end LMV.Dist
