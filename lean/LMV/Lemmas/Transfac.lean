/-
  LMV.Lemmas.Transfac — the TRANSFAC parser is `Good`, each iteration of its loops consumes input
  (the guards in `referenceLoop` / `recordLoop` are dead code), it never reaches a panic site; the
  reader keeps its slicing offset on a line start, never panics, and a successful `next` strictly
  decreases `|stream| + |buffer|`.  Core Lean only.
-/
import LMV.Model.Transfac
import LMV.Lemmas.Build
import LMV.Lemmas.Jaspar

namespace LMV
namespace Transfac

open Io Nom

variable {α : Type}

/-! ### parsers -/

theorem good_parseLine : Good parseLine := by
  constructor
  · intro i; unfold parseLine; split <;> simp
  · intro i r v h; unfold parseLine at h
    split at h
    · cases h
      have := congrArg List.length (through_append_after 0x0A i)
      simp at this; omega
    · cases h

theorem strict_parseLine : Strict parseLine := by
  intro i r v h; unfold parseLine at h
  split at h
  · rename_i hc
    cases h
    have := congrArg List.length (through_append_after 0x0A i)
    have hmem : (0x0A : UInt8) ∈ i := by simpa using hc
    obtain ⟨p, hp, _⟩ := through_of_mem 0x0A i hmem
    rw [hp] at this
    simp at this; omega
  · cases h

theorem good_tagLine (a b : UInt8) : Good (tagLine a b) := good_preceded (good_tag _) good_parseLine

theorem strict_tagLine (a b : UInt8) : Strict (tagLine a b) :=
  strict_pmap (strict_pair_right (good_tag _) strict_parseLine) _

theorem good_parseAlphabetWith {sp : Parser Bytes} (hsp : Good sp) (A : Alphabet) :
    Good (parseAlphabetWith sp A) :=
  good_delimited (good_alt (good_tag _) (good_tag _))
    (good_preceded hsp (good_sepList1 hsp (good_symbol A))) good_lineEnding

theorem strict_parseAlphabetWith {sp : Parser Bytes} (hsp : Good sp) (A : Alphabet) :
    Strict (parseAlphabetWith sp A) :=
  strict_pmap (strict_pair_left (strict_alt (strict_tag _ (by simp [t])) (strict_tag _ (by simp [t])))
    (good_terminated (good_preceded hsp (good_sepList1 hsp (good_symbol A))) good_lineEnding)) _

theorem parseAlphabetWith_lt {sp : Parser Bytes} {A : Alphabet} (hA : A.IndexOK) {i r : Bytes}
    {syms : List Nat} (h : parseAlphabetWith sp A i = .ok r syms) : ∀ s ∈ syms, s < A.K := by
  obtain ⟨w, hw, hv⟩ := Jaspar.pmap_ok h
  obtain ⟨r1, _, h2⟩ := pair_ok hw
  obtain ⟨w2, hw2, hv2⟩ := Jaspar.pmap_ok h2
  obtain ⟨r2, h3, _⟩ := pair_ok hw2
  obtain ⟨w3, hw3, hv3⟩ := Jaspar.pmap_ok h3
  obtain ⟨r3, _, h4⟩ := pair_ok hw3
  rw [hv, hv2, hv3]
  exact sepList1_mem (fun s => s < A.K) (fun _ _ _ hs => symbol_lt hA hs) h4

theorem good_parseRow (conv : Bytes → Option α) (k : Nat) : Good (parseRow conv k) :=
  good_delimited (good_uint _) (good_count (good_delimited good_space0 (good_float conv) good_space0) k)
    good_parseLine

theorem strict_parseRow (conv : Bytes → Option α) (k : Nat) : Strict (parseRow conv k) :=
  strict_pmap (strict_pair_left (strict_uint _)
    (good_terminated (good_count (good_delimited good_space0 (good_float conv) good_space0) k)
      good_parseLine)) _

theorem count_length {β : Type} (f : Parser β) (k : Nat) :
    ∀ i r vs, count f k i = .ok r vs → vs.length = k := by
  induction k with
  | zero => intro i r vs h; simp only [count, PRes.ok.injEq] at h; rw [← h.2]; rfl
  | succ k ih =>
    intro i r vs h
    simp only [count] at h
    cases h1 : f i with
    | ok r1 a =>
      rw [h1] at h; simp only at h
      cases h2 : count f k r1 with
      | ok r2 b =>
        rw [h2] at h; simp only [PRes.ok.injEq] at h
        rw [← h.2]; simp [ih _ _ _ h2]
      | _ => rw [h2] at h; simp at h
    | _ => rw [h1] at h; simp at h

theorem parseRow_length (conv : Bytes → Option α) (k : Nat) {i r : Bytes} {vs : List α}
    (h : parseRow conv k i = .ok r vs) : vs.length = k := by
  obtain ⟨w, hw, hv⟩ := Jaspar.pmap_ok h
  obtain ⟨r1, _, h2⟩ := pair_ok hw
  obtain ⟨w2, hw2, hv2⟩ := Jaspar.pmap_ok h2
  obtain ⟨r2, h3, _⟩ := pair_ok hw2
  rw [hv, hv2]
  exact count_length _ _ _ _ _ h3

theorem good_parseTag : Good parseTag := by
  have hg := good_takeChars 2
  constructor
  · intro i; unfold parseTag
    have := hg.noInc i
    cases h : takeChars 2 i with
    | ok r v => simp only; split <;> simp
    | _ => simp_all
  · intro i r v h; unfold parseTag at h
    cases h' : takeChars 2 i with
    | ok r' v' =>
      rw [h'] at h; simp only at h
      split at h
      · simp only [PRes.ok.injEq] at h; rw [← h.1]; exact hg.le _ _ _ h'
      · cases h
    | _ => rw [h'] at h; simp at h

theorem parseTag_known {i r tg : Bytes} (h : parseTag i = .ok r tg) : tg ∈ knownTags := by
  unfold parseTag at h
  cases h' : takeChars 2 i with
  | ok r' v' =>
    rw [h'] at h; simp only at h
    split at h
    · rename_i hk
      simp only [PRes.ok.injEq] at h
      rw [← h.2]; simpa using hk
    · cases h
  | _ => rw [h'] at h; simp at h

theorem good_parseReferenceNumber : Good parseReferenceNumber := by
  have h1 := good_preceded (good_terminated (good_tag (t 0x52 0x4E)) good_space0)
    (good_delimited (good_char 0x5B) (good_uint 4294967296) (good_char 0x5D))
  have h2 := good_delimited (good_char 0x3B) (good_takeTill (· = 0x2E)) (good_char 0x2E)
  have h3 := good_pmap good_parseLine (fun _ => ())
  constructor
  · intro i; unfold parseReferenceNumber
    have := h1.noInc i
    split
    · split
      · have := h2.noInc
        split
        · exact h3.noInc _
        · simp
        · simp
        · rename_i hh; exact absurd hh (this _)
      · exact h3.noInc _
    · simp
    · simp
    · rename_i hh; exact absurd hh this
  · intro i r v h; unfold parseReferenceNumber at h
    split at h
    · rename_i rest _ hr
      have hl1 := h1.le _ _ _ hr
      split at h
      · split at h
        · rename_i rest' _ hr'
          have hl2 := h2.le _ _ _ hr'
          have := h3.le _ _ _ h
          omega
        · cases h
        · cases h
        · cases h
      · exact h3.le _ _ _ h
    · cases h
    · cases h
    · cases h

theorem strict_parseReferenceNumber : Strict parseReferenceNumber := by
  have h1 : Strict (preceded (terminated (tag (t 0x52 0x4E)) space0)
      (delimited (char 0x5B) u32 (char 0x5D))) :=
    strict_pmap (strict_pair_left (strict_pmap (strict_pair_left (strict_tag _ (by simp [t])) good_space0) _)
      (good_delimited (good_char 0x5B) (good_uint 4294967296) (good_char 0x5D))) _
  have h2 := good_delimited (good_char 0x3B) (good_takeTill (· = 0x2E)) (good_char 0x2E)
  have h3 : Strict (pmap parseLine (fun _ => ())) := strict_pmap strict_parseLine _
  have h3g := good_pmap good_parseLine (fun _ => ())
  intro i r v h; unfold parseReferenceNumber at h
  split at h
  · rename_i rest _ hr
    have hl1 := h1 _ _ _ hr
    split at h
    · split at h
      · rename_i rest' _ hr'
        have hl2 := h2.le _ _ _ hr'
        have := h3g.le _ _ _ h
        omega
      · cases h
      · cases h
      · cases h
    · exact h3 _ _ _ h
  · cases h
  · cases h
  · cases h

theorem good_parseDatekind : Good parseDatekind := good_alt (good_tag _) (good_tag _)

theorem good_parseDate : Good parseDate :=
  good_pmap (good_pair (good_terminated (good_tag _) good_space0)
    (good_pair (good_terminated (good_uint _) (good_char _))
      (good_pair (good_terminated (good_uint _) (good_char _))
        (good_pair (good_uint _)
          (good_pair good_space0
            (good_pair (good_delimited (good_char _) good_parseDatekind (good_char _))
              (good_pair (good_delimited (good_char _) (good_preceded good_space0 (good_takeTill _)) (good_char _))
                good_parseLine))))))) _

theorem strict_parseDate : Strict parseDate :=
  strict_pmap (strict_pair_left
    (strict_pmap (strict_pair_left (strict_tag _ (by simp [t])) good_space0) _)
    (good_pair (good_terminated (good_uint _) (good_char _))
      (good_pair (good_terminated (good_uint _) (good_char _))
        (good_pair (good_uint _)
          (good_pair good_space0
            (good_pair (good_delimited (good_char _) good_parseDatekind (good_char _))
              (good_pair (good_delimited (good_char _) (good_preceded good_space0 (good_takeTill _)) (good_char _))
                good_parseLine))))))) _

/-- `referenceLine` never returns `Incomplete`; a continuing line consumes input; an ending line
    leaves the input as it is -/
theorem referenceLine_ok (i : Bytes) :
    referenceLine i ≠ .incomplete ∧
    (∀ r, referenceLine i = .ok r (some ()) → r.length < i.length) ∧
    (∀ r, referenceLine i = .ok r none → r = i) := by
  have hrx := good_preceded (good_preceded (good_terminated (good_tag (t 0x52 0x58)) good_space0)
      (good_terminated (good_tag [0x50, 0x55, 0x42, 0x4D, 0x45, 0x44, 0x3A]) good_space0))
    (good_terminated (good_takeTill (· = 0x2E)) (good_char 0x2E))
  have hpl := good_pmap good_parseLine (fun _ => some ())
  have hpls : Strict (pmap parseLine (fun _ => some ())) := strict_pmap strict_parseLine _
  have htc := (good_takeChars 2).noInc i
  unfold referenceLine
  split
  · rename_i r0 tg _
    split
    · have := hrx.noInc i
      split
      · rename_i rest _ hr
        have hl := hrx.le _ _ _ hr
        refine ⟨hpl.noInc _, ?_, ?_⟩
        · intro r h
          have := hpls _ _ _ h
          omega
        · intro r h
          unfold pmap at hpl
          cases hh : parseLine rest <;> simp [PRes.map, hh] at h
      · simp
      · simp
      · rename_i hh; exact absurd hh this
    · split
      · have hg := good_pmap (good_preceded (good_tag tg) good_parseLine) (fun _ => some ())
        have hs : Strict (pmap (preceded (tag tg) parseLine) (fun _ => some ())) :=
          strict_pmap (strict_pmap (strict_pair_right (good_tag tg) strict_parseLine) _) _
        refine ⟨hg.noInc i, fun r h => hs _ _ _ h, ?_⟩
        intro r h
        cases hh : preceded (tag tg) parseLine i <;> simp [PRes.map, hh] at h
      · refine ⟨by simp, ?_, ?_⟩
        · intro r h; simp at h
        · intro r h; simp only [PRes.ok.injEq] at h; exact h.1.symm
  · simp
  · simp
  · rename_i hh; exact absurd hh htc

theorem referenceLoop_good (i : Bytes) :
    referenceLoop i ≠ .incomplete ∧ ∀ r v, referenceLoop i = .ok r v → r.length ≤ i.length := by
  induction hn : i.length using Nat.strongRecOn generalizing i with
  | _ n ih =>
    subst hn
    obtain ⟨h0, h1, h2⟩ := referenceLine_ok i
    rw [referenceLoop]
    split
    · rename_i rest _ hr
      have hlt := h1 rest hr
      rw [if_pos hlt]
      obtain ⟨g1, g2⟩ := ih _ hlt rest rfl
      exact ⟨g1, fun r v h => by have := g2 r v h; omega⟩
    · rename_i rest hr
      have := h2 rest hr
      exact ⟨by simp, fun r v h => by simp only [PRes.ok.injEq] at h; rw [← h.1, this]; exact Nat.le_refl _⟩
    · simp
    · simp
    · rename_i hh; exact absurd hh h0

/-- the guard of `referenceLoop` is dead code: a continuing reference line always consumes input -/
theorem referenceLine_lt (i r : Bytes) (h : referenceLine i = .ok r (some ())) :
    r.length < i.length := (referenceLine_ok i).2.1 r h

theorem good_parseReference : Good parseReference := by
  constructor
  · intro i; unfold parseReference
    have := good_parseReferenceNumber.noInc i
    split
    · exact (referenceLoop_good _).1
    · simp
    · simp
    · rename_i hh; exact absurd hh this
  · intro i r v h; unfold parseReference at h
    split at h
    · rename_i rest _ hr
      have := good_parseReferenceNumber.le _ _ _ hr
      have := (referenceLoop_good rest).2 r v h
      omega
    · cases h
    · cases h
    · cases h

theorem strict_parseReference : Strict parseReference := by
  intro i r v h; unfold parseReference at h
  split at h
  · rename_i rest _ hr
    have := strict_parseReferenceNumber _ _ _ hr
    have := (referenceLoop_good rest).2 r v h
    omega
  · cases h
  · cases h
  · cases h

/-! ### the record loop -/

theorem fillRow_some {K : Nat} (i : Nat) (symbols : List Nat) (hs : ∀ s ∈ symbols, s < K) :
    ∀ (row : List α) (m : Mat α K), i < m.rows →
      ∃ m', fillRow m i symbols row = some m' ∧ m'.rows = m.rows := by
  induction symbols with
  | nil => intro row m _; exact ⟨m, by simp [fillRow], rfl⟩
  | cons s ss ih =>
    intro row m hi
    cases row with
    | nil => exact ⟨m, by simp [fillRow], rfl⟩
    | cons c cs =>
      have hsK : s < K := hs s (by simp)
      simp only [fillRow, hi, hsK, and_self, if_true]
      obtain ⟨m', h1, h2⟩ := ih (fun s' h' => hs s' (by simp [h'])) cs (m.set i s c) (by simpa using hi)
      exact ⟨m', h1, by simpa using h2⟩

theorem fillRows_some {K : Nat} (symbols : List Nat) (hs : ∀ s ∈ symbols, s < K)
    (rows : List (List α)) :
    ∀ (m : Mat α K) (i : Nat), i + rows.length ≤ m.rows → ∃ m', fillRows m symbols i rows = some m' := by
  induction rows with
  | nil => intro m i _; exact ⟨m, rfl⟩
  | cons r rs ih =>
    intro m i h
    simp only [List.length_cons] at h
    obtain ⟨m', h1, h2⟩ := fillRow_some i symbols hs r m (by omega)
    simp only [fillRows, h1]
    exact ih m' (i + 1) (by rw [h2]; omega)

/-- what an iteration of the record loop may do -/
def StepOK {K : Nat} (i : Bytes) : Step α K → Prop
  | .continue rest _ => rest.length < i.length
  | .finish rest _ => rest.length ≤ i.length
  | .error e => e ≠ .incomplete
  | .panic _ => False

theorem stepOK_stepOf {β : Type} {K : Nat} (i j : Bytes) (p : Parser β) (hp : Good p)
    (k : Bytes → β → Step α K) (hk : ∀ rest v, p j = .ok rest v → StepOK i (k rest v)) :
    StepOK i (stepOf K (p j) k) := by
  unfold stepOf
  have := hp.noInc j
  split
  · rename_i rest v h; exact hk rest v h
  · simp [StepOK]
  · simp [StepOK]
  · rename_i hh; exact absurd hh this

/-- **one iteration of `parse_record`'s loop** (repaired code: complete `space1`): never
    `Incomplete`, never a panic site, and a continuing iteration consumes input -/
theorem recordStep_ok {A : Alphabet} (hA : A.IndexOK) (conv : Bytes → Option α) (zero : α)
    (r : TRecord α A.K) (i : Bytes) : StepOK i (recordStep A conv zero space1 r i) := by
  unfold recordStep
  apply stepOK_stepOf i i parseTag good_parseTag
  intro _ tg htag
  have hknown := parseTag_known htag
  have line : ∀ (a b : UInt8) (g : Bytes → TRecord α A.K),
      StepOK i (stepOf A.K (tagLine a b i) fun rest l => .continue rest (g l)) := by
    intro a b g
    apply stepOK_stepOf i i (tagLine a b) (good_tagLine a b)
    intro rest v h
    exact strict_tagLine a b _ _ _ h
  by_cases h1 : tg = t 0x41 0x43
  · rw [if_pos h1]; exact line _ _ _
  rw [if_neg h1]
  by_cases h2 : tg = t 0x42 0x41
  · rw [if_pos h2]; exact line _ _ (fun _ => r)
  rw [if_neg h2]
  by_cases h3 : tg = t 0x42 0x53
  · rw [if_pos h3]; exact line _ _ (fun _ => r)
  rw [if_neg h3]
  by_cases h4 : tg = t 0x42 0x46
  · rw [if_pos h4]; exact line _ _ (fun _ => r)
  rw [if_neg h4]
  by_cases h5 : tg = t 0x43 0x43
  · rw [if_pos h5]
    apply stepOK_stepOf i i _ (good_many1 (good_tagLine _ _))
    intro rest v h
    exact strict_many1 (good_tagLine _ _) (strict_tagLine _ _) _ _ _ h
  rw [if_neg h5]
  by_cases h6 : tg = t 0x43 0x4F
  · rw [if_pos h6]; exact line _ _ (fun _ => r)
  rw [if_neg h6]
  by_cases h7 : tg = t 0x44 0x45
  · rw [if_pos h7]; exact line _ _ _
  rw [if_neg h7]
  by_cases h8 : tg = t 0x44 0x54
  · rw [if_pos h8]
    apply stepOK_stepOf i i _ good_parseDate
    intro rest v h
    exact strict_parseDate _ _ _ h
  rw [if_neg h8]
  by_cases h9 : tg = t 0x49 0x44
  · rw [if_pos h9]; exact line _ _ _
  rw [if_neg h9]
  by_cases h10 : tg = t 0x4E 0x41
  · rw [if_pos h10]; exact line _ _ _
  rw [if_neg h10]
  by_cases h11 : tg = t 0x50 0x30 ∨ tg = t 0x50 0x4F
  · rw [if_pos h11]
    apply stepOK_stepOf i i _ (good_parseAlphabetWith good_space1 A)
    intro rest symbols hsy
    have hlt := strict_parseAlphabetWith good_space1 A _ _ _ hsy
    have hsyms := parseAlphabetWith_lt hA hsy
    apply stepOK_stepOf i rest _ (good_many1 (good_parseRow conv symbols.length))
    intro rest' counts hc
    have hle := (good_many1 (good_parseRow conv symbols.length)).le _ _ _ hc
    obtain ⟨m, hm⟩ := fillRows_some symbols hsyms counts
      ((Mat.empty : Mat α A.K).resize counts.length zero) 0 (by simp)
    rw [hm]
    simp only [StepOK]
    omega
  rw [if_neg h11]
  by_cases h12 : tg = t 0x52 0x4E
  · rw [if_pos h12]
    apply stepOK_stepOf i i _ good_parseReference
    intro rest v h
    exact strict_parseReference _ _ _ h
  rw [if_neg h12]
  by_cases h13 : tg = t 0x2F 0x2F
  · rw [if_pos h13]
    apply stepOK_stepOf i i _ (good_preceded (good_tag _) (good_alt good_parseLine good_eof))
    intro rest v h
    exact (good_preceded (good_tag _) (good_alt good_parseLine good_eof)).le _ _ _ h
  rw [if_neg h13]
  by_cases h14 : tg = t 0x58 0x58
  · rw [if_pos h14]
    apply stepOK_stepOf i i _ good_parseLine
    intro rest v h
    exact strict_parseLine _ _ _ h
  rw [if_neg h14]
  -- every tag `parse_tag` accepts has its arm
  exfalso
  simp only [knownTags, List.mem_cons, List.not_mem_nil, or_false] at hknown
  simp only [not_or] at h11
  rcases hknown with h | h | h | h | h | h | h | h | h | h | h | h | h | h | h
  · exact h1 h
  · exact h2 h
  · exact h3 h
  · exact h4 h
  · exact h5 h
  · exact h6 h
  · exact h7 h
  · exact h8 h
  · exact h9 h
  · exact h10 h
  · exact h11.1 h
  · exact h11.2 h
  · exact h12 h
  · exact h14 h
  · exact h13 h

/-- the guard of `recordLoop` is dead code: a continuing iteration always consumes input -/
theorem recordStep_lt {A : Alphabet} (hA : A.IndexOK) (conv : Bytes → Option α) (zero : α)
    (r r' : TRecord α A.K) (i rest : Bytes)
    (h : recordStep A conv zero space1 r i = .continue rest r') : rest.length < i.length := by
  have := recordStep_ok hA conv zero r i
  rw [h] at this
  exact this

/-- **`parse_record` never panics and never returns `Incomplete`** (repaired code) -/
theorem recordLoop_ok {A : Alphabet} (hA : A.IndexOK) (conv : Bytes → Option α) (zero : α)
    (i : Bytes) : ∀ r : TRecord α A.K,
      (∀ site, recordLoop A conv zero space1 r i ≠ .panic site) ∧
      recordLoop A conv zero space1 r i ≠ .error .incomplete := by
  induction hn : i.length using Nat.strongRecOn generalizing i with
  | _ n ih =>
    subst hn
    intro r
    have hstep := recordStep_ok hA conv zero r i
    rw [recordLoop]
    split
    · rename_i rest r' hs
      rw [hs] at hstep
      simp only [StepOK] at hstep
      rw [if_pos hstep]
      exact ih _ hstep rest rfl r'
    · exact ⟨by intro site; simp, by simp⟩
    · rename_i e hs
      rw [hs] at hstep
      simp only [StepOK] at hstep
      exact ⟨by intro site; simp, by simpa using hstep⟩
    · rename_i site hs
      rw [hs] at hstep
      exact absurd hstep (by simp [StepOK])

/-! ### the reader -/

theorem validUtf8_head (b : UInt8) (r : Bytes) (h : validUtf8 (b :: r) = true) : isCont b = false := by
  unfold validUtf8 at h
  simp only [isCont]
  split at h
  · rename_i h1
    have : b.toNat < 128 := by simpa [UInt8.lt_iff_toNat_lt] using h1
    simp [UInt8.le_iff_toNat_le]; omega
  · split at h
    · rename_i h2
      simp [UInt8.le_iff_toNat_le] at h2 ⊢; omega
    · split at h
      · rename_i h2
        simp [UInt8.le_iff_toNat_le] at h2 ⊢; omega
      · split at h
        · rename_i h2
          simp [UInt8.le_iff_toNat_le] at h2 ⊢; omega
        · cases h

theorem readLine_valid (sched : List Nat) (data l : Bytes) (h : (readLine sched data).1 = some l) :
    validUtf8 l = true := by
  unfold readLine at h
  simp only at h
  split at h
  · rename_i hv
    cases h; exact hv
  · cases h

/-- slicing at the end of the old buffer, after a valid non-empty line was appended, is fine -/
theorem tailStartsSlashes_append (buffer l : Bytes) (hl : l ≠ []) (hv : validUtf8 l = true) :
    tailStartsSlashes (buffer ++ l) buffer.length = some ((t 0x2F 0x2F).isPrefixOf l) := by
  unfold tailStartsSlashes
  rw [if_neg (by simp)]
  simp only [List.drop_left]
  cases l with
  | nil => exact absurd rfl hl
  | cons b r =>
    simp only
    rw [validUtf8_head b r hv]
    simp

/-- the reader's invariant: `last` is the end of the buffer, or the start of a `//` line in it -/
def Inv (s : State) : Prop :=
  s.last = s.buffer.length ∨ tailStartsSlashes s.buffer s.last = some true

/-- `|stream| + |buffer|` -/
def measure (s : State) : Nat := s.data.length + s.buffer.length

theorem readLine_conserve (sched : List Nat) (data l : Bytes) (h : (readLine sched data).1 = some l) :
    l.length + (readLine sched data).2.1.length = data.length := by
  obtain ⟨h1, h2⟩ := readLine_eq sched data
  rw [h1] at h
  rw [h2]
  have := congrArg List.length (through_append_after 10 data)
  simp at this
  split at h
  · cases h; omega
  · cases h

theorem readLine_le (sched : List Nat) (data : Bytes) :
    (readLine sched data).2.1.length ≤ data.length := by
  obtain ⟨_, h2⟩ := readLine_eq sched data
  rw [h2]
  have := congrArg List.length (through_append_after 10 data)
  simp at this; omega

theorem newLoop_ok (sched : List Nat) (data : Bytes) :
    ∀ buffer : Bytes, ∃ b' l' e d' s', newLoop buffer buffer.length sched data = .ok b' l' e d' s' ∧
      (l' = b'.length ∨ tailStartsSlashes b' l' = some true) ∧
      b'.length + d'.length ≤ buffer.length + data.length := by
  induction hn : data.length using Nat.strongRecOn generalizing sched data with
  | _ n ih =>
    subst hn
    intro buffer
    have hle := readLine_le sched data
    rw [newLoop]
    split
    · exact ⟨_, _, _, _, _, rfl, Or.inl rfl, by omega⟩
    · rename_i l hl
      have hcons := readLine_conserve sched data l hl
      by_cases hnil : l = []
      · simp only [hnil, dite_true]
        exact ⟨_, _, _, _, _, rfl, Or.inl rfl, by omega⟩
      · simp only [hnil, dite_false]
        have hv := readLine_valid sched data l hl
        rw [tailStartsSlashes_append buffer l hnil hv]
        cases hp : (t 0x2F 0x2F).isPrefixOf l with
        | true =>
          simp only
          exact ⟨_, _, _, _, _, rfl, Or.inr (by rw [tailStartsSlashes_append buffer l hnil hv, hp]),
            by simp; omega⟩
        | false =>
          simp only
          have hlt := readLine_lt sched data l hl hnil
          obtain ⟨b', l', e, d', s', h1, h2, h3⟩ :=
            ih _ hlt (readLine sched data).2.2 (readLine sched data).2.1 rfl (buffer ++ l)
          simp only [List.length_append] at h1 h3
          exact ⟨b', l', e, d', s', by simpa using h1, h2, by omega⟩

theorem nextLoop_ok (sched : List Nat) (data : Bytes) :
    ∀ buffer : Bytes, ∃ b' e d' s', nextLoop buffer buffer.length sched data = .ok b' b'.length e d' s' ∧
      b'.length + d'.length ≤ buffer.length + data.length ∧ buffer.length ≤ b'.length := by
  induction hn : data.length using Nat.strongRecOn generalizing sched data with
  | _ n ih =>
    subst hn
    intro buffer
    have hle := readLine_le sched data
    rw [nextLoop]
    split
    · exact ⟨_, _, _, _, rfl, by omega, Nat.le_refl _⟩
    · rename_i l hl
      have hcons := readLine_conserve sched data l hl
      by_cases hnil : l = []
      · simp only [hnil, dite_true]
        exact ⟨_, _, _, _, rfl, by omega, Nat.le_refl _⟩
      · simp only [hnil, dite_false]
        have hv := readLine_valid sched data l hl
        rw [tailStartsSlashes_append buffer l hnil hv]
        cases hp : (t 0x2F 0x2F).isPrefixOf l with
        | true =>
          simp only
          refine ⟨buffer ++ l, none, (readLine sched data).2.1, (readLine sched data).2.2, by simp, by simp; omega, by simp⟩
        | false =>
          simp only
          have hlt := readLine_lt sched data l hl hnil
          obtain ⟨b', e, d', s', h1, h2, h3⟩ :=
            ih _ hlt (readLine sched data).2.2 (readLine sched data).2.1 rfl (buffer ++ l)
          simp only [List.length_append] at h1 h2 h3
          exact ⟨b', e, d', s', h1, by omega, by omega⟩

/-- **`Reader::new` never panics** and establishes the invariant -/
theorem new_ok (sched : List Nat) (data : Bytes) :
    ∃ s, new sched data = .ok s ∧ Inv s ∧ measure s ≤ data.length := by
  obtain ⟨b', l', e, d', s', h, hinv, hsz⟩ := newLoop_ok sched data []
  simp only [List.length_nil] at h hsz
  unfold new
  rw [h]
  simp only
  split
  · have hinc := (good_tagLine 0x56 0x56).noInc b'
    unfold parseVersion
    split
    · exact ⟨_, rfl, Or.inl rfl, by simp [measure]; omega⟩
    · rename_i hh; exact absurd hh hinc
    · exact ⟨_, rfl, hinv, by simp [measure]; omega⟩
  · exact ⟨_, rfl, hinv, by simp [measure]; omega⟩

/-- **`next` never panics and keeps the invariant** (repaired code) -/
theorem next_safe {A : Alphabet} (hA : A.IndexOK) (conv : Bytes → Option α) (zero : α) (s : State)
    (hinv : Inv s) :
    (∀ site, (next A conv zero s).1 ≠ .panic site) ∧ Inv (next A conv zero s).2 := by
  unfold next
  split
  · exact ⟨by intro site; simp, hinv⟩
  · have hsome : ∃ e0, tailStartsSlashes s.buffer s.last = some e0 := by
      rcases hinv with h | h
      · rw [h]
        unfold tailStartsSlashes
        simp
      · exact ⟨true, h⟩
    obtain ⟨e0, he0⟩ := hsome
    rw [he0]
    simp only
    -- the buffer once a `//` line (or the end of the stream) has been reached
    have hfill : ∃ b' e d' s', (if e0 = true then Fill.ok s.buffer s.last none s.data s.sched
        else nextLoop s.buffer s.last s.sched s.data) = .ok b' (if e0 = true then s.last else b'.length) e d' s' ∧
        (e0 = true → b' = s.buffer) := by
      cases e0 with
      | true => exact ⟨s.buffer, none, s.data, s.sched, by simp, fun _ => rfl⟩
      | false =>
        have hlast : s.last = s.buffer.length := by
          rcases hinv with h | h
          · exact h
          · rw [he0] at h; cases h
        obtain ⟨b', e, d', s', h1, _, _⟩ := nextLoop_ok s.sched s.data s.buffer
        rw [hlast]
        exact ⟨b', e, d', s', by simpa using h1, by intro h; cases h⟩
    obtain ⟨b', e, d', s', hf, hb⟩ := hfill
    rw [hf]
    have hinv' : (if e0 = true then s.last else b'.length) = b'.length ∨
        tailStartsSlashes b' (if e0 = true then s.last else b'.length) = some true := by
      cases e0 with
      | true =>
        simp only [if_true]
        rw [hb rfl]
        rcases hinv with h | h
        · exact Or.inl h
        · exact Or.inr h
      | false => simp
    cases e with
    | some k => exact ⟨by intro site; simp, hinv'⟩
    | none =>
      simp only
      split
      · exact ⟨by intro site; simp, hinv'⟩
      · obtain ⟨hnp, hni⟩ := recordLoop_ok hA conv zero b' ({} : TRecord α A.K)
        unfold parseRecord parseRecordWith
        split
        · exact ⟨by intro site; simp, Or.inl rfl⟩
        · rename_i site hh
          exact absurd hh (hnp site)
        · rename_i hh
          exact absurd hh hni
        · exact ⟨by intro site; simp, hinv'⟩

/-- **a successful `next` strictly decreases `|stream| + |buffer|`** -/
theorem next_record_decreases {A : Alphabet} (conv : Bytes → Option α) (zero : α) (s : State)
    (hinv : Inv s) (r : TRecord α A.K) (h : (next A conv zero s).1 = .record r) :
    measure (next A conv zero s).2 < measure s := by
  unfold next at h ⊢
  split at h
  · cases h
  · have hsome : ∃ e0, tailStartsSlashes s.buffer s.last = some e0 := by
      rcases hinv with h | h
      · rw [h]
        unfold tailStartsSlashes
        simp
      · exact ⟨true, h⟩
    obtain ⟨e0, he0⟩ := hsome
    rw [he0] at h ⊢
    simp only at h ⊢
    have hfill : ∃ b' l' e d' s', (if e0 = true then Fill.ok s.buffer s.last none s.data s.sched
        else nextLoop s.buffer s.last s.sched s.data) = .ok b' l' e d' s' ∧
        b'.length + d'.length ≤ s.buffer.length + s.data.length := by
      cases e0 with
      | true => exact ⟨s.buffer, s.last, none, s.data, s.sched, by simp, Nat.le_refl _⟩
      | false =>
        have hlast : s.last = s.buffer.length := by
          rcases hinv with h | h
          · exact h
          · rw [he0] at h; cases h
        obtain ⟨b', e, d', s', h1, h2, _⟩ := nextLoop_ok s.sched s.data s.buffer
        rw [hlast]
        exact ⟨b', b'.length, e, d', s', by simpa using h1, h2⟩
    obtain ⟨b', l', e, d', s', hf, hcons⟩ := hfill
    rw [hf] at h ⊢
    cases e with
    | some k => cases h
    | none =>
      simp only at h ⊢
      split at h
      · cases h
      · rename_i hne
        rw [if_neg hne]
        have hpos : 0 < b'.length := by
          cases b' with
          | nil => simp at hne
          | cons _ _ => simp
        split at h
        · simp only [measure, List.length_nil]
          omega
        · cases h
        · cases h
        · cases h

end Transfac

end LMV
