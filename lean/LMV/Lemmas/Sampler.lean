/-
  LMV.Lemmas.Sampler — helper lemmas for C16: finite sums, counter arrays, closed forms of the
  sampler's update loops.  Mathlib is used for the `split_ifs` tactic only.
-/
import LMV.Model.Sampler
import Mathlib.Tactic.SplitIfs

namespace LMV
namespace Sampler

/-! ### finite sums `Σ_{i<n} f i` -/

def sumTo : Nat → (Nat → Nat) → Nat
  | 0, _ => 0
  | n + 1, f => sumTo n f + f n

@[simp] theorem sumTo_zero_n (f : Nat → Nat) : sumTo 0 f = 0 := rfl
theorem sumTo_succ (n : Nat) (f : Nat → Nat) : sumTo (n + 1) f = sumTo n f + f n := rfl

theorem sumTo_congr {n : Nat} {f g : Nat → Nat} (h : ∀ i, i < n → f i = g i) :
    sumTo n f = sumTo n g := by
  induction n with
  | zero => rfl
  | succ n ih =>
    rw [sumTo_succ, sumTo_succ, ih (fun i hi => h i (by omega)), h n (by omega)]

@[simp] theorem sumTo_const_zero (n : Nat) : sumTo n (fun _ => 0) = 0 := by
  induction n with
  | zero => rfl
  | succ n ih => rw [sumTo_succ, ih]

theorem sumTo_add (n : Nat) (f g : Nat → Nat) :
    sumTo n (fun i => f i + g i) = sumTo n f + sumTo n g := by
  induction n with
  | zero => rfl
  | succ n ih => simp only [sumTo_succ, ih]; omega

/-- take the term at `z` out of the sum -/
theorem sumTo_split {n : Nat} (f : Nat → Nat) {z : Nat} (hz : z < n) :
    sumTo n f = sumTo n (fun i => if i = z then 0 else f i) + f z := by
  induction n with
  | zero => omega
  | succ n ih =>
    rw [sumTo_succ, sumTo_succ]
    by_cases h : z = n
    · subst h
      have : sumTo z (fun i => if i = z then 0 else f i) = sumTo z f :=
        sumTo_congr (fun i hi => by simp [Nat.ne_of_lt hi])
      simp [this]
    · have hz' : z < n := by omega
      have hn : ¬ n = z := fun e => h e.symm
      rw [ih hz']; simp only [hn, if_false]; omega

theorem term_le_sumTo {n : Nat} (f : Nat → Nat) {z : Nat} (hz : z < n) : f z ≤ sumTo n f := by
  rw [sumTo_split f hz]; omega

theorem sumTo_eq_zero {n : Nat} {f : Nat → Nat} : sumTo n f = 0 ↔ ∀ i, i < n → f i = 0 := by
  constructor
  · intro h i hi
    have := term_le_sumTo f hi
    omega
  · intro h
    rw [← sumTo_const_zero n]; exact sumTo_congr h

theorem sumTo_single {n : Nat} (g : Nat → Nat) {a : Nat} (ha : a < n) :
    sumTo n (fun k => if k = a then g k else 0) = g a := by
  rw [sumTo_split _ ha]
  have : sumTo n (fun i => if i = a then 0 else (if i = a then g i else 0)) = 0 := by
    rw [sumTo_eq_zero]; intro i _; by_cases h : i = a <;> simp [h]
  simp [this]

theorem sumTo_mono_n {n m : Nat} (f : Nat → Nat) (h : n ≤ m) : sumTo n f ≤ sumTo m f := by
  induction m with
  | zero => have : n = 0 := by omega
            subst this; exact Nat.le_refl _
  | succ m ih =>
    by_cases e : n = m + 1
    · subst e; exact Nat.le_refl _
    · have := ih (by omega); rw [sumTo_succ]; omega

/-- a window of a sum: `Σ_{k<L} [a ≤ k < a+w] g k = Σ_{j<w} g (a+j)` -/
theorem sumTo_window (L a w : Nat) (g : Nat → Nat) (h : a + w ≤ L) :
    sumTo L (fun k => if a ≤ k ∧ k < a + w then g k else 0) = sumTo w (fun j => g (a + j)) := by
  induction w with
  | zero =>
    rw [sumTo_zero_n, sumTo_eq_zero]
    intro k _
    exact if_neg (by omega)
  | succ w ih =>
    rw [sumTo_succ, ← ih (by omega), ← sumTo_single (n := L) g (a := a + w) (by omega), ← sumTo_add]
    apply sumTo_congr
    intro k _
    by_cases h1 : k = a + w
    · subst h1
      have : ¬ (a + w < a + w) := by omega
      simp [this]
    · by_cases h2 : a ≤ k ∧ k < a + w
      · have : a ≤ k ∧ k < a + (w + 1) := by omega
        simp [h1, h2, this]
      · have : ¬ (a ≤ k ∧ k < a + (w + 1)) := by omega
        simp [h1, h2, this]

/-! ### `forUp` -/

theorem forUp_inv {σ : Type} (P : Nat → σ → Prop) (n : Nat) (f : Nat → σ → R σ) (s : σ)
    (h0 : P 0 s)
    (hs : ∀ j t, j < n → P j t → ∃ t', f j t = .ok t' ∧ P (j + 1) t') :
    ∃ t, forUp n f s = .ok t ∧ P n t := by
  induction n with
  | zero => exact ⟨s, rfl, h0⟩
  | succ n ih =>
    obtain ⟨t, ht, hp⟩ := ih (fun j t hj => hs j t (by omega))
    obtain ⟨t', ht', hp'⟩ := hs n t (by omega) hp
    exact ⟨t', by simp only [forUp, ht, ht'], hp'⟩

/-! ### arrays as counters -/

theorem getD_setIfInBounds {α : Type} (a : Array α) (i j : Nat) (x d : α) :
    (a.setIfInBounds i x).getD j d = if i = j ∧ i < a.size then x else a.getD j d := by
  simp only [Array.getD_eq_getD_getElem?, Array.getElem?_setIfInBounds]
  by_cases h : i = j
  · subst h
    by_cases h2 : i < a.size
    · simp [h2]
    · simp [h2]
  · simp [h]

/-! ### what "the counts of an alignment" means (the property's words as definitions) -/

/-- occurrences of symbol `c` in the `w`-long window of `seq` at `start` -/
def winCount (seq : Array Nat) (start w c : Nat) : Nat :=
  sumTo w (fun j => if seq.getD (start + j) 0 = c then 1 else 0)

/-- occurrences of `c` in the whole sequence -/
def symCount (seq : Array Nat) (c : Nat) : Nat :=
  sumTo seq.size (fun k => if seq.getD k 0 = c then 1 else 0)

/-- occurrences of `c` in the sequence outside the window -/
def outCount (seq : Array Nat) (start w c : Nat) : Nat :=
  sumTo seq.size (fun k => if (k < start ∨ start + w ≤ k) ∧ seq.getD k 0 = c then 1 else 0)

theorem winCount_succ (seq : Array Nat) (start w c : Nat) :
    winCount seq start (w + 1) c = winCount seq start w c + (if seq.getD (start + w) 0 = c then 1 else 0) := rfl

theorem winCount_mono (seq : Array Nat) (start c : Nat) {j w : Nat} (h : j ≤ w) :
    winCount seq start j c ≤ winCount seq start w c := sumTo_mono_n _ h

/-- whole = outside + window, when the window lies inside the sequence -/
theorem symCount_eq (seq : Array Nat) (start w c : Nat) (h : start + w ≤ seq.size) :
    symCount seq c = outCount seq start w c + winCount seq start w c := by
  unfold symCount outCount winCount
  rw [← sumTo_window seq.size start w (fun k => if seq.getD k 0 = c then 1 else 0) h, ← sumTo_add]
  apply sumTo_congr
  intro k _
  by_cases h1 : start ≤ k ∧ k < start + w
  · have : ¬ (k < start ∨ start + w ≤ k) := by omega
    simp [h1, this]
  · have : (k < start ∨ start + w ≤ k) := by omega
    simp [h1, this]

/-- a sequence longer than the window has a symbol outside it -/
theorem outCount_pos (seq : Array Nat) (start w : Nat) (h : start + w ≤ seq.size) (hl : w < seq.size) :
    ∃ k, k < seq.size ∧ 0 < outCount seq start w (seq.getD k 0) := by
  have hk : ∃ k, k < seq.size ∧ (k < start ∨ start + w ≤ k) := by
    by_cases h0 : 0 < start
    · exact ⟨0, by omega, by omega⟩
    · exact ⟨start + w, by omega, by omega⟩
  obtain ⟨k, hk1, hk2⟩ := hk
  refine ⟨k, hk1, ?_⟩
  unfold outCount
  have := term_le_sumTo (fun k' => if (k' < start ∨ start + w ≤ k') ∧ seq.getD k' 0 = seq.getD k 0 then 1 else 0) hk1
  simp only [hk2, true_and, if_true] at this
  omega

/-! ### closed forms of the update loops -/

theorem addAt_ok (a : Array Nat) (i x : Nat) (h : i < a.size) :
    ∃ a', addAt a i x = .ok a' ∧ a'.size = a.size ∧
      ∀ c, a'.getD c 0 = a.getD c 0 + (if c = i then x else 0) := by
  refine ⟨a.setIfInBounds i (a.getD i 0 + x), by simp only [addAt, h, if_true], by simp, ?_⟩
  intro c
  rw [getD_setIfInBounds]
  by_cases e : c = i
  · subst e; rw [if_pos ⟨rfl, h⟩, if_pos rfl]
  · rw [if_neg (fun hh => e hh.1.symm), if_neg e]; rfl

theorem subAt_ok (a : Array Nat) (i x : Nat) (h : i < a.size) (hx : x ≤ a.getD i 0) :
    ∃ a', subAt a i x = .ok a' ∧ a'.size = a.size ∧
      ∀ c, a'.getD c 0 + (if c = i then x else 0) = a.getD c 0 := by
  refine ⟨a.setIfInBounds i (a.getD i 0 - x), by simp only [subAt, h, hx, if_true], by simp, ?_⟩
  intro c
  rw [getD_setIfInBounds]
  by_cases e : c = i
  · subst e; rw [if_pos ⟨rfl, h⟩, if_pos rfl]; omega
  · rw [if_neg (fun hh => e hh.1.symm), if_neg e]; rfl

theorem symAt_ok (seq : Array Nat) (k : Nat) (h : k < seq.size) : symAt seq k = .ok (seq.getD k 0) := by
  simp only [symAt, h, if_true]

/-- `for j in start..start+w { bg[seq[j]] += 1 }` adds the window counts -/
theorem bgAddWindow_ok {K : Nat} (seq : Array Nat) (start w : Nat) (b : Array Nat)
    (hb : b.size = K) (hin : start + w ≤ seq.size) (hsym : ∀ k, k < seq.size → seq.getD k 0 < K) :
    ∃ b', bgAddWindow seq start w b = .ok b' ∧ b'.size = K ∧
      ∀ c, b'.getD c 0 = b.getD c 0 + winCount seq start w c := by
  unfold bgAddWindow
  apply forUp_inv (fun j (t : Array Nat) => t.size = K ∧ ∀ c, t.getD c 0 = b.getD c 0 + winCount seq start j c)
  · exact ⟨hb, fun c => by simp only [winCount, sumTo_zero_n, Nat.add_zero]⟩
  · intro j t hj ⟨hs, hc⟩
    have hk : start + j < seq.size := by omega
    rw [symAt_ok _ _ hk]
    obtain ⟨a', h1, h2, h3⟩ := addAt_ok t (seq.getD (start + j) 0) 1 (by rw [hs]; exact hsym _ hk)
    refine ⟨a', h1, by omega, ?_⟩
    intro c
    rw [h3, hc, winCount_succ]
    split_ifs <;> omega

/-- `for j in start..start+w { bg[seq[j]] -= 1 }` subtracts the window counts and does not
    underflow when they are available -/
theorem bgSubWindow_ok {K : Nat} (seq : Array Nat) (start w : Nat) (b : Array Nat)
    (hb : b.size = K) (hin : start + w ≤ seq.size) (hsym : ∀ k, k < seq.size → seq.getD k 0 < K)
    (hav : ∀ c, c < K → winCount seq start w c ≤ b.getD c 0) :
    ∃ b', bgSubWindow seq start w b = .ok b' ∧ b'.size = K ∧
      ∀ c, b'.getD c 0 + winCount seq start w c = b.getD c 0 := by
  unfold bgSubWindow
  apply forUp_inv (fun j (t : Array Nat) => t.size = K ∧ ∀ c, t.getD c 0 + winCount seq start j c = b.getD c 0)
  · exact ⟨hb, fun c => by simp only [winCount, sumTo_zero_n, Nat.add_zero]⟩
  · intro j t hj ⟨hs, hc⟩
    have hk : start + j < seq.size := by omega
    rw [symAt_ok _ _ hk]
    have hge : 1 ≤ t.getD (seq.getD (start + j) 0) 0 := by
      have h1 := hc (seq.getD (start + j) 0)
      have h2 := hav (seq.getD (start + j) 0) (hsym _ hk)
      have h3 := winCount_mono seq start (seq.getD (start + j) 0) (show j + 1 ≤ w by omega)
      rw [winCount_succ] at h3
      simp only [if_true] at h3
      omega
    obtain ⟨a', h1, h2, h3⟩ := subAt_ok t (seq.getD (start + j) 0) 1 (by rw [hs]; exact hsym _ hk) hge
    refine ⟨a', h1, by omega, ?_⟩
    intro c
    have h4 := h3 c
    have h5 := hc c
    rw [winCount_succ]
    split_ifs at h4 ⊢ <;> omega

/-- `for symbol in 0..K { bg[symbol] += counts[symbol] }` -/
theorem addCounts_ok {K : Nat} (counts b : Array Nat) (hc : counts.size = K) (hb : b.size = K) :
    ∃ b', addCounts K counts b = .ok b' ∧ b'.size = K ∧
      ∀ c, c < K → b'.getD c 0 = b.getD c 0 + counts.getD c 0 := by
  unfold addCounts
  have := forUp_inv (fun j (t : Array Nat) => t.size = K ∧ ∀ c, t.getD c 0 = b.getD c 0 + (if c < j then counts.getD c 0 else 0))
    K (fun c b => if c < counts.size then addAt b c (counts.getD c 0) else .error "index") b
    ⟨hb, fun c => by simp only [Nat.not_lt_zero, if_false, Nat.add_zero]⟩
    (by
      intro j t hj ⟨hs, hcf⟩
      have : j < counts.size := by omega
      simp only [this, if_true]
      obtain ⟨a', h1, h2, h3⟩ := addAt_ok t j (counts.getD j 0) (by omega)
      refine ⟨a', h1, by omega, ?_⟩
      intro c
      rw [h3, hcf]
      by_cases e : c = j
      · subst e; rw [if_neg (Nat.lt_irrefl c), if_pos rfl, if_pos (Nat.lt_succ_self c)]; omega
      · by_cases l : c < j
        · rw [if_pos l, if_neg e, if_pos (by omega)]; rfl
        · rw [if_neg l, if_neg e, if_neg (by omega)])
  obtain ⟨t, h1, h2, h3⟩ := this
  exact ⟨t, h1, h2, fun c hc => by rw [h3, if_pos hc]⟩

/-- `for symbol in 0..K { bg[symbol] -= counts[symbol] }` -/
theorem subCounts_ok {K : Nat} (counts b : Array Nat) (hc : counts.size = K) (hb : b.size = K)
    (hav : ∀ c, c < K → counts.getD c 0 ≤ b.getD c 0) :
    ∃ b', subCounts K counts b = .ok b' ∧ b'.size = K ∧
      ∀ c, c < K → b'.getD c 0 + counts.getD c 0 = b.getD c 0 := by
  unfold subCounts
  have := forUp_inv (fun j (t : Array Nat) => t.size = K ∧ ∀ c, t.getD c 0 + (if c < j then counts.getD c 0 else 0) = b.getD c 0)
    K (fun c b => if c < counts.size then subAt b c (counts.getD c 0) else .error "index") b
    ⟨hb, fun c => by simp only [Nat.not_lt_zero, if_false, Nat.add_zero]⟩
    (by
      intro j t hj ⟨hs, hcf⟩
      have : j < counts.size := by omega
      simp only [this, if_true]
      have hge : counts.getD j 0 ≤ t.getD j 0 := by
        have h1 := hcf j
        have h2 := hav j hj
        rw [if_neg (Nat.lt_irrefl j)] at h1
        omega
      obtain ⟨a', h1, h2, h3⟩ := subAt_ok t j (counts.getD j 0) (by omega) hge
      refine ⟨a', h1, by omega, ?_⟩
      intro c
      have h4 := h3 c
      have h5 := hcf c
      by_cases e : c = j
      · subst e
        rw [if_pos rfl] at h4
        rw [if_neg (Nat.lt_irrefl c)] at h5
        rw [if_pos (Nat.lt_succ_self c)]; omega
      · rw [if_neg e] at h4
        by_cases l : c < j
        · rw [if_pos l] at h5
          rw [if_pos (by omega)]; omega
        · rw [if_neg l] at h5
          rw [if_neg (by omega)]; omega)
  obtain ⟨t, h1, h2, h3⟩ := this
  exact ⟨t, h1, h2, fun c hc => by have := h3 c; rw [if_pos hc] at this; exact this⟩

theorem incCell_ok {K : Nat} (m : Mat Nat K) (r c : Nat) (hr : r < m.rows) (hc : c < K) :
    incCell m r c = .ok (m.set r c (m.get r c + 1)) := by
  simp only [incCell, hr, hc, and_self, if_true]

theorem decCell_ok {K : Nat} (m : Mat Nat K) (r c : Nat) (hr : r < m.rows) (hc : c < K)
    (h1 : 1 ≤ m.get r c) : decCell m r c = .ok (m.set r c (m.get r c - 1)) := by
  simp only [decCell, hr, hc, h1, and_self, if_true]

/-- `motif[(j, seq[start+j])] += 1` for `j < w`: adds the window's indicator matrix -/
theorem addWindow_ok {K : Nat} (seq : Array Nat) (start w : Nat) (m : Mat Nat K)
    (hrows : m.rows = w) (hin : start + w ≤ seq.size) (hsym : ∀ k, k < seq.size → seq.getD k 0 < K) :
    ∃ m', addWindow seq start w m = .ok m' ∧ m'.rows = w ∧
      ∀ r c, m'.get r c = m.get r c + (if r < w ∧ seq.getD (start + r) 0 = c then 1 else 0) := by
  unfold addWindow
  apply forUp_inv (fun j (t : Mat Nat K) => t.rows = w ∧
      ∀ r c, t.get r c = m.get r c + (if r < j ∧ seq.getD (start + r) 0 = c then 1 else 0))
  · exact ⟨hrows, fun r c => by rw [if_neg (by omega)]; rfl⟩
  · intro j t hj ⟨hr, hc⟩
    have hk : start + j < seq.size := by omega
    rw [symAt_ok _ _ hk]; dsimp only; rw [incCell_ok t j _ (by omega) (hsym _ hk)]
    refine ⟨_, rfl, by rw [Mat.rows_set]; exact hr, ?_⟩
    intro r c
    rw [Mat.get_set]
    by_cases e : r = j ∧ c = seq.getD (start + j) 0
    · obtain ⟨e1, e2⟩ := e
      subst e1; subst e2
      rw [if_pos ⟨rfl, rfl, by omega, hsym _ hk⟩, hc, if_neg (by omega), if_pos ⟨by omega, rfl⟩]
    · rw [if_neg (fun hh => e ⟨hh.1, hh.2.1⟩), hc]
      by_cases e1 : r = j
      · subst e1
        have e2 : ¬ seq.getD (start + r) 0 = c := fun x => e ⟨rfl, x.symm⟩
        rw [if_neg (by omega), if_neg (fun hh => e2 hh.2)]
      · by_cases l : r < j ∧ seq.getD (start + r) 0 = c
        · rw [if_pos l, if_pos ⟨by omega, l.2⟩]
        · rw [if_neg l, if_neg (fun hh => l ⟨by omega, hh.2⟩)]

/-- `motif[(j, seq[start+j])] -= 1` for `j < w`: removes the window's indicator matrix; does not
    underflow when every window cell is at least one -/
theorem subWindow_ok {K : Nat} (seq : Array Nat) (start w : Nat) (m : Mat Nat K)
    (hrows : m.rows = w) (hin : start + w ≤ seq.size) (hsym : ∀ k, k < seq.size → seq.getD k 0 < K)
    (hav : ∀ j, j < w → 1 ≤ m.get j (seq.getD (start + j) 0)) :
    ∃ m', subWindow seq start w m = .ok m' ∧ m'.rows = w ∧
      ∀ r c, m'.get r c + (if r < w ∧ seq.getD (start + r) 0 = c then 1 else 0) = m.get r c := by
  unfold subWindow
  apply forUp_inv (fun j (t : Mat Nat K) => t.rows = w ∧
      ∀ r c, t.get r c + (if r < j ∧ seq.getD (start + r) 0 = c then 1 else 0) = m.get r c)
  · exact ⟨hrows, fun r c => by rw [if_neg (by omega)]; rfl⟩
  · intro j t hj ⟨hr, hc⟩
    have hk : start + j < seq.size := by omega
    have hge : 1 ≤ t.get j (seq.getD (start + j) 0) := by
      have := hc j (seq.getD (start + j) 0)
      rw [if_neg (by omega)] at this
      have := hav j hj
      omega
    rw [symAt_ok _ _ hk]; dsimp only; rw [decCell_ok t j _ (by omega) (hsym _ hk) hge]
    refine ⟨_, rfl, by rw [Mat.rows_set]; exact hr, ?_⟩
    intro r c
    rw [Mat.get_set]
    have h0 := hc r c
    by_cases e : r = j ∧ c = seq.getD (start + j) 0
    · obtain ⟨e1, e2⟩ := e
      subst e1; subst e2
      rw [if_neg (by omega)] at h0
      rw [if_pos ⟨rfl, rfl, by omega, hsym _ hk⟩, if_pos ⟨by omega, rfl⟩]
      omega
    · rw [if_neg (fun hh => e ⟨hh.1, hh.2.1⟩)]
      by_cases e1 : r = j
      · subst e1
        have e2 : ¬ seq.getD (start + r) 0 = c := fun x => e ⟨rfl, x.symm⟩
        rw [if_neg (by omega)] at h0
        rw [if_neg (fun hh => e2 hh.2)]; exact h0
      · by_cases l : r < j ∧ seq.getD (start + r) 0 = c
        · rw [if_pos l] at h0
          rw [if_pos ⟨by omega, l.2⟩]; exact h0
        · rw [if_neg l] at h0
          rw [if_neg (fun hh => l ⟨by omega, hh.2⟩)]; exact h0

end Sampler
end LMV
