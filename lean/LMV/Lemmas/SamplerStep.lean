/-
  LMV.Lemmas.SamplerStep — one `next` of the sampler under the invariant: when it panics, what it
  yields, what the state becomes.
-/
import LMV.Lemmas.SamplerInv

namespace LMV
namespace Sampler

/-! ### `total` -/

theorem foldl_add_eq_zero (l : List Nat) (x : Nat) :
    l.foldl (· + ·) x = 0 ↔ x = 0 ∧ ∀ y, y ∈ l → y = 0 := by
  induction l generalizing x with
  | nil => simp
  | cons a l ih =>
    rw [List.foldl_cons, ih]
    constructor
    · intro ⟨h1, h2⟩
      refine ⟨by omega, ?_⟩
      intro y hy
      cases hy with
      | head => omega
      | tail _ h => exact h2 y h
    · intro ⟨h1, h2⟩
      have := h2 a (List.mem_cons_self ..)
      exact ⟨by omega, fun y hy => h2 y (List.mem_cons_of_mem _ hy)⟩

/-- `counts.iter().sum() == 0` iff every counter is zero -/
theorem total_eq_zero (a : Array Nat) : total a = 0 ↔ ∀ c, c < a.size → a.getD c 0 = 0 := by
  unfold total
  rw [← Array.foldl_toList, foldl_add_eq_zero]
  constructor
  · intro ⟨_, h⟩ c hc
    have : a.getD c 0 = a[c] := by simp [Array.getD_eq_getD_getElem?, hc]
    rw [this]
    exact h _ (by simp)
  · intro h
    refine ⟨rfl, ?_⟩
    intro y hy
    rw [Array.mem_toList_iff, Array.mem_iff_getElem] at hy
    obtain ⟨i, hi, rfl⟩ := hy
    have := h i hi
    simpa [Array.getD_eq_getD_getElem?, hi] using this

/-! ### the invariant only looks at starts / active / motif / bg / seed -/

theorem st_congr {K : Nat} {s s' : State K} (h : s'.starts = s.starts) : st s' = st s := by
  funext i; unfold st; rw [h]

theorem act_congr {K : Nat} {s s' : State K} (h : s'.active = s.active) : act s' = act s := by
  funext i; unfold act; rw [h]

theorem Inv.congr {K : Nat} {D : Data} {w : Nat} {s : State K} (h : Inv D w s) (s' : State K)
    (h1 : s'.starts = s.starts) (h2 : s'.active = s.active) (h3 : s'.motif = s.motif)
    (h4 : s'.bg = s.bg) (h5 : s'.seed = s.seed) (h6 : s'.lastInclusion ≤ s'.step) : Inv D w s' := by
  have hs := st_congr h1
  have ha := act_congr h2
  constructor
  · rw [h1]; exact h.nstarts
  · rw [h2]; exact h.nactive
  · rw [h3]; exact h.rows
  · rw [h4]; exact h.bgsize
  · rw [hs]; exact h.inside
  · rw [hs, ha, h3]; exact h.motif
  · rw [hs, ha, h4]; exact h.bg
  · rw [ha, h2]; exact h.count
  · exact h6
  · rw [h5]; exact h.seedlt

/-! ### `update_holdout` -/

theorem updateHoldout_spec {K : Nat} {D : Data} {w : Nat} {s : State K} {z : Nat} {start : Option Nat}
    (hinv : Inv D w s) (hz : z < D.n) (ha : act s z = false) (hst : StartOk w (D.seq z).size start) :
    Inv D w (updateHoldout s z start) ∧
    (updateHoldout s z start).active = s.active ∧
    st (updateHoldout s z start) = (fun i => if i = z then start.getD (st s z) else st s i) ∧
    (updateHoldout s z start).step = s.step ∧ (updateHoldout s z start).seed = s.seed ∧
    (updateHoldout s z start).lastInclusion = s.lastInclusion ∧
    (updateHoldout s z start).converged = s.converged := by
  cases start with
  | none =>
    refine ⟨hinv, rfl, ?_, rfl, rfl, rfl, rfl⟩
    funext i
    by_cases e : i = z
    · subst e; rw [if_pos rfl]; rfl
    · rw [if_neg e]; rfl
  | some v =>
    have hzst : z < s.starts.size := by rw [hinv.nstarts]; exact hz
    have hst' : st (updateHoldout s z (some v)) = (fun i => if i = z then v else st s i) := by
      funext i
      show (s.starts.setIfInBounds z v).getD i 0 = _
      rw [getD_setIfInBounds]
      by_cases e : i = z
      · subst e; rw [if_pos ⟨rfl, hzst⟩, if_pos rfl]
      · rw [if_neg (fun hh => e hh.1.symm), if_neg e]; rfl
    have hagree : ∀ i, act s i = true → st (updateHoldout s z (some v)) i = st s i := by
      intro i hi
      rw [hst']; dsimp only
      by_cases e : i = z
      · subst e; rw [ha] at hi; cases hi
      · exact if_neg e
    refine ⟨?_, rfl, hst', rfl, rfl, rfl, rfl⟩
    constructor
    · show (s.starts.setIfInBounds z v).size = D.n
      rw [Array.size_setIfInBounds]; exact hinv.nstarts
    · exact hinv.nactive
    · exact hinv.rows
    · exact hinv.bgsize
    · intro i hi
      rw [hst']; dsimp only
      by_cases e : i = z
      · subst e; rw [if_pos rfl]; exact hst
      · rw [if_neg e]; exact hinv.inside i hi
    · intro j hj c hc
      show s.motif.get j c = alignMotif D (st (updateHoldout s z (some v))) (act s) j c
      rw [alignMotif_starts D _ (st s) (act s) j c hagree]; exact hinv.motif j hj c hc
    · intro c hc
      show s.bg.getD c 0 = alignBg D w (st (updateHoldout s z (some v))) (act s) c
      rw [alignBg_starts D w _ (st s) (act s) c hagree]; exact hinv.bg c hc
    · exact hinv.count
    · exact hinv.last
    · exact hinv.seedlt

/-! ### `select_holdout` -/

theorem selectHoldout_ok {K : Nat} {D : Data} {P : Params} {s : State K} {c : Choice}
    (hinv : Inv D P.w s) (hadm : Adm D P s c) : selectHoldout P s c.z = .ok c.z ∧ c.z < D.n := by
  unfold selectHoldout
  obtain ⟨h1, _⟩ := hadm
  by_cases hc : P.zoops = true ∧ s.step < P.inertia
  · rw [if_pos hc] at h1 ⊢
    have hne : s.seed.isEmpty = false := by
      cases hs : s.seed with
      | nil => rw [hs] at h1; cases h1
      | cons a l => rfl
    rw [hne]
    exact ⟨rfl, hinv.seedlt _ h1⟩
  · rw [if_neg hc] at h1 ⊢
    have : ¬ s.starts.size = 0 := by rw [hinv.nstarts]; omega
    rw [if_neg this]
    exact ⟨rfl, h1⟩

/-! ### the `Zoops && !active` tail -/

theorem zoopsTail_spec {K : Nat} {D : Data} {P : Params} {s : State K} {z : Nat}
    (hwf : D.WF K) (hinv : Inv D P.w s) (hz : z < D.n) (htot : total s.bg ≠ 0) (wa d : Bool) :
    ∃ s', zoopsTail D P s z wa d = .ok s' ∧ Inv D P.w s' ∧ s'.starts = s.starts ∧
      s'.step = s.step ∧ s'.seed = s.seed ∧
      act s' = (if P.zoops = true ∧ wa = false ∧ d = true then without (act s) z else act s) := by
  unfold zoopsTail
  by_cases hc : P.zoops = true ∧ ¬ wa = true
  · rw [if_pos hc]
    have hwa : wa = false := by cases wa <;> simp_all
    have hp : preparePssm s = .ok (s.motif, s.active.count) := by
      unfold preparePssm; rw [if_neg htot]
    rw [hp]; dsimp only
    cases d with
    | true =>
      rw [if_pos rfl]
      obtain ⟨s4, h4, hinv4, hact4, hs1, hs2, hs3, hs4, _⟩ := excludeSequence_spec hwf hinv hz
      rw [h4]; dsimp only
      have hl := hinv4.last
      rw [if_neg (by omega)]
      have hcond : (P.zoops = true ∧ wa = false ∧ true = true) := ⟨hc.1, hwa, rfl⟩
      by_cases hp : s4.step - s4.lastInclusion > P.patience
      · rw [if_pos hp]
        refine ⟨_, rfl, hinv4.congr _ rfl rfl rfl rfl rfl hl, hs1, hs2, hs4, ?_⟩
        rw [if_pos hcond]; exact hact4
      · rw [if_neg hp]
        refine ⟨_, rfl, hinv4, hs1, hs2, hs4, ?_⟩
        rw [if_pos hcond]; exact hact4
    | false =>
      rw [if_neg (by simp)]; dsimp only
      rw [if_neg (Nat.lt_irrefl _)]
      have hcond : ¬ (P.zoops = true ∧ wa = false ∧ false = true) := by simp
      have hi : Inv D P.w { s with lastInclusion := s.step } :=
        hinv.congr _ rfl rfl rfl rfl rfl (Nat.le_refl _)
      by_cases hp : s.step - s.step > P.patience
      · rw [if_pos hp]
        refine ⟨_, rfl, hi.congr _ rfl rfl rfl rfl rfl (Nat.le_refl _), rfl, rfl, rfl, ?_⟩
        rw [if_neg hcond]; rfl
      · rw [if_neg hp]
        refine ⟨_, rfl, hi, rfl, rfl, rfl, ?_⟩
        rw [if_neg hcond]; rfl
  · rw [if_neg hc]
    refine ⟨s, rfl, hinv, rfl, rfl, rfl, ?_⟩
    rw [if_neg]
    intro ⟨h1, h2, _⟩
    exact hc ⟨h1, by rw [h2]; simp⟩

/-! ### one `next` -/

/-- active flags after a step (closed form) -/
def actAfter (P : Params) (a : Nat → Bool) (c : Choice) : Nat → Bool :=
  fun i => if i = c.z then
      (if P.zoops = true ∧ a c.z = false ∧ c.discard = true then false else true)
    else a i

/-- starts after a step (closed form) -/
def stAfter (s0 : Nat → Nat) (c : Choice) : Nat → Nat :=
  fun i => if i = c.z then c.start.getD (s0 c.z) else s0 i

/-- nothing remains outside the windows once `z` is held out -/
def NothingLeft {K : Nat} (D : Data) (w : Nat) (s : State K) (z : Nat) : Prop :=
  ∀ c, c < K → alignBg D w (st s) (without (act s) z) c = 0

/-- One `next` from a state satisfying the invariant, with an admissible choice.  Either nothing
    remains outside the windows once `z` is held out — then, and only then, the step panics (in
    `prepare_pssm`) — or the step succeeds, the new state satisfies the invariant, and the
    iteration reports the alignment without `z`. -/
theorem next_spec {K : Nat} {D : Data} {P : Params} {s : State K} {c : Choice}
    (hwf : D.WF K) (hinv : Inv D P.w s) (hadm : Adm D P s c) (hnc : s.converged = false) :
    c.z < D.n ∧
    ((NothingLeft D P.w s c.z ∧ next D P s c = .error "background-empty") ∨
     (¬ NothingLeft D P.w s c.z ∧ ∃ s' it, next D P s c = .ok (some (s', it)) ∧ Inv D P.w s' ∧
        act s' = actAfter P (act s) c ∧ st s' = stAfter (st s) c ∧
        s'.step = s.step + 1 ∧ s'.seed = s.seed ∧
        it.z = c.z ∧ it.step = s.step ∧
        (∀ j, j < P.w → ∀ cc, cc < K →
          it.counts.get j cc = alignMotif D (st s) (without (act s) c.z) j cc) ∧
        it.n = alignCount D (without (act s) c.z))) := by
  obtain ⟨hsel, hz⟩ := selectHoldout_ok hinv hadm
  refine ⟨hz, ?_⟩
  have hza : c.z < s.active.data.size := by rw [hinv.nactive]; exact hz
  unfold next
  rw [if_neg (by rw [hnc]; simp), hsel]; dsimp only
  rw [test_ok s c.z hza]; dsimp only
  obtain ⟨s1, h1, hinv1, hact1, hst1, hstep1, hlast1, hseed1, hconv1⟩ := excludeSequence_spec hwf hinv hz
  rw [h1]; dsimp only
  have hst1' : st s1 = st s := st_congr hst1
  have hnl : NothingLeft D P.w s c.z ↔ total s1.bg = 0 := by
    rw [total_eq_zero, hinv1.bgsize]
    unfold NothingLeft
    constructor
    · intro h cc hcc; rw [hinv1.bg cc hcc, hst1', hact1]; exact h cc hcc
    · intro h cc hcc; have := h cc hcc; rw [hinv1.bg cc hcc, hst1', hact1] at this; exact this
  by_cases htot : total s1.bg = 0
  · left
    refine ⟨hnl.mpr htot, ?_⟩
    unfold preparePssm; rw [if_pos htot]
  · right
    refine ⟨fun h => htot (hnl.mp h), ?_⟩
    have hp : preparePssm s1 = .ok (s1.motif, s1.active.count) := by
      unfold preparePssm; rw [if_neg htot]
    rw [hp]; dsimp only
    -- update_holdout
    have ha1 : act s1 c.z = false := by rw [hact1]; unfold without; rw [if_pos rfl]
    obtain ⟨hinv2, hact2, hst2, hstep2, hseed2, hlast2, hconv2⟩ :=
      updateHoldout_spec (start := c.start) hinv1 hz ha1 hadm.2
    -- include_sequence
    obtain ⟨s3, h3, hinv3, hact3, hst3, hstep3, hlast3, hseed3, hconv3⟩ :=
      includeSequence_spec hwf hinv2 hz
    rw [h3]; dsimp only
    -- the second `prepare_pssm` cannot fail: the background only grew
    have htot3 : total s3.bg ≠ 0 := by
      intro h0
      apply htot
      rw [total_eq_zero, hinv1.bgsize]
      rw [total_eq_zero, hinv3.bgsize] at h0
      intro cc hcc
      have h30 := h0 cc hcc
      rw [hinv3.bg cc hcc, hact3] at h30
      have hw : withSeq (act (updateHoldout s1 c.z c.start)) c.z c.z = true := by
        unfold withSeq; rw [if_pos rfl]
      rw [alignBg_without D P.w _ _ cc hz hw] at h30
      have ha2 : act (updateHoldout s1 c.z c.start) = act s1 := act_congr hact2
      rw [without_withSeq _ _ (by rw [ha2]; exact ha1), ha2] at h30
      rw [hinv1.bg cc hcc]
      have hagree : ∀ i, act s1 i = true → st s3 i = st s1 i := by
        intro i hi
        rw [st_congr hst3, hst2]; dsimp only
        by_cases e : i = c.z
        · subst e; rw [ha1] at hi; cases hi
        · exact if_neg e
      rw [alignBg_starts D P.w _ (st s1) (act s1) cc hagree] at h30
      omega
    obtain ⟨s4, h4, hinv4, hst4, hstep4, hseed4, hact4⟩ :=
      zoopsTail_spec hwf hinv3 hz htot3 (act s c.z) c.discard
    rw [h4]; dsimp only
    refine ⟨_, _, rfl, hinv4.congr _ rfl rfl rfl rfl rfl (by have := hinv4.last; show s4.lastInclusion ≤ s4.step + 1; omega),
      ?_, ?_, ?_, ?_, rfl, ?_, ?_, ?_⟩
    · -- active flags
      show act s4 = _
      rw [hact4, hact3, act_congr hact2, hact1]
      funext i
      by_cases hc : P.zoops = true ∧ act s c.z = false ∧ c.discard = true
      · rw [if_pos hc]
        by_cases e : i = c.z
        · simp only [actAfter, without, e, if_true, hc, and_self]
        · simp only [actAfter, without, withSeq, e, if_false]
      · rw [if_neg hc]
        by_cases e : i = c.z
        · simp only [actAfter, withSeq, e, if_true, hc, if_false]
        · simp only [actAfter, without, withSeq, e, if_false]
    · -- starts
      show st s4 = _
      rw [st_congr hst4, st_congr hst3, hst2, hst1']
      rfl
    · show s4.step + 1 = s.step + 1
      rw [hstep4, hstep3, hstep2, hstep1]
    · show s4.seed = s.seed
      rw [hseed4, hseed3, hseed2, hseed1]
    · show s4.step = s.step
      rw [hstep4, hstep3, hstep2, hstep1]
    · intro j hj cc hcc
      show s1.motif.get j cc = _
      rw [hinv1.motif j hj cc hcc, hst1', hact1]
    · show s1.active.count = _
      rw [hinv1.count, hact1]

/-! ### a failed `WeightedIndex::new` -/

theorem excludeSequence_starts {K : Nat} {D : Data} {w : Nat} {s s1 : State K} {z : Nat}
    (h : excludeSequence D w s z = .ok s1) : s1.starts = s.starts := by
  unfold excludeSequence at h
  split at h
  · cases h
  · dsimp only at h
    cases ht : s.active.test z with
    | error e => rw [ht] at h; cases h
    | ok b =>
      rw [ht] at h
      cases b with
      | false => cases h; rfl
      | true =>
        dsimp only at h
        cases h1 : subWindow (D.seq z) (s.starts.getD z 0) w s.motif with
        | error e => rw [h1] at h; cases h
        | ok m =>
          rw [h1] at h; dsimp only at h
          cases h2 : bgAddWindow (D.seq z) (s.starts.getD z 0) w s.bg with
          | error e => rw [h2] at h; cases h
          | ok b1 =>
            rw [h2] at h; dsimp only at h
            cases h3 : subCounts K (D.cnt z) b1 with
            | error e => rw [h3] at h; cases h
            | ok b2 =>
              rw [h3] at h; dsimp only at h
              cases h4 : s.active.unset z with
              | error e => rw [h4] at h; cases h
              | ok a => rw [h4] at h; cases h; rfl

theorem setIfInBounds_getD_self (a : Array Nat) (i : Nat) : a.setIfInBounds i (a.getD i 0) = a := by
  apply Array.ext
  · simp
  · intro k h1 h2
    rw [Array.getElem_setIfInBounds]
    split
    · next e => subst e; simp [Array.getD_eq_getD_getElem?, h2]
    · rfl

/-- a failed `WeightedIndex::new` (`none`) is indistinguishable from drawing the old start -/
theorem next_none_eq {K : Nat} (D : Data) (P : Params) (s : State K) (z : Nat) (d : Bool) :
    next D P s ⟨z, none, d⟩ = next D P s ⟨z, some (st s z), d⟩ := by
  unfold next
  dsimp only
  by_cases hc : s.converged = true
  · rw [if_pos hc, if_pos hc]
  · rw [if_neg hc, if_neg hc]
    cases hs : selectHoldout P s z with
    | error e => rfl
    | ok z' =>
      dsimp only
      cases ht : s.active.test z' with
      | error e => rfl
      | ok wa =>
        dsimp only
        cases he : excludeSequence D P.w s z' with
        | error e => rfl
        | ok s1 =>
          dsimp only
          have hz : z' = z := by
            unfold selectHoldout at hs
            repeat' split at hs
            all_goals (cases hs; try rfl)
          subst hz
          have : updateHoldout s1 z' (some (st s z')) = updateHoldout s1 z' none := by
            show { s1 with starts := s1.starts.setIfInBounds z' (st s z') } = s1
            have h1 := excludeSequence_starts he
            have : st s z' = s1.starts.getD z' 0 := by unfold st; rw [h1]
            rw [this, setIfInBounds_getD_self]
          rw [this]

end Sampler
end LMV
