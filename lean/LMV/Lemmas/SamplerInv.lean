/-
  LMV.Lemmas.SamplerInv — the alignment a sampler state describes, the invariant `Inv`, and the
  effect of `exclude_sequence` / `include_sequence` / `update_holdout` on it.
-/
import LMV.Lemmas.Sampler

namespace LMV
namespace Sampler

/-! ### the alignment described by (starts, active), as the property words it -/

/-- is sequence `i` active -/
def act {K : Nat} (s : State K) (i : Nat) : Bool := s.active.data.getD i false
/-- start of the window in sequence `i` -/
def st {K : Nat} (s : State K) (i : Nat) : Nat := s.starts.getD i 0

/-- cell `(j, c)` of the count matrix of the alignment: the number of active sequences whose
    window has symbol `c` at offset `j` -/
def alignMotif (D : Data) (starts : Nat → Nat) (active : Nat → Bool) (j c : Nat) : Nat :=
  sumTo D.n (fun i => if active i = true ∧ (D.seq i).getD (starts i + j) 0 = c then 1 else 0)

/-- background count of `c`: occurrences of `c` in the active sequences outside their windows -/
def alignBg (D : Data) (w : Nat) (starts : Nat → Nat) (active : Nat → Bool) (c : Nat) : Nat :=
  sumTo D.n (fun i => if active i = true then outCount (D.seq i) (starts i) w c else 0)

/-- number of active sequences -/
def alignCount (D : Data) (active : Nat → Bool) : Nat :=
  sumTo D.n (fun i => if active i = true then 1 else 0)

/-- the alignment without sequence `z` -/
def without (a : Nat → Bool) (z : Nat) : Nat → Bool := fun i => if i = z then false else a i
/-- the alignment with sequence `z` -/
def withSeq (a : Nat → Bool) (z : Nat) : Nat → Bool := fun i => if i = z then true else a i

theorem without_withSeq (a : Nat → Bool) (z : Nat) (h : a z = false) : without (withSeq a z) z = a := by
  funext i; unfold without withSeq
  by_cases e : i = z
  · subst e; rw [if_pos rfl, h]
  · rw [if_neg e, if_neg e]

theorem without_of_inactive (a : Nat → Bool) (z : Nat) (h : a z = false) : without a z = a := by
  funext i; unfold without
  by_cases e : i = z
  · subst e; rw [if_pos rfl, h]
  · rw [if_neg e]

theorem alignMotif_without (D : Data) (starts : Nat → Nat) (a : Nat → Bool) (j c : Nat) {z : Nat}
    (hz : z < D.n) (ha : a z = true) :
    alignMotif D starts a j c =
      alignMotif D starts (without a z) j c + (if (D.seq z).getD (starts z + j) 0 = c then 1 else 0) := by
  unfold alignMotif
  rw [sumTo_split _ hz]
  congr 1
  · apply sumTo_congr
    intro i _
    unfold without
    by_cases e : i = z
    · rw [if_pos e, if_pos e, if_neg (by simp)]
    · rw [if_neg e, if_neg e]
  · simp only [ha, true_and]

theorem alignBg_without (D : Data) (w : Nat) (starts : Nat → Nat) (a : Nat → Bool) (c : Nat) {z : Nat}
    (hz : z < D.n) (ha : a z = true) :
    alignBg D w starts a c = alignBg D w starts (without a z) c + outCount (D.seq z) (starts z) w c := by
  unfold alignBg
  rw [sumTo_split _ hz]
  congr 1
  · apply sumTo_congr
    intro i _
    unfold without
    by_cases e : i = z
    · rw [if_pos e, if_pos e, if_neg (by simp)]
    · rw [if_neg e, if_neg e]
  · simp only [ha, if_true]

theorem alignCount_without (D : Data) (a : Nat → Bool) {z : Nat} (hz : z < D.n) (ha : a z = true) :
    alignCount D a = alignCount D (without a z) + 1 := by
  unfold alignCount
  rw [sumTo_split _ hz]
  congr 1
  · apply sumTo_congr
    intro i _
    unfold without
    by_cases e : i = z
    · rw [if_pos e, if_pos e, if_neg (by simp)]
    · rw [if_neg e, if_neg e]
  · simp only [ha, if_true]

/-- the start of an inactive sequence does not enter the alignment -/
theorem alignMotif_starts (D : Data) (s1 s2 : Nat → Nat) (a : Nat → Bool) (j c : Nat)
    (h : ∀ i, a i = true → s1 i = s2 i) : alignMotif D s1 a j c = alignMotif D s2 a j c := by
  unfold alignMotif
  apply sumTo_congr
  intro i _
  by_cases e : a i = true
  · rw [h i e]
  · rw [if_neg (fun hh => e hh.1), if_neg (fun hh => e hh.1)]

theorem alignBg_starts (D : Data) (w : Nat) (s1 s2 : Nat → Nat) (a : Nat → Bool) (c : Nat)
    (h : ∀ i, a i = true → s1 i = s2 i) : alignBg D w s1 a c = alignBg D w s2 a c := by
  unfold alignBg
  apply sumTo_congr
  intro i _
  by_cases e : a i = true
  · rw [h i e]
  · rw [if_neg e, if_neg e]

/-! ### well-formed data, the invariant -/

/-- what `SamplerData::new` establishes (`mkData_wf`): symbols are alphabet indices and the cached
    counts are the symbol counts of each sequence -/
structure Data.WF (K : Nat) (D : Data) : Prop where
  ncounts : D.counts.size = D.n
  sym : ∀ i, i < D.n → ∀ k, k < (D.seq i).size → (D.seq i).getD k 0 < K
  csize : ∀ i, i < D.n → (D.cnt i).size = K
  cnt : ∀ i, i < D.n → ∀ c, c < K → (D.cnt i).getD c 0 = symCount (D.seq i) c

/-- the state equals a recomputation from its alignment -/
structure Inv {K : Nat} (D : Data) (w : Nat) (s : State K) : Prop where
  nstarts : s.starts.size = D.n
  nactive : s.active.data.size = D.n
  rows : s.motif.rows = w
  bgsize : s.bg.size = K
  /-- every start (of active and inactive sequences alike) leaves the window inside its sequence -/
  inside : ∀ i, i < D.n → st s i + w ≤ (D.seq i).size
  /-- motif = Σ_{i active} window counts -/
  motif : ∀ j, j < w → ∀ c, c < K → s.motif.get j c = alignMotif D (st s) (act s) j c
  /-- background_counts = Σ_{i active} symbols outside the window -/
  bg : ∀ c, c < K → s.bg.getD c 0 = alignBg D w (st s) (act s) c
  /-- `active.count` is the number of set flags -/
  count : s.active.count = alignCount D (act s)
  last : s.lastInclusion ≤ s.step
  seedlt : ∀ i, i ∈ s.seed → i < D.n

/-! ### `BitVec` -/

theorem test_ok {K : Nat} (s : State K) (z : Nat) (h : z < s.active.data.size) :
    s.active.test z = .ok (act s z) := by
  simp only [Bits.test, h, if_true, act]

/-- the other fields of the state that `exclude_sequence` / `include_sequence` leave alone -/
def SameRest {K : Nat} (s s' : State K) : Prop :=
  s'.starts = s.starts ∧ s'.step = s.step ∧ s'.lastInclusion = s.lastInclusion ∧
  s'.seed = s.seed ∧ s'.converged = s.converged

/-! ### `exclude_sequence` -/

theorem excludeSequence_spec {K : Nat} {D : Data} {w : Nat} {s : State K} {z : Nat}
    (hwf : D.WF K) (hinv : Inv D w s) (hz : z < D.n) :
    ∃ s', excludeSequence D w s z = .ok s' ∧ Inv D w s' ∧ act s' = without (act s) z ∧ SameRest s s' := by
  have hzs : z < D.seqs.size := hz
  have hzst : z < s.starts.size := by rw [hinv.nstarts]; exact hz
  have hzc : z < D.counts.size := by rw [hwf.ncounts]; exact hz
  have hza : z < s.active.data.size := by rw [hinv.nactive]; exact hz
  unfold excludeSequence
  rw [if_neg (fun h => h ⟨hzs, hzst, hzc⟩)]; dsimp only
  rw [show s.starts.getD z 0 = st s z from rfl, test_ok s z hza]
  cases ha : act s z with
  | false =>
    refine ⟨s, rfl, hinv, (without_of_inactive _ _ ha).symm, rfl, rfl, rfl, rfl, rfl⟩
  | true =>
    dsimp only
    have hin := hinv.inside z hz
    have hsym := hwf.sym z hz
    -- motif
    have hav : ∀ j, j < w → 1 ≤ s.motif.get j ((D.seq z).getD (st s z + j) 0) := by
      intro j hj
      have hk : (D.seq z).getD (st s z + j) 0 < K := hsym _ (by omega)
      have := hinv.motif j hj _ hk
      rw [alignMotif_without D (st s) (act s) j _ hz ha, if_pos rfl] at this
      omega
    obtain ⟨m', hm1, hm2, hm3⟩ := subWindow_ok (D.seq z) (st s z) w s.motif hinv.rows hin hsym hav
    rw [hm1]; dsimp only
    -- background
    obtain ⟨b1, hb1, hb2, hb3⟩ := bgAddWindow_ok (D.seq z) (st s z) w s.bg hinv.bgsize hin hsym
    rw [hb1]; dsimp only
    have hcnt : ∀ c, c < K → (D.cnt z).getD c 0 ≤ b1.getD c 0 := by
      intro c hc
      rw [hb3, hwf.cnt z hz c hc, symCount_eq _ _ w c hin, hinv.bg c hc,
        alignBg_without D w (st s) (act s) c hz ha]
      omega
    obtain ⟨b2, hc1, hc2, hc3⟩ := subCounts_ok (D.cnt z) b1 (hwf.csize z hz) hb2 hcnt
    rw [hc1]; dsimp only
    -- flags
    have hcount : 1 ≤ s.active.count := by
      rw [hinv.count, alignCount_without D (act s) hz ha]; omega
    have hun : s.active.unset z = .ok ⟨s.active.data.setIfInBounds z false, s.active.count - 1⟩ := by
      have : s.active.data.getD z false = true := ha
      simp only [Bits.unset, hza, this, hcount, if_true]
    rw [hun]; dsimp only
    have hact : ∀ (s' : State K), s'.active.data = s.active.data.setIfInBounds z false →
        act s' = without (act s) z := by
      intro s' hs'
      funext i
      show s'.active.data.getD i false = _
      rw [hs', getD_setIfInBounds]
      unfold without
      by_cases e : i = z
      · subst e; rw [if_pos ⟨rfl, hza⟩, if_pos rfl]
      · rw [if_neg (fun hh => e hh.1.symm), if_neg e]; rfl
    refine ⟨_, rfl, ?_, hact _ rfl, rfl, rfl, rfl, rfl, rfl⟩
    · have hact := hact _ (rfl : (State.mk s.starts ⟨s.active.data.setIfInBounds z false, s.active.count - 1⟩
          s.seed m' b2 s.step s.lastInclusion s.converged).active.data = _)
      constructor
      · exact hinv.nstarts
      · show (s.active.data.setIfInBounds z false).size = D.n
        rw [Array.size_setIfInBounds]; exact hinv.nactive
      · exact hm2
      · exact hc2
      · exact hinv.inside
      · intro j hj c hc
        rw [hact]
        show m'.get j c = alignMotif D (st s) (without (act s) z) j c
        have h1 := hm3 j c
        have h2 := hinv.motif j hj c hc
        rw [alignMotif_without D (st s) (act s) j c hz ha] at h2
        by_cases e : (D.seq z).getD (st s z + j) 0 = c
        · rw [if_pos ⟨hj, e⟩] at h1; rw [if_pos e] at h2; omega
        · rw [if_neg (fun hh => e hh.2)] at h1; rw [if_neg e] at h2; omega
      · intro c hc
        rw [hact]
        show b2.getD c 0 = alignBg D w (st s) (without (act s) z) c
        have h1 := hc3 c hc
        have h2 := hb3 c
        have h3 := hinv.bg c hc
        rw [alignBg_without D w (st s) (act s) c hz ha] at h3
        have h4 := hwf.cnt z hz c hc
        rw [symCount_eq _ (st s z) w c hin] at h4
        omega
      · rw [hact]
        show s.active.count - 1 = alignCount D (without (act s) z)
        have := hinv.count
        rw [alignCount_without D (act s) hz ha] at this
        omega
      · exact hinv.last
      · exact hinv.seedlt

/-! ### `include_sequence` -/

theorem includeSequence_spec {K : Nat} {D : Data} {w : Nat} {s : State K} {z : Nat}
    (hwf : D.WF K) (hinv : Inv D w s) (hz : z < D.n) :
    ∃ s', includeSequence D w s z = .ok s' ∧ Inv D w s' ∧ act s' = withSeq (act s) z ∧ SameRest s s' := by
  have hzs : z < D.seqs.size := hz
  have hzst : z < s.starts.size := by rw [hinv.nstarts]; exact hz
  have hzc : z < D.counts.size := by rw [hwf.ncounts]; exact hz
  have hza : z < s.active.data.size := by rw [hinv.nactive]; exact hz
  unfold includeSequence
  rw [if_neg (fun h => h ⟨hzs, hzst, hzc⟩)]; dsimp only
  rw [show s.starts.getD z 0 = st s z from rfl, test_ok s z hza]
  cases ha : act s z with
  | true =>
    refine ⟨s, rfl, hinv, ?_, rfl, rfl, rfl, rfl, rfl⟩
    funext i; unfold withSeq
    by_cases e : i = z
    · subst e; rw [if_pos rfl, ha]
    · rw [if_neg e]
  | false =>
    dsimp only
    have hin := hinv.inside z hz
    have hsym := hwf.sym z hz
    obtain ⟨m', hm1, hm2, hm3⟩ := addWindow_ok (D.seq z) (st s z) w s.motif hinv.rows hin hsym
    rw [hm1]; dsimp only
    obtain ⟨b1, hb1, hb2, hb3⟩ := addCounts_ok (D.cnt z) s.bg (hwf.csize z hz) hinv.bgsize
    rw [hb1]; dsimp only
    have hav : ∀ c, c < K → winCount (D.seq z) (st s z) w c ≤ b1.getD c 0 := by
      intro c hc
      rw [hb3 c hc, hwf.cnt z hz c hc, symCount_eq _ _ w c hin]
      omega
    obtain ⟨b2, hc1, hc2, hc3⟩ := bgSubWindow_ok (D.seq z) (st s z) w b1 hb2 hin hsym hav
    rw [hc1]; dsimp only
    have hset : s.active.set z = .ok ⟨s.active.data.setIfInBounds z true, s.active.count + 1⟩ := by
      have : s.active.data.getD z false = false := ha
      simp only [Bits.set, hza, this, if_true]
      rfl
    rw [hset]; dsimp only
    have hact : ∀ (s' : State K), s'.active.data = s.active.data.setIfInBounds z true →
        act s' = withSeq (act s) z := by
      intro s' hs'
      funext i
      show s'.active.data.getD i false = _
      rw [hs', getD_setIfInBounds]
      unfold withSeq
      by_cases e : i = z
      · subst e; rw [if_pos ⟨rfl, hza⟩, if_pos rfl]
      · rw [if_neg (fun hh => e hh.1.symm), if_neg e]; rfl
    refine ⟨_, rfl, ?_, hact _ rfl, rfl, rfl, rfl, rfl, rfl⟩
    have hact := hact _ (rfl : (State.mk s.starts ⟨s.active.data.setIfInBounds z true, s.active.count + 1⟩
          s.seed m' b2 s.step s.lastInclusion s.converged).active.data = _)
    have hwz : withSeq (act s) z z = true := by unfold withSeq; rw [if_pos rfl]
    have hback : without (withSeq (act s) z) z = act s := without_withSeq _ _ ha
    constructor
    · exact hinv.nstarts
    · show (s.active.data.setIfInBounds z true).size = D.n
      rw [Array.size_setIfInBounds]; exact hinv.nactive
    · exact hm2
    · exact hc2
    · exact hinv.inside
    · intro j hj c hc
      rw [hact]
      show m'.get j c = alignMotif D (st s) (withSeq (act s) z) j c
      rw [alignMotif_without D (st s) _ j c hz hwz, hback, hm3 j c, hinv.motif j hj c hc]
      by_cases e : (D.seq z).getD (st s z + j) 0 = c
      · rw [if_pos ⟨hj, e⟩, if_pos e]
      · rw [if_neg (fun hh => e hh.2), if_neg e]
    · intro c hc
      rw [hact]
      show b2.getD c 0 = alignBg D w (st s) (withSeq (act s) z) c
      rw [alignBg_without D w (st s) _ c hz hwz, hback]
      have h1 := hc3 c
      have h2 := hb3 c hc
      have h3 := hinv.bg c hc
      have h4 := hwf.cnt z hz c hc
      rw [symCount_eq _ (st s z) w c hin] at h4
      omega
    · rw [hact]
      show s.active.count + 1 = alignCount D (withSeq (act s) z)
      rw [alignCount_without D _ hz hwz, hback, hinv.count]
    · exact hinv.last
    · exact hinv.seedlt

end Sampler
end LMV
