/-
  LMV.Lemmas.Sums — finite sums as folds over `List.range` (core Lean only), and re-indexing a
  sum over a striped `R × C` grid as a sum over positions.
-/
namespace LMV

/-- `Σ_{i<n} g i` -/
def sumTo (n : Nat) (g : Nat → Nat) : Nat := (List.range n).foldl (fun a i => a + g i) 0

theorem foldl_add_init (n : Nat) (g : Nat → Nat) (a0 : Nat) :
    (List.range n).foldl (fun a i => a + g i) a0 = a0 + sumTo n g := by
  unfold sumTo
  induction n with
  | zero => simp
  | succ n ih =>
    rw [List.range_succ, List.foldl_append, List.foldl_append, ih]
    simp only [List.foldl_cons, List.foldl_nil, Nat.zero_add]
    omega

@[simp] theorem sumTo_zero (g : Nat → Nat) : sumTo 0 g = 0 := rfl

theorem sumTo_succ (n : Nat) (g : Nat → Nat) : sumTo (n + 1) g = sumTo n g + g n := by
  unfold sumTo
  rw [List.range_succ, List.foldl_append]
  rfl

theorem sumTo_congr (n : Nat) (g h : Nat → Nat) (e : ∀ i, i < n → g i = h i) :
    sumTo n g = sumTo n h := by
  induction n with
  | zero => rfl
  | succ n ih =>
    rw [sumTo_succ, sumTo_succ, ih (fun i hi => e i (by omega)), e n (by omega)]

theorem sumTo_const_zero (n : Nat) : sumTo n (fun _ => 0) = 0 := by
  induction n with
  | zero => rfl
  | succ n ih => rw [sumTo_succ, ih]

theorem sumTo_add (n : Nat) (g h : Nat → Nat) :
    sumTo n (fun i => g i + h i) = sumTo n g + sumTo n h := by
  induction n with
  | zero => rfl
  | succ n ih => rw [sumTo_succ, sumTo_succ, sumTo_succ, ih]; omega

theorem sumTo_append (a b : Nat) (g : Nat → Nat) :
    sumTo (a + b) g = sumTo a g + sumTo b (fun i => g (a + i)) := by
  induction b with
  | zero => simp
  | succ b ih => rw [← Nat.add_assoc, sumTo_succ, sumTo_succ, ih]; omega

theorem sumTo_shift (n : Nat) (g : Nat → Nat) :
    sumTo (n + 1) g = g 0 + sumTo n (fun i => g (i + 1)) := by
  rw [Nat.add_comm n 1, sumTo_append 1 n g]
  have : sumTo 1 g = g 0 := by simp [sumTo]
  rw [this]
  congr 1
  apply sumTo_congr
  intro i _
  rw [Nat.add_comm]

/-- a sum over the striped grid (row `r`, column `c` ↦ position `c·R + r`) is the sum over positions -/
theorem sumTo_grid (R C : Nat) (g : Nat → Nat) :
    sumTo R (fun r => sumTo C (fun c => g (c * R + r))) = sumTo (R * C) g := by
  induction C with
  | zero => simp [sumTo_const_zero]
  | succ C ih =>
    have h1 : sumTo R (fun r => sumTo (C + 1) (fun c => g (c * R + r))) =
        sumTo R (fun r => sumTo C (fun c => g (c * R + r)) + g (C * R + r)) := by
      apply sumTo_congr; intro r _; rw [sumTo_succ]
    rw [h1, sumTo_add, ih, Nat.mul_succ, sumTo_append]
    congr 1
    apply sumTo_congr
    intro r _
    rw [Nat.mul_comm]

/-- terms beyond `L` vanish -/
theorem sumTo_truncate (n L : Nat) (hL : L ≤ n) (g : Nat → Nat) (hz : ∀ p, L ≤ p → g p = 0) :
    sumTo n g = sumTo L g := by
  have : n = L + (n - L) := by omega
  rw [this, sumTo_append]
  have : sumTo (n - L) (fun i => g (L + i)) = 0 := by
    rw [← sumTo_const_zero (n - L)]
    apply sumTo_congr
    intro i _
    exact hz _ (by omega)
  rw [this]; rfl

/-- counting a symbol in a list as a sum of indicators over positions -/
theorem sumTo_count (s : List Nat) (N sym : Nat) :
    sumTo s.length (fun p => if s.getD p N = sym then 1 else 0) = s.count sym := by
  induction s with
  | nil => rfl
  | cons x xs ih =>
    rw [List.length_cons, sumTo_shift]
    have h1 : sumTo xs.length (fun i => if (x :: xs).getD (i + 1) N = sym then 1 else 0) =
        sumTo xs.length (fun p => if xs.getD p N = sym then 1 else 0) := by
      apply sumTo_congr; intro i _
      have : (x :: xs).getD (i + 1) N = xs.getD i N := by simp [List.getD]
      rw [this]
    rw [h1, ih]
    simp only [List.getD, List.getElem?_cons_zero, Option.getD_some, List.count_cons]
    by_cases hx : x = sym
    · simp [hx]; omega
    · simp [hx]

end LMV
