/-
  LMV.Lemmas.SamplerReport — the invariant in terms of what the public accessors report:
  `active_sequences()`, `active_starts()`, `count_matrix()`, `background()`.
-/
import LMV.Lemmas.SamplerInv

namespace LMV
namespace Sampler

theorem sum_map_filter_range (n : Nat) (p : Nat → Bool) (f : Nat → Nat) :
    (((List.range n).filter p).map f).sum = sumTo n (fun i => if p i = true then f i else 0) := by
  induction n with
  | zero => rfl
  | succ n ih =>
    rw [List.range_succ, List.filter_append, List.map_append, List.sum_append, ih, sumTo_succ]
    congr 1
    cases h : p n with
    | true => simp [List.filter, h]
    | false => simp [List.filter, h]

theorem zip_map_self {α : Type} (l : List Nat) (g : Nat → α) :
    l.zip (l.map g) = l.map (fun i => (i, g i)) := by
  induction l with
  | nil => rfl
  | cons a l ih => simp [ih]

/-- count matrix recomputed from a reported alignment: the number of listed sequences whose window
    (at the listed start) has symbol `c` at offset `j` -/
def reportMotif (D : Data) (seqs starts : List Nat) (j c : Nat) : Nat :=
  ((seqs.zip starts).map (fun p => if (D.seq p.1).getD (p.2 + j) 0 = c then 1 else 0)).sum

/-- background counts recomputed from a reported alignment: symbols of the listed sequences outside
    their windows -/
def reportBg (D : Data) (w : Nat) (seqs starts : List Nat) (c : Nat) : Nat :=
  ((seqs.zip starts).map (fun p => outCount (D.seq p.1) p.2 w c)).sum

theorem zip_active {K : Nat} (s : State K) :
    (activeSequences s).zip (activeStarts s) =
      ((List.range s.active.data.size).filter (act s)).map (fun i => (i, st s i)) := by
  unfold activeStarts
  rw [zip_map_self]
  rfl

theorem reportMotif_eq {K : Nat} (D : Data) (s : State K) (hn : s.active.data.size = D.n) (j c : Nat) :
    reportMotif D (activeSequences s) (activeStarts s) j c = alignMotif D (st s) (act s) j c := by
  unfold reportMotif alignMotif
  rw [zip_active, List.map_map, hn, sum_map_filter_range]
  apply sumTo_congr
  intro i _
  by_cases ha : act s i = true
  · rw [if_pos ha]
    by_cases e : (D.seq i).getD (st s i + j) 0 = c
    · rw [if_pos ⟨ha, e⟩]; exact if_pos e
    · rw [if_neg (fun hh => e hh.2)]; exact if_neg e
  · rw [if_neg ha, if_neg (fun hh => ha hh.1)]

theorem reportBg_eq {K : Nat} (D : Data) (w : Nat) (s : State K) (hn : s.active.data.size = D.n) (c : Nat) :
    reportBg D w (activeSequences s) (activeStarts s) c = alignBg D w (st s) (act s) c := by
  unfold reportBg alignBg
  rw [zip_active, List.map_map, hn, sum_map_filter_range]
  apply sumTo_congr
  intro i _
  rfl

theorem activeSequences_length {K : Nat} (D : Data) (s : State K) (hn : s.active.data.size = D.n) :
    (activeSequences s).length = alignCount D (act s) := by
  have := sum_map_filter_range D.n (act s) (fun _ => 1)
  unfold alignCount
  rw [← this]
  have hl : ∀ l : List Nat, l.length = (l.map (fun _ => 1)).sum := by
    intro l
    induction l with
    | nil => rfl
    | cons a l ih => rw [List.length_cons, List.map_cons, List.sum_cons, ih]; omega
  show ((List.range s.active.data.size).filter (act s)).length = _
  rw [hn, hl]

/-- The property, in the words of the public API: the reported count matrix equals the counts of the
    windows at the reported starts of the reported active sequences; the background counts are the
    symbols of those sequences outside their windows; every reported start leaves its window inside
    its sequence; `count_matrix().sequence_count()` is the number of reported sequences. -/
structure Reported {K : Nat} (D : Data) (w : Nat) (s : State K) : Prop where
  motif : ∀ j, j < w → ∀ c, c < K →
    s.motif.get j c = reportMotif D (activeSequences s) (activeStarts s) j c
  bg : ∀ c, c < K → s.bg.getD c 0 = reportBg D w (activeSequences s) (activeStarts s) c
  inside : ∀ p, p ∈ (activeSequences s).zip (activeStarts s) → p.1 < D.n ∧ p.2 + w ≤ (D.seq p.1).size
  count : s.active.count = (activeSequences s).length
  rows : s.motif.rows = w

theorem reported_of_inv {K : Nat} {D : Data} {w : Nat} {s : State K} (h : Inv D w s) : Reported D w s := by
  constructor
  · intro j hj c hc; rw [reportMotif_eq D s h.nactive]; exact h.motif j hj c hc
  · intro c hc; rw [reportBg_eq D w s h.nactive]; exact h.bg c hc
  · intro p hp
    rw [zip_active, List.mem_map] at hp
    obtain ⟨i, hi, rfl⟩ := hp
    rw [List.mem_filter, List.mem_range, h.nactive] at hi
    exact ⟨hi.1, h.inside i hi.1⟩
  · rw [activeSequences_length D s h.nactive]; exact h.count
  · exact h.rows

end Sampler
end LMV
