/-
  LMV.Lemmas.U8Kernels — the u8 scoring kernels cell by cell: when they do not panic and what each
  cell of the result holds (the 8-bit score of the window read down the column).
-/
import LMV.Lemmas.Discretise

namespace LMV
namespace C08

open Disc

variable {K C : Nat}

theorem foldE_congr {β σ : Type} (f g : σ → β → Except String σ) (l : List β) (s : σ)
    (h : ∀ s b, b ∈ l → f s b = g s b) : foldE f l s = foldE g l s := by
  induction l generalizing s with
  | nil => rfl
  | cons b bs ih =>
    simp only [foldE]
    rw [h s b (by simp)]
    cases g s b with
    | error e => rfl
    | ok s' => exact ih s' (fun s b' hb => h s b' (by simp [hb]))

/-- the window the kernels read for cell `(row, col)`: down the column, `M` rows -/
def colWindow (st : Striped C) (row col : Nat) : Nat → Nat := fun j => st.data.get (row + j) col

/-- generic kernel: with the `M` rows below `row` present, the cell is the 8-bit score of the
    column window (no row-index panic) -/
theorem genericCell_eq (mode : AddMode) (dm : Mat UInt8 K) (st : Striped C) (row col : Nat)
    (h : row + dm.rows ≤ st.data.rows) :
    genericCell mode dm st row col = dscoreFn mode dm (colWindow st row col) := by
  unfold genericCell dscoreFn
  apply foldE_congr
  intro s j hj
  have : row + j < st.data.rows := by have := List.mem_range.mp hj; omega
  simp [this, colWindow]

theorem avx2Cell_eq (dm : Mat UInt8 K) (st : Striped C) (row col : Nat) :
    avx2Cell dm st row col = dscoreFn .saturating dm (colWindow st row col) := rfl

theorem firstPanic_none (cell : Nat → Nat → Except String UInt8) (lo n : Nat)
    (h : ∀ r c, r < n → c < C → ∃ v, cell (lo + r) c = .ok v) :
    firstPanic (C := C) cell lo n = none := by
  unfold firstPanic
  rw [List.findSome?_eq_none_iff]
  intro r hr
  rw [List.findSome?_eq_none_iff]
  intro c hc
  obtain ⟨v, hv⟩ := h r c (List.mem_range.mp hr) (List.mem_range.mp hc)
  rw [hv]

theorem blockMat_rows (cell : Nat → Nat → Except String UInt8) (lo n : Nat) :
    (blockMat (C := C) cell lo n).rows = n := by simp [blockMat]

theorem blockMat_get (cell : Nat → Nat → Except String UInt8) (lo n r c : Nat) (v : UInt8)
    (hr : r < n) (hc : c < C) (hv : cell (lo + r) c = .ok v) :
    (blockMat (C := C) cell lo n).get r c = v := by
  simp [blockMat, hr, hc, hv]

/-- what a successful block scoring returns: `hi − lo` rows, `max_index = L + 1 − M`, cell `(r, c)`
    = the 8-bit score of the column window at row `lo + r` -/
structure BlockSpec (mode : AddMode) (dm : Mat UInt8 K) (st : Striped C) (lo hi : Nat)
    (sc : Scores C) : Prop where
  rows : sc.data.rows = hi - lo
  maxIndex : sc.maxIndex = st.length + 1 - dm.rows
  cell : ∀ r c, r < hi - lo → c < C →
    dscoreFn mode dm (colWindow st (lo + r) c) = .ok (sc.data.get r c)

theorem scoreRowsGeneric_ok (mode : AddMode) (dm : Mat UInt8 K) (st : Striped C) (lo hi : Nat)
    (hlen : dm.rows ≤ st.length) (hlt : lo < hi) (hrows : hi + dm.rows ≤ st.data.rows + 1)
    (hcells : ∀ r c, r < hi - lo → c < C → ∃ v, dscoreFn mode dm (colWindow st (lo + r) c) = .ok v) :
    ∃ sc, scoreRowsGeneric mode dm st lo hi = .ok sc ∧ BlockSpec mode dm st lo hi sc := by
  have hcell : ∀ r c, r < hi - lo → c < C →
      genericCell mode dm st (lo + r) c = dscoreFn mode dm (colWindow st (lo + r) c) := by
    intro r c hr _
    exact genericCell_eq mode dm st (lo + r) c (by omega)
  have hnone : firstPanic (C := C) (genericCell mode dm st) lo (hi - lo) = none := by
    apply firstPanic_none
    intro r c hr hc
    obtain ⟨v, hv⟩ := hcells r c hr hc
    exact ⟨v, by rw [hcell r c hr hc, hv]⟩
  refine ⟨⟨blockMat (genericCell mode dm st) lo (hi - lo), st.length + 1 - dm.rows⟩, ?_, ?_⟩
  · unfold scoreRowsGeneric
    rw [if_neg (by omega), hnone]
  · refine ⟨blockMat_rows _ _ _, rfl, ?_⟩
    intro r c hr hc
    obtain ⟨v, hv⟩ := hcells r c hr hc
    rw [hv]
    congr 1
    exact (blockMat_get _ lo (hi - lo) r c v hr hc (by rw [hcell r c hr hc, hv])).symm

theorem scoreRowsAvx2_ok (dm : Mat UInt8 K) (st : Striped C) (lo hi : Nat)
    (hM : 1 ≤ dm.rows) (hwrap : dm.rows - 1 ≤ st.wrap)
    (hlen : dm.rows ≤ st.length) (hlt : lo < hi)
    (hcells : ∀ r c, r < hi - lo → c < C → ∃ v, dscoreFn .saturating dm (colWindow st (lo + r) c) = .ok v) :
    ∃ sc, scoreRowsAvx2 dm st lo hi = .ok sc ∧ BlockSpec .saturating dm st lo hi sc := by
  have hnone : firstPanic (C := C) (avx2Cell dm st) lo (hi - lo) = none := by
    apply firstPanic_none
    intro r c hr hc
    obtain ⟨v, hv⟩ := hcells r c hr hc
    exact ⟨v, by rw [avx2Cell_eq, hv]⟩
  refine ⟨⟨blockMat (avx2Cell dm st) lo (hi - lo), st.length + 1 - dm.rows⟩, ?_, ?_⟩
  · unfold scoreRowsAvx2
    rw [if_neg (by omega), if_neg (by omega), if_neg (by omega), hnone]
  · refine ⟨blockMat_rows _ _ _, rfl, ?_⟩
    intro r c hr hc
    obtain ⟨v, hv⟩ := hcells r c hr hc
    rw [hv]
    congr 1
    exact (blockMat_get _ lo (hi - lo) r c v hr hc (by rw [avx2Cell_eq, hv])).symm

/-- an empty row range, or a sequence shorter than the motif: empty scores (generic kernel) -/
theorem scoreRowsGeneric_empty (mode : AddMode) (dm : Mat UInt8 K) (st : Striped C) (lo hi : Nat)
    (h : st.length < dm.rows ∨ hi ≤ lo) : scoreRowsGeneric mode dm st lo hi = .ok Scores.empty := by
  unfold scoreRowsGeneric; rw [if_pos h]

theorem scoreRowsAvx2_empty (dm : Mat UInt8 K) (st : Striped C) (lo hi : Nat)
    (hM : 1 ≤ dm.rows) (hwrap : dm.rows - 1 ≤ st.wrap)
    (h : st.length < dm.rows ∨ hi ≤ lo) : scoreRowsAvx2 dm st lo hi = .ok Scores.empty := by
  unfold scoreRowsAvx2; rw [if_neg (by omega), if_neg (by omega), if_pos h]

end C08
end LMV
