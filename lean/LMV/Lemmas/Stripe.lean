/-
  LMV.Lemmas.Stripe — helper lemmas about the cell-writing loops of the striping models.
-/
import LMV.Model.Seq

namespace LMV
namespace Striped

variable {C : Nat}

/-- padded read: symbol `p` of the sequence, the wildcard `N` past its end (`s⟦p⟧` in DESIGN.md) -/
def pad (N : Nat) (s : List Nat) (p : Nat) : Nat := s.getD p N

theorem toArray_getD (s : List Nat) (i N : Nat) : s.toArray.getD i N = s.getD i N := by
  simp only [Array.getD, List.getD, List.size_toArray]
  split <;> simp_all

theorem getD_of_le (s : List Nat) (i N : Nat) (h : s.length ≤ i) : s.getD i N = N := by
  simp [List.getD, List.getElem?_eq_none h]

theorem foldl_range_succ {β : Type} (f : β → Nat → β) (b : β) (n : Nat) :
    (List.range (n + 1)).foldl f b = f ((List.range n).foldl f b) n := by
  rw [List.range_succ, List.foldl_append]; rfl

theorem writeCells_rows (rows : Nat) (f : Nat → Nat) (lo n : Nat) (d : Mat Nat C) :
    (writeCells rows f lo n d).rows = d.rows := by
  unfold writeCells
  induction n with
  | zero => rfl
  | succ n ih => rw [foldl_range_succ]; simp [ih]

/-- closed form of `for i in lo..lo+n { data[i % rows][i / rows] = f i }` -/
theorem writeCells_get (rows : Nat) (hr : 0 < rows) (f : Nat → Nat) (lo n : Nat) (d : Mat Nat C)
    (r c : Nat) :
    (writeCells rows f lo n d).get r c =
      if r < rows ∧ lo ≤ c * rows + r ∧ c * rows + r < lo + n ∧ r < d.rows ∧ c < C
      then f (c * rows + r) else d.get r c := by
  induction n with
  | zero =>
    simp only [writeCells, List.range_zero, List.foldl_nil, Nat.add_zero]
    split
    · omega
    · rfl
  | succ n ih =>
    have hstep : writeCells rows f lo (n + 1) d =
        (writeCells rows f lo n d).set ((lo + n) % rows) ((lo + n) / rows) (f (lo + n)) := by
      unfold writeCells; rw [foldl_range_succ]
    rw [hstep, Mat.get_set, writeCells_rows, ih]
    have hdm := Nat.div_add_mod (lo + n) rows
    have hml := Nat.mod_lt (lo + n) hr
    by_cases h1 : r = (lo + n) % rows ∧ c = (lo + n) / rows
    · obtain ⟨h1a, h1b⟩ := h1
      have hp : c * rows + r = lo + n := by
        subst h1a; subst h1b; rw [Nat.mul_comm]; exact hdm
      by_cases h2 : (lo + n) % rows < d.rows ∧ (lo + n) / rows < C
      · have e1 : (r = (lo + n) % rows ∧ c = (lo + n) / rows ∧ (lo + n) % rows < d.rows ∧ (lo + n) / rows < C) := ⟨h1a, h1b, h2.1, h2.2⟩
        have e2 : (r < rows ∧ lo ≤ c * rows + r ∧ c * rows + r < lo + (n + 1) ∧ r < d.rows ∧ c < C) := by
          refine ⟨by omega, by omega, by omega, by omega, by omega⟩
        rw [if_pos e1, if_pos e2, hp]
      · have e1 : ¬ (r = (lo + n) % rows ∧ c = (lo + n) / rows ∧ (lo + n) % rows < d.rows ∧ (lo + n) / rows < C) := by
          intro h; exact h2 ⟨h.2.2.1, h.2.2.2⟩
        have e2 : ¬ (r < rows ∧ lo ≤ c * rows + r ∧ c * rows + r < lo + (n + 1) ∧ r < d.rows ∧ c < C) := by
          intro h; apply h2; constructor <;> omega
        have e3 : ¬ (r < rows ∧ lo ≤ c * rows + r ∧ c * rows + r < lo + n ∧ r < d.rows ∧ c < C) := by
          intro h; omega
        rw [if_neg e1, if_neg e2, if_neg e3]
    · have e1 : ¬ (r = (lo + n) % rows ∧ c = (lo + n) / rows ∧ (lo + n) % rows < d.rows ∧ (lo + n) / rows < C) := by
        intro h; exact h1 ⟨h.1, h.2.1⟩
      rw [if_neg e1]
      by_cases h3 : r < rows
      · have hne : c * rows + r ≠ lo + n := by
          intro e
          apply h1
          constructor
          · rw [← e, Nat.mul_comm, Nat.mul_add_mod, Nat.mod_eq_of_lt h3]
          · rw [← e, Nat.mul_comm, Nat.mul_add_div hr, Nat.div_eq_of_lt h3, Nat.add_zero]
        by_cases h4 : (r < rows ∧ lo ≤ c * rows + r ∧ c * rows + r < lo + n ∧ r < d.rows ∧ c < C)
        · have e2 : (r < rows ∧ lo ≤ c * rows + r ∧ c * rows + r < lo + (n + 1) ∧ r < d.rows ∧ c < C) := by
            refine ⟨h4.1, h4.2.1, by omega, h4.2.2.2.1, h4.2.2.2.2⟩
          rw [if_pos h4, if_pos e2]
        · have e2 : ¬ (r < rows ∧ lo ≤ c * rows + r ∧ c * rows + r < lo + (n + 1) ∧ r < d.rows ∧ c < C) := by
            intro h; apply h4; refine ⟨h.1, h.2.1, by omega, h.2.2.2.1, h.2.2.2.2⟩
          rw [if_neg h4, if_neg e2]
      · have e2 : ¬ (r < rows ∧ lo ≤ c * rows + r ∧ c * rows + r < lo + (n + 1) ∧ r < d.rows ∧ c < C) := by
          intro h; exact h3 h.1
        have e3 : ¬ (r < rows ∧ lo ≤ c * rows + r ∧ c * rows + r < lo + n ∧ r < d.rows ∧ c < C) := by
          intro h; exact h3 h.1
        rw [if_neg e2, if_neg e3]

/-- the inner loop of `configure_wrap`: `for j in 0..n { data[dst][j] = data[src][j + 1] }` -/
def shiftLoop (dst src n : Nat) (d : Mat Nat C) : Mat Nat C :=
  (List.range n).foldl (fun d j => d.set dst j (d.get src (j + 1))) d

theorem shiftLoop_rows (dst src n : Nat) (d : Mat Nat C) : (shiftLoop dst src n d).rows = d.rows := by
  unfold shiftLoop
  induction n with
  | zero => rfl
  | succ n ih => rw [foldl_range_succ]; simp [ih]

/-- closed form of the inner loop.  It holds even when `dst = src` (a wrap row copied from itself,
    which happens when the sequence is empty): step `j` reads cell `j+1`, which no earlier step wrote. -/
theorem shiftLoop_get (dst src n : Nat) (hn : n ≤ C) (d : Mat Nat C) (t c : Nat) :
    (shiftLoop dst src n d).get t c =
      if t = dst ∧ c < n ∧ dst < d.rows then d.get src (c + 1) else d.get t c := by
  induction n generalizing t c with
  | zero => simp [shiftLoop]
  | succ n ih =>
    have hstep : shiftLoop dst src (n + 1) d =
        (shiftLoop dst src n d).set dst n ((shiftLoop dst src n d).get src (n + 1)) := by
      unfold shiftLoop; rw [foldl_range_succ]
    rw [hstep, Mat.get_set, shiftLoop_rows, ih (by omega) t c, ih (by omega) src (n + 1)]
    have hread : (if src = dst ∧ n + 1 < n ∧ dst < d.rows then d.get src (n + 1 + 1) else d.get src (n + 1))
        = d.get src (n + 1) := by
      rw [if_neg]; intro h; omega
    rw [hread]
    by_cases h1 : t = dst ∧ c = n ∧ dst < d.rows ∧ n < C
    · obtain ⟨ha, hb, hc, hd⟩ := h1
      subst ha; subst hb
      rw [if_pos ⟨rfl, rfl, hc, hd⟩, if_pos ⟨rfl, by omega, hc⟩]
    · rw [if_neg h1]
      by_cases h2 : t = dst ∧ c < n ∧ dst < d.rows
      · rw [if_pos h2, if_pos ⟨h2.1, by omega, h2.2.2⟩]
      · rw [if_neg h2, if_neg]
        intro h3
        by_cases hcn : c = n
        · exact h1 ⟨h3.1, hcn, h3.2.2, by omega⟩
        · exact h2 ⟨h3.1, by omega, h3.2.2⟩

end Striped
end LMV

namespace LMV
namespace Striped

variable {C : Nat}

/-- `for c in 0..nc { data[r0][c] = g c }` -/
def rowWrite (r0 nc : Nat) (g : Nat → Nat) (d : Mat Nat C) : Mat Nat C :=
  (List.range nc).foldl (fun d c => d.set r0 c (g c)) d

theorem rowWrite_rows (r0 nc : Nat) (g : Nat → Nat) (d : Mat Nat C) :
    (rowWrite r0 nc g d).rows = d.rows := by
  unfold rowWrite
  induction nc with
  | zero => rfl
  | succ n ih => rw [foldl_range_succ]; simp [ih]

theorem rowWrite_get (r0 nc : Nat) (hnc : nc ≤ C) (g : Nat → Nat) (d : Mat Nat C) (r c : Nat) :
    (rowWrite r0 nc g d).get r c =
      if r = r0 ∧ c < nc ∧ r0 < d.rows then g c else d.get r c := by
  induction nc with
  | zero => simp [rowWrite]
  | succ n ih =>
    have hstep : rowWrite r0 (n + 1) g d = (rowWrite r0 n g d).set r0 n (g n) := by
      unfold rowWrite; rw [foldl_range_succ]
    rw [hstep, Mat.get_set, rowWrite_rows, ih (by omega)]
    by_cases h1 : r = r0 ∧ c = n ∧ r0 < d.rows ∧ n < C
    · obtain ⟨ha, hb, hc, hd⟩ := h1
      subst ha; subst hb
      rw [if_pos ⟨rfl, rfl, hc, hd⟩, if_pos ⟨rfl, by omega, hc⟩]
    · rw [if_neg h1]
      by_cases h2 : r = r0 ∧ c < n ∧ r0 < d.rows
      · rw [if_pos h2, if_pos ⟨h2.1, by omega, h2.2.2⟩]
      · rw [if_neg h2, if_neg]
        intro h3
        by_cases hcn : c = n
        · exact h1 ⟨h3.1, hcn, h3.2.2, by omega⟩
        · exact h2 ⟨h3.1, by omega, h3.2.2⟩

/-- `for k in 0..nr { for c in 0..nc { data[i + k][c] = f k c } }` -/
def rectWrite (i nr nc : Nat) (f : Nat → Nat → Nat) (d : Mat Nat C) : Mat Nat C :=
  (List.range nr).foldl (fun d k => rowWrite (i + k) nc (f k) d) d

theorem rectWrite_rows (i nr nc : Nat) (f : Nat → Nat → Nat) (d : Mat Nat C) :
    (rectWrite i nr nc f d).rows = d.rows := by
  unfold rectWrite
  induction nr with
  | zero => rfl
  | succ n ih => rw [foldl_range_succ, rowWrite_rows, ih]

theorem rectWrite_get (i nr nc : Nat) (hnc : nc ≤ C) (f : Nat → Nat → Nat) (d : Mat Nat C)
    (r c : Nat) :
    (rectWrite i nr nc f d).get r c =
      if i ≤ r ∧ r < i + nr ∧ c < nc ∧ r < d.rows then f (r - i) c else d.get r c := by
  induction nr with
  | zero =>
    simp only [rectWrite, List.range_zero, List.foldl_nil]
    rw [if_neg]; omega
  | succ n ih =>
    have hstep : rectWrite i (n + 1) nc f d = rowWrite (i + n) nc (f n) (rectWrite i n nc f d) := by
      unfold rectWrite; rw [foldl_range_succ]
    rw [hstep, rowWrite_get _ _ hnc, rectWrite_rows, ih]
    by_cases h1 : r = i + n ∧ c < nc ∧ i + n < d.rows
    · obtain ⟨ha, hb, hc⟩ := h1
      rw [if_pos ⟨ha, hb, hc⟩, if_pos ⟨by omega, by omega, hb, by omega⟩]
      have : r - i = n := by omega
      rw [this]
    · rw [if_neg h1]
      by_cases h2 : i ≤ r ∧ r < i + n ∧ c < nc ∧ r < d.rows
      · rw [if_pos h2, if_pos ⟨h2.1, by omega, h2.2.2.1, h2.2.2.2⟩]
      · rw [if_neg h2, if_neg]
        intro h3
        by_cases hrn : r = i + n
        · exact h1 ⟨hrn, h3.2.2.1, by omega⟩
        · exact h2 ⟨h3.1, by omega, h3.2.2.1, h3.2.2.2⟩

end Striped
end LMV

namespace LMV
namespace Striped

variable {C : Nat}

/-- `for c in 0..nc { if p c { data[r0][c] = g c } }` -/
def condRowWrite (r0 nc : Nat) (p : Nat → Bool) (g : Nat → Nat) (d : Mat Nat C) : Mat Nat C :=
  (List.range nc).foldl (fun d c => if p c then d.set r0 c (g c) else d) d

theorem condRowWrite_rows (r0 nc : Nat) (p : Nat → Bool) (g : Nat → Nat) (d : Mat Nat C) :
    (condRowWrite r0 nc p g d).rows = d.rows := by
  unfold condRowWrite
  induction nc with
  | zero => rfl
  | succ n ih =>
    rw [foldl_range_succ]
    split
    · simp [ih]
    · exact ih

theorem condRowWrite_get (r0 nc : Nat) (hnc : nc ≤ C) (p : Nat → Bool) (g : Nat → Nat)
    (d : Mat Nat C) (r c : Nat) :
    (condRowWrite r0 nc p g d).get r c =
      if r = r0 ∧ c < nc ∧ r0 < d.rows ∧ p c = true then g c else d.get r c := by
  induction nc with
  | zero => simp [condRowWrite]
  | succ n ih =>
    have hstep : condRowWrite r0 (n + 1) p g d =
        if p n then (condRowWrite r0 n p g d).set r0 n (g n) else condRowWrite r0 n p g d := by
      unfold condRowWrite; rw [foldl_range_succ]
    rw [hstep]
    by_cases hp : p n = true
    · rw [if_pos hp, Mat.get_set, condRowWrite_rows, ih (by omega)]
      by_cases h1 : r = r0 ∧ c = n ∧ r0 < d.rows ∧ n < C
      · obtain ⟨ha, hb, hc, hd⟩ := h1
        subst ha; subst hb
        rw [if_pos ⟨rfl, rfl, hc, hd⟩, if_pos ⟨rfl, by omega, hc, hp⟩]
      · rw [if_neg h1]
        by_cases h2 : r = r0 ∧ c < n ∧ r0 < d.rows ∧ p c = true
        · rw [if_pos h2, if_pos ⟨h2.1, by omega, h2.2.2.1, h2.2.2.2⟩]
        · rw [if_neg h2, if_neg]
          intro h3
          by_cases hcn : c = n
          · exact h1 ⟨h3.1, hcn, h3.2.2.1, by omega⟩
          · exact h2 ⟨h3.1, by omega, h3.2.2.1, h3.2.2.2⟩
    · rw [if_neg hp, ih (by omega)]
      by_cases h2 : r = r0 ∧ c < n ∧ r0 < d.rows ∧ p c = true
      · rw [if_pos h2, if_pos ⟨h2.1, by omega, h2.2.2.1, h2.2.2.2⟩]
      · rw [if_neg h2, if_neg]
        intro h3
        by_cases hcn : c = n
        · rw [hcn] at h3; exact hp h3.2.2.2
        · exact h2 ⟨h3.1, by omega, h3.2.2.1, h3.2.2.2⟩

/-- `for k in 0..nr { for c in 0..nc { if p k c { data[i + k][c] = f k c } } }` -/
def condRectWrite (i nr nc : Nat) (p : Nat → Nat → Bool) (f : Nat → Nat → Nat) (d : Mat Nat C) :
    Mat Nat C :=
  (List.range nr).foldl (fun d k => condRowWrite (i + k) nc (p k) (f k) d) d

theorem condRectWrite_rows (i nr nc : Nat) (p : Nat → Nat → Bool) (f : Nat → Nat → Nat)
    (d : Mat Nat C) : (condRectWrite i nr nc p f d).rows = d.rows := by
  unfold condRectWrite
  induction nr with
  | zero => rfl
  | succ n ih => rw [foldl_range_succ, condRowWrite_rows, ih]

theorem condRectWrite_get (i nr nc : Nat) (hnc : nc ≤ C) (p : Nat → Nat → Bool)
    (f : Nat → Nat → Nat) (d : Mat Nat C) (r c : Nat) :
    (condRectWrite i nr nc p f d).get r c =
      if i ≤ r ∧ r < i + nr ∧ c < nc ∧ r < d.rows ∧ p (r - i) c = true then f (r - i) c
      else d.get r c := by
  induction nr with
  | zero =>
    simp only [condRectWrite, List.range_zero, List.foldl_nil]
    rw [if_neg]; omega
  | succ n ih =>
    have hstep : condRectWrite i (n + 1) nc p f d =
        condRowWrite (i + n) nc (p n) (f n) (condRectWrite i n nc p f d) := by
      unfold condRectWrite; rw [foldl_range_succ]
    rw [hstep, condRowWrite_get _ _ hnc, condRectWrite_rows, ih]
    by_cases h1 : r = i + n ∧ c < nc ∧ i + n < d.rows ∧ p n c = true
    · obtain ⟨ha, hb, hc, hd⟩ := h1
      have e : r - i = n := by omega
      rw [if_pos ⟨ha, hb, hc, hd⟩, if_pos ⟨by omega, by omega, hb, by omega, by rw [e]; exact hd⟩, e]
    · rw [if_neg h1]
      by_cases h2 : i ≤ r ∧ r < i + n ∧ c < nc ∧ r < d.rows ∧ p (r - i) c = true
      · rw [if_pos h2, if_pos ⟨h2.1, by omega, h2.2.2.1, h2.2.2.2.1, h2.2.2.2.2⟩]
      · rw [if_neg h2, if_neg]
        intro h3
        by_cases hrn : r = i + n
        · have e : r - i = n := by omega
          rw [e] at h3
          exact h1 ⟨hrn, h3.2.2.1, by omega, h3.2.2.2.2⟩
        · exact h2 ⟨h3.1, by omega, h3.2.2.1, h3.2.2.2.1, h3.2.2.2.2⟩

end Striped
end LMV
