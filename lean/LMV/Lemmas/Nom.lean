/-
  LMV.Lemmas.Nom — two facts about every parser built from the ported combinators:
  it never returns `Incomplete` (all of them are `complete` variants), and what it returns as the
  rest is never longer than its input (`Good`); `Strict` parsers consume at least one byte.
  Core Lean only.
-/
import LMV.Model.Nom

namespace LMV
namespace Nom

open Io

variable {α β γ : Type}

/-- never `Incomplete`, and the rest is no longer than the input -/
structure Good (f : Parser α) : Prop where
  noInc : ∀ i, f i ≠ .incomplete
  le : ∀ i r v, f i = .ok r v → r.length ≤ i.length

/-- a successful parse consumes at least one byte -/
def Strict (f : Parser α) : Prop := ∀ i r v, f i = .ok r v → r.length < i.length

theorem length_dropWhile_le (p : UInt8 → Bool) (l : Bytes) : (l.dropWhile p).length ≤ l.length := by
  induction l with
  | nil => simp
  | cons b bs ih =>
    simp only [List.dropWhile_cons]
    split
    · simp; omega
    · simp

/-! ### primitives -/

theorem good_tag (t : Bytes) : Good (tag t) := by
  constructor
  · intro i; unfold tag; split <;> simp
  · intro i r v h; unfold tag at h
    split at h
    · cases h; simp
    · cases h

theorem strict_tag (t : Bytes) (ht : t ≠ []) : Strict (tag t) := by
  intro i r v h; unfold tag at h
  split at h
  · rename_i hp
    cases h
    have hlen : t.length ≤ i.length := (List.isPrefixOf_iff_prefix.mp hp).length_le
    have : 0 < t.length := List.length_pos_iff.mpr ht
    simp; omega
  · cases h

theorem good_takeWhile (p : UInt8 → Bool) : Good (takeWhile p) := by
  constructor
  · intro i; simp [takeWhile]
  · intro i r v h; simp only [takeWhile, PRes.ok.injEq] at h
    rw [← h.1]; exact length_dropWhile_le p i

theorem good_takeTill (p : UInt8 → Bool) : Good (takeTill p) := by
  constructor
  · intro i; simp [takeTill]
  · intro i r v h; simp only [takeTill, PRes.ok.injEq] at h
    rw [← h.1]; exact length_dropWhile_le _ i

theorem good_takeUntilByte (d : UInt8) : Good (takeUntilByte d) := by
  constructor
  · intro i; unfold takeUntilByte; split <;> simp
  · intro i r v h; unfold takeUntilByte at h
    split at h
    · simp only [PRes.ok.injEq] at h; rw [← h.1]; exact length_dropWhile_le _ i
    · cases h

theorem splitChars_le (n : Nat) (i p r : Bytes) (h : splitChars n i = some (p, r)) :
    r.length ≤ i.length ∧ (0 < n → r.length < i.length) := by
  induction n generalizing i p r with
  | zero => simp only [splitChars, Option.some.injEq, Prod.mk.injEq] at h; simp [h.2]
  | succ n ih =>
    cases i with
    | nil => simp [splitChars] at h
    | cons b rest =>
      simp only [splitChars] at h
      split at h
      · rename_i p' r' hs
        simp only [Option.some.injEq, Prod.mk.injEq] at h
        obtain ⟨h1, _⟩ := ih _ _ _ hs
        have : (rest.drop (charLen b - 1)).length ≤ rest.length := by simp
        rw [← h.2]
        simp; omega
      · cases h

theorem good_takeChars (n : Nat) : Good (takeChars n) := by
  constructor
  · intro i; unfold takeChars; split <;> simp
  · intro i r v h; unfold takeChars at h
    split at h
    · rename_i p r' hs
      cases h
      exact (splitChars_le n i _ _ hs).1
    · cases h

theorem strict_takeChars (n : Nat) (hn : 0 < n) : Strict (takeChars n) := by
  intro i r v h; unfold takeChars at h
  split at h
  · rename_i p r' hs
    cases h
    exact (splitChars_le n i _ _ hs).2 hn
  · cases h

theorem good_space0 : Good space0 := good_takeWhile _

theorem good_space1 : Good space1 := by
  constructor
  · intro i; unfold space1; split
    · split <;> simp
    · simp
  · intro i r v h; unfold space1 at h
    split at h
    · split at h
      · simp only [PRes.ok.injEq] at h; rw [← h.1]; exact length_dropWhile_le _ _
      · cases h
    · cases h

theorem strict_space1 : Strict space1 := by
  intro i r v h; unfold space1 at h
  split at h
  · rename_i b bs
    split at h
    · rename_i hb
      simp only [PRes.ok.injEq] at h; rw [← h.1]
      simp only [List.dropWhile_cons, hb, if_true]
      have := length_dropWhile_le isSpace bs
      simp; omega
    · cases h
  · cases h

theorem good_digit1 : Good digit1 := by
  constructor
  · intro i; unfold digit1; split
    · split <;> simp
    · simp
  · intro i r v h; unfold digit1 at h
    split at h
    · split at h
      · simp only [PRes.ok.injEq] at h; rw [← h.1]; exact length_dropWhile_le _ _
      · cases h
    · cases h

theorem good_lineEnding : Good lineEnding := by
  constructor
  · intro i; unfold lineEnding; split <;> simp
  · intro i r v h; unfold lineEnding at h
    split at h
    · cases h; simp
    · cases h; simp; omega
    · cases h

theorem strict_lineEnding : Strict lineEnding := by
  intro i r v h; unfold lineEnding at h
  split at h
  · cases h; simp
  · cases h; simp; omega
  · cases h

theorem good_notLineEnding : Good notLineEnding := by
  constructor
  · intro i; simp only [notLineEnding]; split
    · simp
    · split <;> simp
    · simp
  · intro i r v h; simp only [notLineEnding] at h
    split at h
    · cases h; simp
    · split at h
      · simp only [PRes.ok.injEq] at h; rw [← h.1]; exact length_dropWhile_le _ _
      · cases h
    · simp only [PRes.ok.injEq] at h; rw [← h.1]; exact length_dropWhile_le _ _

theorem good_char (c : UInt8) : Good (char c) := by
  constructor
  · intro i; unfold char; split
    · split <;> simp
    · simp
  · intro i r v h; unfold char at h
    split at h
    · split at h
      · cases h; simp
      · cases h
    · cases h

theorem strict_char (c : UInt8) : Strict (char c) := by
  intro i r v h; unfold char at h
  split at h
  · split at h
    · cases h; simp
    · cases h
  · cases h

theorem good_anychar : Good anychar := by
  constructor
  · intro i; unfold anychar; split <;> simp
  · intro i r v h; unfold anychar at h
    split at h
    · cases h; simp; omega
    · cases h

theorem strict_anychar : Strict anychar := by
  intro i r v h; unfold anychar at h
  split at h
  · cases h; simp; omega
  · cases h

theorem good_eof : Good eof := by
  constructor
  · intro i; unfold eof; split <;> simp
  · intro i r v h; unfold eof at h
    split at h
    · cases h; simp
    · cases h

theorem uintLoop_good (bound : Nat) (i : Bytes) (v : Nat) :
    uintLoop bound i v ≠ .incomplete ∧ ∀ r w, uintLoop bound i v = .ok r w → r.length ≤ i.length := by
  induction i generalizing v with
  | nil => simp [uintLoop]
  | cons b bs ih =>
    simp only [uintLoop]
    split
    · split
      · obtain ⟨h1, h2⟩ := ih (v * 10 + (b.toNat - 48))
        exact ⟨h1, fun r w h => by have := h2 r w h; simp; omega⟩
      · simp
    · simp

theorem good_uint (bound : Nat) : Good (uint bound) := by
  constructor
  · intro i; unfold uint; split
    · simp
    · split
      · exact (uintLoop_good bound _ 0).1
      · simp
  · intro i r v h; unfold uint at h
    split at h
    · cases h
    · split at h
      · exact (uintLoop_good bound _ 0).2 r v h
      · cases h

theorem uintLoop_strict (bound : Nat) (b : UInt8) (bs : Bytes) (v : Nat) (hb : isDigit b = true) :
    ∀ r w, uintLoop bound (b :: bs) v = .ok r w → r.length < (b :: bs).length := by
  intro r w h
  simp only [uintLoop, hb, if_true] at h
  split at h
  · have := (uintLoop_good bound bs _).2 r w h
    simp; omega
  · cases h

theorem strict_uint (bound : Nat) : Strict (uint bound) := by
  intro i r v h; unfold uint at h
  split at h
  · cases h
  · split at h
    · rename_i hb
      exact uintLoop_strict bound _ _ 0 hb r v h
    · cases h

/-! ### combinators -/

theorem good_pmap {f : Parser α} (hf : Good f) (g : α → β) : Good (pmap f g) := by
  constructor
  · intro i; unfold pmap
    have := hf.noInc i
    cases h : f i <;> simp_all [PRes.map]
  · intro i r v h; unfold pmap at h
    cases h' : f i with
    | ok r' v' => rw [h'] at h; simp only [PRes.map, PRes.ok.injEq] at h; rw [← h.1]; exact hf.le i r' v' h'
    | _ => rw [h'] at h; simp [PRes.map] at h

theorem strict_pmap {f : Parser α} (hf : Strict f) (g : α → β) : Strict (pmap f g) := by
  intro i r v h; unfold pmap at h
  cases h' : f i with
  | ok r' v' => rw [h'] at h; simp only [PRes.map, PRes.ok.injEq] at h; rw [← h.1]; exact hf i r' v' h'
  | _ => rw [h'] at h; simp [PRes.map] at h

theorem good_opt {f : Parser α} (hf : Good f) : Good (opt f) := by
  constructor
  · intro i; unfold opt
    have := hf.noInc i
    cases h : f i <;> simp_all
  · intro i r v h; unfold opt at h
    cases h' : f i with
    | ok r' v' => rw [h'] at h; simp only [PRes.ok.injEq] at h; rw [← h.1]; exact hf.le i r' v' h'
    | err => rw [h'] at h; simp only [PRes.ok.injEq] at h; rw [← h.1]; exact Nat.le_refl _
    | _ => rw [h'] at h; simp at h

theorem good_alt {f g : Parser α} (hf : Good f) (hg : Good g) : Good (alt f g) := by
  constructor
  · intro i; unfold alt
    have h1 := hf.noInc i
    have h2 := hg.noInc i
    cases h : f i <;> simp_all
  · intro i r v h; unfold alt at h
    cases h' : f i with
    | ok r' v' => rw [h'] at h; simp only [PRes.ok.injEq] at h; rw [← h.1]; exact hf.le i r' v' h'
    | err => rw [h'] at h; exact hg.le i r v h
    | _ => rw [h'] at h; simp at h

theorem strict_alt {f g : Parser α} (hf : Strict f) (hg : Strict g) : Strict (alt f g) := by
  intro i r v h; unfold alt at h
  cases h' : f i with
  | ok r' v' => rw [h'] at h; simp only [PRes.ok.injEq] at h; rw [← h.1]; exact hf i r' v' h'
  | err => rw [h'] at h; exact hg i r v h
  | _ => rw [h'] at h; simp at h

theorem good_mapRes {f : Parser α} (hf : Good f) (g : α → Option β) : Good (mapRes f g) := by
  constructor
  · intro i; unfold mapRes
    have := hf.noInc i
    cases h : f i with
    | ok r v => simp only; split <;> simp
    | _ => simp_all
  · intro i r v h; unfold mapRes at h
    cases h' : f i with
    | ok r' v' =>
      rw [h'] at h; simp only at h
      split at h
      · simp only [PRes.ok.injEq] at h; rw [← h.1]; exact hf.le i r' v' h'
      · cases h
    | _ => rw [h'] at h; simp at h

theorem strict_mapRes {f : Parser α} (hf : Strict f) (g : α → Option β) : Strict (mapRes f g) := by
  intro i r v h; unfold mapRes at h
  cases h' : f i with
  | ok r' v' =>
    rw [h'] at h; simp only at h
    split at h
    · simp only [PRes.ok.injEq] at h; rw [← h.1]; exact hf i r' v' h'
    · cases h
  | _ => rw [h'] at h; simp at h

theorem pair_ok {f : Parser α} {g : Parser β} {i r : Bytes} {v : α × β} (h : pair f g i = .ok r v) :
    ∃ r1, f i = .ok r1 v.1 ∧ g r1 = .ok r v.2 := by
  unfold pair at h
  cases h1 : f i with
  | ok r1 a =>
    rw [h1] at h; simp only at h
    cases h2 : g r1 with
    | ok r2 b => rw [h2] at h; simp only [PRes.ok.injEq] at h; exact ⟨r1, by rw [← h.2], by rw [h2, ← h.1, ← h.2]⟩
    | _ => rw [h2] at h; simp at h
  | _ => rw [h1] at h; simp at h

theorem good_pair {f : Parser α} {g : Parser β} (hf : Good f) (hg : Good g) : Good (pair f g) := by
  constructor
  · intro i; unfold pair
    have h1 := hf.noInc i
    cases h : f i with
    | ok r a =>
      simp only
      have h2 := hg.noInc r
      cases h' : g r <;> simp_all
    | _ => simp_all
  · intro i r v h
    obtain ⟨r1, h1, h2⟩ := pair_ok h
    have := hf.le _ _ _ h1
    have := hg.le _ _ _ h2
    omega

theorem strict_pair_left {f : Parser α} {g : Parser β} (hf : Strict f) (hg : Good g) :
    Strict (pair f g) := by
  intro i r v h
  obtain ⟨r1, h1, h2⟩ := pair_ok h
  have := hf _ _ _ h1
  have := hg.le _ _ _ h2
  omega

theorem strict_pair_right {f : Parser α} {g : Parser β} (hf : Good f) (hg : Strict g) :
    Strict (pair f g) := by
  intro i r v h
  obtain ⟨r1, h1, h2⟩ := pair_ok h
  have := hf.le _ _ _ h1
  have := hg _ _ _ h2
  omega

theorem good_preceded {f : Parser α} {g : Parser β} (hf : Good f) (hg : Good g) :
    Good (preceded f g) := good_pmap (good_pair hf hg) _

theorem good_terminated {f : Parser α} {g : Parser β} (hf : Good f) (hg : Good g) :
    Good (terminated f g) := good_pmap (good_pair hf hg) _

theorem good_delimited {f : Parser α} {g : Parser β} {h : Parser γ} (hf : Good f) (hg : Good g)
    (hh : Good h) : Good (delimited f g h) := good_preceded hf (good_terminated hg hh)

theorem good_separatedPair {f : Parser α} {s : Parser β} {g : Parser γ} (hf : Good f) (hs : Good s)
    (hg : Good g) : Good (separatedPair f s g) := good_pair hf (good_preceded hs hg)

theorem good_count {f : Parser α} (hf : Good f) (k : Nat) : Good (count f k) := by
  induction k with
  | zero => exact ⟨by intro i; simp [count], by intro i r v h; simp only [count, PRes.ok.injEq] at h; rw [← h.1]; exact Nat.le_refl _⟩
  | succ k ih =>
    constructor
    · intro i; simp only [count]
      have h1 := hf.noInc i
      cases h : f i with
      | ok r a =>
        simp only
        have h2 := ih.noInc r
        cases h' : count f k r <;> simp_all
      | _ => simp_all
    · intro i r v h; simp only [count] at h
      cases h1 : f i with
      | ok r1 a =>
        rw [h1] at h; simp only at h
        cases h2 : count f k r1 with
        | ok r2 b =>
          rw [h2] at h; simp only [PRes.ok.injEq] at h
          have := hf.le _ _ _ h1
          have := ih.le _ _ _ h2
          rw [← h.1]; omega
        | _ => rw [h2] at h; simp at h
      | _ => rw [h1] at h; simp at h

theorem manyLoop_good {f : Parser α} (hf : Good f) (i : Bytes) (acc : List α) :
    manyLoop f i acc ≠ .incomplete ∧ ∀ r v, manyLoop f i acc = .ok r v → r.length ≤ i.length := by
  induction hn : i.length using Nat.strongRecOn generalizing i acc with
  | _ n ih =>
    subst hn
    rw [manyLoop]
    have h0 := hf.noInc i
    cases h : f i with
    | ok i1 o =>
      simp only
      split
      · rename_i hlt
        obtain ⟨h1, h2⟩ := ih _ hlt i1 (o :: acc) rfl
        exact ⟨h1, fun r v hr => by have := h2 r v hr; omega⟩
      · simp
    | err => simp
    | fail => simp
    | incomplete => exact absurd h h0

theorem good_many1 {f : Parser α} (hf : Good f) : Good (many1 f) := by
  constructor
  · intro i; unfold many1
    have h0 := hf.noInc i
    cases h : f i with
    | ok i1 o => exact (manyLoop_good hf i1 [o]).1
    | err => simp
    | fail => simp
    | incomplete => exact absurd h h0
  · intro i r v h; unfold many1 at h
    cases h1 : f i with
    | ok i1 o =>
      rw [h1] at h
      have := (manyLoop_good hf i1 [o]).2 r v h
      have := hf.le _ _ _ h1
      omega
    | _ => rw [h1] at h; simp at h

theorem strict_many1 {f : Parser α} (hf : Good f) (hs : Strict f) : Strict (many1 f) := by
  intro i r v h; unfold many1 at h
  cases h1 : f i with
  | ok i1 o =>
    rw [h1] at h
    have := (manyLoop_good hf i1 [o]).2 r v h
    have := hs _ _ _ h1
    omega
  | _ => rw [h1] at h; simp at h

theorem sepLoop_good {s : Parser β} {f : Parser α} (hs : Good s) (hf : Good f) (i : Bytes)
    (acc : List α) :
    sepLoop s f i acc ≠ .incomplete ∧ ∀ r v, sepLoop s f i acc = .ok r v → r.length ≤ i.length := by
  induction hn : i.length using Nat.strongRecOn generalizing i acc with
  | _ n ih =>
    subst hn
    rw [sepLoop]
    have h0 := hs.noInc i
    cases h : s i with
    | ok i1 _ =>
      simp only
      split
      · rename_i hlt
        have h0' := hf.noInc i1
        cases h' : f i1 with
        | ok i2 o =>
          simp only
          split
          · rename_i hle
            obtain ⟨h1, h2⟩ := ih i2.length (by omega) i2 (o :: acc) rfl
            exact ⟨h1, fun r v hr => by have := h2 r v hr; omega⟩
          · simp
        | err => simp
        | fail => simp
        | incomplete => exact absurd h' h0'
      · simp
    | err => simp
    | fail => simp
    | incomplete => exact absurd h h0

theorem good_sepList0 {s : Parser β} {f : Parser α} (hs : Good s) (hf : Good f) :
    Good (sepList0 s f) := by
  constructor
  · intro i; unfold sepList0
    have h0 := hf.noInc i
    cases h : f i with
    | ok i1 o => exact (sepLoop_good hs hf i1 [o]).1
    | err => simp
    | fail => simp
    | incomplete => exact absurd h h0
  · intro i r v h; unfold sepList0 at h
    cases h1 : f i with
    | ok i1 o =>
      rw [h1] at h
      have := (sepLoop_good hs hf i1 [o]).2 r v h
      have := hf.le _ _ _ h1
      omega
    | err => rw [h1] at h; simp only [PRes.ok.injEq] at h; rw [← h.1]; exact Nat.le_refl _
    | _ => rw [h1] at h; simp at h

theorem good_sepList1 {s : Parser β} {f : Parser α} (hs : Good s) (hf : Good f) :
    Good (sepList1 s f) := by
  constructor
  · intro i; unfold sepList1
    have h0 := hf.noInc i
    cases h : f i with
    | ok i1 o => exact (sepLoop_good hs hf i1 [o]).1
    | err => simp
    | fail => simp
    | incomplete => exact absurd h h0
  · intro i r v h; unfold sepList1 at h
    cases h1 : f i with
    | ok i1 o =>
      rw [h1] at h
      have := (sepLoop_good hs hf i1 [o]).2 r v h
      have := hf.le _ _ _ h1
      omega
    | _ => rw [h1] at h; simp at h

theorem strict_sepList1 {s : Parser β} {f : Parser α} (hs : Good s) (hf : Good f) (hst : Strict f) :
    Strict (sepList1 s f) := by
  intro i r v h; unfold sepList1 at h
  cases h1 : f i with
  | ok i1 o =>
    rw [h1] at h
    have := (sepLoop_good hs hf i1 [o]).2 r v h
    have := hst _ _ _ h1
    omega
  | _ => rw [h1] at h; simp at h

/-! ### float -/

theorem length_optSign_le (i : Bytes) : (optSign i).length ≤ i.length := by
  unfold optSign; split
  · split <;> simp
  · simp

theorem mantissaEnd_le (i i2 : Bytes) (h : mantissaEnd i = some i2) : i2.length ≤ i.length := by
  unfold mantissaEnd at h
  split at h
  · rename_i b r
    split at h
    · split at h
      · rename_i r2 hr2
        simp only [Option.some.injEq] at h
        have h3 := length_dropWhile_le isDigit (b :: r)
        have h4 := length_dropWhile_le isDigit r2
        rw [hr2] at h3
        rw [← h]; simp at h3 ⊢; omega
      · simp only [Option.some.injEq] at h
        rw [← h]; exact length_dropWhile_le _ _
    · split at h
      · split at h
        · rename_i c tl
          split at h
          · simp only [Option.some.injEq] at h
            have := length_dropWhile_le isDigit (c :: tl)
            rw [← h]; simp at this ⊢; omega
          · cases h
        · cases h
      · cases h
  · cases h

theorem exponentEnd_good (i : Bytes) :
    exponentEnd i ≠ .incomplete ∧ ∀ r v, exponentEnd i = .ok r v → r.length ≤ i.length := by
  unfold exponentEnd
  split
  · rename_i b r
    split
    · have h5 := length_optSign_le r
      split
      · rename_i c r1 hc
        split
        · refine ⟨by simp, ?_⟩
          intro r' v h
          simp only [PRes.ok.injEq] at h
          have := length_dropWhile_le isDigit (c :: r1)
          rw [hc] at h5
          rw [← h.1]; simp at h5 this ⊢; omega
        · simp
      · simp
    · refine ⟨by simp, ?_⟩
      intro r' v h
      simp only [PRes.ok.injEq] at h
      rw [← h.1]; exact Nat.le_refl _
  · refine ⟨by simp, ?_⟩
    intro r' v h
    simp only [PRes.ok.injEq] at h
    rw [← h.1]; simp

theorem floatEnd_good (i : Bytes) :
    floatEnd i ≠ .incomplete ∧ ∀ r v, floatEnd i = .ok r v → r.length ≤ i.length := by
  have hs := length_optSign_le i
  unfold floatEnd
  cases hm : mantissaEnd (optSign i) with
  | none => simp
  | some i2 =>
    have hle := mantissaEnd_le _ _ hm
    obtain ⟨h1, h2⟩ := exponentEnd_good i2
    exact ⟨h1, fun r v h => by have := h2 r v h; omega⟩

theorem good_tagNoCase (t : Bytes) : Good (tagNoCase t) := by
  constructor
  · intro i; unfold tagNoCase; split <;> simp
  · intro i r v h; unfold tagNoCase at h
    split at h
    · cases h; simp
    · cases h

theorem good_recognizeFloat : Good recognizeFloat := by
  have halt := good_alt (good_tagNoCase [0x6E, 0x61, 0x6E])
      (good_alt (good_tagNoCase [0x69, 0x6E, 0x66])
        (good_tagNoCase [0x69, 0x6E, 0x66, 0x69, 0x6E, 0x69, 0x74, 0x79]))
  constructor
  · intro i; unfold recognizeFloat
    have := (floatEnd_good i).1
    cases h : floatEnd i with
    | ok r v => simp
    | err => exact halt.noInc i
    | fail => simp
    | incomplete => exact absurd h this
  · intro i r v h; unfold recognizeFloat at h
    cases h' : floatEnd i with
    | ok r' v' =>
      rw [h'] at h; simp only [PRes.ok.injEq] at h
      rw [← h.1]; exact (floatEnd_good i).2 r' v' h'
    | err => rw [h'] at h; exact halt.le i r v h
    | fail => rw [h'] at h; cases h
    | incomplete => rw [h'] at h; cases h

theorem good_float (conv : Bytes → Option α) : Good (float conv) := good_mapRes good_recognizeFloat conv

end Nom
end LMV
