/-
  LMV.Lemmas.StripeNet — the AVX2 32×32 unpack network regenerated from avx2.rs IS the transpose.

  `network_is_transpose` is a kernel evaluation over the complete finite table (32 stores × 32
  columns) of the index map of the extracted network; `run_eq_readPos` lifts the index-map
  semantics to executing the steps on real data of ANY carrier type.
-/
import LMV.Model.StripeAvx2

namespace LMV
namespace StripeAvx2

open Isa

/-- executing the steps on data = reading the initial register file through the index map -/
theorem run_eq_readPos {α : Type} (zero : α) (ss : List Step) (r : Nat → Nat → α) (reg byte : Nat) :
    run zero ss r reg byte = readPos zero r (srcOfAll ss (some (reg, byte))) := by
  induction ss generalizing r with
  | nil => rfl
  | cons s ss ih =>
    simp only [run, srcOfAll]
    rw [ih]
    -- one step: reading the stepped file at `p` is reading the old file at `s.src p`
    generalize srcOfAll ss (some (reg, byte)) = p
    cases p with
    | none => rfl
    | some q =>
      obtain ⟨rg, b⟩ := q
      simp only [readPos, Step.run, Step.src, Isa.apply]
      by_cases h1 : rg = s.ra
      · simp only [h1, if_true]
        rcases hsrc : s.opA.src b with ⟨side, k⟩
        cases side <;> simp [readPos]
      · by_cases h2 : rg = s.rb
        · simp only [h1, h2, if_false, if_true]
          by_cases h3 : s.rb = s.ra
          · exact absurd (h2.trans h3) h1
          · simp only [h3, if_false]
            rcases hsrc : s.opB.src b with ⟨side, k⟩
            cases side <;> simp [readPos]
        · simp [h1, h2, readPos]

/-- the complete table: store number `k` writes row `i + k`, and its column `c` receives byte `k`
    of load register `c` -/
def TransposeTable : Prop :=
  Gen.Avx2Stripe.stores.length = 32 ∧
  (∀ p, p < 1024 → cellSrc (p / 32) (p % 32) = some (p / 32, some (p % 32, p / 32))) ∧
  (∀ j, j < 32 → loadMul j = some j) ∧
  Gen.Avx2Stripe.loopStrict = false ∧ Gen.Avx2Stripe.srcInc = 32 ∧ Gen.Avx2Stripe.outInc = 32 ∧
  Gen.Avx2Stripe.srcGuard = some 31

instance : Decidable TransposeTable := by unfold TransposeTable; infer_instance

theorem network_is_transpose : TransposeTable := by decide +kernel

theorem cellSrc_transpose (k c : Nat) (hk : k < 32) (hc : c < 32) :
    cellSrc k c = some (k, some (c, k)) := by
  have h := network_is_transpose.2.1 (k * 32 + c) (by omega)
  have e1 : (k * 32 + c) / 32 = k := by omega
  have e2 : (k * 32 + c) % 32 = c := by omega
  rw [e1, e2] at h; exact h

end StripeAvx2
end LMV
