/-
  LMV.Lemmas.StripeAvx2 — closed forms of the block body and the block loop of the AVX2 striping
  kernel, from the transpose table.
-/
import LMV.Lemmas.Stripe
import LMV.Lemmas.StripeNet

namespace LMV
namespace StripeAvx2

open Striped

theorem foldl_ext_mem {α β : Type} (f g : α → β → α) (l : List β)
    (H : ∀ a, ∀ b ∈ l, f a b = g a b) (a : α) : l.foldl f a = l.foldl g a := by
  induction l generalizing a with
  | nil => rfl
  | cons x xs ih =>
    simp only [List.foldl_cons]
    rw [H a x (by simp), ih (fun a b hb => H a b (by simp [hb]))]

/-- what the 32 loads of the block at row offset `i` deliver in (register `c`, byte `k`) -/
def loadedVal (junk : Nat → Nat) (s : Array Nat) (stride i c k : Nat) : Nat :=
  let off := c * stride + i + k
  if off < s.size then s.getD off 0 else junk off

/-- the block body writes the 32×32 square of rows `i..i+32` with the TRANSPOSE of what was loaded:
    cell `(i+k, c)` receives byte `k` of register `c`, i.e. source offset `c*stride + i + k` -/
theorem block_eq (junk : Nat → Nat) (s : Array Nat) (stride i : Nat) (d : Mat Nat 32) :
    block junk s stride i d = rectWrite i 32 32 (fun k c => loadedVal junk s stride i c k) d := by
  unfold block rectWrite
  rw [network_is_transpose.1]
  apply foldl_ext_mem
  intro d k hk
  have hk : k < 32 := List.mem_range.mp hk
  unfold rowWrite
  apply foldl_ext_mem
  intro d c hc
  have hc : c < 32 := List.mem_range.mp hc
  rw [cellSrc_transpose k c hk hc]
  simp only [readPos, network_is_transpose.2.2.1 c hc, loadedVal]

theorem block_rows (junk : Nat → Nat) (s : Array Nat) (stride i : Nat) (d : Mat Nat 32) :
    (block junk s stride i d).rows = d.rows := by rw [block_eq, rectWrite_rows]

theorem block_get (junk : Nat → Nat) (s : Array Nat) (stride i : Nat) (d : Mat Nat 32) (r c : Nat) :
    (block junk s stride i d).get r c =
      if i ≤ r ∧ r < i + 32 ∧ c < 32 ∧ r < d.rows then loadedVal junk s stride i c (r - i)
      else d.get r c := by
  rw [block_eq, rectWrite_get _ _ _ (Nat.le_refl 32)]

/-- value the kernel's loads deliver for cell `(r, c)`: source offset `c*stride + r` -/
def srcVal (junk : Nat → Nat) (s : Array Nat) (stride r c : Nat) : Nat :=
  if c * stride + r < s.size then s.getD (c * stride + r) 0 else junk (c * stride + r)

theorem srcGuardOk_eq (length stride i : Nat) :
    srcGuardOk length stride i = decide (31 * stride + i + 32 ≤ length) := by
  simp only [srcGuardOk, network_is_transpose.2.2.2.2.2.2]

theorem blockLoop_succ (junk : Nat → Nat) (s : Array Nat) (stride n i : Nat) (d : Mat Nat 32) :
    blockLoop junk s stride (n + 1) i d =
      if i + 32 ≤ stride ∧ 31 * stride + i + 32 ≤ s.size then
        blockLoop junk s stride n (i + 32) (block junk s stride i d)
      else (i, d) := by
  simp only [blockLoop, network_is_transpose.2.2.2.1, network_is_transpose.2.2.2.2.1,
    Bool.false_eq_true, if_false, srcGuardOk_eq, decide_eq_true_eq]

/-- the block loop: starting at offset `i` with enough fuel, it stops at an `i'` where either no
    complete block of rows remains or the furthest load of the next block would leave the symbol
    buffer, having transposed every block in between and touched nothing else -/
theorem blockLoop_spec (junk : Nat → Nat) (s : Array Nat) (stride : Nat) :
    ∀ (fuel i : Nat) (d : Mat Nat 32), stride ≤ i + 32 * fuel →
      ∃ i' d', blockLoop junk s stride fuel i d = (i', d') ∧
        i ≤ i' ∧ (stride < i' + 32 ∨ s.size < 31 * stride + i' + 32) ∧ (i' ≤ stride ∨ i' = i) ∧
        d'.rows = d.rows ∧
        ∀ r c, d'.get r c =
          if i ≤ r ∧ r < i' ∧ c < 32 ∧ r < d.rows then srcVal junk s stride r c else d.get r c := by
  intro fuel
  induction fuel with
  | zero =>
    intro i d h
    refine ⟨i, d, rfl, Nat.le_refl _, Or.inl (by omega), Or.inr rfl, rfl, ?_⟩
    intro r c; rw [if_neg]; omega
  | succ n ih =>
    intro i d h
    rw [blockLoop_succ]
    by_cases hcond : i + 32 ≤ stride ∧ 31 * stride + i + 32 ≤ s.size
    · rw [if_pos hcond]
      obtain ⟨i', d', he, h1, h2, h3, h4, h5⟩ := ih (i + 32) (block junk s stride i d) (by omega)
      refine ⟨i', d', he, by omega, h2, by omega, by rw [h4, block_rows], ?_⟩
      intro r c
      rw [h5 r c, block_rows, block_get]
      by_cases ha : i + 32 ≤ r ∧ r < i' ∧ c < 32 ∧ r < d.rows
      · rw [if_pos ha, if_pos ⟨by omega, ha.2.1, ha.2.2.1, ha.2.2.2⟩]
      · rw [if_neg ha]
        by_cases hb : i ≤ r ∧ r < i + 32 ∧ c < 32 ∧ r < d.rows
        · rw [if_pos hb, if_pos ⟨hb.1, by omega, hb.2.2.1, hb.2.2.2⟩]
          simp only [loadedVal, srcVal]
          have : c * stride + i + (r - i) = c * stride + r := by omega
          rw [this]
        · rw [if_neg hb, if_neg]
          intro hc
          by_cases hr : r < i + 32
          · exact hb ⟨hc.1, hr, hc.2.2.1, hc.2.2.2⟩
          · exact ha ⟨by omega, hc.2.1, hc.2.2.1, hc.2.2.2⟩
    · rw [if_neg hcond]
      refine ⟨i, d, rfl, Nat.le_refl _, by omega, Or.inr rfl, rfl, ?_⟩
      intro r c; rw [if_neg]; omega

end StripeAvx2
end LMV
