/-
  LMV.Lemmas.Dist — helper lemmas for C11: the vector interface of LMV.Model.Dist, the exact (`Rat`)
  instance unfolded, rounding, list sums.
-/
import LMV.Model.Dist
import Mathlib.Tactic.Ring
import Mathlib.Tactic.Linarith
import Mathlib.Algebra.Order.Field.Rat
import Mathlib.Algebra.Order.BigOperators.Group.List

set_option linter.unusedSectionVars false

namespace LMV.Dist
open Scalar

/-! ### the exact instance, unfolded -/

@[simp] theorem zero_rat : (Scalar.zero : Rat) = 0 := rfl
@[simp] theorem one_rat : (Scalar.one : Rat) = 1 := rfl
@[simp] theorem ltb_rat (a b : Rat) : Scalar.ltb a b = decide (a < b) := rfl
@[simp] theorem leb_rat (a b : Rat) : Scalar.leb a b = decide (a ≤ b) := rfl
@[simp] theorem eqb_rat (a b : Rat) : Scalar.eqb a b = decide (a = b) := rfl
@[simp] theorem min1_rat (p : Rat) : Scalar.min1 p = if p < 1 then p else 1 := rfl
@[simp] theorem ofInt_rat (i : Int) : (Scalar.ofInt i : Rat) = (i : Rat) := rfl
@[simp] theorem floor_rat (q : Rat) : (Scalar.floor q : Rat) = (q.floor : Rat) := rfl
@[simp] theorem roundI32_rat (q : Rat) : Scalar.roundI32 q = clampI32 (ratRound q) := rfl
@[simp] theorem toI32_rat (q : Rat) : Scalar.toI32 q = clampI32 (ratTrunc q) := rfl
@[simp] theorem cellNegInf_rat (o s : Rat) :
    Scalar.cellNegInf o s = if 0 < s then I32_MIN else if s < 0 then I32_MAX else 0 := rfl
@[simp] theorem ofIntF32_rat (i : Int) : (Scalar.ofIntF32 i : Rat) = (i : Rat) := rfl
@[simp] theorem toF32_rat (q : Rat) : (Scalar.toF32 q : Rat) = q := rfl
@[simp] theorem divF32_rat (a b : Rat) : Scalar.divF32 a b = a / b := rfl
@[simp] theorem addF32_rat (a b : Rat) : Scalar.addF32 a b = a + b := rfl

/-! ### vector interface laws -/

section Vec
variable {α : Type} [Add α] [Scalar α]

theorem vget_of_size_le (a : Array α) {j : Nat} (h : a.size ≤ j) : vget a j = zero := by
  unfold vget; rw [Array.getElem?_eq_none h]; rfl

@[simp] theorem size_vadd (a : Array α) (i : Nat) (x : α) : (vadd a i x).size = a.size := by
  simp [vadd]

theorem vget_vadd (a : Array α) (i : Nat) (x : α) (j : Nat) (h : i < a.size) :
    vget (vadd a i x) j = if j = i then vget a i + x else vget a j := by
  unfold vget vadd
  rw [Array.getElem?_modify]
  by_cases hij : i = j
  · subst hij; simp [h]
  · have : ¬ j = i := fun e => hij e.symm
    simp [hij, this]

@[simp] theorem size_vset (a : Array α) (i : Nat) (x : α) : (vset a i x).size = a.size := by
  simp [vset]

theorem vget_vset (a : Array α) (i : Nat) (x : α) (j : Nat) (h : i < a.size) :
    vget (vset a i x) j = if j = i then x else vget a j := by
  unfold vget vset
  rw [Array.getElem?_setIfInBounds]
  by_cases hij : i = j
  · subst hij; simp [h]
  · have : ¬ j = i := fun e => hij e.symm
    simp [hij, this]

@[simp] theorem size_vfill0 (a : Array α) (n : Nat) : (vfill0 a n).size = a.size := by
  simp [vfill0]

theorem vget_vfill0 (a : Array α) (n j : Nat) :
    vget (vfill0 a n) j = if j < n then zero else vget a j := by
  unfold vget vfill0
  rw [Array.getElem?_mapIdx]
  by_cases hj : j < a.size
  · simp [hj]
  · rw [Array.getElem?_eq_none (by omega)]; simp

theorem vget_replicate (n : Nat) (x : α) (j : Nat) :
    vget (Array.replicate n x) j = if j < n then x else zero := by
  unfold vget
  rw [Array.getElem?_replicate]
  split <;> rfl

end Vec

/-! ### the convolution loops over `Rat` -/

theorem convSym_zero (old : Array Rat) (s : Nat) (b : Rat) (new : Array Rat) :
    convSym old s b new 0 = new := by simp [convSym]

theorem convSym_succ (old : Array Rat) (s : Nat) (b : Rat) (new : Array Rat) (n : Nat) :
    convSym old s b new (n + 1) =
      if vget old n = 0 then convSym old s b new n
      else vadd (convSym old s b new n) (n + s) (vget old n * b) := by
  simp [convSym, List.range_succ]

theorem convSym_spec (old : Array Rat) (s : Nat) (b : Rat) (new : Array Rat) (n : Nat)
    (hb : n + s ≤ new.size) :
    (convSym old s b new n).size = new.size ∧
    ∀ j, vget (convSym old s b new n) j =
      vget new j + (if s ≤ j ∧ j - s < n then vget old (j - s) * b else 0) := by
  induction n with
  | zero => simp [convSym_zero]
  | succ n ih =>
    obtain ⟨hsz, hget⟩ := ih (by omega)
    rw [convSym_succ]
    by_cases h0 : vget old n = 0
    · simp only [h0, if_true]
      refine ⟨hsz, fun j => ?_⟩
      rw [hget j]
      by_cases hj : s ≤ j ∧ j - s < n
      · have : s ≤ j ∧ j - s < n + 1 := ⟨hj.1, by omega⟩
        simp [hj, this]
      · by_cases hj' : s ≤ j ∧ j - s < n + 1
        · have : j - s = n := by omega
          simp [hj', this, h0]
        · simp [hj, hj']
    · simp only [h0, if_false]
      refine ⟨by simp [hsz], fun j => ?_⟩
      rw [vget_vadd _ _ _ _ (by omega), hget, hget]
      by_cases hjn : j = n + s
      · subst hjn
        have h1 : ¬ (s ≤ n + s ∧ n + s - s < n) := by omega
        have h2 : s ≤ n + s ∧ n + s - s < n + 1 := by omega
        have h3 : n + s - s = n := by omega
        simp [h2, h3]
      · by_cases hj : s ≤ j ∧ j - s < n
        · have : s ≤ j ∧ j - s < n + 1 := ⟨hj.1, by omega⟩
          simp [hjn, hj, this]
        · have : ¬ (s ≤ j ∧ j - s < n + 1) := by omega
          simp [hjn, hj, this]

/-- contribution of symbol `a` to cell `j` of the next density, given the current density `q` -/
def symTerm (bg : List Rat) (row : List Int) (q : Nat → Rat) (a : Nat) (j : Nat) : Rat :=
  if row.getD a 0 = I32_MIN then 0
  else if (row.getD a 0).toNat ≤ j then q (j - (row.getD a 0).toNat) * bg.getD a 0 else 0

theorem convSyms_nil (bg : List Rat) (row : List Int) (old : Array Rat) (n : Nat) (new : Array Rat) :
    convSyms [] bg row old n new = new := rfl

theorem convSyms_cons (a : Nat) (syms : List Nat) (bg : List Rat) (row : List Int) (old : Array Rat)
    (n : Nat) (new : Array Rat) :
    convSyms (a :: syms) bg row old n new =
      convSyms syms bg row old n
        (if row.getD a 0 = I32_MIN then new
         else convSym old (row.getD a 0).toNat (bg.getD a 0) new n) := by
  simp [convSyms]

theorem convSyms_spec (syms : List Nat) (bg : List Rat) (row : List Int) (old : Array Rat) (n : Nat)
    (new : Array Rat)
    (hcell : ∀ a ∈ syms, row.getD a 0 = I32_MIN ∨ n + (row.getD a 0).toNat ≤ new.size)
    (hsupp : ∀ k, n ≤ k → vget old k = 0) :
    (convSyms syms bg row old n new).size = new.size ∧
    ∀ j, vget (convSyms syms bg row old n new) j =
      vget new j + (syms.map (fun a => symTerm bg row (vget old) a j)).sum := by
  induction syms generalizing new with
  | nil => simp [convSyms_nil]
  | cons a syms ih =>
    rw [convSyms_cons]
    by_cases hmin : row.getD a 0 = I32_MIN
    · simp only [hmin, if_true]
      obtain ⟨hsz, hget⟩ := ih new (fun b hb => hcell b (List.mem_cons_of_mem _ hb))
      refine ⟨hsz, fun j => ?_⟩
      rw [hget j]
      have hterm : symTerm bg row (vget old) a j = 0 := by unfold symTerm; rw [if_pos hmin]
      simp only [List.map_cons, List.sum_cons, hterm, zero_add]
    · simp only [hmin, if_false]
      have hc : n + (row.getD a 0).toNat ≤ new.size := by
        rcases hcell a List.mem_cons_self with h | h
        · exact absurd h hmin
        · exact h
      obtain ⟨hsz1, hget1⟩ := convSym_spec old (row.getD a 0).toNat (bg.getD a 0) new n hc
      obtain ⟨hsz, hget⟩ := ih (convSym old (row.getD a 0).toNat (bg.getD a 0) new n)
        (fun b hb => by rw [hsz1]; exact hcell b (List.mem_cons_of_mem _ hb))
      refine ⟨by rw [hsz, hsz1], fun j => ?_⟩
      rw [hget j, hget1 j]
      have hterm : symTerm bg row (vget old) a j =
          (if (row.getD a 0).toNat ≤ j then vget old (j - (row.getD a 0).toNat) * bg.getD a 0 else 0) := by
        unfold symTerm; rw [if_neg hmin]
      simp only [List.map_cons, List.sum_cons, hterm]
      have : (if (row.getD a 0).toNat ≤ j ∧ j - (row.getD a 0).toNat < n
                then vget old (j - (row.getD a 0).toNat) * bg.getD a 0 else 0) =
             (if (row.getD a 0).toNat ≤ j then vget old (j - (row.getD a 0).toNat) * bg.getD a 0 else 0) := by
        by_cases h1 : (row.getD a 0).toNat ≤ j
        · by_cases h2 : j - (row.getD a 0).toNat < n
          · rw [if_pos ⟨h1, h2⟩, if_pos h1]
          · rw [if_neg (fun h => h2 h.2), if_pos h1, hsupp _ (Nat.le_of_not_lt h2), zero_mul]
        · rw [if_neg (fun h => h1 h.1), if_neg h1]
      rw [this]
      ring

/-- one row of the convolution on densities as functions -/
def stepQ (syms : List Nat) (bg : List Rat) (row : List Int) (q : Nat → Rat) : Nat → Rat :=
  fun j => (syms.map (fun a => symTerm bg row q a j)).sum

/-- all rows -/
def specQ (syms : List Nat) (bg : List Rat) : List (List Int) → (Nat → Rat) → (Nat → Rat)
  | [], q => q
  | row :: rest, q => specQ syms bg rest (stepQ syms bg row q)

/-- the cells of an integer row that the loop visits are `i32::MIN` or lie in `[0, R]` -/
def RowOK (R : Nat) (syms : List Nat) (row : List Int) : Prop :=
  ∀ a ∈ syms, row.getD a 0 = I32_MIN ∨ (0 ≤ row.getD a 0 ∧ row.getD a 0 ≤ (R : Int))

/-- loop invariant of `for (i, row) in data.iter().enumerate()`: both buffers have the full size
    and carry nothing above `i * range` -/
structure ConvInv (R i size : Nat) (st : Array Rat × Array Rat) : Prop where
  size1 : st.1.size = size
  size2 : st.2.size = size
  supp1 : ∀ k, i * R < k → vget st.1 k = 0
  supp2 : ∀ k, i * R < k → vget st.2 k = 0

theorem stepQ_support (R : Nat) (syms : List Nat) (bg : List Rat) (row : List Int) (q : Nat → Rat)
    (i : Nat) (hrow : RowOK R syms row) (hq : ∀ k, i * R < k → q k = 0) :
    ∀ j, (i + 1) * R < j → stepQ syms bg row q j = 0 := by
  intro j hj
  unfold stepQ
  apply List.sum_eq_zero
  intro x hx
  obtain ⟨a, ha, rfl⟩ := List.mem_map.mp hx
  unfold symTerm
  by_cases hmin : row.getD a 0 = I32_MIN
  · rw [if_pos hmin]
  · rw [if_neg hmin]
    rcases hrow a ha with h | ⟨h0, hR⟩
    · exact absurd h hmin
    · by_cases hle : (row.getD a 0).toNat ≤ j
      · rw [if_pos hle, hq, zero_mul]
        have : (row.getD a 0).toNat ≤ R := by omega
        have : (i + 1) * R = i * R + R := by ring
        omega
      · rw [if_neg hle]

theorem convRow_spec (R : Nat) (syms : List Nat) (bg : List Rat) (i size : Nat) (row : List Int)
    (st : Array Rat × Array Rat) (hinv : ConvInv R i size st) (hrow : RowOK R syms row)
    (hsize : (i + 1) * R < size) :
    ConvInv R (i + 1) size (convRow R syms bg i row st) ∧
    ∀ j, vget (convRow R syms bg i row st).2 j = stepQ syms bg row (vget st.2) j := by
  have hexp : (i + 1) * R = i * R + R := by ring
  have hcell : ∀ a ∈ syms, row.getD a 0 = I32_MIN ∨
      (i * R + 1) + (row.getD a 0).toNat ≤ (vfill0 st.1 (i * R + R + 1)).size := by
    intro a ha
    rcases hrow a ha with h | ⟨h0, hR⟩
    · exact Or.inl h
    · right
      rw [size_vfill0, hinv.size1]
      have : (row.getD a 0).toNat ≤ R := by omega
      omega
  obtain ⟨hsz, hget⟩ := convSyms_spec syms bg row st.2 (i * R + 1) (vfill0 st.1 (i * R + R + 1)) hcell
    (fun k hk => hinv.supp2 k (by omega))
  have hval : ∀ j, vget (convRow R syms bg i row st).2 j = stepQ syms bg row (vget st.2) j := by
    intro j
    show vget (convSyms syms bg row st.2 (i * R + 1) (vfill0 st.1 (i * R + R + 1))) j = _
    rw [hget j, vget_vfill0]
    have : (if j < i * R + R + 1 then (Scalar.zero : Rat) else vget st.1 j) = 0 := by
      by_cases hj : j < i * R + R + 1
      · rw [if_pos hj]; rfl
      · rw [if_neg hj]; exact hinv.supp1 j (by omega)
    rw [this, zero_add]; rfl
  refine ⟨⟨hinv.size2, ?_, fun k hk => hinv.supp2 k (by omega), ?_⟩, hval⟩
  · show (convSyms syms bg row st.2 (i * R + 1) (vfill0 st.1 (i * R + R + 1))).size = size
    rw [hsz, size_vfill0, hinv.size1]
  · intro k hk
    rw [hval k]
    exact stepQ_support R syms bg row (vget st.2) i hrow hinv.supp2 k hk

theorem convRows_spec (R : Nat) (syms : List Nat) (bg : List Rat) (size : Nat)
    (data : List (List Int)) :
    ∀ (i : Nat) (st : Array Rat × Array Rat), ConvInv R i size st →
      (∀ row ∈ data, RowOK R syms row) → (i + data.length) * R < size →
      ConvInv R (i + data.length) size (convRows R syms bg i data st) ∧
      ∀ j, vget (convRows R syms bg i data st).2 j = specQ syms bg data (vget st.2) j := by
  induction data with
  | nil =>
    intro i st hinv _ _
    refine ⟨?_, fun j => rfl⟩
    show ConvInv R (i + 0) size st
    exact hinv
  | cons row rest ih =>
    intro i st hinv hrows hsize
    have hlen : i + (row :: rest).length = (i + 1) + rest.length := by simp; omega
    have hsz1 : (i + 1) * R < size := by
      have : (i + 1) * R ≤ (i + (row :: rest).length) * R :=
        Nat.mul_le_mul_right _ (by simp)
      omega
    obtain ⟨hinv', hval⟩ := convRow_spec R syms bg i size row st hinv
      (hrows row List.mem_cons_self) hsz1
    obtain ⟨hinv'', hval'⟩ := ih (i + 1) (convRow R syms bg i row st) hinv'
      (fun r hr => hrows r (List.mem_cons_of_mem _ hr)) (by rw [← hlen]; exact hsize)
    refine ⟨by rw [hlen]; exact hinv'', fun j => ?_⟩
    show vget (convRows R syms bg (i + 1) rest (convRow R syms bg i row st)).2 j = _
    rw [hval' j]
    have : vget (convRow R syms bg i row st).2 = stepQ syms bg row (vget st.2) := funext hval
    rw [this]; rfl

/-- the initial density: all the mass on integer score 0 -/
def delta0 : Nat → Rat := fun j => if j = 0 then 1 else 0

theorem pdfOf_spec (R : Nat) (syms : List Nat) (bg : List Rat) (data : List (List Int))
    (hrows : ∀ row ∈ data, RowOK R syms row) :
    (pdfOf R syms bg data).size = data.length * R + 1 ∧
    (∀ j, vget (pdfOf R syms bg data) j = specQ syms bg data delta0 j) ∧
    (∀ j, data.length * R < j → vget (pdfOf R syms bg data) j = 0) := by
  have hinv : ConvInv R 0 (data.length * R + 1)
      (Array.replicate (data.length * R + 1) (Scalar.zero : Rat),
       vset (Array.replicate (data.length * R + 1) (Scalar.zero : Rat)) 0 Scalar.one) := by
    refine ⟨by simp, by simp, ?_, ?_⟩
    · intro k _; rw [vget_replicate]; split <;> rfl
    · intro k hk
      rw [vget_vset _ _ _ _ (by simp), vget_replicate]
      have : ¬ k = 0 := by omega
      rw [if_neg this]; split <;> rfl
  obtain ⟨hinv', hval⟩ := convRows_spec R syms bg (data.length * R + 1) data 0 _ hinv hrows
    (by simp)
  have hq0 : vget (vset (Array.replicate (data.length * R + 1) (Scalar.zero : Rat)) 0 Scalar.one) = delta0 := by
    funext j
    rw [vget_vset _ _ _ _ (by simp), vget_replicate]
    unfold delta0
    by_cases hj : j = 0
    · simp [hj]
    · rw [if_neg hj, if_neg hj]; split <;> rfl
  refine ⟨?_, ?_, ?_⟩
  · exact hinv'.size2
  · intro j
    show vget (convRows R syms bg 0 data _).2 j = _
    rw [hval j]; simp only [hq0]
  · intro j hj
    have := hinv'.supp2 j (by simpa using hj)
    exact this

/-! ### the reverse cumulative sum -/

theorem min1_of_le_one {x : Rat} (h : x ≤ 1) : (Scalar.min1 x : Rat) = x := by
  rw [min1_rat]
  by_cases hx : x < 1
  · rw [if_pos hx]
  · rw [if_neg hx]; linarith

theorem sfLoop_succ (n : Nat) (st : SfState Rat) : sfLoop (n + 1) st = sfLoop n (sfStep n st) := rfl

/-- `max_score` bookkeeping: either still 0 with no tail mass at the indices seen so far (those
    above `n`), or the greatest index with a positive tail -/
def MaxInv (G : Nat → Rat) (size n : Nat) (mx : Int) : Prop :=
  (mx = 0 ∧ ∀ k : Nat, n < k → k < size → G k = 0) ∨
  (0 < G mx.toNat ∧ (n : Int) < mx ∧ ∀ k : Nat, mx < (k : Int) → k < size → G k = 0)

/-- The loop `for i in (0..=len-2).rev()` turns a density `p` (non-negative, total mass ≤ 1) into its
    tail sums `G`, keeps `min_score` at or below every index carrying mass, and keeps both scores
    inside the table. -/
theorem sfLoop_spec (p G : Nat → Rat) (size : Nat)
    (hp : ∀ j, 0 ≤ p j) (hG : ∀ j, G j = p j + G (j + 1)) (hG1 : ∀ j, G j ≤ 1) (hG0 : ∀ j, 0 ≤ G j) :
    ∀ (n : Nat) (st : SfState Rat), st.sf.size = size → n + 1 ≤ size →
      (∀ j, n ≤ j → j < size → vget st.sf j = G j) →
      (∀ j, j < n → vget st.sf j = p j) →
      (0 ≤ st.minScore ∧ st.minScore + 1 < size ∧
        ∀ j : Nat, n ≤ j → (j : Int) < st.minScore → p j = 0) →
      (0 ≤ st.maxScore ∧ st.maxScore < size ∧ MaxInv G size n st.maxScore) →
      (sfLoop n st).sf.size = size ∧
      (∀ j, j < size → vget (sfLoop n st).sf j = G j) ∧
      (0 ≤ (sfLoop n st).minScore ∧ (sfLoop n st).minScore + 1 < size ∧
        ∀ j : Nat, (j : Int) < (sfLoop n st).minScore → p j = 0) ∧
      (0 ≤ (sfLoop n st).maxScore ∧ (sfLoop n st).maxScore < size ∧
        MaxInv G size 0 (sfLoop n st).maxScore) := by
  intro n
  induction n with
  | zero =>
    intro st hsz _ hge _ hmin hmax
    refine ⟨hsz, fun j hj => hge j (Nat.zero_le _) hj, ⟨hmin.1, hmin.2.1, fun j hj => hmin.2.2 j (Nat.zero_le _) hj⟩, hmax⟩
  | succ n ih =>
    intro st hsz hn hge hlt hmin hmax
    rw [sfLoop_succ]
    have hnsz : n < st.sf.size := by omega
    have hp0 : vget st.sf n = p n := hlt n (by omega)
    have hp1 : vget st.sf (n + 1) = G (n + 1) := hge (n + 1) (le_refl _) (by omega)
    apply ih (sfStep n st)
    · show (vset st.sf n _).size = size
      rw [size_vset]; exact hsz
    · omega
    · intro j hj hjs
      show vget (vset st.sf n _) j = G j
      rw [vget_vset _ _ _ _ hnsz]
      by_cases hjn : j = n
      · subst hjn
        rw [if_pos rfl, hp0, hp1, ← hG j]
        exact min1_of_le_one (hG1 j)
      · rw [if_neg hjn]
        exact hge j (by omega) hjs
    · intro j hj
      show vget (vset st.sf n _) j = p j
      rw [vget_vset _ _ _ _ hnsz, if_neg (by omega)]
      exact hlt j (by omega)
    · have hms : (sfStep n st).minScore = if 0 < p n then (n : Int) else st.minScore := by
        show (if Scalar.ltb Scalar.zero (vget st.sf n) = true then Int.ofNat n else st.minScore) = _
        rw [hp0, ltb_rat, zero_rat]
        by_cases hpos : 0 < p n
        · rw [if_pos hpos, if_pos (by simpa using hpos)]; rfl
        · rw [if_neg hpos, if_neg (by simpa using hpos)]
      rw [hms]
      by_cases hpos : 0 < p n
      · rw [if_pos hpos]
        refine ⟨by omega, by omega, ?_⟩
        intro j hj hjn
        omega
      · rw [if_neg hpos]
        refine ⟨hmin.1, hmin.2.1, ?_⟩
        intro j hj hjm
        by_cases hjn : j = n
        · subst hjn; have := hp j; linarith [not_lt.mp hpos]
        · exact hmin.2.2 j (by omega) hjm
    · have hmx : (sfStep n st).maxScore =
          if st.maxScore = 0 ∧ Scalar.ltb Scalar.zero (vget st.sf (n + 1)) = true
          then (n : Int) + 1 else st.maxScore := rfl
      rw [hmx, hp1, ltb_rat, zero_rat]
      obtain ⟨hmx0, hmx1, hinv⟩ := hmax
      by_cases hc : st.maxScore = 0 ∧ decide (0 < G (n + 1)) = true
      · rw [if_pos hc]
        have hpos : 0 < G (n + 1) := by simpa using hc.2
        refine ⟨by omega, by omega, Or.inr ⟨?_, by omega, ?_⟩⟩
        · have : ((n : Int) + 1).toNat = n + 1 := by omega
          rw [this]; exact hpos
        · intro k hk hks
          rcases hinv with ⟨_, hz⟩ | ⟨_, hlt, _⟩
          · exact hz k (by omega) hks
          · omega
      · rw [if_neg hc]
        refine ⟨hmx0, hmx1, ?_⟩
        rcases hinv with ⟨hz0, hz⟩ | ⟨hpos, hlt, hz⟩
        · left
          refine ⟨hz0, fun k hk hks => ?_⟩
          by_cases hkn : k = n + 1
          · subst hkn
            have : ¬ 0 < G (n + 1) := fun h => hc ⟨hz0, by simpa using h⟩
            linarith [hG0 (n + 1), not_lt.mp this]
          · exact hz k (by omega) hks
        · right
          exact ⟨hpos, by omega, hz⟩

/-! ### rounding -/

theorem floor_le' (a : Rat) : (a.floor : Rat) ≤ a := Rat.floor_le a

theorem lt_floor_add_one' (a : Rat) : a < (a.floor : Rat) + 1 := by
  have := Rat.lt_floor_add_one a
  push_cast at this
  exact this

theorem ratRound_le (q : Rat) : (ratRound q : Rat) ≤ q + 1 / 2 := by
  unfold ratRound
  by_cases h : 0 ≤ q
  · rw [if_pos h]; exact floor_le' _
  · rw [if_neg h]
    have := lt_floor_add_one' (-q + 1 / 2)
    push_cast
    linarith

theorem le_ratRound (q : Rat) : q - 1 / 2 ≤ (ratRound q : Rat) := by
  unfold ratRound
  by_cases h : 0 ≤ q
  · rw [if_pos h]
    have := lt_floor_add_one' (q + 1 / 2)
    linarith
  · rw [if_neg h]
    have := floor_le' (-q + 1 / 2)
    push_cast
    linarith

theorem ratRound_mono {a b : Rat} (h : a ≤ b) : ratRound a ≤ ratRound b := by
  unfold ratRound
  by_cases ha : 0 ≤ a
  · have hb : 0 ≤ b := le_trans ha h
    rw [if_pos ha, if_pos hb]
    exact Rat.floor_monotone (by linarith)
  · by_cases hb : 0 ≤ b
    · rw [if_neg ha, if_pos hb]
      have h1 : (0 : Int) ≤ (-a + 1 / 2).floor := Rat.le_floor_iff.mpr (by push_cast; linarith [not_le.mp ha])
      have h2 : (0 : Int) ≤ (b + 1 / 2).floor := Rat.le_floor_iff.mpr (by push_cast; linarith)
      omega
    · rw [if_neg ha, if_neg hb]
      have : (-b + 1 / 2).floor ≤ (-a + 1 / 2).floor := Rat.floor_monotone (by linarith)
      omega

theorem ratRound_intCast (n : Int) : ratRound (n : Rat) = n := by
  have h1 := ratRound_le (n : Rat)
  have h2 := le_ratRound (n : Rat)
  have h3 : ((ratRound (n : Rat) : Int) : Rat) < ((n + 1 : Int) : Rat) := by push_cast; linarith
  have h4 : ((n - 1 : Int) : Rat) < ((ratRound (n : Rat) : Int) : Rat) := by push_cast; linarith
  have h3' : ratRound (n : Rat) < n + 1 := by exact_mod_cast h3
  have h4' : n - 1 < ratRound (n : Rat) := by exact_mod_cast h4
  omega

theorem clampI32_of_mem {i : Int} (h1 : I32_MIN ≤ i) (h2 : i ≤ I32_MAX) : clampI32 i = i := by
  unfold clampI32
  rw [if_neg (by omega), if_neg (by omega)]

theorem clampI32_mono {a b : Int} (h : a ≤ b) : clampI32 a ≤ clampI32 b := by
  unfold clampI32 I32_MIN I32_MAX
  split <;> split <;> (try split) <;> (try split) <;> omega

/-! ### `min_by` / `max_by` -/

theorem minBy_fold (xs : List Rat) : ∀ cur : Rat,
    let r := xs.foldl (fun cur y => if Scalar.ltb y cur then y else cur) cur
    r ≤ cur ∧ (∀ y ∈ xs, r ≤ y) ∧ (r = cur ∨ r ∈ xs) := by
  induction xs with
  | nil => intro cur; simp
  | cons x xs ih =>
    intro cur
    simp only [List.foldl_cons]
    by_cases h : x < cur
    · rw [if_pos (show Scalar.ltb x cur = true by simp [h])]
      obtain ⟨h1, h2, h3⟩ := ih x
      refine ⟨by linarith, ?_, ?_⟩
      · intro y hy
        rcases List.mem_cons.mp hy with rfl | hy
        · exact h1
        · exact h2 y hy
      · rcases h3 with h3 | h3
        · right; rw [h3]; exact List.mem_cons_self
        · right; exact List.mem_cons_of_mem _ h3
    · rw [if_neg (show ¬ Scalar.ltb x cur = true by simp [h])]
      obtain ⟨h1, h2, h3⟩ := ih cur
      refine ⟨h1, ?_, ?_⟩
      · intro y hy
        rcases List.mem_cons.mp hy with rfl | hy
        · linarith [not_lt.mp h]
        · exact h2 y hy
      · rcases h3 with h3 | h3
        · left; exact h3
        · right; exact List.mem_cons_of_mem _ h3

theorem maxBy_fold (xs : List Rat) : ∀ cur : Rat,
    let r := xs.foldl (fun cur y => if Scalar.ltb y cur then cur else y) cur
    cur ≤ r ∧ (∀ y ∈ xs, y ≤ r) ∧ (r = cur ∨ r ∈ xs) := by
  induction xs with
  | nil => intro cur; simp
  | cons x xs ih =>
    intro cur
    simp only [List.foldl_cons]
    by_cases h : x < cur
    · rw [if_pos (show Scalar.ltb x cur = true by simp [h])]
      obtain ⟨h1, h2, h3⟩ := ih cur
      refine ⟨h1, ?_, ?_⟩
      · intro y hy
        rcases List.mem_cons.mp hy with rfl | hy
        · linarith
        · exact h2 y hy
      · rcases h3 with h3 | h3
        · left; exact h3
        · right; exact List.mem_cons_of_mem _ h3
    · rw [if_neg (show ¬ Scalar.ltb x cur = true by simp [h])]
      obtain ⟨h1, h2, h3⟩ := ih x
      refine ⟨by linarith [not_lt.mp h], ?_, ?_⟩
      · intro y hy
        rcases List.mem_cons.mp hy with rfl | hy
        · exact h1
        · exact h2 y hy
      · rcases h3 with h3 | h3
        · right; rw [h3]; exact List.mem_cons_self
        · right; exact List.mem_cons_of_mem _ h3

theorem minBy_spec {l : List Rat} {s : Rat} (h : minBy l = some s) : s ∈ l ∧ ∀ y ∈ l, s ≤ y := by
  cases l with
  | nil => simp [minBy] at h
  | cons x xs =>
    simp only [minBy, Option.some.injEq] at h
    obtain ⟨h1, h2, h3⟩ := minBy_fold xs x
    rw [h] at h1 h2 h3
    refine ⟨?_, ?_⟩
    · rcases h3 with h3 | h3
      · rw [h3]; exact List.mem_cons_self
      · exact List.mem_cons_of_mem _ h3
    · intro y hy
      rcases List.mem_cons.mp hy with rfl | hy
      · exact h1
      · exact h2 y hy

theorem maxBy_spec {l : List Rat} {s : Rat} (h : maxBy l = some s) : s ∈ l ∧ ∀ y ∈ l, y ≤ s := by
  cases l with
  | nil => simp [maxBy] at h
  | cons x xs =>
    simp only [maxBy, Option.some.injEq] at h
    obtain ⟨h1, h2, h3⟩ := maxBy_fold xs x
    rw [h] at h1 h2 h3
    refine ⟨?_, ?_⟩
    · rcases h3 with h3 | h3
      · rw [h3]; exact List.mem_cons_self
      · exact List.mem_cons_of_mem _ h3
    · intro y hy
      rcases List.mem_cons.mp hy with rfl | hy
      · exact h1
      · exact h2 y hy

/-! ### the driver's admissibility test decides the contract of `binary_search_by` -/

theorem searchAdmissibleB_iff {α : Type} [Add α] [Sub α] [Mul α] [Div α] [Scalar α]
    (d : Dist α) (p : α) (x : Nat) : d.searchAdmissibleB p x = true ↔ d.SearchAdmissible p x := by
  unfold Dist.searchAdmissibleB Dist.SearchAdmissible
  simp only [Bool.and_eq_true, Bool.or_eq_true, decide_eq_true_eq, List.all_eq_true, List.mem_range]
  constructor
  · rintro ⟨h1, h2⟩
    refine ⟨h1, ?_⟩
    rcases h2 with h2 | ⟨h3, h4⟩
    · exact Or.inl h2
    · right
      refine ⟨h3, fun j hxj hj => ?_⟩
      rcases h4 j hj with h5 | h5
      · omega
      · exact h5
  · rintro ⟨h1, h2⟩
    refine ⟨h1, ?_⟩
    rcases h2 with h2 | ⟨h3, h4⟩
    · exact Or.inl h2
    · right
      refine ⟨h3, fun j hj => ?_⟩
      by_cases hjx : j < x
      · exact Or.inl hjx
      · exact Or.inr (h4 j (by omega) hj)

end LMV.Dist
