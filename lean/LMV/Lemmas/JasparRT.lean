/-
  LMV.Lemmas.JasparRT — round trip of the JASPAR (raw) format: the record parser returns exactly the
  rendered motif, and the reader returns the motifs of a rendered file in order, then end of
  input, for every chunk schedule and every capacity policy.  Core Lean only.
-/
import LMV.Lemmas.Render
import LMV.Lemmas.Jaspar
import LMV.Lemmas.Utf8
import LMV.Lemmas.Consumer

namespace LMV

open Io Nom

namespace Nom

variable {α β γ : Type}

theorem pair_eval {f : Parser α} {g : Parser β} {i r1 r2 : Bytes} {a : α} {b : β}
    (h1 : f i = .ok r1 a) (h2 : g r1 = .ok r2 b) : pair f g i = .ok r2 (a, b) := by
  simp [pair, h1, h2]

theorem pmap_eval {f : Parser α} {g : α → β} {i r : Bytes} {a : α} (h : f i = .ok r a) :
    pmap f g i = .ok r (g a) := by
  simp [pmap, h, PRes.map]

theorem preceded_eval {f : Parser α} {g : Parser β} {i r1 r2 : Bytes} {a : α} {b : β}
    (h1 : f i = .ok r1 a) (h2 : g r1 = .ok r2 b) : preceded f g i = .ok r2 b :=
  pmap_eval (pair_eval h1 h2)

theorem terminated_eval {f : Parser α} {g : Parser β} {i r1 r2 : Bytes} {a : α} {b : β}
    (h1 : f i = .ok r1 a) (h2 : g r1 = .ok r2 b) : terminated f g i = .ok r2 a :=
  pmap_eval (pair_eval h1 h2)

theorem delimited_eval {f : Parser α} {g : Parser β} {h : Parser γ} {i r1 r2 r3 : Bytes} {a : α}
    {b : β} {c : γ} (h1 : f i = .ok r1 a) (h2 : g r1 = .ok r2 b) (h3 : h r2 = .ok r3 c) :
    delimited f g h i = .ok r3 b :=
  preceded_eval h1 (terminated_eval h2 h3)

theorem opt_err {f : Parser α} {i : Bytes} (h : f i = .err) : opt f i = .ok i none := by
  simp [opt, h]

theorem opt_ok {f : Parser α} {i r : Bytes} {a : α} (h : f i = .ok r a) : opt f i = .ok r (some a) := by
  simp [opt, h]

theorem isDigit_not_space {b : UInt8} (h : isDigit b = true) : isSpace b = false := by
  simp only [isDigit, Bool.and_eq_true, decide_eq_true_eq, UInt8.le_iff_toNat_le] at h
  simp only [isSpace, Bool.or_eq_false_iff, decide_eq_false_iff_not]
  constructor <;> intro e <;> rw [e] at h <;> simp at h

theorem tag_eval (t rest : Bytes) : tag t (t ++ rest) = .ok rest t := by
  unfold tag
  have : t.isPrefixOf (t ++ rest) = true := by simp [List.isPrefixOf_iff_prefix]
  simp [this]

end Nom

namespace Jaspar

/-- the blank-separated continuation of a count line -/
def restOf (xs : List Nat) : Bytes := xs.flatMap fun x => 0x20 :: digits x

theorem renderCounts_cons (x : Nat) (xs : List Nat) : renderCounts (x :: xs) = digits x ++ restOf xs := by
  induction xs generalizing x with
  | nil => simp [renderCounts, restOf]
  | cons y ys ih =>
    simp only [renderCounts]
    rw [ih y]
    simp [restOf]

theorem digits_startsNot_space (x : Nat) (y : Bytes) : StartsNot isSpace (digits x ++ y) := by
  obtain ⟨h1, _, h3⟩ := digits_spec x
  cases hd : digits x with
  | nil => exact absurd hd h3
  | cons b bs =>
    simp only [List.cons_append, StartsNot]
    exact isDigit_not_space (h1 b (by rw [hd]; simp))

theorem restOf_startsNot_digit (xs : List Nat) (e : UInt8) (he : isDigit e = false) (rest : Bytes) :
    StartsNot isDigit (restOf xs ++ e :: rest) := by
  cases xs with
  | nil => simpa [restOf, StartsNot] using he
  | cons x xs => simp only [restOf, List.flatMap_cons, List.cons_append, StartsNot]; decide

theorem space1_newline (rest : Bytes) : space1 (0x0A :: rest) = .err := by
  simp [space1, isSpace]

theorem space1_blank_digits (x : Nat) (y : Bytes) :
    space1 (0x20 :: (digits x ++ y)) = .ok (digits x ++ y) [0x20] := by
  have h := takeWhile_append_stop isSpace [0x20] (digits x ++ y) (by simp [isSpace])
    (digits_startsNot_space x y)
  simp only [List.cons_append, List.nil_append] at h
  simp only [space1, isSpace, h.1, h.2]
  simp

theorem sepLoop_counts (xs : List Nat) (hx : ∀ x ∈ xs, x < 4294967296) (e : UInt8)
    (hes : isSpace e = false) (hed : isDigit e = false) (rest : Bytes) :
    ∀ acc : List Nat, sepLoop space1 u32 (restOf xs ++ e :: rest) acc
      = .ok (e :: rest) (acc.reverse ++ xs) := by
  induction xs with
  | nil =>
    intro acc
    rw [sepLoop]
    simp [restOf, space1, hes]
  | cons x xs ih =>
    intro acc
    have hcons : restOf (x :: xs) ++ e :: rest = 0x20 :: (digits x ++ (restOf xs ++ e :: rest)) := by
      simp [restOf]
    rw [hcons, sepLoop, space1_blank_digits]
    have hu : u32 (digits x ++ (restOf xs ++ e :: rest)) = .ok (restOf xs ++ e :: rest) x :=
      uint_digits _ x (hx x (by simp)) _ (restOf_startsNot_digit xs e hed rest)
    simp only [hu]
    rw [if_pos (by simp), if_pos (by simp)]
    rw [ih (fun y hy => hx y (by simp [hy])) (x :: acc)]
    simp

/-- a rendered list of counts is read back by `separated_list0(space1, u32)`, which stops at the
    terminator `e` (neither a blank nor a digit) -/
theorem sepList0_render (xs : List Nat) (hx : ∀ x ∈ xs, x < 4294967296) (e : UInt8)
    (hes : isSpace e = false) (hed : isDigit e = false) (rest : Bytes) :
    sepList0 space1 u32 (renderCounts xs ++ e :: rest) = .ok (e :: rest) xs := by
  cases xs with
  | nil => simp [renderCounts, sepList0, u32, uint, hed]
  | cons x xs =>
    rw [renderCounts_cons, List.append_assoc]
    have hu : u32 (digits x ++ (restOf xs ++ e :: rest)) = .ok (restOf xs ++ e :: rest) x :=
      uint_digits _ x (hx x (by simp)) _ (restOf_startsNot_digit xs e hed rest)
    simp only [sepList0, hu]
    rw [sepLoop_counts xs (fun y hy => hx y (by simp [hy])) e hes hed rest [x]]
    simp

/-- `space1` fails on a rendered count list followed by a non-blank -/
theorem space1_renderCounts (xs : List Nat) (e : UInt8) (hes : isSpace e = false) (rest : Bytes) :
    space1 (renderCounts xs ++ e :: rest) = .err := by
  cases xs with
  | nil => simp [renderCounts, space1, hes]
  | cons x xs =>
    rw [renderCounts_cons, List.append_assoc]
    have := digits_startsNot_space x (restOf xs ++ e :: rest)
    cases hd : digits x ++ (restOf xs ++ e :: rest) with
    | nil => simp [space1]
    | cons b bs => rw [hd] at this; simp only [StartsNot] at this; simp [space1, this]

theorem counts_render (xs : List Nat) (hx : ∀ x ∈ xs, x < 4294967296) (rest : Bytes) :
    counts (renderCounts xs ++ 0x0A :: rest) = .ok (0x0A :: rest) xs := by
  unfold counts
  exact preceded_eval (opt_err (space1_renderCounts xs 0x0A (by decide) rest))
    (sepList0_render xs hx 0x0A (by decide) (by decide) rest)

/-- a rendered count line is read back exactly -/
theorem matrixColumn_render (xs : List Nat) (hx : ∀ x ∈ xs, x < 4294967296) (rest : Bytes) :
    matrixColumn (renderCounts xs ++ 0x0A :: rest) = .ok rest xs :=
  terminated_eval (b := [0x0A]) (counts_render xs hx rest) (by simp [lineEnding])

/-! ### the header line -/

theorem trimStart_blank (d : Bytes) : trimStart (0x20 :: d) = trimStart d := by
  conv => lhs; unfold trimStart
  simp [isWs1]

/-- what follows the id on a header line -/
def descTail : Option Bytes → Bytes
  | some d => 0x20 :: d
  | none => []

theorem header_render (id : Bytes) (d : Option Bytes) (h : WFHeader id d) (rest : Bytes) :
    header (renderHeader id d ++ rest) = .ok rest (id, d) := by
  obtain ⟨hid, _, hd⟩ := h
  -- the text after the id
  generalize hXdef : descTail d = X
  have hX : renderHeader id d ++ rest = [0x3E] ++ (id ++ (X ++ 0x0A :: rest)) := by
    rw [← hXdef]
    cases d <;> simp [renderHeader, descTail]
  have hXnl : ∀ b ∈ X, (b != 0x0A) = true := by
    intro b hb
    rw [← hXdef] at hb
    cases d with
    | none => simp [descTail] at hb
    | some d' =>
      simp only [descTail, List.mem_cons] at hb
      rcases hb with hb | hb
      · rw [hb]; decide
      · simpa using (hd.2.2.1 b hb).1
  have hstart : StartsNot (fun b => !isAsciiWs b) (X ++ 0x0A :: rest) := by
    rw [← hXdef]
    cases d with
    | none => simp only [descTail, List.nil_append, StartsNot]; decide
    | some d' => simp only [descTail, List.cons_append, StartsNot]; decide
  have h1 : preceded (tag [0x3E]) (takeWhile (fun b => !isAsciiWs b))
      ([0x3E] ++ (id ++ (X ++ 0x0A :: rest))) = .ok (X ++ 0x0A :: rest) id := by
    apply preceded_eval (tag_eval [0x3E] _)
    obtain ⟨t1, t2⟩ := takeWhile_append_stop (fun b => !isAsciiWs b) id (X ++ 0x0A :: rest)
      (fun b hb => by simp [(hid b hb).1]) hstart
    simp [takeWhile, t1, t2]
  have h2 : takeUntilByte 0x0A (X ++ 0x0A :: rest) = .ok (0x0A :: rest) X := by
    obtain ⟨t1, t2⟩ := takeWhile_append_stop (· != 0x0A) X (0x0A :: rest) hXnl
      (by simp only [StartsNot]; decide)
    simp [takeUntilByte, t1, t2]
  have h3 : lineEnding (0x0A :: rest) = .ok rest [0x0A] := by simp [lineEnding]
  have hdesc : descOf X = d := by
    rw [← hXdef]
    cases d with
    | none => simp [descTail, descOf, trim, trimStart, trimEnd, trimEndRev]
    | some d' =>
      have htrim : trim (0x20 :: d') = d' := by
        have := hd.2.1
        unfold trim at this ⊢
        rw [trimStart_blank]; exact this
      simp only [descTail, descOf, htrim]
      have : d'.isEmpty = false := by
        cases d' with
        | nil => exact absurd rfl hd.1
        | cons _ _ => rfl
      simp [this]
  rw [hX]
  unfold header
  rw [pmap_eval (pair_eval h1 (pair_eval h2 h3))]
  simp [hdesc]

/-! ### the matrix -/

theorem fillColumn_get {K : Nat} (s : Nat) (xs : List Nat) :
    ∀ (m m' : Mat Nat K) (i : Nat), fillColumn m s i xs = some m' →
      m'.rows = m.rows ∧ ∀ r c, m'.get r c =
        if c = s ∧ i ≤ r ∧ r < i + xs.length then xs.getD (r - i) 0 else m.get r c := by
  induction xs with
  | nil =>
    intro m m' i h
    simp only [fillColumn, Option.some.injEq] at h
    subst h
    exact ⟨rfl, fun r c => by rw [if_neg (by simp)]⟩
  | cons x xs ih =>
    intro m m' i h
    simp only [fillColumn] at h
    split at h
    · rename_i hc
      obtain ⟨g1, g2⟩ := ih (m.set i s x) m' (i + 1) h
      refine ⟨by simpa using g1, ?_⟩
      intro r c
      rw [g2 r c, Mat.get_set]
      by_cases hcs : c = s
      · by_cases hr : r = i
        · subst hr; subst hcs
          rw [if_neg (by omega), if_pos ⟨rfl, rfl, hc.1, hc.2⟩,
            if_pos ⟨rfl, Nat.le_refl _, by simp⟩]
          simp
        · by_cases hlo : i + 1 ≤ r ∧ r < i + 1 + xs.length
          · have e1 : c = s ∧ i + 1 ≤ r ∧ r < i + 1 + xs.length := ⟨hcs, hlo⟩
            have e2 : c = s ∧ i ≤ r ∧ r < i + (x :: xs).length := ⟨hcs, by omega, by simp; omega⟩
            rw [if_pos e1, if_pos e2]
            have : r - i = (r - (i + 1)) + 1 := by omega
            rw [this]; simp
          · have e1 : ¬ (c = s ∧ i + 1 ≤ r ∧ r < i + 1 + xs.length) := fun e => hlo e.2
            have e2 : ¬ (c = s ∧ i ≤ r ∧ r < i + (x :: xs).length) := by
              intro e; simp at e; omega
            rw [if_neg e1, if_neg e2]
            have e3 : ¬ (r = i ∧ c = s ∧ i < m.rows ∧ s < K) := fun e => hr e.1
            rw [if_neg e3]
      · have e1 : ¬ (c = s ∧ i + 1 ≤ r ∧ r < i + 1 + xs.length) := fun e => hcs e.1
        have e2 : ¬ (c = s ∧ i ≤ r ∧ r < i + (x :: xs).length) := fun e => hcs e.1
        have e3 : ¬ (r = i ∧ c = s ∧ i < m.rows ∧ s < K) := fun e => hcs e.2.1
        rw [if_neg e1, if_neg e2, if_neg e3]
    · cases h

theorem buildLoop_step {K : Nat} (m m' : Mat Nat K) (cs : List Nat) (s : Nat)
    (rest : List (List Nat × Nat)) (hlen : cs.length = m.rows) (h : fillColumn m s 0 cs = some m') :
    buildLoop m ((cs, s) :: rest) = buildLoop m' rest := by
  simp [buildLoop, hlen, h]

theorem fromAscii_A : dna.fromAscii 0x41 = some 0 := by decide
theorem fromAscii_C : dna.fromAscii 0x43 = some 1 := by decide
theorem fromAscii_G : dna.fromAscii 0x47 = some 3 := by decide
theorem fromAscii_T : dna.fromAscii 0x54 = some 2 := by decide

/-- `build_matrix` on four columns of one length yields the matrix with every count in the row
    of its position and the column of its symbol -/
theorem buildMatrix_render (r : Src) (hc : r.c.length = r.a.length) (hg : r.g.length = r.a.length)
    (ht : r.t.length = r.a.length) : buildMatrix [r.a, r.c, r.g, r.t] = .ok (expect r).matrix := by
  have hK : dna.K = 5 := rfl
  let m0 : Mat Nat dna.K := (Mat.empty : Mat Nat dna.K).resize r.a.length 0
  have hm0 : m0.rows = r.a.length := by simp [m0]
  obtain ⟨m1, f1, r1⟩ := fillColumn_some (K := dna.K) 0 (by omega) r.a m0 0 (by omega)
  obtain ⟨m2, f2, r2⟩ := fillColumn_some (K := dna.K) 1 (by omega) r.c m1 0 (by omega)
  obtain ⟨m3, f3, r3⟩ := fillColumn_some (K := dna.K) 3 (by omega) r.g m2 0 (by omega)
  obtain ⟨m4, f4, r4⟩ := fillColumn_some (K := dna.K) 2 (by omega) r.t m3 0 (by omega)
  have e : buildMatrix [r.a, r.c, r.g, r.t] = .ok m4 := by
    unfold buildMatrix
    simp only [symbols_eq, List.zip_cons_cons, List.zip_nil_right]
    rw [buildLoop_step m0 m1 _ _ _ (by omega) f1, buildLoop_step m1 m2 _ _ _ (by omega) f2,
      buildLoop_step m2 m3 _ _ _ (by omega) f3, buildLoop_step m3 m4 _ _ _ (by omega) f4]
    rfl
  rw [e]
  congr 1
  obtain ⟨_, g1⟩ := fillColumn_get 0 r.a m0 m1 0 f1
  obtain ⟨_, g2⟩ := fillColumn_get 1 r.c m1 m2 0 f2
  obtain ⟨_, g3⟩ := fillColumn_get 3 r.g m2 m3 0 f3
  obtain ⟨_, g4⟩ := fillColumn_get 2 r.t m3 m4 0 f4
  apply Mat.ext
  · simp [expect]; omega
  · intro i j hi hj
    have hi' : i < r.a.length := by omega
    rw [g4, g3, g2, g1]
    simp only [expect, Mat.get_ofFn, fromAscii_A, fromAscii_C, fromAscii_G, fromAscii_T,
      Option.some.injEq]
    have hm0get : m0.get i j = 0 := by simp [m0, hi', hj]
    rw [hm0get]
    have hj5 : j < 5 := by omega
    have : j = 0 ∨ j = 1 ∨ j = 2 ∨ j = 3 ∨ j = 4 := by omega
    rcases this with h | h | h | h | h <;> subst h <;> simp [hi', hc, hg, ht, hK]

theorem matrix_render (r : Src) (h : WF r) (rest : Bytes) :
    matrix (renderCounts r.a ++ [0x0A] ++ renderCounts r.c ++ [0x0A] ++ renderCounts r.g ++ [0x0A]
      ++ renderCounts r.t ++ [0x0A] ++ rest) = .ok rest (.ok (expect r).matrix) := by
  obtain ⟨_, hc, hg, ht, hx⟩ := h
  have ha' : ∀ x ∈ r.a, x < 4294967296 := fun x hx' => hx x (by simp [hx'])
  have hc' : ∀ x ∈ r.c, x < 4294967296 := fun x hx' => hx x (by simp [hx'])
  have hg' : ∀ x ∈ r.g, x < 4294967296 := fun x hx' => hx x (by simp [hx'])
  have ht' : ∀ x ∈ r.t, x < 4294967296 := fun x hx' => hx x (by simp [hx'])
  have e : renderCounts r.a ++ [0x0A] ++ renderCounts r.c ++ [0x0A] ++ renderCounts r.g ++ [0x0A]
      ++ renderCounts r.t ++ [0x0A] ++ rest
      = renderCounts r.a ++ 0x0A :: (renderCounts r.c ++ 0x0A :: (renderCounts r.g ++ 0x0A ::
          (renderCounts r.t ++ 0x0A :: rest))) := by simp
  rw [e]
  unfold matrix built
  rw [pair_eval (matrixColumn_render r.a ha' _)
    (pair_eval (matrixColumn_render r.c hc' _)
      (pair_eval (matrixColumn_render r.g hg' _) (matrixColumn_render r.t ht' _)))]
  simp only [buildMatrix_render r hc hg ht]

/-- **the record parser reads a rendered motif back exactly**, whatever follows it -/
theorem record_render (r : Src) (h : WF r) (rest : Bytes) :
    record (render1 r ++ rest) = .ok rest (.ok (expect r)) := by
  have e : render1 r ++ rest = renderHeader r.id r.description ++
      (renderCounts r.a ++ [0x0A] ++ renderCounts r.c ++ [0x0A] ++ renderCounts r.g ++ [0x0A]
        ++ renderCounts r.t ++ [0x0A] ++ rest) := by simp [render1]
  rw [e]
  unfold record
  rw [pmap_eval (pair_eval (header_render r.id r.description h.1 _) (matrix_render r h rest))]
  rfl

/-! ### the reader on a rendered file -/

/-- one call of `next` that parses a record: the outcome and the abstract state afterwards
    (`pending = buffer[start..]`), whatever the capacity policy and the chunk schedule -/
theorem next_success {ρ : Type} (parse : Parser (Except String ρ)) (grow : Nat → Nat → Nat → Nat)
    (s : State) (hinv : Inv s) (consumed rest : Bytes) (rec : ρ)
    (hbytes : s.buffer.drop s.start ++ through 0x3E s.data = consumed ++ rest)
    (hutf : validUtf8 (consumed ++ rest) = true)
    (hne : through 0x3E s.data ≠ [])
    (hparse : parse (consumed ++ rest) = .ok rest (.ok rec)) :
    (next parse grow s).1 = .record rec ∧ Inv (next parse grow s).2 ∧
    (next parse grow s).2.buffer.drop (next parse grow s).2.start = rest ∧
    (next parse grow s).2.data = after 0x3E s.data := by
  unfold Inv at hinv
  have hdrop : (s.buffer ++ (readUntil 0x3E s.sched s.data).1).drop s.start = consumed ++ rest := by
    rw [readUntil_fst, List.drop_append_of_le_length hinv, hbytes]
  have hlen : (s.buffer ++ (readUntil 0x3E s.sched s.data).1).length = s.start + (consumed ++ rest).length := by
    rw [← hdrop]; simp; omega
  unfold next
  simp only
  rw [if_neg (by rw [hlen]; omega), hdrop, hutf]
  simp only [Bool.not_true, Bool.false_eq_true, if_false]
  rw [if_neg (by rw [readUntil_fst]; intro h; exact hne (List.length_eq_zero_iff.mp h.1))]
  rw [hparse]
  simp only
  rw [if_neg (by simp)]
  have hcl : (consumed ++ rest).length - rest.length = consumed.length := by simp
  rw [hcl]
  have hdrop2 : (s.buffer ++ (readUntil 0x3E s.sched s.data).1).drop (s.start + consumed.length) = rest := by
    rw [← List.drop_drop, hdrop]; simp
  split
  · rw [if_neg (by rw [hlen]; simp)]
    refine ⟨rfl, by simp [Inv], ?_, by simp [readUntil_snd]⟩
    simp only [List.drop_zero]
    exact hdrop2
  · refine ⟨rfl, ?_, hdrop2, by simp [readUntil_snd]⟩
    simp only [Inv]
    rw [hlen]; simp

/-- a call of `next` at the end of the input, nothing but blanks pending: end of input -/
theorem next_done {ρ : Type} (parse : Parser (Except String ρ)) (grow : Nat → Nat → Nat → Nat)
    (s : State) (hinv : Inv s) (hp : s.buffer.drop s.start = []) (hd : s.data = []) :
    (next parse grow s).1 = .done := by
  unfold Inv at hinv
  have hr : (readUntil 0x3E s.sched s.data).1 = [] := by rw [readUntil_fst, hd]; rfl
  unfold next
  simp only
  rw [hr]
  simp only [List.append_nil, List.length_nil]
  rw [if_neg (by omega), hp]
  simp [validUtf8, isBlank, trimStart]

/-! #### any format read by this reader -/

section Generic

variable {ρ src : Type}

/-- the text of a motif after its first byte (the `>`) -/
def gbody (render1 : src → Bytes) (r : src) : Bytes := (render1 r).tail

/-- what the stream holds once the `>` of the first of the motifs `rs` has been read -/
def streamOf (render1 : src → Bytes) : List src → Bytes
  | [] => []
  | r :: rs => gbody render1 r ++ rs.flatMap render1

/-- the `>` that ends the text of a motif followed by another one -/
def nextMark : List src → Bytes
  | [] => []
  | _ :: _ => [0x3E]

/-- what the reader-level round trip needs to know about a format -/
structure FormatOK (parse : Parser (Except String ρ)) (render1 : src → Bytes) (expect : src → ρ)
    (WF : src → Prop) : Prop where
  head : ∀ r, WF r → render1 r = 0x3E :: gbody render1 r
  noMark : ∀ r, WF r → (0x3E : UInt8) ∉ gbody render1 r
  utf8 : ∀ r, WF r → validUtf8 (render1 r) = true
  ne : ∀ r, WF r → gbody render1 r ≠ []
  parse_ok : ∀ r, WF r → ∀ rest, (rest = [] ∨ rest = [0x3E]) →
    parse (render1 r ++ rest) = .ok rest (.ok (expect r))

variable {parse : Parser (Except String ρ)} {render1 : src → Bytes} {expect : src → ρ}
  {WF : src → Prop}

theorem through_stream (F : FormatOK parse render1 expect WF) (r : src) (rs : List src)
    (h : WF r) (hrs : ∀ r' ∈ rs, WF r') :
    through 0x3E (streamOf render1 (r :: rs)) = gbody render1 r ++ nextMark rs ∧
    after 0x3E (streamOf render1 (r :: rs)) = streamOf render1 rs := by
  have hb := F.noMark r h
  cases rs with
  | nil =>
    simp only [streamOf, List.flatMap_nil, List.append_nil, nextMark]
    exact ⟨through_eq_self_of_not_mem _ _ hb, after_eq_nil_of_not_mem _ _ hb⟩
  | cons r2 rs' =>
    simp only [streamOf, nextMark, List.flatMap_cons]
    rw [F.head r2 (hrs r2 (by simp)), through_append, after_append, if_neg hb, if_neg hb]
    simp [through, after]

theorem outcomes_render (F : FormatOK parse render1 expect WF) (grow : Nat → Nat → Nat → Nat)
    (rs : List src) (hwf : ∀ r ∈ rs, WF r) :
    ∀ s : State, Inv s → s.buffer.drop s.start = nextMark rs → s.data = streamOf render1 rs →
      outcomes (next parse grow) (rs.length + 1) s
        = rs.map (fun r => Outcome.record (expect r)) ++ [Outcome.done] := by
  induction rs with
  | nil =>
    intro s hinv hp hd
    simp only [List.length_nil, outcomes, List.map_nil, List.nil_append]
    rw [next_done parse grow s hinv hp hd]
  | cons r rs ih =>
    intro s hinv hp hd
    have hr : WF r := hwf r (by simp)
    have hrs : ∀ r' ∈ rs, WF r' := fun r' hr' => hwf r' (by simp [hr'])
    obtain ⟨ht, ha⟩ := through_stream F r rs hr hrs
    rw [← hd] at ht ha
    have hmark : nextMark rs = [] ∨ nextMark rs = [0x3E] := by cases rs <;> simp [nextMark]
    have hstep := next_success parse grow s hinv (render1 r) (nextMark rs) (expect r)
      (by rw [hp, ht, F.head r hr]; simp [nextMark])
      (by
        rw [validUtf8_append _ _ (F.utf8 r hr)]
        rcases hmark with h | h <;> rw [h] <;> decide)
      (by rw [ht]; intro e; exact F.ne r hr (List.append_eq_nil_iff.mp e).1)
      (F.parse_ok r hr _ hmark)
    obtain ⟨h1, h2, h3, h4⟩ := hstep
    simp only [List.length_cons, outcomes, List.map_cons, List.cons_append]
    rw [h1]
    congr 1
    exact ih hrs _ h2 h3 (by rw [h4, ha])

/-- **round trip through the JASPAR reader**, for any format with the properties `FormatOK`:
    reading a rendered file of well-formed motifs returns exactly those motifs, in order, then end
    of input — for every number of motifs, every chunk schedule and every capacity policy -/
theorem roundTrip_of (F : FormatOK parse render1 expect WF) (grow : Nat → Nat → Nat → Nat)
    (sched : List Nat) (rs : List src) (hwf : ∀ r ∈ rs, WF r) :
    outcomes (next parse grow) (rs.length + 1) (new grow sched (rs.flatMap render1))
      = rs.map (fun r => Outcome.record (expect r)) ++ [Outcome.done] := by
  apply outcomes_render F grow rs hwf _ (new_inv grow sched _)
  · cases rs with
    | nil => simp [new, readUntil_fst, through, nextMark]
    | cons r rs' =>
      simp only [new, readUntil_fst, List.flatMap_cons, F.head r (hwf r (by simp)), List.cons_append,
        through, if_true, nextMark]
      rfl
  · cases rs with
    | nil => simp [new, readUntil_snd, after, streamOf]
    | cons r rs' =>
      simp [new, readUntil_snd, List.flatMap_cons, F.head r (hwf r (by simp)), after, streamOf]

end Generic

/-! #### JASPAR (raw) -/

theorem renderCounts_bytes (xs : List Nat) : ∀ b ∈ renderCounts xs, isDigit b = true ∨ b = 0x20 := by
  induction xs with
  | nil => simp [renderCounts]
  | cons x xs ih =>
    intro b hb
    rw [renderCounts_cons] at hb
    rcases List.mem_append.mp hb with hb | hb
    · exact Or.inl ((digits_spec x).1 b hb)
    · cases xs with
      | nil => simp [restOf] at hb
      | cons y ys =>
        simp only [restOf, List.flatMap_cons, List.cons_append, List.mem_cons] at hb
        rcases hb with hb | hb
        · exact Or.inr hb
        · apply ih
          rw [renderCounts_cons]
          simpa [restOf] using hb

theorem isDigit_props {b : UInt8} (h : isDigit b = true) : b ≠ 0x3E ∧ b < 0x80 := by
  simp only [isDigit, Bool.and_eq_true, decide_eq_true_eq, UInt8.le_iff_toNat_le] at h
  constructor
  · intro e; rw [e] at h; simp at h
  · simp only [UInt8.lt_iff_toNat_lt]
    have : (0x39 : UInt8).toNat = 57 := rfl
    have : (0x80 : UInt8).toNat = 128 := rfl
    omega

theorem renderCounts_ok (xs : List Nat) :
    (0x3E : UInt8) ∉ renderCounts xs ∧ validUtf8 (renderCounts xs) = true := by
  constructor
  · intro h
    rcases renderCounts_bytes xs _ h with h' | h'
    · exact (isDigit_props h').1 rfl
    · cases h'
  · apply validUtf8_ascii
    intro b hb
    rcases renderCounts_bytes xs b hb with h' | h'
    · exact (isDigit_props h').2
    · rw [h']; decide

/-- a well-formed header line has no `>` after the first byte and is valid UTF-8 -/
theorem header_ok (id : Bytes) (d : Option Bytes) (h : WFHeader id d) :
    renderHeader id d = 0x3E :: (id ++ (descTail d ++ [0x0A])) ∧
    (0x3E : UInt8) ∉ id ++ (descTail d ++ [0x0A]) ∧
    ∀ x : Bytes, validUtf8 (renderHeader id d ++ x) = validUtf8 x := by
  obtain ⟨hid, hidv, hd⟩ := h
  have hdt : (0x3E : UInt8) ∉ descTail d ∧ validUtf8 (descTail d) = true := by
    cases d with
    | none => simp [descTail, validUtf8]
    | some d' =>
      simp only [descTail]
      constructor
      · intro hm
        simp only [List.mem_cons] at hm
        rcases hm with hm | hm
        · cases hm
        · exact (hd.2.2.1 _ hm).2 rfl
      · rw [validUtf8_cons, if_pos (by decide)]; exact hd.2.2.2
  have e : renderHeader id d = 0x3E :: (id ++ (descTail d ++ [0x0A])) := by
    cases d <;> simp [renderHeader, descTail]
  refine ⟨e, ?_, ?_⟩
  · simp only [List.mem_append, List.mem_cons, not_or, List.not_mem_nil, or_false]
    exact ⟨fun hm => (hid _ hm).2 rfl, hdt.1, by decide⟩
  · intro x
    rw [e, List.cons_append, validUtf8_cons, if_pos (by decide), List.append_assoc, List.append_assoc,
      validUtf8_append _ _ hidv, validUtf8_append _ _ hdt.2]
    simp only [List.cons_append, List.nil_append]
    rw [validUtf8_cons, if_pos (by decide)]

theorem formatOK : FormatOK record render1 expect WF := by
  have nl : ∀ x : Bytes, validUtf8 (0x0A :: x) = validUtf8 x := fun x => by
    rw [validUtf8_cons, if_pos (by decide)]
  have hbody : ∀ r, WF r → render1 r = 0x3E :: (r.id ++ (descTail r.description ++ [0x0A]) ++
      (renderCounts r.a ++ [0x0A] ++ renderCounts r.c ++ [0x0A] ++ renderCounts r.g ++ [0x0A]
        ++ renderCounts r.t ++ [0x0A])) := by
    intro r h
    simp only [render1, (header_ok _ _ h.1).1]
    simp
  constructor
  · intro r h; rw [gbody, hbody r h]; rfl
  · intro r h
    rw [gbody, hbody r h]
    simp only [List.tail_cons, List.mem_append, List.mem_cons, not_or, List.not_mem_nil, or_false]
    have := (header_ok _ _ h.1).2.1
    simp only [List.mem_append, List.mem_cons, not_or, List.not_mem_nil, or_false] at this
    exact ⟨this, ⟨⟨⟨⟨⟨⟨(renderCounts_ok _).1, by decide⟩, (renderCounts_ok _).1⟩, by decide⟩,
      (renderCounts_ok _).1⟩, by decide⟩, (renderCounts_ok _).1⟩, by decide⟩
  · intro r h
    have e : render1 r = renderHeader r.id r.description ++ (renderCounts r.a ++ (0x0A ::
        (renderCounts r.c ++ (0x0A :: (renderCounts r.g ++ (0x0A :: (renderCounts r.t ++ [0x0A]))))))) := by
      simp [render1]
    rw [e, (header_ok _ _ h.1).2.2, validUtf8_append _ _ (renderCounts_ok _).2, nl,
      validUtf8_append _ _ (renderCounts_ok _).2, nl, validUtf8_append _ _ (renderCounts_ok _).2, nl,
      validUtf8_append _ _ (renderCounts_ok _).2]
    rfl
  · intro r h; rw [gbody, hbody r h]; simp
  · intro r h rest _; exact record_render r h rest

/-- **JASPAR (raw) round trip** -/
theorem roundTrip (grow : Nat → Nat → Nat → Nat) (sched : List Nat) (rs : List Src)
    (hwf : ∀ r ∈ rs, WF r) :
    outcomes (next record grow) (rs.length + 1) (new grow sched (render rs))
      = rs.map (fun r => Outcome.record (expect r)) ++ [Outcome.done] :=
  roundTrip_of formatOK grow sched rs hwf

end Jaspar



end LMV
