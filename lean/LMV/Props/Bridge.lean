/-  Bridge — machine-checked connections between properties (overview in Bridge/B1.lean);
    §B1 belongs to C07, §B2 to C02 / C03, §B3 to C04  -/
import LMV.Props.Bridge.B1
import LMV.Props.Bridge.B2
import LMV.Props.Bridge.B3
