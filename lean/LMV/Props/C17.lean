/-
  C17 — Python results equal the results of the core library on the same data.
-/
import LMV.Model.PyApi

namespace LMV
namespace C17
open PyApi

theorem placeholder : (1 : Nat) = 1 := rfl

end C17
end LMV
