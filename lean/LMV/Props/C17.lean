/-
  C17 — Python results equal the results of the core library on the same data.

  The model (LMV.Model.PyApi) gives every entry point of the Python module as the composition of
  core-library operations it runs (`Term` over `Op`) or the Python exception it raises.  The theorems
  below state, for every argument, WHICH composition that is — so that, under any interpretation of
  the operations (`Term.eval`: the core models of C01–C14, or the core library itself, which is what
  the correspondence run uses), the Python result is the core result on the same data — and that
  invalid arguments and alphabet mismatches are `ValueError` / `TypeError` / `RuntimeError` / `OSError`,
  never anything else.  Floating-point facts the branches depend on (`F32Ops`) are arbitrary.
-/
import LMV.Model.PyApi

namespace LMV
namespace C17
open PyApi

/-- a toy instance of the floating-point facts for the non-vacuity examples: frequencies are numerators
    over 64 -/
def toy : F32Ops :=
  { bgValid := fun p => p.sum == 64, freqsNe := fun a b => a != b, uniform := fun _ => [16, 16, 16, 16, 0] }

/-! ### dictionary -> array by symbol -/

/-- an entry the glue accepts: a one-character key naming a symbol, a numeric value -/
def EntryOk (A : Alphabet) (e : DictEntry) (sym v : Nat) : Prop :=
  ∃ b, e.key = some [b] ∧ A.fromAscii b = some sym ∧ e.val = some v

/-- one step of `dict_to_alphabet_array` on an acceptable entry -/
theorem dict_step_ok (A : Alphabet) (e : DictEntry) (sym v : Nat) (h : EntryOk A e sym v) (p : List Nat) :
    (match e.key with
     | none => (Except.error Exc.typeError : Except Exc (List Nat))
     | some bytes =>
       match bytes with
       | [b] =>
         match A.fromAscii b with
         | none => .error .valueError
         | some sym =>
           match e.val with
           | none => .error .typeError
           | some v => .ok (p.set sym v)
       | _ => .error .valueError) = .ok (p.set sym v) := by
  obtain ⟨b, hk, hs, hv⟩ := h
  simp [hk, hs, hv]

/-- entries `es` are acceptable and denote the (symbol, value) pairs `svs`, in order -/
inductive AllOk (A : Alphabet) : List DictEntry → List (Nat × Nat) → Prop
  | nil : AllOk A [] []
  | cons {e sv es svs} : EntryOk A e sv.1 sv.2 → AllOk A es svs → AllOk A (e :: es) (sv :: svs)

/-- the pure fold the glue performs when every entry is acceptable -/
def assign (p : List Nat) : List (Nat × Nat) → List Nat
  | [] => p
  | (sym, v) :: rest => assign (p.set sym v) rest

theorem dict_fold_ok (A : Alphabet) (es : List DictEntry) (svs : List (Nat × Nat))
    (h : AllOk A es svs) (p : List Nat) :
    es.foldlM (fun p e =>
      match e.key with
      | none => (Except.error Exc.typeError : Except Exc (List Nat))
      | some bytes =>
        match bytes with
        | [b] =>
          match A.fromAscii b with
          | none => .error .valueError
          | some sym =>
            match e.val with
            | none => .error .typeError
            | some v => .ok (p.set sym v)
        | _ => .error .valueError) p = .ok (assign p svs) := by
  induction h generalizing p with
  | nil => rfl
  | @cons e sv es' svs' hd _ ih =>
    simp only [List.foldlM_cons]
    rw [dict_step_ok A e sv.1 sv.2 hd p]
    simp only [bind, Except.bind]
    exact ih (p.set sv.1 sv.2)

/-- `dict_to_alphabet_array` on acceptable entries: the array of `K` zeros with the values assigned by
    symbol, in iteration order -/
theorem dictToAlphabetArray_ok (A : Alphabet) (es : List DictEntry) (svs : List (Nat × Nat))
    (h : AllOk A es svs) :
    dictToAlphabetArray A es = .ok (assign (List.replicate A.K 0) svs) :=
  dict_fold_ok A es svs h _

theorem assign_length (p : List Nat) (svs : List (Nat × Nat)) : (assign p svs).length = p.length := by
  induction svs generalizing p with
  | nil => rfl
  | cons sv rest ih => simp [assign, ih]

/-- symbols that are not assigned keep their value -/
theorem assign_get_other (p : List Nat) (svs : List (Nat × Nat)) (s : Nat) (h : ∀ sv ∈ svs, sv.1 ≠ s) :
    (assign p svs)[s]? = p[s]? := by
  induction svs generalizing p with
  | nil => rfl
  | cons sv rest ih =>
    simp only [assign]
    rw [ih _ (fun x hx => h x (List.mem_cons_of_mem _ hx))]
    have := h sv (List.mem_cons_self)
    simp [this]

/-- a Python dict has distinct keys: with pairwise distinct symbols, the array holds exactly the value
    given for each symbol … -/
theorem assign_get (p : List Nat) (svs : List (Nat × Nat)) (hd : (svs.map (·.1)).Nodup)
    (sv : Nat × Nat) (hm : sv ∈ svs) (hb : sv.1 < p.length) : (assign p svs)[sv.1]? = some sv.2 := by
  induction svs generalizing p with
  | nil => cases hm
  | cons x rest ih =>
    simp only [List.map_cons, List.nodup_cons] at hd
    simp only [assign]
    cases List.mem_cons.mp hm with
    | inl heq =>
      subst heq
      rw [assign_get_other]
      · simp [hb]
      · intro y hy hxy
        exact hd.1 (List.mem_map.mpr ⟨y, hy, hxy⟩)
    | inr hin =>
      exact ih (p.set x.1 x.2) hd.2 hin (by simpa using hb)

/-- … and zero for every symbol the dictionary does not mention -/
theorem dictToAlphabetArray_unmentioned (A : Alphabet) (svs : List (Nat × Nat)) (s : Nat)
    (hs : s < A.K) (h : ∀ sv ∈ svs, sv.1 ≠ s) : (assign (List.replicate A.K 0) svs)[s]? = some 0 := by
  rw [assign_get_other _ _ _ h]
  simp [hs]

/-- whatever the dictionary contains, the only exceptions are `TypeError` and `ValueError` -/
theorem dictToAlphabetArray_errors (A : Alphabet) (es : List DictEntry) (e : Exc)
    (h : dictToAlphabetArray A es = .error e) : e = .typeError ∨ e = .valueError := by
  unfold dictToAlphabetArray at h
  generalize List.replicate A.K 0 = p at h
  induction es generalizing p with
  | nil => simp [List.foldlM, pure, Except.pure] at h
  | cons x rest ih =>
    simp only [List.foldlM_cons] at h
    cases hk : x.key with
    | none => simp [hk, bind, Except.bind] at h; exact Or.inl h.symm
    | some bytes =>
      match bytes, hk with
      | [], hk => simp [hk, bind, Except.bind] at h; exact Or.inr h.symm
      | [b], hk =>
        cases hs : A.fromAscii b with
        | none => simp [hk, hs, bind, Except.bind] at h; exact Or.inr h.symm
        | some sym =>
          cases hv : x.val with
          | none => simp [hk, hs, hv, bind, Except.bind] at h; exact Or.inl h.symm
          | some v =>
            simp [hk, hs, hv, bind, Except.bind] at h
            exact ih _ h
      | _ :: _ :: _, hk => simp [hk, bind, Except.bind] at h; exact Or.inr h.symm

example : dictToAlphabetArray dna [⟨some [65], some 7⟩, ⟨some [71], some 9⟩] = .ok [7, 0, 0, 9, 0] ∧
    dictToAlphabetArray dna [⟨some [65, 66], some 7⟩] = .error .valueError ∧
    dictToAlphabetArray dna [⟨some [90], some 7⟩] = .error .valueError ∧
    dictToAlphabetArray dna [⟨none, some 7⟩] = .error .typeError ∧
    dictToAlphabetArray dna [⟨some [65], none⟩] = .error .typeError := by decide

/-! ### `CountMatrix.normalize` -/

/-- C17, `normalize`: the result is `self.to_freq(pseudo).to_weight(None)` with the pseudocounts the
    argument denotes — none, the same count for every symbol, or the dictionary's value by symbol -/
theorem normalize_spec (A : Alphabet) (self : Term) :
    normalize A self .none = .ok (.app1 .toWeight (.app2 .toFreq self (.app0 .pseudoDefault))) ∧
    (∀ b, normalize A self (.float b) = .ok (.app1 .toWeight (.app2 .toFreq self (.app1 .pseudoUniform (.f32 b))))) ∧
    (∀ es p, dictToAlphabetArray A es = .ok p →
      normalize A self (.dict es) = .ok (.app1 .toWeight (.app2 .toFreq self (.app1 .pseudoArray (.arr p))))) ∧
    (∀ es e, dictToAlphabetArray A es = .error e → normalize A self (.dict es) = .error e) ∧
    normalize A self .other = .error .typeError := by
  refine ⟨rfl, fun _ => rfl, ?_, ?_, rfl⟩
  · intro es p h; simp [normalize, pseudoOf, h]
  · intro es e h; simp [normalize, pseudoOf, h]

theorem normalize_errors (A : Alphabet) (self : Term) (arg : PyArg) (e : Exc)
    (h : normalize A self arg = .error e) : e = .typeError ∨ e = .valueError := by
  cases arg with
  | none => simp [normalize, pseudoOf] at h
  | float b => simp [normalize, pseudoOf] at h
  | other => simp [normalize, pseudoOf] at h; exact Or.inl h.symm
  | dict es =>
    cases hd : dictToAlphabetArray A es with
    | ok p => simp [normalize, pseudoOf, hd] at h
    | error e' =>
      simp [normalize, pseudoOf, hd] at h
      subst h
      exact dictToAlphabetArray_errors A es e' hd

example : normalize dna (.arg "self") (.dict [⟨some [84], some 3⟩]) =
    .ok (.app1 .toWeight (.app2 .toFreq (.arg "self") (.app1 .pseudoArray (.arr [0, 0, 3, 0, 0])))) := by decide

/-! ### `WeightMatrix.log_odds` -/

/-- C17, `log_odds`: with a valid background the result is
    `(if background ≠ self.background then self.rescale(background) else self.clone()).to_scoring_with_base(base)` -/
theorem logOdds_spec (F : F32Ops) (A : Alphabet) (self : Term) (selfBg : List Nat) (arg : PyArg) (base : Nat)
    (bg : Term) (freqs : List Nat) (h : backgroundOf F A arg = .ok (bg, freqs)) :
    logOdds F A self selfBg arg base =
      .ok (.app2 .toScoringWithBase
            (if F.freqsNe freqs selfBg then Term.app2 .rescale self bg else Term.app1 .clone self) (.f32 base)) := by
  simp [logOdds, h]

/-- a GIVEN background that differs from the matrix's own is applied: the composition contains
    `rescale(self, Background::new(array of the dictionary))` -/
theorem logOdds_applies_background (F : F32Ops) (A : Alphabet) (self : Term) (selfBg : List Nat)
    (es : List DictEntry) (p : List Nat) (base : Nat)
    (hd : dictToAlphabetArray A es = .ok p) (hv : F.bgValid p = true) (hne : F.freqsNe p selfBg = true) :
    logOdds F A self selfBg (.dict es) base =
      .ok (.app2 .toScoringWithBase (.app2 .rescale self (.app1 .bgNew (.arr p))) (.f32 base)) := by
  have hb : backgroundOf F A (.dict es) = .ok (.app1 .bgNew (.arr p), p) := by simp [backgroundOf, hd, hv]
  rw [logOdds_spec F A self selfBg _ base _ _ hb]
  simp [hne]

/-- no background given: nothing to rescale when the matrix was computed under the uniform background -/
theorem logOdds_default (F : F32Ops) (A : Alphabet) (self : Term) (base : Nat)
    (heq : F.freqsNe (F.uniform A) (F.uniform A) = false) :
    logOdds F A self (F.uniform A) .none base =
      .ok (.app2 .toScoringWithBase (.app1 .clone self) (.f32 base)) := by
  simp [logOdds, backgroundOf, heq]

theorem logOdds_errors (F : F32Ops) (A : Alphabet) (self : Term) (selfBg : List Nat) (arg : PyArg)
    (base : Nat) (e : Exc) (h : logOdds F A self selfBg arg base = .error e) :
    e = .typeError ∨ e = .valueError := by
  cases arg with
  | none => simp [logOdds, backgroundOf] at h
  | float b => simp [logOdds, backgroundOf] at h; exact Or.inl h.symm
  | other => simp [logOdds, backgroundOf] at h; exact Or.inl h.symm
  | dict es =>
    cases hd : dictToAlphabetArray A es with
    | ok p =>
      by_cases hv : F.bgValid p = true
      · simp [logOdds, backgroundOf, hd, hv] at h
      · simp [logOdds, backgroundOf, hd, hv] at h; exact Or.inr h.symm
    | error e' =>
      simp [logOdds, backgroundOf, hd] at h
      subst h
      exact dictToAlphabetArray_errors A es e' hd

/-- the pinned commit (arms swapped): EVERY valid background that differs from the matrix's own is
    ignored — the composition is `self.clone().to_scoring_with_base(base)`, in which the background
    does not occur -/
theorem logOddsAsIs_ignores_background (F : F32Ops) (A : Alphabet) (self : Term) (selfBg : List Nat)
    (es : List DictEntry) (p : List Nat) (base : Nat)
    (hd : dictToAlphabetArray A es = .ok p) (hv : F.bgValid p = true) (hne : F.freqsNe p selfBg = true) :
    logOddsAsIs F A self selfBg (.dict es) base =
      .ok (.app2 .toScoringWithBase (.app1 .clone self) (.f32 base)) := by
  simp [logOddsAsIs, backgroundOf, hd, hv, hne]

example : logOdds toy dna (.arg "w") [16, 16, 16, 16, 0]
      (.dict [⟨some [65], some 8⟩, ⟨some [67], some 8⟩, ⟨some [84], some 24⟩, ⟨some [71], some 24⟩]) 7 =
    .ok (.app2 .toScoringWithBase (.app2 .rescale (.arg "w") (.app1 .bgNew (.arr [8, 8, 24, 24, 0]))) (.f32 7)) ∧
    logOddsAsIs toy dna (.arg "w") [16, 16, 16, 16, 0]
      (.dict [⟨some [65], some 8⟩, ⟨some [67], some 8⟩, ⟨some [84], some 24⟩, ⟨some [71], some 24⟩]) 7 =
    .ok (.app2 .toScoringWithBase (.app1 .clone (.arg "w")) (.f32 7)) ∧
    logOdds toy dna (.arg "w") [16, 16, 16, 16, 0] (.dict [⟨some [65], some 8⟩]) 7 = .error .valueError := by decide

/-! ### `CountMatrix(values)`: dictionary of columns -> matrix, by symbol -/

/-- a well-formed column as Python passes it -/
def encCol (c : List Nat) : CountColumn := some (c.map fun v => some (Int.ofNat v))

theorem countEntries_ok (c : List Nat) (h : ∀ v ∈ c, v < 4294967296) :
    countEntries (c.map fun v => some (Int.ofNat v)) = .ok c := by
  induction c with
  | nil => rfl
  | cons x rest ih =>
    have hx := h x List.mem_cons_self
    have hr := ih (fun v hv => h v (List.mem_cons_of_mem _ hv))
    simp only [List.map_cons, countEntries]
    have : ¬ (Int.ofNat x < 0 ∨ Int.ofNat x ≥ 4294967296) := by
      simp only [Int.ofNat_eq_natCast]; omega
    rw [if_neg this, hr]
    simp

/-- the matrix the loop builds, as a pure fold: absent columns are skipped -/
def fill (K n : Nat) : Option Rows × Nat → List (Option (List Nat)) → Option Rows × Nat
  | st, [] => st
  | st, none :: rest => fill K n (st.1, st.2 + 1) rest
  | st, some c :: rest =>
    fill K n (some (setColumn (st.1.getD (List.replicate n (List.replicate K 0))) st.2 c), st.2 + 1) rest

theorem setColumn_length (m : Rows) (j : Nat) (vals : List Nat) : (setColumn m j vals).length = m.length := by
  simp [setColumn]

theorem fold_eq_fill (A : Alphabet) (n : Nat) (cols : List (Option (List Nat)))
    (hc : ∀ c, some c ∈ cols → c.length = n ∧ ∀ v ∈ c, v < 4294967296)
    (st : Option Rows × Nat) (hst : ∀ m, st.1 = some m → m.length = n) :
    (cols.map (Option.map encCol)).foldlM (countStep A) st = .ok (fill A.K n st cols) := by
  induction cols generalizing st with
  | nil => rfl
  | cons c rest ih =>
    have hrest : ∀ c', some c' ∈ rest → c'.length = n ∧ ∀ v ∈ c', v < 4294967296 :=
      fun c' h => hc c' (List.mem_cons_of_mem _ h)
    cases c with
    | none =>
      simp only [List.map_cons, Option.map_none, List.foldlM_cons, countStep, bind, Except.bind, fill]
      exact ih hrest _ hst
    | some c =>
      obtain ⟨hlen, hvals⟩ := hc c List.mem_cons_self
      obtain ⟨d, j⟩ := st
      cases d with
      | none =>
        simp only [List.map_cons, Option.map_some, List.foldlM_cons, encCol, countStep, List.length_map,
          List.length_replicate, ne_eq, not_true_eq_false, if_false, countEntries_ok c hvals, bind, Except.bind, fill,
          Option.getD_none, hlen]
        apply ih hrest
        intro m hm'
        simp only at hm'
        cases hm'
        simp [setColumn_length]
      | some m =>
        have hml : m.length = n := hst m rfl
        have hne : ¬ (m.length ≠ c.length) := by simp [hml, hlen]
        simp only [List.map_cons, Option.map_some, List.foldlM_cons, encCol, countStep, List.length_map,
          if_neg hne, countEntries_ok c hvals, bind, Except.bind, fill, Option.getD_some]
        apply ih hrest
        intro m' hm'
        simp only at hm'
        cases hm'
        simp [setColumn_length, hml]

/-- entry `(i, j)` of a matrix given as rows (0 outside) -/
def cell (m : Rows) (i j : Nat) : Nat := (m.getD i []).getD j 0

/-- all rows have `K` entries -/
def Rect (m : Rows) (n K : Nat) : Prop := m.length = n ∧ ∀ row ∈ m, row.length = K

theorem setColumn_getD (m : Rows) (j : Nat) (vals : List Nat) (i v : Nat) (hi : i < m.length)
    (hv : vals[i]? = some v) : (setColumn m j vals).getD i [] = (m.getD i []).set j v := by
  simp only [setColumn, List.getD_eq_getElem?_getD, List.getElem?_map]
  have h1 : (m.zip (List.range m.length))[i]? = some (m[i], i) := by
    rw [List.getElem?_eq_getElem (by simp [hi])]
    simp
  simp [h1, List.getElem?_eq_getElem hi, hv]

theorem setColumn_rect (m : Rows) (n K j : Nat) (vals : List Nat) (h : Rect m n K) :
    Rect (setColumn m j vals) n K := by
  refine ⟨by rw [setColumn_length]; exact h.1, ?_⟩
  intro row hrow
  simp only [setColumn, List.mem_map] at hrow
  obtain ⟨⟨r, i⟩, hmem, rfl⟩ := hrow
  have hr : r ∈ m := (List.of_mem_zip hmem).1
  have := h.2 r hr
  simp only
  split <;> simp [this]

theorem setColumn_cell (m : Rows) (n K j : Nat) (vals : List Nat) (h : Rect m n K) (hv : vals.length = n)
    (hj : j < K) (i j' : Nat) (hi : i < n) :
    cell (setColumn m j vals) i j' = if j' = j then vals.getD i 0 else cell m i j' := by
  have hi' : i < m.length := by rw [h.1]; exact hi
  have hvi : i < vals.length := by rw [hv]; exact hi
  have hrow : (m.getD i []).length = K := by
    rw [List.getD_eq_getElem?_getD, List.getElem?_eq_getElem hi']
    exact h.2 _ (List.getElem_mem hi')
  unfold cell
  rw [setColumn_getD m j vals i vals[i] hi' (List.getElem?_eq_getElem hvi)]
  simp only [List.getD_eq_getElem?_getD] at hrow ⊢
  simp only [List.getElem?_set]
  by_cases hjj : j' = j
  · subst hjj
    simp [hrow, hj, List.getElem?_eq_getElem hvi]
  · have : ¬ j = j' := fun h => hjj h.symm
    simp [this, hjj]

theorem zeros_rect (n K : Nat) : Rect (List.replicate n (List.replicate K 0)) n K :=
  ⟨by simp, fun row h => by rw [(List.mem_replicate.mp h).2]; simp⟩

theorem zeros_cell (n K i j : Nat) : cell (List.replicate n (List.replicate K 0)) i j = 0 := by
  unfold cell
  simp only [List.getD_eq_getElem?_getD, List.getElem?_replicate]
  split <;> simp [List.getElem?_replicate] <;> split <;> rfl

/-- the value the dictionary gives for entry `(i, j)`: `values[letter j][i]`, `0` if the letter is absent -/
def wanted (cols : List (Option (List Nat))) (i j : Nat) : Nat :=
  match cols[j]? with
  | some (some c) => c.getD i 0
  | _ => 0

theorem fill_spec (K n : Nat) (rest : List (Option (List Nat)))
    (hc : ∀ c, some c ∈ rest → c.length = n)
    (st : Option Rows × Nat) (hst : ∀ m, st.1 = some m → Rect m n K) (hk : st.2 + rest.length ≤ K) :
    (∀ m, (fill K n st rest).1 = some m → Rect m n K) ∧
    ∀ i j, i < n →
      cell ((fill K n st rest).1.getD (List.replicate n (List.replicate K 0))) i j =
        if st.2 ≤ j ∧ j < st.2 + rest.length then
          (match rest[j - st.2]? with
           | some (some c) => c.getD i 0
           | _ => cell (st.1.getD (List.replicate n (List.replicate K 0))) i j)
        else cell (st.1.getD (List.replicate n (List.replicate K 0))) i j := by
  induction rest generalizing st with
  | nil =>
    refine ⟨hst, ?_⟩
    intro i j _
    simp [fill]
  | cons c rest ih =>
    have hrest : ∀ c', some c' ∈ rest → c'.length = n := fun c' h => hc c' (List.mem_cons_of_mem _ h)
    simp only [List.length_cons] at hk
    cases c with
    | none =>
      have := ih hrest (st.1, st.2 + 1) hst (by simp only; omega)
      refine ⟨this.1, ?_⟩
      intro i j hi
      simp only [fill]
      rw [this.2 i j hi]
      simp only [List.length_cons]
      by_cases h1 : st.2 + 1 ≤ j ∧ j < st.2 + 1 + rest.length
      · have h2 : st.2 ≤ j ∧ j < st.2 + (rest.length + 1) := by omega
        rw [if_pos h1, if_pos h2]
        have : j - st.2 = (j - (st.2 + 1)) + 1 := by omega
        rw [this, List.getElem?_cons_succ]
      · rw [if_neg h1]
        by_cases h2 : st.2 ≤ j ∧ j < st.2 + (rest.length + 1)
        · have : j = st.2 := by omega
          subst this
          rw [if_pos h2]
          simp
        · rw [if_neg h2]
    | some c =>
      have hlen := hc c List.mem_cons_self
      have hbase : Rect (st.1.getD (List.replicate n (List.replicate K 0))) n K := by
        cases h : st.1 with
        | none => simpa using zeros_rect n K
        | some m => simpa using hst m h
      have hnew := setColumn_rect _ n K st.2 c hbase
      have := ih hrest (some (setColumn (st.1.getD (List.replicate n (List.replicate K 0))) st.2 c), st.2 + 1)
        (fun m hm => by simp only at hm; cases hm; exact hnew) (by simp only; omega)
      refine ⟨this.1, ?_⟩
      intro i j hi
      simp only [fill]
      rw [this.2 i j hi]
      simp only [List.length_cons, Option.getD_some]
      have hcell := setColumn_cell _ n K st.2 c hbase hlen (by omega) i j hi
      by_cases h1 : st.2 + 1 ≤ j ∧ j < st.2 + 1 + rest.length
      · have h2 : st.2 ≤ j ∧ j < st.2 + (rest.length + 1) := by omega
        rw [if_pos h1, if_pos h2]
        have : j - st.2 = (j - (st.2 + 1)) + 1 := by omega
        rw [this, List.getElem?_cons_succ, hcell]
        have : ¬ j = st.2 := by omega
        simp [this]
      · rw [if_neg h1, hcell]
        by_cases h2 : st.2 ≤ j ∧ j < st.2 + (rest.length + 1)
        · have : j = st.2 := by omega
          subst this
          rw [if_pos h2]
          simp
        · rw [if_neg h2]
          have : ¬ j = st.2 := by omega
          simp [this]

theorem fill_isSome (K n : Nat) (rest : List (Option (List Nat))) (st : Option Rows × Nat)
    (h : st.1.isSome ∨ ∃ c, some c ∈ rest) : (fill K n st rest).1.isSome := by
  induction rest generalizing st with
  | nil =>
    cases h with
    | inl h => exact h
    | inr h => obtain ⟨c, hc⟩ := h; cases hc
  | cons x rest ih =>
    cases x with
    | none =>
      simp only [fill]
      apply ih
      cases h with
      | inl h => exact Or.inl h
      | inr h =>
        obtain ⟨c, hc⟩ := h
        cases List.mem_cons.mp hc with
        | inl h' => cases h'
        | inr h' => exact Or.inr ⟨c, h'⟩
    | some c =>
      simp only [fill]
      exact ih _ (Or.inl rfl)

/-- C17, `CountMatrix(values)`: for a dictionary whose columns (for the letters it mentions) are
    sequences of one length `n` of integers in `0 .. 2^32 - 1`, with at least one letter of the alphabet
    mentioned, the constructor succeeds with an `n × K` matrix whose entry `(i, j)` is
    `values[letter j][i]`, and `0` for the letters not mentioned -/
theorem countMatrixInit_spec (A : Alphabet) (n : Nat) (cols : List (Option (List Nat)))
    (hK : cols.length = A.K)
    (hc : ∀ c, some c ∈ cols → c.length = n ∧ ∀ v ∈ c, v < 4294967296)
    (hex : ∃ c, some c ∈ cols) :
    ∃ m, countMatrixInit A (cols.map (Option.map encCol)) = .ok m ∧ Rect m n A.K ∧
      ∀ i j, i < n → cell m i j = wanted cols i j := by
  have hfold := fold_eq_fill A n cols hc (none, 0) (by intro m h; cases h)
  have hsome := fill_isSome A.K n cols (none, 0) (Or.inr hex)
  have hspec := fill_spec A.K n cols (fun c h => (hc c h).1) (none, 0) (by intro m h; cases h) (by simp [hK])
  obtain ⟨m, hm⟩ := Option.isSome_iff_exists.mp hsome
  refine ⟨m, ?_, hspec.1 m hm, ?_⟩
  · unfold countMatrixInit
    rw [hfold]
    cases hf : fill A.K n (none, 0) cols with
    | mk d j =>
      rw [hf] at hm
      simp only at hm
      subst hm
      rfl
  · intro i j hi
    have := hspec.2 i j hi
    rw [hm] at this
    simp only [Option.getD_some, Nat.zero_le, true_and, Nat.zero_add, Nat.sub_zero, Option.getD_none,
      zeros_cell] at this
    rw [this]
    unfold wanted
    by_cases hj : j < cols.length
    · rw [if_pos hj]
    · rw [if_neg hj]
      rw [List.getElem?_eq_none (by omega)]

example : countMatrixInit dna [some (encCol [1, 2]), none, some (encCol [3, 4]), none, none] =
    .ok [[1, 0, 3, 0, 0], [2, 0, 4, 0, 0]] := by decide

/-! ### scoring: `calculate`, one sequence reused -/

/-- C17, `calculate`: same alphabet — `score(pssm, configure(sequence, pssm))`, and the Python sequence
    object is left configured; different alphabets — `ValueError` -/
theorem calculate_spec (pt st : Tag) (pssm seq : Term) :
    calculate pt st pssm seq =
      if pt = st then .ok (.app2 .score pssm (.app2 .configure seq pssm), .app2 .configure seq pssm)
      else .error .valueError := by
  unfold calculate
  split <;> rfl

/-- the sequence object after it has been scored with a list of motifs, in order -/
def configured (seq : Term) : List Term → Term
  | [] => seq
  | pssm :: rest => configured (.app2 .configure seq pssm) rest

/-- the scores of the i-th call: the core's `score` on the sequence configured with motifs `0..i` in order -/
def chainScores (seq : Term) : List Term → List Term
  | [] => []
  | pssm :: rest => .app2 .score pssm (.app2 .configure seq pssm) :: chainScores (.app2 .configure seq pssm) rest

/-- C17, histories: ONE striped sequence scored with any list of motifs of its own alphabet, in any
    order of widths: the i-th result is the core's score of motif i on the sequence as configured by
    motifs 0..i (which C04 shows to hold the same symbols), and the object ends up configured by all -/
theorem calculateAll_spec (st : Tag) (seq : Term) (pssms : List Term) :
    calculateAll st seq (pssms.map fun p => (st, p)) = .ok (chainScores seq pssms, configured seq pssms) := by
  induction pssms generalizing seq with
  | nil => rfl
  | cons p rest ih =>
    simp only [List.map_cons, calculateAll, calculate, if_true]
    rw [ih]
    rfl

/-- a motif of another alphabet anywhere in the history raises `ValueError` -/
theorem calculateAll_mismatch (st pt : Tag) (hne : pt ≠ st) (seq : Term) (before : List Term) (p : Term)
    (after : List (Tag × Term)) :
    calculateAll st seq ((before.map fun q => (st, q)) ++ (pt, p) :: after) = .error .valueError := by
  induction before generalizing seq with
  | nil => simp [calculateAll, calculate, hne]
  | cons q rest ih =>
    simp only [List.map_cons, List.cons_append, calculateAll, calculate, if_true]
    rw [ih]

example : calculateAll .dna (.arg "s") [(.dna, .arg "p0"), (.dna, .arg "p1")] =
    .ok ([.app2 .score (.arg "p0") (.app2 .configure (.arg "s") (.arg "p0")),
          .app2 .score (.arg "p1") (.app2 .configure (.app2 .configure (.arg "s") (.arg "p0")) (.arg "p1"))],
         .app2 .configure (.app2 .configure (.arg "s") (.arg "p0")) (.arg "p1")) ∧
    calculateAll .dna (.arg "s") [(.dna, .arg "p0"), (.protein, .arg "p1")] = .error .valueError := by decide

/-! ### conversions, reverse complement, scanner -/

/-- C17, `pvalue` / `score`: `"meme"` goes through the (cached) score distribution with the `f32` casts,
    `"tfmpvalue"` through `TfmPvalue::new(&pssm)`; any other method is a `ValueError` -/
theorem pvalue_spec (pssm : Term) (x : Nat) (method : String) :
    pvalue pssm x method =
      if method = "tfmpvalue" then .ok (.app2 .tfmPvalue (.app1 .tfmNew pssm) (.f64 x))
      else if method = "meme" then
        .ok (.app2 .distPvalue (.app1 .toScoreDistribution pssm) (.app1 .f64ToF32 (.f64 x)))
      else .error .valueError := rfl

theorem scoreOf_spec (pssm : Term) (x : Nat) (method : String) :
    scoreOf pssm x method =
      if method = "tfmpvalue" then .ok (.app2 .tfmScore (.app1 .tfmNew pssm) (.f64 x))
      else if method = "meme" then
        .ok (.app1 .f32ToF64 (.app2 .distScore (.app1 .toScoreDistribution pssm) (.f64 x)))
      else .error .valueError := rfl

example : pvalue (.arg "m") 1 "foo" = .error .valueError ∧
    pvalue (.arg "m") 1 "meme" = .ok (.app2 .distPvalue (.app1 .toScoreDistribution (.arg "m")) (.app1 .f64ToF32 (.f64 1))) := by
  decide

/-- C17, `reverse_complement`: the core's for DNA, `RuntimeError` for protein -/
theorem reverseComplement_spec (pssm : Term) :
    reverseComplement .dna pssm = .ok (.app1 .reverseComplement pssm) ∧
    reverseComplement .protein pssm = .error .runtimeError := ⟨rfl, rfl⟩

/-- C17, `Scanner` / `scan`: for a DNA matrix on a DNA sequence, the core's scanner over the configured
    sequence with the given threshold and block size; every other combination is a `ValueError` -/
theorem scannerInit_spec (pt st : Tag) (pssm seq : Term) (thr block : Nat) :
    scannerInit pt st pssm seq thr block =
      if pt = .dna ∧ st = .dna then
        .ok (.app2 .scannerBlockSize
              (.app2 .scannerThreshold (.app2 .scannerNew pssm (.app2 .configure seq pssm)) (.f32 thr)) (.nat block))
      else .error .valueError := by
  cases pt <;> cases st <;> simp [scannerInit]

example : scannerInit .protein .protein (.arg "p") (.arg "s") 0 256 = .error .valueError := by decide

/-! ### `create`, `stripe` -/

/-- C17, `create`: every item a `str` over the alphabet, all of one length — the motif is
    `(counts, counts.to_freq(0).to_weight(None), that.to_scoring())` with `counts = from_sequences(encode(·))` -/
theorem create_ok (tag : Tag) (seqs : List (List UInt8))
    (hv : ∀ s ∈ seqs, s.all (fun b => ((tagAlphabet tag).fromAscii b).isSome) = true)
    (hl : ∀ s ∈ seqs, s.length = (seqs.headD []).length) :
    create tag (seqs.map some) =
      .ok (motifFromCounts (.app1 .fromSequences (.app1 .encode (.arg "sequences")))) := by
  unfold create
  have hloop : ∀ l : List (List UInt8), (∀ s ∈ l, s.all (fun b => ((tagAlphabet tag).fromAscii b).isSome) = true) →
      create.loop (tagAlphabet tag) (l.map some) = .ok () := by
    intro l
    induction l with
    | nil => intro _; rfl
    | cons x rest ih =>
      intro h
      simp only [List.map_cons, create.loop]
      rw [if_pos (h x List.mem_cons_self)]
      exact ih (fun s hs => h s (List.mem_cons_of_mem _ hs))
  simp only [hloop seqs hv]
  have hlens : ((seqs.map some).map fun i => (i.getD []).length) = seqs.map List.length := by
    simp [List.map_map, Function.comp_def]
  rw [hlens]
  have hall : (seqs.map List.length).all (· == (seqs.map List.length).headD 0) = true := by
    cases seqs with
    | nil => rfl
    | cons x rest =>
      rw [List.all_eq_true]
      intro n hn
      obtain ⟨s, hs, rfl⟩ := List.mem_map.mp hn
      have := hl s hs
      simp only [List.headD_cons] at this
      simp [this]
  rw [if_pos hall]

/-- whatever the items are, `create` raises only `TypeError` (an item is not a `str`) or `ValueError`
    (a symbol outside the alphabet, unequal lengths) -/
theorem create_errors (tag : Tag) (items : List (Option (List UInt8))) (e : Exc)
    (h : create tag items = .error e) : e = .typeError ∨ e = .valueError := by
  unfold create at h
  have hloop : ∀ l : List (Option (List UInt8)), ∀ e, create.loop (tagAlphabet tag) l = .error e →
      e = .typeError ∨ e = .valueError := by
    intro l
    induction l with
    | nil => intro e h; simp [create.loop] at h
    | cons x rest ih =>
      intro e h
      cases x with
      | none => simp [create.loop] at h; exact Or.inl h.symm
      | some s =>
        simp only [create.loop] at h
        split at h
        · exact ih e h
        · simp at h; exact Or.inr h.symm
  cases hl : create.loop (tagAlphabet tag) items with
  | error e' =>
    simp [hl] at h
    subst h
    exact hloop items e' hl
  | ok u =>
    simp only [hl] at h
    split at h
    · simp at h
    · simp at h; exact Or.inr h.symm

example : create .dna [some [65, 67], some [71, 84]] =
      .ok (motifFromCounts (.app1 .fromSequences (.app1 .encode (.arg "sequences")))) ∧
    create .dna [some [65, 67], none] = .error .typeError ∧
    create .dna [some [65, 90], none] = .error .valueError ∧
    create .dna [some [65, 67], some [71]] = .error .valueError := by decide

/-- C17, `stripe`: `encode` then `to_striped` for a text over the alphabet, `ValueError` otherwise -/
theorem stripe_spec (tag : Tag) (text : List UInt8) :
    stripe tag text =
      if text.all (fun b => ((tagAlphabet tag).fromAscii b).isSome) then
        .ok (.app1 .toStriped (.app1 .encode (.arg "sequence")))
      else .error .valueError := rfl

/-! ### `load` -/

/-- C17, `load`: a readable file and one of the four formats (JASPAR only for DNA) select the reader of
    that format; a missing file is an `OSError`, a text-mode file a `TypeError`, an unknown format or a
    protein JASPAR file a `ValueError` -/
theorem loaderInit_spec (format : String) (protein : Bool) :
    loaderInit .binary "jaspar" false = .ok (.app1 .readJaspar (.arg "file")) ∧
    loaderInit .binary "jaspar" true = .error .valueError ∧
    loaderInit .binary "jaspar16" protein = .ok (.app1 .readJaspar16 (.arg "file")) ∧
    loaderInit .binary "transfac" protein = .ok (.app1 .readTransfac (.arg "file")) ∧
    loaderInit .binary "uniprobe" protein = .ok (.app1 .readUniprobe (.arg "file")) ∧
    loaderInit (.path false) format protein = .error .osError ∧
    loaderInit .text format protein = .error .typeError ∧
    (format ≠ "jaspar" → format ≠ "jaspar16" → format ≠ "transfac" → format ≠ "uniprobe" →
      loaderInit .binary format protein = .error .valueError) := by
  refine ⟨by decide, by decide, ?_, ?_, ?_, rfl, rfl, ?_⟩
  · cases protein <;> decide
  · cases protein <;> decide
  · cases protein <;> decide
  · intro h1 h2 h3 h4
    simp [loaderInit, h1, h2, h3, h4]

/-- C17, `load` on a file object that passes the `read(0)` probe and fails afterwards: the outcome is the
    exception of the file object (or the `ValueError` of the format), raised by `load` itself exactly when
    the reader of that format reads while it is created and the exception is a pending Python exception;
    otherwise `load` succeeds and the first record raises it.  In no case is a result returned with an
    exception pending (the model has no such outcome: `Res` is a value or ONE exception). -/
theorem loaderInit_lateBad (e : Exc) (format : String) (protein : Bool)
    (hf : format = "jaspar" ∧ protein = false ∨ format = "jaspar16" ∨ format = "transfac" ∨ format = "uniprobe") :
    (loaderInit (.lateBad e) format protein = .error e ∧ e ≠ .osError ∧ readsAtCreation format = true) ∨
    (loaderInit (.lateBad e) format protein = loaderInit .binary format protein ∧
      (e = .osError ∨ readsAtCreation format = false) ∧ convertRecord format (.errPy e) = .error e) := by
  rcases hf with ⟨rfl, rfl⟩ | rfl | rfl | rfl <;> cases e <;> cases protein <;> decide

/-- an unknown format (or a protein JASPAR file) is a `ValueError` before anything is read -/
theorem loaderInit_lateBad_format (e : Exc) (format : String) (protein : Bool) :
    loaderInit .binary format protein = .error .valueError →
    loaderInit (.lateBad e) format protein = .error .valueError := by
  intro h
  by_cases h1 : format = "jaspar"
  · subst h1; cases protein <;> simp_all [loaderInit]
  by_cases h2 : format = "jaspar16"
  · subst h2; simp [loaderInit] at h
  by_cases h3 : format = "transfac"
  · subst h3; simp [loaderInit] at h
  by_cases h4 : format = "uniprobe"
  · subst h4; simp [loaderInit] at h
  simp [loaderInit, h1, h2, h3, h4]

/-- C17, records: a parsed record becomes `Motif::from_counts(record counts)` (JASPAR, JASPAR16, TRANSFAC)
    or `Motif::from_weights(frequencies.to_weight(None))` (UniPROBE); reader errors are `ValueError`
    (`OSError` for I/O), a TRANSFAC record without a count matrix is a `ValueError` -/
theorem convertRecord_spec :
    convertRecord "jaspar" (.ok true) = .ok (motifFromCounts (.app1 .recordIntoCounts (.arg "record"))) ∧
    convertRecord "jaspar16" (.ok true) = .ok (motifFromCounts (.app1 .recordIntoCounts (.arg "record"))) ∧
    convertRecord "transfac" (.ok true) = .ok (motifFromCounts (.app1 .recordToCounts (.arg "record"))) ∧
    convertRecord "transfac" (.ok false) = .error .valueError ∧
    convertRecord "uniprobe" (.ok true) =
      .ok (motifFromWeights (.app1 .toWeight (.app1 .recordIntoFreqs (.arg "record")))) ∧
    (∀ f, convertRecord f .errIo = .error .osError) ∧
    (∀ f, convertRecord f .errData = .error .valueError) ∧
    (∀ f, convertRecord f .errParse = .error .valueError) := by
  refine ⟨by decide, by decide, by decide, by decide, by decide, fun _ => rfl, fun _ => rfl, fun _ => rfl⟩

/-! ### transfer: the Python value is the core value of the composition -/

/-- under ANY interpretation of the core operations, the value Python returns for `log_odds` with a
    valid background that differs from the matrix's own is
    `to_scoring_with_base(rescale(self, Background::new(p)), base)` computed by that interpretation -/
theorem logOdds_eval {V : Type} (I : Interp V) (F : F32Ops) (A : Alphabet) (self : Term) (selfBg : List Nat)
    (es : List DictEntry) (p : List Nat) (base : Nat)
    (hd : dictToAlphabetArray A es = .ok p) (hv : F.bgValid p = true) (hne : F.freqsNe p selfBg = true) :
    (logOdds F A self selfBg (.dict es) base).map (Term.eval I) =
      .ok (I.op2 .toScoringWithBase (I.op2 .rescale (self.eval I) (I.op1 .bgNew (I.arr p))) (I.f32 base)) := by
  rw [logOdds_applies_background F A self selfBg es p base hd hv hne]
  rfl

/-- … and for `normalize` with a dictionary of pseudocounts -/
theorem normalize_eval {V : Type} (I : Interp V) (A : Alphabet) (self : Term) (es : List DictEntry) (p : List Nat)
    (hd : dictToAlphabetArray A es = .ok p) :
    (normalize A self (.dict es)).map (Term.eval I) =
      .ok (I.op1 .toWeight (I.op2 .toFreq (self.eval I) (I.op1 .pseudoArray (I.arr p)))) := by
  rw [(normalize_spec A self).2.2.1 es p hd]
  rfl

/-- … and for every call of a reuse history -/
theorem chainScores_eval {V : Type} (I : Interp V) (seq : Term) (p : Term) (rest : List Term) :
    (chainScores seq (p :: rest)).map (Term.eval I) =
      I.op2 .score (p.eval I) (I.op2 .configure (seq.eval I) (p.eval I))
        :: (chainScores (.app2 .configure seq p) rest).map (Term.eval I) := rfl

end C17
end LMV
