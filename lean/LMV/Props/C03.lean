/-
  C03 — the scanner's best hit is a maximum-scoring position that meets the threshold.

  Abstract part: for every kernel record satisfying `C02.KernelSpec` and every scalar type whose
  comparison is a total preorder (`OrderLaws`), after ANY number of calls of `next`, `max` does not
  panic and returns `None` exactly when no hit remains to be returned, otherwise a remaining hit
  whose score no remaining hit exceeds.  Invariant of the block loop: `best` is a best hit among
  the buffered hits and the positions of the rows scanned so far (`Best`), and the pruning bound is
  an UNDER-estimate of the best score: `best_discrete ≤ scale(best.score)` (`Bd`) — the obligation
  that fails for the code before `fix: Scanner::max prunes better hits …`.
  Concrete part: the real scanner (every arm, both profiles), via `C02.kernels_spec`.
-/
import LMV.Props.C02

namespace LMV
namespace C03

open Scanner Disc ScanScalar C02

variable {α : Type} [ScanScalar α] {C : Nat}

/-- the comparison of scores is a total preorder and `<` is its strict part (true of the rationals
    with `−∞`; of IEEE floats without NaN) -/
structure OrderLaws (α : Type) [ScanScalar α] : Prop where
  le_total : ∀ a b : α, le a b = true ∨ le b a = true
  le_trans : ∀ a b c : α, le a b = true → le b c = true → le a c = true
  lt_iff : ∀ a b : α, lt a b = !le b a

namespace OrderLaws
variable (L : OrderLaws α)
include L

theorem le_refl (a : α) : le a a = true := by rcases L.le_total a a with h | h <;> exact h

theorem gt_false_iff (a b : α) : gt a b = false ↔ le a b = true := by
  unfold ScanScalar.gt; rw [L.lt_iff]; simp

theorem gt_true_le (a b : α) (h : gt a b = true) : le b a = true := by
  unfold ScanScalar.gt at h; rw [L.lt_iff] at h
  rcases L.le_total a b with h' | h'
  · simp [h'] at h
  · exact h'

theorem gt_self (a : α) : gt a a = false := (L.gt_false_iff a a).mpr (L.le_refl a)

end OrderLaws

/-- `best` is a best element of the set `A` of hits (`None` iff `A` is empty) -/
def Best (best : Option (Hit α)) (A : Hit α → Prop) : Prop :=
  match best with
  | none => ∀ h, ¬ A h
  | some b => A b ∧ ∀ h, A h → gt h.score b.score = false

/-- the pruning bound stays an under-estimate: the byte image of the threshold while nothing is
    found, at most the byte image of the best score afterwards; the best hit meets the threshold -/
def Bd (k : Kernels α C) (t : α) (best : Option (Hit α)) (bd : UInt8) : Prop :=
  match best with
  | none => bd = k.scale t
  | some b => bd ≤ k.scale b.score ∧ ge b.score t = true

theorem Best.congr {best : Option (Hit α)} {A A' : Hit α → Prop} (h : Best best A)
    (hiff : ∀ x, A x ↔ A' x) : Best best A' := by
  cases best with
  | none => exact fun x hx => h x ((hiff x).mpr hx)
  | some b => exact ⟨(hiff b).mp h.1, fun x hx => h.2 x ((hiff x).mpr hx)⟩

/-- hits of the qualifying positions in a set `S` of positions -/
def hitsOf (score : Nat → α) (t : α) (nPos : Nat) (S : Nat → Prop) (h : Hit α) : Prop :=
  ∃ i, S i ∧ i < nPos ∧ ge (score i) t = true ∧ h = mkHit score i

/-- positions whose byte score is below the bound can be added to the accounted-for set: none of
    them beats `best` (none of them qualifies while `best` is `None`) -/
theorem best_add_pruned {k : Kernels α C} {R nPos : Nat} {score : Nat → α}
    (spec : KernelSpec k R nPos score) (L : OrderLaws α) (t : α) {best : Option (Hit α)}
    {bd : UInt8} {A : Hit α → Prop} (hB : Best best A) (hbd : Bd k t best bd) (S : Nat → Prop)
    (hS : ∀ i, S i → i < nPos → k.scale (score i) < bd) :
    Best best (fun h => A h ∨ hitsOf score t nPos S h) := by
  cases best with
  | none =>
    rintro h (hA | ⟨i, hSi, hlt, hq, rfl⟩)
    · exact hB h hA
    · have h1 := hS i hSi hlt
      have h2 := spec.scale_mono t (score i) hq
      simp only [Bd] at hbd
      rw [hbd, UInt8.lt_iff_toNat_lt] at h1
      rw [UInt8.le_iff_toNat_le] at h2
      omega
  | some b =>
    refine ⟨Or.inl hB.1, ?_⟩
    rintro h (hA | ⟨i, hSi, hlt, hq, rfl⟩)
    · exact hB.2 h hA
    · by_contra hgt
      have hgt' : gt (score i) b.score = true := by
        simpa [mkHit] using hgt
      have hle := L.gt_true_le _ _ hgt'
      have h1 := hS i hSi hlt
      have h2 := spec.scale_mono b.score (score i) hle
      have h3 := hbd.1
      rw [UInt8.lt_iff_toNat_lt] at h1
      rw [UInt8.le_iff_toNat_le] at h2 h3
      omega

/-- the candidate loop of `max` -/
theorem maxCand_spec {k : Kernels α C} {R nPos : Nat} {score : Nat → α}
    (spec : KernelSpec k R nPos score) (L : OrderLaws α) (t : α) (row : Nat) (ds : Scores C)
    (hmi : ds.maxIndex = nPos)
    (hdom : ∀ r c, r < ds.data.rows → c < C → c * R + row + r < nPos →
      k.scale (score (c * R + row + r)) ≤ ds.data.get r c)
    (cands : List (Nat × Nat)) (hc : ∀ rc ∈ cands, rc.1 < ds.data.rows ∧ rc.2 < C)
    (best : Option (Hit α)) (bd : UInt8) (A : Hit α → Prop) (hB : Best best A) (hbd : Bd k t best bd) :
    ∃ best' bd', maxCand k t row ds cands (best, bd) = .ok (best', bd') ∧
      Best best' (fun h => A h ∨ hitsOf score t nPos (fun i => ∃ rc ∈ cands, candPos R row rc = i) h) ∧
      Bd k t best' bd' := by
  induction cands generalizing best bd A with
  | nil =>
    refine ⟨best, bd, rfl, hB.congr ?_, hbd⟩
    intro x
    simp [hitsOf]
  | cons rc cs ih =>
    obtain ⟨r, c⟩ := rc
    have hrc := hc (r, c) (List.mem_cons_self ..)
    have hcs : ∀ rc ∈ cs, rc.1 < ds.data.rows ∧ rc.2 < C := fun rc h => hc rc (List.mem_cons_of_mem _ h)
    -- the set after this candidate
    have hfinish : ∀ best1 bd1, Best best1 (fun h => A h ∨
          hitsOf score t nPos (fun i => candPos R row (r, c) = i) h) → Bd k t best1 bd1 →
        ∃ best' bd', maxCand k t row ds cs (best1, bd1) = .ok (best', bd') ∧
          Best best' (fun h => A h ∨ hitsOf score t nPos
            (fun i => ∃ rc ∈ (r, c) :: cs, candPos R row rc = i) h) ∧ Bd k t best' bd' := by
      intro best1 bd1 hB1 hbd1
      obtain ⟨b', d', h1, h2, h3⟩ := ih hcs best1 bd1 _ hB1 hbd1
      refine ⟨b', d', h1, h2.congr ?_, h3⟩
      intro x
      simp only [hitsOf, List.mem_cons, exists_eq_or_imp]
      constructor
      · rintro ((hA | ⟨i, hi, rest⟩) | ⟨i, ⟨rc, hrc', hi⟩, rest⟩)
        · exact Or.inl hA
        · exact Or.inr ⟨i, Or.inl hi, rest⟩
        · exact Or.inr ⟨i, Or.inr ⟨rc, hrc', hi⟩, rest⟩
      · rintro (hA | ⟨i, (hi | ⟨rc, hrc', hi⟩), rest⟩)
        · exact Or.inl (Or.inl hA)
        · exact Or.inl (Or.inr ⟨i, hi, rest⟩)
        · exact Or.inr ⟨i, ⟨rc, hrc', hi⟩, rest⟩
    have hindex : candPos R row (r, c) = c * R + row + r := rfl
    simp only [maxCand, spec.seqRows, hmi]
    by_cases hge : ds.data.get r c ≥ bd
    · rw [if_pos hge]
      by_cases hlt : c * R + row + r < nPos
      · rw [if_pos hlt, spec.scorePosition _ hlt]
        cases best with
        | some b =>
          simp only
          by_cases hcond : (gt (score (c * R + row + r)) b.score ||
              (ScanScalar.eq (score (c * R + row + r)) b.score && decide (c * R + row + r > b.position))) = true
          · rw [if_pos hcond]
            -- the new best hit is at least the old one
            have hle : le b.score (score (c * R + row + r)) = true := by
              rcases Bool.or_eq_true _ _ |>.mp hcond with h | h
              · exact L.gt_true_le _ _ h
              · have := (Bool.and_eq_true _ _ |>.mp h).1
                unfold ScanScalar.eq at this
                exact (Bool.and_eq_true _ _ |>.mp this).2
            have hq : ge (score (c * R + row + r)) t = true :=
              L.le_trans _ _ _ hbd.2 hle
            apply hfinish
            · refine ⟨Or.inr ⟨_, hindex, hlt, hq, rfl⟩, ?_⟩
              rintro h (hA | ⟨i, hi, _, _, rfl⟩)
              · have := (L.gt_false_iff _ _).mp (hB.2 h hA)
                exact (L.gt_false_iff _ _).mpr (L.le_trans _ _ _ this hle)
              · rw [← hi, hindex]; exact L.gt_self _
            · exact ⟨UInt8.le_refl _, hq⟩
          · rw [if_neg hcond]
            apply hfinish _ _ _ hbd
            refine ⟨Or.inl hB.1, ?_⟩
            rintro h (hA | ⟨i, hi, _, _, rfl⟩)
            · exact hB.2 h hA
            · rw [← hi, hindex]
              have := Bool.or_eq_false_iff.mp (Bool.not_eq_true _ |>.mp hcond)
              exact this.1
        | none =>
          simp only
          by_cases hq : ge (score (c * R + row + r)) t = true
          · rw [if_pos hq]
            apply hfinish
            · refine ⟨Or.inr ⟨_, hindex, hlt, hq, rfl⟩, ?_⟩
              rintro h (hA | ⟨i, hi, _, _, rfl⟩)
              · exact absurd hA (hB h)
              · rw [← hi, hindex]; exact L.gt_self _
            · simp only [Bd] at hbd ⊢
              exact ⟨by rw [hbd]; exact spec.scale_mono _ _ hq, hq⟩
          · rw [if_neg hq]
            apply hfinish _ _ _ hbd
            rintro h (hA | ⟨i, hi, _, hq', rfl⟩)
            · exact hB h hA
            · rw [← hi, hindex] at hq'; exact hq hq'
      · rw [if_neg hlt]
        apply hfinish _ _ _ hbd
        apply hB.congr
        intro x
        simp only [hitsOf]
        constructor
        · exact Or.inl
        · rintro (hA | ⟨i, hi, hlt', _⟩)
          · exact hA
          · rw [← hi, hindex] at hlt'; exact absurd hlt' hlt
    · rw [if_neg hge]
      apply hfinish _ _ _ hbd
      apply best_add_pruned spec L t hB hbd
      intro i hi hlt
      rw [← hi, hindex] at hlt ⊢
      have h1 := hdom r c hrc.1 hrc.2 hlt
      rw [ge_iff_le, UInt8.le_iff_toNat_le] at hge
      rw [UInt8.le_iff_toNat_le] at h1
      rw [UInt8.lt_iff_toNat_lt]
      omega

/-- the hits accounted for once the rows `[row0, row)` are scanned -/
def Seen (score : Nat → α) (t : α) (nPos R : Nat) (hits0 : List (Hit α)) (row0 row : Nat)
    (h : Hit α) : Prop :=
  h ∈ hits0 ∨ hitsOf score t nPos (fun i => row0 ≤ i % R ∧ i % R < row) h

/-- one block of `max` -/
theorem maxStep_spec {k : Kernels α C} {R nPos : Nat} {score : Nat → α}
    (spec : KernelSpec k R nPos score) (L : OrderLaws α) (t : α) (block : Nat) (hb : 1 ≤ block)
    (hits0 : List (Hit α)) (row0 : Nat) (s : MaxState α) (hrow0 : row0 ≤ s.row) (hrow : s.row < R)
    (hB : Best s.best (Seen score t nPos R hits0 row0 s.row)) (hbd : Bd k t s.best s.bd) :
    ∃ s', maxStep k t block s = .ok s' ∧ s'.row = s.row + block ∧
      Best s'.best (Seen score t nPos R hits0 row0 s'.row) ∧ Bd k t s'.best s'.bd := by
  have he1 : s.row < min (s.row + block) R := by omega
  have he2 : min (s.row + block) R ≤ R := Nat.min_le_right _ _
  -- rows up to `e = min (row + block) R` are rows up to `row + block`
  have hseen : ∀ x, Seen score t nPos R hits0 row0 (min (s.row + block) R) x ↔
      Seen score t nPos R hits0 row0 (s.row + block) x := by
    intro x
    unfold Seen hitsOf
    constructor
    · rintro (h | ⟨i, ⟨h1, h2⟩, rest⟩)
      · exact Or.inl h
      · exact Or.inr ⟨i, ⟨h1, by omega⟩, rest⟩
    · rintro (h | ⟨i, ⟨h1, h2⟩, hlt, rest⟩)
      · exact Or.inl h
      · have hR : 0 < R := R_pos_of_pos spec.fits hlt
        have := Nat.mod_lt i hR
        exact Or.inr ⟨i, ⟨h1, by omega⟩, hlt, rest⟩
  suffices hmain : ∃ best' bd', maxStep k t block s = .ok ⟨s.row + block, best', bd'⟩ ∧
      Best best' (Seen score t nPos R hits0 row0 (min (s.row + block) R)) ∧ Bd k t best' bd' by
    obtain ⟨b', d', h1, h2, h3⟩ := hmain
    exact ⟨_, h1, rfl, h2.congr hseen, h3⟩
  rcases Nat.eq_zero_or_pos nPos with hz | hpos
  · -- sequence shorter than the motif: no position at all
    obtain ⟨ds, hds, hr0⟩ := spec.scoreRowsShort hz s.row (min (s.row + block) R)
    have hthr : ∀ b, k.threshold ds b = [] := by
      intro b
      apply List.eq_nil_iff_forall_not_mem.mpr
      rintro ⟨r, c⟩ hmem
      have := (spec.thr_mem ds b r c).mp hmem
      omega
    have hB' : Best s.best (Seen score t nPos R hits0 row0 (min (s.row + block) R)) := by
      apply hB.congr
      intro x
      unfold Seen hitsOf
      constructor
      · rintro (h | ⟨i, _, hlt, _⟩)
        · exact Or.inl h
        · omega
      · rintro (h | ⟨i, _, hlt, _⟩)
        · exact Or.inl h
        · omega
    refine ⟨s.best, s.bd, ?_, hB', hbd⟩
    unfold maxStep
    simp only [spec.seqRows, hds]
    cases hmax : k.max ds with
    | none => simp
    | some m =>
      by_cases hm : m ≥ s.bd
      · simp [hm, hthr, maxCand]
      · simp [hm]
  · obtain ⟨ds, hds, hmi, hrows, hdom⟩ := spec.scoreRows hpos s.row (min (s.row + block) R) he1 he2
    have hdom' : ∀ r c, r < ds.data.rows → c < C → c * R + s.row + r < nPos →
        k.scale (score (c * R + s.row + r)) ≤ ds.data.get r c := by
      intro r c hr; rw [hrows] at hr; exact hdom r c hr
    -- coordinates of a position of the block
    have hcoord : ∀ i, i < nPos → s.row ≤ i % R → i % R < min (s.row + block) R →
        i % R - s.row < ds.data.rows ∧ i / R < C ∧ i / R * R + s.row + (i % R - s.row) = i := by
      intro i hlt hlo hhi
      have hR : 0 < R := R_pos_of_pos spec.fits hlt
      have hdm := Nat.div_add_mod i R
      have hcC : i / R < C := by
        apply Nat.div_lt_of_lt_mul
        calc i < nPos := hlt
          _ ≤ C * R := spec.fits
          _ = R * C := Nat.mul_comm _ _
      have : i / R * R = R * (i / R) := Nat.mul_comm _ _
      exact ⟨by omega, hcC, by omega⟩
    -- first account for every cell of the block below the bound
    have hB1 := best_add_pruned spec L t hB hbd
      (fun i => s.row ≤ i % R ∧ i % R < min (s.row + block) R ∧
        ds.data.get (i % R - s.row) (i / R) < s.bd)
      (by
        rintro i ⟨hlo, hhi, hcell⟩ hlt
        obtain ⟨h1, h2, h3⟩ := hcoord i hlt hlo hhi
        have := hdom' _ _ h1 h2 (by rw [h3]; exact hlt)
        rw [h3] at this
        rw [UInt8.le_iff_toNat_le] at this
        rw [UInt8.lt_iff_toNat_lt] at hcell ⊢
        omega)
    cases hmax : k.max ds with
    | none =>
      have := spec.max_none ds hmax
      omega
    | some m =>
      by_cases hm : m ≥ s.bd
      · -- candidates re-scored
        obtain ⟨b', d', h1, h2, h3⟩ := maxCand_spec spec L t s.row ds hmi hdom'
          (k.threshold ds s.bd)
          (fun rc hrc => by
            obtain ⟨r, c⟩ := rc
            have := (spec.thr_mem ds s.bd r c).mp hrc
            exact ⟨this.1, this.2.1⟩)
          s.best s.bd _ hB1 hbd
        refine ⟨b', d', ?_, h2.congr ?_, h3⟩
        · unfold maxStep
          simp only [spec.seqRows, hds, hmax, hm, if_true, h1]
        · intro x
          unfold Seen hitsOf
          constructor
          · rintro (((h | ⟨i, ⟨hr0, hr1⟩, rest⟩) | ⟨i, ⟨hlo, hhi, _⟩, rest⟩) | ⟨i, ⟨⟨r, c⟩, hmem, hi⟩, rest⟩)
            · exact Or.inl h
            · exact Or.inr ⟨i, ⟨hr0, by omega⟩, rest⟩
            · exact Or.inr ⟨i, ⟨by omega, hhi⟩, rest⟩
            · have hm' := (spec.thr_mem ds s.bd r c).mp hmem
              have hmod : i % R = s.row + r := by
                rw [← hi]; simp only [candPos]; rw [Nat.add_assoc]
                exact pos_mod R c _ (by have := hm'.1; omega)
              exact Or.inr ⟨i, ⟨by omega, by have := hm'.1; omega⟩, rest⟩
          · rintro (h | ⟨i, ⟨hr0, hr1⟩, hlt, rest⟩)
            · exact Or.inl (Or.inl (Or.inl h))
            · by_cases hin : i % R < s.row
              · exact Or.inl (Or.inl (Or.inr ⟨i, ⟨hr0, hin⟩, hlt, rest⟩))
              · obtain ⟨c1, c2, c3⟩ := hcoord i hlt (by omega) hr1
                by_cases hcell : ds.data.get (i % R - s.row) (i / R) < s.bd
                · exact Or.inl (Or.inr ⟨i, ⟨by omega, hr1, hcell⟩, hlt, rest⟩)
                · refine Or.inr ⟨i, ⟨(i % R - s.row, i / R), ?_, c3⟩, hlt, rest⟩
                  rw [spec.thr_mem]
                  refine ⟨c1, c2, ?_⟩
                  rw [UInt8.lt_iff_toNat_lt] at hcell
                  rw [UInt8.le_iff_toNat_le]; omega
      · -- the whole block is below the bound
        refine ⟨s.best, s.bd, ?_, hB1.congr ?_, hbd⟩
        · unfold maxStep
          simp [spec.seqRows, hds, hmax, hm]
        · intro x
          unfold Seen hitsOf
          constructor
          · rintro ((h | ⟨i, ⟨hr0, hr1⟩, rest⟩) | ⟨i, ⟨hlo, hhi, _⟩, rest⟩)
            · exact Or.inl h
            · exact Or.inr ⟨i, ⟨hr0, by omega⟩, rest⟩
            · exact Or.inr ⟨i, ⟨by omega, hhi⟩, rest⟩
          · rintro (h | ⟨i, ⟨hr0, hr1⟩, hlt, rest⟩)
            · exact Or.inl (Or.inl h)
            · by_cases hin : i % R < s.row
              · exact Or.inl (Or.inr ⟨i, ⟨hr0, hin⟩, hlt, rest⟩)
              · obtain ⟨c1, c2, _⟩ := hcoord i hlt (by omega) hr1
                have hle := spec.max_ge ds m hmax _ _ c1 c2
                refine Or.inr ⟨i, ⟨by omega, hr1, ?_⟩, hlt, rest⟩
                rw [UInt8.le_iff_toNat_le] at hle
                rw [ge_iff_le, UInt8.le_iff_toNat_le] at hm
                rw [UInt8.lt_iff_toNat_lt]; omega

/-- the block loop of `max` -/
theorem maxLoop_spec {k : Kernels α C} {R nPos : Nat} {score : Nat → α}
    (spec : KernelSpec k R nPos score) (L : OrderLaws α) (t : α) (block : Nat) (hb : 1 ≤ block)
    (hits0 : List (Hit α)) (row0 : Nat) (fuel : Nat) (s : MaxState α) (hrow0 : row0 ≤ s.row)
    (hfuel : R ≤ s.row + fuel)
    (hB : Best s.best (Seen score t nPos R hits0 row0 s.row)) (hbd : Bd k t s.best s.bd) :
    ∃ s', maxLoop k t block (fuel + 1) s = .ok s' ∧ R ≤ s'.row ∧
      Best s'.best (Seen score t nPos R hits0 row0 s'.row) := by
  induction fuel generalizing s with
  | zero =>
    refine ⟨s, ?_, by omega, hB⟩
    unfold maxLoop
    rw [if_neg]; rw [spec.seqRows]; omega
  | succ fuel ih =>
    unfold maxLoop
    by_cases hcond : s.row < k.seqRows
    · rw [if_pos hcond]
      obtain ⟨s1, h1, hr1, hB1, hbd1⟩ := maxStep_spec spec L t block hb hits0 row0 s hrow0
        (by rw [← spec.seqRows]; exact hcond) hB hbd
      rw [h1]
      exact ih s1 (by omega) (by omega) hB1 hbd1
    · rw [if_neg hcond]
      rw [spec.seqRows] at hcond
      exact ⟨s, rfl, by omega, hB⟩

/-- seeding from the buffered hits: the last of the best-scoring buffered hits that meet the
    threshold -/
theorem seedBest_spec (L : OrderLaws α) (t : α) (hits : List (Hit α)) :
    Best (seedBest t hits) (fun h => h ∈ hits ∧ ge h.score t = true) ∧
      ∀ b, seedBest t hits = some b → ge b.score t = true := by
  unfold seedBest
  have key : ∀ (l : List (Hit α)) (best0 : Option (Hit α)) (A0 : Hit α → Prop),
      Best best0 A0 → (∀ b, best0 = some b → ge b.score t = true) →
      Best (l.foldl (fun best h =>
          if ge h.score t then
            match best with
            | none => some h
            | some b => if gt b.score h.score then some b else some h
          else best) best0) (fun h => A0 h ∨ (h ∈ l ∧ ge h.score t = true)) ∧
        ∀ b, l.foldl (fun best h =>
          if ge h.score t then
            match best with
            | none => some h
            | some b => if gt b.score h.score then some b else some h
          else best) best0 = some b → ge b.score t = true := by
    intro l
    induction l with
    | nil =>
      intro best0 A0 h0 hq0
      exact ⟨h0.congr (by intro x; simp), hq0⟩
    | cons a l ih =>
      intro best0 A0 h0 hq0
      simp only [List.foldl_cons]
      have hstep : Best (if ge a.score t then
            match best0 with
            | none => some a
            | some b => if gt b.score a.score then some b else some a
          else best0) (fun h => A0 h ∨ (h = a ∧ ge h.score t = true)) ∧
          ∀ b, (if ge a.score t then
            match best0 with
            | none => some a
            | some b => if gt b.score a.score then some b else some a
          else best0) = some b → ge b.score t = true := by
        by_cases hq : ge a.score t = true
        · rw [if_pos hq]
          cases best0 with
          | none =>
            refine ⟨⟨Or.inr ⟨rfl, hq⟩, ?_⟩, fun b hb => by cases hb; exact hq⟩
            rintro h (hA | ⟨rfl, _⟩)
            · exact absurd hA (h0 h)
            · exact L.gt_self _
          | some b =>
            simp only
            by_cases hgt : gt b.score a.score = true
            · rw [if_pos hgt]
              refine ⟨⟨Or.inl h0.1, ?_⟩, fun b' hb => by cases hb; exact hq0 b rfl⟩
              rintro h (hA | ⟨rfl, _⟩)
              · exact h0.2 h hA
              · exact (L.gt_false_iff _ _).mpr (L.gt_true_le _ _ hgt)
            · rw [if_neg hgt]
              have hle : le b.score a.score = true :=
                (L.gt_false_iff _ _).mp (Bool.not_eq_true _ |>.mp hgt)
              refine ⟨⟨Or.inr ⟨rfl, hq⟩, ?_⟩, fun b' hb => by cases hb; exact hq⟩
              rintro h (hA | ⟨rfl, _⟩)
              · exact (L.gt_false_iff _ _).mpr
                  (L.le_trans _ _ _ ((L.gt_false_iff _ _).mp (h0.2 h hA)) hle)
              · exact L.gt_self _
        · rw [if_neg hq]
          refine ⟨h0.congr ?_, hq0⟩
          intro x
          constructor
          · exact Or.inl
          · rintro (hA | ⟨rfl, hq'⟩)
            · exact hA
            · exact absurd hq' hq
      obtain ⟨h1, h2⟩ := ih _ _ hstep.1 hstep.2
      refine ⟨h1.congr ?_, h2⟩
      intro x
      simp only [List.mem_cons]
      constructor
      · rintro ((hA | ⟨rfl, hq⟩) | ⟨hm, hq⟩)
        · exact Or.inl hA
        · exact Or.inr ⟨Or.inl rfl, hq⟩
        · exact Or.inr ⟨Or.inr hm, hq⟩
      · rintro (hA | ⟨rfl | hm, hq⟩)
        · exact Or.inl (Or.inl hA)
        · exact Or.inl (Or.inr ⟨rfl, hq⟩)
        · exact Or.inr ⟨hm, hq⟩
  obtain ⟨h1, h2⟩ := key hits.reverse none (fun _ => False) (fun _ h => h) (fun _ h => by cases h)
  refine ⟨h1.congr ?_, h2⟩
  intro x
  simp

/-- **C03 (abstract form, any state).**  From any scanner state whose buffered hits meet the
    threshold, `max` does not panic; it returns `None` exactly when no hit remains to be returned
    (`remaining` = buffered hits and qualifying positions of the rows not yet scanned), otherwise
    a remaining hit that no remaining hit out-scores. -/
theorem max_spec {k : Kernels α C} {R nPos : Nat} {score : Nat → α}
    (spec : KernelSpec k R nPos score) (L : OrderLaws α) (t : α) (block : Nat) (hb : 1 ≤ block)
    (st : State α) (hq : ∀ h ∈ st.hits, ge h.score t = true) :
    ∃ r, Scanner.max k t block st = .ok r ∧ Best r (fun h => h ∈ remaining score t nPos R st) := by
  obtain ⟨hseed, hseedq⟩ := seedBest_spec L t st.hits
  have hB0 : Best (seedBest t st.hits) (Seen score t nPos R st.hits st.row st.row) := by
    apply hseed.congr
    intro x
    unfold Seen hitsOf
    constructor
    · exact fun h => Or.inl h.1
    · rintro (h | ⟨i, ⟨h1, h2⟩, _⟩)
      · exact ⟨h, hq x h⟩
      · omega
  have hfin : ∀ x, Seen score t nPos R st.hits st.row R x ↔ x ∈ remaining score t nPos R st := by
    intro x
    unfold Seen remaining hitsOf
    simp only [List.mem_append, List.mem_map, mem_rowsQual]
    constructor
    · rintro (h | ⟨i, ⟨h1, _⟩, hlt, hqi, rfl⟩)
      · exact Or.inl h
      · have hRp : 0 < R := R_pos_of_pos spec.fits hlt
        exact Or.inr ⟨i, ⟨hlt, h1, Nat.mod_lt i hRp, hqi⟩, rfl⟩
    · rintro (h | ⟨i, ⟨hlt, h1, h2, hqi⟩, rfl⟩)
      · exact Or.inl h
      · exact Or.inr ⟨i, ⟨h1, by omega⟩, hlt, hqi, rfl⟩
  have hrows : ∀ (s' : MaxState α), R ≤ s'.row → ∀ x, Seen score t nPos R st.hits st.row s'.row x ↔
      Seen score t nPos R st.hits st.row R x := by
    intro s' hR x
    unfold Seen hitsOf
    constructor
    · rintro (h | ⟨i, ⟨h1, _⟩, hlt, rest⟩)
      · exact Or.inl h
      · have hRp : 0 < R := R_pos_of_pos spec.fits hlt
        exact Or.inr ⟨i, ⟨h1, Nat.mod_lt i hRp⟩, hlt, rest⟩
    · rintro (h | ⟨i, ⟨h1, h2⟩, rest⟩)
      · exact Or.inl h
      · exact Or.inr ⟨i, ⟨h1, by omega⟩, rest⟩
  unfold Scanner.max
  simp only [spec.seqRows]
  cases hs : seedBest t st.hits with
  | none =>
    rw [hs] at hB0
    obtain ⟨s', hloop, hR, hB⟩ := maxLoop_spec spec L t block hb st.hits st.row R
      ⟨st.row, none, k.scale t⟩ (Nat.le_refl _) (by simp only; omega) hB0 rfl
    simp only
    rw [hloop]
    exact ⟨s'.best, rfl, (hB.congr (hrows s' hR)).congr hfin⟩
  | some b =>
    rw [hs] at hB0
    obtain ⟨s', hloop, hR, hB⟩ := maxLoop_spec spec L t block hb st.hits st.row R
      ⟨st.row, some b, k.scale b.score⟩ (Nat.le_refl _) (by simp only; omega) hB0
      ⟨UInt8.le_refl _, hseedq b hs⟩
    simp only
    rw [hloop]
    exact ⟨s'.best, rfl, (hB.congr (hrows s' hR)).congr hfin⟩

/-- `k` calls of `next` from a fresh scanner: no panic; the hits returned together with the hits
    still to return are the qualifying positions -/
theorem nextN_spec {k : Kernels α C} {R nPos : Nat} {score : Nat → α}
    (spec : KernelSpec k R nPos score) (t : α) (block : Nat) (hb : 1 ≤ block) (n : Nat)
    (st : State α) :
    ∃ ret st', nextN k t block n st = .ok (ret, st') ∧
      (ret ++ remaining score t nPos R st').Perm (remaining score t nPos R st) := by
  induction n generalizing st with
  | zero => exact ⟨[], st, rfl, List.Perm.refl _⟩
  | succ n ih =>
    unfold nextN
    rcases next_spec spec t block hb st with ⟨h, st1, hn, hperm⟩ | ⟨st1, hn, hnil, hnil'⟩
    · rw [hn]
      obtain ⟨ret, st2, h2, hp2⟩ := ih st1
      refine ⟨h :: ret, st2, by simp only [h2], ?_⟩
      exact (List.Perm.cons h hp2).trans hperm
    · rw [hn]
      exact ⟨[], st1, rfl, by rw [hnil, hnil']; exact List.Perm.refl _⟩

/-- **C03.**  After any number `n` of calls of `next` on a fresh scanner, `max`:
    * does not panic;
    * the hits `ret` already returned and the hits `rest` not yet returned partition the
      qualifying positions `[(i, score i) | i < nPos, score i ≥ t]`;
    * returns `None` iff `rest` is empty, otherwise a member of `rest` that no member of `rest`
      out-scores (hence a position meeting the threshold with the maximum score among the
      positions not yet returned). -/
theorem max_after_next {k : Kernels α C} {R nPos : Nat} {score : Nat → α}
    (spec : KernelSpec k R nPos score) (L : OrderLaws α) (t : α) (block : Nat) (hb : 1 ≤ block)
    (n : Nat) :
    ∃ ret st r, nextN k t block n State.init = .ok (ret, st) ∧ Scanner.max k t block st = .ok r ∧
      (ret ++ remaining score t nPos R st).Perm ((allQual score t nPos).map (mkHit score)) ∧
      Best r (fun h => h ∈ remaining score t nPos R st) := by
  obtain ⟨ret, st, hn, hperm⟩ := nextN_spec spec t block hb n (State.init : State α)
  rw [remaining_init spec] at hperm
  have hq : ∀ h ∈ st.hits, ge h.score t = true := by
    intro h hh
    have hmem : h ∈ ret ++ remaining score t nPos R st := by
      unfold remaining; simp [hh]
    have := hperm.mem_iff.mp hmem
    rw [List.mem_map] at this
    obtain ⟨i, hi, rfl⟩ := this
    exact (mem_allQual.mp hi).2
  obtain ⟨r, hr, hB⟩ := max_spec spec L t block hb st hq
  exact ⟨ret, st, r, hn, hr, hperm, hB⟩

/-- two answers of `max` agree: both `None`, or hits of equal score -/
def SameBest (r1 r2 : Option (Hit α)) : Prop :=
  match r1, r2 with
  | none, none => True
  | some x, some y => ScanScalar.eq x.score y.score = true
  | _, _ => False

/-- independence from the block size (no hit consumed): two scanners over the same input with
    different block sizes both return `None`, or hits of equal score -/
theorem max_block_independent {k : Kernels α C} {R nPos : Nat} {score : Nat → α}
    (spec : KernelSpec k R nPos score) (L : OrderLaws α) (t : α) (b1 b2 : Nat) (h1 : 1 ≤ b1)
    (h2 : 1 ≤ b2) :
    ∃ r1 r2, Scanner.max k t b1 State.init = .ok r1 ∧ Scanner.max k t b2 State.init = .ok r2 ∧
      SameBest r1 r2 := by
  obtain ⟨r1, hr1, hB1⟩ := max_spec spec L t b1 h1 (State.init : State α) (by simp [State.init])
  obtain ⟨r2, hr2, hB2⟩ := max_spec spec L t b2 h2 (State.init : State α) (by simp [State.init])
  refine ⟨r1, r2, hr1, hr2, ?_⟩
  cases r1 with
  | none =>
    cases r2 with
    | none => trivial
    | some y => exact hB1 y hB2.1
  | some x =>
    cases r2 with
    | none => exact hB2 x hB1.1
    | some y =>
      simp only [SameBest, ScanScalar.eq, Bool.and_eq_true]
      exact ⟨(L.gt_false_iff _ _).mp (hB2.2 x hB1.1), (L.gt_false_iff _ _).mp (hB1.2 y hB2.1)⟩

/-! ### the real scanner -/

section concrete
open Striped
variable {K : Nat}

theorem erat_laws : OrderLaws ERat where
  le_total a b := by
    cases a <;> cases b <;> simp [C08.le_def, ERat.le]
    exact le_total _ _
  le_trans a b c := by
    cases a <;> cases b <;> cases c <;> simp [C08.le_def, ERat.le]
    exact le_trans
  lt_iff a b := by
    cases a with
    | bot => cases b <;> simp [C08.le_def, C08.lt_def, ERat.le, ERat.lt]
    | fin qa =>
      cases b with
      | bot => simp [C08.le_def, C08.lt_def, ERat.le, ERat.lt]
      | fin qb =>
        simp only [C08.le_def, C08.lt_def, ERat.le, ERat.lt]
        by_cases h : qa < qb
        · simp [h, not_le.mpr h]
        · simp [h, not_lt.mp h]

/-- **C03 for the real scanner.**  Exact arithmetic; every matrix with finite non-wildcard entries
    (wildcard column `−∞` or finite) and `factor > 0`, every sequence, striped with at least `M − 1`
    wrap rows, every threshold, every block size `≥ 1`, every dispatcher arm, both build profiles,
    every number `n` of preceding calls of `next`: nothing panics; the hits `ret` already returned
    together with `rest` (the hits not yet returned) are a permutation of the qualifying positions
    `[(i, score i) | i + M ≤ L, score i ≥ t]`; `max` returns `None` iff `rest` is empty and
    otherwise a member of `rest` whose score no member of `rest` exceeds. -/
theorem scanner_best_hit (arm : Arm) (overflowChecks : Bool) {p : Mat ERat K} {x : ℕ → ℕ → ℚ}
    (hfin : C08.FiniteEntries p x) (hK : 2 ≤ K) (hf : 0 < C08.facQ K x p.rows) (hC : 0 < C)
    (st : Striped C) (s : List Nat) (hinv : C04.Inv (K - 1) st s) (hs : ∀ a ∈ s, a < K)
    (hM : 1 ≤ p.rows) (hwrap : p.rows - 1 ≤ st.wrap) (t : ERat) (block : Nat) (hb : 1 ≤ block)
    (n : Nat) :
    ∃ dm, toDiscrete p = .ok dm ∧
      ∃ ret state rest r,
        nextN (kernels p dm st arm (accOf overflowChecks)) t block n State.init = .ok (ret, state) ∧
        Scanner.max (kernels p dm st arm (accOf overflowChecks)) t block state = .ok r ∧
        (ret ++ rest).Perm
          ((allQual (scoreAt p s) t (s.length + 1 - p.rows)).map (mkHit (scoreAt p s))) ∧
        (r = none ↔ rest = []) ∧
        ∀ b, r = some b → b ∈ rest ∧ ∀ h ∈ rest, ERat.le h.score b.score = true := by
  obtain ⟨dm, hdm, -⟩ := C08.toDiscrete_closed hfin hK
  have spec := kernels_spec arm overflowChecks hfin hK hdm hf hC st s hinv hs hM hwrap
  obtain ⟨ret, state, r, hn, hr, hperm, hB⟩ := max_after_next spec erat_laws t block hb n
  refine ⟨dm, hdm, ret, state, _, r, hn, hr, hperm, ?_, ?_⟩
  · cases r with
    | none =>
      simp only [true_iff]
      apply List.eq_nil_iff_forall_not_mem.mpr
      exact fun h hh => hB h hh
    | some b =>
      simp only [reduceCtorEq, false_iff]
      exact List.ne_nil_of_mem hB.1
  · rintro b rfl
    exact ⟨hB.1, fun h hh => (erat_laws.gt_false_iff _ _).mp (hB.2 h hh)⟩

/-- the best hit of a fresh scanner does not depend on the block size: for two block sizes `max`
    returns `None` twice or two hits of equal score -/
theorem scanner_best_hit_block_independent (arm : Arm) (overflowChecks : Bool) {p : Mat ERat K}
    {x : ℕ → ℕ → ℚ} (hfin : C08.FiniteEntries p x) (hK : 2 ≤ K) (hf : 0 < C08.facQ K x p.rows)
    (hC : 0 < C) (st : Striped C) (s : List Nat) (hinv : C04.Inv (K - 1) st s)
    (hs : ∀ a ∈ s, a < K) (hM : 1 ≤ p.rows) (hwrap : p.rows - 1 ≤ st.wrap) (t : ERat)
    (b1 b2 : Nat) (h1 : 1 ≤ b1) (h2 : 1 ≤ b2) :
    ∃ dm, toDiscrete p = .ok dm ∧ ∃ r1 r2,
      Scanner.max (kernels p dm st arm (accOf overflowChecks)) t b1 State.init = .ok r1 ∧
      Scanner.max (kernels p dm st arm (accOf overflowChecks)) t b2 State.init = .ok r2 ∧
      SameBest r1 r2 := by
  obtain ⟨dm, hdm, -⟩ := C08.toDiscrete_closed hfin hK
  exact ⟨dm, hdm, max_block_independent
    (kernels_spec arm overflowChecks hfin hK hdm hf hC st s hinv hs hM hwrap) erat_laws t b1 b2 h1 h2⟩

/-! non-vacuity, on the example of C02 (`C C A C C T C`, motif `C C`): after `n` calls of `next`
    with threshold 1 and block size 1 the hits come out in the order 4, 0, 5, 1, 2, 3; `max` then
    returns the best of the rest -/

def runx (t : ERat) (block n : Nat) : Option (List Nat × Option Nat) :=
  match toDiscrete C08.pex with
  | .ok dm =>
    match nextN (kernels C08.pex dm stx .generic .saturating) t block n State.init with
    | .ok (ret, st) =>
      match Scanner.max (kernels C08.pex dm stx .generic .saturating) t block st with
      | .ok r => some (ret.map (·.position), r.map (·.position))
      | .error _ => none
    | .error _ => none
  | .error _ => none

example : runx (.fin 1) 1 0 = some ([], some 3) := by decide +kernel
example : runx (.fin 1) 1 1 = some ([4], some 3) := by decide +kernel
example : runx (.fin 1) 3 3 = some ([2, 5, 1], some 3) := by decide +kernel
example : runx (.fin 2) 1 2 = some ([0, 3], none) := by decide +kernel
example : runx (.fin 3) 7 0 = some ([], none) := by decide +kernel

/-! ### the code before `fix: Scanner::max prunes better hits …`: the invariant `Bd` is what fails

  `maxCandOld` is the candidate loop as it was (`best_discrete = dscore`, an OVER-estimate of the
  best score).  On the instance below it returns position 1 (score 1/50) although position 6
  scores 1/10: after accepting position 1 the bound is its 8-bit score 2 = ⌈0.1⌉ + ⌈0.1⌉, and the
  block holding position 6, whose 8-bit score is 1 = ⌈1⌉ + 0, is skipped. -/

/-- the candidate loop of `max` before the repair (only the bound update differs) -/
def maxCandOld {α : Type} [ScanScalar α] {C : Nat} (k : Kernels α C) (t : α) (row : Nat) (ds : Scores C) :
    List (Nat × Nat) → Option (Hit α) × UInt8 → Except String (Option (Hit α) × UInt8)
  | [], s => .ok s
  | (r, c) :: cs, (best, bd) =>
    let dscore := ds.data.get r c
    if dscore ≥ bd then
      let index := c * k.seqRows + row + r
      if index < ds.maxIndex then
        match k.scorePosition index with
        | .error e => .error e
        | .ok score =>
          match best with
          | some hit =>
            if gt score hit.score || (ScanScalar.eq score hit.score && decide (index > hit.position)) then
              maxCandOld k t row ds cs (some ⟨index, score⟩, dscore)
            else maxCandOld k t row ds cs (best, bd)
          | none =>
            if ge score t then maxCandOld k t row ds cs (some ⟨index, score⟩, bd)
            else maxCandOld k t row ds cs (best, bd)
      else maxCandOld k t row ds cs (best, bd)
    else maxCandOld k t row ds cs (best, bd)

def maxLoopOld {α : Type} [ScanScalar α] {C : Nat} (k : Kernels α C) (t : α) (block : Nat) :
    Nat → MaxState α → Except String (MaxState α)
  | 0, _ => .error "no-progress"
  | fuel + 1, s =>
    if s.row < k.seqRows then
      match k.scoreRows s.row (min (s.row + block) k.seqRows) with
      | .error e => .error e
      | .ok ds =>
        let r : Except String (Option (Hit α) × UInt8) :=
          match k.max ds with
          | some m =>
            if m ≥ s.bd then maxCandOld k t s.row ds (k.threshold ds s.bd) (s.best, s.bd)
            else .ok (s.best, s.bd)
          | none => .ok (s.best, s.bd)
        match r with
        | .error e => .error e
        | .ok (best, bd) => maxLoopOld k t block fuel ⟨s.row + block, best, bd⟩
    else .ok s

/-- rows `[0, 1/100, 1/10, 20 | −∞]` and `[0, 1/100, 0, 11/2 | −∞]`: `factor = 25.5/255 = 1/10` -/
def pnt : Mat ERat 5 := Mat.ofFn 2 fun i j =>
  if j = 4 then .bot else
  if i = 0 then (if j = 1 then .fin (1/100) else if j = 2 then .fin (1/10) else if j = 3 then .fin 20 else .fin 0)
  else (if j = 1 then .fin (1/100) else if j = 3 then .fin (11/2) else .fin 0)

/-- `A C C A A A T A`: position 1 (`C C`) scores 1/50, position 6 (`T A`) scores 1/10 -/
def snt : List Nat := [0, 1, 1, 0, 0, 0, 2, 0]
def stnt : Striped 2 := (stripeGeneric 4 snt Striped.empty).configureWrap 4 1

/-- (answer of the loop before the repair, answer of `max` now), positions only; block size 1,
    threshold 0 -/
def runnt : Option (Option Nat × Option Nat) :=
  match toDiscrete pnt with
  | .ok dm =>
    let k := kernels pnt dm stnt .generic .saturating
    match maxLoopOld k (.fin 0) 1 (k.seqRows + 1) ⟨0, none, k.scale (.fin 0)⟩,
          Scanner.max k (.fin 0) 1 State.init with
    | .ok s, .ok r => some (s.best.map (·.position), r.map (·.position))
    | _, _ => none
  | .error _ => none

/-- the old bound update loses the best hit on this input; the repaired `max` finds it -/
theorem old_bound_counterexample :
    runnt = some (some 1, some 6) ∧
      scoreAt pnt snt 1 = .fin (1/50) ∧ scoreAt pnt snt 6 = .fin (1/10) := by
  refine ⟨by decide +kernel, by decide +kernel, by decide +kernel⟩

end concrete

end C03
end LMV
