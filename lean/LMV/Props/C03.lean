import LMV.Model.Scanner

namespace LMV
namespace C03

theorem placeholder : True := trivial

end C03
end LMV
