/-
  C07 — maximum, arg-maximum and thresholding of striped scores match their definitions.

  All theorems are about the mirror models of LMV.Model.Maximum (the definitions the compiled driver
  executes against the Rust code), for every row count, over any element type whose comparisons form
  a total preorder (`Cmp.Total` — what "no NaN" means for `f32`; `u8` satisfies it outright).
  Facts about the regenerated tables (`LMV.Gen.MaxK`: initial accumulators, compare predicates,
  load/store offsets, unpack order, `permute2x128` immediates, dispatcher arms) enter by unfolding
  and kernel evaluation, so an edit of the Rust kernels that changes a table breaks these proofs.
-/
import LMV.Lemmas.Maximum

namespace LMV
namespace C07

open Maximum LMV.Gen.MaxK

variable {α : Type}

/-! ### What the property says -/

/-- `p` designates a cell of the `rows × C` matrix, and no cell holds a larger value -/
def HoldsMax (o : Cmp α) (rows C : Nat) (f : Nat → Nat → α) (p : Coord) : Prop :=
  p.1 < rows ∧ p.2 < C ∧ ∀ r c, r < rows → c < C → o.le (f r c) (f p.1 p.2) = true

/-- `v` is stored in some cell, and no cell holds a larger value -/
def IsMax (o : Cmp α) (rows C : Nat) (f : Nat → Nat → α) (v : α) : Prop :=
  (∃ r c, r < rows ∧ c < C ∧ f r c = v) ∧ ∀ r c, r < rows → c < C → o.le (f r c) v = true

theorem HoldsMax.isMax {o : Cmp α} {rows C : Nat} {f : Nat → Nat → α} {p : Coord}
    (h : HoldsMax o rows C f p) : IsMax o rows C f (f p.1 p.2) :=
  ⟨⟨p.1, p.2, h.1, h.2.1, rfl⟩, h.2.2⟩

/-- two maxima of one matrix are equivalent (each `<=` the other) … -/
theorem IsMax.equiv {o : Cmp α} {rows C : Nat} {f : Nat → Nat → α} {v w : α}
    (hv : IsMax o rows C f v) (hw : IsMax o rows C f w) : o.le v w = true ∧ o.le w v = true := by
  obtain ⟨⟨r, c, hr, hc, rfl⟩, hv2⟩ := hv
  obtain ⟨⟨r', c', hr', hc', rfl⟩, hw2⟩ := hw
  exact ⟨hw2 r c hr hc, hv2 r' c' hr' hc'⟩

/-- … hence equal when the order is antisymmetric (a linear order) -/
theorem IsMax.unique {o : Cmp α} {rows C : Nat} {f : Nat → Nat → α} {v w : α}
    (hanti : ∀ a b, o.le a b = true → o.le b a = true → a = b)
    (hv : IsMax o rows C f v) (hw : IsMax o rows C f w) : v = w :=
  hanti _ _ (hv.equiv hw).1 (hv.equiv hw).2

/-! ### Trait defaults: the scalar scans -/

/-- the cells in the order the scalar loops visit them -/
def cellsOf (rows C : Nat) : List Coord :=
  (List.range rows).flatMap fun i => (List.range C).map fun j => (i, j)

theorem mem_cellsOf {rows C : Nat} {p : Coord} : p ∈ cellsOf rows C ↔ p.1 < rows ∧ p.2 < C := by
  obtain ⟨r, c⟩ := p
  simp only [cellsOf, List.mem_flatMap, List.mem_map, List.mem_range, Prod.mk.injEq]
  constructor
  · rintro ⟨i, hi, j, hj, rfl, rfl⟩; exact ⟨hi, hj⟩
  · rintro ⟨h1, h2⟩; exact ⟨r, h1, c, h2, rfl, rfl⟩

theorem argmaxGeneric_eq_none_iff (o : Cmp α) (C rows : Nat) (f : Nat → Nat → α) :
    argmaxGeneric o C rows f = none ↔ rows = 0 := by
  unfold argmaxGeneric
  by_cases h : rows = 0 <;> simp [h]

theorem argmaxGeneric_eq_fold (o : Cmp α) (C rows : Nat) (f : Nat → Nat → α) (h : rows ≠ 0) :
    argmaxGeneric o C rows f =
      some (let b := (cellsOf rows C).foldl (fun b p => genericStep o f p.1 b p.2) ⟨0, 0, f 0 0⟩
            (b.row, b.col)) := by
  have hr : 0 % rows = 0 := Nat.zero_mod _
  have hd : 0 / rows = 0 := Nat.zero_div _
  simp only [argmaxGeneric, h, if_false, cellsOf, List.foldl_flatMap, List.foldl_map, hr, hd]

/-- the scalar arg-max scan returns a cell holding the largest value -/
theorem argmaxGeneric_spec (o : Cmp α) (ht : o.Total) (C rows : Nat) (hC : 0 < C)
    (f : Nat → Nat → α) (p : Coord) (h : argmaxGeneric o C rows f = some p) :
    HoldsMax o rows C f p := by
  have hrows : rows ≠ 0 := by
    intro h0; rw [(argmaxGeneric_eq_none_iff o C rows f).2 h0] at h; cases h
  rw [argmaxGeneric_eq_fold o C rows f hrows] at h
  simp only [Option.some.injEq] at h
  have hstep1 : ∀ (s : Best α) (x : Coord),
      o.le s.score (genericStep o f x.1 s x.2).score = true := by
    intro s x
    simp only [genericStep, genericArgmaxRel, Rel.eval]
    by_cases hc : o.le s.score (f x.1 x.2) = true
    · simpa [hc] using hc
    · simpa [hc] using ht.refl _
  have hstep2 : ∀ (s : Best α) (x : Coord),
      o.le (f x.1 x.2) (genericStep o f x.1 s x.2).score = true := by
    intro s x
    simp only [genericStep, genericArgmaxRel, Rel.eval]
    by_cases hc : o.le s.score (f x.1 x.2) = true
    · simpa [hc] using ht.refl _
    · simpa [hc] using ht.le_of_not_le (by simpa using hc)
  have hbest := foldl_best o ht (fun b : Best α => b.score) (fun x : Coord => f x.1 x.2)
    (fun b x => genericStep o f x.1 b x.2) hstep1 hstep2 (cellsOf rows C) ⟨0, 0, f 0 0⟩
  have hinv := foldl_inv (fun b : Best α => b.row < rows ∧ b.col < C ∧ b.score = f b.row b.col)
    (fun b x => genericStep o f x.1 b x.2) (cellsOf rows C) ⟨0, 0, f 0 0⟩
    (by
      intro s x hx hs
      simp only [genericStep]
      by_cases hc : genericArgmaxRel.eval o (f x.1 x.2) s.score = true
      · simpa [hc] using mem_cellsOf.1 hx
      · simpa [hc] using hs)
    ⟨Nat.pos_of_ne_zero hrows, hC, rfl⟩
  generalize (cellsOf rows C).foldl (fun b x => genericStep o f x.1 b x.2) ⟨0, 0, f 0 0⟩ = b
    at h hbest hinv
  subst h
  refine ⟨hinv.1, hinv.2.1, ?_⟩
  intro r c hr hc
  have := hbest.2 (r, c) (mem_cellsOf.2 ⟨hr, hc⟩)
  simpa [hinv.2.2] using this

theorem maxGeneric_eq_none_iff (o : Cmp α) (C rows : Nat) (f : Nat → Nat → α) :
    maxGeneric o C rows f = none ↔ rows = 0 := by
  simp [maxGeneric, maxOfArgmax, argmaxGeneric_eq_none_iff]

/-- the scalar maximum is attained and dominates every cell -/
theorem maxGeneric_spec (o : Cmp α) (ht : o.Total) (C rows : Nat) (hC : 0 < C)
    (f : Nat → Nat → α) (v : α) (h : maxGeneric o C rows f = some v) : IsMax o rows C f v := by
  simp only [maxGeneric, maxOfArgmax, Option.map_eq_some_iff] at h
  obtain ⟨p, hp, rfl⟩ := h
  exact (argmaxGeneric_spec o ht C rows hC f p hp).isMax

/-- `threshold t` contains exactly the coordinates of the cells `>= t` … -/
theorem mem_thresholdGeneric (o : Cmp α) (C rows : Nat) (f : Nat → Nat → α) (t : α) (p : Coord) :
    p ∈ thresholdGeneric o C rows f t ↔ p.1 < rows ∧ p.2 < C ∧ o.le t (f p.1 p.2) = true := by
  obtain ⟨r, c⟩ := p
  simp only [thresholdGeneric, genericThresholdRel, Rel.eval, List.mem_flatMap, List.mem_map,
    List.mem_filter, List.mem_range, Prod.mk.injEq]
  constructor
  · rintro ⟨i, hi, j, ⟨hj, hle⟩, rfl, rfl⟩; exact ⟨hi, hj, hle⟩
  · rintro ⟨h1, h2, h3⟩; exact ⟨r, h1, c, ⟨h2, h3⟩, rfl, rfl⟩

/-- … each once -/
theorem thresholdGeneric_nodup (o : Cmp α) (C rows : Nat) (f : Nat → Nat → α) (t : α) :
    (thresholdGeneric o C rows f t).Nodup := by
  unfold thresholdGeneric List.Nodup
  rw [List.pairwise_flatMap]
  constructor
  · intro i _
    rw [List.pairwise_map]
    have h := (List.nodup_range (n := C)).sublist (List.filter_sublist (p := fun j => genericThresholdRel.eval o (f i j) t))
    exact List.Pairwise.imp (fun hab heq => hab (by cases heq; rfl)) h
  · exact List.Pairwise.imp
      (fun {a b} hab x hx y hy heq => by
        simp only [List.mem_map] at hx hy
        obtain ⟨_, _, rfl⟩ := hx
        obtain ⟨_, _, rfl⟩ := hy
        cases heq
        exact hab rfl)
      (List.nodup_range (n := rows))

end C07
end LMV
