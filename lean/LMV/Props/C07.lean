/-
  C07 — maximum, arg-maximum and thresholding of striped scores match their definitions.

  All theorems are about the mirror models of LMV.Model.Maximum (the definitions the compiled driver
  executes against the Rust code), for every row count, over any element type whose comparisons form
  a total preorder (`Cmp.Total` — what "no NaN" means for `f32`; `u8` satisfies it outright).
  Facts about the regenerated tables (`LMV.Gen.MaxK`: initial accumulators, compare predicates,
  load/store offsets, unpack order, `permute2x128` immediates, dispatcher arms) enter by unfolding
  and kernel evaluation, so an edit of the Rust kernels that changes a table breaks these proofs.
-/
import LMV.Lemmas.Maximum

namespace LMV
namespace C07

open Maximum LMV.Gen.MaxK

variable {α : Type}

/-! ### What the property says -/

/-- `p` designates a cell of the `rows × C` matrix, and no cell holds a larger value -/
def HoldsMax (o : Cmp α) (rows C : Nat) (f : Nat → Nat → α) (p : Coord) : Prop :=
  p.1 < rows ∧ p.2 < C ∧ ∀ r c, r < rows → c < C → o.le (f r c) (f p.1 p.2) = true

/-- `v` is stored in some cell, and no cell holds a larger value -/
def IsMax (o : Cmp α) (rows C : Nat) (f : Nat → Nat → α) (v : α) : Prop :=
  (∃ r c, r < rows ∧ c < C ∧ f r c = v) ∧ ∀ r c, r < rows → c < C → o.le (f r c) v = true

theorem HoldsMax.isMax {o : Cmp α} {rows C : Nat} {f : Nat → Nat → α} {p : Coord}
    (h : HoldsMax o rows C f p) : IsMax o rows C f (f p.1 p.2) :=
  ⟨⟨p.1, p.2, h.1, h.2.1, rfl⟩, h.2.2⟩

/-- two maxima of one matrix are equivalent (each `<=` the other) … -/
theorem IsMax.equiv {o : Cmp α} {rows C : Nat} {f : Nat → Nat → α} {v w : α}
    (hv : IsMax o rows C f v) (hw : IsMax o rows C f w) : o.le v w = true ∧ o.le w v = true := by
  obtain ⟨⟨r, c, hr, hc, rfl⟩, hv2⟩ := hv
  obtain ⟨⟨r', c', hr', hc', rfl⟩, hw2⟩ := hw
  exact ⟨hw2 r c hr hc, hv2 r' c' hr' hc'⟩

/-- … hence equal when the order is antisymmetric (a linear order) -/
theorem IsMax.unique {o : Cmp α} {rows C : Nat} {f : Nat → Nat → α} {v w : α}
    (hanti : ∀ a b, o.le a b = true → o.le b a = true → a = b)
    (hv : IsMax o rows C f v) (hw : IsMax o rows C f w) : v = w :=
  hanti _ _ (hv.equiv hw).1 (hv.equiv hw).2

/-! ### Trait defaults: the scalar scans -/

/-- the cells in the order the scalar loops visit them -/
def cellsOf (rows C : Nat) : List Coord :=
  (List.range rows).flatMap fun i => (List.range C).map fun j => (i, j)

theorem mem_cellsOf {rows C : Nat} {p : Coord} : p ∈ cellsOf rows C ↔ p.1 < rows ∧ p.2 < C := by
  obtain ⟨r, c⟩ := p
  simp only [cellsOf, List.mem_flatMap, List.mem_map, List.mem_range, Prod.mk.injEq]
  constructor
  · rintro ⟨i, hi, j, hj, rfl, rfl⟩; exact ⟨hi, hj⟩
  · rintro ⟨h1, h2⟩; exact ⟨r, h1, c, h2, rfl, rfl⟩

theorem argmaxGeneric_eq_none_iff (o : Cmp α) (C rows : Nat) (f : Nat → Nat → α) :
    argmaxGeneric o C rows f = none ↔ rows = 0 := by
  unfold argmaxGeneric
  by_cases h : rows = 0 <;> simp [h]

theorem argmaxGeneric_eq_fold (o : Cmp α) (C rows : Nat) (f : Nat → Nat → α) (h : rows ≠ 0) :
    argmaxGeneric o C rows f =
      some (let b := (cellsOf rows C).foldl (fun b p => genericStep o f p.1 b p.2) ⟨0, 0, f 0 0⟩
            (b.row, b.col)) := by
  have hr : 0 % rows = 0 := Nat.zero_mod _
  have hd : 0 / rows = 0 := Nat.zero_div _
  simp only [argmaxGeneric, h, if_false, cellsOf, List.foldl_flatMap, List.foldl_map, hr, hd]

/-- the scalar arg-max scan returns a cell holding the largest value -/
theorem argmaxGeneric_spec (o : Cmp α) (ht : o.Total) (C rows : Nat) (hC : 0 < C)
    (f : Nat → Nat → α) (p : Coord) (h : argmaxGeneric o C rows f = some p) :
    HoldsMax o rows C f p := by
  have hrows : rows ≠ 0 := by
    intro h0; rw [(argmaxGeneric_eq_none_iff o C rows f).2 h0] at h; cases h
  rw [argmaxGeneric_eq_fold o C rows f hrows] at h
  simp only [Option.some.injEq] at h
  have hstep1 : ∀ (s : Best α) (x : Coord),
      o.le s.score (genericStep o f x.1 s x.2).score = true := by
    intro s x
    simp only [genericStep, genericArgmaxRel, Rel.eval]
    by_cases hc : o.le s.score (f x.1 x.2) = true
    · simp [hc]
    · simpa [hc] using ht.refl _
  have hstep2 : ∀ (s : Best α) (x : Coord),
      o.le (f x.1 x.2) (genericStep o f x.1 s x.2).score = true := by
    intro s x
    simp only [genericStep, genericArgmaxRel, Rel.eval]
    by_cases hc : o.le s.score (f x.1 x.2) = true
    · simpa [hc] using ht.refl _
    · simpa [hc] using ht.le_of_not_le (by simpa using hc)
  have hbest := foldl_best o ht (fun b : Best α => b.score) (fun x : Coord => f x.1 x.2)
    (fun b x => genericStep o f x.1 b x.2) hstep1 hstep2 (cellsOf rows C) ⟨0, 0, f 0 0⟩
  have hinv := foldl_inv (fun b : Best α => b.row < rows ∧ b.col < C ∧ b.score = f b.row b.col)
    (fun b x => genericStep o f x.1 b x.2) (cellsOf rows C) ⟨0, 0, f 0 0⟩
    (by
      intro s x hx hs
      simp only [genericStep]
      by_cases hc : genericArgmaxRel.eval o (f x.1 x.2) s.score = true
      · simpa [hc] using mem_cellsOf.1 hx
      · simpa [hc] using hs)
    ⟨Nat.pos_of_ne_zero hrows, hC, rfl⟩
  generalize (cellsOf rows C).foldl (fun b x => genericStep o f x.1 b x.2) ⟨0, 0, f 0 0⟩ = b
    at h hbest hinv
  subst h
  refine ⟨hinv.1, hinv.2.1, ?_⟩
  intro r c hr hc
  have := hbest.2 (r, c) (mem_cellsOf.2 ⟨hr, hc⟩)
  simpa [hinv.2.2] using this

theorem maxGeneric_eq_none_iff (o : Cmp α) (C rows : Nat) (f : Nat → Nat → α) :
    maxGeneric o C rows f = none ↔ rows = 0 := by
  simp [maxGeneric, maxOfArgmax, argmaxGeneric_eq_none_iff]

/-- the scalar maximum is attained and dominates every cell -/
theorem maxGeneric_spec (o : Cmp α) (ht : o.Total) (C rows : Nat) (hC : 0 < C)
    (f : Nat → Nat → α) (v : α) (h : maxGeneric o C rows f = some v) : IsMax o rows C f v := by
  simp only [maxGeneric, maxOfArgmax, Option.map_eq_some_iff] at h
  obtain ⟨p, hp, rfl⟩ := h
  exact (argmaxGeneric_spec o ht C rows hC f p hp).isMax

/-- `threshold t` contains exactly the coordinates of the cells `>= t` … -/
theorem mem_thresholdGeneric (o : Cmp α) (C rows : Nat) (f : Nat → Nat → α) (t : α) (p : Coord) :
    p ∈ thresholdGeneric o C rows f t ↔ p.1 < rows ∧ p.2 < C ∧ o.le t (f p.1 p.2) = true := by
  obtain ⟨r, c⟩ := p
  simp only [thresholdGeneric, genericThresholdRel, Rel.eval, List.mem_flatMap, List.mem_map,
    List.mem_filter, List.mem_range, Prod.mk.injEq]
  constructor
  · rintro ⟨i, hi, j, ⟨hj, hle⟩, rfl, rfl⟩; exact ⟨hi, hj, hle⟩
  · rintro ⟨h1, h2, h3⟩; exact ⟨r, h1, c, ⟨h2, h3⟩, rfl, rfl⟩

/-- … each once -/
theorem thresholdGeneric_nodup (o : Cmp α) (C rows : Nat) (f : Nat → Nat → α) (t : α) :
    (thresholdGeneric o C rows f t).Nodup := by
  unfold thresholdGeneric List.Nodup
  rw [List.pairwise_flatMap]
  constructor
  · intro i _
    rw [List.pairwise_map]
    have h := (List.nodup_range (n := C)).sublist (List.filter_sublist (p := fun j => genericThresholdRel.eval o (f i j) t))
    exact List.Pairwise.imp (fun hab heq => hab (by cases heq; rfl)) h
  · exact List.Pairwise.imp
      (fun {a b} hab x hx y hy heq => by
        simp only [List.mem_map] at hx hy
        obtain ⟨_, _, rfl⟩ := hx
        obtain ⟨_, _, rfl⟩ := hy
        cases heq
        exact hab rfl)
      (List.nodup_range (n := rows))

/-! ### Vector kernels: the scalar epilogue over the per-column row indices -/

/-- what the row loop of an arg-max kernel establishes: `x[col]` is a row holding the maximum of
    column `col` -/
def ColMax (o : Cmp α) (rows C : Nat) (f : Nat → Nat → α) (x : List Nat) : Prop :=
  ∀ col, col < C → ∃ p, x[col]? = some p ∧ p < rows ∧
    ∀ i, i < rows → o.le (f i col) (f p col) = true

/-- the epilogue `for (col, row) in x.enumerate() { if take(data[row][col], best_score) {…} }`
    returns a cell holding the largest value, whether it is seeded with a cell of the matrix or
    with a value below everything at position (0, 0) -/
theorem reduceCols_spec (o : Cmp α) (ht : o.Total) (rows C : Nat) (hrows : 0 < rows) (hC : 0 < C)
    (f : Nat → Nat → α) (x : List Nat) (hlen : x.length = C) (hx : ColMax o rows C f x)
    (take : α → α → Bool)
    (htake1 : ∀ sc best, take sc best = true → o.le best sc = true)
    (htake2 : ∀ sc best, take sc best = false → o.le sc best = true)
    (init : Best α)
    (hinit : (init.row < rows ∧ init.col < C ∧ init.score = f init.row init.col) ∨
             (init.row = 0 ∧ init.col = 0 ∧ ∀ v, o.le init.score v = true)) :
    HoldsMax o rows C f ((reduceCols take f x init).row, (reduceCols take f x init).col) := by
  unfold reduceCols
  have hstep1 : ∀ (s : Best α) (rc : Nat × Nat), o.le s.score
      (if take (f rc.1 rc.2) s.score = true then (⟨rc.1, rc.2, f rc.1 rc.2⟩ : Best α) else s).score = true := by
    intro s rc
    cases hc : take (f rc.1 rc.2) s.score
    · simpa using ht.refl _
    · simpa using htake1 _ _ hc
  have hstep2 : ∀ (s : Best α) (rc : Nat × Nat), o.le (f rc.1 rc.2)
      (if take (f rc.1 rc.2) s.score = true then (⟨rc.1, rc.2, f rc.1 rc.2⟩ : Best α) else s).score = true := by
    intro s rc
    cases hc : take (f rc.1 rc.2) s.score
    · simpa using htake2 _ _ hc
    · simpa using ht.refl _
  have hbest := foldl_best o ht (fun b : Best α => b.score) (fun rc : Nat × Nat => f rc.1 rc.2)
    _ hstep1 hstep2 x.zipIdx init
  have hinv := foldl_inv
    (fun b : Best α => b = init ∨ (b.row < rows ∧ b.col < C ∧ b.score = f b.row b.col))
    (fun (b : Best α) (rc : Nat × Nat) =>
      if take (f rc.1 rc.2) b.score = true then (⟨rc.1, rc.2, f rc.1 rc.2⟩ : Best α) else b)
    x.zipIdx init
    (by
      intro s rc hrc hs
      cases hc : take (f rc.1 rc.2) s.score
      · simpa using hs
      · right
        have hm := List.mem_zipIdx_iff_getElem?.1 hrc
        have hlt : rc.2 < C := by
          rw [← hlen]
          exact (List.getElem?_eq_some_iff.1 hm).1
        obtain ⟨p, hp1, hp2, _⟩ := hx rc.2 hlt
        rw [hm] at hp1
        cases hp1
        simpa using ⟨hp2, hlt⟩)
    (Or.inl rfl)
  generalize List.foldl (fun (b : Best α) (rc : Nat × Nat) =>
      if take (f rc.1 rc.2) b.score = true then (⟨rc.1, rc.2, f rc.1 rc.2⟩ : Best α) else b)
      init x.zipIdx = b at hbest hinv ⊢
  -- every cell is dominated by the final score
  have hall : ∀ r c, r < rows → c < C → o.le (f r c) b.score = true := by
    intro r c hr hc
    obtain ⟨p, hp1, _, hp3⟩ := hx c hc
    have hm : (p, c) ∈ x.zipIdx := List.mk_mem_zipIdx_iff_getElem?.2 hp1
    exact ht.trans _ _ _ (hp3 r hr) (hbest.2 (p, c) hm)
  have hvalid : (b.row < rows ∧ b.col < C ∧ b.score = f b.row b.col) → HoldsMax o rows C f (b.row, b.col) := by
    rintro ⟨h1, h2, h3⟩
    refine ⟨h1, h2, ?_⟩
    intro r c hr hc
    simpa [h3] using hall r c hr hc
  rcases hinv with rfl | hv
  · rcases hinit with hv | ⟨h1, h2, h3⟩
    · exact hvalid hv
    · refine ⟨by simpa [h1] using hrows, by simpa [h2] using hC, ?_⟩
      intro r c hr hc
      simp only [h1, h2]
      exact ht.trans _ _ _ (hall r c hr hc) (h3 _)
  · exact hvalid hv

/-- one float lane down its column: seeded so that row 0 is taken, it ends on a row holding the
    column maximum (`idx` = the `i as i32` round trip, exact below 2^32 rows) -/
theorem lane_col (o : Cmp α) (ht : o.Total) (take : α → α → Bool)
    (htake : ∀ s r, take s r = o.le s r) (g : Nat → α) (rows : Nat) (hrows : 0 < rows)
    (hle : rows ≤ 4294967296) (p0 : Nat) (s0 : α) (hinit : take s0 (g 0) = true) :
    (laneFold (laneStep take id (· % 4294967296)) g (List.range rows) (p0, s0)).1 < rows ∧
    ∀ i, i < rows → o.le (g i)
      (g (laneFold (laneStep take id (· % 4294967296)) g (List.range rows) (p0, s0)).1) = true := by
  obtain ⟨n, rfl⟩ : ∃ n, rows = n + 1 := ⟨rows - 1, by omega⟩
  have h := laneFold_argmax o.le ht.total ht.trans take id (· % 4294967296) (fun s v => s = v)
    (fun _ => rfl) (by intro s v r hs; subst hs; exact htake _ _) g p0 s0 hinit n
    (by intro i hi; exact Nat.mod_eq_of_lt (by omega))
  exact ⟨h.1, h.2.2⟩

/-! ### `argmax_f32_avx2` -/

/-- facts about the regenerated tables of `argmax_f32_avx2`, by kernel evaluation: lane `l` of
    register `k` reads column `off_k + l`, starts from row 0 of that column with index 0, and is
    stored at `x[off_k + l]`; the compare is `s <= r`, the epilogue compare `score > best_score` -/
theorem af32_tables :
    af32LoadOffs.length = 4 ∧
    (∀ col, col < 32 → af32LoadOffs.getD (col / 8) 0 + col % 8 = col) ∧
    (∀ col, col < 32 → af32SInit.getD (col / 8) .zero = .row0 (col - col % 8)) ∧
    (∀ col, col < 32 → af32PInit.getD (col / 8) .zero = .zero) ∧
    storeAll 32 32 8 af32Stores (List.range 32) = List.range 32 ∧
    af32AccFirst = true ∧ af32Rel = .le ∧ af32FinalRel = .gt := by decide

theorem argmaxF32Avx2_spec (o : Cmp α) (ht : o.Total) (maxIndex rows : Nat)
    (hle : rows ≤ 4294967296) (f : Nat → Nat → α) (p : Coord)
    (h : argmaxF32Avx2 o maxIndex rows f = .ok (some p)) : HoldsMax o rows 32 f p := by
  obtain ⟨t1, t2, t3, t4, t5, t6, t7, t8⟩ := af32_tables
  unfold argmaxF32Avx2 at h
  split at h
  · cases h
  split at h
  · cases h
  next hmi hrows =>
  simp only [Except.ok.injEq, Option.some.injEq] at h
  subst h
  have hrows' : 0 < rows := Nat.pos_of_ne_zero hrows
  -- the register file after the row loop
  generalize hst : rowsRun (laneStep (af32Take o) id (· % 4294967296)) (af32Read f) rows (af32Init o f) = st
  have hlen : (st.map (·.1)).length = 32 := by
    rw [← hst, List.length_map, rowsRun_length]; simp [af32Init, t1]
  have htake : ∀ s r, af32Take o s r = o.le s r := by
    intro s r; simp [af32Take, t6, t7, Rel.eval]
  have hcol : ∀ col, col < 32 → ∃ q, (st.map (·.1))[col]? = some q ∧ q < rows ∧
      ∀ i, i < rows → o.le (f i col) (f q col) = true := by
    intro col hc
    have hinit : (af32Init o f)[col]? = some (0, f 0 col) := by
      simp only [af32Init, t1, List.getElem?_map, List.getElem?_range hc, Option.map_some,
        t3 col hc, t4 col hc, initIdx, initLane]
      congr 3
      omega
    have hrd : (fun i => af32Read f i col) = fun i => f i col := by
      funext i; simp only [af32Read]; rw [t2 col hc]
    have hl := lane_col o ht (af32Take o) htake (fun i => f i col) rows hrows' hle 0 (f 0 col)
      (by rw [htake]; exact ht.refl _)
    refine ⟨_, ?_, hl.1, hl.2⟩
    rw [← hst, List.getElem?_map, rowsRun_getElem?, hinit, hrd]
    rfl
  apply reduceCols_spec o ht rows 32 hrows' (by omega) f
  · rw [storeAll_eq_map 0 32 8 af32Stores _ hlen, t5]; simp
  · intro col hc
    obtain ⟨q, hq1, hq2, hq3⟩ := hcol col hc
    refine ⟨q, ?_, hq2, hq3⟩
    rw [storeAll_eq_map 0 32 8 af32Stores _ hlen, t5, List.getElem?_map, List.getElem?_range hc]
    simp only [Option.map_some, List.getD_eq_getElem?_getD, hq1, Option.getD_some]
  · intro sc best hc
    simp only [t8, Rel.eval] at hc
    exact ht.le_of_lt hc
  · intro sc best hc
    simp only [t8, Rel.eval] at hc
    exact ht.le_of_not_lt hc
  · left; exact ⟨hrows', by show 0 < 32; omega, rfl⟩

theorem argmaxF32Avx2_none_iff (o : Cmp α) (maxIndex rows : Nat) (f : Nat → Nat → α) :
    argmaxF32Avx2 o maxIndex rows f = .ok none ↔ maxIndex ≤ 4294967295 ∧ rows = 0 := by
  unfold argmaxF32Avx2
  by_cases h1 : maxIndex > 4294967295
  · simp [h1]; omega
  · by_cases h2 : rows = 0
    · simp [h1, h2]; omega
    · simp [h1, h2]

/-- the only panic is the explicit size guard -/
theorem argmaxF32Avx2_panic_iff (o : Cmp α) (maxIndex rows : Nat) (f : Nat → Nat → α) :
    (∃ e, argmaxF32Avx2 o maxIndex rows f = .error e) ↔ maxIndex > 4294967295 := by
  unfold argmaxF32Avx2
  by_cases h1 : maxIndex > 4294967295
  · simp [h1]
  · by_cases h2 : rows = 0 <;> simp [h1, h2]

/-! ### `argmax_sse2` -/

theorem sse2_tables :
    sse2Lanes = 16 ∧ sse2LoadOffs.length = 4 ∧
    (∀ s, s < 16 → sse2LoadOffs.getD (s / 4) 0 + s % 4 = s) ∧
    (∀ s, s < 16 → sse2SInit.getD (s / 4) .zero = .best) ∧
    (∀ s, s < 16 → sse2PInit.getD (s / 4) .zero = .zero) ∧
    storeAll 16 16 4 sse2Stores (List.range 16) = List.range 16 ∧
    sse2AccFirst = true ∧ sse2Rel = .le ∧ sse2FinalRel = .ge ∧ sse2BestInitNegInf = true := by
  decide

/-- one pass of the block loop stores, for each of its 16 columns, a row holding the column maximum -/
theorem sse2Block_spec (o : Cmp α) (ht : o.Total) (hbot : ∀ v, o.le o.negInf v = true)
    (rows : Nat) (hrows : 0 < rows) (hle : rows ≤ 4294967296) (f : Nat → Nat → α) (offset : Nat) :
    (sse2Block o rows f offset).length = 16 ∧
    ∀ k, k < 16 → ∃ q, (sse2Block o rows f offset)[k]? = some q ∧ q < rows ∧
      ∀ i, i < rows → o.le (f i (offset + k)) (f q (offset + k)) = true := by
  obtain ⟨t1, t2, t3, t4, t5, t6, t7, t8, _, _⟩ := sse2_tables
  unfold sse2Block
  generalize hst : rowsRun (laneStep (sse2Take o) id (· % 4294967296)) (sse2Read f offset) rows (sse2Init o f) = st
  simp only [t1]
  have hlen : (st.map (·.1)).length = 16 := by
    rw [← hst, List.length_map, rowsRun_length]; simp [sse2Init, t2]
  have htake : ∀ s r, sse2Take o s r = o.le s r := by
    intro s r; simp [sse2Take, t7, t8, Rel.eval]
  rw [storeAll_eq_map 0 16 4 sse2Stores _ hlen, t6]
  refine ⟨by simp, ?_⟩
  intro k hk
  have hinit : (sse2Init o f)[k]? = some (0, o.negInf) := by
    simp only [sse2Init, t2, List.getElem?_map, List.getElem?_range hk, Option.map_some,
      t4 k hk, t5 k hk, initIdx, initLane]
  have hrd : (fun i => sse2Read f offset i k) = fun i => f i (offset + k) := by
    funext i; simp only [sse2Read]; rw [Nat.add_assoc, t3 k hk]
  have hl := lane_col o ht (sse2Take o) htake (fun i => f i (offset + k)) rows hrows hle 0 o.negInf
    (by rw [htake]; exact hbot _)
  refine ⟨_, ?_, hl.1, hl.2⟩
  rw [List.getElem?_map, List.getElem?_range hk]
  simp only [Option.map_some, List.getD_eq_getElem?_getD, List.getElem?_map]
  rw [← hst, rowsRun_getElem?, hinit, hrd]
  rfl

/-- the block loop fills `output` block by block -/
theorem sse2Output_spec (B : Nat → List Nat) (hB : ∀ off, (B off).length = 16) (q : Nat) :
    ∀ n, n ≤ q →
      ((List.range n).foldl (fun out blk => writeAt out (blk * 16) (B (blk * 16)))
        (List.replicate (16 * q) 0)).length = 16 * q ∧
      ∀ col, col < 16 * n →
        ((List.range n).foldl (fun out blk => writeAt out (blk * 16) (B (blk * 16)))
          (List.replicate (16 * q) 0))[col]? = (B (col / 16 * 16))[col % 16]? := by
  intro n
  induction n with
  | zero => intro _; exact ⟨by simp, by intro col h; omega⟩
  | succ n ih =>
    intro hn
    obtain ⟨h1, h2⟩ := ih (by omega)
    rw [List.range_succ, List.foldl_append]
    generalize (List.range n).foldl (fun out blk => writeAt out (blk * 16) (B (blk * 16)))
      (List.replicate (16 * q) 0) = out at h1 h2
    simp only [List.foldl_cons, List.foldl_nil]
    have hfit : n * 16 + (B (n * 16)).length ≤ out.length := by rw [hB, h1]; omega
    refine ⟨by rw [length_writeAt _ _ _ hfit, h1], ?_⟩
    intro col hcol
    rw [getElem?_writeAt _ _ _ hfit, hB]
    by_cases hc : col < n * 16
    · simp only [hc, if_true]; exact h2 col (by omega)
    · have h3 : col < n * 16 + 16 := by omega
      have h4 : col / 16 = n := by omega
      have h5 : col % 16 = col - n * 16 := by omega
      simp only [hc, h3, if_false, if_true, h4, h5]

theorem argmaxSse2_spec (o : Cmp α) (ht : o.Total) (hbot : ∀ v, o.le o.negInf v = true)
    (q : Nat) (hq : 0 < q) (maxIndex rows : Nat) (hle : rows ≤ 4294967296)
    (f : Nat → Nat → α) (p : Coord)
    (h : argmaxSse2 o (16 * q) maxIndex rows f = .ok (some p)) : HoldsMax o rows (16 * q) f p := by
  obtain ⟨t1, _, _, _, _, _, _, _, t9, _⟩ := sse2_tables
  unfold argmaxSse2 at h
  split at h
  · cases h
  split at h
  · cases h
  next hmi hrows =>
  simp only [Except.ok.injEq, Option.some.injEq] at h
  subst h
  have hrows' : 0 < rows := Nat.pos_of_ne_zero hrows
  have hB := fun off => (sse2Block_spec o ht hbot rows hrows' hle f off).1
  have hq16 : 16 * q / 16 = q := Nat.mul_div_cancel_left q (by omega)
  have hout := sse2Output_spec (fun off => sse2Block o rows f off) hB q q (Nat.le_refl _)
  simp only [t1, hq16]
  generalize (List.range q).foldl (fun out blk => writeAt out (blk * 16) (sse2Block o rows f (blk * 16)))
    (List.replicate (16 * q) 0) = out at hout
  apply reduceCols_spec o ht rows (16 * q) hrows' (by omega) f out hout.1
  · intro col hc
    obtain ⟨qq, hq1, hq2, hq3⟩ := (sse2Block_spec o ht hbot rows hrows' hle f (col / 16 * 16)).2
      (col % 16) (Nat.mod_lt _ (by omega))
    have hcol : col / 16 * 16 + col % 16 = col := by omega
    rw [hcol] at hq3
    exact ⟨qq, by rw [hout.2 col hc]; exact hq1, hq2, hq3⟩
  · intro sc best hc
    simpa [t9, Rel.eval] using hc
  · intro sc best hc
    simp only [t9, Rel.eval] at hc
    exact ht.le_of_not_le hc
  · right; exact ⟨rfl, rfl, hbot⟩

theorem argmaxSse2_none_iff (o : Cmp α) (C maxIndex rows : Nat) (f : Nat → Nat → α) :
    argmaxSse2 o C maxIndex rows f = .ok none ↔ maxIndex ≤ 4294967295 ∧ rows = 0 := by
  unfold argmaxSse2
  by_cases h1 : maxIndex > 4294967295
  · simp [h1]; omega
  · by_cases h2 : rows = 0
    · simp [h1, h2]; omega
    · simp [h1, h2]

theorem argmaxSse2_panic_iff (o : Cmp α) (C maxIndex rows : Nat) (f : Nat → Nat → α) :
    (∃ e, argmaxSse2 o C maxIndex rows f = .error e) ↔ maxIndex > 4294967295 := by
  unfold argmaxSse2
  by_cases h1 : maxIndex > 4294967295
  · simp [h1]
  · by_cases h2 : rows = 0 <;> simp [h1, h2]

/-! ### `max_f32_avx2` and `max_u8_avx2` -/

/-- a max-like lane down one column, seeded with `a`: the result is `a` or a cell of the column,
    and dominates `a` and every cell of the column -/
theorem lane_max (o : Cmp α) (ht : o.Total) (op : α → α → α) (hop : MaxLike o op)
    (g : Nat → α) (rows : Nat) (a : α) :
    (laneFold (fun _ m r => op m r) g (List.range rows) a = a ∨
      ∃ i, i < rows ∧ laneFold (fun _ m r => op m r) g (List.range rows) a = g i) ∧
    o.le a (laneFold (fun _ m r => op m r) g (List.range rows) a) = true ∧
    ∀ i, i < rows → o.le (g i) (laneFold (fun _ m r => op m r) g (List.range rows) a) = true := by
  have h := foldl_maxLike o ht op hop ((List.range rows).map g) a
  have he : laneFold (fun _ m r => op m r) g (List.range rows) a = ((List.range rows).map g).foldl op a := by
    simp [laneFold, List.foldl_map]
  rw [he]
  obtain ⟨h1, h2, h3⟩ := h
  refine ⟨?_, h2, ?_⟩
  · rcases h1 with h1 | h1
    · exact Or.inl h1
    · right
      obtain ⟨i, hi, hgi⟩ := List.mem_map.1 h1
      exact ⟨i, List.mem_range.1 hi, hgi.symm⟩
  · intro i hi
    exact h3 _ (List.mem_map.2 ⟨i, List.mem_range.2 hi, rfl⟩)

theorem mf32_tables :
    mf32LoadOffs.length = 4 ∧
    (∀ s, s < 32 → mf32LoadOffs.getD (s / 8) 0 + s % 8 = s) ∧
    (∀ s, s < 32 → mf32Init.getD (s / 8) .zero = .row0 (s - s % 8)) ∧
    mf32AccFirst = true ∧ mf32Tree = ((0, 1), (2, 3)) := by decide

theorem maxF32Avx2_eq_none_iff (o : Cmp α) (rows : Nat) (f : Nat → Nat → α) :
    maxF32Avx2 o rows f = none ↔ rows = 0 := by
  unfold maxF32Avx2
  by_cases h : rows = 0
  · simp [h]
  · simp [h, reduce1_eq_none]

/-- `max_f32_avx2` (accumulators seeded with the first row) returns a value that is attained and
    dominates every cell -/
theorem maxF32Avx2_spec (o : Cmp α) (ht : o.Total) (rows : Nat) (f : Nat → Nat → α) (v : α)
    (h : maxF32Avx2 o rows f = some v) : IsMax o rows 32 f v := by
  obtain ⟨t1, t2, t3, t4, t5⟩ := mf32_tables
  unfold maxF32Avx2 at h
  split at h
  · cases h
  next hrows =>
  have hrows' : 0 < rows := Nat.pos_of_ne_zero hrows
  generalize hst : rowsRun (mf32Step o) (mf32Read f) rows (mf32InitLanes o f) = st at h
  -- every lane holds a cell of its column that dominates the column
  have hV : ∀ s, s < 32 → (∃ i, i < rows ∧ st.getD s o.zero = f i s) ∧
      ∀ i, i < rows → o.le (f i s) (st.getD s o.zero) = true := by
    intro s hs
    have hinit : (mf32InitLanes o f)[s]? = some (f 0 s) := by
      simp only [mf32InitLanes, t1, List.getElem?_map, List.getElem?_range hs, Option.map_some,
        t3 s hs, initLane]
      congr 2
      omega
    have hrd : (fun i => mf32Read f i s) = fun i => f i s := by
      funext i; simp only [mf32Read]; rw [t2 s hs]
    have hstep : mf32Step o = fun _ m r => maxps o m r := by
      funext i m r; simp [mf32Step, t4]
    have hget : st.getD s o.zero = laneFold (fun _ m r => maxps o m r) (fun i => f i s) (List.range rows) (f 0 s) := by
      rw [List.getD_eq_getElem?_getD, ← hst, rowsRun_getElem?, hinit, hrd, hstep]; rfl
    obtain ⟨l1, _, l3⟩ := lane_max o ht (maxps o) (maxps_maxLike o ht) (fun i => f i s) rows (f 0 s)
    rw [hget]
    refine ⟨?_, l3⟩
    rcases l1 with l1 | l1
    · exact ⟨0, hrows', l1⟩
    · exact l1
  simp only [t5] at h
  obtain ⟨hmem, hdom⟩ := reduce1_maxLike o ht (fmax o) (fmax_maxLike o ht) _ v h
  have mp := maxps_maxLike o ht
  constructor
  · -- attained
    obtain ⟨l, hl, rfl⟩ := List.mem_map.1 hmem
    have hl8 : l < 8 := List.mem_range.1 hl
    have key : ∀ a b c d : α, maxps o (maxps o a b) (maxps o c d) = a ∨ maxps o (maxps o a b) (maxps o c d) = b ∨
        maxps o (maxps o a b) (maxps o c d) = c ∨ maxps o (maxps o a b) (maxps o c d) = d := by
      intro a b c d
      rcases (mp (maxps o a b) (maxps o c d)).1 with e | e <;> rw [e]
      · rcases (mp a b).1 with e | e <;> simp [e]
      · rcases (mp c d).1 with e | e <;> simp [e]
    rcases key (st.getD (8 * 0 + l) o.zero) (st.getD (8 * 1 + l) o.zero) (st.getD (8 * 2 + l) o.zero)
      (st.getD (8 * 3 + l) o.zero) with e | e | e | e <;> rw [e]
    · obtain ⟨i, hi, hv⟩ := (hV (8 * 0 + l) (by omega)).1; exact ⟨i, _, hi, by omega, hv.symm⟩
    · obtain ⟨i, hi, hv⟩ := (hV (8 * 1 + l) (by omega)).1; exact ⟨i, _, hi, by omega, hv.symm⟩
    · obtain ⟨i, hi, hv⟩ := (hV (8 * 2 + l) (by omega)).1; exact ⟨i, _, hi, by omega, hv.symm⟩
    · obtain ⟨i, hi, hv⟩ := (hV (8 * 3 + l) (by omega)).1; exact ⟨i, _, hi, by omega, hv.symm⟩
  · -- dominates
    intro r c hr hc
    have h1 := (hV c hc).2 r hr
    have hm := hdom _ (List.mem_map.2 ⟨c % 8, List.mem_range.2 (Nat.mod_lt _ (by omega)), rfl⟩)
    refine ht.trans _ _ _ h1 (ht.trans _ _ _ ?_ hm)
    have dom : ∀ a b c d : α,
        o.le a (maxps o (maxps o a b) (maxps o c d)) = true ∧
        o.le b (maxps o (maxps o a b) (maxps o c d)) = true ∧
        o.le c (maxps o (maxps o a b) (maxps o c d)) = true ∧
        o.le d (maxps o (maxps o a b) (maxps o c d)) = true := by
      intro a b c d
      have t := mp (maxps o a b) (maxps o c d)
      exact ⟨ht.trans _ _ _ (mp a b).2.1 t.2.1, ht.trans _ _ _ (mp a b).2.2 t.2.1,
        ht.trans _ _ _ (mp c d).2.1 t.2.2, ht.trans _ _ _ (mp c d).2.2 t.2.2⟩
    have hd := dom (st.getD (8 * 0 + c % 8) o.zero) (st.getD (8 * 1 + c % 8) o.zero)
      (st.getD (8 * 2 + c % 8) o.zero) (st.getD (8 * 3 + c % 8) o.zero)
    have hk : c / 8 = 0 ∨ c / 8 = 1 ∨ c / 8 = 2 ∨ c / 8 = 3 := by omega
    rcases hk with e | e | e | e
    · have hc0 : st.getD c o.zero = st.getD (8 * 0 + c % 8) o.zero := by congr 1; omega
      rw [hc0]; exact hd.1
    · have hc0 : st.getD c o.zero = st.getD (8 * 1 + c % 8) o.zero := by congr 1; omega
      rw [hc0]; exact hd.2.1
    · have hc0 : st.getD c o.zero = st.getD (8 * 2 + c % 8) o.zero := by congr 1; omega
      rw [hc0]; exact hd.2.2.1
    · have hc0 : st.getD c o.zero = st.getD (8 * 3 + c % 8) o.zero := by congr 1; omega
      rw [hc0]; exact hd.2.2.2

theorem maxU8Avx2_eq_none_iff (o : Cmp α) (rows : Nat) (f : Nat → Nat → α) :
    maxU8Avx2 o rows f = none ↔ rows = 0 := by
  unfold maxU8Avx2 iterMax
  by_cases h : rows = 0
  · simp [h]
  · simp only [h, if_false, reduce1_eq_none]
    constructor
    · intro h0
      have := congrArg List.length h0
      rw [rowsRun_length] at this
      simp at this
    · intro h0; exact absurd h0 (by simp)

/-- `max_u8_avx2` (accumulator seeded with zero, the least byte) over a linear order whose least
    element is `zero` -/
theorem maxU8Avx2_spec (o : Cmp α) (ht : o.Total)
    (hanti : ∀ a b, o.le a b = true → o.le b a = true → a = b)
    (hzero : ∀ v, o.le o.zero v = true)
    (rows : Nat) (f : Nat → Nat → α) (v : α)
    (h : maxU8Avx2 o rows f = some v) : IsMax o rows 32 f v := by
  have t1 : mu8Init = .zero ∧ mu8AccFirst = true := by decide
  unfold maxU8Avx2 at h
  split at h
  · cases h
  next hrows =>
  have hrows' : 0 < rows := Nat.pos_of_ne_zero hrows
  generalize hst : rowsRun (mu8Step o) (fun i s => f i s) rows
    ((List.range 32).map fun s => initLane o f mu8Init s) = st at h
  have hlen : st.length = 32 := by rw [← hst, rowsRun_length]; simp
  have hV : ∀ s, s < 32 → ∃ w, st[s]? = some w ∧ (∃ i, i < rows ∧ w = f i s) ∧
      ∀ i, i < rows → o.le (f i s) w = true := by
    intro s hs
    have hstep : mu8Step o = fun _ m r => maxepu8 o m r := by
      funext i m r; simp [mu8Step, t1.2]
    obtain ⟨l1, l2, l3⟩ := lane_max o ht (maxepu8 o) (maxepu8_maxLike o ht) (fun i => f i s) rows o.zero
    refine ⟨_, ?_, ?_, l3⟩
    · rw [← hst, rowsRun_getElem?, List.getElem?_map, List.getElem?_range hs, hstep]
      simp only [Option.map_some, t1.1, initLane]
    · rcases l1 with l1 | l1
      · -- the lane still holds zero: then the first cell of the column is zero
        refine ⟨0, hrows', ?_⟩
        have h0 := l3 0 hrows'
        rw [l1] at h0 ⊢
        exact hanti _ _ (hzero _) h0
      · exact l1
  obtain ⟨hmem, hdom⟩ := reduce1_maxLike o ht _ (iterMaxOp_maxLike o ht) _ v h
  constructor
  · obtain ⟨s, hs⟩ := List.mem_iff_getElem?.1 hmem
    have hs32 : s < 32 := by
      rw [← hlen]; exact (List.getElem?_eq_some_iff.1 hs).1
    obtain ⟨w, hw1, ⟨i, hi, hw2⟩, _⟩ := hV s hs32
    rw [hs] at hw1
    cases hw1
    exact ⟨i, s, hi, hs32, hw2.symm⟩
  · intro r c hr hc
    obtain ⟨w, hw1, _, hw3⟩ := hV c hc
    exact ht.trans _ _ _ (hw3 r hr) (hdom w (List.mem_iff_getElem?.2 ⟨c, hw1⟩))

/-! ### `argmax_u8_avx2` -/

/-- the byte column a 16-bit lane of `_mm256_unpack{lo,hi}_epi8(r, zero)` carries -/
def u8Col (hi : Bool) (j : Nat) : Nat := 16 * (2 * j / 16) + (if hi then 8 else 0) + 2 * j % 16 / 2

/-- unpacking against zero zero-extends: the lane holds the byte of column `u8Col hi j` -/
theorem lane16_zero (hi : Bool) (a : Nat → Nat) (j : Nat) :
    lane16 hi a (fun _ => 0) j = a (u8Col hi j) := by
  have h1 : 2 * j % 2 = 0 := by omega
  have h2 : (2 * j + 1) % 2 = 1 := by omega
  simp [lane16, unpackEpi8Src, u8Col, h1, h2]

/-- `max_by_key` returns an element of the list whose key dominates every key -/
theorem maxByKeyLast_spec {β : Type} (o : Cmp α) (ht : o.Total) (key : β → α) (l : List β) (b : β)
    (h : maxByKeyLast o.le key l = some b) : b ∈ l ∧ ∀ x ∈ l, o.le (key x) (key b) = true := by
  cases l with
  | nil => simp [maxByKeyLast] at h
  | cons a t =>
    simp only [maxByKeyLast, Option.some.injEq] at h
    have hstep1 : ∀ (s x : β), o.le (key s) (key (if o.le (key s) (key x) = true then x else s)) = true := by
      intro s x
      cases hc : o.le (key s) (key x)
      · simpa using ht.refl _
      · simpa using hc
    have hstep2 : ∀ (s x : β), o.le (key x) (key (if o.le (key s) (key x) = true then x else s)) = true := by
      intro s x
      cases hc : o.le (key s) (key x)
      · simpa using ht.le_of_not_le hc
      · simpa using ht.refl _
    have hbest := foldl_best o ht key key _ hstep1 hstep2 t a
    have hinv := foldl_inv (fun b => b ∈ a :: t)
      (fun (s x : β) => if o.le (key s) (key x) = true then x else s) t a
      (by
        intro s x hx hs
        cases hc : o.le (key s) (key x)
        · simpa using hs
        · simpa using Or.inr hx)
      (List.mem_cons_self ..)
    rw [h] at hbest hinv
    refine ⟨hinv, ?_⟩
    intro x hx
    rcases List.mem_cons.1 hx with rfl | hx
    · exact hbest.1
    · exact hbest.2 x hx

/-- facts about the regenerated tables of `argmax_u8_avx2`, by kernel evaluation: the 16-bit lanes
    start at -1 with index 0, compare `r > s`, store `r - 1`; and — the lane-order fact — after the
    two `permute2x128` stores, `x[col]` is the index lane whose score lane was unpacked from byte
    column `col`, for every `col < 32` -/
theorem au8_tables :
    au8UnpackHi.length = 2 ∧
    (∀ s, s < 32 → au8SInit.getD (s / 16) .zero = .const (-1)) ∧
    (∀ s, s < 32 → au8PInit.getD (s / 16) .zero = .zero) ∧
    au8Ones = 1 ∧ au8AccFirst = false ∧ au8Rel = .gt ∧
    (storeAll 32 32 16 au8Stores (List.range 32)).length = 32 ∧
    (∀ col, col < 32 →
      (storeAll 32 32 16 au8Stores (List.range 32)).getD col 32 < 32 ∧
      u8Col (au8UnpackHi.getD ((storeAll 32 32 16 au8Stores (List.range 32)).getD col 32 / 16) false)
        ((storeAll 32 32 16 au8Stores (List.range 32)).getD col 32 % 16) = col) := by
  decide

theorem argmaxU8Avx2_spec (o : Cmp UInt8) (ho : ∀ a b, o.le a b = decide (a ≤ b))
    (rows : Nat) (f : Nat → Nat → UInt8) (p : Coord)
    (h : argmaxU8Avx2 o rows f = .ok (some p)) : HoldsMax o rows 32 f p := by
  obtain ⟨t1, t2, t3, t4, t5, t6, t7, t8⟩ := au8_tables
  have hle_iff : ∀ a b : UInt8, o.le a b = true ↔ a.toNat ≤ b.toNat := by
    intro a b; rw [ho]; simp [UInt8.le_iff_toNat_le]
  have ht : ∀ a b, o.le a b = true ∨ o.le b a = true := by
    intro a b; rw [hle_iff, hle_iff]; omega
  have htr : ∀ a b c, o.le a b = true → o.le b c = true → o.le a c = true := by
    intro a b c; rw [hle_iff, hle_iff, hle_iff]; omega
  -- the part of `Cmp.Total` the proof uses, packaged with a fresh strict order
  let o' : Cmp UInt8 := { le := o.le, lt := fun a b => !o.le b a, zero := 0, negInf := 0 }
  have ht' : o'.Total := ⟨ht, htr, fun _ _ => rfl⟩
  unfold argmaxU8Avx2 at h
  split at h
  · cases h
  split at h
  · cases h
  next hbig hrows =>
  simp only [Except.ok.injEq] at h
  have hrows' : 0 < rows := Nat.pos_of_ne_zero hrows
  generalize hst : rowsRun (laneStep au8Take (· - au8Ones) (· % 65536)) (au8Read f) rows au8Init = st at h
  have hlen : (st.map (·.1)).length = 32 := by
    rw [← hst, List.length_map, rowsRun_length]; simp [au8Init, t1]
  -- every slot ends on a row holding the maximum of the byte column it was unpacked from
  have hslot : ∀ s, s < 32 → ∃ q, (st.map (·.1))[s]? = some q ∧ q < rows ∧
      ∀ i, i < rows →
        o.le (f i (u8Col (au8UnpackHi.getD (s / 16) false) (s % 16)))
             (f q (u8Col (au8UnpackHi.getD (s / 16) false) (s % 16))) = true := by
    intro s hs
    have hinit : au8Init[s]? = some (0, -1) := by
      simp only [au8Init, t1, List.getElem?_map, List.getElem?_range hs, Option.map_some,
        t2 s hs, t3 s hs, initIdx]
    have hrd : (fun i => au8Read f i s) =
        fun i => Int.ofNat (f i (u8Col (au8UnpackHi.getD (s / 16) false) (s % 16))).toNat := by
      funext i; simp only [au8Read, lane16_zero]
    obtain ⟨n, rfl⟩ : ∃ n, rows = n + 1 := ⟨rows - 1, by omega⟩
    have hl := laneFold_argmax (fun a b : Int => decide (a ≤ b))
      (by intro a b; simp only [decide_eq_true_eq]; omega)
      (by intro a b c; simp only [decide_eq_true_eq]; omega)
      au8Take (· - au8Ones) (· % 65536) (fun s v => s = v - 1)
      (by intro r; simp [t4])
      (by
        intro s v r hs
        subst hs
        simp only [au8Take, t5, t6, Rel.evalInt, Bool.false_eq_true, if_false]
        apply decide_eq_decide.2
        omega)
      (fun i => Int.ofNat (f i (u8Col (au8UnpackHi.getD (s / 16) false) (s % 16))).toNat) 0 (-1)
      (by
        simp only [au8Take, t5, t6, Rel.evalInt, Bool.false_eq_true, if_false, decide_eq_true_eq]
        exact Int.lt_of_lt_of_le (by decide) (Int.natCast_nonneg _))
      n (by intro i hi; exact Nat.mod_eq_of_lt (by omega))
    refine ⟨_, ?_, hl.1, ?_⟩
    · rw [← hst, List.getElem?_map, rowsRun_getElem?, hinit, hrd]; rfl
    · intro i hi
      have := hl.2.2 i hi
      simp only [decide_eq_true_eq] at this
      exact (hle_iff _ _).2 (Int.ofNat_le.1 this)
  -- the stored array pairs x[col] with column col
  have hx : ColMax o rows 32 f (storeAll 0 32 16 au8Stores (st.map (·.1))) := by
    intro col hc
    obtain ⟨h1, h2⟩ := t8 col hc
    obtain ⟨q, hq1, hq2, hq3⟩ := hslot _ h1
    rw [h2] at hq3
    refine ⟨q, ?_, hq2, hq3⟩
    rw [storeAll_eq_map 0 32 16 au8Stores _ hlen, List.getElem?_map]
    have hg : (storeAll 32 32 16 au8Stores (List.range 32))[col]? =
        some ((storeAll 32 32 16 au8Stores (List.range 32)).getD col 32) := by
      rw [List.getD_eq_getElem?_getD]
      have : col < (storeAll 32 32 16 au8Stores (List.range 32)).length := by rw [t7]; exact hc
      rw [List.getElem?_eq_getElem this]; rfl
    rw [hg]
    generalize (storeAll 32 32 16 au8Stores (List.range 32)).getD col 32 = G at hq1
    simp only [Option.map_some, List.getD_eq_getElem?_getD, hq1, Option.getD_some]
  have hxlen : (storeAll 0 32 16 au8Stores (st.map (·.1))).length = 32 := by
    rw [storeAll_eq_map 0 32 16 au8Stores _ hlen, List.length_map, t7]
  generalize storeAll 0 32 16 au8Stores (st.map (·.1)) = x at h hx hxlen
  obtain ⟨hmem, hdom⟩ := maxByKeyLast_spec o' ht' (fun pos : Coord => f pos.1 pos.2) x.zipIdx p h
  have hm := List.mem_zipIdx_iff_getElem?.1 hmem
  have hp2 : p.2 < 32 := by rw [← hxlen]; exact (List.getElem?_eq_some_iff.1 hm).1
  obtain ⟨q, hq1, hq2, _⟩ := hx p.2 hp2
  rw [hm] at hq1
  cases hq1
  refine ⟨hq2, hp2, ?_⟩
  intro r c hr hc
  obtain ⟨q', hq1', _, hq3'⟩ := hx c hc
  exact htr _ _ _ (hq3' r hr) (hdom (q', c) (List.mk_mem_zipIdx_iff_getElem?.2 hq1'))

theorem argmaxU8Avx2_none_iff (o : Cmp UInt8) (rows : Nat) (f : Nat → Nat → UInt8) :
    argmaxU8Avx2 o rows f = .ok none ↔ rows = 0 := by
  unfold argmaxU8Avx2
  by_cases h1 : rows > 65535 + 1
  · simp [h1] <;> omega
  · by_cases h2 : rows = 0
    · simp [h2]
    · simp only [h1, h2, if_false]
      constructor
      · intro h
        simp only [Except.ok.injEq] at h
        have hl : (storeAll 0 32 16 au8Stores
          ((rowsRun (laneStep au8Take (· - au8Ones) (· % 65536)) (au8Read f) rows au8Init).map (·.1))).zipIdx = [] := by
          cases hz : (storeAll 0 32 16 au8Stores
            ((rowsRun (laneStep au8Take (· - au8Ones) (· % 65536)) (au8Read f) rows au8Init).map (·.1))).zipIdx with
          | nil => rfl
          | cons a t => rw [hz] at h; simp [maxByKeyLast] at h
        have hlen : ((rowsRun (laneStep au8Take (· - au8Ones) (· % 65536)) (au8Read f) rows au8Init).map (·.1)).length = 32 := by
          rw [List.length_map, rowsRun_length]; simp [au8Init, au8_tables.1]
        have := congrArg List.length hl
        rw [List.length_zipIdx, storeAll_eq_map 0 32 16 au8Stores _ hlen, List.length_map,
          au8_tables.2.2.2.2.2.2.1] at this
        simp at this
      · intro h; exact h.elim

/-- the only panic is the explicit bound on the row count (16-bit index lanes) -/
theorem argmaxU8Avx2_panic_iff (o : Cmp UInt8) (rows : Nat) (f : Nat → Nat → UInt8) :
    (∃ e, argmaxU8Avx2 o rows f = .error e) ↔ rows > 65536 := by
  unfold argmaxU8Avx2
  by_cases h1 : rows > 65535 + 1
  · simp [h1] <;> omega
  · by_cases h2 : rows = 0
    · simp [h2]
    · simp [h1, h2] <;> omega

/-! ### Pipelines and dispatcher arms: every backend is admissible and agrees with the generic one -/

/-- the column counts a backend is instantiated with (`PositiveLength`, `MultipleOf<U16>`, `U32`) -/
def Supported : Backend → Nat → Prop
  | .generic, C => 0 < C
  | .sse2, C => ∃ q, 0 < q ∧ C = 16 * q
  | .avx2, C => C = 32

theorem disp_tables :
    dispF32Argmax = [.generic, .sse2, .avx2] ∧ dispF32Max = [.generic, .generic, .avx2] ∧
    dispU8Argmax = [.generic, .generic, .avx2] ∧ dispU8Max = [.generic, .generic, .avx2] ∧
    pipelineShapesChecked = true := by decide

/-- two optional maxima agree: both absent, or both present and equivalent -/
def MaxAgree (o : Cmp α) (a b : Option α) : Prop :=
  (a = none ∧ b = none) ∨ ∃ v w, a = some v ∧ b = some w ∧ o.le v w = true ∧ o.le w v = true

theorem maxAgree_of_specs (o : Cmp α) (rows C : Nat) (f : Nat → Nat → α) (a b : Option α)
    (ha0 : a = none ↔ rows = 0) (hb0 : b = none ↔ rows = 0)
    (ha : ∀ v, a = some v → IsMax o rows C f v) (hb : ∀ v, b = some v → IsMax o rows C f v) :
    MaxAgree o a b := by
  by_cases h : rows = 0
  · exact Or.inl ⟨ha0.2 h, hb0.2 h⟩
  · right
    cases ha' : a with
    | none => exact absurd (ha0.1 ha') h
    | some v =>
      cases hb' : b with
      | none => exact absurd (hb0.1 hb') h
      | some w =>
        exact ⟨v, w, rfl, rfl, (ha v ha').equiv (hb w hb')⟩

theorem MaxAgree.eq {o : Cmp α} (hanti : ∀ a b, o.le a b = true → o.le b a = true → a = b)
    {a b : Option α} (h : MaxAgree o a b) : a = b := by
  rcases h with ⟨rfl, rfl⟩ | ⟨v, w, rfl, rfl, h1, h2⟩
  · rfl
  · rw [hanti v w h1 h2]

/-- every concrete pipeline's float `argmax` designates a cell holding the maximum -/
theorem pipeArgmaxF32_spec (o : Cmp α) (ht : o.Total) (hbot : ∀ v, o.le o.negInf v = true)
    (b : Backend) (C : Nat) (hsup : Supported b C) (maxIndex rows : Nat) (hle : rows ≤ 4294967296)
    (f : Nat → Nat → α) (p : Coord) (h : pipeArgmaxF32 o b C maxIndex rows f = .ok (some p)) :
    HoldsMax o rows C f p := by
  cases b with
  | generic =>
    simp only [pipeArgmaxF32, Except.ok.injEq] at h
    exact argmaxGeneric_spec o ht C rows hsup f p h
  | sse2 =>
    obtain ⟨q, hq, rfl⟩ := hsup
    exact argmaxSse2_spec o ht hbot q hq maxIndex rows hle f p h
  | avx2 =>
    cases hsup
    exact argmaxF32Avx2_spec o ht maxIndex rows hle f p h

theorem pipeArgmaxF32_none_iff (o : Cmp α) (b : Backend) (C maxIndex rows : Nat)
    (hmi : maxIndex ≤ 4294967295) (f : Nat → Nat → α) :
    pipeArgmaxF32 o b C maxIndex rows f = .ok none ↔ rows = 0 := by
  cases b with
  | generic => simp [pipeArgmaxF32, argmaxGeneric_eq_none_iff]
  | sse2 => simp [pipeArgmaxF32, argmaxSse2_none_iff, hmi]
  | avx2 => simp [pipeArgmaxF32, argmaxF32Avx2_none_iff, hmi]

/-- every concrete pipeline's float `max` is the attained maximum -/
theorem pipeMaxF32_spec (o : Cmp α) (ht : o.Total) (hbot : ∀ v, o.le o.negInf v = true)
    (b : Backend) (C : Nat) (hsup : Supported b C) (maxIndex rows : Nat) (hle : rows ≤ 4294967296)
    (f : Nat → Nat → α) (v : α) (h : pipeMaxF32 o b C maxIndex rows f = .ok (some v)) :
    IsMax o rows C f v := by
  cases b with
  | generic =>
    simp only [pipeMaxF32, Except.ok.injEq] at h
    exact maxGeneric_spec o ht C rows hsup f v h
  | sse2 =>
    obtain ⟨q, hq, rfl⟩ := hsup
    simp only [pipeMaxF32] at h
    split at h
    · cases h
    next a ha =>
    simp only [Except.ok.injEq, maxOfArgmax, Option.map_eq_some_iff] at h
    obtain ⟨p, rfl, rfl⟩ := h
    exact (argmaxSse2_spec o ht hbot q hq maxIndex rows hle f p ha).isMax
  | avx2 =>
    cases hsup
    simp only [pipeMaxF32, Except.ok.injEq] at h
    exact maxF32Avx2_spec o ht rows f v h

theorem pipeMaxF32_none_iff (o : Cmp α) (b : Backend) (C maxIndex rows : Nat)
    (hmi : maxIndex ≤ 4294967295) (f : Nat → Nat → α) :
    pipeMaxF32 o b C maxIndex rows f = .ok none ↔ rows = 0 := by
  cases b with
  | generic => simp [pipeMaxF32, maxGeneric_eq_none_iff]
  | sse2 =>
    simp only [pipeMaxF32]
    split
    · next e he =>
      have := (argmaxSse2_panic_iff o C maxIndex rows f).1 ⟨e, he⟩
      omega
    · next a ha =>
      cases a with
      | none =>
        have := (argmaxSse2_none_iff o C maxIndex rows f).1 ha
        simp [maxOfArgmax, this.2]
      | some p =>
        have : rows ≠ 0 := by
          intro h0
          have := (argmaxSse2_none_iff o C maxIndex rows f).2 ⟨hmi, h0⟩
          rw [this] at ha; cases ha
        simp [maxOfArgmax, this]
  | avx2 => simp [pipeMaxF32, maxF32Avx2_eq_none_iff]

/-- every dispatcher arm's float `argmax` designates a cell holding the maximum -/
theorem dispArgmaxF32_spec (o : Cmp α) (ht : o.Total) (hbot : ∀ v, o.le o.negInf v = true)
    (arm : Backend) (maxIndex rows : Nat) (hle : rows ≤ 4294967296)
    (f : Nat → Nat → α) (p : Coord) (h : dispArgmaxF32 o arm maxIndex rows f = .ok (some p)) :
    HoldsMax o rows 32 f p := by
  obtain ⟨t1, _⟩ := disp_tables
  cases arm <;> simp only [dispArgmaxF32, kernelOf, t1, Backend.idx, List.getD_cons_zero,
    List.getD_cons_succ] at h
  · simp only [Except.ok.injEq] at h
    exact argmaxGeneric_spec o ht 32 rows (by omega) f p h
  · exact argmaxSse2_spec o ht hbot 2 (by omega) maxIndex rows hle f p h
  · exact argmaxF32Avx2_spec o ht maxIndex rows hle f p h

theorem dispArgmaxF32_none_iff (o : Cmp α) (arm : Backend) (maxIndex rows : Nat)
    (hmi : maxIndex ≤ 4294967295) (f : Nat → Nat → α) :
    dispArgmaxF32 o arm maxIndex rows f = .ok none ↔ rows = 0 := by
  obtain ⟨t1, _⟩ := disp_tables
  cases arm <;> simp only [dispArgmaxF32, kernelOf, t1, Backend.idx, List.getD_cons_zero,
    List.getD_cons_succ]
  · simp [argmaxGeneric_eq_none_iff]
  · simp [argmaxSse2_none_iff, hmi]
  · simp [argmaxF32Avx2_none_iff, hmi]

theorem dispMaxF32_none_iff (o : Cmp α) (arm : Backend) (rows : Nat) (f : Nat → Nat → α) :
    dispMaxF32 o arm rows f = none ↔ rows = 0 := by
  obtain ⟨_, t2, _⟩ := disp_tables
  cases arm <;> simp only [dispMaxF32, kernelOf, t2, Backend.idx, List.getD_cons_zero,
    List.getD_cons_succ]
  · exact maxGeneric_eq_none_iff o 32 rows f
  · exact maxGeneric_eq_none_iff o 32 rows f
  · exact maxF32Avx2_eq_none_iff o rows f

/-- every dispatcher arm's float `max` is the attained maximum -/
theorem dispMaxF32_spec (o : Cmp α) (ht : o.Total) (arm : Backend) (rows : Nat)
    (f : Nat → Nat → α) (v : α) (h : dispMaxF32 o arm rows f = some v) : IsMax o rows 32 f v := by
  obtain ⟨_, t2, _⟩ := disp_tables
  cases arm <;> simp only [dispMaxF32, kernelOf, t2, Backend.idx, List.getD_cons_zero,
    List.getD_cons_succ] at h
  · exact maxGeneric_spec o ht 32 rows (by omega) f v h
  · exact maxGeneric_spec o ht 32 rows (by omega) f v h
  · exact maxF32Avx2_spec o ht rows f v h

/-- all dispatcher arms report the same float maximum as the generic backend (equivalent values;
    identical under antisymmetry, see `MaxAgree.eq`) -/
theorem dispMaxF32_agrees (o : Cmp α) (ht : o.Total) (arm : Backend) (rows : Nat)
    (f : Nat → Nat → α) : MaxAgree o (dispMaxF32 o arm rows f) (maxGeneric o 32 rows f) :=
  maxAgree_of_specs o rows 32 f _ _ (dispMaxF32_none_iff o arm rows f)
    (maxGeneric_eq_none_iff o 32 rows f) (dispMaxF32_spec o ht arm rows f)
    (maxGeneric_spec o ht 32 rows (by omega) f)

/-- u8: the comparisons of `u8` -/
def IsU8 (o : Cmp UInt8) : Prop :=
  (∀ a b, o.le a b = decide (a ≤ b)) ∧ (∀ a b, o.lt a b = decide (a < b)) ∧ o.zero = 0

theorem IsU8.total {o : Cmp UInt8} (h : IsU8 o) : o.Total := by
  refine ⟨?_, ?_, ?_⟩
  · intro a b; rw [h.1, h.1]; simp only [decide_eq_true_eq, UInt8.le_iff_toNat_le]; omega
  · intro a b c; rw [h.1, h.1, h.1]; simp only [decide_eq_true_eq, UInt8.le_iff_toNat_le]; omega
  · intro a b
    rw [h.1, h.2.1]
    by_cases hab : a < b
    · have : ¬ b ≤ a := by rw [UInt8.le_iff_toNat_le]; rw [UInt8.lt_iff_toNat_lt] at hab; omega
      simp [hab, this]
    · have : b ≤ a := by rw [UInt8.le_iff_toNat_le]; rw [UInt8.lt_iff_toNat_lt] at hab; omega
      simp [hab, this]

theorem IsU8.anti {o : Cmp UInt8} (h : IsU8 o) :
    ∀ a b, o.le a b = true → o.le b a = true → a = b := by
  intro a b
  rw [h.1, h.1]
  simp only [decide_eq_true_eq, UInt8.le_iff_toNat_le]
  intro h1 h2
  exact UInt8.toNat_inj.1 (by omega)

theorem IsU8.zero_le {o : Cmp UInt8} (h : IsU8 o) : ∀ v, o.le o.zero v = true := by
  intro v
  rw [h.1, h.2.2]
  simp [UInt8.le_iff_toNat_le]

/-- every concrete pipeline's u8 `argmax` designates a cell holding the maximum -/
theorem pipeArgmaxU8_spec (o : Cmp UInt8) (ho : IsU8 o) (b : Backend) (C : Nat)
    (hsup : Supported b C) (rows : Nat) (f : Nat → Nat → UInt8) (p : Coord)
    (h : pipeArgmaxU8 o b C rows f = .ok (some p)) : HoldsMax o rows C f p := by
  have hC : 0 < C := by
    cases b with
    | generic => exact hsup
    | sse2 => obtain ⟨q, hq, rfl⟩ := hsup; omega
    | avx2 => cases hsup; omega
  cases b with
  | generic =>
    simp only [pipeArgmaxU8, Except.ok.injEq] at h
    exact argmaxGeneric_spec o ho.total C rows hC f p h
  | sse2 =>
    simp only [pipeArgmaxU8, Except.ok.injEq] at h
    exact argmaxGeneric_spec o ho.total C rows hC f p h
  | avx2 =>
    cases hsup
    exact argmaxU8Avx2_spec o ho.1 rows f p h

/-- every concrete pipeline's u8 `max` is the attained maximum -/
theorem pipeMaxU8_spec (o : Cmp UInt8) (ho : IsU8 o) (b : Backend) (C : Nat)
    (hsup : Supported b C) (rows : Nat) (f : Nat → Nat → UInt8) (v : UInt8)
    (h : pipeMaxU8 o b C rows f = some v) : IsMax o rows C f v := by
  have hC : 0 < C := by
    cases b with
    | generic => exact hsup
    | sse2 => obtain ⟨q, hq, rfl⟩ := hsup; omega
    | avx2 => cases hsup; omega
  cases b with
  | generic => exact maxGeneric_spec o ho.total C rows hC f v h
  | sse2 => exact maxGeneric_spec o ho.total C rows hC f v h
  | avx2 =>
    cases hsup
    exact maxU8Avx2_spec o ho.total ho.anti ho.zero_le rows f v h

theorem pipeMaxU8_none_iff (o : Cmp α) (b : Backend) (C rows : Nat) (f : Nat → Nat → α) :
    pipeMaxU8 o b C rows f = none ↔ rows = 0 := by
  cases b with
  | generic => exact maxGeneric_eq_none_iff o C rows f
  | sse2 => exact maxGeneric_eq_none_iff o C rows f
  | avx2 => exact maxU8Avx2_eq_none_iff o rows f

/-- every dispatcher arm's u8 `argmax` designates a cell holding the maximum -/
theorem dispArgmaxU8_spec (o : Cmp UInt8) (ho : IsU8 o) (arm : Backend) (rows : Nat)
    (f : Nat → Nat → UInt8) (p : Coord) (h : dispArgmaxU8 o arm rows f = .ok (some p)) :
    HoldsMax o rows 32 f p := by
  obtain ⟨_, _, t3, _⟩ := disp_tables
  cases arm <;> simp only [dispArgmaxU8, kernelOf, t3, Backend.idx, List.getD_cons_zero,
    List.getD_cons_succ] at h
  · simp only [Except.ok.injEq] at h
    exact argmaxGeneric_spec o ho.total 32 rows (by omega) f p h
  · simp only [Except.ok.injEq] at h
    exact argmaxGeneric_spec o ho.total 32 rows (by omega) f p h
  · exact argmaxU8Avx2_spec o ho.1 rows f p h

theorem dispMaxU8_none_iff (o : Cmp α) (arm : Backend) (rows : Nat) (f : Nat → Nat → α) :
    dispMaxU8 o arm rows f = none ↔ rows = 0 := by
  obtain ⟨_, _, _, t4, _⟩ := disp_tables
  cases arm <;> simp only [dispMaxU8, kernelOf, t4, Backend.idx, List.getD_cons_zero,
    List.getD_cons_succ]
  · exact maxGeneric_eq_none_iff o 32 rows f
  · exact maxGeneric_eq_none_iff o 32 rows f
  · exact maxU8Avx2_eq_none_iff o rows f

/-- every dispatcher arm's u8 `max` is the attained maximum -/
theorem dispMaxU8_spec (o : Cmp UInt8) (ho : IsU8 o) (arm : Backend) (rows : Nat)
    (f : Nat → Nat → UInt8) (v : UInt8) (h : dispMaxU8 o arm rows f = some v) :
    IsMax o rows 32 f v := by
  obtain ⟨_, _, _, t4, _⟩ := disp_tables
  cases arm <;> simp only [dispMaxU8, kernelOf, t4, Backend.idx, List.getD_cons_zero,
    List.getD_cons_succ] at h
  · exact maxGeneric_spec o ho.total 32 rows (by omega) f v h
  · exact maxGeneric_spec o ho.total 32 rows (by omega) f v h
  · exact maxU8Avx2_spec o ho.total ho.anti ho.zero_le rows f v h

/-- all dispatcher arms report the same u8 maximum as the generic backend -/
theorem dispMaxU8_agrees (o : Cmp UInt8) (ho : IsU8 o) (arm : Backend) (rows : Nat)
    (f : Nat → Nat → UInt8) : dispMaxU8 o arm rows f = maxGeneric o 32 rows f :=
  (maxAgree_of_specs o rows 32 f _ _ (dispMaxU8_none_iff o arm rows f)
    (maxGeneric_eq_none_iff o 32 rows f) (dispMaxU8_spec o ho arm rows f)
    (maxGeneric_spec o ho.total 32 rows (by omega) f)).eq ho.anti

/-! ### `StripedScores::{max, argmax, threshold}` (offsets) and `Scores` -/

theorem offset_inj (rows : Nat) (c d : Coord) (hc : c.1 < rows) (hd : d.1 < rows)
    (h : c.2 * rows + c.1 = d.2 * rows + d.1) : c = d := by
  have hpos : 0 < rows := by omega
  have h1 : ∀ e : Coord, e.1 < rows → (e.2 * rows + e.1) % rows = e.1 := by
    intro e he; rw [Nat.mul_comm, Nat.mul_add_mod]; exact Nat.mod_eq_of_lt he
  have h2 : ∀ e : Coord, e.1 < rows → (e.2 * rows + e.1) / rows = e.2 := by
    intro e he; rw [Nat.mul_comm, Nat.mul_add_div hpos, Nat.div_eq_of_lt he]; rfl
  have e1 : c.1 = d.1 := by rw [← h1 c hc, ← h1 d hd, h]
  have e2 : c.2 = d.2 := by rw [← h2 c hc, ← h2 d hd, h]
  exact Prod.ext e1 e2

/-- `StripedScores::argmax` (float, any forced arm): the offset of a cell holding the maximum -/
theorem striped_argmaxF32_spec (o : Cmp α) (ht : o.Total) (hbot : ∀ v, o.le o.negInf v = true)
    (arm : Backend) (s : Striped α 32) (hle : s.data.rows ≤ 4294967296) (p : Nat)
    (h : s.argmaxF32 o arm = .ok (some p)) :
    ∃ c, HoldsMax o s.data.rows 32 (s.cell o) c ∧ p = c.2 * s.data.rows + c.1 := by
  simp only [Striped.argmaxF32] at h
  split at h
  · cases h
  next a ha =>
  simp only [Except.ok.injEq, Option.map_eq_some_iff] at h
  obtain ⟨c, rfl, rfl⟩ := h
  exact ⟨c, dispArgmaxF32_spec o ht hbot arm _ _ hle _ c ha, rfl⟩

theorem striped_argmaxF32_none_iff (o : Cmp α) (arm : Backend) (s : Striped α 32)
    (hmi : s.maxIndex ≤ 4294967295) : s.argmaxF32 o arm = .ok none ↔ s.data.rows = 0 := by
  simp only [Striped.argmaxF32]
  split
  · next e he =>
    constructor
    · intro h; cases h
    · intro h0
      have := (dispArgmaxF32_none_iff o arm s.maxIndex s.data.rows hmi (s.cell o)).2 h0
      rw [this] at he; cases he
  · next a ha =>
    rw [← dispArgmaxF32_none_iff o arm s.maxIndex s.data.rows hmi (s.cell o), ha]
    cases a <;> simp

/-- `StripedScores::max` (float, any forced arm) -/
theorem striped_maxF32_spec (o : Cmp α) (ht : o.Total) (arm : Backend) (s : Striped α 32) (v : α)
    (h : s.maxF32 o arm = some v) : IsMax o s.data.rows 32 (s.cell o) v :=
  dispMaxF32_spec o ht arm _ _ v h

theorem striped_maxF32_none_iff (o : Cmp α) (arm : Backend) (s : Striped α 32) :
    s.maxF32 o arm = none ↔ s.data.rows = 0 := dispMaxF32_none_iff o arm _ _

/-- `StripedScores::argmax` (u8, any forced arm) -/
theorem striped_argmaxU8_spec (o : Cmp UInt8) (ho : IsU8 o) (arm : Backend) (s : Striped UInt8 32)
    (p : Nat) (h : s.argmaxU8 o arm = .ok (some p)) :
    ∃ c, HoldsMax o s.data.rows 32 (s.cell o) c ∧ p = c.2 * s.data.rows + c.1 := by
  simp only [Striped.argmaxU8] at h
  split at h
  · cases h
  next a ha =>
  simp only [Except.ok.injEq, Option.map_eq_some_iff] at h
  obtain ⟨c, rfl, rfl⟩ := h
  exact ⟨c, dispArgmaxU8_spec o ho arm _ _ c ha, rfl⟩

/-- `StripedScores::max` (u8, any forced arm) -/
theorem striped_maxU8_spec (o : Cmp UInt8) (ho : IsU8 o) (arm : Backend) (s : Striped UInt8 32)
    (v : UInt8) (h : s.maxU8 o arm = some v) : IsMax o s.data.rows 32 (s.cell o) v :=
  dispMaxU8_spec o ho arm _ _ v h

/-- `StripedScores::threshold`: the offsets of exactly the cells `>= t`, each once, whatever arm -/
theorem striped_threshold_spec (o : Cmp α) (arm : Backend) (s : Striped α 32) (t : α) :
    (s.threshold o arm t).Nodup ∧
    ∀ p, p ∈ s.threshold o arm t ↔
      ∃ c : Coord, c.1 < s.data.rows ∧ c.2 < 32 ∧ o.le t (s.cell o c.1 c.2) = true ∧
        p = c.2 * s.data.rows + c.1 := by
  constructor
  · simp only [Striped.threshold, List.Nodup]
    rw [List.pairwise_map]
    refine List.Pairwise.imp_of_mem ?_ (thresholdGeneric_nodup o 32 s.data.rows (s.cell o) t)
    intro a b ha hb hab heq
    have ha' := (mem_thresholdGeneric o 32 _ _ t a).1 ha
    have hb' := (mem_thresholdGeneric o 32 _ _ t b).1 hb
    exact hab (offset_inj s.data.rows a b ha'.1 hb'.1 heq)
  · intro p
    simp only [Striped.threshold, List.mem_map, mem_thresholdGeneric, Striped.offset]
    constructor
    · rintro ⟨c, ⟨h1, h2, h3⟩, rfl⟩; exact ⟨c, h1, h2, h3, rfl⟩
    · rintro ⟨c, h1, h2, h3, rfl⟩; exact ⟨c, ⟨h1, h2, h3⟩, rfl⟩

/-- the threshold set does not depend on the arm -/
theorem striped_threshold_arm (o : Cmp α) (arm arm' : Backend) (s : Striped α 32) (t : α) :
    s.threshold o arm t = s.threshold o arm' t := rfl

theorem scoresMax_none_iff (o : Cmp α) (l : List α) : scoresMax o l = none ↔ l = [] :=
  reduce1_eq_none _ l

/-- `Scores::max` -/
theorem scoresMax_spec (o : Cmp α) (ht : o.Total) (l : List α) (v : α)
    (h : scoresMax o l = some v) : v ∈ l ∧ ∀ x ∈ l, o.le x v = true :=
  reduce1_maxLike o ht _ (iterMaxOp_maxLike o ht) l v h

theorem scoresArgmax_none_iff (o : Cmp α) (l : List α) : scoresArgmax o l = none ↔ l = [] := by
  simp only [scoresArgmax, Option.map_eq_none_iff, reduce1_eq_none]
  cases l <;> simp [List.zipIdx_cons]

/-- `Scores::argmax` -/
theorem scoresArgmax_spec (o : Cmp α) (ht : o.Total) (l : List α) (i : Nat)
    (h : scoresArgmax o l = some i) :
    ∃ v, l[i]? = some v ∧ ∀ x ∈ l, o.le x v = true := by
  simp only [scoresArgmax, Option.map_eq_some_iff] at h
  obtain ⟨⟨v, j⟩, hr, rfl⟩ := h
  -- the reduction is `max_by_key` on the value component
  have hop : (fun (x y : α × Nat) => if o.lt y.1 x.1 = true then x else y) =
      fun b x => if o.le b.1 x.1 = true then x else b := by
    funext x y
    rw [ht.lt_iff]
    cases o.le x.1 y.1 <;> simp
  have hm : maxByKeyLast o.le (fun (x : α × Nat) => x.1) l.zipIdx = some (v, j) := by
    cases hz : l.zipIdx with
    | nil => rw [hz] at hr; simp [reduce1] at hr
    | cons a t => rw [hz] at hr; simp only [reduce1, hop] at hr; simpa [maxByKeyLast] using hr
  obtain ⟨hmem, hdom⟩ := maxByKeyLast_spec o ht (fun (x : α × Nat) => x.1) l.zipIdx (v, j) hm
  refine ⟨v, List.mk_mem_zipIdx_iff_getElem?.1 hmem, ?_⟩
  intro x hx
  obtain ⟨k, hk⟩ := List.mem_iff_getElem?.1 hx
  exact hdom (x, k) (List.mk_mem_zipIdx_iff_getElem?.2 hk)

/-- `Scores::threshold`: exactly the positions whose score is `>= t`, each once -/
theorem scoresThreshold_spec (o : Cmp α) (l : List α) (t : α) :
    (scoresThreshold o l t).Nodup ∧
    ∀ i, i ∈ scoresThreshold o l t ↔ ∃ v, l[i]? = some v ∧ o.le t v = true := by
  constructor
  · have hsub : ((l.zipIdx.filter fun x => o.le t x.1).map (·.2)).Sublist (l.zipIdx.map (·.2)) :=
      List.Sublist.map _ List.filter_sublist
    refine List.Nodup.sublist hsub ?_
    rw [List.zipIdx_map_snd]
    exact List.nodup_range'
  · intro i
    simp only [scoresThreshold, List.mem_map, List.mem_filter]
    constructor
    · rintro ⟨⟨v, j⟩, ⟨hm, hle⟩, rfl⟩
      exact ⟨v, List.mk_mem_zipIdx_iff_getElem?.1 hm, hle⟩
    · rintro ⟨v, hv, hle⟩
      exact ⟨(v, i), ⟨List.mk_mem_zipIdx_iff_getElem?.2 hv, hle⟩, rfl⟩

/-! ### The padding clause: a −∞ wildcard column makes every window past the end score −∞ -/

section Padding
variable {β : Type}

/-- the symbol read at position `p` of a sequence of length `L` striped with wildcard padding `N` -/
def padSym (s : Nat → Nat) (L N : Nat) (p : Nat) : Nat := if p < L then s p else N

/-- definition-level score of the window at position `i`: the left fold of `add` over the `M` rows
    of the scoring matrix `m` (row `j`, symbol `a` ↦ `m j a`), starting from `zero` -/
def windowScore (add : β → β → β) (zero : β) (m : Nat → Nat → β) (M : Nat) (sym : Nat → Nat)
    (i : Nat) : β :=
  (List.range M).foldl (fun acc j => add acc (m j (sym (i + j)))) zero

/-- with an absorbing `bot` in the wildcard column, every window that reaches past the end of the
    sequence scores `bot` -/
theorem windowScore_past_end (add : β → β → β) (zero bot : β) (hbot : ∀ x, add x bot = bot)
    (m : Nat → Nat → β) (M N : Nat) (hN : ∀ j, j < M → m j N = bot) (hM : 0 < M)
    (s : Nat → Nat) (L i : Nat) (hi : L < i + M) :
    windowScore add zero m M (padSym s L N) i = bot := by
  obtain ⟨k, rfl⟩ : ∃ k, M = k + 1 := ⟨M - 1, by omega⟩
  simp only [windowScore, List.range_succ, List.foldl_append, List.foldl_cons, List.foldl_nil]
  have : padSym s L N (i + k) = N := by simp only [padSym]; rw [if_neg (by omega)]
  rw [this, hN k (by omega), hbot]

/-- Hence, in a striped score matrix (`cell (r, c)` = score of position `c * R + r`) over a total
    preorder in which nothing but `bot` is `<= bot`: if some position has a score other than `bot`
    (by `windowScore_past_end` it is then a valid position, `i + M <= L`), any cell holding the
    maximum is a valid position, and its score dominates the score of every valid position — the
    maximum over all cells is the best valid score. -/
theorem max_is_best_valid (o : Cmp β) (add : β → β → β) (zero bot : β)
    (hbot : ∀ x, add x bot = bot) (hbotmin : ∀ x, o.le x bot = true → x = bot)
    (m : Nat → Nat → β) (M N : Nat) (hN : ∀ j, j < M → m j N = bot) (hM : 0 < M)
    (s : Nat → Nat) (L R C : Nat) (p : Coord)
    (hp : HoldsMax o R C (fun r c => windowScore add zero m M (padSym s L N) (c * R + r)) p)
    (i0 : Nat) (hi0c : i0 < R * C)
    (hfin : windowScore add zero m M (padSym s L N) i0 ≠ bot) :
    (p.2 * R + p.1) + M ≤ L ∧
    ∀ i, i + M ≤ L → i < R * C →
      o.le (windowScore add zero m M (padSym s L N) i)
           (windowScore add zero m M (padSym s L N) (p.2 * R + p.1)) = true := by
  have hR : 0 < R := by
    rcases Nat.eq_zero_or_pos R with h | h
    · subst h; simp at hi0c
    · exact h
  -- every position below R * C is a cell
  have hcell : ∀ i, i < R * C →
      o.le (windowScore add zero m M (padSym s L N) i)
           (windowScore add zero m M (padSym s L N) (p.2 * R + p.1)) = true := by
    intro i hi
    have h1 : i % R < R := Nat.mod_lt _ hR
    have h2 : i / R < C := by
      apply Nat.div_lt_of_lt_mul
      simpa [Nat.mul_comm] using hi
    have h3 := hp.2.2 (i % R) (i / R) h1 h2
    have h4 : i / R * R + i % R = i := by
      rw [Nat.mul_comm]; exact Nat.div_add_mod i R
    simpa [h4] using h3
  refine ⟨?_, fun i _ hic => hcell i hic⟩
  -- the designated position cannot reach past the end: its score would be `bot`
  apply Nat.le_of_not_lt
  intro hpast
  have hpb := windowScore_past_end add zero bot hbot m M N hN hM s L (p.2 * R + p.1) hpast
  have := hcell i0 hi0c
  rw [hpb] at this
  exact hfin (hbotmin _ this)

/-- the same for the maximum *value*: it is the score of a valid position and dominates the
    score of every valid position -/
theorem max_value_is_best_valid (o : Cmp β) (add : β → β → β) (zero bot : β)
    (hbot : ∀ x, add x bot = bot) (hbotmin : ∀ x, o.le x bot = true → x = bot)
    (m : Nat → Nat → β) (M N : Nat) (hN : ∀ j, j < M → m j N = bot) (hM : 0 < M)
    (s : Nat → Nat) (L R C : Nat) (v : β)
    (hv : IsMax o R C (fun r c => windowScore add zero m M (padSym s L N) (c * R + r)) v)
    (i0 : Nat) (hi0c : i0 < R * C)
    (hfin : windowScore add zero m M (padSym s L N) i0 ≠ bot) :
    (∃ i, i + M ≤ L ∧ i < R * C ∧ windowScore add zero m M (padSym s L N) i = v) ∧
    ∀ i, i + M ≤ L → i < R * C → o.le (windowScore add zero m M (padSym s L N) i) v = true := by
  obtain ⟨⟨r, c, hr, hc, hrc⟩, hdom⟩ := hv
  simp only at hrc hdom
  have hp : HoldsMax o R C (fun r c => windowScore add zero m M (padSym s L N) (c * R + r)) (r, c) := by
    refine ⟨hr, hc, ?_⟩
    intro r' c' hr' hc'
    have := hdom r' c' hr' hc'
    rw [← hrc] at this
    exact this
  obtain ⟨h1, h2⟩ := max_is_best_valid o add zero bot hbot hbotmin m M N hN hM s L R C (r, c) hp
    i0 hi0c hfin
  refine ⟨⟨c * R + r, h1, ?_, hrc⟩, ?_⟩
  · calc c * R + r < c * R + R := by omega
      _ = (c + 1) * R := by rw [Nat.add_mul, Nat.one_mul]
      _ ≤ C * R := Nat.mul_le_mul_right R (by omega)
      _ = R * C := Nat.mul_comm _ _
  · intro i hi hic
    have := h2 i hi hic
    simp only [hrc] at this
    exact this

end Padding

/-- every concrete pipeline reports the same float maximum as the generic one -/
theorem pipeMaxF32_agrees (o : Cmp α) (ht : o.Total) (hbot : ∀ v, o.le o.negInf v = true)
    (b : Backend) (C : Nat) (hsup : Supported b C) (maxIndex rows : Nat)
    (hmi : maxIndex ≤ 4294967295) (hle : rows ≤ 4294967296) (f : Nat → Nat → α) (a : Option α)
    (h : pipeMaxF32 o b C maxIndex rows f = .ok a) : MaxAgree o a (maxGeneric o C rows f) := by
  have hC : 0 < C := by
    cases b with
    | generic => exact hsup
    | sse2 => obtain ⟨q, hq, rfl⟩ := hsup; omega
    | avx2 => cases hsup; omega
  refine maxAgree_of_specs o rows C f _ _ ?_ (maxGeneric_eq_none_iff o C rows f) ?_
    (maxGeneric_spec o ht C rows hC f)
  · rw [← pipeMaxF32_none_iff o b C maxIndex rows hmi f, h]
    constructor
    · intro e; rw [e]
    · intro e; cases e; rfl
  · intro v hv
    subst hv
    exact pipeMaxF32_spec o ht hbot b C hsup maxIndex rows hle f v h

/-- every concrete pipeline reports the same u8 maximum as the generic one -/
theorem pipeMaxU8_agrees (o : Cmp UInt8) (ho : IsU8 o) (b : Backend) (C : Nat)
    (hsup : Supported b C) (rows : Nat) (f : Nat → Nat → UInt8) :
    pipeMaxU8 o b C rows f = maxGeneric o C rows f := by
  have hC : 0 < C := by
    cases b with
    | generic => exact hsup
    | sse2 => obtain ⟨q, hq, rfl⟩ := hsup; omega
    | avx2 => cases hsup; omega
  exact (maxAgree_of_specs o rows C f _ _ (pipeMaxU8_none_iff o b C rows f)
    (maxGeneric_eq_none_iff o C rows f) (pipeMaxU8_spec o ho b C hsup rows f)
    (maxGeneric_spec o ho.total C rows hC f)).eq ho.anti

/-! ### The property in one statement per element type -/

/-- C07 for float `StripedScores` (NaN-free = `Cmp.Total`, `−∞` least), whatever arm the
    dispatcher takes: `None` exactly on an empty matrix; the maximum is attained and dominates every
    cell; the arg-maximum is the offset of a cell holding it; thresholding returns exactly the cells
    `>= t`, each once; the maximum agrees with the generic backend's and the threshold list does
    not depend on the arm. -/
theorem c07_striped_f32 (o : Cmp α) (ht : o.Total) (hbot : ∀ v, o.le o.negInf v = true)
    (arm : Backend) (s : Striped α 32) (hmi : s.maxIndex ≤ 4294967295)
    (hle : s.data.rows ≤ 4294967296) :
    (s.maxF32 o arm = none ↔ s.data.rows = 0) ∧
    (s.argmaxF32 o arm = .ok none ↔ s.data.rows = 0) ∧
    (∀ v, s.maxF32 o arm = some v → IsMax o s.data.rows 32 (s.cell o) v) ∧
    (∀ p, s.argmaxF32 o arm = .ok (some p) →
      ∃ c, HoldsMax o s.data.rows 32 (s.cell o) c ∧ p = c.2 * s.data.rows + c.1) ∧
    (∀ t, (s.threshold o arm t).Nodup ∧ ∀ p, p ∈ s.threshold o arm t ↔
      ∃ c : Coord, c.1 < s.data.rows ∧ c.2 < 32 ∧ o.le t (s.cell o c.1 c.2) = true ∧
        p = c.2 * s.data.rows + c.1) ∧
    MaxAgree o (s.maxF32 o arm) (maxGeneric o 32 s.data.rows (s.cell o)) ∧
    (∀ t arm', s.threshold o arm t = s.threshold o arm' t) :=
  ⟨striped_maxF32_none_iff o arm s, striped_argmaxF32_none_iff o arm s hmi,
   striped_maxF32_spec o ht arm s, striped_argmaxF32_spec o ht hbot arm s hle,
   striped_threshold_spec o arm s, dispMaxF32_agrees o ht arm _ _, fun _ _ => rfl⟩

/-- C07 for 8-bit `StripedScores` (at most 65 536 rows, the bound of the AVX2 kernel) -/
theorem c07_striped_u8 (o : Cmp UInt8) (ho : IsU8 o) (arm : Backend) (s : Striped UInt8 32) :
    (s.maxU8 o arm = none ↔ s.data.rows = 0) ∧
    (∀ v, s.maxU8 o arm = some v → IsMax o s.data.rows 32 (s.cell o) v) ∧
    (∀ p, s.argmaxU8 o arm = .ok (some p) →
      ∃ c, HoldsMax o s.data.rows 32 (s.cell o) c ∧ p = c.2 * s.data.rows + c.1) ∧
    (s.data.rows ≤ 65536 → (s.argmaxU8 o arm = .ok none ↔ s.data.rows = 0)) ∧
    (∀ t, (s.threshold o arm t).Nodup ∧ ∀ p, p ∈ s.threshold o arm t ↔
      ∃ c : Coord, c.1 < s.data.rows ∧ c.2 < 32 ∧ o.le t (s.cell o c.1 c.2) = true ∧
        p = c.2 * s.data.rows + c.1) ∧
    s.maxU8 o arm = maxGeneric o 32 s.data.rows (s.cell o) := by
  refine ⟨dispMaxU8_none_iff o arm _ _, striped_maxU8_spec o ho arm s,
    striped_argmaxU8_spec o ho arm s, ?_, striped_threshold_spec o arm s,
    dispMaxU8_agrees o ho arm _ _⟩
  intro hrows
  obtain ⟨_, _, t3, _⟩ := disp_tables
  simp only [Striped.argmaxU8]
  cases arm <;> simp only [dispArgmaxU8, kernelOf, t3, Backend.idx, List.getD_cons_zero,
    List.getD_cons_succ]
  · simp [argmaxGeneric_eq_none_iff]
  · simp [argmaxGeneric_eq_none_iff]
  · split
    · next e he =>
      have := (argmaxU8Avx2_panic_iff o _ _).1 ⟨e, he⟩
      omega
    · next a ha =>
      rw [← argmaxU8Avx2_none_iff o s.data.rows (s.cell o), ha]
      cases a <;> simp

/-! ### Non-vacuity: the hypotheses are satisfiable and the kernels do return something -/

section Examples

deriving instance DecidableEq for Except

/-- `Nat` with its order; `0` is both the zero pattern and the least element -/
def natCmp : Cmp Nat := ⟨Nat.ble, Nat.blt, 0, 0⟩

theorem natCmp_total : natCmp.Total := by
  refine ⟨?_, ?_, ?_⟩
  · intro a b; simp only [natCmp, Nat.ble_eq]; omega
  · intro a b c; simp only [natCmp, Nat.ble_eq]; omega
  · intro a b
    simp only [natCmp]
    rw [Bool.eq_iff_iff]
    simp only [Nat.blt_eq, Bool.not_eq_true']
    rw [← Bool.not_eq_true, Nat.ble_eq]
    omega

def u8Cmp : Cmp UInt8 := ⟨fun a b => decide (a ≤ b), fun a b => decide (a < b), 0, 0⟩

theorem u8Cmp_isU8 : IsU8 u8Cmp := ⟨fun _ _ => rfl, fun _ _ => rfl, rfl⟩

/-- a 3 × 32 matrix with maximum 50 planted at (2, 9) and again at (1, 20); everything else < 11 -/
def demo (r c : Nat) : Nat :=
  if (r = 2 ∧ c = 9) ∨ (r = 1 ∧ c = 20) then 50 else (7 * r + 3 * c) % 11

def demoU8 (r c : Nat) : UInt8 := (demo r c).toUInt8

example : natCmp.Total := natCmp_total
example : ∀ v, natCmp.le natCmp.negInf v = true := by intro v; simp [natCmp]
example : Supported .generic 4 ∧ Supported .sse2 32 ∧ Supported .avx2 32 :=
  ⟨by show 0 < 4; decide, ⟨2, by decide, rfl⟩, rfl⟩
-- the scans return a cell holding 50, not cell (0, 0); which of the two is left free
example : argmaxGeneric natCmp 32 3 demo = some (2, 9) := by decide +kernel
example : maxGeneric natCmp 32 3 demo = some 50 := by decide +kernel
example : thresholdGeneric natCmp 32 3 demo 11 = [(1, 20), (2, 9)] := by decide +kernel
example : argmaxF32Avx2 natCmp 96 3 demo = .ok (some (2, 9)) := by decide +kernel
example : argmaxSse2 natCmp 32 96 3 demo = .ok (some (1, 20)) := by decide +kernel
example : maxF32Avx2 natCmp 3 demo = some 50 := by decide +kernel
example : maxU8Avx2 natCmp 3 demo = some 50 := by decide +kernel
example : argmaxU8Avx2 u8Cmp 3 demoU8 = .ok (some (1, 20)) := by decide +kernel
example : (∃ e, argmaxU8Avx2 u8Cmp 65537 demoU8 = .error e) :=
  (argmaxU8Avx2_panic_iff _ _ _).2 (by decide)
example : dispMaxF32 natCmp .avx2 3 demo = some 50 ∧ dispMaxF32 natCmp .sse2 3 demo = some 50 := by
  decide +kernel
example : scoresArgmax natCmp [3, 9, 2, 9, 1] = some 3 ∧ scoresMax natCmp [3, 9, 2, 9, 1] = some 9 ∧
    scoresThreshold natCmp [3, 9, 2, 9, 1] 3 = [0, 1, 3] := by decide
example : HoldsMax natCmp 3 32 demo (2, 9) :=
  argmaxF32Avx2_spec natCmp natCmp_total 96 3 (by decide) demo (2, 9) (by decide +kernel)

-- the bundled statements apply to a concrete `StripedScores` (3 rows, max_index 96)
example : (⟨Mat.ofFn 3 demo, 96⟩ : Striped Nat 32).argmaxF32 natCmp .avx2 = .ok (some (9 * 3 + 2)) ∧
    (⟨Mat.ofFn 3 demo, 96⟩ : Striped Nat 32).maxF32 natCmp .sse2 = some 50 ∧
    (⟨Mat.ofFn 3 demo, 96⟩ : Striped Nat 32).threshold natCmp .generic 11 = [20 * 3 + 1, 9 * 3 + 2] := by
  decide +kernel
example : (⟨Mat.ofFn 3 demoU8, 96⟩ : Striped UInt8 32).argmaxU8 u8Cmp .avx2 = .ok (some (20 * 3 + 1)) := by
  decide +kernel

/-- the padding clause instantiated: scores in `Option Nat` with `none` = −∞ absorbing; motif of
    width 2 over the alphabet {0, 1, wildcard 2}; sequence 0 1 1 0 of length 4 striped in 2 × 3 -/
def optAdd : Option Nat → Option Nat → Option Nat
  | some a, some b => some (a + b)
  | _, _ => none

def optCmp : Cmp (Option Nat) where
  le a b := match a, b with
    | none, _ => true
    | some _, none => false
    | some x, some y => Nat.ble x y
  lt a b := match a, b with
    | _, none => false
    | none, some _ => true
    | some x, some y => Nat.blt x y
  zero := some 0
  negInf := none

def demoPssm (_j a : Nat) : Option Nat := if a = 2 then none else some (a + 1)
def demoSeq (p : Nat) : Nat := [0, 1, 1, 0].getD p 0

example : ∀ x, optAdd x none = none := by intro x; cases x <;> rfl
example : ∀ x, optCmp.le x none = true → x = none := by
  intro x; cases x <;> simp [optCmp]
example : windowScore optAdd (some 0) demoPssm 2 (padSym demoSeq 4 2) 3 = none := by decide
example : windowScore optAdd (some 0) demoPssm 2 (padSym demoSeq 4 2) 1 = some 4 := by decide
example : argmaxGeneric optCmp 3 2
    (fun r c => windowScore optAdd (some 0) demoPssm 2 (padSym demoSeq 4 2) (c * 2 + r)) = some (1, 0) := by
  decide

end Examples

end C07
end LMV
