/-
  C07 — maximum, arg-maximum and thresholding of striped scores match their definitions.
  (theorems under construction)
-/
import LMV.Model.Maximum

namespace LMV
namespace C07
open Maximum

end C07
end LMV
