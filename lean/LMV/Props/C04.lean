/-
  C04 — Striping is a lossless, backend-independent rearrangement of the sequence.
-/
import LMV.Lemmas.Stripe
import LMV.Lemmas.Sums
import LMV.Lemmas.StripeAvx2
import LMV.Model.StripeAvx2
import Mathlib.Tactic.SplitIfs

namespace LMV
namespace C04

open Striped

variable {C : Nat}

/-- number of sequence rows for a sequence of length `L` in `C` columns: `ceil(L / C)` -/
def seqRowsOf (C L : Nat) : Nat := (L + (C - 1)) / C

/-- THE uniform invariant (DESIGN.md §7 C04 (3)): with `R = ceil(L/C)` sequence rows and `W` wrap
    rows, cell `(t, c)` of EVERY row `t < R + W` holds `s⟦c·R + t⟧` (the symbol, or the wildcard
    past the end).  It says at once: symbol `i` sits at row `i mod R`, column `i div R`; every other
    cell holds the wildcard; and look-ahead row `k` (row `R + k`) is row `k` shifted left by one
    column, since `s⟦c·R + (R + k)⟧ = s⟦(c+1)·R + k⟧`. -/
structure Inv (N : Nat) (st : Striped C) (s : List Nat) : Prop where
  len : st.length = s.length
  rows : st.data.rows = seqRowsOf C s.length + st.wrap
  cell : ∀ t c, t < seqRowsOf C s.length + st.wrap → c < C →
    st.data.get t c = pad N s (c * seqRowsOf C s.length + t)

theorem seqRowsOf_mul_ge (hC : 0 < C) (L : Nat) : L ≤ seqRowsOf C L * C := by
  unfold seqRowsOf
  have h1 := Nat.div_add_mod (L + (C - 1)) C
  have h2 := Nat.mod_lt (L + (C - 1)) hC
  have : (L + (C - 1)) / C * C = C * ((L + (C - 1)) / C) := Nat.mul_comm _ _
  omega

theorem seqRowsOf_pos (hC : 0 < C) {L : Nat} (hL : 0 < L) : 0 < seqRowsOf C L := by
  have := seqRowsOf_mul_ge hC L
  rcases Nat.eq_zero_or_pos (seqRowsOf C L) with h | h
  · rw [h] at this; omega
  · exact h

/-! ### (1) the generic striping loop: closed form, for every column count `C ≥ 1`, into any buffer -/

theorem stripeGeneric_length (N : Nat) (s : List Nat) (old : Striped C) :
    (stripeGeneric N s old).length = s.length := rfl

theorem stripeGeneric_wrap (N : Nat) (s : List Nat) (old : Striped C) :
    (stripeGeneric N s old).wrap = 0 := rfl

theorem stripeGeneric_rows (N : Nat) (s : List Nat) (old : Striped C) :
    (stripeGeneric N s old).data.rows = seqRowsOf C s.length := by
  simp [stripeGeneric, writeCells_rows, seqRowsOf]

theorem stripeGeneric_get (hC : 0 < C) (N : Nat) (s : List Nat) (old : Striped C) (r c : Nat)
    (hr : r < seqRowsOf C s.length) (hc : c < C) :
    (stripeGeneric N s old).data.get r c = pad N s (c * seqRowsOf C s.length + r) := by
  have hR : 0 < seqRowsOf C s.length := by omega
  have hge := seqRowsOf_mul_ge hC s.length
  have hp : c * seqRowsOf C s.length + r < seqRowsOf C s.length * C := by
    have : c * seqRowsOf C s.length + r < (c + 1) * seqRowsOf C s.length := by
      rw [Nat.add_mul]; omega
    have h2 : (c + 1) * seqRowsOf C s.length ≤ C * seqRowsOf C s.length :=
      Nat.mul_le_mul_right _ (by omega)
    rw [Nat.mul_comm (seqRowsOf C s.length) C]; omega
  simp only [stripeGeneric]
  rw [show (s.length + (C - 1)) / C = seqRowsOf C s.length from rfl]
  rw [writeCells_get _ hR, writeCells_rows, writeCells_get _ hR]
  simp only [Mat.rows_resize, Mat.get_resize, toArray_getD, pad, Nat.zero_add, Nat.zero_le, true_and]
  by_cases hlt : c * seqRowsOf C s.length + r < s.length
  · have e1 : ¬ (r < seqRowsOf C s.length ∧ s.length ≤ c * seqRowsOf C s.length + r ∧
        c * seqRowsOf C s.length + r < s.length + (seqRowsOf C s.length * C - s.length) ∧
        r < seqRowsOf C s.length ∧ c < C) := by intro h; omega
    have e2 : (r < seqRowsOf C s.length ∧ c * seqRowsOf C s.length + r < s.length ∧
        r < seqRowsOf C s.length ∧ c < C) := ⟨hr, hlt, hr, hc⟩
    rw [if_neg e1, if_pos e2]
  · have e1 : (r < seqRowsOf C s.length ∧ s.length ≤ c * seqRowsOf C s.length + r ∧
        c * seqRowsOf C s.length + r < s.length + (seqRowsOf C s.length * C - s.length) ∧
        r < seqRowsOf C s.length ∧ c < C) := ⟨hr, by omega, by omega, hr, hc⟩
    rw [if_pos e1]
    rw [getD_of_le _ _ _ (by omega)]

/-- generic striping establishes the invariant, whatever the buffer held before -/
theorem stripeGeneric_inv (hC : 0 < C) (N : Nat) (s : List Nat) (old : Striped C) :
    Inv N (stripeGeneric N s old) s where
  len := rfl
  rows := by rw [stripeGeneric_rows, stripeGeneric_wrap]; rfl
  cell := by
    intro t c ht hc
    rw [stripeGeneric_wrap] at ht
    exact stripeGeneric_get hC N s old t c (by omega) hc

/-! ### (3) `configure_wrap` preserves the invariant — any `m`, any earlier wrap, also `m > R`, `R = 0` -/

theorem pad_of_le (N : Nat) (s : List Nat) (p : Nat) (h : s.length ≤ p) : pad N s p = N :=
  getD_of_le s p N h

/-- one iteration of the outer loop of `configure_wrap` -/
def wrapRow (N rows i : Nat) (d : Mat Nat C) : Mat Nat C :=
  (shiftLoop (rows + i) i (C - 1) d).set (rows + i) (C - 1) N

theorem wrapRow_rows (N rows i : Nat) (d : Mat Nat C) : (wrapRow N rows i d).rows = d.rows := by
  simp [wrapRow, shiftLoop_rows]

theorem wrapRow_get (hC : 0 < C) (N rows i : Nat) (d : Mat Nat C) (t c : Nat) (hc : c < C) :
    (wrapRow N rows i d).get t c =
      if t = rows + i ∧ rows + i < d.rows then (if c < C - 1 then d.get i (c + 1) else N)
      else d.get t c := by
  unfold wrapRow
  rw [Mat.get_set, shiftLoop_rows, shiftLoop_get _ _ _ (by omega)]
  split_ifs <;> first | rfl | (exfalso; omega)

/-- state of the matrix after `i` iterations of the outer loop -/
theorem wrapLoop_inv (hC : 0 < C) (N : Nat) (s : List Nat) (w m : Nat) (d0 : Mat Nat C)
    (hrows : d0.rows = seqRowsOf C s.length + m)
    (h0 : ∀ t c, t < seqRowsOf C s.length + m → c < C →
      d0.get t c = if t < seqRowsOf C s.length + w then pad N s (c * seqRowsOf C s.length + t) else N)
    (i : Nat) (hi : i ≤ m) :
    ((List.range i).foldl (fun d i => wrapRow N (seqRowsOf C s.length) i d) d0).rows
      = seqRowsOf C s.length + m ∧
    ∀ t c, t < seqRowsOf C s.length + m → c < C →
      ((List.range i).foldl (fun d i => wrapRow N (seqRowsOf C s.length) i d) d0).get t c =
        if t < seqRowsOf C s.length + max i w
        then pad N s (c * seqRowsOf C s.length + t) else N := by
  induction i with
  | zero =>
    simp only [List.range_zero, List.foldl_nil]
    refine ⟨hrows, ?_⟩
    intro t c ht hc
    rw [h0 t c ht hc, Nat.zero_max]
  | succ i ih =>
    have ⟨ihr, ihc⟩ := ih (by omega)
    simp only [foldl_range_succ]
    refine ⟨by rw [wrapRow_rows]; exact ihr, ?_⟩
    intro t c ht hc
    rw [wrapRow_get hC _ _ _ _ _ _ hc, ihr]
    have hge := seqRowsOf_mul_ge hC s.length
    by_cases h1 : t = seqRowsOf C s.length + i
    · have hcond : t = seqRowsOf C s.length + i ∧
          seqRowsOf C s.length + i < seqRowsOf C s.length + m := ⟨h1, by omega⟩
      rw [if_pos hcond, if_pos (show t < seqRowsOf C s.length + max (i + 1) w by omega)]
      by_cases h2 : c < C - 1
      · rw [if_pos h2, ihc i (c + 1) (by omega) (by omega)]
        have harith : (c + 1) * seqRowsOf C s.length + i = c * seqRowsOf C s.length + t := by
          rw [h1, Nat.add_mul]; omega
        rw [harith]
        by_cases h3 : i < seqRowsOf C s.length + max i w
        · rw [if_pos h3]
        · rw [if_neg h3]
          -- then `R = 0`: the sequence is empty and every padded read is the wildcard
          have hR : seqRowsOf C s.length = 0 := by omega
          rw [pad_of_le]
          rw [hR] at hge; omega
      · rw [if_neg h2, pad_of_le]
        have hcc : c = C - 1 := by omega
        have h5 : (C - 1 + 1) * seqRowsOf C s.length = C * seqRowsOf C s.length := by
          rw [Nat.sub_add_cancel hC]
        rw [Nat.add_mul] at h5
        rw [h1, hcc]
        have h6 : seqRowsOf C s.length * C = C * seqRowsOf C s.length := Nat.mul_comm _ _
        omega
    · have hcond : ¬ (t = seqRowsOf C s.length + i ∧
          seqRowsOf C s.length + i < seqRowsOf C s.length + m) := fun h => h1 h.1
      rw [if_neg hcond, ihc t c ht hc]
      by_cases h3 : t < seqRowsOf C s.length + max i w
      · rw [if_pos h3, if_pos (show t < seqRowsOf C s.length + max (i + 1) w by omega)]
      · rw [if_neg h3, if_neg (show ¬ t < seqRowsOf C s.length + max (i + 1) w by omega)]

theorem configureWrap_eq (N m : Nat) (st : Striped C) (hm : m > st.wrap) :
    configureWrap N m st =
      ⟨(List.range m).foldl (fun d i => wrapRow N (st.data.rows - st.wrap) i d)
        (st.data.resize (st.data.rows + m - st.wrap) N), st.length, m⟩ := by
  unfold configureWrap; rw [if_pos hm]; rfl

theorem configureWrap_inv (hC : 0 < C) (N : Nat) (s : List Nat) (st : Striped C) (m : Nat)
    (h : Inv N st s) : Inv N (configureWrap N m st) s := by
  by_cases hm : m > st.wrap
  · rw [configureWrap_eq N m st hm]
    have hrow0 : st.data.rows - st.wrap = seqRowsOf C s.length := by rw [h.rows]; omega
    have hd0 : (st.data.resize (st.data.rows + m - st.wrap) N).rows = seqRowsOf C s.length + m := by
      rw [Mat.rows_resize, h.rows]; omega
    have h0 : ∀ t c, t < seqRowsOf C s.length + m → c < C →
        (st.data.resize (st.data.rows + m - st.wrap) N).get t c =
          if t < seqRowsOf C s.length + st.wrap then pad N s (c * seqRowsOf C s.length + t) else N := by
      intro t c ht hc
      rw [Mat.get_resize, if_pos (by rw [h.rows]; omega), h.rows]
      by_cases h1 : t < seqRowsOf C s.length + st.wrap
      · rw [if_pos h1, if_pos h1, h.cell t c h1 hc]
      · rw [if_neg h1, if_neg h1, if_pos hc]
    have key := wrapLoop_inv hC N s st.wrap m _ hd0 h0 m (Nat.le_refl m)
    rw [hrow0]
    refine ⟨h.len, key.1, ?_⟩
    intro t c ht hc
    have := key.2 t c ht hc
    rw [if_pos (show t < seqRowsOf C s.length + max m st.wrap by
      have : t < seqRowsOf C s.length + m := ht
      omega)] at this
    exact this
  · unfold configureWrap; rw [if_neg hm]; exact h

theorem configure_inv (hC : 0 < C) (N : Nat) (s : List Nat) (st : Striped C) (M : Nat)
    (h : Inv N st s) : Inv N (configure N M st) s := by
  unfold configure
  split
  · exact configureWrap_inv hC N s st _ h
  · exact h

theorem configureWrap_wrap (N m : Nat) (st : Striped C) :
    (configureWrap N m st).wrap = max m st.wrap := by
  unfold configureWrap
  split
  · simp only; omega
  · omega

/-! ### every finite sequence of operations on one buffer (generic backend; the AVX2 kernel and the
dispatcher arms are shown equal to it below) -/

inductive StripeOp
  | stripeInto (s : List Nat)   -- `stripe_into(s, &mut buf)` — also a fresh `stripe(s)`
  | configureWrap (m : Nat)
  | configure (motifLen : Nat)

/-- effect of one operation on the buffer, and on the sequence the buffer is supposed to hold -/
def StripeOp.apply (N : Nat) : StripeOp → Striped C × List Nat → Striped C × List Nat
  | .stripeInto s', (st, _) => (stripeGeneric N s' st, s')
  | .configureWrap m, (st, s) => (Striped.configureWrap N m st, s)
  | .configure M, (st, s) => (Striped.configure N M st, s)

/-- **C04, histories**: the invariant holds after every finite sequence of `stripe_into` /
    `configure_wrap` / `configure` calls on one buffer, for any widths in any order. -/
theorem ops_inv (hC : 0 < C) (N : Nat) (ops : List StripeOp) (st : Striped C) (s : List Nat)
    (h : Inv N st s) :
    Inv N (ops.foldl (fun x op => op.apply N x) (st, s)).1
          (ops.foldl (fun x op => op.apply N x) (st, s)).2 := by
  induction ops generalizing st s with
  | nil => exact h
  | cons op ops ih =>
    simp only [List.foldl_cons]
    cases op with
    | stripeInto s' => exact ih _ _ (stripeGeneric_inv hC N s' st)
    | configureWrap m => exact ih _ _ (configureWrap_inv hC N s st m h)
    | configure M => exact ih _ _ (configure_inv hC N s st M h)

/-- the empty buffer (`StripedSequence::default()`) satisfies the invariant for the empty sequence -/
theorem empty_inv (hC : 0 < C) (N : Nat) : Inv N (Striped.empty : Striped C) [] where
  len := rfl
  rows := by
    have : (C - 1) / C = 0 := Nat.div_eq_of_lt (by omega)
    simp [Striped.empty, seqRowsOf, this]
  cell := by
    intro t c ht _
    have : (C - 1) / C = 0 := Nat.div_eq_of_lt (by omega)
    simp [Striped.empty, seqRowsOf, this] at ht

/-! ### (4) look-ahead, as used by the scoring kernels -/

/-- under the invariant, `j` rows below sequence row `r` one finds the symbols `j` positions later
    in the same column's stretch of the sequence — also across the column boundary -/
theorem lookahead (N : Nat) (st : Striped C) (s : List Nat) (h : Inv N st s)
    (r j c : Nat) (hr : r < seqRowsOf C s.length) (hj : j ≤ st.wrap) (hc : c < C) :
    st.data.get (r + j) c = pad N s (c * seqRowsOf C s.length + r + j) := by
  rw [h.cell (r + j) c (by omega) hc, Nat.add_assoc]

/-- look-ahead row `k` is sequence row `k` shifted left by one column (the last column gets the
    wildcard) — the statement of the property -/
theorem lookahead_row_shift (hC : 0 < C) (N : Nat) (st : Striped C) (s : List Nat) (h : Inv N st s)
    (k c : Nat) (hk : k < st.wrap) (hc : c < C) :
    st.data.get (seqRowsOf C s.length + k) c =
      if c + 1 < C then st.data.get k (c + 1) else N := by
  rw [h.cell _ c (by omega) hc]
  have harith : c * seqRowsOf C s.length + (seqRowsOf C s.length + k) =
      (c + 1) * seqRowsOf C s.length + k := by rw [Nat.add_mul]; omega
  rw [harith]
  by_cases h1 : c + 1 < C
  · rw [if_pos h1]
    by_cases hR : seqRowsOf C s.length = 0
    · -- empty sequence: everything is the wildcard
      have hge := seqRowsOf_mul_ge hC s.length
      rw [hR] at hge
      rw [h.cell k (c + 1) (by omega) h1, pad_of_le _ _ _ (by omega)]
    · rw [h.cell k (c + 1) (by omega) h1]
  · rw [if_neg h1, pad_of_le]
    have hge := seqRowsOf_mul_ge hC s.length
    have : c + 1 = C := by omega
    rw [this, Nat.mul_comm]; omega

/-! ### (5) reading back: `index` -/

/-- indexing the striped sequence by `i < L` never panics and returns symbol `i`, before and after
    any number of `configure_wrap` calls -/
theorem index_eq (hC : 0 < C) (N : Nat) (st : Striped C) (s : List Nat) (h : Inv N st s)
    (i : Nat) (hi : i < s.length) : st.index i = .ok (s.getD i N) := by
  have hR := seqRowsOf_pos hC (show 0 < s.length by omega)
  have hge := seqRowsOf_mul_ge hC s.length
  have hrows : st.data.rows - st.wrap = seqRowsOf C s.length := by rw [h.rows]; omega
  unfold Striped.index
  simp only [hrows]
  rw [if_neg (by omega)]
  have hcol : i / seqRowsOf C s.length < C := by
    apply Nat.div_lt_of_lt_mul; omega
  have hrow : i % seqRowsOf C s.length < seqRowsOf C s.length := Nat.mod_lt _ hR
  rw [if_pos ⟨by rw [h.rows]; omega, hcol⟩, h.cell _ _ (by omega) hcol]
  have : i / seqRowsOf C s.length * seqRowsOf C s.length + i % seqRowsOf C s.length = i := by
    rw [Nat.mul_comm]; exact Nat.div_add_mod i _
  rw [this]; rfl

/-! ### (5b) reading back: counting symbols -/

theorem countSymbol_eq_sum (st : Striped C) (sym : Nat) :
    st.countSymbol sym =
      sumTo (st.data.rows - st.wrap) (fun i => sumTo C (fun j =>
        if j * (st.data.rows - st.wrap) + i < st.length ∧ st.data.get i j = sym then 1 else 0)) := by
  unfold Striped.countSymbol
  have inner : ∀ (i cnt : Nat),
      (List.range C).foldl (fun cnt j =>
        if j * (st.data.rows - st.wrap) + i < st.length ∧ st.data.get i j = sym then cnt + 1 else cnt) cnt
      = cnt + sumTo C (fun j =>
        if j * (st.data.rows - st.wrap) + i < st.length ∧ st.data.get i j = sym then 1 else 0) := by
    intro i cnt
    rw [← foldl_add_init]
    congr 1
    funext cnt j
    split <;> rfl
  simp only [inner]
  rw [foldl_add_init]; simp

/-- **C04, counting**: counting a symbol in the striped sequence (before or after any number of
    `configure_wrap` calls) gives its number of occurrences in the linear sequence -/
theorem countSymbol_eq (hC : 0 < C) (N : Nat) (st : Striped C) (s : List Nat) (h : Inv N st s)
    (sym : Nat) : st.countSymbol sym = s.count sym := by
  rw [countSymbol_eq_sum]
  have hrows : st.data.rows - st.wrap = seqRowsOf C s.length := by rw [h.rows]; omega
  rw [hrows, h.len]
  have hge := seqRowsOf_mul_ge hC s.length
  -- under the invariant the cell tested is the padded read of the position
  have h1 : sumTo (seqRowsOf C s.length) (fun i => sumTo C (fun j =>
        if j * seqRowsOf C s.length + i < s.length ∧ st.data.get i j = sym then 1 else 0)) =
      sumTo (seqRowsOf C s.length) (fun i => sumTo C (fun j =>
        (fun p => if p < s.length ∧ s.getD p N = sym then 1 else 0) (j * seqRowsOf C s.length + i))) := by
    apply sumTo_congr; intro i hi
    apply sumTo_congr; intro j hj
    rw [h.cell i j (by omega) hj]; rfl
  rw [h1, sumTo_grid (seqRowsOf C s.length) C
    (fun p => if p < s.length ∧ s.getD p N = sym then 1 else 0), sumTo_truncate _ s.length hge]
  · rw [← sumTo_count s N sym]
    apply sumTo_congr; intro p hp
    simp [hp]
  · intro p hp
    rw [if_neg]; omega

/-! ### (2) the AVX2 kernel and every dispatcher arm equal generic striping -/

section avx2
open StripeAvx2

theorem getD_irrel (s : List Nat) (p a b : Nat) (h : p < s.length) : s.getD p a = s.getD p b := by
  simp [List.getD, List.getElem?_eq_getElem h]

/-- the scalar tail loop of `stripe_avx2`, as a conditional rectangle write -/
theorem tail_eq (N : Nat) (arr : Array Nat) (stride i0 length : Nat) (d : Mat Nat 32) :
    (List.range (stride - i0)).foldl (fun d k =>
      let i := i0 + k
      (List.range 32).foldl (fun d j =>
        if j * stride + i < length then d.set i j (arr.getD (j * stride + i) N) else d) d) d
    = condRectWrite i0 (stride - i0) 32 (fun k j => decide (j * stride + (i0 + k) < length))
        (fun k j => arr.getD (j * stride + (i0 + k)) N) d := by
  unfold condRectWrite condRowWrite
  apply foldl_ext_mem
  intro d k _
  apply foldl_ext_mem
  intro d j _
  simp only [decide_eq_true_eq]

/-- **C04, backend independence**: for every sequence, every previous content of the buffer and
    EVERY value of the bytes the kernel loads past the end of the symbol buffer, the AVX2 kernel
    produces exactly the striped sequence the generic loop produces. -/
theorem stripeAvx2_eq_generic (N : Nat) (junk : Nat → Nat) (s : List Nat) (old : Striped 32) :
    StripeAvx2.stripe N junk s old = stripeGeneric N s old := by
  have hC : 0 < 32 := by decide
  by_cases hL : s.length = 0
  · -- early return: the buffer was taken and never put back = the default (empty) striped sequence
    have hs : s = [] := List.eq_nil_of_length_eq_zero hL
    subst hs
    unfold StripeAvx2.stripe
    simp only [List.length_nil, if_true]
    unfold stripeGeneric Striped.empty
    simp only [List.length_nil]
    congr 1
    apply Mat.ext
    · simp [writeCells_rows]
    · intro r c hr; simp at hr
  · have hstruct : ∃ d, StripeAvx2.stripe N junk s old = ⟨d, s.length, 0⟩ ∧
        d.rows = seqRowsOf 32 s.length ∧
        ∀ r c, r < seqRowsOf 32 s.length → c < 32 →
          d.get r c = pad N s (c * seqRowsOf 32 s.length + r) := by
      unfold StripeAvx2.stripe
      simp only [hL, if_false]
      have hstride : (s.length + 31) / 32 = seqRowsOf 32 s.length := rfl
      rw [hstride]
      generalize hR : seqRowsOf 32 s.length = R
      obtain ⟨i0, d1, he, h1, h2, h3, h4, h5⟩ :=
        blockLoop_spec junk s.toArray R R 0 (old.data.resize R N) (by omega)
      rw [he]
      simp only
      rw [tail_eq]
      refine ⟨_, rfl, ?_, ?_⟩
      · rw [writeCells_rows, condRectWrite_rows, h4, Mat.rows_resize]
      · intro r c hr hc
        have hRpos : 0 < R := by omega
        have hge : s.length ≤ R * 32 := by rw [← hR]; exact seqRowsOf_mul_ge hC s.length
        have hi0 : i0 ≤ R := by omega
        have hp : c * R + r < 32 * R := by
          have : c * R + r < (c + 1) * R := by rw [Nat.add_mul]; omega
          have h2 : (c + 1) * R ≤ 32 * R := Nat.mul_le_mul_right _ (by omega)
          omega
        rw [writeCells_get _ hRpos, condRectWrite_rows, h4, Mat.rows_resize,
          condRectWrite_get _ _ _ (Nat.le_refl 32), h4, Mat.rows_resize, h5 r c, Mat.rows_resize]
        by_cases hlt : c * R + r < s.length
        · -- a real symbol: written either by a transposed block or by the scalar tail
          rw [if_neg (by omega)]
          by_cases hblk : r < i0
          · rw [if_neg (by omega), if_pos ⟨by omega, hblk, hc, hr⟩]
            simp only [srcVal, List.size_toArray, hlt, if_true, toArray_getD, pad]
            exact getD_irrel s _ 0 N hlt
          · have hk : i0 + (r - i0) = r := by omega
            rw [if_pos ⟨by omega, by omega, hc, hr, by rw [hk]; exact decide_eq_true hlt⟩]
            rw [hk, toArray_getD]; rfl
        · -- past the end: the fill loop writes the wildcard, whatever the blocks loaded there
          rw [if_pos ⟨hr, by omega, by omega, hr, hc⟩, pad_of_le _ _ _ (by omega)]
    obtain ⟨d, hd, hrows, hcells⟩ := hstruct
    rw [hd]
    have hg : stripeGeneric N s old = ⟨(stripeGeneric N s old).data, s.length, 0⟩ := rfl
    rw [hg]
    congr 1
    apply Mat.ext
    · rw [hrows, stripeGeneric_rows]
    · intro r c hr hc
      rw [hrows] at hr
      rw [hcells r c hr hc, stripeGeneric_get hC N s old r c hr hc]

/-- every arm of the runtime dispatcher stripes like the generic backend -/
theorem dispatch_eq_generic (N : Nat) (junk : Nat → Nat) (arm : StripeAvx2.Arm) (s : List Nat)
    (old : Striped 32) : StripeAvx2.dispatch N junk arm s old = stripeGeneric N s old := by
  cases arm <;> simp [StripeAvx2.dispatch, stripeAvx2_eq_generic]

/-- operations on a 32-column buffer, with the striping backend chosen per call -/
inductive StripeOp32
  | stripeGeneric (s : List Nat)
  | stripeAvx2 (junk : Nat → Nat) (s : List Nat)
  | stripeDispatch (arm : StripeAvx2.Arm) (junk : Nat → Nat) (s : List Nat)
  | configureWrap (m : Nat)
  | configure (motifLen : Nat)

def StripeOp32.apply (N : Nat) : StripeOp32 → Striped 32 × List Nat → Striped 32 × List Nat
  | .stripeGeneric s', (st, _) => (Striped.stripeGeneric N s' st, s')
  | .stripeAvx2 junk s', (st, _) => (StripeAvx2.stripe N junk s' st, s')
  | .stripeDispatch arm junk s', (st, _) => (StripeAvx2.dispatch N junk arm s' st, s')
  | .configureWrap m, (st, s) => (Striped.configureWrap N m st, s)
  | .configure M, (st, s) => (Striped.configure N M st, s)

/-- forgetting which backend striped -/
def StripeOp32.erase : StripeOp32 → StripeOp
  | .stripeGeneric s | .stripeAvx2 _ s | .stripeDispatch _ _ s => .stripeInto s
  | .configureWrap m => .configureWrap m
  | .configure M => .configure M

/-- **C04, histories × backends**: any sequence of operations on one 32-column buffer, each
    striping done by any backend or dispatcher arm, leaves exactly the buffer the generic backend
    would leave — hence the invariant holds after all of them. -/
theorem ops32_eq_generic (N : Nat) (ops : List StripeOp32) (x : Striped 32 × List Nat) :
    ops.foldl (fun x op => op.apply N x) x = (ops.map StripeOp32.erase).foldl (fun x op => op.apply N x) x := by
  induction ops generalizing x with
  | nil => rfl
  | cons op ops ih =>
    simp only [List.foldl_cons, List.map_cons]
    rw [ih]
    congr 1
    obtain ⟨st, s⟩ := x
    cases op <;> simp [StripeOp32.apply, StripeOp32.erase, StripeOp.apply, stripeAvx2_eq_generic,
      dispatch_eq_generic]

theorem ops32_inv (N : Nat) (ops : List StripeOp32) (st : Striped 32) (s : List Nat) (h : Inv N st s) :
    Inv N (ops.foldl (fun x op => op.apply N x) (st, s)).1
          (ops.foldl (fun x op => op.apply N x) (st, s)).2 := by
  rw [ops32_eq_generic]
  exact ops_inv (by decide) N _ st s h

end avx2

/-! ### non-vacuity -/

example : Inv 4 (stripeGeneric (C := 4) 4 [0, 2, 3, 1, 0] Striped.empty) [0, 2, 3, 1, 0] :=
  stripeGeneric_inv (by decide) 4 _ _
example : ((Striped.configureWrap 4 2 (stripeGeneric (C := 4) 4 [0, 2, 3, 1, 0] Striped.empty)).data.toLists)
    = [[0, 3, 0, 4], [2, 1, 4, 4], [3, 0, 4, 4], [1, 4, 4, 4]] := by decide

end C04
end LMV
