/-
  C04 — Striping is a lossless, backend-independent rearrangement of the sequence.
-/
import LMV.Lemmas.Stripe
import LMV.Model.StripeAvx2

namespace LMV
namespace C04

open Striped

variable {C : Nat}

/-- number of sequence rows for a sequence of length `L` in `C` columns: `ceil(L / C)` -/
def seqRowsOf (C L : Nat) : Nat := (L + (C - 1)) / C

/-- THE uniform invariant (DESIGN.md §7 C04 (3)): with `R = ceil(L/C)` sequence rows and `W` wrap
    rows, cell `(t, c)` of EVERY row `t < R + W` holds `s⟦c·R + t⟧` (the symbol, or the wildcard
    past the end).  It says at once: symbol `i` sits at row `i mod R`, column `i div R`; every other
    cell holds the wildcard; and look-ahead row `k` (row `R + k`) is row `k` shifted left by one
    column, since `s⟦c·R + (R + k)⟧ = s⟦(c+1)·R + k⟧`. -/
structure Inv (N : Nat) (st : Striped C) (s : List Nat) : Prop where
  len : st.length = s.length
  rows : st.data.rows = seqRowsOf C s.length + st.wrap
  cell : ∀ t c, t < seqRowsOf C s.length + st.wrap → c < C →
    st.data.get t c = pad N s (c * seqRowsOf C s.length + t)

theorem seqRowsOf_mul_ge (hC : 0 < C) (L : Nat) : L ≤ seqRowsOf C L * C := by
  unfold seqRowsOf
  have h1 := Nat.div_add_mod (L + (C - 1)) C
  have h2 := Nat.mod_lt (L + (C - 1)) hC
  have : (L + (C - 1)) / C * C = C * ((L + (C - 1)) / C) := Nat.mul_comm _ _
  omega

theorem seqRowsOf_pos (hC : 0 < C) {L : Nat} (hL : 0 < L) : 0 < seqRowsOf C L := by
  have := seqRowsOf_mul_ge hC L
  rcases Nat.eq_zero_or_pos (seqRowsOf C L) with h | h
  · rw [h] at this; omega
  · exact h

/-! ### (1) the generic striping loop: closed form, for every column count `C ≥ 1`, into any buffer -/

theorem stripeGeneric_length (N : Nat) (s : List Nat) (old : Striped C) :
    (stripeGeneric N s old).length = s.length := rfl

theorem stripeGeneric_wrap (N : Nat) (s : List Nat) (old : Striped C) :
    (stripeGeneric N s old).wrap = 0 := rfl

theorem stripeGeneric_rows (N : Nat) (s : List Nat) (old : Striped C) :
    (stripeGeneric N s old).data.rows = seqRowsOf C s.length := by
  simp [stripeGeneric, writeCells_rows, seqRowsOf]

theorem stripeGeneric_get (hC : 0 < C) (N : Nat) (s : List Nat) (old : Striped C) (r c : Nat)
    (hr : r < seqRowsOf C s.length) (hc : c < C) :
    (stripeGeneric N s old).data.get r c = pad N s (c * seqRowsOf C s.length + r) := by
  have hR : 0 < seqRowsOf C s.length := by omega
  have hge := seqRowsOf_mul_ge hC s.length
  have hp : c * seqRowsOf C s.length + r < seqRowsOf C s.length * C := by
    have : c * seqRowsOf C s.length + r < (c + 1) * seqRowsOf C s.length := by
      rw [Nat.add_mul]; omega
    have h2 : (c + 1) * seqRowsOf C s.length ≤ C * seqRowsOf C s.length :=
      Nat.mul_le_mul_right _ (by omega)
    rw [Nat.mul_comm (seqRowsOf C s.length) C]; omega
  simp only [stripeGeneric]
  rw [show (s.length + (C - 1)) / C = seqRowsOf C s.length from rfl]
  rw [writeCells_get _ hR, writeCells_rows, writeCells_get _ hR]
  simp only [Mat.rows_resize, Mat.get_resize, toArray_getD, pad, Nat.zero_add, Nat.zero_le, true_and]
  by_cases hlt : c * seqRowsOf C s.length + r < s.length
  · have e1 : ¬ (r < seqRowsOf C s.length ∧ s.length ≤ c * seqRowsOf C s.length + r ∧
        c * seqRowsOf C s.length + r < s.length + (seqRowsOf C s.length * C - s.length) ∧
        r < seqRowsOf C s.length ∧ c < C) := by intro h; omega
    have e2 : (r < seqRowsOf C s.length ∧ c * seqRowsOf C s.length + r < s.length ∧
        r < seqRowsOf C s.length ∧ c < C) := ⟨hr, hlt, hr, hc⟩
    rw [if_neg e1, if_pos e2]
  · have e1 : (r < seqRowsOf C s.length ∧ s.length ≤ c * seqRowsOf C s.length + r ∧
        c * seqRowsOf C s.length + r < s.length + (seqRowsOf C s.length * C - s.length) ∧
        r < seqRowsOf C s.length ∧ c < C) := ⟨hr, by omega, by omega, hr, hc⟩
    rw [if_pos e1]
    rw [getD_of_le _ _ _ (by omega)]

/-- generic striping establishes the invariant, whatever the buffer held before -/
theorem stripeGeneric_inv (hC : 0 < C) (N : Nat) (s : List Nat) (old : Striped C) :
    Inv N (stripeGeneric N s old) s where
  len := rfl
  rows := by rw [stripeGeneric_rows, stripeGeneric_wrap]; rfl
  cell := by
    intro t c ht hc
    rw [stripeGeneric_wrap] at ht
    exact stripeGeneric_get hC N s old t c (by omega) hc

end C04
end LMV
