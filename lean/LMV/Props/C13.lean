/-
  C13 — TFM-PVALUE score thresholds are consistent with the exact score distribution.

  Exact instance (`Rat`) of the mirror model LMV.Model.Tfm (the code with the four `fix:` commits).
  Shared lemmas (R) `rounding` and (D) `distribution_spec` are in LMV.Lemmas.Tfm; `C12.tail` is
  P(S ≥ x).
-/
import LMV.Props.C12

namespace LMV
namespace C13
open Tfm C12

/-! ### the scan of `lookup_score`, on a list of (key, mass) in DESCENDING key order -/

def psum (l : List (Int × Rat)) : Rat := (l.map (·.2)).sum

@[simp] theorem psum_nil : psum [] = 0 := rfl
@[simp] theorem psum_cons (x : Int × Rat) (t : List (Int × Rat)) : psum (x :: t) = x.2 + psum t := by
  simp [psum]
theorem psum_append (l₁ l₂ : List (Int × Rat)) : psum (l₁ ++ l₂) = psum l₁ + psum l₂ := by
  simp [psum]

/-- the `pvalues` entries written while the keys `as` were processed without a break, newest first -/
def pvOf (sum : Rat) : List (Int × Rat) → List (Int × Rat)
  | [] => []
  | x :: t => pvOf (sum + x.2) t ++ [(x.1, sum + x.2)]

theorem pvOf_append_singleton (sum : Rat) (l : List (Int × Rat)) (x : Int × Rat) :
    pvOf sum (l ++ [x]) = (x.1, sum + psum l + x.2) :: pvOf sum l := by
  induction l generalizing sum with
  | nil => simp [pvOf]
  | cons y t ih =>
    simp only [List.cons_append, pvOf, ih, psum_cons, List.cons_append]
    congr 2; ring

/-- what `scanDown` returns -/
theorem scanDown_spec (p : Rat) (d : List (Int × Rat)) (sum : Rat) (pv : List (Int × Rat)) :
    ∃ as rest, d = as ++ rest ∧
      (∀ as₁ x as₂, as = as₁ ++ x :: as₂ → sum + psum as₁ + x.2 < p) ∧
      ((rest = [] ∧ as = [] ∧ scanDown p sum pv d = (sum, pv, [])) ∨
        (∃ e0, rest = [e0] ∧ scanDown p sum pv d = (sum + psum as, pvOf sum as ++ pv, [e0])) ∨
        (∃ b b' bs, rest = b :: b' :: bs ∧ p ≤ sum + psum as + b.2 ∧
          scanDown p sum pv d =
            (sum + psum as + b.2, (b.1, sum + psum as + b.2) :: (pvOf sum as ++ pv), b :: b' :: bs))) := by
  induction d generalizing sum pv with
  | nil => exact ⟨[], [], rfl, by simp, Or.inl ⟨rfl, rfl, rfl⟩⟩
  | cons e t ih =>
    cases t with
    | nil =>
      refine ⟨[], [e], rfl, by simp, Or.inr (Or.inl ⟨e, rfl, ?_⟩)⟩
      simp [scanDown, pvOf]
    | cons e' t' =>
      by_cases hb : p ≤ sum + e.2
      · refine ⟨[], e :: e' :: t', rfl, by simp, Or.inr (Or.inr ⟨e, e', t', rfl, by simpa using hb, ?_⟩)⟩
        simp [scanDown, hb, pvOf]
      · obtain ⟨as, rest, hd, hlt, hcase⟩ := ih (sum + e.2) ((e.1, sum + e.2) :: pv)
        have hstep : scanDown p sum pv (e :: e' :: t') =
            scanDown p (sum + e.2) ((e.1, sum + e.2) :: pv) (e' :: t') := by
          simp [scanDown, hb]
        refine ⟨e :: as, rest, by rw [hd]; rfl, ?_, ?_⟩
        · intro as₁ x as₂ h
          cases as₁ with
          | nil =>
            simp only [List.nil_append, List.cons.injEq] at h
            rw [← h.1]; simpa using lt_of_not_ge hb
          | cons y as₁' =>
            simp only [List.cons_append, List.cons.injEq] at h
            have := hlt as₁' x as₂ h.2
            rw [← h.1]; simp only [psum_cons]; linarith
        · rw [hstep]
          rcases hcase with ⟨h1, h2, h3⟩ | ⟨e0, h1, h3⟩ | ⟨b, b', bs, h1, h2, h3⟩
          · rw [h1, h2] at hd; simp at hd
          · refine Or.inr (Or.inl ⟨e0, h1, ?_⟩)
            rw [h3]; simp only [psum_cons, pvOf, List.append_assoc, List.singleton_append]
            congr 1; ring
          · refine Or.inr (Or.inr ⟨b, b', bs, h1, ?_, ?_⟩)
            · simp only [psum_cons]; linarith
            · rw [h3]; simp only [psum_cons, pvOf, List.append_assoc, List.singleton_append]
              have : sum + e.2 + psum as + b.2 = sum + (e.2 + psum as) + b.2 := by ring
              rw [this]

/-! ### `pvalues` look-ups -/

theorem pvGet_cons (k : Int) (v : Rat) (l : List (Int × Rat)) (k' : Int) :
    pvGet ((k, v) :: l) k' = if k = k' then some v else pvGet l k' := by
  by_cases h : k = k'
  · simp [pvGet, List.find?_cons, h]
  · simp [pvGet, List.find?_cons, h]

theorem pvGet_nil (k : Int) : pvGet ([] : List (Int × Rat)) k = none := rfl

theorem mem_pvOf {sum : Rat} {as : List (Int × Rat)} {e : Int × Rat} (he : e ∈ pvOf sum as) :
    ∃ x ∈ as, x.1 = e.1 := by
  induction as generalizing sum with
  | nil => simp [pvOf] at he
  | cons y t ih =>
    simp only [pvOf, List.mem_append, List.mem_singleton] at he
    rcases he with he | he
    · obtain ⟨x, hx, h⟩ := ih he
      exact ⟨x, List.mem_cons_of_mem _ hx, h⟩
    · exact ⟨y, List.mem_cons_self, by rw [he]⟩

theorem pvGet_none {l : List (Int × Rat)} {k : Int} (h : ∀ e ∈ l, e.1 ≠ k) : pvGet l k = none := by
  induction l with
  | nil => rfl
  | cons e t ih =>
    obtain ⟨k0, v0⟩ := e
    rw [pvGet_cons]
    have : k0 ≠ k := h (k0, v0) List.mem_cons_self
    simp only [this, if_false]
    exact ih fun e he => h e (List.mem_cons_of_mem _ he)

/-- a threshold `k` splits a key-descending list into the entries at or above it and the rest -/
theorem wsum_split {l₁ l₂ : List (Int × Rat)} {k : Int} (h1 : ∀ x ∈ l₁, k ≤ x.1)
    (h2 : ∀ y ∈ l₂, y.1 < k) :
    wsum (l₁ ++ l₂) (fun j => if k ≤ j then 1 else 0) = psum l₁ := by
  rw [wsum_append]
  have e1 : wsum l₁ (fun j => if k ≤ j then 1 else 0) = wsum l₁ (fun _ => 1) :=
    wsum_congr fun e he => by simp [h1 e he]
  have e2 : wsum l₂ (fun j => if k ≤ j then 1 else 0) = wsum l₂ (fun _ => 0) :=
    wsum_congr fun e he => by
      have : ¬ k ≤ e.1 := by have := h2 e he; omega
      simp [this]
  rw [e1, e2]
  simp [wsum, psum]

theorem tailFrom_reverse (Q : List (Int × Rat)) (k : Int) :
    tailFrom Q k = wsum Q.reverse (fun j => if k ≤ j then 1 else 0) := by
  rw [tailFrom_eq]
  exact (wsum_perm (List.reverse_perm Q) _).symm

/-! ### what `lookup_score` returns, in terms of the tails stored in the map -/

theorem lookupScoreQ_spec {Q : List (Int × Rat)} (hsort : Q.Pairwise (fun a b => a.1 < b.1))
    (hne : Q ≠ []) {p E : Rat} (hp : 0 < p)
    (hU : ∀ top, Q.getLast? = some top → top.2 ≤ p) :
    ∃ alpha a b, lookupScoreQ E Q p = some (alpha, a, b) ∧ (∃ e ∈ Q, e.1 = alpha) ∧
      ((∃ ae, (∃ e ∈ Q, e.1 = ae) ∧ ae < alpha ∧ (∀ e ∈ Q, e.1 ≤ ae ∨ alpha ≤ e.1) ∧
          tailFrom Q alpha < p ∧ p < tailFrom Q ae ∧ (a ≠ b → ((alpha - ae : Int) : Rat) ≤ E)) ∨
        (tailFrom Q alpha = p ∧ a = b) ∨
        ((∀ e ∈ Q, alpha ≤ e.1) ∧ wsum Q (fun k => if alpha < k then 1 else 0) < p ∧ a = b)) := by
  have hd : Q.reverse.Pairwise (fun a b => b.1 < a.1) := List.pairwise_reverse.2 hsort
  have hmem : ∀ e, e ∈ Q ↔ e ∈ Q.reverse := fun e => List.mem_reverse.symm
  obtain ⟨as, rest, hdeq, hlt, hcase⟩ := scanDown_spec p Q.reverse 0 []
  rw [hdeq] at hd
  obtain ⟨hd1, hd2, hd3⟩ := List.pairwise_append.1 hd
  rcases hcase with ⟨h1, h2, _⟩ | ⟨e0, h1, h3⟩ | ⟨b, b', bs, h1, h2, h3⟩
  · -- empty key list: impossible
    rw [h1, h2] at hdeq
    simp at hdeq
    exact absurd hdeq hne
  · -- the scan ran out of keys
    subst h1
    have hsx : ¬ p < 0 + psum as := by
      rcases List.eq_nil_or_concat as with h | ⟨as', a, h⟩
      · subst h; simp; exact le_of_lt hp
      · have := hlt as' a [] (by simpa using h)
        rw [h]; simp only [List.concat_eq_append, psum_append, psum_cons, psum_nil] at *
        linarith
    refine ⟨e0.1, 0 + psum as, 0 + psum as, ?_, ⟨e0, (hmem e0).2 (by rw [hdeq]; simp), rfl⟩, ?_⟩
    · unfold lookupScoreQ
      simp only [zero_rat]
      rw [h3]
      simp only [lt_rat, decide_eq_true_eq, hsx, if_false, pvGet_cons, if_true]
      split <;> rfl
    · refine Or.inr (Or.inr ⟨?_, ?_, rfl⟩)
      · intro e he
        rw [hmem, hdeq, List.mem_append, List.mem_singleton] at he
        rcases he with he | he
        · exact le_of_lt (hd3 e he e0 (by simp))
        · rw [he]
      · rw [← wsum_perm (List.reverse_perm Q), hdeq]
        have : wsum (as ++ [e0]) (fun k => if e0.1 < k then 1 else 0) =
            wsum (as ++ [e0]) (fun k => if e0.1 + 1 ≤ k then 1 else 0) := by
          apply wsum_congr; intro e _; simp [Int.add_one_le_iff]
        rw [this, wsum_split (k := e0.1 + 1)]
        · simpa using lt_of_not_ge (fun h => hsx (by
            rcases lt_or_eq_of_le h with h | h
            · simpa using h
            · exfalso
              rcases List.eq_nil_or_concat as with h' | ⟨as', a, h'⟩
              · subst h'; simp at h; linarith
              · have := hlt as' a [] (by simpa using h')
                rw [h'] at h
                simp only [List.concat_eq_append, psum_append, psum_cons, psum_nil] at h this
                linarith))
        · intro x hx; have := hd3 x hx e0 (by simp); omega
        · intro y hy; simp only [List.mem_singleton] at hy; rw [hy]; omega
  · -- the scan stopped at `b`
    subst h1
    have hbQ : b ∈ Q := (hmem b).2 (by rw [hdeq]; simp)
    have hb'lt : b'.1 < b.1 := by
      rw [List.pairwise_cons] at hd2
      exact hd2.1 b' (by simp)
    have hrest_le : ∀ e ∈ b :: b' :: bs, e.1 ≤ b.1 := by
      intro e he
      rcases List.mem_cons.1 he with he | he
      · rw [he]
      · rw [List.pairwise_cons] at hd2
        exact le_of_lt (hd2.1 e he)
    have htb : tailFrom Q b.1 = 0 + psum as + b.2 := by
      rw [tailFrom_reverse, hdeq]
      have : as ++ b :: b' :: bs = (as ++ [b]) ++ (b' :: bs) := by simp
      rw [this, wsum_split (k := b.1)]
      · simp [psum_append]
      · intro x hx
        rw [List.mem_append, List.mem_singleton] at hx
        rcases hx with hx | hx
        · exact le_of_lt (hd3 x hx b (by simp))
        · rw [hx]
      · intro y hy
        rw [List.pairwise_cons] at hd2
        exact hd2.1 y hy
    by_cases hgt : p < 0 + psum as + b.2
    · -- sum > pvalue
      rcases List.eq_nil_or_concat as with has | ⟨as', a, has⟩
      · -- the bucket alone exceeds p: excluded by the soundness of the window
        exfalso
        subst has
        have htop : Q.getLast? = some b := by
          rw [← List.head?_reverse, hdeq]; rfl
        have := hU b htop
        simp at hgt; linarith
      · have has' : as = as' ++ [a] := by simpa using has
        have haQ : a ∈ Q := (hmem a).2 (by rw [hdeq, has']; simp)
        have hab : b.1 < a.1 := hd3 a (by rw [has']; simp) b (by simp)
        have hxa : 0 + psum as' + a.2 < p := hlt as' a [] (by simpa using has)
        have hta : tailFrom Q a.1 = 0 + psum as' + a.2 := by
          rw [tailFrom_reverse, hdeq, wsum_split (k := a.1)]
          · rw [has']; simp [psum_append]
          · intro x hx
            rw [has', List.mem_append, List.mem_singleton] at hx
            rcases hx with hx | hx
            · rw [has'] at hd1
              obtain ⟨_, _, hd13⟩ := List.pairwise_append.1 hd1
              exact le_of_lt (hd13 x hx a (by simp))
            · rw [hx]
          · intro y hy
            have := hrest_le y hy
            omega
        have hne_ab : ¬ b.1 = a.1 := by omega
        have hpv : (b.1, 0 + psum as + b.2) :: (pvOf 0 as ++ []) =
            (b.1, 0 + psum as + b.2) :: (a.1, 0 + psum as' + a.2) :: pvOf 0 as' := by
          rw [List.append_nil, has', pvOf_append_singleton]
        refine ⟨a.1, if E < ((a.1 - b.1 : Int) : Rat) then 0 + psum as' + a.2 else 0 + psum as + b.2,
          0 + psum as' + a.2, ?_, ⟨a, haQ, rfl⟩, Or.inl ⟨b.1, ⟨b, hbQ, rfl⟩, hab, ?_, ?_, ?_, ?_⟩⟩
        · unfold lookupScoreQ
          simp only [zero_rat]
          rw [h3, hpv]
          simp only [lt_rat, decide_eq_true_eq, hgt, if_true, List.head?_cons,
            Option.map_some, ofInt_rat, pvGet_cons, hne_ab, if_false]
          split <;> simp_all
        · intro e he
          rw [hmem, hdeq, List.mem_append] at he
          rcases he with he | he
          · right
            rw [has', List.mem_append, List.mem_singleton] at he
            rcases he with he | he
            · rw [has'] at hd1
              obtain ⟨_, _, hd13⟩ := List.pairwise_append.1 hd1
              exact le_of_lt (hd13 e he a (by simp))
            · rw [he]
          · left; exact hrest_le e he
        · rw [hta]; exact hxa
        · rw [htb]; exact hgt
        · intro hne_ab'
          by_cases hE : E < ((a.1 - b.1 : Int) : Rat)
          · rw [if_pos hE] at hne_ab'; exact absurd rfl hne_ab'
          · exact not_lt.1 hE
    · -- sum == pvalue
      have heq : 0 + psum as + b.2 = p := le_antisymm (not_lt.1 hgt) h2
      have hne_b : ¬ b'.1 = b.1 := by omega
      have hnone : pvGet ((b.1, 0 + psum as + b.2) :: (pvOf 0 as ++ [])) b'.1 = none := by
        apply pvGet_none
        intro e he
        rw [List.append_nil] at he
        rcases List.mem_cons.1 he with he | he
        · rw [he]; simp; omega
        · obtain ⟨x, hx, hxe⟩ := mem_pvOf he
          have := hd3 x hx b' (by simp)
          omega
      refine ⟨b.1, if E < ((b.1 - b'.1 : Int) : Rat) then 0 + psum as + b.2 else 0 + psum as + b.2 + 0,
        0 + psum as + b.2, ?_, ⟨b, hbQ, rfl⟩, Or.inr (Or.inl ⟨?_, ?_⟩)⟩
      · unfold lookupScoreQ
        simp only [zero_rat]
        rw [h3]
        simp only [lt_rat, decide_eq_true_eq, hgt, if_false, hnone, Option.getD_none,
          add_rat, ofInt_rat, pvGet_cons, hne_b, if_true]
        split <;> simp_all
      · rw [htb]; exact heq
      · split <;> simp

/-! ### one call of `lookup_score`, in terms of the exact distribution of the integer score -/

/-- a window `[mn, mx]` is sound for `p`: the bucket above it weighs at most `p`, and below it
    there is either enough mass to reach `p` or no mass at all -/
structure Sound (bg : List Rat) (im : List (List Int)) (p : Rat) (mn mx : Int) : Prop where
  le : mn ≤ mx + 1
  upper : tailD bg im (mx + 1) ≤ p
  lower : p ≤ tailD bg im mn ∨ ∀ k, k ≤ mn → tailD bg im k = tailD bg im mn

theorem lookupScore_D {bg : List Rat} (hbg : ∀ b ∈ bg, 0 ≤ b) {im : List (List Int)}
    (him : NonnegRows im) (hlen : 2 ≤ im.length) {p : Rat} (hp : 0 < p) (E : Rat) {mn mx : Int}
    (hs : Sound bg im p mn mx) :
    ∃ alpha a b, lookupScoreQ E (distribution im bg mn mx) p = some (alpha, a, b) ∧
      tailD bg im (alpha + 1) ≤ p ∧
      (∀ lo hi, lo ≤ hi → hi ≤ alpha → tailD bg im hi < tailD bg im lo → p ≤ tailD bg im lo) ∧
      (a ≠ b → tailD bg im alpha ≤ p ∧
        ∃ ae, ((alpha - ae : Int) : Rat) ≤ E ∧ p ≤ tailD bg im ae) := by
  have hne : im ≠ [] := by intro h; simp [h] at hlen
  set Q := distribution im bg mn mx with hQ
  have hQall := distribution_forall hbg him hs.le
  have hQle := distribution_keys_le bg hlen mn mx
  have hsort := distribution_sorted bg im mn mx
  have hQne := distribution_ne_nil bg hne mn mx
  rw [← hQ] at hQall hQle hsort hQne
  have hT : ∀ k, mn ≤ k → k ≤ mx + 1 → tailFrom Q k = tailD bg im k :=
    fun k h1 h2 => tailFrom_distribution bg him hne h1 h2
  have hanti : ∀ {j k : Int}, j ≤ k → tailD bg im k ≤ tailD bg im j :=
    fun h => tailD_antitone hbg im h
  -- the top entry is the bucket
  have hU : ∀ top, Q.getLast? = some top → top.2 ≤ p := by
    intro top htop
    have htopQ : top ∈ Q := List.mem_of_getLast? htop
    obtain ⟨eb, hebQ, hebk⟩ := distribution_bucket_key bg hne mn mx
    rw [← hQ] at hebQ
    have hkey : top.1 = mx + 1 := by
      have h1 := hQle top htopQ
      have h2 : eb.1 ≤ top.1 := by
        obtain ⟨l, hl⟩ := List.getLast?_eq_some_iff.1 htop
        rw [hl] at hsort hebQ
        rw [List.mem_append, List.mem_singleton] at hebQ
        rcases hebQ with h | h
        · exact le_of_lt ((List.pairwise_append.1 hsort).2.2 eb h top (by simp))
        · rw [h]
      omega
    have h3 : tailFrom Q top.1 = top.2 := by
      obtain ⟨l, hl⟩ := List.getLast?_eq_some_iff.1 htop
      rw [tailFrom_eq, hl, wsum_append]
      rw [hl] at hsort
      have : wsum l (fun j => if top.1 ≤ j then 1 else 0) = wsum l (fun _ => 0) := by
        apply wsum_congr
        intro e he
        have := (List.pairwise_append.1 hsort).2.2 e he top (by simp)
        have : ¬ top.1 ≤ e.1 := by omega
        simp [this]
      rw [this]; simp [wsum]
    rw [← h3, hT _ (hQall top htopQ).1 (hQle top htopQ), hkey]
    exact hs.upper
  obtain ⟨alpha, a, b, hres, ⟨ea, heaQ, heak⟩, hcase⟩ := lookupScoreQ_spec (E := E) hsort hQne hp hU
  have ha1 : mn ≤ alpha := by rw [← heak]; exact (hQall ea heaQ).1
  have ha2 : alpha ≤ mx + 1 := by rw [← heak]; exact hQle ea heaQ
  refine ⟨alpha, a, b, hres, ?_⟩
  rcases hcase with ⟨ae, ⟨ee, heeQ, heek⟩, hlt, hgap, h1, h2, h3⟩ | ⟨h1, h2⟩ | ⟨h1, h2, h3⟩
  · -- p strictly between two consecutive tails
    have he1 : mn ≤ ae := by rw [← heek]; exact (hQall ee heeQ).1
    rw [hT alpha ha1 ha2] at h1
    rw [hT ae he1 (by omega)] at h2
    refine ⟨le_trans (hanti (by omega)) (le_of_lt h1), ?_, ?_⟩
    · intro lo hi hle hhi hstrict
      by_cases hlo : lo ≤ ae
      · exact le_trans (le_of_lt h2) (hanti hlo)
      · exfalso
        have : tailFrom Q lo = tailFrom Q hi := by
          apply tailFrom_eq_of_no_key _ hle
          intro e he
          rcases hgap e he with h | h
          · left; omega
          · right; omega
        rw [hT lo (by omega) (by omega), hT hi (by omega) (by omega)] at this
        rw [this] at hstrict
        exact lt_irrefl _ hstrict
    · intro hab
      exact ⟨le_of_lt h1, ae, h3 hab, le_of_lt h2⟩
  · -- a tail equals p
    rw [hT alpha ha1 ha2] at h1
    refine ⟨le_trans (hanti (by omega)) (le_of_eq h1), ?_, fun hab => absurd h2 hab⟩
    intro lo hi _ hhi _
    rw [← h1]; exact hanti (by omega)
  · -- the scan ran out of keys: alpha is the lowest key
    refine ⟨?_, ?_, fun hab => absurd h3 hab⟩
    · by_cases hamx : alpha ≤ mx
      · have : tailFrom Q (alpha + 1) = wsum Q (fun k => if alpha < k then 1 else 0) := by
          rw [tailFrom_eq]; apply wsum_congr; intro e _; simp [Int.add_one_le_iff]
        rw [← hT (alpha + 1) (by omega) (by omega), this]
        exact le_of_lt h2
      · have : alpha = mx + 1 := by omega
        exact le_trans (hanti (by omega)) hs.upper
    · intro lo hi hle hhi hstrict
      -- all the mass of the window sits at or above alpha
      have hflat : ∀ j, mn ≤ j → j ≤ alpha → tailD bg im j = tailD bg im alpha := by
        intro j hj1 hj2
        rw [← hT j hj1 (by omega), ← hT alpha ha1 ha2]
        apply tailFrom_eq_of_no_key _ hj2
        intro e he; right; exact h1 e he
      rcases hs.lower with hl | hl
      · by_cases hlo : lo ≤ mn
        · exact le_trans hl (hanti hlo)
        · exfalso
          rw [hflat lo (by omega) (by omega), hflat hi (by omega) hhi] at hstrict
          exact lt_irrefl _ hstrict
      · exfalso
        have hall : ∀ j, j ≤ alpha → tailD bg im j = tailD bg im alpha := by
          intro j hj
          by_cases hjm : mn ≤ j
          · exact hflat j hjm hj
          · rw [hl j (by omega)]; exact hflat mn (le_refl _) ha1
        rw [hall lo (by omega), hall hi hhi] at hstrict
        exact lt_irrefl _ hstrict

/-! ### one refinement step, in terms of the exact score `S` -/

/-- `P(S = u)` -/
def pointMass (bg : List Rat) (rows : List (List Rat)) (u : Rat) : Rat :=
  expect bg rows (fun s => if s = u then 1 else 0)

theorem im_length (g : Rat) (rows : List (List Rat)) : (recompute rows g).im.length = rows.length := by
  simp [recompute]

theorem mul_div_self {g : Rat} (hg : 0 < g) (S : Rat) : S / g * g = S := by
  field_simp

theorem ite_le_ite {A B : Prop} [Decidable A] [Decidable B] (h : A → B) :
    (if A then (1 : Rat) else 0) ≤ if B then 1 else 0 := by
  by_cases a : A
  · simp [a, h a]
  · by_cases b : B <;> simp [a, b]

/-- **C13, one step.**  For a sound window, `lookup_score` does not panic and the threshold
    `t = (alpha - Σoffsets)·g` it yields satisfies, with `d = (M+2)g`:  `P(S ≥ t+d) ≤ p`, and
    `P(S ≥ u-d) ≥ p` for every attainable score `u < t-d`.  If the step has not converged the
    integer tails bracket `p` within `error_max` (used to show the next window sound). -/
theorem lookupScore_step {bg : List Rat} (hbg : ∀ b ∈ bg, 0 ≤ b) (rows : List (List Rat))
    (hlen : 2 ≤ rows.length) {g : Rat} (hg : 0 < g) {p : Rat} (hp : 0 < p) {mn mx : Int}
    (hs : Sound bg (recompute rows g).im p mn mx) :
    ∃ alpha a b, lookupScore (recompute rows g) bg p mn mx = some (alpha, a, b) ∧
      tail bg rows (((alpha - (recompute rows g).offsets.sum : Int) : Rat) * g
        + (rows.length + 2) * g) ≤ p ∧
      (∀ u, 0 < pointMass bg rows u →
        u < ((alpha - (recompute rows g).offsets.sum : Int) : Rat) * g - (rows.length + 2) * g →
        p ≤ tail bg rows (u - (rows.length + 2) * g)) ∧
      (a ≠ b → tailD bg (recompute rows g).im alpha ≤ p ∧
        ∃ ae, ((alpha - ae : Int) : Rat) ≤ errorMax g rows ∧ p ≤ tailD bg (recompute rows g).im ae) := by
  set rc := recompute rows g with hrc
  have him : NonnegRows rc.im := nonneg_im g rows
  have hlen' : 2 ≤ rc.im.length := by rw [hrc, im_length]; exact hlen
  obtain ⟨hE0, hE1⟩ := errorMax_bounds g rows
  set E := errorMax g rows with hE
  set O := rc.offsets.sum with hO
  have hM : ((rows.length - 1 : Nat) : Rat) = (rows.length : Rat) - 1 := by
    rw [Nat.cast_sub (by omega)]; simp
  rw [hM] at hE1
  obtain ⟨alpha, a, b, hres, hU, hL, hC⟩ := lookupScore_D hbg him hlen' hp E hs
  refine ⟨alpha, a, b, hres, ?_, ?_, hC⟩
  · -- upper bracket
    refine le_trans ?_ hU
    rw [tail, ← expect_pair_fst bg g rows, tailD, ← expect_pair_snd bg g rows]
    apply expect_mono_reach hbg
    rintro ⟨S, D⟩ hreach
    obtain ⟨_, r2⟩ : ((D : Rat) ≤ S / g + (O : Rat)) ∧ S / g + (O : Rat) < (D : Rat) + E + 1 :=
      rounding g rows hreach
    apply ite_le_ite
    intro hS
    have h1 : ((alpha - O : Int) : Rat) + (rows.length + 2) ≤ S / g := by
      rw [le_div_iff₀ hg]; linarith
    have h2 : ((alpha + 1 : Int) : Rat) < ((D + 1 : Int) : Rat) := by
      push_cast at h1 ⊢; linarith
    have : alpha + 1 < D + 1 := by exact_mod_cast h2
    show alpha + 1 ≤ D
    omega
  · -- lower bracket
    intro u hu hut
    set Xu : Rat := u / g + (O : Rat) with hXu
    set lo : Int := ⌊Xu - E - 1⌋ + 1 with hlo
    set hi : Int := ⌊Xu⌋ + 1 with hhi
    have hlohi : lo ≤ hi := by
      have : ⌊Xu - E - 1⌋ ≤ ⌊Xu⌋ := Int.floor_le_floor (by linarith)
      omega
    -- P(S = u) + P(D ≥ hi) ≤ P(D ≥ lo)
    have hsum : pointMass bg rows u + tailD bg rc.im hi ≤ tailD bg rc.im lo := by
      rw [pointMass, ← expect_pair_fst bg g rows, tailD, ← expect_pair_snd bg g rows, ← expect_add,
        tailD, ← expect_pair_snd bg g rows]
      apply expect_mono_reach hbg
      rintro ⟨S, D⟩ hreach
      obtain ⟨r1, r2⟩ : ((D : Rat) ≤ S / g + (O : Rat)) ∧ S / g + (O : Rat) < (D : Rat) + E + 1 :=
        rounding g rows hreach
      show ((if S = u then (1 : Rat) else 0) + if hi ≤ D then 1 else 0) ≤ if lo ≤ D then 1 else 0
      by_cases hSu : S = u
      · subst hSu
        have h1 : D ≤ ⌊Xu⌋ := Int.le_floor.2 r1
        have h2 : ⌊Xu - E - 1⌋ < D := Int.floor_lt.2 (by linarith)
        have h3 : ¬ hi ≤ D := by omega
        have h4 : lo ≤ D := by omega
        simp [h3, h4]
      · by_cases h3 : hi ≤ D
        · have h4 : lo ≤ D := by omega
          simp [hSu, h3, h4]
        · by_cases h4 : lo ≤ D <;> simp [hSu, h3, h4]
    have hstrict : tailD bg rc.im hi < tailD bg rc.im lo := by linarith
    have hhia : hi ≤ alpha := by
      have h1 : u / g < ((alpha - O : Int) : Rat) - (rows.length + 2) := by
        rw [div_lt_iff₀ hg]; linarith
      have h2 : Xu < (alpha : Rat) - 2 := by
        rw [hXu]; push_cast at h1
        have : (0 : Rat) ≤ rows.length := Nat.cast_nonneg _
        linarith
      have h3 : ((⌊Xu⌋ : Int) : Rat) < ((alpha - 2 : Int) : Rat) := by
        push_cast; exact lt_of_le_of_lt (Int.floor_le Xu) h2
      have : ⌊Xu⌋ < alpha - 2 := by exact_mod_cast h3
      omega
    refine le_trans (hL lo hi hlohi hhia hstrict) ?_
    rw [tail, ← expect_pair_fst bg g rows, tailD, ← expect_pair_snd bg g rows]
    apply expect_mono_reach hbg
    rintro ⟨S, D⟩ hreach
    obtain ⟨r1, _⟩ : ((D : Rat) ≤ S / g + (O : Rat)) ∧ S / g + (O : Rat) < (D : Rat) + E + 1 :=
      rounding g rows hreach
    apply ite_le_ite
    intro hD
    have hD' : lo ≤ D := hD
    have h1 : Xu - E - 1 < (lo : Rat) := by
      rw [hlo]; push_cast; exact Int.lt_floor_add_one _
    have h2 : ((lo : Int) : Rat) ≤ (D : Rat) := by exact_mod_cast hD'
    have h3 : u / g - (rows.length + 2) ≤ S / g := by
      rw [hXu] at h1; linarith
    have := mul_le_mul_of_nonneg_right h3 (le_of_lt hg)
    rw [mul_div_self hg, sub_mul, mul_div_self hg] at this
    exact this

/-! ### the window handed to the next refinement is sound -/

@[simp] theorem ceil_rat (a : Rat) : Num.ceil a = Rat.ceil a := rfl

theorem nextWindow_eq (rc : Rec Rat) (alpha : Int) :
    nextWindow rc alpha =
      (10 * (alpha - rc.offsets.sum - halfWidth rc), 10 * (alpha - rc.offsets.sum + halfWidth rc)) := by
  have h1 : (((alpha - rc.offsets.sum : Int) : Rat) - ((halfWidth rc : Int) : Rat)) * 10 =
      ((10 * (alpha - rc.offsets.sum - halfWidth rc) : Int) : Rat) := by push_cast; ring
  have h2 : (((alpha - rc.offsets.sum : Int) : Rat) + ((halfWidth rc : Int) : Rat)) * 10 =
      ((10 * (alpha - rc.offsets.sum + halfWidth rc) : Int) : Rat) := by push_cast; ring
  simp only [nextWindow, ofInt_rat, sub_rat, add_rat, mul_rat, ten_rat, floor_rat]
  rw [h1, h2, Int.floor_intCast, Int.floor_intCast]

theorem halfWidth_ge (g : Rat) (rows : List (List Rat)) :
    errorMax g rows + 1 / 2 ≤ ((halfWidth (recompute rows g) : Int) : Rat) := by
  simp only [halfWidth, ceil_rat, add_rat, half_rat]
  exact Rat.le_ceil

/-- **window lemma.**  If a step at granularity `g` has not converged — `P(D ≥ α) ≤ p` and some
    `α_e ≥ α - E` has `P(D ≥ α_e) ≥ p` — then the window `ScoresIterator` hands to the next step,
    moved to the integer scores of granularity `g/10` and extended by that step's rounding slack,
    is sound for `p`. -/
theorem sound_next {bg : List Rat} (hbg : ∀ b ∈ bg, 0 ≤ b) (rows : List (List Rat)) {g : Rat}
    (hg : 0 < g) {p : Rat} {alpha ae : Int}
    (h1 : tailD bg (recompute rows g).im alpha ≤ p)
    (h2 : ((alpha - ae : Int) : Rat) ≤ errorMax g rows)
    (h3 : p ≤ tailD bg (recompute rows g).im ae) :
    Sound bg (recompute rows (g / 10)).im p
      ((nextWindow (recompute rows g) alpha).1 + (recompute rows (g / 10)).offsets.sum
        - Rat.ceil (errorMax (g / 10) rows + 1))
      ((nextWindow (recompute rows g) alpha).2 + (recompute rows (g / 10)).offsets.sum) := by
  have hg' : 0 < g / 10 := by positivity
  rw [nextWindow_eq]
  simp only
  set O := (recompute rows g).offsets.sum with hO
  set O' := (recompute rows (g / 10)).offsets.sum with hO'
  set c := halfWidth (recompute rows g) with hc
  set E := errorMax g rows with hE
  set E' := errorMax (g / 10) rows with hE'
  set sl := Rat.ceil (E' + 1) with hsl
  have hcE : E + 1 / 2 ≤ (c : Rat) := halfWidth_ge g rows
  obtain ⟨hE0, _⟩ := errorMax_bounds g rows
  obtain ⟨hE0', _⟩ := errorMax_bounds (g / 10) rows
  rw [← hE] at hE0
  rw [← hE'] at hE0'
  have hslE : E' + 1 ≤ (sl : Rat) := Rat.le_ceil
  have hc0 : 0 < c := by
    have : (0 : Rat) < (c : Rat) := by linarith
    exact_mod_cast this
  have hsl0 : 0 < sl := by
    have : (0 : Rat) < (sl : Rat) := by linarith
    exact_mod_cast this
  have hdiv : ∀ S : Rat, S / (g / 10) = 10 * (S / g) := by
    intro S; field_simp
  refine ⟨by omega, ?_, Or.inl ?_⟩
  · -- P(D' > max') ≤ P(S ≥ x) ≤ P(D ≥ alpha) ≤ p
    refine le_trans ?_ h1
    set x : Rat := ((10 * (alpha - O + c) + 1 : Int) : Rat) * (g / 10) with hx
    have s1 : tailD bg (recompute rows (g / 10)).im (10 * (alpha - O + c) + O' + 1) ≤ tail bg rows x := by
      rw [tail, ← expect_pair_fst bg (g / 10) rows, tailD, ← expect_pair_snd bg (g / 10) rows]
      apply expect_mono_reach hbg
      rintro ⟨S, D'⟩ hreach
      obtain ⟨r1, _⟩ : ((D' : Rat) ≤ S / (g / 10) + (O' : Rat)) ∧
          S / (g / 10) + (O' : Rat) < (D' : Rat) + E' + 1 := rounding (g / 10) rows hreach
      apply ite_le_ite
      intro hD
      have hD' : 10 * (alpha - O + c) + O' + 1 ≤ D' := hD
      have hD'' : ((10 * (alpha - O + c) + O' + 1 : Int) : Rat) ≤ (D' : Rat) := by exact_mod_cast hD'
      show x ≤ S
      have : ((10 * (alpha - O + c) + 1 : Int) : Rat) ≤ S / (g / 10) := by
        push_cast at hD'' ⊢; linarith
      have := mul_le_mul_of_nonneg_right this (le_of_lt hg')
      rwa [mul_div_self hg'] at this
    have s2 : tail bg rows x ≤ tailD bg (recompute rows g).im alpha := by
      rw [tail, ← expect_pair_fst bg g rows, tailD, ← expect_pair_snd bg g rows]
      apply expect_mono_reach hbg
      rintro ⟨S, D⟩ hreach
      obtain ⟨_, r2⟩ : ((D : Rat) ≤ S / g + (O : Rat)) ∧ S / g + (O : Rat) < (D : Rat) + E + 1 :=
        rounding g rows hreach
      apply ite_le_ite
      intro hS
      have hS' : x ≤ S := hS
      show alpha ≤ D
      have e1 : x / g = ((10 * (alpha - O + c) + 1 : Int) : Rat) / 10 := by
        rw [hx]; field_simp
      have e2 : x / g ≤ S / g := div_le_div_of_nonneg_right hS' (le_of_lt hg)
      have e3 : ((alpha : Int) : Rat) - 1 < (D : Rat) := by
        rw [e1] at e2; push_cast at e2; linarith
      have : alpha - 1 < D := by exact_mod_cast e3
      omega
    exact le_trans s1 s2
  · -- p ≤ P(D ≥ alpha_e) ≤ P(S ≥ y) ≤ P(D' ≥ min')
    refine le_trans h3 ?_
    set y : Rat := ((ae - O : Int) : Rat) * g with hy
    have s1 : tailD bg (recompute rows g).im ae ≤ tail bg rows y := by
      rw [tail, ← expect_pair_fst bg g rows, tailD, ← expect_pair_snd bg g rows]
      apply expect_mono_reach hbg
      rintro ⟨S, D⟩ hreach
      obtain ⟨r1, _⟩ : ((D : Rat) ≤ S / g + (O : Rat)) ∧ S / g + (O : Rat) < (D : Rat) + E + 1 :=
        rounding g rows hreach
      apply ite_le_ite
      intro hD
      have hD' : ae ≤ D := hD
      have hD'' : ((ae : Int) : Rat) ≤ (D : Rat) := by exact_mod_cast hD'
      show y ≤ S
      have : ((ae - O : Int) : Rat) ≤ S / g := by push_cast; linarith
      have := mul_le_mul_of_nonneg_right this (le_of_lt hg)
      rwa [mul_div_self hg] at this
    have s2 : tail bg rows y ≤
        tailD bg (recompute rows (g / 10)).im (10 * (alpha - O - c) + O' - sl) := by
      rw [tail, ← expect_pair_fst bg (g / 10) rows, tailD, ← expect_pair_snd bg (g / 10) rows]
      apply expect_mono_reach hbg
      rintro ⟨S, D'⟩ hreach
      obtain ⟨_, r2⟩ : ((D' : Rat) ≤ S / (g / 10) + (O' : Rat)) ∧
          S / (g / 10) + (O' : Rat) < (D' : Rat) + E' + 1 := rounding (g / 10) rows hreach
      apply ite_le_ite
      intro hS
      have hS' : y ≤ S := hS
      show 10 * (alpha - O - c) + O' - sl ≤ D'
      have e1 : y / g = ((ae - O : Int) : Rat) := by rw [hy]; field_simp
      have e2 : y / g ≤ S / g := div_le_div_of_nonneg_right hS' (le_of_lt hg)
      rw [hdiv] at r2
      have e3 : ((10 * (alpha - O - c) + O' - sl : Int) : Rat) < (D' : Rat) := by
        rw [e1] at e2; push_cast at e2 h2 ⊢; linarith
      have : 10 * (alpha - O - c) + O' - sl < D' := by exact_mod_cast e3
      omega
    exact le_trans s1 s2

/-! ### the first window is sound -/

theorem listMin_le_listMax (r : List Int) : listMin r ≤ listMax r := by
  cases r with
  | nil => simp [listMin, listMax]
  | cons x t => exact le_trans (listMin_le (List.mem_cons_self)) (le_listMax (List.mem_cons_self))

theorem sumMin_le_sumMax (rows : List (List Int)) : (rows.map listMin).sum ≤ sumMax rows := by
  induction rows with
  | nil => simp [sumMax]
  | cons r rs ih =>
    have := listMin_le_listMax r
    simp only [sumMax, List.map_cons, List.sum_cons] at ih ⊢
    omega

theorem sound_first {bg : List Rat} (rows : List (List Rat)) (g : Rat) {p : Rat} (hp : 0 < p) :
    Sound bg (recompute rows g).im p
      ((firstWindow (recompute rows g)).1 + (recompute rows g).offsets.sum
        - Rat.ceil (errorMax g rows + 1))
      ((firstWindow (recompute rows g)).2 + (recompute rows g).offsets.sum) := by
  set rc := recompute rows g with hrc
  have him : NonnegRows rc.im := nonneg_im g rows
  obtain ⟨hE0, _⟩ := errorMax_bounds g rows
  have hcE := halfWidth_ge g rows
  rw [← hrc] at hcE
  have hc0 : 0 < halfWidth rc := by
    have : (0 : Rat) < ((halfWidth rc : Int) : Rat) := by linarith
    exact_mod_cast this
  have hsl0 : 0 < Rat.ceil (errorMax g rows + 1) := by
    have h : errorMax g rows + 1 ≤ ((Rat.ceil (errorMax g rows + 1) : Int) : Rat) := Rat.le_ceil
    have : (0 : Rat) < ((Rat.ceil (errorMax g rows + 1) : Int) : Rat) := by linarith
    exact_mod_cast this
  have hmin : rc.minRows.sum = (rc.im.map listMin).sum := rfl
  have hmax : rc.maxRows.sum = sumMax rc.im := rfl
  have hmm := sumMin_le_sumMax rc.im
  simp only [firstWindow]
  refine ⟨by omega, ?_, Or.inr ?_⟩
  · have : tailD bg rc.im (rc.maxRows.sum + halfWidth rc - rc.offsets.sum + rc.offsets.sum + 1) = 0 := by
      have h0 : tailD bg rc.im (rc.maxRows.sum + halfWidth rc - rc.offsets.sum + rc.offsets.sum + 1)
          = expect bg rc.im (fun _ => 0) := by
        unfold tailD
        apply expect_congr_reach bg him
        intro s _ hs
        have : ¬ (rc.maxRows.sum + halfWidth rc - rc.offsets.sum + rc.offsets.sum + 1 ≤ s) := by omega
        exact if_neg this
      rw [h0, expect_zero]
    rw [this]; exact le_of_lt hp
  · intro k hk
    unfold tailD
    apply expect_congr_ge_min
    intro s hs
    have a1 : k ≤ s := by omega
    have a2 : rc.minRows.sum - rc.offsets.sum + rc.offsets.sum - Rat.ceil (errorMax g rows + 1) ≤ s := by
      omega
    rw [if_pos a1, if_pos a2]

/-! ### every refinement step -/

/-- what is claimed of one `Iteration` of `approximate_score(p)` for a matrix of width `M` -/
def Good (bg : List Rat) (rows : List (List Rat)) (p : Rat) (it : Iteration Rat) : Prop :=
  tail bg rows (it.score + (rows.length + 2) * it.granularity) ≤ p ∧
    ∀ u, 0 < pointMass bg rows u → u < it.score - (rows.length + 2) * it.granularity →
      p ≤ tail bg rows (u - (rows.length + 2) * it.granularity)

theorem scoreSteps_spec {bg : List Rat} (hbg : ∀ b ∈ bg, 0 ≤ b) (rows : List (List Rat))
    (hlen : 2 ≤ rows.length) {p : Rat} (hp : 0 < p) (fuel : Nat) :
    ∀ (g : Rat) (conv : Bool) (mn mx : Int), 0 < g →
      (conv = false → Sound bg (recompute rows g).im p
        (mn + (recompute rows g).offsets.sum - Rat.ceil (errorMax g rows + 1))
        (mx + (recompute rows g).offsets.sum)) →
      (scoreSteps rows bg p fuel g conv mn mx).2 = false ∧
        ∀ it ∈ (scoreSteps rows bg p fuel g conv mn mx).1,
          (∃ k : Nat, it.granularity = g / 10 ^ k) ∧ Good bg rows p it := by
  induction fuel with
  | zero => intro g conv mn mx _ _; simp [scoreSteps]
  | succ n ih =>
    intro g conv mn mx hg hs
    unfold scoreSteps
    have hg0 : ¬ g ≤ 0 := not_le.2 hg
    cases conv with
    | true => simp
    | false =>
      simp only [Bool.false_or, le_rat, zero_rat, decide_eq_true_eq, hg0, if_false]
      have hs' := hs rfl
      obtain ⟨alpha, a, b, hres, hup, hlow, hC⟩ := lookupScore_step hbg rows hlen hg hp hs'
      have hres' : lookupScore (recompute rows g) bg p
          (mn + (recompute rows g).offsets.sum - Num.ceil (Num.add (recompute rows g).errorMax Num.one))
          (mx + (recompute rows g).offsets.sum) = some (alpha, a, b) := hres
      rw [hres']
      simp only
      have hnext : 0 < g / 10 := by positivity
      have hsound : (Num.beq a b = false → Sound bg (recompute rows (g / 10)).im p
          ((nextWindow (recompute rows g) alpha).1 + (recompute rows (g / 10)).offsets.sum
            - Rat.ceil (errorMax (g / 10) rows + 1))
          ((nextWindow (recompute rows g) alpha).2 + (recompute rows (g / 10)).offsets.sum)) := by
        intro hab
        have hab' : a ≠ b := by simpa using hab
        obtain ⟨c1, ae, c2, c3⟩ := hC hab'
        exact sound_next hbg rows hg c1 c2 c3
      obtain ⟨i1, i2⟩ := ih (g / 10) (Num.beq a b) (nextWindow (recompute rows g) alpha).1
        (nextWindow (recompute rows g) alpha).2 hnext hsound
      have hten : Num.div g (Num.ten : Rat) = g / 10 := rfl
      rw [hten]
      refine ⟨i1, ?_⟩
      intro it hit
      rcases List.mem_cons.1 hit with hit | hit
      · subst hit
        refine ⟨⟨0, by simp⟩, ?_, ?_⟩
        · exact hup
        · exact hlow
      · obtain ⟨⟨k, hk⟩, hgood⟩ := i2 it hit
        refine ⟨⟨k + 1, ?_⟩, hgood⟩
        rw [hk, pow_succ]; field_simp

/-- **C13.**  For every matrix of width `M ≥ 2`, every order of its rows, every non-negative
    background and every `p > 0`: `approximate_score(p)` never panics, and every `Iteration` — taken
    at a granularity `g = 10^-(k+1)`, threshold `t` — satisfies, with `d = (M+2)g`:
    `P(S ≥ t+d) ≤ p`, and `P(S ≥ u-d) ≥ p` for every attainable score `u < t-d` (in particular the
    largest one); `S` is the exact score of a background-distributed word under the ORIGINAL row
    order. -/
theorem c13 {bg : List Rat} (hbg : ∀ b ∈ bg, 0 ≤ b) (rows : List (List Rat)) (hlen : 2 ≤ rows.length)
    {perm : List Nat} (hperm : perm.Perm (List.range rows.length)) {p : Rat} (hp : 0 < p)
    (fuel : Nat) :
    (approximateScore (permute rows perm) bg p fuel).2 = false ∧
      ∀ it ∈ (approximateScore (permute rows perm) bg p fuel).1,
        (∃ k : Nat, it.granularity = (1 / 10) ^ (k + 1)) ∧ Good bg rows p it := by
  set prow := permute rows perm with hprow
  have hpp : prow.Perm rows := permute_perm rows hperm
  have hlen' : 2 ≤ prow.length := by rw [hpp.length_eq]; exact hlen
  have hfirst := sound_first (bg := bg) prow (1 / 10) hp
  obtain ⟨h1, h2⟩ := scoreSteps_spec hbg prow hlen' hp fuel (1 / 10) false
    (firstWindow (recompute prow (1 / 10))).1 (firstWindow (recompute prow (1 / 10))).2
    (by norm_num) (fun _ => hfirst)
  have happ : approximateScore prow bg p fuel = scoreSteps prow bg p fuel (1 / 10) false
      (firstWindow (recompute prow (1 / 10))).1 (firstWindow (recompute prow (1 / 10))).2 := rfl
  rw [happ]
  refine ⟨h1, ?_⟩
  intro it hit
  obtain ⟨⟨k, hk⟩, hg1, hg2⟩ := h2 it hit
  refine ⟨⟨k, ?_⟩, ?_, ?_⟩
  · rw [hk, pow_succ, one_div, inv_pow]; field_simp
  · rw [hpp.length_eq] at hg1
    rw [← tail_permute bg rows hperm]; exact hg1
  · intro u hu hut
    rw [hpp.length_eq] at hg2
    rw [← tail_permute bg rows hperm]
    apply hg2 u
    · rw [pointMass, expect_perm bg hpp]; exact hu
    · exact hut

/-- the hypotheses of `c13` are satisfiable and the iterator does produce iterations: a concrete
    run (2×2 matrix, uniform background) yields a first iteration without panicking -/
example : ∃ it, it ∈ (approximateScore (permute [[(1 : Rat), -1], [0, 2]] [1, 0]) [1 / 2, 1 / 2] (1 / 3) 1).1 := by
  have h := (c13 (bg := [1 / 2, 1 / 2]) (by intro b hb; simp at hb; rcases hb with rfl | rfl <;> norm_num)
    [[(1 : Rat), -1], [0, 2]] (by simp) (perm := [1, 0]) (by decide) (p := 1 / 3) (by norm_num) 1).1
  revert h
  simp only [approximateScore, scoreSteps]
  split
  · rename_i h; norm_num at h
  · split
    · intro h; simp at h
    · intro _; exact ⟨_, List.mem_cons_self⟩

/-- the property as stated in properties.jsonl, for the model: `p ∈ (0,1)`, width `M ≥ 2`, any
    non-negative background, any order of the rows, every refinement step; "attainable" = a score
    of positive probability -/
def Statement : Prop :=
  ∀ (bg : List Rat) (rows : List (List Rat)) (perm : List Nat) (p : Rat) (fuel : Nat),
    (∀ b ∈ bg, 0 ≤ b) → 2 ≤ rows.length → perm.Perm (List.range rows.length) → 0 < p → p < 1 →
    (approximateScore (permute rows perm) bg p fuel).2 = false ∧
    ∀ it ∈ (approximateScore (permute rows perm) bg p fuel).1,
      tail bg rows (it.score + (rows.length + 2) * it.granularity) ≤ p ∧
        ∀ u, 0 < pointMass bg rows u → u < it.score - (rows.length + 2) * it.granularity →
          p ≤ tail bg rows (u - (rows.length + 2) * it.granularity)

theorem c13_statement : Statement := by
  intro bg rows perm p fuel hbg hlen hperm hp _
  obtain ⟨h1, h2⟩ := c13 hbg rows hlen hperm hp fuel
  exact ⟨h1, fun it hit => (h2 it hit).2⟩

end C13
end LMV
