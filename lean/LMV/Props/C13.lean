/-
  C13 — TFM-PVALUE score thresholds are consistent with the exact score distribution.
  (theorems under construction)
-/
import LMV.Model.Tfm

namespace LMV
namespace C13
open Tfm

theorem ten_rat : (Num.ten : Rat) = 10 := rfl

end C13
end LMV
