/-
  C14 — Well-formed motif files load completely and exactly under any stream chunking.
-/
import LMV.Lemmas.Stream
import LMV.Lemmas.JasparRT
import LMV.Lemmas.Jaspar16RT
import LMV.Lemmas.UniprobeRT
import LMV.Lemmas.TransfacRT

namespace LMV
namespace C14

open Io Nom

/-- **Chunking independence.**  For every schedule of chunk sizes, `read_until(d)` appends the
    prefix of the stream through the first `d` and leaves the rest. -/
theorem chunking_independence (d : UInt8) (sched : List Nat) (bytes : Bytes) :
    (readUntil d sched bytes).1 = through d bytes ∧ (readUntil d sched bytes).2.1 = after d bytes :=
  readUntil_eq d sched bytes

example : (readUntil 62 [2, 1, 5] [1, 2, 3, 62, 4, 62]).1 = [1, 2, 3, 62] ∧
    (readUntil 62 [2, 1, 5] [1, 2, 3, 62, 4, 62]).2.1 = [4, 62] := by decide

/-- chunking independence of `read_line` (UniPROBE, TRANSFAC) -/
theorem chunking_independence_lines (sched : List Nat) (bytes : Bytes) :
    (readLine sched bytes).1 = (if validUtf8 (through 10 bytes) then some (through 10 bytes) else none) ∧
    (readLine sched bytes).2.1 = after 10 bytes :=
  readLine_eq sched bytes

/-- **`parseNat (digits n) = n`**: nom's `u32` reads the decimal rendering of every `n < 2^32`
    back and stops right after it, whatever non-digit follows -/
theorem parseNat_digits (n : Nat) (hn : n < 4294967296) (tail : Bytes) (ht : StartsNot isDigit tail) :
    u32 (Jaspar.digits n ++ tail) = .ok tail n :=
  Jaspar.uint_digits _ n hn tail ht

example : u32 (Jaspar.digits 4294967295 ++ [0x20, 0x31]) = .ok [0x20, 0x31] 4294967295 :=
  parseNat_digits _ (by decide) _ (by simp only [StartsNot]; decide)

/-- **JASPAR (raw) round trip.**  For every list of well-formed motifs (any number of them, any
    width, counts up to `u32::MAX`, description present or absent), every schedule of chunk sizes
    and every buffer-capacity policy, the reader returns exactly those motifs in order — identifier
    and description as written, every count in the row of its position and the column of its
    symbol, the `N` column zero — and then signals the end of input. -/
theorem jaspar_round_trip (grow : Nat → Nat → Nat → Nat) (sched : List Nat) (rs : List Jaspar.Src)
    (hwf : ∀ r ∈ rs, Jaspar.WF r) :
    outcomes (Jaspar.next Jaspar.record grow) (rs.length + 1)
        (Jaspar.new grow sched (Jaspar.render rs))
      = rs.map (fun r => Outcome.record (Jaspar.expect r)) ++ [Outcome.done] :=
  Jaspar.roundTrip grow sched rs hwf

/-- a well-formed two-motif file exists (non-vacuity), and the theorem applies to it -/
def demo : List Jaspar.Src :=
  [{ id := [0x4D, 0x41], description := some [0x61, 0x20, 0x62], a := [1, 4294967295], c := [0, 2],
     g := [3, 0], t := [7, 7] },
   { id := [], description := none, a := [], c := [], g := [], t := [] }]

example : ∀ r ∈ demo, Jaspar.WF r := by decide

example : outcomes (Jaspar.next Jaspar.record Jaspar.growAmortized) 3
    (Jaspar.new Jaspar.growAmortized [1, 3, 2] (Jaspar.render demo))
      = demo.map (fun r => Outcome.record (Jaspar.expect r)) ++ [Outcome.done] :=
  jaspar_round_trip _ _ demo (by decide)

/-- **JASPAR 2016 round trip.**  Symbol lines in any order, any non-empty duplicate-free subset of
    the alphabet (DNA or protein: every alphabet whose tables satisfy `LettersOK`); symbols that are
    not listed read back as zero columns. -/
theorem jaspar16_round_trip (A : Alphabet) (hA : A.LettersOK) (grow : Nat → Nat → Nat → Nat)
    (sched : List Nat) (rs : List Jaspar16.Src) (hwf : ∀ r ∈ rs, Jaspar16.WF A r) :
    outcomes (Jaspar.next (Jaspar16.record A) grow) (rs.length + 1)
        (Jaspar.new grow sched (Jaspar16.render A rs))
      = rs.map (fun r => Outcome.record (Jaspar16.expect A r)) ++ [Outcome.done] :=
  Jaspar16.roundTrip hA grow sched rs hwf

theorem alphabets_lettersOK : dna.LettersOK ∧ protein.LettersOK := ⟨dna_lettersOK, protein_lettersOK⟩

/-- permuted symbol lines (T, A, G: `C` and `N` absent), two motifs -/
def demo16 : List Jaspar16.Src :=
  [{ id := [0x4D], description := none, cols := [(2, [5, 6]), (0, [1, 2]), (3, [4294967295, 0])] },
   { id := [0x58], description := some [0x79], cols := [(1, [9])] }]

example : ∀ r ∈ demo16, Jaspar16.WF dna r := by decide

example : outcomes (Jaspar.next (Jaspar16.record dna) Jaspar.growAmortized) 3
    (Jaspar.new Jaspar.growAmortized [4, 1] (Jaspar16.render dna demo16))
      = demo16.map (fun r => Outcome.record (Jaspar16.expect dna r)) ++ [Outcome.done] :=
  jaspar16_round_trip dna dna_lettersOK _ _ demo16 (by decide)

/-- **UniPROBE round trip.**  For every scalar type and conversion `conv` of float lexemes (the
    driver's instance is IEEE `f32` with `str::parse`), every frequency test `freqOk`, every list of
    well-formed motifs (symbol lines in any order, any non-empty duplicate-free subset of the
    alphabet, plain decimal lexemes `digits[.digits]` that `conv` accepts, rows accepted by
    `freqOk`) and every chunk schedule, the reader returns exactly those motifs, in order, with the
    value of every lexeme in the row of its position and the column of its symbol, then the end. -/
theorem uniprobe_round_trip {α : Type} (A : Alphabet) (hA : A.LettersOK) (hB : Uniprobe.LettersNotBlank A)
    (conv : Bytes → Option α) (zero : α) (freqOk : Mat α A.K → Bool) (sched : List Nat)
    (rs : List Uniprobe.Src) (hwf : ∀ r ∈ rs, Uniprobe.WF A conv zero freqOk r) :
    outcomes (Uniprobe.next A conv zero freqOk) (rs.length + 1) (Uniprobe.new sched (Uniprobe.render A rs))
      = rs.map (fun r => Outcome.record (Uniprobe.expect A conv zero r)) ++ [Outcome.done] :=
  Uniprobe.roundTrip A conv zero freqOk hA hB sched rs hwf

theorem alphabets_lettersNotBlank : Uniprobe.LettersNotBlank dna ∧ Uniprobe.LettersNotBlank protein :=
  ⟨Uniprobe.dna_lettersNotBlank, Uniprobe.protein_lettersNotBlank⟩

/-- a lexeme is a fraction of 1000 here: `conv` reads `0.xyz` as `xyz` -/
def demoConv (lex : Bytes) : Option Nat :=
  match lex with
  | [0x30, 0x2E, a, b, c] => some ((a.toNat - 48) * 100 + (b.toNat - 48) * 10 + (c.toNat - 48))
  | _ => none

def demoU : List Uniprobe.Src :=
  [{ id := [0x4D, 0x31], cols := [(2, [[0x30, 0x2E, 0x32, 0x35, 0x30]]), (0, [[0x30, 0x2E, 0x37, 0x35, 0x30]])] }]

example : ∀ r ∈ demoU, Uniprobe.WF dna demoConv 0 (fun _ => true) r := by decide

/-- **TRANSFAC round trip.**  A record is a list of items — `AC`, `ID`, `NA`, `DE` lines in any
    order and multiplicity (a later line overrides an earlier one, as in the parser), `XX` lines,
    `P0` blocks with the symbols in any order / any duplicate-free subset — closed by `//`.  For
    every scalar type and conversion of float lexemes, every list of well-formed records and every
    chunk schedule, `Reader::new` succeeds and the reader returns exactly those records, in order
    (accession / id / name / description as written, every value in the row of its position and
    the column of its symbol, other columns zero, no matrix when there is no `P0` block), then the
    end of input. -/
theorem transfac_round_trip {α : Type} (A : Alphabet) (hA : A.LettersOK) (hB : Uniprobe.LettersNotBlank A)
    (conv : Bytes → Option α) (zero : α) (sched : List Nat) (rs : List (List Transfac.Item))
    (hwf : ∀ r ∈ rs, ∀ it ∈ r, Transfac.WFItem A conv it) :
    ∃ s0, Transfac.new sched (Transfac.render A rs) = .ok s0 ∧
      outcomes (Transfac.next A conv zero) (rs.length + 1) s0
        = rs.map (fun r => Outcome.record (Transfac.expect A conv zero r)) ++ [Outcome.done] :=
  Transfac.roundTrip A conv zero hA hB sched rs hwf

/-- two records: one with permuted symbols (T, A) and a description, one without matrix -/
def demoT : List (List Transfac.Item) :=
  [[.ac [0x4D, 0x31], .xx, .de [0x61, 0x20, 0x62],
    .matrix [2, 0] [[[0x30, 0x2E, 0x32, 0x35, 0x30], [0x30, 0x2E, 0x37, 0x35, 0x30]]], .xx],
   [.id [0x58]]]

example : ∀ r ∈ demoT, ∀ it ∈ r, Transfac.WFItem dna demoConv it := by decide

end C14
end LMV
