/-
  C14 — Well-formed motif files load completely and exactly under any stream chunking.
-/
import LMV.Lemmas.Stream

namespace LMV
namespace C14

open Io

/-- **Chunking independence.**  For every schedule of chunk sizes, `read_until(d)` appends the
    prefix of the stream through the first `d` and leaves the rest. -/
theorem chunking_independence (d : UInt8) (sched : List Nat) (bytes : Bytes) :
    (readUntil d sched bytes).1 = through d bytes ∧ (readUntil d sched bytes).2.1 = after d bytes :=
  readUntil_eq d sched bytes

example : (readUntil 62 [2, 1, 5] [1, 2, 3, 62, 4, 62]).1 = [1, 2, 3, 62] ∧
    (readUntil 62 [2, 1, 5] [1, 2, 3, 62, 4, 62]).2.1 = [4, 62] := by decide

end C14
end LMV
