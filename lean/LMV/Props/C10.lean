import LMV.Model.Revcomp
namespace LMV
namespace C10
theorem placeholder : True := trivial
end C10
end LMV
