/-
  C10 — Reverse-complementing a motif mirrors its scores on the opposite strand.

  `complOK_dna` is a kernel evaluation over the complement table regenerated from abc.rs on every
  run; everything else is proved for every alphabet satisfying `ComplOK`, every carrier, every
  width and every content (wildcard column included).

  * `rc_get`, `rc_rows`      the loop nest is row reversal ∘ column permutation by `complement`
  * `rc_rc`                  reverse-complementing twice gives back the matrix (any carrier)
  * `rc_toWeight`, `rc_intoScoring`, `rc_toScoringWithBase`, `rc_rescale`
                             the elementwise stages commute with `rc`, structurally (no law on the
                             scalar operations), under a strand-symmetric background
  * `rc_toFreq`              the row-normalising stage commutes when `add` is associative and
                             commutative (it re-orders the row sum); `rc_toFreq_rat` for `Rat`
  * `rc_pipeline`            the whole chain counts → scores commutes with `rc`
  * `mirror_score`           over an associative-commutative `add`,
                             `score (rc m) (rc s) (L-M-i) = score m s i`
  * `rc_fromSequences`       the count matrix of the reverse-complemented sequences is the
                             reverse complement of the count matrix (the chain commutes from the
                             sequences on)
-/
import LMV.Model.Revcomp
import LMV.Model.Pwm
import LMV.Lemmas.FoldPerm
import LMV.Props.C09

namespace LMV
namespace C10

open Revcomp Pwm

/-! ### the complement table -/

/-- what the unbounded theorems use about the regenerated tables: `symbols()` enumerates the
    indices `0..K`, `complement` stays inside the alphabet and is an involution -/
def ComplOK (A : Alphabet) : Prop :=
  A.symbols = List.range A.K ∧
  ∀ j, j < A.K → A.complement j < A.K ∧ A.complement (A.complement j) = j

instance (A : Alphabet) : Decidable (ComplOK A) := by unfold ComplOK; infer_instance

/-- **complement is an involution** of the DNA alphabet (decided on the regenerated table) -/
theorem complOK_dna : ComplOK dna := by decide +kernel

/-- the table is the one the property names: A↔T, C↔G, N↔N (indices A C T G N = 0 1 2 3 4) -/
theorem complement_dna_table :
    (List.range 5).map dna.complement = [2, 3, 0, 1, 4] ∧ dna.K = 5 ∧ dna.dflt = 4 ∧
    dna.complement dna.dflt = dna.dflt := by decide +kernel

example : dna.complement 0 = 2 ∧ dna.complement 3 = 1 := by decide

/-! ### closed form of the loop nest -/

section closed
variable {α : Type} [Inhabited α] {K : Nat}

/-- a run of `data[i][s] = v s` over a list of symbols -/
theorem foldl_set_get (i : Nat) (v : Nat → α) (l : List Nat) (d : Mat α K) (r c : Nat) :
    ((l.foldl (fun d s => d.set i s (v s)) d).rows = d.rows) ∧
    (l.foldl (fun d s => d.set i s (v s)) d).get r c =
      if r = i ∧ c ∈ l ∧ i < d.rows ∧ c < K then v c else d.get r c := by
  induction l generalizing d with
  | nil => simp
  | cons s ss ih =>
    simp only [List.foldl_cons]
    have ⟨h1, h2⟩ := ih (d.set i s (v s))
    refine ⟨by rw [h1]; simp, ?_⟩
    rw [h2]
    simp only [Mat.rows_set, Mat.get_set, List.mem_cons]
    by_cases hr : r = i
    · by_cases hc : c = s
      · subst hc
        by_cases hm : c ∈ ss <;> by_cases hi : i < d.rows <;> by_cases hk : c < K <;> simp [hr, hm, hi, hk]
      · by_cases hm : c ∈ ss <;> simp [hr, hc, hm]
    · simp [hr]

theorem rcRow_rows (A : Alphabet) (m : Mat α K) (src : Nat) (d : Mat α K) (i : Nat) :
    (rcRow A m src d i).rows = d.rows :=
  (foldl_set_get i (fun s => m.get src (A.complement s)) A.symbols d 0 0).1

theorem rcRow_get (A : Alphabet) (m : Mat α K) (src : Nat) (d : Mat α K) (i r c : Nat) :
    (rcRow A m src d i).get r c =
      if r = i ∧ c ∈ A.symbols ∧ i < d.rows ∧ c < K then m.get src (A.complement c)
      else d.get r c :=
  (foldl_set_get i (fun s => m.get src (A.complement s)) A.symbols d r c).2

/-- the outer loop over any list of row indices -/
theorem rows_loop (A : Alphabet) (m : Mat α K) (g : Nat → Nat) (l : List Nat) (d : Mat α K)
    (r c : Nat) :
    ((l.foldl (fun d i => rcRow A m (g i) d i) d).rows = d.rows) ∧
    (l.foldl (fun d i => rcRow A m (g i) d i) d).get r c =
      if r ∈ l ∧ c ∈ A.symbols ∧ r < d.rows ∧ c < K then m.get (g r) (A.complement c)
      else d.get r c := by
  induction l generalizing d with
  | nil => simp
  | cons i is ih =>
    simp only [List.foldl_cons]
    have ⟨h1, h2⟩ := ih (rcRow A m (g i) d i)
    refine ⟨by rw [h1, rcRow_rows], ?_⟩
    rw [h2, rcRow_rows, rcRow_get]
    simp only [List.mem_cons]
    by_cases hri : r = i
    · subst hri
      by_cases hm : r ∈ is <;> by_cases hs : c ∈ A.symbols <;> by_cases hr : r < d.rows <;>
        by_cases hk : c < K <;> simp [hm, hs, hr, hk]
    · by_cases hm : r ∈ is <;> simp [hri, hm]

theorem rc_rows (A : Alphabet) (z : α) (m : Mat α K) : (rc A z m).rows = m.rows := by
  unfold rc
  rw [(rows_loop A m (fun i => m.rows - 1 - i) (List.range m.rows) _ 0 0).1]
  simp

/-- **closed form**: the reverse complement is row reversal composed with the column permutation
    by `complement` (needs only that `symbols()` lists column `j`) -/
theorem rc_get (A : Alphabet) (z : α) (m : Mat α K) (i j : Nat)
    (hi : i < m.rows) (hj : j < K) (hs : j ∈ A.symbols) :
    (rc A z m).get i j = m.get (m.rows - 1 - i) (A.complement j) := by
  unfold rc
  rw [(rows_loop A m (fun i => m.rows - 1 - i) (List.range m.rows) _ i j).2]
  simp [hi, hj, hs]

end closed

/-! ### theorems for an alphabet whose tables satisfy `ComplOK` -/

section main
variable {A : Alphabet} (T : ComplOK A)
include T

theorem mem_symbols {j : Nat} (hj : j < A.K) : j ∈ A.symbols := by
  rw [T.1]; exact List.mem_range.mpr hj

theorem compl_lt {j : Nat} (hj : j < A.K) : A.complement j < A.K := (T.2 j hj).1
theorem compl_compl {j : Nat} (hj : j < A.K) : A.complement (A.complement j) = j := (T.2 j hj).2

variable {α : Type} [Inhabited α]

theorem rc_get' (z : α) (m : Mat α A.K) (i j : Nat) (hi : i < m.rows) (hj : j < A.K) :
    (rc A z m).get i j = m.get (m.rows - 1 - i) (A.complement j) :=
  rc_get A z m i j hi hj (mem_symbols T hj)

/-- **rc (rc m) = m** for any carrier, any width, any content; the fill values are irrelevant -/
theorem rc_rc (z z' : α) (m : Mat α A.K) : rc A z' (rc A z m) = m := by
  apply Mat.ext
  · rw [rc_rows, rc_rows]
  · intro i j hi hj
    rw [rc_rows, rc_rows] at hi
    rw [rc_get' T z' _ i j (by rw [rc_rows]; exact hi) hj, rc_rows,
      rc_get' T z m _ _ (by omega) (compl_lt T hj), compl_compl T hj]
    congr 1
    omega

/-- a function of the symbol that is the same on both strands -/
def StrandSym (A : Alphabet) {β : Type} (f : Nat → β) : Prop := ∀ j, j < A.K → f (A.complement j) = f j

/-- `to_weight` commutes with `rc`, structurally (no law on the scalar operations) -/
theorem rc_toWeight [Arith α] (z z' : α) (m : Mat α A.K) (bg : Nat → α) (hbg : StrandSym A bg) :
    toWeight (rc A z m) bg = rc A z' (toWeight m bg) := by
  apply Mat.ext
  · simp [toWeight, rc_rows]
  · intro i j hi hj
    have hi' : i < m.rows := by simpa [toWeight, rc_rows] using hi
    rw [rc_get' T z' _ i j (by simpa [toWeight] using hi') hj]
    simp only [toWeight, Mat.get_ofFn, Mat.rows_ofFn, rc_rows]
    have h1 : m.rows - 1 - i < m.rows := by omega
    rw [rc_get' T z m i j hi' hj]
    simp [hi', hj, h1, compl_lt T hj, hbg j hj]

/-- `into_scoring` / `to_scoring` (one step) commutes with `rc`, structurally -/
theorem rc_intoScoring [Arith α] [Logs α] (z z' : α) (m : Mat α A.K) (bg : Nat → α)
    (hbg : StrandSym A bg) :
    intoScoring (rc A z m) bg = rc A z' (intoScoring m bg) := by
  apply Mat.ext
  · simp [intoScoring, rc_rows]
  · intro i j hi hj
    have hi' : i < m.rows := by simpa [intoScoring, rc_rows] using hi
    rw [rc_get' T z' _ i j (by simpa [intoScoring] using hi') hj]
    simp only [intoScoring, Mat.get_ofFn, Mat.rows_ofFn, rc_rows]
    have h1 : m.rows - 1 - i < m.rows := by omega
    rw [rc_get' T z m i j hi' hj]
    simp [hi', hj, h1, compl_lt T hj, hbg j hj]

/-- `to_scoring_with_base` involves no background: it commutes with `rc` on every input -/
theorem rc_toScoringWithBase [Arith α] [Logs α] (z z' : α) (w : Mat α A.K) (base : α) :
    toScoringWithBase (rc A z w) base = rc A z' (toScoringWithBase w base) := by
  apply Mat.ext
  · simp [toScoringWithBase, rc_rows]
  · intro i j hi hj
    have hi' : i < w.rows := by simpa [toScoringWithBase, rc_rows] using hi
    rw [rc_get' T z' _ i j (by simpa [toScoringWithBase] using hi') hj]
    simp only [toScoringWithBase, Mat.get_ofFn, Mat.rows_ofFn, rc_rows]
    have h1 : w.rows - 1 - i < w.rows := by omega
    rw [rc_get' T z w i j hi' hj]
    simp [hi', hj, h1, compl_lt T hj]

/-- `rescale` commutes with `rc` when both backgrounds are strand-symmetric -/
theorem rc_rescale [Arith α] (z z' : α) (w : Mat α A.K) (old new : Nat → α)
    (ho : StrandSym A old) (hn : StrandSym A new) :
    rescale (rc A z w) old new = rc A z' (rescale w old new) := by
  unfold rescale
  by_cases hd : bgDiffers A.K new old = true
  · simp only [hd, if_true]
    apply Mat.ext
    · simp [rc_rows]
    · intro i j hi hj
      have hi' : i < w.rows := by simpa [rc_rows] using hi
      rw [rc_get' T z' _ i j (by simpa using hi') hj]
      simp only [Mat.get_ofFn, Mat.rows_ofFn, rc_rows]
      have h1 : w.rows - 1 - i < w.rows := by omega
      rw [rc_get' T z w i j hi' hj]
      simp [hi', hj, h1, compl_lt T hj, ho j hj, hn j hj]
  · have hd' : bgDiffers A.K new old = false := by simpa using hd
    simp only [hd', Bool.false_eq_true, if_false]
    apply Mat.ext
    · simp [rc_rows]
    · intro i j hi hj
      have hi' : i < w.rows := by simpa [rc_rows] using hi
      rw [rc_get' T z _ i j hi' hj, rc_get' T z' _ i j hi' hj]

/-- the row-normalising stage: **`to_freq` commutes with `rc`** when `add` is associative and
    commutative (the row total is the same sum in another order) and the pseudocounts are
    strand-symmetric; `ofNat` and `div` are arbitrary -/
theorem rc_toFreq [Arith α]
    (assoc : ∀ a b c : α, add (add a b) c = add a (add b c)) (comm : ∀ a b : α, add a b = add b a)
    (z : α) (c : Mat Nat A.K) (p : Nat → α) (hp : StrandSym A p) :
    toFreq (rc A 0 c) p = rc A z (toFreq c p) := by
  apply Mat.ext
  · simp [toFreq, rc_rows]
  · intro i j hi hj
    have hi' : i < c.rows := by simpa [toFreq, rc_rows] using hi
    rw [rc_get' T z _ i j (by simpa [toFreq] using hi') hj]
    simp only [toFreq, Mat.get_ofFn, Mat.rows_ofFn, rc_rows]
    have h1 : c.rows - 1 - i < c.rows := by omega
    simp only [hi', hj, h1, compl_lt T hj, and_self, if_true]
    rw [rc_get' T 0 c i j hi' hj, hp j hj]
    congr 1
    unfold sumRange
    exact FoldPerm.foldl_involution' add assoc comm A.K A.complement
      (fun j hj => compl_lt T hj) (fun j hj => compl_compl T hj)
      (fun j => add (Arith.ofNat (c.get (c.rows - 1 - i) j)) (p j)) _
      (fun k hk => by rw [rc_get' T 0 c i k hi' hk, hp k hk]) _

/-- the exact instance -/
theorem rc_toFreq_rat (c : Mat Nat A.K) (p : Nat → Rat) (hp : StrandSym A p) :
    toFreq (rc A 0 c) p = rc A 0 (toFreq c p) :=
  rc_toFreq T (fun a b c => Rat.add_assoc a b c) (fun a b => Rat.add_comm a b) 0 c p hp

/-- **reverse-complementing commutes with the whole conversion chain** counts → frequencies →
    weights → scores in any base (and with the one-step route), under strand-symmetric
    pseudocounts and background, for every carrier whose `add` is associative and commutative -/
theorem rc_pipeline [Arith α] [Logs α]
    (assoc : ∀ a b c : α, add (add a b) c = add a (add b c)) (comm : ∀ a b : α, add a b = add b a)
    (z : α) (c : Mat Nat A.K) (p bg : Nat → α) (base : α)
    (hp : StrandSym A p) (hbg : StrandSym A bg) :
    toScoringWithBase (toWeight (toFreq (rc A 0 c) p) bg) base
        = rc A z (toScoringWithBase (toWeight (toFreq c p) bg) base) ∧
    intoScoring (toFreq (rc A 0 c) p) bg = rc A z (intoScoring (toFreq c p) bg) := by
  rw [rc_toFreq T assoc comm z c p hp]
  exact ⟨by rw [rc_toWeight T z z _ bg hbg, rc_toScoringWithBase T z z], rc_intoScoring T z z _ bg hbg⟩

/-- **mirrored scores**: over an associative and commutative `add`, the reverse-complemented
    matrix scores position `L-M-i` of the reverse-complemented sequence exactly as the matrix
    scores position `i` of the sequence (`M = m.rows`, `L = s.length`, window inside the
    sequence, symbols inside the alphabet) -/
theorem mirror_score [Arith α]
    (assoc : ∀ a b c : α, add (add a b) c = add a (add b c)) (comm : ∀ a b : α, add a b = add b a)
    (z : α) (m : Mat α A.K) (s : List Nat) (i : Nat)
    (hs : ∀ x ∈ s, x < A.K) (hi : i + m.rows ≤ s.length) :
    scorePosition (rc A z m) (fun k => (rcSeq A s).getD k 0) (s.length - m.rows - i)
      = scorePosition m (fun k => s.getD k 0) i := by
  unfold scorePosition
  rw [rc_rows]
  apply FoldPerm.foldl_involution' add assoc comm m.rows (fun j => m.rows - 1 - j)
    (fun j hj => by omega) (fun j hj => by omega)
  intro j hj
  have hk : s.length - m.rows - i + j < s.length := by omega
  have hlen : (rcSeq A s).length = s.length := by simp [rcSeq]
  have e1 : (rcSeq A s).getD (s.length - m.rows - i + j) 0
      = A.complement (s.getD (i + (m.rows - 1 - j)) 0) := by
    unfold rcSeq
    simp only [List.getD_eq_getElem?_getD]
    rw [List.getElem?_reverse (by simpa using hk), List.getElem?_map]
    have e : (List.map A.complement s).length - 1 - (s.length - m.rows - i + j)
        = i + (m.rows - 1 - j) := by
      simp only [List.length_map]; omega
    rw [e, List.getElem?_eq_getElem (by omega)]
    simp
  have hx : s.getD (i + (m.rows - 1 - j)) 0 < A.K := by
    simp only [List.getD_eq_getElem?_getD]
    rw [List.getElem?_eq_getElem (by omega)]
    exact hs _ (List.getElem_mem _)
  beta_reduce
  rw [e1, rc_get' T z m j _ hj (compl_lt T hx), compl_compl T hx]


/-! ### the chain commutes from the sequences on -/

theorem rcSeq_length (s : List Nat) : (rcSeq A s).length = s.length := by simp [rcSeq]

theorem rcSeq_getElem? (s : List Nat) (i : Nat) (hi : i < s.length) :
    (rcSeq A s)[i]? = (s[s.length - 1 - i]?).map A.complement := by
  unfold rcSeq
  rw [List.getElem?_reverse (by simpa using hi), List.getElem?_map]
  simp

/-- position `i` of the reverse-complemented sequences holds `a` exactly when position `L-1-i` of
    the sequences holds the complement of `a` -/
theorem colCount_rcSeq (seqs : List (List Nat)) (L : Nat) (hlen : ∀ s ∈ seqs, s.length = L)
    (hsym : ∀ s ∈ seqs, ∀ x ∈ s, x < A.K) (i a : Nat) (hi : i < L) (ha : a < A.K) :
    C09.colCount (seqs.map (rcSeq A)) i a = C09.colCount seqs (L - 1 - i) (A.complement a) := by
  unfold C09.colCount
  rw [List.filter_map, List.length_map]
  congr 1
  apply List.filter_congr
  intro s hs
  have hl : s.length = L := hlen s hs
  have hk : L - 1 - i < s.length := by omega
  simp only [Function.comp]
  rw [rcSeq_getElem? T s i (by omega), hl, List.getElem?_eq_getElem hk]
  have hx : s[L - 1 - i] < A.K := hsym s hs _ (List.getElem_mem _)
  simp only [Option.map_some]
  by_cases h : s[L - 1 - i] = A.complement a
  · simp [h, compl_compl T ha]
  · have : ¬ A.complement s[L - 1 - i] = a := by
      intro e
      apply h
      rw [← e, compl_compl T hx]
    simp [h, this]

/-- **the count matrix of the reverse-complemented sequences is the reverse complement of the
    count matrix** (same sequence count): with `rc_pipeline`, reverse complementation commutes with
    the conversions all the way from the aligned sequences to the scores -/
theorem rc_fromSequences (seqs : List (List Nat)) (hsym : ∀ s ∈ seqs, ∀ x ∈ s, x < A.K)
    (hlen : ∀ s ∈ seqs, s.length = C09.firstLen seqs) :
    ∃ c c', fromSequences (K := A.K) seqs = .ok c ∧
      fromSequences (K := A.K) (seqs.map (rcSeq A)) = .ok c' ∧
      c'.n = c.n ∧ c'.data = rc A 0 c.data := by
  have hfl : C09.firstLen (seqs.map (rcSeq A)) = C09.firstLen seqs := by
    cases seqs with
    | nil => rfl
    | cons s rest => simp [C09.firstLen, rcSeq_length T]
  have hsym' : ∀ s ∈ seqs.map (rcSeq A), ∀ x ∈ s, x < A.K := by
    intro s hs x hx
    rcases List.mem_map.mp hs with ⟨t, ht, rfl⟩
    unfold rcSeq at hx
    rcases List.mem_map.mp (List.mem_reverse.mp hx) with ⟨y, hy, rfl⟩
    exact compl_lt T (hsym t ht y hy)
  have hlen' : ∀ s ∈ seqs.map (rcSeq A), s.length = C09.firstLen (seqs.map (rcSeq A)) := by
    intro s hs
    rcases List.mem_map.mp hs with ⟨t, ht, rfl⟩
    rw [hfl, rcSeq_length T, hlen t ht]
  have ⟨c, hc, hn, hrows, hget⟩ := C09.fromSequences_ok (K := A.K) seqs hsym hlen
  have ⟨c', hc', hn', hrows', hget'⟩ := C09.fromSequences_ok (K := A.K) _ hsym' hlen'
  refine ⟨c, c', hc, hc', by rw [hn', hn]; simp, ?_⟩
  apply Mat.ext
  · rw [rc_rows, hrows', hrows, hfl]
  · intro i a hi ha
    rw [hrows', hfl] at hi
    rw [hget' i a (by rw [hfl]; exact hi) ha,
      colCount_rcSeq T seqs (C09.firstLen seqs) hlen hsym i a hi ha,
      rc_get' T 0 c.data i a (by rw [hrows]; exact hi) ha, hrows,
      hget _ _ (by omega) (compl_lt T ha)]

end main

/-! ### the DNA instances and non-vacuity -/

theorem dna_rc_rc {α : Type} [Inhabited α] (z z' : α) (m : Mat α dna.K) :
    rc dna z' (rc dna z m) = m := rc_rc complOK_dna z z' m

theorem dna_mirror_score (m : Mat Rat dna.K) (s : List Nat) (i : Nat)
    (hs : ∀ x ∈ s, x < dna.K) (hi : i + m.rows ≤ s.length) :
    scorePosition (rc dna 0 m) (fun k => (rcSeq dna s).getD k 0) (s.length - m.rows - i)
      = scorePosition m (fun k => s.getD k 0) i :=
  mirror_score complOK_dna (fun a b c => Rat.add_assoc a b c) (fun a b => Rat.add_comm a b) 0 m s i hs hi

/-- the uniform background and scalar pseudocounts of the library are strand-symmetric -/
theorem strandSym_uniform_dna (c : Rat) :
    StrandSym dna (fnOf (bgUniform (α := Rat) dna.K dna.dflt)) ∧
    StrandSym dna (fnOf (pseudoUniform dna.K dna.dflt c)) := by
  constructor <;> intro j hj <;>
    (have : j = 0 ∨ j = 1 ∨ j = 2 ∨ j = 3 ∨ j = 4 := by
      have : j < 5 := hj
      omega) <;>
    rcases this with h | h | h | h | h <;> subst h <;> rfl

/- non-vacuity: a 2×5 matrix whose reverse complement differs from it, and a window whose
   mirrored score is computed on both sides -/
def exM : Mat Rat dna.K := Mat.ofFn 2 fun i j => ((i * 5 + j : Nat) : Rat)

example : (rc dna 0 exM).get 0 0 = 7 ∧ (rc dna 0 exM).get 1 3 = 1 ∧ rc dna 0 exM ≠ exM := by
  refine ⟨by decide +kernel, by decide +kernel, ?_⟩
  intro h
  have : (rc dna 0 exM).get 0 0 = exM.get 0 0 := by rw [h]
  revert this
  decide +kernel

example :
    scorePosition exM (fun k => [0, 1, 3, 2].getD k 0) 1 = 9 ∧
    scorePosition (rc dna 0 exM) (fun k => (rcSeq dna [0, 1, 3, 2]).getD k 0) (4 - 2 - 1) = 9 ∧
    rcSeq dna [0, 1, 3, 2] = [0, 1, 3, 2] ∧ rcSeq dna [0, 0, 1] = [3, 2, 2] := by
  decide +kernel

end C10
end LMV
