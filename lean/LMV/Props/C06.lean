/-
  C06 — No safe API call reads or writes outside the memory it owns.

  Theorems about the memory-access models LMV/Mem: for every size that passes the checks of the safe
  wrapper, every access of the kernel lies inside its buffer and every aligned access has an aligned
  offset (buffers laid out as in C19).  The tie between the access models and the implementation is
  the AddressSanitizer run of the `c06` stream (tools/c06_runner.sh).
-/
import LMV.Lemmas.Mem
import LMV.Mem.Api

namespace LMV
namespace C06

open Mem

/-! ## striping (`stripe_avx2`) -/

/-- facts about the regenerated tables of the striping kernel, by evaluation: every load multiplies
    `src_stride` by at most 31, every store `out_stride` by at most 31, all three counters advance
    by one block, the loop condition carries the source-buffer guard, rows are 32 bytes apart -/
theorem stripe_table :
    (∀ p ∈ Gen.Avx2Stripe.loads, p.2 ≤ 31) ∧ (∀ p ∈ Gen.Avx2Stripe.stores, p.1 ≤ 31) ∧
    Gen.Avx2Stripe.srcInc = 32 ∧ Gen.Avx2Stripe.outInc = 32 ∧ Gen.Avx2Stripe.loopStrict = false ∧
    Gen.Avx2Stripe.srcGuard = some 31 ∧ Dense.stride 32 1 ALIGN = 32 ∧ rowB 32 1 = 32 := by
  decide

/-- the repaired block loop: with `src = seq + i`, `out = matrix + 32·i`, every load stays inside
    the `L` symbols and every store is an aligned write inside the `stride` rows of the matrix -/
theorem stripeLoop_safe (sz : Sizes) (L stride : Nat) (hsym : sz .sym = L) (hmat : sz .seqmat = stride * 32) :
    ∀ (fuel i : Nat), Safe sz (stripeLoop (some 31) false L stride 32 fuel i i (i * 32)) := by
  obtain ⟨hl, hst, hsi, hoi, -, -, -, -⟩ := stripe_table
  intro fuel
  induction fuel with
  | zero => intro i; exact Safe_nil sz
  | succ n ih =>
    intro i
    simp only [stripeLoop, Bool.false_eq_true, if_false, stripeGuardOk, decide_eq_true_eq]
    by_cases hc : i + 32 ≤ stride ∧ 31 * stride + i + 32 ≤ L
    · rw [if_pos hc]
      rw [Safe_append, Safe_append]
      refine ⟨⟨?_, ?_⟩, ?_⟩
      · intro a ha
        simp only [List.mem_map] at ha
        obtain ⟨p, hp, rfl⟩ := ha
        have h31 : p.2 * stride ≤ 31 * stride := Nat.mul_le_mul_right stride (hl p hp)
        refine ⟨?_, Nat.one_pos, Nat.mod_one _⟩
        show i + p.2 * stride + 32 ≤ sz .sym
        omega
      · intro a ha
        simp only [List.mem_map] at ha
        obtain ⟨p, hp, rfl⟩ := ha
        have h31 := hst p hp
        refine ⟨?_, by show 0 < 32; omega, ?_⟩
        · show i * 32 + p.1 * 32 + 32 ≤ sz .seqmat
          omega
        · show (i * 32 + p.1 * 32) % 32 = 0
          omega
      · rw [hsi, hoi]
        have e : i * 32 + 32 * 32 = (i + 32) * 32 := by omega
        rw [e]
        exact ih (i + 32)
    · rw [if_neg hc]; exact Safe_nil sz

/-- **C06, striping**: for every sequence length, every access of the (repaired) AVX2 striping
    kernel — loop condition, load and store tables regenerated from the source — is inside the symbol
    buffer (`L` bytes) resp. the striped matrix (`⌈L/32⌉` rows of 32 bytes), stores 32-byte aligned -/
theorem stripe_avx2_inbounds (L : Nat) : Safe (stripeSizes L) (stripeAvx2 L) := by
  obtain ⟨-, -, -, -, hstrict, hguard, hstride, hrow⟩ := stripe_table
  unfold stripeAvx2 stripeAvx2With
  by_cases h0 : L = 0
  · rw [if_pos h0]; exact Safe_nil _
  · rw [if_neg h0, hguard, hstrict, hstride]
    have := stripeLoop_safe (stripeSizes L) L ((L + 31) / 32) rfl (by show (L + 31) / 32 * rowB 32 1 = _; rw [hrow])
      ((L + 31) / 32 + 1) 0
    simpa using this

/-- **the defect found in the unchanged code** (loop condition `i + 32 <= src_stride` only): for 993
    symbols the load of register 31 reads bytes 992..1024 of a 993-byte buffer -/
theorem stripe_avx2_asIs_counterexample : ¬ Safe (stripeSizes 993) (stripeAvx2With none 993) := by
  decide

/-- the offending access is the one AddressSanitizer reports (`READ of size 32` at the last load) -/
example : (firstBad (stripeSizes 993) (stripeAvx2With none 993)) = some ⟨.sym, 992, 32, .read, 1⟩ := by
  decide

/-- non-vacuity: 2112 symbols (66 rows) run two complete blocks (128 accesses); 2100 symbols only one,
    the second block's last load would end at byte 2110 -/
example : (stripeAvx2With (some 31) 2112).length = 128 ∧ (stripeAvx2With (some 31) 2100).length = 64 ∧
    (stripeAvx2With none 2100).length = 128 := by decide +kernel

end C06
end LMV
