/-
  C06 — No safe API call reads or writes outside the memory it owns.

  Theorems about the memory-access models LMV/Mem: for every size that passes the checks of the safe
  wrapper, every access of the kernel lies inside its buffer and every aligned access has an aligned
  offset (buffers laid out as in C19).  The tie between the access models and the implementation is
  the AddressSanitizer run of the `c06` stream (tools/c06_runner.sh).
-/
import LMV.Lemmas.Mem
import LMV.Mem.Api

namespace LMV
namespace C06

open Mem

/-! ## striping (`stripe_avx2`) -/

/-- facts about the regenerated tables of the striping kernel, by evaluation: every load multiplies
    `src_stride` by at most 31, every store `out_stride` by at most 31, all three counters advance
    by one block, the loop condition carries the source-buffer guard, rows are 32 bytes apart -/
theorem stripe_table :
    (∀ p ∈ Gen.Avx2Stripe.loads, p.2 ≤ 31) ∧ (∀ p ∈ Gen.Avx2Stripe.stores, p.1 ≤ 31) ∧
    Gen.Avx2Stripe.srcInc = 32 ∧ Gen.Avx2Stripe.outInc = 32 ∧ Gen.Avx2Stripe.loopStrict = false ∧
    Gen.Avx2Stripe.srcGuard = some 31 ∧ Dense.stride 32 1 ALIGN = 32 ∧ rowB 32 1 = 32 := by
  decide

/-- the block loop, for any loop condition under which the furthest load of a block that is entered
    (`31·stride + i + 32`) stays inside the `L` symbols: with `src = seq + i`, `out = matrix + 32·i`,
    every load is inside the symbol buffer and every store is an aligned write inside the `stride`
    rows of the matrix -/
theorem stripeLoop_safe_of (guard : Option Nat) (sz : Sizes) (L stride : Nat) (hsym : sz .sym = L)
    (hmat : sz .seqmat = stride * 32)
    (hload : ∀ i, i % 32 = 0 → i + 32 ≤ stride → stripeGuardOk guard L stride i = true →
      31 * stride + i + 32 ≤ L) :
    ∀ (fuel i : Nat), i % 32 = 0 → Safe sz (stripeLoop guard false L stride 32 fuel i i (i * 32)) := by
  obtain ⟨hl, hst, hsi, hoi, -, -, -, -⟩ := stripe_table
  intro fuel
  induction fuel with
  | zero => intro i _; exact Safe_nil sz
  | succ n ih =>
    intro i hi
    simp only [stripeLoop, Bool.false_eq_true, if_false]
    by_cases hc : i + 32 ≤ stride ∧ stripeGuardOk guard L stride i = true
    · rw [if_pos hc]
      have hfar := hload i hi hc.1 hc.2
      rw [Safe_append, Safe_append]
      refine ⟨⟨?_, ?_⟩, ?_⟩
      · intro a ha
        simp only [List.mem_map] at ha
        obtain ⟨p, hp, rfl⟩ := ha
        have h31 : p.2 * stride ≤ 31 * stride := Nat.mul_le_mul_right stride (hl p hp)
        refine ⟨?_, Nat.one_pos, Nat.mod_one _⟩
        show i + p.2 * stride + 32 ≤ sz .sym
        omega
      · intro a ha
        simp only [List.mem_map] at ha
        obtain ⟨p, hp, rfl⟩ := ha
        have h31 := hst p hp
        refine ⟨?_, by show 0 < 32; omega, ?_⟩
        · show i * 32 + p.1 * 32 + 32 ≤ sz .seqmat
          omega
        · show (i * 32 + p.1 * 32) % 32 = 0
          omega
      · rw [hsi, hoi]
        have e : i * 32 + 32 * 32 = (i + 32) * 32 := by omega
        rw [e]
        exact ih (i + 32) (by omega)
    · rw [if_neg hc]; exact Safe_nil sz

/-- the repaired block loop (`&& 0x1f * src_stride + i + 32 <= length`) -/
theorem stripeLoop_safe (sz : Sizes) (L stride : Nat) (hsym : sz .sym = L) (hmat : sz .seqmat = stride * 32) :
    ∀ (fuel i : Nat), i % 32 = 0 → Safe sz (stripeLoop (some 31) false L stride 32 fuel i i (i * 32)) :=
  stripeLoop_safe_of (some 31) sz L stride hsym hmat (by
    intro i _ _ hg
    simpa [stripeGuardOk] using hg)

/-- **C06, striping**: for every sequence length, every access of the (repaired) AVX2 striping
    kernel — loop condition, load and store tables regenerated from the source — is inside the symbol
    buffer (`L` bytes) resp. the striped matrix (`⌈L/32⌉` rows of 32 bytes), stores 32-byte aligned -/
theorem stripe_avx2_inbounds (L : Nat) : Safe (stripeSizes L) (stripeAvx2 L) := by
  obtain ⟨-, -, -, -, hstrict, hguard, hstride, hrow⟩ := stripe_table
  unfold stripeAvx2 stripeAvx2With
  by_cases h0 : L = 0
  · rw [if_pos h0]; exact Safe_nil _
  · rw [if_neg h0, hguard, hstrict, hstride]
    have := stripeLoop_safe (stripeSizes L) L ((L + 31) / 32) rfl (by show (L + 31) / 32 * rowB 32 1 = _; rw [hrow])
      ((L + 31) / 32 + 1) 0 (Nat.zero_mod 32)
    simpa using this

/-- **the defect found in the unchanged code** (loop condition `i + 32 <= src_stride` only): for 993
    symbols the load of register 31 reads bytes 992..1024 of a 993-byte buffer -/
theorem stripe_avx2_asIs_counterexample : ¬ Safe (stripeSizes 993) (stripeAvx2With none 993) := by
  decide

/-- the offending access is the one AddressSanitizer reports (`READ of size 32` at the last load) -/
example : (firstBad (stripeSizes 993) (stripeAvx2With none 993)) = some ⟨.sym, 992, 32, .read, 1⟩ := by
  decide

/-- in the unchanged loop (`while i + 32 <= src_stride` only) the last load of block `n` is executed
    whenever `n + 1` complete blocks of rows exist -/
theorem stripeLoop_asIs_mem (L stride : Nat) :
    ∀ (n fuel i so oo : Nat), n < fuel → i + 32 * (n + 1) ≤ stride →
      (⟨.sym, so + 32 * n + 31 * stride, 32, .read, 1⟩ : Access) ∈
        stripeLoop none false L stride 32 fuel i so oo := by
  obtain ⟨-, -, hsi, -, -, -, -, -⟩ := stripe_table
  have h31 : ((31, 31) : Nat × Nat) ∈ Gen.Avx2Stripe.loads := by decide
  intro n
  induction n with
  | zero =>
    intro fuel i so oo hf hi
    obtain ⟨f, rfl⟩ : ∃ f, fuel = f + 1 := ⟨fuel - 1, by omega⟩
    simp only [stripeLoop, Bool.false_eq_true, if_false, stripeGuardOk, and_true]
    rw [if_pos (by omega)]
    apply List.mem_append_left; apply List.mem_append_left
    simp only [List.mem_map]
    exact ⟨(31, 31), h31, by simp⟩
  | succ n ih =>
    intro fuel i so oo hf hi
    obtain ⟨f, rfl⟩ : ∃ f, fuel = f + 1 := ⟨fuel - 1, by omega⟩
    simp only [stripeLoop, Bool.false_eq_true, if_false, stripeGuardOk, and_true]
    rw [if_pos (by omega)]
    apply List.mem_append_right
    rw [hsi]
    have := ih f (i + 32) (so + 32) (oo + Gen.Avx2Stripe.outInc * 32) (by omega) (by omega)
    have e : so + 32 + 32 * n + 31 * stride = so + 32 * (n + 1) + 31 * stride := by omega
    rw [e] at this
    exact this

/-- **the striping defect, for all lengths**: the unchanged kernel is in bounds exactly when fewer than
    32 rows exist (no block runs) or the padding `32·⌈L/32⌉ − L` does not exceed `⌈L/32⌉ mod 32`; in
    particular it reads past the symbol buffer for every `L ≥ 993` whose row count is a multiple of
    32 and that is not itself a multiple of 32 (993..1023, 2017..2047, …) -/
theorem stripe_avx2_asIs_safe_iff (L : Nat) :
    Safe (stripeSizes L) (stripeAvx2With none L) ↔
      ((L + 31) / 32 < 32 ∨ 32 * ((L + 31) / 32) - L ≤ (L + 31) / 32 % 32) := by
  obtain ⟨-, -, -, -, hstrict, -, hstride, hrow⟩ := stripe_table
  constructor
  · intro hsafe
    by_cases hc : (L + 31) / 32 < 32 ∨ 32 * ((L + 31) / 32) - L ≤ (L + 31) / 32 % 32
    · exact hc
    · exfalso
      have hL : L ≠ 0 := by omega
      unfold stripeAvx2With at hsafe
      rw [if_neg hL, hstrict, hstride] at hsafe
      have hm := stripeLoop_asIs_mem L ((L + 31) / 32) ((L + 31) / 32 / 32 - 1) ((L + 31) / 32 + 1) 0 0 0
        (by omega) (by omega)
      have hb := (hsafe _ hm).1
      have : (stripeSizes L) Buf.sym = L := rfl
      simp only [this] at hb
      omega
  · intro hc
    unfold stripeAvx2With
    by_cases h0 : L = 0
    · rw [if_pos h0]; exact Safe_nil _
    · rw [if_neg h0, hstrict, hstride]
      have := stripeLoop_safe_of none (stripeSizes L) L ((L + 31) / 32) rfl
        (by show (L + 31) / 32 * rowB 32 1 = _; rw [hrow])
        (by intro i hi h32 _; omega) ((L + 31) / 32 + 1) 0 (Nat.zero_mod 32)
      simpa using this

/-- every length from 993 to 1023 is affected (the `L = 993` of the sanitizer report is the first) -/
example : ∀ L, 993 ≤ L → L ≤ 1023 → ¬ Safe (stripeSizes L) (stripeAvx2With none L) := by
  intro L h1 h2 h
  have := (stripe_avx2_asIs_safe_iff L).mp h
  omega

/-- non-vacuity: 2112 symbols (66 rows) run two complete blocks (128 accesses); 2100 symbols only one,
    the second block's last load would end at byte 2110 -/
example : (stripeAvx2With (some 31) 2112).length = 128 ∧ (stripeAvx2With (some 31) 2100).length = 64 ∧
    (stripeAvx2With none 2100).length = 128 := by decide +kernel

/-! ## encoders (`encode_into_avx2`, `encode_into_sse2`) -/

/-- the block loop for any table whose loads / stores fit in one vector of `stride` bytes: whenever
    the loop test passes (`i + stride <= l`, or `<`), the block `[i, i + stride)` is inside both the
    text and the destination -/
theorem encodeLoop_safe (tbl : List MemCall) (stride l : Nat) (strict : Bool) (sz : Sizes)
    (ht : sz .text = l) (hd : sz .dst = l)
    (hw1 : Window (sel tbl "src_ptr" 1) 0 1 stride 1) (hw2 : Window (sel tbl "dst_ptr" 1) 0 1 stride 1) :
    ∀ (fuel i : Nat), Safe sz (encodeLoop tbl stride strict l fuel i) := by
  intro fuel
  induction fuel with
  | zero => intro i; exact Safe_nil sz
  | succ n ih =>
    intro i
    simp only [encodeLoop]
    by_cases hc : (if strict = true then i + stride < l else i + stride ≤ l)
    · rw [if_pos hc]
      have hle : i + stride ≤ l := by
        cases strict <;> simp at hc <;> omega
      rw [Safe_append, Safe_append]
      refine ⟨⟨?_, ?_⟩, ih (i + stride)⟩
      · intro a ha
        obtain ⟨h1, h2, h3, h4⟩ := place_spec hw1 (Nat.mod_one i) ha
        exact ⟨by rw [h1, ht]; omega, h3, h4⟩
      · intro a ha
        obtain ⟨h1, h2, h3, h4⟩ := place_spec hw2 (Nat.mod_one i) ha
        exact ⟨by rw [h1, hd]; omega, h3, h4⟩
    · rw [if_neg hc]; exact Safe_nil sz

theorem encode_safe (tbl : List MemCall) (stride lsrc ldst stack : Nat) (strict : Bool)
    (hh : handled tbl [("src_ptr", 1), ("dst_ptr", 1), ("x", 0)] = true)
    (hw1 : Window (sel tbl "src_ptr" 1) 0 1 stride 1) (hw2 : Window (sel tbl "dst_ptr" 1) 0 1 stride 1)
    (hw3 : Window (sel tbl "x" 0) 0 1 stack 1) :
    Safe (encodeSizes lsrc ldst stack) (encode tbl stride strict lsrc ldst) := by
  unfold encode
  by_cases he : lsrc = ldst
  · rw [if_pos he]
    subst he
    rw [Safe_append, Safe_append]
    refine ⟨⟨fun a ha => absurd ha (not_mem_unhandled hh a), ?_⟩, ?_⟩
    · exact encodeLoop_safe tbl stride lsrc strict _ rfl rfl hw1 hw2 _ _
    · intro a ha
      obtain ⟨h1, h2, h3, h4⟩ := place_spec hw3 (Nat.mod_one 0) ha
      exact ⟨by rw [h1]; show a.off + a.width ≤ stack; omega, h3, h4⟩
  · rw [if_neg he]; exact Safe_nil _

/-- the regenerated encoder tables: one unaligned vector load from the text and one unaligned vector
    store to the destination per block, both of exactly the block width; SSE2 spills 16 bytes to its
    16-byte stack array -/
theorem encode_tables :
    handled Gen.MemOps.encodeAvx2 [("src_ptr", 1), ("dst_ptr", 1), ("x", 0)] = true ∧
    fitsPlain (sel Gen.MemOps.encodeAvx2 "src_ptr" 1) 1 Gen.MemOps.encodeAvx2Stride 1 = true ∧
    fitsPlain (sel Gen.MemOps.encodeAvx2 "dst_ptr" 1) 1 Gen.MemOps.encodeAvx2Stride 1 = true ∧
    fitsPlain (sel Gen.MemOps.encodeAvx2 "x" 0) 1 0 1 = true ∧
    handled Gen.MemOps.encodeSse2 [("src_ptr", 1), ("dst_ptr", 1), ("x", 0)] = true ∧
    fitsPlain (sel Gen.MemOps.encodeSse2 "src_ptr" 1) 1 Gen.MemOps.encodeSse2Stride 1 = true ∧
    fitsPlain (sel Gen.MemOps.encodeSse2 "dst_ptr" 1) 1 Gen.MemOps.encodeSse2Stride 1 = true ∧
    fitsPlain (sel Gen.MemOps.encodeSse2 "x" 0) 1 16 1 = true := by
  decide

/-- **C06, AVX2 encoder**: for all lengths of text and destination (the kernel asserts they are
    equal), every access is inside the text resp. the destination -/
theorem encode_avx2_inbounds (lsrc ldst : Nat) : Safe (encodeSizes lsrc ldst 0) (encodeAvx2 lsrc ldst) := by
  obtain ⟨h0, h1, h2, h3, -, -, -, -⟩ := encode_tables
  exact encode_safe _ _ lsrc ldst 0 _ h0 (window_of_fitsPlain _ 0 _ _ _ h1) (window_of_fitsPlain _ 0 _ _ _ h2)
    (window_of_fitsPlain _ 0 _ _ _ h3)

/-- **C06, SSE2 encoder** (`while i + 16 < l`: the 16-byte loads never reach the last byte) -/
theorem encode_sse2_inbounds (lsrc ldst : Nat) : Safe (encodeSizes lsrc ldst 16) (encodeSse2 lsrc ldst) := by
  obtain ⟨-, -, -, -, h0, h1, h2, h3⟩ := encode_tables
  exact encode_safe _ _ lsrc ldst 16 _ h0 (window_of_fitsPlain _ 0 _ _ _ h1) (window_of_fitsPlain _ 0 _ _ _ h2)
    (window_of_fitsPlain _ 0 _ _ _ h3)

/-- non-vacuity: 100 bytes = 3 AVX2 blocks (6 accesses); 6 SSE2 blocks (offsets 0..80) + the flag
    spill; nothing at all when the lengths differ (the kernel's `assert_eq!` panics first) -/
example : (encodeAvx2 100 100).length = 6 ∧ (encodeSse2 100 100).length = 13 ∧ (encodeAvx2 100 99).length = 0 := by
  decide +kernel

/-- with `<=` in place of `<` the SSE2 loop would still be in bounds (`i + 16 <= l`): the strict test
    is conservative, not a defect -/
example (l : Nat) : Safe (encodeSizes l l 16) (encode Gen.MemOps.encodeSse2 16 false l l) := by
  obtain ⟨-, -, -, -, h0, h1, h2, h3⟩ := encode_tables
  exact encode_safe _ 16 l l 16 false h0 (window_of_fitsPlain _ 0 _ _ _ h1) (window_of_fitsPlain _ 0 _ _ _ h2)
    (window_of_fitsPlain _ 0 _ _ _ h3)

/-! ## scoring (`score_f32_avx2_permute`, `score_f32_avx2_gather`, `score_u8_avx2_shuffle`, `score_sse2`) -/

theorem rowB_consts : rowB 32 1 = 32 ∧ rowB 32 4 = 128 ∧ rowB 16 1 = 32 ∧ rowB 16 4 = 64 := by decide

/-- the AVX2 scoring loop nest over rows `a..b` for any table whose sequence loads fit in a 32-byte
    row, whose scoring-matrix accesses fit in a row of the scoring matrix and whose stores fit in a
    row of the score matrix: in bounds as soon as the LAST row read, `b - 1 + M - 1`, exists -/
theorem scoreAvx2_safe (tbl : List MemCall) (K esz M Rm a b : Nat) (sz : Sizes)
    (hh : handled tbl [("seqptr", 2), ("pssmptr", 2), ("rowptr", 1)] = true)
    (hseq : Window (sel tbl "seqptr" 2) K 1 32 32)
    (hpssm : Window (sel tbl "pssmptr" 2) K esz (rowB K esz) 32)
    (hrow : Window (sel tbl "rowptr" 1) K esz (rowB 32 esz) 32)
    (hs1 : sz .seqmat = Rm * 32) (hs2 : sz .pssm = M * rowB K esz)
    (hs3 : sz .scores = (b - a) * rowB 32 esz) (hrange : b + M ≤ Rm + 1) :
    Safe sz (scoreAvx2 tbl K esz M a b) := by
  intro x hx
  unfold scoreAvx2 at hx
  rw [rowB_consts.1] at hx
  simp only [List.mem_append, List.mem_flatMap, List.mem_range] at hx
  rcases hx with hx | ⟨k, hk, hx | hx⟩
  · exact absurd hx (not_mem_unhandled hh x)
  · obtain ⟨j, hj, hx | hx⟩ := hx
    · obtain ⟨h1, h2, h3, h4⟩ := place_spec hseq (Nat.mul_mod_left _ 32) hx
      exact ⟨by rw [h1, hs1]; omega, h3, h4⟩
    · obtain ⟨h1, h2, h3, h4⟩ := place_spec hpssm (row_mod j K esz) hx
      have := row_end_le j M (rowB K esz) hj
      exact ⟨by rw [h1, hs2]; omega, h3, h4⟩
  · obtain ⟨h1, h2, h3, h4⟩ := place_spec hrow (row_mod k 32 esz) hx
    have := row_end_le k (b - a) (rowB 32 esz) hk
    exact ⟨by rw [h1, hs3]; omega, h3, h4⟩

/-- what the wrapper's checks give the kernel -/
theorem scoreGuard_spec {M L Rm W a b : Nat} (h : scoreGuard true M L Rm W a b = true) :
    1 ≤ M ∧ M - 1 ≤ W ∧ M ≤ L ∧ a < b ∧ b ≤ Rm ∧ M - 1 ≤ Rm - b := by
  simp only [scoreGuard, Bool.and_eq_true, Bool.or_eq_true, decide_eq_true_eq, Bool.not_eq_true',
    Bool.not_true, Bool.false_eq_true, false_or, Bool.or_eq_false_iff, decide_eq_false_iff_not] at h
  omega

/-- a safe AVX2 scoring call with the row-range check: every access of the kernel is in bounds -/
theorem scoreAvx2Call_safe (tbl : List MemCall) (K esz M L Rm W a b : Nat)
    (hh : handled tbl [("seqptr", 2), ("pssmptr", 2), ("rowptr", 1)] = true)
    (hseq : Window (sel tbl "seqptr" 2) K 1 32 32)
    (hpssm : Window (sel tbl "pssmptr" 2) K esz (rowB K esz) 32)
    (hrow : Window (sel tbl "rowptr" 1) K esz (rowB 32 esz) 32) :
    Safe (scoreSizes 32 K esz M Rm (b - a)) (scoreAvx2Call true tbl K esz M L Rm W a b) := by
  unfold scoreAvx2Call
  by_cases hg : scoreGuard true M L Rm W a b = true
  · rw [if_pos hg]
    obtain ⟨h1, -, -, h4, h5, h6⟩ := scoreGuard_spec hg
    have hv : visited Rm b = b := by unfold visited; omega
    rw [hv]
    exact scoreAvx2_safe tbl K esz M Rm a b _ hh hseq hpssm hrow
      (by show Rm * rowB 32 1 = _; rw [rowB_consts.1]) rfl rfl (by omega)
  · rw [if_neg hg]; exact Safe_nil _

/-- the regenerated tables of the three AVX2 scoring kernels -/
theorem scoreAvx2_tables :
    handled Gen.MemOps.scoreF32Avx2Permute [("seqptr", 2), ("pssmptr", 2), ("rowptr", 1)] = true ∧
    fitsPlain (sel Gen.MemOps.scoreF32Avx2Permute "seqptr" 2) 1 32 32 = true ∧
    fitsPlain (sel Gen.MemOps.scoreF32Avx2Permute "pssmptr" 2) 4 32 32 = true ∧
    fitsPlain (sel Gen.MemOps.scoreF32Avx2Permute "rowptr" 1) 4 128 32 = true ∧
    handled Gen.MemOps.scoreF32Avx2Gather [("seqptr", 2), ("pssmptr", 2), ("rowptr", 1)] = true ∧
    fitsPlain (sel Gen.MemOps.scoreF32Avx2Gather "seqptr" 2) 1 32 32 = true ∧
    (sel Gen.MemOps.scoreF32Avx2Gather "pssmptr" 2).all (fun c => c.intr == "_mm256_i32gather_ps") = true ∧
    fitsPlain (sel Gen.MemOps.scoreF32Avx2Gather "rowptr" 1) 4 128 32 = true ∧
    handled Gen.MemOps.scoreU8Avx2Shuffle [("seqptr", 2), ("pssmptr", 2), ("rowptr", 1)] = true ∧
    fitsPlain (sel Gen.MemOps.scoreU8Avx2Shuffle "seqptr" 2) 1 32 32 = true ∧
    fitsPlain (sel Gen.MemOps.scoreU8Avx2Shuffle "pssmptr" 2) 1 16 32 = true ∧
    fitsPlain (sel Gen.MemOps.scoreU8Avx2Shuffle "rowptr" 1) 1 32 32 = true := by
  decide

/-- **C06, `score_f32_avx2_permute`** (alphabets of 1..8 symbols: the 32-byte load of a scoring-matrix
    row of `K ≤ 8` floats stays inside the 32-byte-aligned row): every call that passes the wrapper's
    checks — `M ≥ 1`, `wrap ≥ M-1`, `len ≥ M`, non-empty range, last row read inside the matrix —
    is in bounds and aligned, for every `M, L, Rm, W, a, b` -/
theorem score_f32_avx2_permute_inbounds (K M L Rm W a b : Nat) (hK : 1 ≤ K) :
    Safe (scoreSizes 32 K 4 M Rm (b - a))
      (scoreAvx2Call true Gen.MemOps.scoreF32Avx2Permute K 4 M L Rm W a b) := by
  obtain ⟨h0, h1, h2, h3, -⟩ := scoreAvx2_tables
  refine scoreAvx2Call_safe _ K 4 M L Rm W a b h0 (window_of_fitsPlain _ K _ _ _ h1)
    ((window_of_fitsPlain _ K _ _ _ h2).mono (rowB_ge_32 K 4 (by omega))) ?_
  rw [rowB_consts.2.1]; exact window_of_fitsPlain _ K _ _ _ h3

/-- **C06, `score_f32_avx2_gather`** (any alphabet size: lane indices are symbols `< K`, the gathered
    floats lie in the first `4·K` bytes of the row) -/
theorem score_f32_avx2_gather_inbounds (K M L Rm W a b : Nat) :
    Safe (scoreSizes 32 K 4 M Rm (b - a))
      (scoreAvx2Call true Gen.MemOps.scoreF32Avx2Gather K 4 M L Rm W a b) := by
  obtain ⟨-, -, -, -, h0, h1, h2, h3, -⟩ := scoreAvx2_tables
  refine scoreAvx2Call_safe _ K 4 M L Rm W a b h0 (window_of_fitsPlain _ K _ _ _ h1)
    ((window_gather _ K 4 32 h2).mono (rowB_ge K 4)) ?_
  rw [rowB_consts.2.1]; exact window_of_fitsPlain _ K _ _ _ h3

/-- **C06, `score_u8_avx2_shuffle`** (the 16-byte `_mm_load_si128` of a scoring-matrix row of `K ≥ 1`
    bytes stays inside the 32-byte row and is 16-byte aligned) -/
theorem score_u8_avx2_shuffle_inbounds (K M L Rm W a b : Nat) (hK : 1 ≤ K) :
    Safe (scoreSizes 32 K 1 M Rm (b - a))
      (scoreAvx2Call true Gen.MemOps.scoreU8Avx2Shuffle K 1 M L Rm W a b) := by
  obtain ⟨-, -, -, -, -, -, -, -, h0, h1, h2, h3⟩ := scoreAvx2_tables
  refine scoreAvx2Call_safe _ K 1 M L Rm W a b h0 (window_of_fitsPlain _ K _ _ _ h1)
    ((window_of_fitsPlain _ K _ _ _ h2).mono (by have := rowB_ge_32 K 1 (by omega); omega)) ?_
  rw [rowB_consts.1]; exact window_of_fitsPlain _ K _ _ _ h3

/-- **the second defect found in the unchanged code**: without the row-range check (the wrappers only
    checked `wrap ≥ M-1`), scoring rows `1..4` of a 4-row matrix (2 sequence rows + 2 wrap rows) with
    a motif of 2 rows reads row 4 = bytes 128..160 of a 128-byte matrix — the access AddressSanitizer
    reports -/
theorem score_avx2_asIs_counterexample :
    ¬ Safe (scoreSizes 32 5 4 2 4 3) (scoreAvx2Call false Gen.MemOps.scoreF32Avx2Permute 5 4 2 56 4 2 1 4) := by
  decide +kernel

example : firstBad (scoreSizes 32 5 4 2 4 3) (scoreAvx2Call false Gen.MemOps.scoreF32Avx2Permute 5 4 2 56 4 2 1 4)
    = some ⟨.seqmat, 128, 32, .read, 32⟩ := by decide +kernel

/-- non-vacuity: an in-contract call (3 rows, motif of 2) performs 24 / 522 / 15 accesses -/
example : (scoreAvx2Call true Gen.MemOps.scoreF32Avx2Permute 5 4 2 56 4 2 0 3).length = 24 ∧
    (scoreAvx2Call true Gen.MemOps.scoreF32Avx2Gather 21 4 2 56 4 2 0 3).length = 522 ∧
    (scoreAvx2Call true Gen.MemOps.scoreU8Avx2Shuffle 5 1 2 56 5 2 0 3).length = 15 := by decide +kernel

/-- the SSE2 scoring loop nest for `C` columns (a multiple of 16): one pass per 16 columns -/
theorem scoreSse2_safe (tbl : List MemCall) (C K M Rm a b : Nat) (sz : Sizes)
    (hh : handled tbl [("dataptr", 3), ("pssmptr", 4), ("rowptr", 2)] = true)
    (hseq : Window (sel tbl "dataptr" 3) K 1 16 16)
    (hpssm : Window (sel tbl "pssmptr" 4) K 4 (rowB K 4) 32)
    (hrow : Window (sel tbl "rowptr" 2) K 4 64 16)
    (hs1 : sz .seqmat = Rm * rowB C 1) (hs2 : sz .pssm = M * rowB K 4)
    (hs3 : sz .scores = (b - a) * rowB C 4) (hrange : b + M ≤ Rm + 1) :
    Safe sz (scoreSse2 tbl C K M a b) := by
  intro x hx
  unfold scoreSse2 at hx
  simp only [List.mem_append, List.mem_flatMap, List.mem_range] at hx
  rcases hx with hx | ⟨q, hq, k, hk, hx | hx⟩
  · exact absurd hx (not_mem_unhandled hh x)
  · obtain ⟨j, hj, hx | hx⟩ := hx
    · have hb : ((a + k + j) * rowB C 1 + q * 16) % 16 = 0 := by
        have := row_mod (a + k + j) C 1; omega
      obtain ⟨h1, h2, h3, h4⟩ := place_spec hseq hb hx
      have hrow := row_end_le (a + k + j) Rm (rowB C 1) (by omega)
      have hC := rowB_ge C 1
      exact ⟨by rw [h1, hs1]; omega, h3, h4⟩
    · obtain ⟨h1, h2, h3, h4⟩ := place_spec hpssm (row_mod j K 4) hx
      have := row_end_le j M (rowB K 4) hj
      exact ⟨by rw [h1, hs2]; omega, h3, h4⟩
  · have hb : (k * rowB C 4 + q * 16 * 4) % 16 = 0 := by
      have := row_mod k C 4; omega
    obtain ⟨h1, h2, h3, h4⟩ := place_spec hrow hb hx
    have hrow := row_end_le k (b - a) (rowB C 4) hk
    have hC := rowB_ge C 4
    exact ⟨by rw [h1, hs3]; omega, h3, h4⟩

theorem scoreSse2_table :
    handled Gen.MemOps.scoreSse2 [("dataptr", 3), ("pssmptr", 4), ("rowptr", 2)] = true ∧
    fitsPlain (sel Gen.MemOps.scoreSse2 "dataptr" 3) 1 16 16 = true ∧
    (sel Gen.MemOps.scoreSse2 "pssmptr" 4).all (fun c => c.intr == "_mm_load1_ps" && c.sym != "") = true ∧
    fitsPlain (sel Gen.MemOps.scoreSse2 "rowptr" 2) 4 64 16 = true := by
  decide

/-- **C06, `score_sse2`**: for every column count (the kernel runs `C / 16` passes), alphabet size and
    every call that passes the wrapper's checks, all accesses are in bounds; the 16-byte sequence loads
    and score stores are 16-byte aligned, the scalar loads of the scoring matrix 4-byte aligned -/
theorem score_sse2_inbounds (C K M L Rm W a b : Nat) :
    Safe (scoreSizes C K 4 M Rm (b - a)) (scoreSse2Call true Gen.MemOps.scoreSse2 C K M L Rm W a b) := by
  obtain ⟨h0, h1, h2, h3⟩ := scoreSse2_table
  unfold scoreSse2Call
  by_cases hg : scoreGuard true M L Rm W a b = true
  · rw [if_pos hg]
    obtain ⟨g1, -, -, g4, g5, g6⟩ := scoreGuard_spec hg
    have hv : visited Rm b = b := by unfold visited; omega
    rw [hv]
    exact scoreSse2_safe _ C K M Rm a b _ h0 (window_of_fitsPlain _ K _ _ _ h1)
      ((window_sym _ K 32 (by decide) h2).mono (rowB_ge K 4)) (window_of_fitsPlain _ K _ _ _ h3)
      rfl rfl rfl (by omega)
  · rw [if_neg hg]; exact Safe_nil _

theorem score_sse2_asIs_counterexample :
    ¬ Safe (scoreSizes 16 5 4 2 3 1) (scoreSse2Call false Gen.MemOps.scoreSse2 16 5 2 30 3 1 2 3) := by
  decide +kernel

example : (scoreSse2Call true Gen.MemOps.scoreSse2 32 5 2 56 4 2 0 3).length = 96 := by decide +kernel

/-! ## maxima (`argmax_f32_avx2`, `max_f32_avx2`, `argmax_u8_avx2`, `max_u8_avx2`, `argmax_sse2`) -/

/-- the AVX2 reductions on a score matrix of `rows` rows: nothing is touched when the matrix is empty
    (`is_empty()`), otherwise row 0 exists for the loads before the loop -/
theorem reduceAvx2_safe (tbl : List MemCall) (esz xesz rows stack : Nat)
    (hh : handled tbl [("dataptr", 0), ("dataptr", 1), ("x", 0)] = true)
    (hd0 : Window (sel tbl "dataptr" 0) 0 esz (rowB 32 esz) 32)
    (hd1 : Window (sel tbl "dataptr" 1) 0 esz (rowB 32 esz) 32)
    (hx : Window (sel tbl "x" 0) 0 xesz stack 1) :
    Safe (reduceSizes 32 esz rows stack) (reduceAvx2 tbl esz xesz rows) := by
  unfold reduceAvx2
  by_cases h0 : rows = 0
  · rw [if_pos h0]; exact Safe_nil _
  · rw [if_neg h0]
    intro a ha
    simp only [List.mem_append, List.mem_flatMap, List.mem_range] at ha
    rcases ha with ((ha | ha) | ⟨i, hi, ha⟩) | ha
    · exact absurd ha (not_mem_unhandled hh a)
    · obtain ⟨h1, h2, h3, h4⟩ := place_spec hd0 (Nat.zero_mod 32) ha
      have := row_end_le 0 rows (rowB 32 esz) (by omega)
      exact ⟨by rw [h1]; show a.off + a.width ≤ rows * rowB 32 esz; omega, h3, h4⟩
    · obtain ⟨h1, h2, h3, h4⟩ := place_spec hd1 (row_mod i 32 esz) ha
      have := row_end_le i rows (rowB 32 esz) hi
      exact ⟨by rw [h1]; show a.off + a.width ≤ rows * rowB 32 esz; omega, h3, h4⟩
    · obtain ⟨h1, h2, h3, h4⟩ := place_spec hx (Nat.mod_one 0) ha
      exact ⟨by rw [h1]; show a.off + a.width ≤ stack; omega, h3, h4⟩

theorem reduce_tables :
    handled Gen.MemOps.argmaxF32Avx2 [("dataptr", 0), ("dataptr", 1), ("x", 0)] = true ∧
    fitsPlain (sel Gen.MemOps.argmaxF32Avx2 "dataptr" 0) 4 128 32 = true ∧
    fitsPlain (sel Gen.MemOps.argmaxF32Avx2 "dataptr" 1) 4 128 32 = true ∧
    fitsPlain (sel Gen.MemOps.argmaxF32Avx2 "x" 0) 4 128 1 = true ∧
    handled Gen.MemOps.maxF32Avx2 [("dataptr", 0), ("dataptr", 1), ("x", 0)] = true ∧
    fitsPlain (sel Gen.MemOps.maxF32Avx2 "dataptr" 0) 4 128 32 = true ∧
    fitsPlain (sel Gen.MemOps.maxF32Avx2 "dataptr" 1) 4 128 32 = true ∧
    fitsPlain (sel Gen.MemOps.maxF32Avx2 "x" 0) 4 32 1 = true ∧
    handled Gen.MemOps.argmaxU8Avx2 [("dataptr", 0), ("dataptr", 1), ("x", 0)] = true ∧
    fitsPlain (sel Gen.MemOps.argmaxU8Avx2 "dataptr" 0) 1 32 32 = true ∧
    fitsPlain (sel Gen.MemOps.argmaxU8Avx2 "dataptr" 1) 1 32 32 = true ∧
    fitsPlain (sel Gen.MemOps.argmaxU8Avx2 "x" 0) 2 64 1 = true ∧
    handled Gen.MemOps.maxU8Avx2 [("dataptr", 0), ("dataptr", 1), ("x", 0)] = true ∧
    fitsPlain (sel Gen.MemOps.maxU8Avx2 "dataptr" 0) 1 32 32 = true ∧
    fitsPlain (sel Gen.MemOps.maxU8Avx2 "dataptr" 1) 1 32 32 = true ∧
    fitsPlain (sel Gen.MemOps.maxU8Avx2 "x" 0) 1 32 1 = true := by
  decide

/-- **C06, `argmax_f32_avx2`**: any row count (0 included: nothing is read); the indices are spilled
    into `[u32; 32]` (128 bytes) by four 32-byte stores at elements 0, 8, 16, 24 -/
theorem argmax_f32_avx2_inbounds (rows : Nat) :
    Safe (reduceSizes 32 4 rows 128) (reduceAvx2 Gen.MemOps.argmaxF32Avx2 4 4 rows) := by
  obtain ⟨h0, h1, h2, h3, -⟩ := reduce_tables
  have e := rowB_consts.2.1
  exact reduceAvx2_safe _ 4 4 rows 128 h0 (by rw [e]; exact window_of_fitsPlain _ 0 _ _ _ h1)
    (by rw [e]; exact window_of_fitsPlain _ 0 _ _ _ h2) (window_of_fitsPlain _ 0 _ _ _ h3)

/-- **C06, `max_f32_avx2`** (`[f32; 8]` on the stack) -/
theorem max_f32_avx2_inbounds (rows : Nat) :
    Safe (reduceSizes 32 4 rows 32) (reduceAvx2 Gen.MemOps.maxF32Avx2 4 4 rows) := by
  obtain ⟨-, -, -, -, h0, h1, h2, h3, -⟩ := reduce_tables
  have e := rowB_consts.2.1
  exact reduceAvx2_safe _ 4 4 rows 32 h0 (by rw [e]; exact window_of_fitsPlain _ 0 _ _ _ h1)
    (by rw [e]; exact window_of_fitsPlain _ 0 _ _ _ h2) (window_of_fitsPlain _ 0 _ _ _ h3)

/-- **C06, `argmax_u8_avx2`** (`[u16; 32]` on the stack, two 32-byte stores at elements 0 and 16) -/
theorem argmax_u8_avx2_inbounds (rows : Nat) :
    Safe (reduceSizes 32 1 rows 64) (reduceAvx2 Gen.MemOps.argmaxU8Avx2 1 2 rows) := by
  obtain ⟨-, -, -, -, -, -, -, -, h0, h1, h2, h3, -⟩ := reduce_tables
  have e := rowB_consts.1
  exact reduceAvx2_safe _ 1 2 rows 64 h0 (by rw [e]; exact window_of_fitsPlain _ 0 _ _ _ h1)
    (by rw [e]; exact window_of_fitsPlain _ 0 _ _ _ h2) (window_of_fitsPlain _ 0 _ _ _ h3)

/-- **C06, `max_u8_avx2`** (`[u8; 32]` on the stack) -/
theorem max_u8_avx2_inbounds (rows : Nat) :
    Safe (reduceSizes 32 1 rows 32) (reduceAvx2 Gen.MemOps.maxU8Avx2 1 1 rows) := by
  obtain ⟨-, -, -, -, -, -, -, -, -, -, -, -, h0, h1, h2, h3⟩ := reduce_tables
  have e := rowB_consts.1
  exact reduceAvx2_safe _ 1 1 rows 32 h0 (by rw [e]; exact window_of_fitsPlain _ 0 _ _ _ h1)
    (by rw [e]; exact window_of_fitsPlain _ 0 _ _ _ h2) (window_of_fitsPlain _ 0 _ _ _ h3)

/-- the `is_empty` guard matters: without it the loads before the loop of `argmax_f32_avx2` would read
    row 0 of an empty matrix -/
example : ¬ Safe (reduceSizes 32 4 0 128) (place Gen.MemOps.argmaxF32Avx2 "dataptr" 0 0 .scores 0 4) := by
  decide +kernel

example : (reduceAvx2 Gen.MemOps.argmaxF32Avx2 4 4 3).length = 20 ∧ (reduceAvx2 Gen.MemOps.argmaxF32Avx2 4 4 0).length = 0 ∧
    (reduceAvx2 Gen.MemOps.maxU8Avx2 1 1 3).length = 4 := by decide +kernel

/-- `argmax_sse2` for `C` columns: four 16-byte loads per row and pass, four 16-byte stores per pass
    into `GenericArray<u32, C>` (`4·C` bytes) -/
theorem argmaxSse2_safe (tbl : List MemCall) (C rows : Nat)
    (hh : handled tbl [("dataptr", 2), ("outptr", 1)] = true)
    (hd : Window (sel tbl "dataptr" 2) 0 4 64 16) (ho : Window (sel tbl "outptr" 1) 0 4 64 1) :
    Safe (reduceSizes C 4 rows (4 * C)) (argmaxSse2 tbl C rows) := by
  unfold argmaxSse2
  by_cases h0 : rows = 0
  · rw [if_pos h0]; exact Safe_nil _
  · rw [if_neg h0]
    intro a ha
    simp only [List.mem_append, List.mem_flatMap, List.mem_range] at ha
    rcases ha with ha | ⟨q, hq, ⟨i, hi, ha⟩ | ha⟩
    · exact absurd ha (not_mem_unhandled hh a)
    · have hb : (i * rowB C 4 + q * 16 * 4) % 16 = 0 := by
        have := row_mod i C 4; omega
      obtain ⟨h1, h2, h3, h4⟩ := place_spec hd hb ha
      have hrow := row_end_le i rows (rowB C 4) hi
      have hC := rowB_ge C 4
      exact ⟨by rw [h1]; show a.off + a.width ≤ rows * rowB C 4; omega, h3, h4⟩
    · obtain ⟨h1, h2, h3, h4⟩ := place_spec ho (Nat.mod_one _) ha
      exact ⟨by rw [h1]; show a.off + a.width ≤ 4 * C; omega, h3, h4⟩

theorem argmaxSse2_table :
    handled Gen.MemOps.argmaxSse2 [("dataptr", 2), ("outptr", 1)] = true ∧
    fitsPlain (sel Gen.MemOps.argmaxSse2 "dataptr" 2) 4 64 16 = true ∧
    fitsPlain (sel Gen.MemOps.argmaxSse2 "outptr" 1) 4 64 1 = true := by
  decide

/-- **C06, `argmax_sse2`**: every column count, every row count -/
theorem argmax_sse2_inbounds (C rows : Nat) :
    Safe (reduceSizes C 4 rows (4 * C)) (argmaxSse2 Gen.MemOps.argmaxSse2 C rows) := by
  obtain ⟨h0, h1, h2⟩ := argmaxSse2_table
  exact argmaxSse2_safe _ C rows h0 (window_of_fitsPlain _ 0 _ _ _ h1) (window_of_fitsPlain _ 0 _ _ _ h2)

example : (argmaxSse2 Gen.MemOps.argmaxSse2 32 3).length = 32 := by decide +kernel

/-! ## dense matrix (`fill` / `ravel_mut`, `uninitialized`, `from_rows`, `encode_raw`) -/

/-- **C06, `DenseMatrix::fill`** (and the extent of `ravel` / `ravel_mut`): the slice of
    `rows · stride()` elements covers at most the `rows` rows of the matrix, every element write is
    inside it and element-aligned — for every column count, element size ≥ 1 and row count -/
theorem fill_inbounds (C size rows : Nat) (hs : 0 < size) :
    Safe (matSizes C size rows) (fill C size rows) := by
  intro a ha
  unfold fill at ha
  simp only [List.mem_map, List.mem_range] at ha
  obtain ⟨k, hk, rfl⟩ := ha
  refine ⟨?_, hs, Nat.mul_mod_left k size⟩
  show k * size + size ≤ rows * rowB C size
  have h1 : Dense.stride C size ALIGN * size ≤ rowB C size := Nat.div_mul_le_self _ _
  have h2 : (k + 1) * size ≤ rows * Dense.stride C size ALIGN * size := Nat.mul_le_mul_right size hk
  have h3 : rows * Dense.stride C size ALIGN * size ≤ rows * rowB C size := by
    rw [Nat.mul_assoc]; exact Nat.mul_le_mul_left rows h1
  rw [Nat.add_mul, Nat.one_mul] at h2
  omega

/-- `DenseMatrix::uninitialized(rows)` (`reserve(rows)` on an empty `Vec`, then `set_len(rows)`),
    `from_rows` (which then indexes rows `0..rows` only) and `Encode::encode_raw`
    (`with_capacity(n)`, `set_len(n)`): the new length never exceeds the capacity, given std's
    contract that `reserve` / `with_capacity` provide at least what was asked -/
theorem set_len_within_capacity (len additional cap n : Nat) (hcontract : len + additional ≤ cap)
    (hlen : len = 0) (hn : n = additional) : n ≤ cap := by omega

/-- `from_rows` writes exactly the rows it allocated (`for (i, row) in it.enumerate()` with
    `i < it.len()` = the row count given to `uninitialized`) -/
theorem from_rows_indices (n : Nat) : ∀ i ∈ List.range n, i < n := fun _ h => List.mem_range.mp h

example : (fill 5 4 3).length = 24 ∧ (fill 43 1 2).length = 128 := by decide +kernel

/-! ## the hand-mirrored loop structure, pinned to the source

  The access models place each pointer variable by the kernel's loop structure: where it is
  initialised (which row of which matrix, at which loop depth) and by how much it advances per
  iteration (one row / one vector).  These statements of the source are regenerated into
  `Gen.MemOps.*Init` / `*Step`; the equalities below are what LMV/Mem/Kernels.lean assumes.  A change
  of a pointer initialisation or increment in the source changes the regenerated table and this
  theorem no longer checks. -/
theorem pointer_walks :
    Gen.MemOps.encodeAvx2Init = [⟨"dst_ptr", "dst.as_mut_ptr()", 0⟩, ⟨"src_ptr", "seq.as_ptr()", 0⟩] ∧
    Gen.MemOps.encodeAvx2Step = [⟨"dst_ptr", "STRIDE", 1⟩, ⟨"src_ptr", "STRIDE", 1⟩] ∧
    Gen.MemOps.scoreF32Avx2PermuteInit = [⟨"pssmptr", "pssm[0].as_ptr()", 1⟩, ⟨"rowptr", "data[0].as_mut_ptr()", 0⟩, ⟨"seqptr", "seq.matrix()[i].as_ptr()", 1⟩] ∧
    Gen.MemOps.scoreF32Avx2PermuteStep = [⟨"pssmptr", "pssm.stride()", 2⟩, ⟨"rowptr", "data.stride()", 1⟩, ⟨"seqptr", "seq.matrix().stride()", 2⟩] ∧
    Gen.MemOps.scoreF32Avx2GatherInit = [⟨"pssmptr", "pssm[0].as_ptr()", 1⟩, ⟨"rowptr", "data[0].as_mut_ptr()", 0⟩, ⟨"seqptr", "seq.matrix()[i].as_ptr()", 1⟩] ∧
    Gen.MemOps.scoreF32Avx2GatherStep = [⟨"pssmptr", "pssm.stride()", 2⟩, ⟨"rowptr", "data.stride()", 1⟩, ⟨"seqptr", "seq.matrix().stride()", 2⟩] ∧
    Gen.MemOps.scoreU8Avx2ShuffleInit = [⟨"pssmptr", "pssm[0].as_ptr()", 1⟩, ⟨"rowptr", "data[0].as_mut_ptr()as*muti8", 0⟩, ⟨"seqptr", "seq.matrix()[i].as_ptr()", 1⟩] ∧
    Gen.MemOps.scoreU8Avx2ShuffleStep = [⟨"pssmptr", "pssm.stride()", 2⟩, ⟨"rowptr", "data.stride()", 1⟩, ⟨"seqptr", "seq.matrix().stride()", 2⟩] ∧
    Gen.MemOps.argmaxF32Avx2Init = [⟨"dataptr", "data[0].as_ptr()", 0⟩] ∧
    Gen.MemOps.argmaxF32Avx2Step = [⟨"dataptr", "data.stride()", 1⟩] ∧
    Gen.MemOps.maxF32Avx2Init = [⟨"dataptr", "data[0].as_ptr()", 0⟩] ∧
    Gen.MemOps.maxF32Avx2Step = [⟨"dataptr", "data.stride()", 1⟩] ∧
    Gen.MemOps.argmaxU8Avx2Init = [⟨"dataptr", "data[0].as_ptr()", 0⟩] ∧
    Gen.MemOps.argmaxU8Avx2Step = [⟨"dataptr", "data.stride()", 1⟩] ∧
    Gen.MemOps.maxU8Avx2Init = [⟨"dataptr", "data[0].as_ptr()", 0⟩] ∧
    Gen.MemOps.maxU8Avx2Step = [⟨"dataptr", "data.stride()", 1⟩] ∧
    Gen.MemOps.encodeSse2Init = [⟨"dst_ptr", "dst.as_mut_ptr()", 0⟩, ⟨"src_ptr", "seq.as_ptr()", 0⟩] ∧
    Gen.MemOps.encodeSse2Step = [⟨"dst_ptr", "STRIDE", 1⟩, ⟨"src_ptr", "STRIDE", 1⟩] ∧
    Gen.MemOps.scoreSse2Init = [⟨"dataptr", "seq.matrix()[i].as_ptr().add(offset)", 2⟩, ⟨"pssmptr", "pssm[0].as_ptr()", 2⟩, ⟨"rowptr", "data[0].as_mut_ptr().add(offset)", 1⟩] ∧
    Gen.MemOps.scoreSse2Step = [⟨"dataptr", "seq.matrix().stride()", 3⟩, ⟨"pssmptr", "pssm.stride()", 3⟩, ⟨"rowptr", "data.stride()", 2⟩] ∧
    Gen.MemOps.argmaxSse2Init = [⟨"dataptr", "data[0].as_ptr().add(offset)", 1⟩, ⟨"outptr", "output.as_mut_ptr().add(offset)", 1⟩] ∧
    Gen.MemOps.argmaxSse2Step = [⟨"dataptr", "data.stride()", 2⟩] := by
  decide

/-- the stack arrays the kernels spill to through raw pointers, as declared in the source: their
    sizes are the `stack` sizes of the theorems above (`[u32; 32]` = 128 bytes, `[f32; 8]` = 32,
    `[u16; 32]` = 64, `[u8; 32]` = 32, `[u8; 16]` = 16, `GenericArray<u32, C>` = `4·C`) -/
theorem stack_arrays :
    Gen.MemOps.argmaxF32Avx2Arrays = [("x", "u32", "32")] ∧ Gen.MemOps.maxF32Avx2Arrays = [("x", "f32", "8")] ∧
    Gen.MemOps.argmaxU8Avx2Arrays = [("x", "u16", "32")] ∧ Gen.MemOps.maxU8Avx2Arrays = [("x", "u8", "32")] ∧
    Gen.MemOps.encodeSse2Arrays = [("x", "u8", "16")] ∧ Gen.MemOps.argmaxSse2Arrays = [("outptr", "u32", "C")] ∧
    Gen.MemOps.encodeAvx2Arrays = [] ∧ Gen.MemOps.scoreF32Avx2PermuteArrays = [] ∧
    Gen.MemOps.scoreF32Avx2GatherArrays = [] ∧ Gen.MemOps.scoreU8Avx2ShuffleArrays = [] ∧
    Gen.MemOps.scoreSse2Arrays = [] := by
  decide

/-! ## the safe public API: every kernel run of every entry point, on every backend and arm -/

/-- all four safe scoring wrappers carry the row-range check (regenerated from the source) -/
theorem rangeChecks_present :
    rangeCheckOf "score_f32_rows_into_permute" = true ∧ rangeCheckOf "score_f32_rows_into_gather" = true ∧
    rangeCheckOf "score_u8_rows_into_shuffle" = true ∧ rangeCheckOf "score_rows_into" = true := by
  decide

/-- `encode` / `encode_raw` / `encode_into` of `l` bytes on any backend or dispatcher arm -/
theorem encodeRuns_safe (b : Backend) (l : Nat) : ∀ r ∈ encodeRuns b l, r.Safe := by
  intro r hr
  cases b <;> simp only [encodeRuns, List.mem_singleton, List.not_mem_nil] at hr <;> subst hr
  · exact encode_sse2_inbounds l l
  · exact encode_avx2_inbounds l l
  · exact encode_avx2_inbounds l l

/-- `stripe` / `stripe_into` / `to_striped` of `l` symbols on any backend or arm -/
theorem stripeRuns_safe (b : Backend) (l : Nat) : ∀ r ∈ stripeRuns b l, r.Safe := by
  intro r hr
  cases b <;> simp only [stripeRuns, List.mem_singleton, List.not_mem_nil] at hr <;> subst hr
  · exact stripe_avx2_inbounds l
  · exact stripe_avx2_inbounds l

/-- `score_rows_into` / `score_into` / `score` with `f32` scores: any backend or arm, any column count
    for SSE2, any alphabet size `K ≥ 1`, any motif width, sequence length, row count, wrap and row
    range — including all those the wrappers reject -/
theorem scoreF32Runs_safe (b : Backend) (C K M L Rm W a₀ b₀ : Nat) (hK : 1 ≤ K) :
    ∀ r ∈ scoreF32Runs b C K M L Rm W a₀ b₀, r.Safe := by
  obtain ⟨c1, c2, -, c4⟩ := rangeChecks_present
  intro r hr
  cases b <;> simp only [scoreF32Runs, List.not_mem_nil] at hr
  · rw [c4] at hr; simp only [List.mem_singleton] at hr; subst hr
    exact score_sse2_inbounds C K M L Rm W a₀ b₀
  · by_cases h8 : K ≤ 8
    · rw [if_pos h8, c1] at hr; simp only [List.mem_singleton] at hr; subst hr
      exact score_f32_avx2_permute_inbounds K M L Rm W a₀ b₀ hK
    · rw [if_neg h8, c2] at hr; simp only [List.mem_singleton] at hr; subst hr
      exact score_f32_avx2_gather_inbounds K M L Rm W a₀ b₀
  · rw [c4] at hr; simp only [List.mem_singleton] at hr; subst hr
    exact score_sse2_inbounds C K M L Rm W a₀ b₀
  · by_cases h8 : K ≤ 8
    · rw [if_pos h8, c1] at hr; simp only [List.mem_singleton] at hr; subst hr
      exact score_f32_avx2_permute_inbounds K M L Rm W a₀ b₀ hK
    · rw [if_neg h8, c2] at hr; simp only [List.mem_singleton] at hr; subst hr
      exact score_f32_avx2_gather_inbounds K M L Rm W a₀ b₀

/-- the same with `u8` scores -/
theorem scoreU8Runs_safe (b : Backend) (K M L Rm W a₀ b₀ : Nat) (hK : 1 ≤ K) :
    ∀ r ∈ scoreU8Runs b K M L Rm W a₀ b₀, r.Safe := by
  obtain ⟨-, -, c3, -⟩ := rangeChecks_present
  intro r hr
  cases b <;> simp only [scoreU8Runs, List.not_mem_nil] at hr <;>
    (rw [c3] at hr; simp only [List.mem_singleton] at hr; subst hr
     exact score_u8_avx2_shuffle_inbounds K M L Rm W a₀ b₀ hK)

/-- `max` / `argmax` / `threshold` on a score matrix of any row count -/
theorem maxF32Runs_safe (b : Backend) (w : Which) (C rows : Nat) : ∀ r ∈ maxF32Runs b w C rows, r.Safe := by
  intro r hr
  cases b <;> cases w <;> simp only [maxF32Runs, List.mem_singleton, List.not_mem_nil] at hr <;> subst hr
  · exact argmax_sse2_inbounds C rows
  · exact argmax_sse2_inbounds C rows
  · exact max_f32_avx2_inbounds rows
  · exact argmax_f32_avx2_inbounds rows
  · exact argmax_sse2_inbounds C rows
  · exact max_f32_avx2_inbounds rows
  · exact argmax_f32_avx2_inbounds rows

theorem maxU8Runs_safe (b : Backend) (w : Which) (rows : Nat) : ∀ r ∈ maxU8Runs b w rows, r.Safe := by
  intro r hr
  cases b <;> cases w <;> simp only [maxU8Runs, List.mem_singleton, List.not_mem_nil] at hr <;> subst hr
  · exact max_u8_avx2_inbounds rows
  · exact argmax_u8_avx2_inbounds rows
  · exact max_u8_avx2_inbounds rows
  · exact argmax_u8_avx2_inbounds rows

/-- the scanner: every block any `next` / `max` / `collect` can reach, any block size -/
theorem scanRuns_safe (b : Backend) (K M L Rm W block : Nat) (hK : 1 ≤ K) :
    ∀ r ∈ scanRuns b K M L Rm W block, r.Safe := by
  intro r hr
  unfold scanRuns at hr
  by_cases h0 : block = 0
  · rw [if_pos h0] at hr; cases hr
  · rw [if_neg h0] at hr
    unfold scanBlocks at hr
    simp only [List.mem_flatMap, List.mem_range] at hr
    obtain ⟨n, -, hr⟩ := hr
    by_cases hn : n * block < Rm
    · rw [if_pos hn] at hr
      rcases List.mem_append.mp hr with h | h
      · exact scoreU8Runs_safe b K M L Rm W _ _ hK r h
      · by_cases hc : L < M ∨ min (n * block + block) (Rm - W) ≤ n * block
        · rw [if_pos hc] at h; cases h
        · rw [if_neg hc] at h; exact maxU8Runs_safe b .max _ r h
    · rw [if_neg hn] at hr; cases hr

/-- the Gibbs sampler: every step of every run -/
theorem sampleRuns_safe (b : Backend) (K L w steps : Nat) (hK : 1 ≤ K) :
    ∀ r ∈ sampleRuns b K L w steps, r.Safe := by
  intro r hr
  unfold sampleRuns at hr
  simp only [List.mem_flatMap, List.mem_range] at hr
  obtain ⟨_, -, hr⟩ := hr
  exact scoreF32Runs_safe b 32 K w L _ w 0 _ hK r hr

/-- matrix construction, fill, resize, clone -/
theorem denseRuns_safe (C size rows : Nat) (hs : 0 < size) : ∀ r ∈ denseRuns C size rows, r.Safe := by
  intro r hr
  simp only [denseRuns, List.mem_cons, List.not_mem_nil, or_false] at hr
  rcases hr with rfl | rfl | rfl
  · exact fill_inbounds C size rows hs
  · exact fill_inbounds C size (rows + 3) hs
  · exact fill_inbounds C size (rows / 2) hs

/-- what the driver prints: `firstBadRun` finds nothing in a list of safe runs -/
theorem firstBadRun_none (rs : List Run) (h : ∀ r ∈ rs, r.Safe) : firstBadRun rs = none := by
  induction rs with
  | nil => rfl
  | cons r rs ih =>
    have h1 : firstBad r.1 r.2 = none := (firstBad_none_iff r.1 r.2).mpr (h r (by simp))
    simp only [firstBadRun, h1]
    exact ih (fun r' hr' => h r' (by simp [hr']))

/-- **C06 for the modelled kernels**: whatever the sizes — sequence length, motif width, alphabet size
    `K ≥ 1`, column count, rows of the sequence matrix, wrap rows, row range, rows of the score
    matrix, block size, number of sampler steps — and whatever the backend or dispatcher arm, every
    memory access of every unsafe kernel executed by `encode*`, `stripe*`, `score*`, `max`, `argmax`,
    `threshold`, `Scanner`, `Sampler` and `DenseMatrix::{from_rows, fill}` lies inside the buffer it
    was given and every aligned access is aligned (buffers laid out as in C19). -/
theorem api_inbounds (b : Backend) (w : Which) (C K M L Rm W a₀ b₀ rows block steps size : Nat)
    (hK : 1 ≤ K) (hs : 0 < size) :
    ∀ r ∈ encodeRuns b L ++ stripeRuns b L ++ scoreF32Runs b C K M L Rm W a₀ b₀ ++
          scoreU8Runs b K M L Rm W a₀ b₀ ++ maxF32Runs b w C rows ++ maxU8Runs b w rows ++
          scanRuns b K M L Rm W block ++ sampleRuns b K L M steps ++ denseRuns C size rows, r.Safe := by
  intro r hr
  simp only [List.mem_append] at hr
  rcases hr with (((((((h | h) | h) | h) | h) | h) | h) | h) | h
  · exact encodeRuns_safe b L r h
  · exact stripeRuns_safe b L r h
  · exact scoreF32Runs_safe b C K M L Rm W a₀ b₀ hK r h
  · exact scoreU8Runs_safe b K M L Rm W a₀ b₀ hK r h
  · exact maxF32Runs_safe b w C rows r h
  · exact maxU8Runs_safe b w rows r h
  · exact scanRuns_safe b K M L Rm W block hK r h
  · exact sampleRuns_safe b K L M steps hK r h
  · exact denseRuns_safe C size rows hs r h

/-- non-vacuity: a scan of 70 rows (+4 wrap rows) in blocks of 16 on the AVX2 arm runs 5 scoring
    kernels and 5 reductions; a sampler of 3 steps runs 3 scoring kernels -/
example : (scanRuns .dispAvx2 5 5 2240 74 4 16).length = 10 ∧ (sampleRuns .dispAvx2 21 100 8 3).length = 3 := by
  decide +kernel

/-! ### the full statement, and what of it is proved

  `Statement`: the property as given — no access of the LIBRARY outside live allocations, for every
  in-contract call sequence.  What is proved above (`api_inbounds` and the per-kernel theorems) is
  the part of it that is arithmetic over the sizes: every access of every `unsafe` block of avx2.rs /
  sse2.rs / dense.rs::fill, as modelled by LMV/Mem from the regenerated intrinsic tables and the
  hand-mirrored loop structure.  Not covered by a theorem (see tools/props/C06.json): reads of
  uninitialised memory behind `set_len` / `uninitialized`, the allocator honouring `align(32)`,
  `generic-array` / `rand` / std internals, the Python FFI, NEON. -/

/-- the accesses an execution of the library really performs are not a Lean object; the full
    statement is therefore relative to an abstract trace semantics `exec` of API calls -/
def Statement (Call : Type) (exec : Call → List Run) : Prop := ∀ c : Call, ∀ r ∈ exec c, r.Safe

/-- the modelled API: one call = one entry point with its sizes -/
inductive Call
  | encode (b : Backend) (l : Nat)
  | stripe (b : Backend) (l : Nat)
  | scoreF32 (b : Backend) (C K M L Rm W a₀ b₀ : Nat) (hK : 1 ≤ K)
  | scoreU8 (b : Backend) (K M L Rm W a₀ b₀ : Nat) (hK : 1 ≤ K)
  | maxF32 (b : Backend) (w : Which) (C rows : Nat)
  | maxU8 (b : Backend) (w : Which) (rows : Nat)
  | scan (b : Backend) (K M L Rm W block : Nat) (hK : 1 ≤ K)
  | sample (b : Backend) (K L w steps : Nat) (hK : 1 ≤ K)
  | dense (C size rows : Nat) (hs : 0 < size)

def Call.runs : Call → List Run
  | .encode b l => encodeRuns b l
  | .stripe b l => stripeRuns b l
  | .scoreF32 b C K M L Rm W a₀ b₀ _ => scoreF32Runs b C K M L Rm W a₀ b₀
  | .scoreU8 b K M L Rm W a₀ b₀ _ => scoreU8Runs b K M L Rm W a₀ b₀
  | .maxF32 b w C rows => maxF32Runs b w C rows
  | .maxU8 b w rows => maxU8Runs b w rows
  | .scan b K M L Rm W block _ => scanRuns b K M L Rm W block
  | .sample b K L w steps _ => sampleRuns b K L w steps
  | .dense C size rows _ => denseRuns C size rows

/-- **C06 (partial: for the access models of LMV/Mem)**: the statement holds with the modelled
    semantics of the API; hence also for every finite SEQUENCE of calls, since each call's accesses
    depend only on the sizes of the objects it is given (histories change sizes, and the theorem is
    for all sizes) -/
theorem C06_partial : Statement Call Call.runs := by
  intro c r hr
  cases c with
  | encode b l => exact encodeRuns_safe b l r hr
  | stripe b l => exact stripeRuns_safe b l r hr
  | scoreF32 b C K M L Rm W a₀ b₀ hK => exact scoreF32Runs_safe b C K M L Rm W a₀ b₀ hK r hr
  | scoreU8 b K M L Rm W a₀ b₀ hK => exact scoreU8Runs_safe b K M L Rm W a₀ b₀ hK r hr
  | maxF32 b w C rows => exact maxF32Runs_safe b w C rows r hr
  | maxU8 b w rows => exact maxU8Runs_safe b w rows r hr
  | scan b K M L Rm W block hK => exact scanRuns_safe b K M L Rm W block hK r hr
  | sample b K L w steps hK => exact sampleRuns_safe b K L w steps hK r hr
  | dense C size rows hs => exact denseRuns_safe C size rows hs r hr

theorem C06_partial_histories (calls : List Call) : ∀ c ∈ calls, ∀ r ∈ c.runs, r.Safe :=
  fun c _ => C06_partial c

end C06
end LMV
