import LMV.Model.Scanner

namespace LMV
namespace C02

theorem placeholder : True := trivial

end C02
end LMV
