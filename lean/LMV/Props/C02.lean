/-
  C02 — iterating the scanner to exhaustion yields exactly the positions scoring at or above the
  threshold, each once, with its exact score, without panicking.

  Part 1 (abstract): for EVERY kernel record satisfying `KernelSpec` — the SIMD-free specification
  of block scoring, block maximum, candidate list, re-scoring and the byte mapping — every
  threshold and every block size `≥ 1`.  Induction over blocks with the invariant
  "hits buffered ∪ qualifying positions in rows ≥ row = qualifying positions not yet returned".
  Part 2: the kernels of the real `Scanner` (every dispatcher arm, both build profiles) satisfy
  `KernelSpec` in exact arithmetic, from C04 (striping invariant), C08 (bytes dominate) and the
  specifications of `max` / `threshold` proved here.
-/
import LMV.Lemmas.ScanAbstract
import LMV.Lemmas.ScanKernels
import LMV.Props.C08

namespace LMV
namespace C02

open Scanner Disc ScanScalar

variable {α : Type} [ScanScalar α] {C : Nat}

/-- the hits a scanner in state `st` has still to return: the buffered ones and the qualifying
    positions of the rows not yet scanned -/
def remaining (score : Nat → α) (t : α) (nPos R : Nat) (st : State α) : List (Hit α) :=
  st.hits ++ (rowsQual score t nPos R st.row R).map (mkHit score)

theorem rowsQual_eq_nil_of_forall {score : Nat → α} {t : α} {nPos R lo hi : Nat}
    (h : ∀ i, i < nPos → lo ≤ i % R → i % R < hi → ge (score i) t = true → False) :
    rowsQual score t nPos R lo hi = [] := by
  apply List.eq_nil_iff_forall_not_mem.mpr
  intro i hi'
  obtain ⟨a, b, c, d⟩ := mem_rowsQual.mp hi'
  exact h i a b c d

/-- one block: no panic, `row` advances by the block size, and the hits still to return are the
    same (the qualifying positions of the block moved into the buffer) -/
theorem blockStep_spec {k : Kernels α C} {R nPos : Nat} {score : Nat → α}
    (spec : KernelSpec k R nPos score) (t : α) (block : Nat) (hb : 1 ≤ block) (st : State α)
    (hrow : st.row < R) :
    ∃ st', blockStep k t block st = .ok st' ∧ st'.row = st.row + block ∧
      (remaining score t nPos R st').Perm (remaining score t nPos R st) := by
  have he1 : st.row < min (st.row + block) R := by omega
  have he2 : min (st.row + block) R ≤ R := Nat.min_le_right _ _
  -- it is enough to exhibit the list of positions pushed
  suffices hmain : ∃ L : List Nat, L.Perm (rowsQual score t nPos R st.row (min (st.row + block) R)) ∧
      blockStep k t block st = .ok ⟨st.row + block, (L.map (mkHit score)).reverse ++ st.hits⟩ by
    obtain ⟨L, hL, hstep⟩ := hmain
    refine ⟨_, hstep, rfl, ?_⟩
    unfold remaining
    simp only
    have hfut : rowsQual score t nPos R (st.row + block) R =
        rowsQual score t nPos R (min (st.row + block) R) R := by
      by_cases hle : st.row + block ≤ R
      · rw [Nat.min_eq_left hle]
      · rw [Nat.min_eq_right (by omega), rowsQual_beyond score t nPos R _ R spec.fits (by omega),
          rowsQual_beyond score t nPos R _ R spec.fits (Nat.le_refl R)]
    have hsplit := rowsQual_split score t nPos R st.row (min (st.row + block) R) R (by omega) he2
    rw [hfut]
    calc ((L.map (mkHit score)).reverse ++ st.hits) ++
          (rowsQual score t nPos R (min (st.row + block) R) R).map (mkHit score)
        |>.Perm ((st.hits ++ L.map (mkHit score)) ++
          (rowsQual score t nPos R (min (st.row + block) R) R).map (mkHit score)) := by
          apply List.Perm.append_right
          exact (List.Perm.append_right _ (List.reverse_perm _)).trans List.perm_append_comm
      _ |>.Perm (st.hits ++ (L ++ rowsQual score t nPos R (min (st.row + block) R) R).map (mkHit score)) := by
          rw [List.map_append, List.append_assoc]
      _ |>.Perm (st.hits ++ (rowsQual score t nPos R st.row R).map (mkHit score)) := by
          apply List.Perm.append_left
          apply List.Perm.map
          exact (List.Perm.append_right _ hL).trans hsplit.symm
  rcases Nat.eq_zero_or_pos nPos with hz | hpos
  · -- sequence shorter than the motif: empty scores, nothing pushed
    obtain ⟨ds, hds, hr0⟩ := spec.scoreRowsShort hz st.row (min (st.row + block) R)
    refine ⟨[], ?_, ?_⟩
    · rw [rowsQual_eq_nil_of_forall]
      intro i hi; omega
    · have hthr : k.threshold ds (k.scale t) = [] := by
        apply List.eq_nil_iff_forall_not_mem.mpr
        rintro ⟨r, c⟩ hmem
        have := (spec.thr_mem ds (k.scale t) r c).mp hmem
        omega
      unfold blockStep
      simp only [spec.seqRows, hds]
      cases hmax : k.max ds with
      | none => simp
      | some m =>
        by_cases hm : m ≥ k.scale t
        · simp [hm, hthr, rescore]
        · simp [hm]
  · obtain ⟨ds, hds, hmi, hrows, hdom⟩ := spec.scoreRows hpos st.row (min (st.row + block) R) he1 he2
    cases hmax : k.max ds with
    | none =>
      have := spec.max_none ds hmax
      omega
    | some m =>
      by_cases hm : m ≥ k.scale t
      · refine ⟨keep score t nPos R st.row (k.threshold ds (k.scale t)),
          keep_perm spec t st.row _ he1 he2 ds hrows hdom, ?_⟩
        unfold blockStep
        simp only [spec.seqRows, hds, hmax, hm, if_true, hmi]
        rw [rescore_eq spec]
      · refine ⟨[], ?_, ?_⟩
        · rw [rowsQual_eq_nil_of_forall]
          intro i hi hlo hhi hge
          have hlt := no_qual_of_max_lt spec st.row _ ds hrows hdom (k.scale t)
            (fun r c hr hc => by
              have h1 := spec.max_ge ds m hmax r c hr hc
              rw [UInt8.le_iff_toNat_le] at h1
              rw [ge_iff_le, UInt8.le_iff_toNat_le] at hm
              rw [UInt8.lt_iff_toNat_lt]
              omega) i hi hlo hhi
          have hmono := spec.scale_mono t (score i) hge
          rw [UInt8.le_iff_toNat_le] at hmono
          rw [UInt8.lt_iff_toNat_lt] at hlt
          omega
        · unfold blockStep
          simp [spec.seqRows, hds, hmax, hm]

/-- the `while` of `next`: no panic; afterwards a hit is buffered or every row is scanned; the hits
    still to return are unchanged -/
theorem nextLoop_spec {k : Kernels α C} {R nPos : Nat} {score : Nat → α}
    (spec : KernelSpec k R nPos score) (t : α) (block : Nat) (hb : 1 ≤ block) (fuel : Nat)
    (st : State α) (hfuel : R ≤ st.row + fuel) :
    ∃ st', nextLoop k t block (fuel + 1) st = .ok st' ∧
      (st'.hits ≠ [] ∨ R ≤ st'.row) ∧
      (remaining score t nPos R st').Perm (remaining score t nPos R st) := by
  induction fuel generalizing st with
  | zero =>
    refine ⟨st, ?_, Or.inr (by omega), List.Perm.refl _⟩
    unfold nextLoop
    rw [if_neg]
    rw [spec.seqRows]; omega
  | succ fuel ih =>
    unfold nextLoop
    by_cases hcond : st.hits.isEmpty = true ∧ st.row < k.seqRows
    · rw [if_pos hcond]
      obtain ⟨st1, h1, hrow1, hperm1⟩ := blockStep_spec spec t block hb st (by rw [← spec.seqRows]; exact hcond.2)
      rw [h1]
      obtain ⟨st2, h2, hdone, hperm2⟩ := ih st1 (by omega)
      exact ⟨st2, h2, hdone, hperm2.trans hperm1⟩
    · rw [if_neg hcond]
      refine ⟨st, rfl, ?_, List.Perm.refl _⟩
      rw [spec.seqRows] at hcond
      by_cases hh : st.hits = []
      · right
        have : ¬ st.row < R := fun h => hcond ⟨by simp [hh], h⟩
        omega
      · exact Or.inl hh

/-- one call of `next`: no panic; either a hit `h` with `h :: remaining' ~ remaining`, or `None`
    and nothing remained -/
theorem next_spec {k : Kernels α C} {R nPos : Nat} {score : Nat → α}
    (spec : KernelSpec k R nPos score) (t : α) (block : Nat) (hb : 1 ≤ block) (st : State α) :
    (∃ h st', next k t block st = .ok (some h, st') ∧
        (h :: remaining score t nPos R st').Perm (remaining score t nPos R st)) ∨
    (∃ st', next k t block st = .ok (none, st') ∧ remaining score t nPos R st = [] ∧
        remaining score t nPos R st' = []) := by
  obtain ⟨st1, h1, hdone, hperm⟩ := nextLoop_spec spec t block hb R st (by omega)
  unfold next
  rw [spec.seqRows, h1]
  cases hh : st1.hits with
  | nil =>
    right
    have hR : R ≤ st1.row := by
      rcases hdone with h | h
      · exact absurd hh h
      · exact h
    have hnil : remaining score t nPos R st1 = [] := by
      unfold remaining
      rw [hh, rowsQual_beyond score t nPos R _ R spec.fits hR]; rfl
    refine ⟨st1, by simp only [hh], ?_, hnil⟩
    rw [hnil] at hperm
    exact List.Perm.eq_nil hperm.symm
  | cons h hs =>
    left
    refine ⟨h, ⟨st1.row, hs⟩, by simp only [hh], ?_⟩
    have : h :: remaining score t nPos R ⟨st1.row, hs⟩ = remaining score t nPos R st1 := by
      unfold remaining; rw [hh]; rfl
    rw [this]; exact hperm

/-- iterating `next` to exhaustion from any state: no panic, and the hits yielded are a permutation
    of the hits that state had still to return -/
theorem collect_from {k : Kernels α C} {R nPos : Nat} {score : Nat → α}
    (spec : KernelSpec k R nPos score) (t : α) (block : Nat) (hb : 1 ≤ block) (fuel : Nat)
    (st : State α) (hfuel : (remaining score t nPos R st).length < fuel) :
    ∃ hs, collect k t block fuel st = .ok hs ∧ hs.Perm (remaining score t nPos R st) := by
  induction fuel generalizing st with
  | zero => omega
  | succ fuel ih =>
    unfold collect
    rcases next_spec spec t block hb st with ⟨h, st', hn, hperm⟩ | ⟨st', hn, hnil, -⟩
    · rw [hn]
      have hlen := hperm.length_eq
      simp only [List.length_cons] at hlen
      obtain ⟨hs, hc, hp⟩ := ih st' (by omega)
      refine ⟨h :: hs, by simp only [hc], ?_⟩
      exact (List.Perm.cons h hp).trans hperm
    · rw [hn, hnil]
      exact ⟨[], rfl, List.Perm.refl _⟩

/-- what a fresh scanner has to return: every qualifying position -/
theorem remaining_init {k : Kernels α C} {R nPos : Nat} {score : Nat → α}
    (spec : KernelSpec k R nPos score) (t : α) :
    remaining score t nPos R (State.init : State α) = (allQual score t nPos).map (mkHit score) := by
  unfold remaining State.init
  simp only [List.nil_append]
  rw [rowsQual_all score t nPos R spec.fits]

/-- **C02 (abstract form).**  For every kernel record satisfying `KernelSpec`, every threshold and
    every block size `≥ 1`: iterating a fresh scanner to exhaustion does not panic and yields a
    permutation of `[(i, score i) | i < nPos, score i ≥ t]` — each qualifying position exactly
    once, with its exact score, and nothing else. -/
theorem collect_spec {k : Kernels α C} {R nPos : Nat} {score : Nat → α}
    (spec : KernelSpec k R nPos score) (t : α) (block : Nat) (hb : 1 ≤ block) (fuel : Nat)
    (hfuel : nPos < fuel) :
    ∃ hs, collect k t block fuel State.init = .ok hs ∧
      hs.Perm ((allQual score t nPos).map (mkHit score)) := by
  have hlen : (remaining score t nPos R (State.init : State α)).length < fuel := by
    rw [remaining_init spec, List.length_map]
    have : (allQual score t nPos).length ≤ nPos := by
      unfold allQual
      calc _ ≤ (List.range nPos).length := List.length_filter_le _ _
        _ = nPos := List.length_range
    omega
  obtain ⟨hs, hc, hp⟩ := collect_from spec t block hb fuel State.init hlen
  exact ⟨hs, hc, by rw [← remaining_init spec]; exact hp⟩

/-! ### Part 2: the kernels of the real scanner satisfy the specification -/

section concrete
open Striped
variable {K : Nat}

/-- the exact score of position `i`: `Σⱼ pssm[j][s⟦i+j⟧]` in the order of `score_position` -/
def scoreAt (p : Mat ERat K) (s : List Nat) (i : Nat) : ERat := scoreFn p (C08.window (K - 1) s i)

/-- the kernels of a `Scanner` built on a matrix with finite non-wildcard entries (wildcard column
    `−∞` or finite) and a striped sequence with at least `M − 1` wrap rows satisfy `KernelSpec`, for
    every dispatcher arm and both build profiles -/
theorem kernels_spec (arm : Arm) (overflowChecks : Bool) {p : Mat ERat K} {x : ℕ → ℕ → ℚ}
    (hfin : C08.FiniteEntries p x) (hK : 2 ≤ K) {dm : Discrete ERat K}
    (hdm : toDiscrete p = .ok dm) (hf : 0 < C08.facQ K x p.rows) (hC : 0 < C)
    (st : Striped C) (s : List Nat) (hinv : C04.Inv (K - 1) st s) (hs : ∀ a ∈ s, a < K)
    (hM : 1 ≤ p.rows) (hwrap : p.rows - 1 ≤ st.wrap) :
    KernelSpec (kernels p dm st arm (accOf overflowChecks)) (C04.seqRowsOf C s.length)
      (s.length + 1 - p.rows) (scoreAt p s) := by
  obtain ⟨dm', hdm', hoff, hfac, hrows, -⟩ := C08.toDiscrete_closed hfin hK
  rw [hdm] at hdm'; cases hdm'
  have hge := C04.seqRowsOf_mul_ge hC s.length
  refine
    { hC := hC
      seqRows := by simp only [kernels]; rw [hinv.rows]; omega
      fits := by rw [Nat.mul_comm]; omega
      scoreRows := ?_
      scoreRowsShort := ?_
      max_none := fun ds => maxDispatch_none arm ds
      max_ge := fun ds m hm => maxDispatch_ge arm ds m hm
      thr_nodup := fun ds t8 => threshold_nodup ds t8
      thr_mem := fun ds t8 r c => threshold_mem ds t8 r c
      scorePosition := ?_
      scale_mono := ?_ }
  · intro hpos lo hi hlo hhi
    obtain ⟨sc, hsc, hr, hmi, hcell⟩ := C08.backend_never_underestimates arm overflowChecks hfin hK
      hdm hf st s hinv hs hM hwrap (by omega) lo hi hlo hhi
    exact ⟨sc, hsc, hmi, hr, fun r c hr' hc _ => hcell r c hr' hc⟩
  · intro hz lo hi
    have hshort : st.length < dm.data.rows := by rw [hrows, hinv.len]; omega
    refine ⟨Scores.empty, ?_, by simp [Scores.empty]⟩
    simp only [kernels]
    cases arm with
    | avx2 =>
      exact C08.scoreRowsAvx2_empty dm.data st lo hi (by omega) (by omega) (Or.inl hshort)
    | generic => exact C08.scoreRowsGeneric_empty _ dm.data st lo hi (Or.inl hshort)
    | sse2 => exact C08.scoreRowsGeneric_empty _ dm.data st lo hi (Or.inl hshort)
  · intro i hi
    exact C08.scorePosition_eq hC p hinv i (by omega)
  · intro a b hab
    exact C08.scale_mono hoff hfac hf hab

/-- **C02.**  Exact arithmetic; any alphabet size `K ≥ 2`, any column count `C ≥ 1`.  For every
    scoring matrix with finite non-wildcard entries (wildcard column `−∞` or finite) and
    `factor > 0`, every sequence `s` of symbols, every striped sequence satisfying the invariant of
    C04 for `s` with at least `M − 1` wrap rows (what `configure` establishes), every threshold,
    every block size `≥ 1`, every dispatcher arm and both build profiles: `Scanner::new` does not
    panic, iterating it to exhaustion does not panic, and the hits yielded are a permutation of
    `[(i, score i) | i + M ≤ L, score i ≥ t]`.  Covers `L < M`, `L = 0`, every alignment of the
    block boundaries with the sequence rows and wrap rows, thresholds at or below the minimum. -/
theorem scanner_yields_exactly (arm : Arm) (overflowChecks : Bool) {p : Mat ERat K} {x : ℕ → ℕ → ℚ}
    (hfin : C08.FiniteEntries p x) (hK : 2 ≤ K) (hf : 0 < C08.facQ K x p.rows) (hC : 0 < C)
    (st : Striped C) (s : List Nat) (hinv : C04.Inv (K - 1) st s) (hs : ∀ a ∈ s, a < K)
    (hM : 1 ≤ p.rows) (hwrap : p.rows - 1 ≤ st.wrap) (t : ERat) (block : Nat) (hb : 1 ≤ block)
    (fuel : Nat) (hfuel : s.length + 1 - p.rows < fuel) :
    ∃ dm, toDiscrete p = .ok dm ∧
      ∃ hs, collect (kernels p dm st arm (accOf overflowChecks)) t block fuel State.init = .ok hs ∧
        hs.Perm ((allQual (scoreAt p s) t (s.length + 1 - p.rows)).map (mkHit (scoreAt p s))) := by
  obtain ⟨dm, hdm, -⟩ := C08.toDiscrete_closed hfin hK
  exact ⟨dm, hdm, collect_spec
    (kernels_spec arm overflowChecks hfin hK hdm hf hC st s hinv hs hM hwrap) t block hb fuel hfuel⟩

/-! non-vacuity: the 2-column motif of C08 (`C C`), the sequence `C C A C C T C` striped in 2
    columns with one wrap row — 4 sequence rows, so block sizes 1 and 3 cut it in 4 and 2 blocks -/

def sx : List Nat := [1, 1, 0, 1, 1, 2, 1]
def stx : Striped 2 := (stripeGeneric 4 sx Striped.empty).configureWrap 4 1

/-- the hypotheses of `scanner_yields_exactly` hold for it -/
example : C04.Inv 4 stx sx ∧ (∀ a ∈ sx, a < 5) ∧ 1 ≤ C08.pex.rows ∧ C08.pex.rows - 1 ≤ stx.wrap :=
  ⟨C04.configureWrap_inv (by decide) 4 sx _ 1 (C04.stripeGeneric_inv (by decide) 4 sx _),
   by decide, by simp [C08.pex], by simp [C08.pex, stx, C04.configureWrap_wrap]⟩

/-- positions yielded by the model, in the order of emission -/
def runx (t : ERat) (block : Nat) : Option (List Nat) :=
  match toDiscrete C08.pex with
  | .ok dm =>
    match collect (kernels C08.pex dm stx .generic .saturating) t block 10 State.init with
    | .ok hs => some (hs.map (·.position))
    | .error _ => none
  | .error _ => none

/-- threshold 2 = the maximum: the two occurrences of `C C`; threshold 1: every position (6 of
    them), in an order that depends on the block size -/
example : runx (.fin 2) 1 = some [0, 3] := by decide +kernel
example : runx (.fin 1) 1 = some [4, 0, 5, 1, 2, 3] := by decide +kernel
example : runx (.fin 1) 3 = some [2, 5, 1, 4, 0, 3] := by decide +kernel

end concrete

end C02
end LMV
