/-
  C19 — Dense matrix storage keeps rows aligned and contents intact across operations.
-/
import LMV.Model.Dense
import LMV.Lemmas.MatLists
import LMV.Lemmas.Stripe

namespace LMV
namespace C19

open Dense

/-! ### layout: every row starts on an alignment boundary; the stride covers the columns -/

theorem rowBytes_dvd (C size align : Nat) : align ∣ rowBytes C size align :=
  Nat.dvd_mul_left _ _

theorem rowBytes_ge (C size align : Nat) (ha : 0 < align) : C * size ≤ rowBytes C size align := by
  unfold rowBytes
  have h1 := Nat.div_add_mod (C * size + align - 1) align
  have h2 := Nat.mod_lt (C * size + align - 1) ha
  have : (C * size + align - 1) / align * align = align * ((C * size + align - 1) / align) :=
    Nat.mul_comm _ _
  omega

/-- every row of the matrix starts on an `align`-byte boundary if the buffer does -/
theorem rowAddr_aligned (base C size align i : Nat) (hb : align ∣ base) :
    align ∣ rowAddr base C size align i :=
  Nat.dvd_add hb (Nat.dvd_mul_left_of_dvd (rowBytes_dvd C size align) i)

/-- the stride (in elements) is at least the column count … -/
theorem stride_ge (C size align : Nat) (hs : 0 < size) (ha : 0 < align) :
    C ≤ stride C size align := by
  unfold stride
  exact (Nat.le_div_iff_mul_le hs).mpr (rowBytes_ge C size align ha)

/-- … and a whole number of alignment units (for element sizes dividing the alignment) -/
theorem stride_bytes_aligned (C size align : Nat) (hd : size ∣ align) :
    align ∣ stride C size align * size := by
  unfold stride
  have h : size ∣ rowBytes C size align := Nat.dvd_trans hd (rowBytes_dvd C size align)
  rw [Nat.div_mul_cancel h]
  exact rowBytes_dvd C size align

example : stride 43 1 32 = 64 ∧ stride 5 4 32 = 8 ∧ stride 21 4 32 = 24 ∧ stride 7 8 32 = 8 := by decide

/-! ### refinement: any operation sequence behaves like a rows × columns table -/

/-- the abstract table: a row count and a cell function (only cells with `r < rows`, `c < C` matter) -/
structure Tbl where
  rows : Nat
  cell : Nat → Nat → Nat

/-- two tables are the same `rows × C` table -/
def Tbl.Same (C : Nat) (a b : Tbl) : Prop :=
  a.rows = b.rows ∧ ∀ r c, r < a.rows → c < C → a.cell r c = b.cell r c

variable {C : Nat}

/-- abstraction map -/
def abs (m : Mat Nat C) : Tbl := ⟨m.rows, m.get⟩

/-- the specification of one operation on the abstract table; `none` = the call panics -/
def specStep (C : Nat) (dflt : Nat) (t : Tbl) : Op → Option Tbl
  | .new rows => some ⟨rows, fun _ _ => dflt⟩
  | .withCapacity rows _ => some ⟨rows, fun _ _ => dflt⟩
  | .resize n => some ⟨n, fun r c => if r < t.rows then t.cell r c else dflt⟩   -- old rows kept, new rows default
  | .cloneFrom rows v => some ⟨rows, fun _ _ => v⟩
  | .fromRows rows =>
    if rows.all (·.length == C) then some ⟨rows.length, fun r c => (rows.getD r []).getD c 0⟩ else none
  | .fill v => some ⟨t.rows, fun _ _ => v⟩
  | .setRow i vals =>
    if i < t.rows ∧ vals.length = C then some ⟨t.rows, fun r c => if r = i then vals.getD c 0 else t.cell r c⟩
    else none
  | .setCell i j v =>
    if i < t.rows ∧ j < C then some ⟨t.rows, fun r c => if r = i ∧ c = j then v else t.cell r c⟩ else none
  | .iterMutSet v =>
    if C = 0 then none else some ⟨t.rows, fun r c => if c = 0 then v + r % 2 else t.cell r c⟩
  | .iterMutRevSet v =>
    if C = 0 then none else some ⟨t.rows, fun r c => if c = 0 then v + (t.rows - 1 - r) % 2 else t.cell r c⟩
  | .clone => some t

theorem writeRow_rows (m : Mat Nat C) (i : Nat) (vals : List Nat) : (writeRow m i vals).rows = m.rows :=
  Striped.rowWrite_rows i C (fun j => vals.getD j 0) m

theorem writeRow_get (m : Mat Nat C) (i : Nat) (vals : List Nat) (r c : Nat) :
    (writeRow m i vals).get r c = if r = i ∧ c < C ∧ i < m.rows then vals.getD c 0 else m.get r c :=
  Striped.rowWrite_get i C (Nat.le_refl C) (fun j => vals.getD j 0) m r c

theorem colZero_rows (v : Nat) (m : Mat Nat C) (n : Nat) :
    ((List.range n).foldl (fun d k => d.set k 0 (v + k % 2)) m).rows = m.rows := by
  induction n with
  | zero => rfl
  | succ n ih => rw [Striped.foldl_range_succ]; simp [ih]

theorem colZero_get (v : Nat) (m : Mat Nat C) (hC : 0 < C) (n r c : Nat) :
    ((List.range n).foldl (fun d k => d.set k 0 (v + k % 2)) m).get r c =
      if r < n ∧ c = 0 ∧ r < m.rows then v + r % 2 else m.get r c := by
  induction n with
  | zero => simp
  | succ n ih =>
    rw [Striped.foldl_range_succ, Mat.get_set, colZero_rows, ih]
    by_cases h1 : r = n ∧ c = 0 ∧ n < m.rows ∧ 0 < C
    · obtain ⟨ha, hb, hc, _⟩ := h1
      subst ha
      rw [if_pos ⟨rfl, hb, hc, hC⟩, if_pos ⟨by omega, hb, hc⟩]
    · rw [if_neg h1]
      by_cases h2 : r < n ∧ c = 0 ∧ r < m.rows
      · rw [if_pos h2, if_pos ⟨by omega, h2.2.1, h2.2.2⟩]
      · rw [if_neg h2, if_neg]
        intro h3
        by_cases hrn : r = n
        · subst hrn; exact h1 ⟨rfl, h3.2.1, h3.2.2, hC⟩
        · exact h2 ⟨by omega, h3.2.1, h3.2.2⟩

theorem colZeroRev_rows (v N : Nat) (m : Mat Nat C) (n : Nat) :
    ((List.range n).foldl (fun d k => d.set (N - 1 - k) 0 (v + k % 2)) m).rows = m.rows := by
  induction n with
  | zero => rfl
  | succ n ih => rw [Striped.foldl_range_succ]; simp [ih]

/-- the reverse mutable pass, after `n ≤ N` steps over a matrix of `N` rows: the LAST `n` rows have
    been visited, last row first -/
theorem colZeroRev_get (v : Nat) (m : Mat Nat C) (hC : 0 < C) (n : Nat) (hn : n ≤ m.rows) (r c : Nat) :
    ((List.range n).foldl (fun d k => d.set (m.rows - 1 - k) 0 (v + k % 2)) m).get r c =
      if m.rows - n ≤ r ∧ r < m.rows ∧ c = 0 then v + (m.rows - 1 - r) % 2 else m.get r c := by
  induction n with
  | zero =>
    simp only [List.range_zero, List.foldl_nil]
    rw [if_neg]; omega
  | succ n ih =>
    rw [Striped.foldl_range_succ, Mat.get_set, colZeroRev_rows, ih (by omega)]
    by_cases h1 : r = m.rows - 1 - n ∧ c = 0 ∧ m.rows - 1 - n < m.rows ∧ 0 < C
    · obtain ⟨ha, hb, hc, _⟩ := h1
      rw [if_pos ⟨ha, hb, hc, hC⟩, if_pos ⟨by omega, by omega, hb⟩]
      have : m.rows - 1 - r = n := by omega
      rw [this]
    · rw [if_neg h1]
      by_cases h2 : m.rows - n ≤ r ∧ r < m.rows ∧ c = 0
      · rw [if_pos h2, if_pos ⟨by omega, h2.2.1, h2.2.2⟩]
      · rw [if_neg h2, if_neg]
        intro h3
        by_cases hrn : r = m.rows - 1 - n
        · exact h1 ⟨hrn, h3.2.2, by omega, hC⟩
        · exact h2 ⟨by omega, h3.2.1, h3.2.2⟩

/-- **C19, one step**: the concrete operation panics exactly when the specification says so, and
    otherwise yields the same table — row count as requested, rows that existed keep their contents,
    new rows hold the default value, writes land in the addressed cell only. -/
theorem step_refines (dflt : Nat) (m : Mat Nat C) (op : Op) :
    match step dflt m op, specStep C dflt (abs m) op with
    | .ok m', some t' => Tbl.Same C (abs m') t'
    | .error _, none => True
    | _, _ => False := by
  cases op with
  | new rows =>
    refine ⟨by simp [abs], ?_⟩
    intro r c hr hc
    have hr' : r < rows := by simpa [abs] using hr
    simp [abs, hr', hc, Mat.get_of_rows_le]
  | withCapacity rows cap =>
    refine ⟨by simp [abs], ?_⟩
    intro r c hr hc
    have hr' : r < rows := by simpa [abs] using hr
    simp [abs, hr', hc, Mat.get_of_rows_le]
  | resize n =>
    refine ⟨by simp [abs], ?_⟩
    intro r c hr hc
    have hr' : r < n := by simpa [abs] using hr
    show (m.resize n dflt).get r c = if r < m.rows then m.get r c else dflt
    rw [Mat.get_resize, if_pos hr']
    split
    · rfl
    · first | rfl | rw [if_pos hc]
  | fromRows rows =>
    by_cases hall : (rows.all (·.length == C)) = true
    · simp only [step, specStep, if_pos hall]
      refine ⟨by simp [abs], ?_⟩
      intro r c hr hc
      have hr' : r < rows.length := by simpa [abs] using hr
      show (Mat.ofFn rows.length fun r c => (rows.getD r []).getD c 0 : Mat Nat C).get r c = _
      rw [Mat.get_ofFn, if_pos ⟨hr', hc⟩]
    · simp only [step, specStep, if_neg hall]
  | fill v =>
    refine ⟨by simp [abs], ?_⟩
    intro r c hr hc
    have hr' : r < m.rows := by simpa [abs] using hr
    show (m.fill v).get r c = v
    rw [Mat.get_fill, if_pos ⟨hr', hc⟩]
  | setRow i vals =>
    by_cases h1 : i < m.rows
    · by_cases h2 : vals.length = C
      · have h12 : i < (abs m).rows ∧ vals.length = C := ⟨h1, h2⟩
        simp only [step, specStep, if_pos h1, if_pos h2, if_pos h12]
        refine ⟨writeRow_rows m i vals, ?_⟩
        intro r c hr hc
        show (writeRow m i vals).get r c = if r = i then vals.getD c 0 else m.get r c
        rw [writeRow_get]
        by_cases hri : r = i
        · rw [if_pos ⟨hri, hc, h1⟩, if_pos hri]
        · rw [if_neg (fun h => hri h.1), if_neg hri]
      · have h12 : ¬ (i < (abs m).rows ∧ vals.length = C) := fun h => h2 h.2
        simp only [step, specStep, if_pos h1, if_neg h2, if_neg h12]
    · have h12 : ¬ (i < (abs m).rows ∧ vals.length = C) := fun h => h1 h.1
      simp only [step, specStep, if_neg h1, if_neg h12]
  | setCell i j v =>
    by_cases h1 : i < m.rows ∧ j < C
    · have h1' : i < (abs m).rows ∧ j < C := h1
      simp only [step, specStep, if_pos h1, if_pos h1']
      refine ⟨by simp [abs], ?_⟩
      intro r c _ _
      show (m.set i j v).get r c = if r = i ∧ c = j then v else m.get r c
      rw [Mat.get_set]
      by_cases h2 : r = i ∧ c = j
      · rw [if_pos ⟨h2.1, h2.2, h1.1, h1.2⟩, if_pos h2]
      · rw [if_neg (fun h => h2 ⟨h.1, h.2.1⟩), if_neg h2]
    · have h1' : ¬ (i < (abs m).rows ∧ j < C) := h1
      simp only [step, specStep, if_neg h1, if_neg h1']
  | iterMutSet v =>
    by_cases h0 : C = 0
    · simp only [step, specStep, if_pos h0]
    · simp only [step, specStep, if_neg h0]
      refine ⟨colZero_rows v m m.rows, ?_⟩
      intro r c hr _
      have hr' : r < m.rows := by
        have : (abs ((List.range m.rows).foldl (fun d k => d.set k 0 (v + k % 2)) m)).rows = m.rows :=
          colZero_rows v m m.rows
        rw [this] at hr; exact hr
      show ((List.range m.rows).foldl (fun d k => d.set k 0 (v + k % 2)) m).get r c =
        if c = 0 then v + r % 2 else m.get r c
      rw [colZero_get v m (by omega)]
      by_cases hc0 : c = 0
      · rw [if_pos ⟨hr', hc0, hr'⟩, if_pos hc0]
      · rw [if_neg (fun h => hc0 h.2.1), if_neg hc0]
  | iterMutRevSet v =>
    by_cases h0 : C = 0
    · simp only [step, specStep, if_pos h0]
    · simp only [step, specStep, if_neg h0]
      refine ⟨colZeroRev_rows v m.rows m m.rows, ?_⟩
      intro r c hr _
      have hr' : r < m.rows := by
        have : (abs ((List.range m.rows).foldl (fun d k => d.set (m.rows - 1 - k) 0 (v + k % 2)) m)).rows
            = m.rows := colZeroRev_rows v m.rows m m.rows
        rw [this] at hr; exact hr
      show ((List.range m.rows).foldl (fun d k => d.set (m.rows - 1 - k) 0 (v + k % 2)) m).get r c =
        if c = 0 then v + (m.rows - 1 - r) % 2 else m.get r c
      rw [colZeroRev_get v m (by omega) m.rows (Nat.le_refl _)]
      by_cases hc0 : c = 0
      · rw [if_pos ⟨by omega, hr', hc0⟩, if_pos hc0]
      · rw [if_neg (fun h => hc0 h.2.2), if_neg hc0]
  | clone => exact ⟨rfl, fun _ _ _ _ => rfl⟩
  | cloneFrom rows v =>
    refine ⟨by simp [abs, step], ?_⟩
    intro r c hr hc
    have hr' : r < rows := by simpa [abs, step] using hr
    show (((Mat.empty : Mat Nat C).resize rows dflt).fill v).get r c = v
    rw [Mat.get_fill, if_pos ⟨by simpa using hr', hc⟩]

/-- the specification respects table equality (so the refinement composes along a history) -/
theorem specStep_congr (dflt : Nat) (a b : Tbl) (h : Tbl.Same C a b) (op : Op) :
    match specStep C dflt a op, specStep C dflt b op with
    | some a', some b' => Tbl.Same C a' b'
    | none, none => True
    | _, _ => False := by
  obtain ⟨hr, hc⟩ := h
  cases op with
  | new rows => exact ⟨rfl, fun _ _ _ _ => rfl⟩
  | withCapacity rows cap => exact ⟨rfl, fun _ _ _ _ => rfl⟩
  | resize n =>
    refine ⟨rfl, ?_⟩
    intro r c _ hcc
    simp only [← hr]
    split
    · rename_i h; exact hc r c h hcc
    · rfl
  | fromRows rows =>
    by_cases hall : (rows.all (·.length == C)) = true
    · simp only [specStep, if_pos hall]; exact ⟨rfl, fun _ _ _ _ => rfl⟩
    · simp only [specStep, if_neg hall]
  | fill v => exact ⟨hr, fun _ _ _ _ => rfl⟩
  | setRow i vals =>
    by_cases h1 : i < a.rows ∧ vals.length = C
    · have h1' : i < b.rows ∧ vals.length = C := by rw [← hr]; exact h1
      simp only [specStep, if_pos h1, if_pos h1']
      refine ⟨hr, ?_⟩
      intro r c hrr hcc
      show (if r = i then vals.getD c 0 else a.cell r c) = (if r = i then vals.getD c 0 else b.cell r c)
      split
      · rfl
      · exact hc r c hrr hcc
    · have h1' : ¬ (i < b.rows ∧ vals.length = C) := by rw [← hr]; exact h1
      simp only [specStep, if_neg h1, if_neg h1']
  | setCell i j v =>
    by_cases h1 : i < a.rows ∧ j < C
    · have h1' : i < b.rows ∧ j < C := by rw [← hr]; exact h1
      simp only [specStep, if_pos h1, if_pos h1']
      refine ⟨hr, ?_⟩
      intro r c hrr hcc
      show (if r = i ∧ c = j then v else a.cell r c) = (if r = i ∧ c = j then v else b.cell r c)
      split
      · rfl
      · exact hc r c hrr hcc
    · have h1' : ¬ (i < b.rows ∧ j < C) := by rw [← hr]; exact h1
      simp only [specStep, if_neg h1, if_neg h1']
  | iterMutSet v =>
    by_cases h0 : C = 0
    · simp only [specStep, if_pos h0]
    · simp only [specStep, if_neg h0]
      refine ⟨hr, ?_⟩
      intro r c hrr hcc
      show (if c = 0 then v + r % 2 else a.cell r c) = (if c = 0 then v + r % 2 else b.cell r c)
      split
      · rfl
      · exact hc r c hrr hcc
  | iterMutRevSet v =>
    by_cases h0 : C = 0
    · simp only [specStep, if_pos h0]
    · simp only [specStep, if_neg h0]
      refine ⟨hr, ?_⟩
      intro r c hrr hcc
      show (if c = 0 then v + (a.rows - 1 - r) % 2 else a.cell r c) =
        (if c = 0 then v + (b.rows - 1 - r) % 2 else b.cell r c)
      rw [hr]
      split
      · rfl
      · exact hc r c hrr hcc
  | clone => exact ⟨hr, hc⟩
  | cloneFrom rows v => exact ⟨rfl, fun _ _ _ _ => rfl⟩

/-- run the specification along an operation list (a panicking operation changes nothing) -/
def specRun (C : Nat) (dflt : Nat) (t : Tbl) : List Op → Tbl
  | [] => t
  | op :: ops => match specStep C dflt t op with
    | some t' => specRun C dflt t' ops
    | none => specRun C dflt t ops

/-- **C19, histories**: after ANY finite sequence of creations, resizes, fills, row and cell
    writes, iter_mut passes and clones (panicking calls included), the matrix is the table the
    specification prescribes. -/
theorem run_refines (dflt : Nat) (ops : List Op) (m : Mat Nat C) (t : Tbl) (h : Tbl.Same C (abs m) t) :
    Tbl.Same C (abs (run dflt m ops)) (specRun C dflt t ops) := by
  induction ops generalizing m t with
  | nil => exact h
  | cons op ops ih =>
    have h1 := step_refines dflt m op
    have h2 := specStep_congr dflt (abs m) t h op
    simp only [run, specRun]
    cases hs : step dflt m op with
    | ok m' =>
      rw [hs] at h1
      cases ha : specStep C dflt (abs m) op with
      | none => rw [ha] at h1; exact absurd h1 (by simp)
      | some a' =>
        rw [ha] at h1 h2
        cases hb : specStep C dflt t op with
        | none => rw [hb] at h2; exact absurd h2 (by simp)
        | some b' =>
          rw [hb] at h2
          simp only at h1 h2 ⊢
          exact ih m' b' ⟨h1.1.trans h2.1, fun r c hr hc =>
            (h1.2 r c hr hc).trans (h2.2 r c (by rw [← h1.1]; exact hr) hc)⟩
    | error e =>
      rw [hs] at h1
      cases ha : specStep C dflt (abs m) op with
      | some a' => rw [ha] at h1; exact absurd h1 (by simp)
      | none =>
        rw [ha] at h2
        cases hb : specStep C dflt t op with
        | some b' => rw [hb] at h2; exact absurd h2 (by simp)
        | none => simp only; exact ih m t h

/-- equality (and therefore `clone`) depends only on the logical cells -/
theorem eq_iff_same (a b : Mat Nat C) : a = b ↔ Tbl.Same C (abs a) (abs b) := by
  constructor
  · rintro rfl; exact ⟨rfl, fun _ _ _ _ => rfl⟩
  · rintro ⟨h1, h2⟩; exact Mat.ext h1 h2

/-- forward iteration visits exactly rows `0 … rows-1` in order (reverse iteration is its reverse) -/
theorem iter_order (m : Mat Nat C) :
    m.toLists = (List.range m.rows).map fun r => (List.range C).map fun c => m.get r c :=
  Mat.toLists_eq_get m

/-! non-vacuity -/
example : (run 0 (Mat.empty : Mat Nat 5) [.new 3, .setCell 1 2 7, .resize 5, .setCell 9 0 1, .resize 2]).toLists
    = [[0, 0, 0, 0, 0], [0, 0, 7, 0, 0]] := by decide

end C19
end LMV
