/-  Bridge §B2 — see LMV/Props/Bridge/B1.lean for the overview  -/
import LMV.Props.Bridge.B1

namespace LMV
namespace Bridge

open Striped (pad)
open C04 (Inv seqRowsOf seqRowsOf_mul_ge seqRowsOf_pos)
open Maximum (Cmp Coord)

/-! ## §B2  the scanner theorems are about the lane-level `u8` kernel of C01 -/

section B2
variable {K C : Nat}

/-- `u8::saturating_add` = one lane of `_mm256_adds_epu8`: the accumulation of C02's cell model … -/
def satU8 (a b : UInt8) : UInt8 := if 255 < a.toNat + b.toNat then 255 else a + b

theorem addU8_saturating_eq (a b : UInt8) : Disc.addU8 .saturating a b = .ok (satU8 a b) := rfl

/-- … which on the byte values is C01's `u8Sat` (`Mat UInt8` here, `Mat Nat` there) -/
theorem satU8_toNat (a b : UInt8) : (satU8 a b).toNat = Score.u8Sat a.toNat b.toNat := by
  have ha := a.toNat_lt
  have hb := b.toNat_lt
  unfold satU8 Score.u8Sat
  split
  · next h =>
    have : (255 : UInt8).toNat = 255 := rfl
    omega
  · next h =>
    rw [UInt8.toNat_add]
    have : (a.toNat + b.toNat) % 2 ^ 8 = a.toNat + b.toNat := Nat.mod_eq_of_lt (by omega)
    omega

/-- the dispatcher arm, in the vocabulary of the two models -/
def armOf : Disc.Arm → Score.Arm
  | .generic => .generic
  | .sse2 => .sse2
  | .avx2 => .avx2

/-- `StripedScores<u8, C>` of the lane-level model as the `StripedScores<u8, C>` of the scanner model -/
def toDisc (sc : Scores UInt8 C) : Disc.Scores C := ⟨sc.data, sc.maxIndex⟩

/-- the 8-bit score of a window in C02's model is C01's scalar-order sum with the saturating addition -/
theorem dscoreFn_sat_eq (dm : Mat UInt8 K) (sym : Nat → Nat) :
    Disc.dscoreFn .saturating dm sym = .ok (Score.cellSum 0 satU8 dm sym) := by
  unfold Disc.dscoreFn Score.cellSum
  exact C08.foldE_ok _ (fun s j => satU8 s (dm.getD j (sym j) 0)) _ _ (fun _ _ _ => rfl)

/-- a block whose cells are all computed is, cell for cell, the matrix C01's generic loops write -/
theorem blockMat_eq_genericRows (cell : Nat → Nat → Except String UInt8) (dm : Mat UInt8 K)
    (seq : Mat Nat C) (lo n : Nat) (d0 : Mat UInt8 C) (hd0 : d0.rows = n)
    (hcell : ∀ r c, r < n → c < C →
      cell (lo + r) c = .ok (Score.cellSum 0 satU8 dm fun j => seq.getD (lo + r + j) c 0)) :
    Disc.blockMat (C := C) cell lo n = Score.genericRows 0 satU8 dm seq lo n d0 := by
  apply Mat.ext
  · rw [C08.blockMat_rows, (Score.genericRows_spec 0 satU8 dm seq lo n d0 0 0).1, hd0]
  · intro r c hr hc
    rw [C08.blockMat_rows] at hr
    rw [C08.blockMat_get _ lo n r c _ hr hc (hcell r c hr hc)]
    show _ = (Score.genericRows 0 satU8 dm seq lo n d0).getD r c 0
    rw [(Score.genericRows_spec 0 satU8 dm seq lo n d0 r c).2,
      if_pos ⟨hr, by omega, by simpa using hc⟩]

/-- **B2, the cells.**  For every dispatcher arm, the block scoring function used inside
    `Scanner.kernels` (C02/C03: one saturating fold per cell) returns exactly what C01's LANE-LEVEL
    `u8` pipeline returns for the same discrete matrix, striped sequence and row range, whatever the
    reused score buffer `sc0` held: same panic/no-panic, same `max_index`, same matrix cell for cell.
    AVX2 arm: `Avx2.scoreU8` = `score_u8_avx2_shuffle` with its broadcast / byte-shuffle lanes and
    store offsets regenerated from avx2.rs.  Hypotheses = those of C01: `K ≤ 16`, symbols `< K`,
    `M ≥ 1`, `W ≥ M − 1`, range inside the sequence rows.  Both models hold `u8` cells
    (`Mat UInt8`); the lane addition is `satU8`, C01's `u8Sat` on byte values (`satU8_toNat`). -/
theorem blockScoring_eq_lane (arm : Disc.Arm) (dm : Mat UInt8 K) (hK : K ≤ 16) (seq : Striped 32)
    (lo hi : Nat) (sc0 : Scores UInt8 32) (hM : 1 ≤ dm.rows) (hW : dm.rows - 1 ≤ seq.wrap)
    (hb : hi ≤ seq.data.rows - seq.wrap) (hsym : C01.SymOK K seq) :
    Disc.scoreRowsDispatch arm .saturating dm seq lo hi =
      (Score.dispatchU8 (armOf arm) 0 satU8 satU8 dm seq lo hi sc0).map toDisc := by
  rw [C01.dispatchU8_all_arms (armOf arm) 0 satU8 dm hK seq lo hi sc0 hM hW hb hsym]
  by_cases hexit : seq.length < dm.rows ∨ hi ≤ lo
  · -- `resize(0, 0)` on both sides
    have hR : Score.scoreRowsGeneric 0 satU8 dm seq lo hi sc0 = .ok (Score.resize 0 sc0 0 0) := by
      unfold Score.scoreRowsGeneric; rw [if_pos hexit]
    have hE : (Disc.Scores.empty : Disc.Scores 32) = toDisc (Score.resize 0 sc0 0 0) := by
      unfold Disc.Scores.empty toDisc Score.resize
      congr 1
      apply Mat.ext
      · simp
      · intro r c hr; simp at hr
    rw [hR]
    show _ = Except.ok (toDisc (Score.resize 0 sc0 0 0))
    rw [← hE]
    cases arm with
    | avx2 => exact C08.scoreRowsAvx2_empty dm seq lo hi hM hW hexit
    | generic => exact C08.scoreRowsGeneric_empty _ dm seq lo hi hexit
    | sse2 => exact C08.scoreRowsGeneric_empty _ dm seq lo hi hexit
  · have hR : Score.scoreRowsGeneric 0 satU8 dm seq lo hi sc0 =
        .ok ⟨Score.genericRows 0 satU8 dm seq.data lo (hi - lo) (sc0.data.resize (hi - lo) 0),
          seq.length + 1 - dm.rows⟩ := by
      unfold Score.scoreRowsGeneric
      rw [if_neg hexit]
      simp only [Score.resize]
      rw [Score.rowsGeneric_ok 0 satU8 dm seq.data lo (hi - lo) _
        (C01.reads_ok dm seq lo hi hW hb hsym)]
    rw [hR]
    show _ = Except.ok (toDisc _)
    have hwin : ∀ r c, Disc.dscoreFn .saturating dm (C08.colWindow seq (lo + r) c) =
        .ok (Score.cellSum 0 satU8 dm fun j => seq.data.getD (lo + r + j) c 0) :=
      fun r c => dscoreFn_sat_eq dm _
    cases arm with
    | avx2 =>
      have hcell : ∀ r c, r < hi - lo → c < 32 → Disc.avx2Cell dm seq (lo + r) c =
          .ok (Score.cellSum 0 satU8 dm fun j => seq.data.getD (lo + r + j) c 0) :=
        fun r c _ _ => by rw [C08.avx2Cell_eq, hwin]
      have hnone := C08.firstPanic_none (C := 32) (Disc.avx2Cell dm seq) lo (hi - lo)
        (fun r c hr hc => ⟨_, hcell r c hr hc⟩)
      simp only [Disc.scoreRowsDispatch, Disc.scoreRowsAvx2]
      rw [if_neg (by omega), if_neg (by omega), if_neg hexit, hnone]
      simp only [toDisc]
      rw [blockMat_eq_genericRows _ dm seq.data lo (hi - lo) (sc0.data.resize (hi - lo) 0)
        (by simp) hcell]
    | generic =>
      have hcell : ∀ r c, r < hi - lo → c < 32 → Disc.genericCell .saturating dm seq (lo + r) c =
          .ok (Score.cellSum 0 satU8 dm fun j => seq.data.getD (lo + r + j) c 0) :=
        fun r c hr _ => by rw [C08.genericCell_eq .saturating dm seq (lo + r) c (by omega), hwin]
      have hnone := C08.firstPanic_none (C := 32) (Disc.genericCell .saturating dm seq) lo (hi - lo)
        (fun r c hr hc => ⟨_, hcell r c hr hc⟩)
      simp only [Disc.scoreRowsDispatch, Disc.scoreRowsGeneric]
      rw [if_neg hexit, hnone]
      simp only [toDisc]
      rw [blockMat_eq_genericRows _ dm seq.data lo (hi - lo) (sc0.data.resize (hi - lo) 0)
        (by simp) hcell]
    | sse2 =>
      have hcell : ∀ r c, r < hi - lo → c < 32 → Disc.genericCell .saturating dm seq (lo + r) c =
          .ok (Score.cellSum 0 satU8 dm fun j => seq.data.getD (lo + r + j) c 0) :=
        fun r c hr _ => by rw [C08.genericCell_eq .saturating dm seq (lo + r) c (by omega), hwin]
      have hnone := C08.firstPanic_none (C := 32) (Disc.genericCell .saturating dm seq) lo (hi - lo)
        (fun r c hr hc => ⟨_, hcell r c hr hc⟩)
      simp only [Disc.scoreRowsDispatch, Disc.scoreRowsGeneric]
      rw [if_neg hexit, hnone]
      simp only [toDisc]
      rw [blockMat_eq_genericRows _ dm seq.data lo (hi - lo) (sc0.data.resize (hi - lo) 0)
        (by simp) hcell]

/-- the same on ANY row range when the sequence is shorter than the motif: both models return the
    empty score matrix before looking at the range -/
theorem blockScoring_eq_lane_short (arm : Disc.Arm) (dm : Mat UInt8 K) (seq : Striped 32)
    (lo hi : Nat) (sc0 : Scores UInt8 32) (hM : 1 ≤ dm.rows) (hW : dm.rows - 1 ≤ seq.wrap)
    (hshort : seq.length < dm.rows) :
    Disc.scoreRowsDispatch arm .saturating dm seq lo hi =
      (Score.dispatchU8 (armOf arm) 0 satU8 satU8 dm seq lo hi sc0).map toDisc := by
  have hE : (Disc.Scores.empty : Disc.Scores 32) = toDisc (Score.resize 0 sc0 0 0) := by
    unfold Disc.Scores.empty toDisc Score.resize
    congr 1
    apply Mat.ext
    · simp
    · intro r c hr; simp at hr
  have hR : Score.dispatchU8 (armOf arm) 0 satU8 satU8 dm seq lo hi sc0 =
      .ok (Score.resize 0 sc0 0 0) := by
    cases arm with
    | avx2 =>
      simp only [armOf, Score.dispatchU8, Score.Avx2.scoreU8, Score.simdWrapper]
      rw [if_neg (by omega), if_neg (by omega), if_pos (Or.inl hshort)]
    | generic =>
      simp only [armOf, Score.dispatchU8, Score.scoreRowsGeneric]
      rw [if_pos (Or.inl hshort)]
    | sse2 =>
      simp only [armOf, Score.dispatchU8, Score.scoreRowsGeneric]
      rw [if_pos (Or.inl hshort)]
  rw [hR]
  show _ = Except.ok (toDisc (Score.resize 0 sc0 0 0))
  rw [← hE]
  cases arm with
  | avx2 => exact C08.scoreRowsAvx2_empty dm seq lo hi hM hW (Or.inl hshort)
  | generic => exact C08.scoreRowsGeneric_empty _ dm seq lo hi (Or.inl hshort)
  | sse2 => exact C08.scoreRowsGeneric_empty _ dm seq lo hi (Or.inl hshort)

/-! ### the block maximum and the candidate list of the scanner ARE those of C07

  `Scanner.maxDispatch` / `Scanner.threshold` (Model/Scanner, hand-written from scan.rs's callees) and
  `Maximum.dispMaxU8` / `Maximum.thresholdGeneric` (Model/Maximum, driven by the tables of
  `LMV.Gen.MaxK` regenerated from pli/mod.rs, avx2.rs and dispatch.rs on every run) model the same
  Rust code.  Here they are proved equal on every block, and the scanner theorems are restated for a
  kernel record whose `max` / `threshold` fields are C07's functions and whose `KernelSpec` clauses
  about them are C07's theorems — so that C02 / C03 depend on the regenerated dispatcher / kernel
  tables (`dispU8Max`, `mu8Init`, `mu8AccFirst`, `genericArgmaxRel`, `genericThresholdRel`). -/

section LinkC07
open Scanner Disc

/-- the dispatcher arm, in the vocabulary of the scanner model and of the maximum model -/
def backendOf : Disc.Arm → Maximum.Backend
  | .generic => .generic
  | .sse2 => .sse2
  | .avx2 => .avx2

/-- the comparisons of `u8` (`C07.u8Cmp`: `le`/`lt` = `decide (≤)`/`decide (<)`, `zero = 0`) are
    the ones C07's `u8` theorems are about -/
theorem u8Cmp_isU8 : C07.IsU8 C07.u8Cmp := C07.u8Cmp_isU8

/-- a 2-row block: 200 at (1, 9) and again at (0, 20), 7 at (0, 3), 0 elsewhere -/
def lBlk : Disc.Scores 32 :=
  ⟨Mat.ofFn 2 fun r c => if (r = 1 ∧ c = 9) ∨ (r = 0 ∧ c = 20) then 200 else if r = 0 ∧ c = 3 then 7 else 0, 64⟩

/-- a 2-row block of zeros (the accumulators of `max_u8_avx2` never move) -/
def lZero : Disc.Scores 32 := ⟨Mat.ofFn 2 fun _ _ => 0, 64⟩

/-- the scanner's block maximum bounds every cell and is the content of one: `C07.IsMax`, from the
    hand-written specifications of Lemmas/ScanKernels -/
theorem maxDispatch_isMax_direct (arm : Disc.Arm) (sc : Disc.Scores 32) (m : UInt8)
    (hm : Scanner.maxDispatch arm sc = some m) :
    C07.IsMax C07.u8Cmp sc.data.rows 32 (fun r c => sc.data.get r c) m :=
  ⟨C02.maxDispatch_attained (by decide) arm sc m hm,
    fun r c hr hc => decide_eq_true (C02.maxDispatch_ge arm sc m hm r c hr hc)⟩

/-- **1. The scanner's block maximum IS the table-driven dispatcher maximum of C07**, for every arm
    and every block — any number of rows, 0 and more than 65 536 included (`max_u8_avx2` and the
    trait default through `argmax` of the generic pipeline have no row limit; only `argmax_u8_avx2`,
    which no `max` arm of the dispatcher calls — `dispU8Max`, `C07.disp_tables` — has one).
    Both are `none` exactly on an empty block; otherwise both are attained upper bounds
    (`C07.dispMaxU8_spec` from the regenerated tables; `maxDispatch_ge` / `maxDispatch_attained`),
    and `≤` on `u8` is antisymmetric. -/
theorem scannerMax_eq_c07 (arm : Disc.Arm) (sc : Disc.Scores 32) :
    Scanner.maxDispatch arm sc =
      Maximum.dispMaxU8 C07.u8Cmp (backendOf arm) sc.data.rows (fun r c => sc.data.get r c) := by
  cases hs : Scanner.maxDispatch arm sc with
  | none =>
    exact ((C07.dispMaxU8_none_iff _ _ _ _).2 (C02.maxDispatch_none arm sc hs)).symm
  | some m =>
    have hdir := maxDispatch_isMax_direct arm sc m hs
    cases hd : Maximum.dispMaxU8 C07.u8Cmp (backendOf arm) sc.data.rows
        (fun r c => sc.data.get r c) with
    | none =>
      obtain ⟨⟨r, _, hr, -⟩, -⟩ := hdir
      have h0 := (C07.dispMaxU8_none_iff _ _ _ _).1 hd
      omega
    | some v =>
      rw [hdir.unique u8Cmp_isU8.anti (C07.dispMaxU8_spec _ u8Cmp_isU8 _ _ _ v hd)]

-- both sides compute, on every arm: the planted 200, `some 0` on zeros, `none` on the empty block
example : ∀ arm ∈ [Disc.Arm.generic, .sse2, .avx2],
    Scanner.maxDispatch arm lBlk = some 200 ∧
    Maximum.dispMaxU8 C07.u8Cmp (backendOf arm) lBlk.data.rows (fun r c => lBlk.data.get r c) = some 200 ∧
    Scanner.maxDispatch arm lZero = some 0 ∧
    Maximum.dispMaxU8 C07.u8Cmp (backendOf arm) lZero.data.rows (fun r c => lZero.data.get r c) = some 0 ∧
    Scanner.maxDispatch arm (Disc.Scores.empty : Disc.Scores 32) = none ∧
    Maximum.dispMaxU8 C07.u8Cmp (backendOf arm) (Disc.Scores.empty : Disc.Scores 32).data.rows
      (fun r c => (Disc.Scores.empty : Disc.Scores 32).data.get r c) = none := by
  decide +kernel

/-- **2. The scanner's candidate list IS the trait-default `threshold` of C07** (comparison read from
    pli/mod.rs: `genericThresholdRel`): the same list, in the same row-major order -/
theorem scannerThreshold_eq_c07 (sc : Disc.Scores 32) (t : UInt8) :
    Scanner.threshold sc t =
      Maximum.thresholdGeneric C07.u8Cmp 32 sc.data.rows (fun r c => sc.data.get r c) t := by
  unfold Scanner.threshold Maximum.thresholdGeneric
  simp only [LMV.Gen.MaxK.genericThresholdRel, LMV.Gen.MaxK.Rel.eval, C07.u8Cmp, ge_iff_le]

/-- every dispatcher arm uses the trait default for `threshold` (`Maximum.Striped.threshold` ignores
    its arm): `StripedScores::threshold` of C07 is the scanner's candidate list, as offsets -/
theorem scannerThreshold_all_arms (arm : Disc.Arm) (sc : Disc.Scores 32) (t : UInt8) :
    Maximum.Striped.threshold C07.u8Cmp (backendOf arm) ⟨sc.data, sc.maxIndex⟩ t =
      (Scanner.threshold sc t).map fun mc => mc.2 * sc.data.rows + mc.1 := by
  rw [scannerThreshold_eq_c07]; rfl

example : Scanner.threshold lBlk 7 = [(0, 3), (0, 20), (1, 9)] ∧
    Maximum.thresholdGeneric C07.u8Cmp 32 lBlk.data.rows (fun r c => lBlk.data.get r c) 7 =
      [(0, 3), (0, 20), (1, 9)] ∧
    Maximum.Striped.threshold C07.u8Cmp .sse2 ⟨lBlk.data, lBlk.maxIndex⟩ 7 = [6, 40, 19] := by
  decide +kernel

/-! #### 3. what the scanner proofs consume, as consequences of C07's specifications -/

/-- `maxDispatch_none` (both directions), from `C07.dispMaxU8_none_iff` -/
theorem scannerMax_none_iff (arm : Disc.Arm) (sc : Disc.Scores 32) :
    Scanner.maxDispatch arm sc = none ↔ sc.data.rows = 0 := by
  rw [scannerMax_eq_c07]; exact C07.dispMaxU8_none_iff _ _ _ _

/-- the scanner's block maximum is the attained maximum of the block, from `C07.dispMaxU8_spec` -/
theorem scannerMax_isMax (arm : Disc.Arm) (sc : Disc.Scores 32) (m : UInt8)
    (hm : Scanner.maxDispatch arm sc = some m) :
    C07.IsMax C07.u8Cmp sc.data.rows 32 (fun r c => sc.data.get r c) m := by
  rw [scannerMax_eq_c07] at hm
  exact C07.dispMaxU8_spec _ u8Cmp_isU8 _ _ _ m hm

/-- `maxDispatch_ge`, from `C07.dispMaxU8_spec` -/
theorem scannerMax_ge (arm : Disc.Arm) (sc : Disc.Scores 32) (m : UInt8)
    (hm : Scanner.maxDispatch arm sc = some m) (r c : Nat) (hr : r < sc.data.rows) (hc : c < 32) :
    sc.data.get r c ≤ m :=
  of_decide_eq_true ((scannerMax_isMax arm sc m hm).2 r c hr hc)

/-- `threshold_mem`, from `C07.mem_thresholdGeneric` -/
theorem scannerThreshold_mem (sc : Disc.Scores 32) (t : UInt8) (r c : Nat) :
    (r, c) ∈ Scanner.threshold sc t ↔ r < sc.data.rows ∧ c < 32 ∧ t ≤ sc.data.get r c := by
  rw [scannerThreshold_eq_c07, C07.mem_thresholdGeneric]
  simp only [C07.u8Cmp, decide_eq_true_eq]

/-- `threshold_nodup`, from `C07.thresholdGeneric_nodup` -/
theorem scannerThreshold_nodup (sc : Disc.Scores 32) (t : UInt8) : (Scanner.threshold sc t).Nodup := by
  rw [scannerThreshold_eq_c07]; exact C07.thresholdGeneric_nodup _ _ _ _ _

example : C07.IsMax C07.u8Cmp lBlk.data.rows 32 (fun r c => lBlk.data.get r c) 200 :=
  scannerMax_isMax .avx2 lBlk 200 (by decide +kernel)
example : (1, 9) ∈ Scanner.threshold lBlk 8 ∧ (0, 3) ∉ Scanner.threshold lBlk 8 := by
  rw [scannerThreshold_mem, scannerThreshold_mem]; decide +kernel

end LinkC07

/-! ### transfer of C02 / C03 -/

section transfer
open Scanner Disc ScanScalar
variable {α : Type} [ScanScalar α]

/-- the kernels of a `Scanner` whose block scoring is C01's lane-level `u8` pipeline (through the
    dispatcher arm `arm`); `buf lo hi` is whatever the reused `dscores` buffer holds when rows
    `lo..hi` are scored.  Everything else as in `Scanner.kernels`. -/
def kernelsLane [Inhabited α] (pssm : Mat α K) (dm : Discrete α K) (seq : Striped 32) (arm : Disc.Arm)
    (buf : Nat → Nat → LMV.Scores UInt8 32) : Kernels α 32 where
  seqRows := seq.data.rows - seq.wrap
  scoreRows lo hi :=
    (Score.dispatchU8 (armOf arm) 0 satU8 satU8 dm.data seq lo hi (buf lo hi)).map toDisc
  max := maxDispatch arm
  threshold := threshold
  scorePosition := scorePosition pssm seq
  scale := dm.scale

/-- `blockScoring_eq_lane` read on the two kernel records: the `score_rows_into` of the real
    `Scanner.kernels` (any arm, either build profile) is the one of the lane-level record -/
theorem kernels_scoreRows_eq_lane [Inhabited α] (arm : Disc.Arm) (overflowChecks : Bool)
    (pssm : Mat α K) (dm : Discrete α K) (hK : K ≤ 16) (seq : Striped 32)
    (buf : Nat → Nat → LMV.Scores UInt8 32) (lo hi : Nat) (hM : 1 ≤ dm.data.rows)
    (hW : dm.data.rows - 1 ≤ seq.wrap) (hb : hi ≤ seq.data.rows - seq.wrap)
    (hsym : C01.SymOK K seq) :
    (kernels pssm dm seq arm (accOf overflowChecks)).scoreRows lo hi =
      (kernelsLane pssm dm seq arm buf).scoreRows lo hi :=
  blockScoring_eq_lane arm dm.data hK seq lo hi (buf lo hi) hM hW hb hsym

/-- `KernelSpec` only looks at block scoring on non-empty ranges inside the sequence rows (or on any
    range when there is no position): two kernel records that agree there and on the four other
    operations satisfy it together -/
theorem kernelSpec_transfer {k k' : Kernels α C} {R nPos : Nat} {score : Nat → α}
    (spec : C02.KernelSpec k R nPos score)
    (h1 : k'.seqRows = k.seqRows) (h2 : k'.max = k.max) (h3 : k'.threshold = k.threshold)
    (h4 : k'.scorePosition = k.scorePosition) (h5 : k'.scale = k.scale)
    (hrows : ∀ lo hi, (nPos = 0 ∨ (lo < hi ∧ hi ≤ R)) → k'.scoreRows lo hi = k.scoreRows lo hi) :
    C02.KernelSpec k' R nPos score where
  hC := spec.hC
  seqRows := by rw [h1]; exact spec.seqRows
  fits := spec.fits
  scoreRows := by
    intro hpos lo hi hlo hhi
    rw [hrows lo hi (Or.inr ⟨hlo, hhi⟩), h5]
    exact spec.scoreRows hpos lo hi hlo hhi
  scoreRowsShort := by
    intro hz lo hi
    rw [hrows lo hi (Or.inl hz)]
    exact spec.scoreRowsShort hz lo hi
  max_none := by rw [h2]; exact spec.max_none
  max_ge := by rw [h2]; exact spec.max_ge
  thr_nodup := by rw [h3]; exact spec.thr_nodup
  thr_mem := by rw [h3]; exact spec.thr_mem
  scorePosition := by rw [h4]; exact spec.scorePosition
  scale_mono := by rw [h5]; exact spec.scale_mono

/-- **B2: `KernelSpec` for the lane-level kernels.**  Under the hypotheses of `C02.kernels_spec` and
    `K ≤ 16` (the trait bound of the shuffle kernel), the scanner kernels built on C01's lane-level
    `u8` pipeline satisfy the specification the scanner proofs of C02 and C03 are written against. -/
theorem kernelsLane_spec (arm : Disc.Arm) (buf : Nat → Nat → LMV.Scores UInt8 32)
    {p : Mat ERat K} {x : ℕ → ℕ → ℚ} (hfin : C08.FiniteEntries p x) (hK : 2 ≤ K) (hK16 : K ≤ 16)
    {dm : Discrete ERat K} (hdm : toDiscrete p = .ok dm) (hf : 0 < C08.facQ K x p.rows)
    (st : Striped 32) (s : List Nat) (hinv : Inv (K - 1) st s) (hs : ∀ a ∈ s, a < K)
    (hM : 1 ≤ p.rows) (hwrap : p.rows - 1 ≤ st.wrap) :
    C02.KernelSpec (kernelsLane p dm st arm buf) (seqRowsOf 32 s.length)
      (s.length + 1 - p.rows) (C02.scoreAt p s) := by
  obtain ⟨dm', hdm', -, -, hrows, -⟩ := C08.toDiscrete_closed hfin hK
  rw [hdm] at hdm'; cases hdm'
  have spec := C02.kernels_spec arm false hfin hK hdm hf (by decide) st s hinv hs hM hwrap
  have hsym : C01.SymOK K st := C01.symOK_of_inv (K - 1) st s hinv hs (by omega)
  refine kernelSpec_transfer spec rfl rfl rfl rfl rfl ?_
  intro lo hi hcase
  show (Score.dispatchU8 (armOf arm) 0 satU8 satU8 dm.data st lo hi (buf lo hi)).map toDisc =
    Disc.scoreRowsDispatch arm .saturating dm.data st lo hi
  rcases hcase with hz | ⟨_, hhi⟩
  · exact (blockScoring_eq_lane_short arm dm.data st lo hi _ (by omega) (by omega)
      (by rw [hrows, hinv.len]; omega)).symm
  · exact (blockScoring_eq_lane arm dm.data hK16 st lo hi _ (by omega) (by omega)
      (by rw [hinv.rows]; omega) hsym).symm

/-- **C02 for the lane-level kernels**: `C02.scanner_yields_exactly`, word for word, with the block
    scoring done by C01's lane-level `u8` pipeline -/
theorem scanner_yields_exactly_lane (arm : Disc.Arm) (buf : Nat → Nat → LMV.Scores UInt8 32)
    {p : Mat ERat K} {x : ℕ → ℕ → ℚ} (hfin : C08.FiniteEntries p x) (hK : 2 ≤ K) (hK16 : K ≤ 16)
    (hf : 0 < C08.facQ K x p.rows)
    (st : Striped 32) (s : List Nat) (hinv : Inv (K - 1) st s) (hs : ∀ a ∈ s, a < K)
    (hM : 1 ≤ p.rows) (hwrap : p.rows - 1 ≤ st.wrap) (t : ERat) (block : Nat) (hb : 1 ≤ block)
    (fuel : Nat) (hfuel : s.length + 1 - p.rows < fuel) :
    ∃ dm, toDiscrete p = .ok dm ∧
      ∃ hs, collect (kernelsLane p dm st arm buf) t block fuel State.init = .ok hs ∧
        hs.Perm ((C02.allQual (C02.scoreAt p s) t (s.length + 1 - p.rows)).map
          (C02.mkHit (C02.scoreAt p s))) := by
  obtain ⟨dm, hdm, -⟩ := C08.toDiscrete_closed hfin hK
  exact ⟨dm, hdm, C02.collect_spec
    (kernelsLane_spec arm buf hfin hK hK16 hdm hf st s hinv hs hM hwrap) t block hb fuel hfuel⟩

/-- **C03 for the lane-level kernels**: `C03.scanner_best_hit`, word for word -/
theorem scanner_best_hit_lane (arm : Disc.Arm) (buf : Nat → Nat → LMV.Scores UInt8 32)
    {p : Mat ERat K} {x : ℕ → ℕ → ℚ} (hfin : C08.FiniteEntries p x) (hK : 2 ≤ K) (hK16 : K ≤ 16)
    (hf : 0 < C08.facQ K x p.rows)
    (st : Striped 32) (s : List Nat) (hinv : Inv (K - 1) st s) (hs : ∀ a ∈ s, a < K)
    (hM : 1 ≤ p.rows) (hwrap : p.rows - 1 ≤ st.wrap) (t : ERat) (block : Nat) (hb : 1 ≤ block)
    (n : Nat) :
    ∃ dm, toDiscrete p = .ok dm ∧
      ∃ ret state rest r,
        nextN (kernelsLane p dm st arm buf) t block n State.init = .ok (ret, state) ∧
        Scanner.max (kernelsLane p dm st arm buf) t block state = .ok r ∧
        (ret ++ rest).Perm
          ((C02.allQual (C02.scoreAt p s) t (s.length + 1 - p.rows)).map
            (C02.mkHit (C02.scoreAt p s))) ∧
        (r = none ↔ rest = []) ∧
        ∀ b, r = some b → b ∈ rest ∧ ∀ h ∈ rest, ERat.le h.score b.score = true := by
  obtain ⟨dm, hdm, -⟩ := C08.toDiscrete_closed hfin hK
  have spec := kernelsLane_spec arm buf hfin hK hK16 hdm hf st s hinv hs hM hwrap
  obtain ⟨ret, state, r, hn, hr, hperm, hB⟩ := C03.max_after_next spec C03.erat_laws t block hb n
  refine ⟨dm, hdm, ret, state, _, r, hn, hr, hperm, ?_, ?_⟩
  · cases r with
    | none =>
      simp only [true_iff]
      apply List.eq_nil_iff_forall_not_mem.mpr
      exact fun h hh => hB h hh
    | some b =>
      simp only [reduceCtorEq, false_iff]
      exact List.ne_nil_of_mem hB.1
  · rintro b rfl
    exact ⟨hB.1, fun h hh => (C03.erat_laws.gt_false_iff _ _).mp (hB.2 h hh)⟩

/-! #### 4. C02 / C03 for kernels whose `max` / `threshold` are C07's table-driven functions -/

/-- the kernels of a `Scanner` whose block scoring is C01's lane-level `u8` pipeline (as in
    `kernelsLane`), whose block maximum is C07's dispatcher `Maximum<u8, U32> for Pipeline<A, Dispatch>`
    (`Maximum.dispMaxU8`: arm table `dispU8Max`, kernel tables `mu8Init` / `mu8AccFirst` /
    `genericArgmaxRel` of `LMV.Gen.MaxK`) and whose candidate list is C07's trait-default
    `Threshold::threshold` (`Maximum.thresholdGeneric`: `genericThresholdRel`) -/
def kernelsC07 [Inhabited α] (pssm : Mat α K) (dm : Discrete α K) (seq : Striped 32) (arm : Disc.Arm)
    (buf : Nat → Nat → LMV.Scores UInt8 32) : Kernels α 32 where
  seqRows := seq.data.rows - seq.wrap
  scoreRows lo hi :=
    (Score.dispatchU8 (armOf arm) 0 satU8 satU8 dm.data seq lo hi (buf lo hi)).map toDisc
  max := fun sc =>
    Maximum.dispMaxU8 C07.u8Cmp (backendOf arm) sc.data.rows (fun r c => sc.data.get r c)
  threshold := fun sc t =>
    Maximum.thresholdGeneric C07.u8Cmp 32 sc.data.rows (fun r c => sc.data.get r c) t
  scorePosition := scorePosition pssm seq
  scale := dm.scale

/-- by 1 and 2 this is the record of `kernelsLane`, i.e. the scanner of C02 / C03 with lane-level
    block scoring: the hand-written `max` / `threshold` of Model/Scanner can be read as C07's -/
theorem kernelsC07_eq_kernelsLane [Inhabited α] (pssm : Mat α K) (dm : Discrete α K)
    (seq : Striped 32) (arm : Disc.Arm) (buf : Nat → Nat → LMV.Scores UInt8 32) :
    kernelsC07 pssm dm seq arm buf = kernelsLane pssm dm seq arm buf := by
  have hmax : (fun sc : Disc.Scores 32 => Maximum.dispMaxU8 C07.u8Cmp (backendOf arm) sc.data.rows
      (fun r c => sc.data.get r c)) = maxDispatch arm :=
    funext fun sc => (scannerMax_eq_c07 arm sc).symm
  have hthr : (fun (sc : Disc.Scores 32) t => Maximum.thresholdGeneric C07.u8Cmp 32 sc.data.rows
      (fun r c => sc.data.get r c) t) = threshold :=
    funext fun sc => funext fun t => (scannerThreshold_eq_c07 sc t).symm
  unfold kernelsC07 kernelsLane
  rw [hmax, hthr]

/-- the `max` / `threshold` fields of the real `Scanner.kernels` (per-cell block scoring, any build
    profile) are C07's functions too -/
theorem kernels_max_threshold_eq_c07 [Inhabited α] (pssm : Mat α K) (dm : Discrete α K)
    (seq : Striped 32) (arm : Disc.Arm) (mode : AddMode) (sc : Disc.Scores 32) (t : UInt8) :
    (kernels pssm dm seq arm mode).max sc = (kernelsC07 pssm dm seq arm fun _ _ => Score.empty).max sc ∧
    (kernels pssm dm seq arm mode).threshold sc t =
      (kernelsC07 pssm dm seq arm fun _ _ => Score.empty).threshold sc t :=
  ⟨scannerMax_eq_c07 arm sc, scannerThreshold_eq_c07 sc t⟩

/-- **`KernelSpec` with the `max` / `threshold` clauses discharged by C07.**  The four clauses about
    the block maximum and the candidate list are `C07.dispMaxU8_none_iff`, `C07.dispMaxU8_spec`,
    `C07.thresholdGeneric_nodup` and `C07.mem_thresholdGeneric` (not the lemmas of
    Lemmas/ScanKernels about the hand-written copies); the others are those of `kernelsLane_spec`. -/
theorem kernelsC07_spec (arm : Disc.Arm) (buf : Nat → Nat → LMV.Scores UInt8 32)
    {p : Mat ERat K} {x : ℕ → ℕ → ℚ} (hfin : C08.FiniteEntries p x) (hK : 2 ≤ K) (hK16 : K ≤ 16)
    {dm : Discrete ERat K} (hdm : toDiscrete p = .ok dm) (hf : 0 < C08.facQ K x p.rows)
    (st : Striped 32) (s : List Nat) (hinv : Inv (K - 1) st s) (hs : ∀ a ∈ s, a < K)
    (hM : 1 ≤ p.rows) (hwrap : p.rows - 1 ≤ st.wrap) :
    C02.KernelSpec (kernelsC07 p dm st arm buf) (seqRowsOf 32 s.length)
      (s.length + 1 - p.rows) (C02.scoreAt p s) := by
  have spec := kernelsLane_spec arm buf hfin hK hK16 hdm hf st s hinv hs hM hwrap
  exact
    { hC := spec.hC
      seqRows := spec.seqRows
      fits := spec.fits
      scoreRows := spec.scoreRows
      scoreRowsShort := spec.scoreRowsShort
      max_none := fun ds h => (C07.dispMaxU8_none_iff _ _ _ _).1 h
      max_ge := fun ds m hm r c hr hc =>
        of_decide_eq_true ((C07.dispMaxU8_spec _ u8Cmp_isU8 _ _ _ m hm).2 r c hr hc)
      thr_nodup := fun ds t8 => C07.thresholdGeneric_nodup _ _ _ _ _
      thr_mem := fun ds t8 r c => by
        show (r, c) ∈ Maximum.thresholdGeneric C07.u8Cmp 32 ds.data.rows _ t8 ↔ _
        rw [C07.mem_thresholdGeneric]
        simp only [C07.u8Cmp, decide_eq_true_eq]
      scorePosition := spec.scorePosition
      scale_mono := spec.scale_mono }

/-- **C02 on C07's kernels**: `C02.scanner_yields_exactly`, word for word, with lane-level block
    scoring (C01) and the table-driven block maximum / candidate list (C07) -/
theorem scanner_yields_exactly_c07 (arm : Disc.Arm) (buf : Nat → Nat → LMV.Scores UInt8 32)
    {p : Mat ERat K} {x : ℕ → ℕ → ℚ} (hfin : C08.FiniteEntries p x) (hK : 2 ≤ K) (hK16 : K ≤ 16)
    (hf : 0 < C08.facQ K x p.rows)
    (st : Striped 32) (s : List Nat) (hinv : Inv (K - 1) st s) (hs : ∀ a ∈ s, a < K)
    (hM : 1 ≤ p.rows) (hwrap : p.rows - 1 ≤ st.wrap) (t : ERat) (block : Nat) (hb : 1 ≤ block)
    (fuel : Nat) (hfuel : s.length + 1 - p.rows < fuel) :
    ∃ dm, toDiscrete p = .ok dm ∧
      ∃ hs, collect (kernelsC07 p dm st arm buf) t block fuel State.init = .ok hs ∧
        hs.Perm ((C02.allQual (C02.scoreAt p s) t (s.length + 1 - p.rows)).map
          (C02.mkHit (C02.scoreAt p s))) := by
  obtain ⟨dm, hdm, -⟩ := C08.toDiscrete_closed hfin hK
  exact ⟨dm, hdm, C02.collect_spec
    (kernelsC07_spec arm buf hfin hK hK16 hdm hf st s hinv hs hM hwrap) t block hb fuel hfuel⟩

/-- **C03 on C07's kernels**: `C03.scanner_best_hit`, word for word -/
theorem scanner_best_hit_c07 (arm : Disc.Arm) (buf : Nat → Nat → LMV.Scores UInt8 32)
    {p : Mat ERat K} {x : ℕ → ℕ → ℚ} (hfin : C08.FiniteEntries p x) (hK : 2 ≤ K) (hK16 : K ≤ 16)
    (hf : 0 < C08.facQ K x p.rows)
    (st : Striped 32) (s : List Nat) (hinv : Inv (K - 1) st s) (hs : ∀ a ∈ s, a < K)
    (hM : 1 ≤ p.rows) (hwrap : p.rows - 1 ≤ st.wrap) (t : ERat) (block : Nat) (hb : 1 ≤ block)
    (n : Nat) :
    ∃ dm, toDiscrete p = .ok dm ∧
      ∃ ret state rest r,
        nextN (kernelsC07 p dm st arm buf) t block n State.init = .ok (ret, state) ∧
        Scanner.max (kernelsC07 p dm st arm buf) t block state = .ok r ∧
        (ret ++ rest).Perm
          ((C02.allQual (C02.scoreAt p s) t (s.length + 1 - p.rows)).map
            (C02.mkHit (C02.scoreAt p s))) ∧
        (r = none ↔ rest = []) ∧
        ∀ b, r = some b → b ∈ rest ∧ ∀ h ∈ rest, ERat.le h.score b.score = true := by
  obtain ⟨dm, hdm, -⟩ := C08.toDiscrete_closed hfin hK
  have spec := kernelsC07_spec arm buf hfin hK hK16 hdm hf st s hinv hs hM hwrap
  obtain ⟨ret, state, r, hn, hr, hperm, hB⟩ := C03.max_after_next spec C03.erat_laws t block hb n
  refine ⟨dm, hdm, ret, state, _, r, hn, hr, hperm, ?_, ?_⟩
  · cases r with
    | none =>
      simp only [true_iff]
      apply List.eq_nil_iff_forall_not_mem.mpr
      exact fun h hh => hB h hh
    | some b =>
      simp only [reduceCtorEq, false_iff]
      exact List.ne_nil_of_mem hB.1
  · rintro b rfl
    exact ⟨hB.1, fun h hh => (C03.erat_laws.gt_false_iff _ _).mp (hB.2 h hh)⟩

/-- the two transferred theorems are about the same scanner as `scanner_yields_exactly_lane` /
    `scanner_best_hit_lane`: every run of `collect`, `nextN`, `Scanner.max` on the two records is the
    same computation -/
theorem runs_c07_eq_lane [Inhabited α] (pssm : Mat α K) (dm : Discrete α K) (seq : Striped 32)
    (arm : Disc.Arm) (buf : Nat → Nat → LMV.Scores UInt8 32) (t : α) (block fuel : Nat)
    (st : State α) :
    collect (kernelsC07 pssm dm seq arm buf) t block fuel st =
      collect (kernelsLane pssm dm seq arm buf) t block fuel st ∧
    nextN (kernelsC07 pssm dm seq arm buf) t block fuel st =
      nextN (kernelsLane pssm dm seq arm buf) t block fuel st ∧
    Scanner.max (kernelsC07 pssm dm seq arm buf) t block st =
      Scanner.max (kernelsLane pssm dm seq arm buf) t block st := by
  rw [kernelsC07_eq_kernelsLane]; exact ⟨rfl, rfl, rfl⟩

end transfer

/-! ### non-vacuity of §B2 -/

section B2Examples
open Scanner Disc

/-- a 2-row byte matrix whose `C C` window saturates (200 + 200), wildcard column 0 -/
def bDm : Mat UInt8 5 := Mat.ofFn 2 fun _ j => if j = 4 then 0 else if j = 1 then 200 else 3

-- the hypotheses of `blockScoring_eq_lane` hold on the striped 40-symbol sequence of §B1 …
example : (5 ≤ 16) ∧ 1 ≤ bDm.rows ∧ bDm.rows - 1 ≤ bSeq.wrap ∧ 2 ≤ bSeq.data.rows - bSeq.wrap := by
  decide +kernel
example : C01.SymOK 5 bSeq := C01.symOK_of_inv 4 bSeq bS bSeq_inv (by decide +kernel) (by decide)

def cellsDisc {C : Nat} (r : Except String (Disc.Scores C)) : Option (List (List UInt8) × Nat) :=
  match r with
  | .ok sc => some (sc.data.toLists, sc.maxIndex)
  | .error _ => none

-- … both sides compute (39 = 40 + 1 − 2 positions, two rows), agree on every arm, and saturate
example : ∀ arm ∈ [Disc.Arm.generic, .sse2, .avx2],
    cellsDisc (Disc.scoreRowsDispatch arm .saturating bDm bSeq 0 2) =
      cellsDisc ((Score.dispatchU8 (armOf arm) 0 satU8 satU8 bDm bSeq 0 2 Score.empty).map toDisc) := by
  decide +kernel
example : (cellsDisc ((Score.dispatchU8 .avx2 0 satU8 satU8 bDm bSeq 0 2 Score.empty).map toDisc)).map
    (fun x => (x.1.map (·.take 4), x.2)) = some ([[203, 3, 203, 203], [200, 6, 203, 255]], 39) := by
  decide +kernel
-- a sub-range (the second block of a scanner with block size 1), into a dirty buffer
example : cellsDisc (Disc.scoreRowsDispatch .avx2 .saturating bDm bSeq 1 2) =
    cellsDisc ((Score.dispatchU8 .avx2 0 satU8 satU8 bDm bSeq 1 2 ⟨Mat.ofFn 7 fun _ _ => 9, 5⟩).map toDisc) := by
  decide +kernel

/-- the scanner of C02's example (`C08.pex`: score 1 per `C`), on the 32-column sequence, run on the
    lane-level kernels through the AVX2 arm: positions yielded, in order of emission -/
def runLane (t : ERat) (block : Nat) : Option (List Nat) :=
  match toDiscrete C08.pex with
  | .ok dm =>
    match collect (kernelsLane C08.pex dm bSeq .avx2 fun _ _ => Score.empty) t block 45 State.init with
    | .ok hs => some (hs.map (·.position))
    | .error _ => none
  | .error _ => none

-- the hypotheses of `scanner_yields_exactly_lane` hold (`C08.pex_finite`, `C08.pex_factor_pos`) …
example : ∃ dm, toDiscrete C08.pex = .ok dm ∧
    ∃ hs, collect (kernelsLane C08.pex dm bSeq .avx2 fun _ _ => Score.empty) (.fin 2) 1 45 State.init = .ok hs ∧
      hs.Perm ((C02.allQual (C02.scoreAt C08.pex bS) (.fin 2) (bS.length + 1 - C08.pex.rows)).map
        (C02.mkHit (C02.scoreAt C08.pex bS))) :=
  scanner_yields_exactly_lane .avx2 _ C08.pex_finite (by decide) (by decide) C08.pex_factor_pos
    bSeq bS bSeq_inv (by decide +kernel) (by decide +kernel) (by decide +kernel) (.fin 2) 1
    (by decide) 45 (by decide +kernel)
-- … and the run yields the four `C C` positions (threshold 2 = the maximum)
example : runLane (.fin 2) 1 = some [38, 22, 37, 7] ∧ runLane (.fin 2) 3 = some [37, 7, 38, 22] := by
  decide +kernel

/-- the same scanner on C07's kernels (`kernelsC07`: table-driven block maximum and candidate list) -/
def runC07 (arm : Disc.Arm) (t : ERat) (block : Nat) : Option (List Nat) :=
  match toDiscrete C08.pex with
  | .ok dm =>
    match collect (kernelsC07 C08.pex dm bSeq arm fun _ _ => Score.empty) t block 45 State.init with
    | .ok hs => some (hs.map (·.position))
    | .error _ => none
  | .error _ => none

-- the hypotheses of `scanner_yields_exactly_c07` / `scanner_best_hit_c07` hold …
example : ∃ dm, toDiscrete C08.pex = .ok dm ∧
    ∃ hs, collect (kernelsC07 C08.pex dm bSeq .avx2 fun _ _ => Score.empty) (.fin 2) 1 45 State.init = .ok hs ∧
      hs.Perm ((C02.allQual (C02.scoreAt C08.pex bS) (.fin 2) (bS.length + 1 - C08.pex.rows)).map
        (C02.mkHit (C02.scoreAt C08.pex bS))) :=
  scanner_yields_exactly_c07 .avx2 _ C08.pex_finite (by decide) (by decide) C08.pex_factor_pos
    bSeq bS bSeq_inv (by decide +kernel) (by decide +kernel) (by decide +kernel) (.fin 2) 1
    (by decide) 45 (by decide +kernel)
example := scanner_best_hit_c07 .generic (fun _ _ => Score.empty) C08.pex_finite (by decide) (by decide)
  C08.pex_factor_pos bSeq bS bSeq_inv (by decide +kernel) (by decide +kernel) (by decide +kernel)
  (.fin 2) 3 (by decide) 1
-- … and the run on C07's kernels yields the four `C C` positions, on every arm, in the order of the
-- hand-written kernels
example : ∀ arm ∈ [Disc.Arm.generic, .sse2, .avx2],
    runC07 arm (.fin 2) 1 = some [38, 22, 37, 7] ∧ runC07 arm (.fin 2) 3 = some [37, 7, 38, 22] := by
  decide +kernel

end B2Examples

end B2

end Bridge
end LMV
