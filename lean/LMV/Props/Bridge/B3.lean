/-  Bridge §B3 — see LMV/Props/Bridge/B1.lean for the overview  -/
import LMV.Props.Bridge.B1
import LMV.Lemmas.CountSymbols

namespace LMV
namespace Bridge

open Striped (pad)
open C04 (Inv seqRowsOf seqRowsOf_mul_ge seqRowsOf_pos)
open Maximum (Cmp Coord)

/-! ## §B3  `count_symbols` -/

section B3
variable {C : Nat}

/-- **B3.**  Under the striping invariant of C04 (any backend, any `configure` history), with every
    symbol `< K` (the type of the cells in the Rust), `StripedSequence::count_symbols` returns the
    `K` occurrence counts of the linear sequence: entry `a` is `s.count a`. -/
theorem countSymbols_eq (hC : 0 < C) (N : Nat) (st : Striped C) (s : List Nat) (h : Inv N st s)
    (K : Nat) (_hs : ∀ x ∈ s, x < K) :
    st.countSymbols K = (List.range K).map (fun a => s.count a) := by
  rw [Striped.countSymbols_eq_map_countSymbol]
  apply List.map_congr_left
  intro a _
  exact C04.countSymbol_eq hC N st s h a

theorem sum_indicator (x K : Nat) :
    ((List.range K).map (fun a => if x = a then 1 else 0)).sum = if x < K then 1 else 0 := by
  induction K with
  | zero => simp
  | succ n ih =>
    rw [List.range_succ, List.map_append, List.sum_append, ih]
    simp only [List.map_cons, List.map_nil, List.sum_cons, List.sum_nil, Nat.add_zero]
    split <;> split <;> split <;> omega

theorem sum_counts (K : Nat) (s : List Nat) (hs : ∀ x ∈ s, x < K) :
    ((List.range K).map (fun a => s.count a)).sum = s.length := by
  induction s with
  | nil => simp
  | cons x xs ih =>
    have h1 : ((List.range K).map (fun a => (x :: xs).count a)) =
        (List.range K).map (fun a => xs.count a + (if x = a then 1 else 0)) := by
      apply List.map_congr_left
      intro a _
      rw [List.count_cons]
      simp only [beq_iff_eq]
    rw [h1, List.sum_map_add, ih (fun y hy => hs y (by simp [hy])), sum_indicator,
      if_pos (hs x (by simp)), List.length_cons]

/-- hence (this is where `symbols < K` is used) the counts add up to the sequence length: no symbol
    is dropped or counted twice -/
theorem countSymbols_sum (hC : 0 < C) (N : Nat) (st : Striped C) (s : List Nat) (h : Inv N st s)
    (K : Nat) (hs : ∀ x ∈ s, x < K) : (st.countSymbols K).sum = s.length := by
  rw [countSymbols_eq hC N st s h K hs, sum_counts K s hs]

-- non-vacuity: the 40-symbol sequence of §B1 after `configure` (wrap row present), `K = 5`
example : bSeq.countSymbols 5 = (List.range 5).map (fun a => bS.count a) :=
  countSymbols_eq (by decide) 4 bSeq bS bSeq_inv 5 (by decide +kernel)
example : bSeq.countSymbols 5 = [8, 13, 3, 9, 7] ∧ (bSeq.countSymbols 5).sum = 40 := by decide +kernel

end B3

end Bridge
end LMV
