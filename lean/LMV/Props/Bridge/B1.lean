/-
  Bridge — machine-checked connections between properties that were developed separately and
  proved facts about their own local definitions of the same thing.

  §B1  C07's padding clause, about the REAL scoring model of C01:
         * C07's definition-level `windowScore` IS C01's `windowScore`              (`windowScore_eq`)
         * the score matrix a full scan returns (`FullScan`, for the generic backend, SSE2, AVX2 and
           every dispatcher arm)                                       (`fullScan_generic`, `fullScan_*`)
         * every cell past position `L − M` of that matrix holds `bot`              (`cell_past_end_bot`)
         * any cell holding the maximum (`C07.HoldsMax` / `C07.IsMax`) is a valid position whose
           score dominates every valid position's score      (`holdsMax_is_best_valid`, `isMax_is_best_valid`)
         * `max(score(pssm, striped seq))` = the best valid position's score, for the trait-default
           `max` on any column count and for `StripedScores::{max, argmax}` through any dispatcher arm
           of the scoring AND of the maximum          (`maxGeneric_of_scan`, `stripedMax_of_scan`, `stripedArgmax_of_scan`)
         * C02/C03's `scoreAt` is C01's `windowScore` over the exact carrier        (`scoreAt_eq_windowScore`)
  §B2  the scanner theorems (C02, C03) are about the lane-level `u8` kernel of C01:
         * the block scoring used inside `Scanner.kernels` returns, for every arm, the result of C01's
           lane-level `dispatchU8` (AVX2 arm: `Avx2.scoreU8`, shuffle masks and all) (`blockScoring_eq_lane`)
         * hence `KernelSpec`, C02 and C03 hold for the scanner built on the lane-level kernel
                                   (`kernelsLane_spec`, `scanner_yields_exactly_lane`, `scanner_best_hit_lane`)
  §B3  `count_symbols` (array form) = the occurrence counts of the linear sequence   (`countSymbols_eq`)
-/
import LMV.Props.C01
import LMV.Props.C07
import LMV.Props.C03

namespace LMV
namespace Bridge

open Striped (pad)
open C04 (Inv seqRowsOf seqRowsOf_mul_ge seqRowsOf_pos)
open Maximum (Cmp Coord)

/-! ## §B1  the padding clause of C07 about the scoring model of C01 -/

section B1
variable {β : Type} {C K : Nat}

/-- C07 reads the padded sequence through `padSym` (a function, a length, the wildcard), C01 and C04
    through `pad` (a list, the wildcard): the same read -/
theorem padSym_eq_pad (N : Nat) (s : List Nat) (p : Nat) :
    C07.padSym (fun q => s.getD q N) s.length N p = pad N s p := by
  unfold C07.padSym pad
  split
  · rfl
  · next h => rw [Striped.getD_of_le s p N (by omega)]

/-- **B1 (i): the two window scores are the same function.**  C07's definition-level score of the
    window at `i` — over the matrix read through `getD`, `M = pssm.rows`, the padded sequence — is
    C01's `windowScore`, the value C01 proves every backend computes.  Any carrier, no law. -/
theorem windowScore_eq (zero : β) (add : β → β → β) (pssm : Mat β K) (N : Nat) (s : List Nat) (i : Nat) :
    C07.windowScore add zero (fun j a => pssm.getD j a zero) pssm.rows
        (C07.padSym (fun q => s.getD q N) s.length N) i
      = C01.windowScore zero add pssm N s i := by
  unfold C07.windowScore C01.windowScore Score.cellSum
  apply Score.foldl_ext_mem'
  intro v j _
  simp only [padSym_eq_pad]

/-- C07's `windowScore_past_end`, for C01's window score: with an absorbing `bot` in the wildcard
    column, the window of every position `> L − M` scores `bot` -/
theorem windowScore_past_end (zero bot : β) (add : β → β → β) (hbot : ∀ x, add x bot = bot)
    (pssm : Mat β K) (N : Nat) (hNcol : ∀ j, j < pssm.rows → pssm.getD j N zero = bot)
    (hM : 1 ≤ pssm.rows) (s : List Nat) (i : Nat) (hi : s.length < i + pssm.rows) :
    C01.windowScore zero add pssm N s i = bot := by
  rw [← windowScore_eq]
  exact C07.windowScore_past_end add zero bot hbot _ pssm.rows N hNcol hM _ s.length i hi

/-- **what a full scan returns** (`score` = `score_into` on an empty buffer, rows `0..R`), as proved
    by C01: no rows when `L < M`; otherwise `R = ⌈L/C⌉` rows, `max_index = L + 1 − M`, and cell
    `(r, c)` holds C01's window score of position `c·R + r` -/
def FullScan (zero : β) (add : β → β → β) (pssm : Mat β K) (N : Nat) (s : List Nat) (C : Nat)
    (sc : Scores β C) : Prop :=
  if s.length < pssm.rows then sc.data.rows = 0 ∧ sc.maxIndex = 0
  else sc.data.rows = seqRowsOf C s.length ∧ sc.maxIndex = s.length + 1 - pssm.rows ∧
    ∀ r c, r < seqRowsOf C s.length → c < C →
      sc.data.getD r c zero = C01.windowScore zero add pssm N s (c * seqRowsOf C s.length + r)

/-- a full scan through ANY `score_rows_into` that agrees with the generic one on the full row range
    (C01 §D provides that for SSE2, AVX2 and every dispatcher arm) does not panic and returns a
    `FullScan` matrix -/
theorem fullScan_any (hC : 0 < C) (zero : β) (add : β → β → β) (pssm : Mat β K) (N : Nat)
    (seq : Striped C) (s : List Nat) (inv : Inv N seq s) (hs : ∀ x ∈ s, x < K) (hN : N < K)
    (hM : 1 ≤ pssm.rows) (hW : pssm.rows - 1 ≤ seq.wrap)
    (rowsInto : Nat → Nat → Scores β C → Except String (Scores β C))
    (heq : ∀ sc, rowsInto 0 (seq.data.rows - seq.wrap) sc =
      Score.scoreRowsGeneric zero add pssm seq 0 (seq.data.rows - seq.wrap) sc) :
    ∃ sc, Score.scoreFull rowsInto seq = .ok sc ∧ FullScan zero add pssm N s C sc := by
  unfold Score.scoreFull Score.scoreInto
  rw [if_neg (by rw [inv.rows]; omega), heq]
  have hrows : seq.data.rows - seq.wrap = seqRowsOf C s.length := by rw [inv.rows]; omega
  rw [hrows]
  obtain ⟨sc, hsc, hspec⟩ := C01.scoreRowsGeneric_spec hC zero add pssm N seq s inv hs hN hW 0
    (seqRowsOf C s.length) (Nat.le_refl _) Score.empty
  refine ⟨sc, hsc, ?_⟩
  unfold FullScan
  by_cases hLM : s.length < pssm.rows
  · rw [if_pos (Or.inl hLM)] at hspec
    rw [if_pos hLM]
    exact hspec
  · have hR := seqRowsOf_pos hC (show 0 < s.length by omega)
    rw [if_neg (by omega)] at hspec
    rw [if_neg hLM]
    obtain ⟨h1, h2, h3⟩ := hspec
    refine ⟨by simpa using h1, h2, ?_⟩
    intro r c hr hc
    have := h3 r c (Nat.zero_le _) hr hc
    simpa using this

/-- the generic backend (trait defaults), any column count -/
theorem fullScan_generic (hC : 0 < C) (zero : β) (add : β → β → β) (pssm : Mat β K) (N : Nat)
    (seq : Striped C) (s : List Nat) (inv : Inv N seq s) (hs : ∀ x ∈ s, x < K) (hN : N < K)
    (hM : 1 ≤ pssm.rows) (hW : pssm.rows - 1 ≤ seq.wrap) :
    ∃ sc, Score.scoreFull (Score.scoreRowsGeneric zero add pssm seq) seq = .ok sc ∧
      FullScan zero add pssm N s C sc :=
  fullScan_any hC zero add pssm N seq s inv hs hN hM hW _ (fun _ => rfl)

/-- the SSE2 backend, any multiple of 16 columns (needs `add x zero = x`, as in C01) -/
theorem fullScan_sse2 (hC : 0 < C) (h16 : 16 ∣ C) (zero : β) (add : β → β → β)
    (hz : ∀ x, add x zero = x) (pssm : Mat β K) (N : Nat)
    (seq : Striped C) (s : List Nat) (inv : Inv N seq s) (hs : ∀ x ∈ s, x < K) (hN : N < K)
    (hM : 1 ≤ pssm.rows) (hW : pssm.rows - 1 ≤ seq.wrap) :
    ∃ sc, Score.scoreFull (Score.Sse2.score zero add pssm seq) seq = .ok sc ∧
      FullScan zero add pssm N s C sc :=
  fullScan_any hC zero add pssm N seq s inv hs hN hM hW _
    (fun sc => C01.scoreSse2_eq_generic zero add hz pssm h16 seq 0 _ sc hM hW (Nat.le_refl _)
      (C01.symOK_of_inv N seq s inv hs hN))

/-- the AVX2 backend (permute kernel for `K ≤ 8`, gather otherwise) -/
theorem fullScan_avx2 (zero : β) (add : β → β → β) (pssm : Mat β K) (hK : K ≤ 256) (N : Nat)
    (seq : Striped 32) (s : List Nat) (inv : Inv N seq s) (hs : ∀ x ∈ s, x < K) (hN : N < K)
    (hM : 1 ≤ pssm.rows) (hW : pssm.rows - 1 ≤ seq.wrap) :
    ∃ sc, Score.scoreFull (Score.Avx2.scoreF32 zero add pssm seq) seq = .ok sc ∧
      FullScan zero add pssm N s 32 sc :=
  fullScan_any (by decide) zero add pssm N seq s inv hs hN hM hW _
    (fun sc => C01.scoreF32Avx2_eq_generic zero add pssm hK seq 0 _ sc hM hW (Nat.le_refl _)
      (C01.symOK_of_inv N seq s inv hs hN))

/-- every arm of the runtime dispatcher -/
theorem fullScan_dispatch (arm : Score.Arm) (zero : β) (add : β → β → β) (hz : ∀ x, add x zero = x)
    (pssm : Mat β K) (hK : K ≤ 256) (N : Nat)
    (seq : Striped 32) (s : List Nat) (inv : Inv N seq s) (hs : ∀ x ∈ s, x < K) (hN : N < K)
    (hM : 1 ≤ pssm.rows) (hW : pssm.rows - 1 ≤ seq.wrap) :
    ∃ sc, Score.scoreFull (Score.dispatchF32 arm zero add pssm seq) seq = .ok sc ∧
      FullScan zero add pssm N s 32 sc :=
  fullScan_any (by decide) zero add pssm N seq s inv hs hN hM hW _
    (fun sc => C01.dispatchF32_eq_generic arm zero add hz pssm hK seq 0 _ sc hM hW (Nat.le_refl _)
      (C01.symOK_of_inv N seq s inv hs hN))

/-- **B1 (ii-a): every cell whose position is `> L − M` holds `bot`** — in the matrix PRODUCED by a
    full scan, when the wildcard column of the scoring matrix is an absorbing `bot` -/
theorem cell_past_end_bot (zero bot : β) (add : β → β → β) (hbot : ∀ x, add x bot = bot)
    (pssm : Mat β K) (N : Nat) (hNcol : ∀ j, j < pssm.rows → pssm.getD j N zero = bot)
    (hM : 1 ≤ pssm.rows) (s : List Nat) (sc : Scores β C) (h : FullScan zero add pssm N s C sc)
    (r c : Nat) (hr : r < sc.data.rows) (hc : c < C)
    (hpast : s.length < c * sc.data.rows + r + pssm.rows) :
    sc.data.getD r c zero = bot := by
  unfold FullScan at h
  by_cases hLM : s.length < pssm.rows
  · rw [if_pos hLM] at h; omega
  · rw [if_neg hLM] at h
    obtain ⟨h1, _, h3⟩ := h
    rw [h1] at hr hpast
    rw [h3 r c hr hc]
    exact windowScore_past_end zero bot add hbot pssm N hNcol hM s _ hpast

theorem holdsMax_congr (o : Cmp β) (rows C : Nat) (f g : Nat → Nat → β)
    (h : ∀ r c, r < rows → c < C → f r c = g r c) (p : Coord) (hp : C07.HoldsMax o rows C f p) :
    C07.HoldsMax o rows C g p := by
  obtain ⟨h1, h2, h3⟩ := hp
  refine ⟨h1, h2, ?_⟩
  intro r c hr hc
  rw [← h r c hr hc, ← h p.1 p.2 h1 h2]
  exact h3 r c hr hc

/-- **B1 (ii-b): a cell holding the maximum of the scan is the best valid position.**  Total order
    not needed here; `bot` absorbing for `add`, nothing but `bot` is `≤ bot`, wildcard column `bot`.
    If some valid position (`i₀ + M ≤ L`) scores `≠ bot`, then for the matrix a full scan returns,
    any cell `p` holding its maximum (`C07.HoldsMax`: what C07 proves of `argmax` on every backend)
    is a valid position, holds that position's window score, and that score dominates the window
    score of every valid position. -/
theorem holdsMax_is_best_valid (o : Cmp β) (add : β → β → β) (bot : β)
    (hbot : ∀ x, add x bot = bot) (hbotmin : ∀ x, o.le x bot = true → x = bot)
    (pssm : Mat β K) (N : Nat) (hNcol : ∀ j, j < pssm.rows → pssm.getD j N o.zero = bot)
    (hM : 1 ≤ pssm.rows) (hC : 0 < C) (s : List Nat) (sc : Scores β C)
    (h : FullScan o.zero add pssm N s C sc) (p : Coord)
    (hp : C07.HoldsMax o sc.data.rows C (fun r c => sc.data.getD r c o.zero) p)
    (i0 : Nat) (hi0 : i0 + pssm.rows ≤ s.length)
    (hfin : C01.windowScore o.zero add pssm N s i0 ≠ bot) :
    (p.2 * sc.data.rows + p.1) + pssm.rows ≤ s.length ∧
    sc.data.getD p.1 p.2 o.zero = C01.windowScore o.zero add pssm N s (p.2 * sc.data.rows + p.1) ∧
    ∀ i, i + pssm.rows ≤ s.length →
      o.le (C01.windowScore o.zero add pssm N s i)
           (C01.windowScore o.zero add pssm N s (p.2 * sc.data.rows + p.1)) = true := by
  unfold FullScan at h
  rw [if_neg (by omega)] at h
  obtain ⟨h1, _, h3⟩ := h
  rw [h1] at hp ⊢
  have hge := seqRowsOf_mul_ge hC s.length
  have hp' : C07.HoldsMax o (seqRowsOf C s.length) C
      (fun r c => C07.windowScore add o.zero (fun j a => pssm.getD j a o.zero) pssm.rows
        (C07.padSym (fun q => s.getD q N) s.length N) (c * seqRowsOf C s.length + r)) p := by
    apply holdsMax_congr o _ C _ _ _ p hp
    intro r c hr hc
    rw [h3 r c hr hc, windowScore_eq]
  have key := C07.max_is_best_valid o add o.zero bot hbot hbotmin
    (fun j a => pssm.getD j a o.zero) pssm.rows N hNcol hM (fun q => s.getD q N) s.length
    (seqRowsOf C s.length) C p hp' i0 (by omega)
    (by rw [windowScore_eq]; exact hfin)
  simp only [windowScore_eq] at key
  refine ⟨key.1, h3 p.1 p.2 hp.1 hp.2.1, ?_⟩
  intro i hi
  exact key.2 i hi (by omega)

/-- the same for the maximum VALUE (`C07.IsMax`: what C07 proves of `max` on every backend): it is
    the window score of a valid position and dominates the window score of every valid position —
    "max(score(pssm, seq)) = the best valid position's score" -/
theorem isMax_is_best_valid (o : Cmp β) (add : β → β → β) (bot : β)
    (hbot : ∀ x, add x bot = bot) (hbotmin : ∀ x, o.le x bot = true → x = bot)
    (pssm : Mat β K) (N : Nat) (hNcol : ∀ j, j < pssm.rows → pssm.getD j N o.zero = bot)
    (hM : 1 ≤ pssm.rows) (hC : 0 < C) (s : List Nat) (sc : Scores β C)
    (h : FullScan o.zero add pssm N s C sc) (v : β)
    (hv : C07.IsMax o sc.data.rows C (fun r c => sc.data.getD r c o.zero) v)
    (i0 : Nat) (hi0 : i0 + pssm.rows ≤ s.length)
    (hfin : C01.windowScore o.zero add pssm N s i0 ≠ bot) :
    (∃ i, i + pssm.rows ≤ s.length ∧ C01.windowScore o.zero add pssm N s i = v) ∧
    ∀ i, i + pssm.rows ≤ s.length → o.le (C01.windowScore o.zero add pssm N s i) v = true := by
  obtain ⟨⟨r, c, hr, hc, hrc⟩, hdom⟩ := hv
  simp only at hrc hdom
  have hp : C07.HoldsMax o sc.data.rows C (fun r c => sc.data.getD r c o.zero) (r, c) := by
    refine ⟨hr, hc, ?_⟩
    intro r' c' hr' hc'
    simp only [hrc]
    exact hdom r' c' hr' hc'
  obtain ⟨k1, k2, k3⟩ := holdsMax_is_best_valid o add bot hbot hbotmin pssm N hNcol hM hC s sc h
    (r, c) hp i0 hi0 hfin
  simp only at k1 k2 k3
  rw [hrc] at k2
  refine ⟨⟨_, k1, k2.symm⟩, ?_⟩
  intro i hi
  rw [k2]
  exact k3 i hi

/-! ### the final statements, about the `max` / `argmax` functions of C07's model applied to the
    `StripedScores` value returned by C01's scoring model -/

/-- the `StripedScores` of the scoring model, as the `StripedScores` of the maximum model (the two
    properties declared the same structure twice) -/
def toMaxStriped (sc : Scores β C) : Maximum.Striped β C := ⟨sc.data, sc.maxIndex⟩

/-- **B1, trait defaults, any column count `C ≥ 1`.**  `max(score(pssm, striped seq))`, both through
    the generic pipeline, is the score of a valid position and dominates the score of every valid
    position, as soon as one valid position scores `≠ −∞`. -/
theorem maxGeneric_of_scan (o : Cmp β) (ht : o.Total) (add : β → β → β) (bot : β)
    (hbot : ∀ x, add x bot = bot) (hbotmin : ∀ x, o.le x bot = true → x = bot)
    (pssm : Mat β K) (N : Nat) (hN : N < K)
    (hNcol : ∀ j, j < pssm.rows → pssm.getD j N o.zero = bot) (hM : 1 ≤ pssm.rows) (hC : 0 < C)
    (seq : Striped C) (s : List Nat) (inv : Inv N seq s) (hs : ∀ x ∈ s, x < K)
    (hW : pssm.rows - 1 ≤ seq.wrap)
    (i0 : Nat) (hi0 : i0 + pssm.rows ≤ s.length)
    (hfin : C01.windowScore o.zero add pssm N s i0 ≠ bot) :
    ∃ sc v, Score.scoreFull (Score.scoreRowsGeneric o.zero add pssm seq) seq = .ok sc ∧
      Maximum.maxGeneric o C sc.data.rows ((toMaxStriped sc).cell o) = some v ∧
      (∃ i, i + pssm.rows ≤ s.length ∧ C01.windowScore o.zero add pssm N s i = v) ∧
      ∀ i, i + pssm.rows ≤ s.length → o.le (C01.windowScore o.zero add pssm N s i) v = true := by
  obtain ⟨sc, hsc, hfull⟩ := fullScan_generic hC o.zero add pssm N seq s inv hs hN hM hW
  have hrows : sc.data.rows ≠ 0 := by
    have h := hfull
    unfold FullScan at h
    rw [if_neg (by omega)] at h
    have := seqRowsOf_pos hC (show 0 < s.length by omega)
    omega
  cases hmax : Maximum.maxGeneric o C sc.data.rows ((toMaxStriped sc).cell o) with
  | none => exact absurd ((C07.maxGeneric_eq_none_iff o C _ _).1 hmax) hrows
  | some v =>
    have hv := C07.maxGeneric_spec o ht C sc.data.rows hC _ v hmax
    exact ⟨sc, v, hsc, hmax, isMax_is_best_valid o add bot hbot hbotmin pssm N hNcol hM hC s sc hfull
      v hv i0 hi0 hfin⟩

/-- **B1, trait-default `argmax`, any column count `C ≥ 1`**: `argmax(score(pssm, striped seq))`
    designates a cell whose position is valid, that holds the position's window score, and whose
    score dominates the score of every valid position. -/
theorem argmaxGeneric_of_scan (o : Cmp β) (ht : o.Total) (add : β → β → β) (bot : β)
    (hbot : ∀ x, add x bot = bot) (hbotmin : ∀ x, o.le x bot = true → x = bot)
    (pssm : Mat β K) (N : Nat) (hN : N < K)
    (hNcol : ∀ j, j < pssm.rows → pssm.getD j N o.zero = bot) (hM : 1 ≤ pssm.rows) (hC : 0 < C)
    (seq : Striped C) (s : List Nat) (inv : Inv N seq s) (hs : ∀ x ∈ s, x < K)
    (hW : pssm.rows - 1 ≤ seq.wrap)
    (i0 : Nat) (hi0 : i0 + pssm.rows ≤ s.length)
    (hfin : C01.windowScore o.zero add pssm N s i0 ≠ bot) :
    ∃ sc p, Score.scoreFull (Score.scoreRowsGeneric o.zero add pssm seq) seq = .ok sc ∧
      Maximum.argmaxGeneric o C sc.data.rows ((toMaxStriped sc).cell o) = some p ∧
      (toMaxStriped sc).offset p + pssm.rows ≤ s.length ∧
      sc.data.getD p.1 p.2 o.zero = C01.windowScore o.zero add pssm N s ((toMaxStriped sc).offset p) ∧
      ∀ i, i + pssm.rows ≤ s.length →
        o.le (C01.windowScore o.zero add pssm N s i)
          (C01.windowScore o.zero add pssm N s ((toMaxStriped sc).offset p)) = true := by
  obtain ⟨sc, hsc, hfull⟩ := fullScan_generic hC o.zero add pssm N seq s inv hs hN hM hW
  have hrows : sc.data.rows ≠ 0 := by
    have h := hfull
    unfold FullScan at h
    rw [if_neg (by omega)] at h
    have := seqRowsOf_pos hC (show 0 < s.length by omega)
    omega
  cases harg : Maximum.argmaxGeneric o C sc.data.rows ((toMaxStriped sc).cell o) with
  | none => exact absurd ((C07.argmaxGeneric_eq_none_iff o C _ _).1 harg) hrows
  | some p =>
    have hp := C07.argmaxGeneric_spec o ht C sc.data.rows hC _ p harg
    exact ⟨sc, p, hsc, harg, holdsMax_is_best_valid o add bot hbot hbotmin pssm N hNcol hM hC s sc
      hfull p hp i0 hi0 hfin⟩

/-- **B1, `StripedScores::max` after `score`, every dispatcher arm of both.**  For every arm `armS`
    the scoring dispatcher takes and every arm `armM` the maximum dispatcher takes:
    `pssm.score(seq).max()` is the score of a valid position and dominates the score of every valid
    position (NaN-free order, `−∞` wildcard column, one valid position scoring `≠ −∞`). -/
theorem stripedMax_of_scan (o : Cmp β) (ht : o.Total) (add : β → β → β)
    (hz : ∀ x, add x o.zero = x) (bot : β)
    (hbot : ∀ x, add x bot = bot) (hbotmin : ∀ x, o.le x bot = true → x = bot)
    (pssm : Mat β K) (hK : K ≤ 256) (N : Nat) (hN : N < K)
    (hNcol : ∀ j, j < pssm.rows → pssm.getD j N o.zero = bot) (hM : 1 ≤ pssm.rows)
    (seq : Striped 32) (s : List Nat) (inv : Inv N seq s) (hs : ∀ x ∈ s, x < K)
    (hW : pssm.rows - 1 ≤ seq.wrap) (armS : Score.Arm) (armM : Maximum.Backend)
    (i0 : Nat) (hi0 : i0 + pssm.rows ≤ s.length)
    (hfin : C01.windowScore o.zero add pssm N s i0 ≠ bot) :
    ∃ sc v, Score.scoreFull (Score.dispatchF32 armS o.zero add pssm seq) seq = .ok sc ∧
      (toMaxStriped sc).maxF32 o armM = some v ∧
      (∃ i, i + pssm.rows ≤ s.length ∧ C01.windowScore o.zero add pssm N s i = v) ∧
      ∀ i, i + pssm.rows ≤ s.length → o.le (C01.windowScore o.zero add pssm N s i) v = true := by
  obtain ⟨sc, hsc, hfull⟩ := fullScan_dispatch armS o.zero add hz pssm hK N seq s inv hs hN hM hW
  have hrows : sc.data.rows ≠ 0 := by
    have h := hfull
    unfold FullScan at h
    rw [if_neg (by omega)] at h
    have := seqRowsOf_pos (C := 32) (by decide) (show 0 < s.length by omega)
    omega
  cases hmax : (toMaxStriped sc).maxF32 o armM with
  | none => exact absurd ((C07.striped_maxF32_none_iff o armM _).1 hmax) hrows
  | some v =>
    have hv := C07.striped_maxF32_spec o ht armM (toMaxStriped sc) v hmax
    exact ⟨sc, v, hsc, hmax, isMax_is_best_valid o add bot hbot hbotmin pssm N hNcol hM (by decide) s sc
      hfull v hv i0 hi0 hfin⟩

/-- **B1, `StripedScores::argmax` after `score`, every dispatcher arm of both.**  Under the explicit
    size guards of the kernels (`L ≤ u32::MAX`), `pssm.score(seq).argmax()` does not panic and
    returns a position `p` that is valid (`p + M ≤ L`), `scores[p]` is its window score, and that
    score dominates the score of every valid position. -/
theorem stripedArgmax_of_scan (o : Cmp β) (ht : o.Total) (hneg : ∀ v, o.le o.negInf v = true)
    (add : β → β → β) (hz : ∀ x, add x o.zero = x) (bot : β)
    (hbot : ∀ x, add x bot = bot) (hbotmin : ∀ x, o.le x bot = true → x = bot)
    (pssm : Mat β K) (hK : K ≤ 256) (N : Nat) (hN : N < K)
    (hNcol : ∀ j, j < pssm.rows → pssm.getD j N o.zero = bot) (hM : 1 ≤ pssm.rows)
    (seq : Striped 32) (s : List Nat) (inv : Inv N seq s) (hs : ∀ x ∈ s, x < K)
    (hL : s.length ≤ 4294967295)
    (hW : pssm.rows - 1 ≤ seq.wrap) (armS : Score.Arm) (armM : Maximum.Backend)
    (i0 : Nat) (hi0 : i0 + pssm.rows ≤ s.length)
    (hfin : C01.windowScore o.zero add pssm N s i0 ≠ bot) :
    ∃ sc p, Score.scoreFull (Score.dispatchF32 armS o.zero add pssm seq) seq = .ok sc ∧
      (toMaxStriped sc).argmaxF32 o armM = .ok (some p) ∧
      p + pssm.rows ≤ s.length ∧
      Score.index o.zero sc p = .ok (C01.windowScore o.zero add pssm N s p) ∧
      ∀ i, i + pssm.rows ≤ s.length →
        o.le (C01.windowScore o.zero add pssm N s i) (C01.windowScore o.zero add pssm N s p) = true := by
  obtain ⟨sc, hsc, hfull⟩ := fullScan_dispatch armS o.zero add hz pssm hK N seq s inv hs hN hM hW
  have hshape : sc.data.rows = seqRowsOf 32 s.length ∧ sc.maxIndex = s.length + 1 - pssm.rows := by
    have h := hfull
    unfold FullScan at h
    rw [if_neg (by omega)] at h
    exact ⟨h.1, h.2.1⟩
  have hRpos := seqRowsOf_pos (C := 32) (by decide) (show 0 < s.length by omega)
  have hRle : seqRowsOf 32 s.length ≤ 4294967296 := by unfold seqRowsOf; omega
  have hmi : (toMaxStriped sc).maxIndex ≤ 4294967295 := by
    show sc.maxIndex ≤ 4294967295
    rw [hshape.2]; omega
  have hle : (toMaxStriped sc).data.rows ≤ 4294967296 := by
    show sc.data.rows ≤ 4294967296
    rw [hshape.1]; exact hRle
  -- not a panic, not `None`
  cases harg : (toMaxStriped sc).argmaxF32 o armM with
  | error e =>
    exfalso
    simp only [Maximum.Striped.argmaxF32] at harg
    split at harg
    · next e' he =>
      obtain ⟨t1, _⟩ := C07.disp_tables
      cases armM <;> simp only [Maximum.dispArgmaxF32, Maximum.kernelOf, t1, Maximum.Backend.idx,
        List.getD_cons_zero, List.getD_cons_succ] at he
      · cases he
      · have := (C07.argmaxSse2_panic_iff o 32 _ _ _).1 ⟨e', he⟩
        omega
      · have := (C07.argmaxF32Avx2_panic_iff o _ _ _).1 ⟨e', he⟩
        omega
    · cases harg
  | ok a =>
    cases a with
    | none =>
      have := (C07.striped_argmaxF32_none_iff o armM (toMaxStriped sc) hmi).1 harg
      have h2 : sc.data.rows = 0 := this
      omega
    | some p =>
      obtain ⟨c, hc, hpc⟩ := C07.striped_argmaxF32_spec o ht hneg armM (toMaxStriped sc) hle p harg
      have hc' : C07.HoldsMax o sc.data.rows 32 (fun r c => sc.data.getD r c o.zero) c := hc
      obtain ⟨k1, k2, k3⟩ := holdsMax_is_best_valid o add bot hbot hbotmin pssm N hNcol hM
        (by decide) s sc hfull c hc' i0 hi0 hfin
      have hpc' : p = c.2 * sc.data.rows + c.1 := hpc
      rw [← hpc'] at k1 k2 k3
      refine ⟨sc, p, hsc, harg, k1, ?_, k3⟩
      have hr0 : sc.data.rows ≠ 0 := by omega
      have hc1 : c.1 < sc.data.rows := hc.1
      have hc2 : c.2 < 32 := hc.2.1
      have hmod : p % sc.data.rows = c.1 := by
        rw [hpc', Nat.mul_comm, Nat.mul_add_mod]; exact Nat.mod_eq_of_lt hc1
      have hdiv : p / sc.data.rows = c.2 := by
        rw [hpc', Nat.mul_comm, Nat.mul_add_div (by omega), Nat.div_eq_of_lt hc1]; rfl
      unfold Score.index
      rw [if_neg hr0]
      simp only [hmod, hdiv]
      rw [if_pos ⟨hc1, hc2⟩, k2]

/-- **C02/C03's exact score IS C01's window score**: `C02.scoreAt` (the `score_position` order sum
    over `ERat`, wildcard `K − 1`) is `C01.windowScore` over the carrier `ERat` — so the hits of
    `C02.scanner_yields_exactly` / `C03.scanner_best_hit` carry the score every backend of C01
    computes. -/
theorem scoreAt_eq_windowScore (p : Mat ERat K) (s : List Nat) (i : Nat) :
    C02.scoreAt p s i = C01.windowScore (ERat.fin 0) ERat.add p (K - 1) s i := rfl

end B1

/-! ### non-vacuity of §B1: the exact carrier `ERat` (rationals with `−∞`) of C02/C03/C08, the
    2-row matrix `C08.pex` (score 1 for `C`, wildcard column `−∞`), 40 symbols in 32 columns -/

section B1Examples

/-- `ERat` as an element type of the maximum model: `T::default() = 0`, `−∞ = bot` -/
def eratCmp : Cmp ERat := ⟨ERat.le, ERat.lt, .fin 0, .bot⟩

theorem eratCmp_total : eratCmp.Total :=
  ⟨C03.erat_laws.le_total, C03.erat_laws.le_trans, C03.erat_laws.lt_iff⟩

theorem erat_add_bot (x : ERat) : ERat.add x .bot = .bot := by cases x <;> rfl

theorem erat_le_bot (x : ERat) (h : eratCmp.le x .bot = true) : x = .bot := by
  cases x with
  | bot => rfl
  | fin q => simp [eratCmp, ERat.le] at h

theorem erat_add_zero (x : ERat) : ERat.add x (.fin 0) = x := by
  cases x with
  | bot => rfl
  | fin q => simp [ERat.add]

/-- 40 symbols over `{A, C, T, G, N = 4}`, wildcards inside, the last symbol a `C` -/
def bS : List Nat := (List.range 40).map fun i => if i = 39 then 1 else (i * i + i / 3) % 5
/-- striped in 32 columns (2 sequence rows) and configured for a motif of 2 rows (1 wrap row) -/
def bSeq : Striped 32 := Striped.configure 4 2 (Striped.stripeGeneric (C := 32) 4 bS Striped.empty)

theorem bSeq_inv : Inv 4 bSeq bS :=
  C04.configure_inv (by decide) 4 _ _ 2 (C04.stripeGeneric_inv (by decide) 4 _ _)

-- B1 (i) on numbers: both definitions give `[1, −∞, −∞, 0]` on the first four windows
example : (List.range 4).map (fun i => C07.windowScore ERat.add (.fin 0) (fun j a => C08.pex.getD j a (.fin 0))
      C08.pex.rows (C07.padSym (fun q => bS.getD q 4) bS.length 4) i) = [.fin 1, .bot, .bot, .fin 0] ∧
    (List.range 4).map (fun i => C01.windowScore (.fin 0) ERat.add C08.pex 4 bS i) = [.fin 1, .bot, .bot, .fin 0] := by
  decide +kernel

-- the hypotheses of the final theorems hold for this instance …
example : (∀ x, ERat.add x .bot = .bot) ∧ (∀ x, eratCmp.le x .bot = true → x = .bot) ∧
    (∀ x, ERat.add x eratCmp.zero = x) ∧ (∀ v, eratCmp.le eratCmp.negInf v = true) ∧ eratCmp.Total :=
  ⟨erat_add_bot, erat_le_bot, erat_add_zero, fun _ => rfl, eratCmp_total⟩
example : (∀ j, j < C08.pex.rows → C08.pex.getD j 4 eratCmp.zero = .bot) ∧ 1 ≤ C08.pex.rows ∧
    (∀ x ∈ bS, x < 5) ∧ C08.pex.rows - 1 ≤ bSeq.wrap ∧ 0 + C08.pex.rows ≤ bS.length ∧
    C01.windowScore eratCmp.zero ERat.add C08.pex 4 bS 0 ≠ .bot := by decide +kernel

/-- … so `max(score(pssm, seq))` is the best valid score, through every pair of dispatcher arms -/
example (armS : Score.Arm) (armM : Maximum.Backend) :
    ∃ sc v, Score.scoreFull (Score.dispatchF32 armS eratCmp.zero ERat.add C08.pex bSeq) bSeq = .ok sc ∧
      (toMaxStriped sc).maxF32 eratCmp armM = some v ∧
      (∃ i, i + C08.pex.rows ≤ bS.length ∧ C01.windowScore eratCmp.zero ERat.add C08.pex 4 bS i = v) ∧
      ∀ i, i + C08.pex.rows ≤ bS.length →
        eratCmp.le (C01.windowScore eratCmp.zero ERat.add C08.pex 4 bS i) v = true :=
  stripedMax_of_scan eratCmp eratCmp_total ERat.add erat_add_zero .bot erat_add_bot erat_le_bot
    C08.pex (by decide) 4 (by decide) (by decide +kernel) (by decide +kernel) bSeq bS bSeq_inv
    (by decide +kernel) (by decide +kernel) armS armM 0 (by decide +kernel) (by decide +kernel)

example (armS : Score.Arm) (armM : Maximum.Backend) :
    ∃ sc p, Score.scoreFull (Score.dispatchF32 armS eratCmp.zero ERat.add C08.pex bSeq) bSeq = .ok sc ∧
      (toMaxStriped sc).argmaxF32 eratCmp armM = .ok (some p) ∧ p + C08.pex.rows ≤ bS.length ∧
      Score.index eratCmp.zero sc p = .ok (C01.windowScore eratCmp.zero ERat.add C08.pex 4 bS p) ∧
      ∀ i, i + C08.pex.rows ≤ bS.length →
        eratCmp.le (C01.windowScore eratCmp.zero ERat.add C08.pex 4 bS i)
          (C01.windowScore eratCmp.zero ERat.add C08.pex 4 bS p) = true :=
  stripedArgmax_of_scan eratCmp eratCmp_total (fun _ => rfl) ERat.add erat_add_zero .bot erat_add_bot
    erat_le_bot C08.pex (by decide) 4 (by decide) (by decide +kernel) (by decide +kernel) bSeq bS
    bSeq_inv (by decide +kernel) (by decide +kernel) (by decide +kernel) armS armM 0
    (by decide +kernel) (by decide +kernel)

-- the trait defaults on 4 columns: `C01.exS = A T G C A N T` (7 symbols, one wildcard), `C01.exSeq4`
example : ∃ sc v, Score.scoreFull (Score.scoreRowsGeneric eratCmp.zero ERat.add C08.pex C01.exSeq4) C01.exSeq4 = .ok sc ∧
    Maximum.maxGeneric eratCmp 4 sc.data.rows ((toMaxStriped sc).cell eratCmp) = some v ∧
    (∃ i, i + C08.pex.rows ≤ C01.exS.length ∧ C01.windowScore eratCmp.zero ERat.add C08.pex 4 C01.exS i = v) ∧
    ∀ i, i + C08.pex.rows ≤ C01.exS.length →
      eratCmp.le (C01.windowScore eratCmp.zero ERat.add C08.pex 4 C01.exS i) v = true :=
  maxGeneric_of_scan eratCmp eratCmp_total ERat.add .bot erat_add_bot erat_le_bot C08.pex 4 (by decide)
    (by decide +kernel) (by decide +kernel) (by decide) C01.exSeq4 C01.exS
    (C04.configure_inv (by decide) 4 _ _ 2 (C04.stripeGeneric_inv (by decide) 4 _ _))
    (by decide) (by decide +kernel) 0 (by decide +kernel) (by decide +kernel)
example : (match Score.scoreFull (Score.scoreRowsGeneric (.fin 0) ERat.add C08.pex C01.exSeq4) C01.exSeq4 with
    | .ok sc => (Maximum.maxGeneric eratCmp 4 sc.data.rows ((toMaxStriped sc).cell eratCmp),
        (Maximum.argmaxGeneric eratCmp 4 sc.data.rows ((toMaxStriped sc).cell eratCmp)).map (toMaxStriped sc).offset,
        Score.unstripe (.fin 0) sc, sc.data.getD 0 3 (.fin 0))
    | .error _ => (none, none, [], .fin 7)) =
    (some (.fin 1), some 3, [.fin 0, .fin 0, .fin 1, .fin 1, .bot, .bot], .bot) := by decide +kernel

/-- what the models compute on it: maximum 2 (`C C`, at positions 7, 22 and 37, 38), an admissible (backend-dependent)
    arg-maximum, and `−∞` in the cell of position 39 = (row 1, column 19), whose window is `C` + padding -/
def bRun (armS : Score.Arm) (armM : Maximum.Backend) : Option (Option ERat × Option Nat × ERat × ERat) :=
  match Score.scoreFull (Score.dispatchF32 armS (.fin 0) ERat.add C08.pex bSeq) bSeq with
  | .ok sc =>
    some ((toMaxStriped sc).maxF32 eratCmp armM,
      (match (toMaxStriped sc).argmaxF32 eratCmp armM with | .ok a => a | .error _ => none),
      sc.data.getD 1 19 (.fin 0), sc.data.getD 0 19 (.fin 0))
  | .error _ => none

example : bRun .avx2 .avx2 = some (some (.fin 2), some 7, .bot, .fin 2) := by decide +kernel
example : bRun .sse2 .generic = some (some (.fin 2), some 37, .bot, .fin 2) := by decide +kernel
example : bRun .generic .sse2 = some (some (.fin 2), some 38, .bot, .fin 2) := by decide +kernel

end B1Examples

end Bridge
end LMV
