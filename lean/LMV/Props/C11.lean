/-
  C11 — MEME-style score distribution agrees with the exact tail within its resolution.

  Exact arithmetic (`Rat` instance of LMV.Model.Dist, the model the driver executes at `Float`).
  Probabilities are finite sums over all words (LMV.Spec.Dist).  Hypotheses (`Hyp`): background
  frequencies of the symbols non-negative with sum ≤ 1, every row has a column per symbol, table
  length and finite entries fit `i32`; plus `0 < scale` (span of the finite entries ≤ CDF_RANGE).
  Matrix entries may be −∞ anywhere (not only in the wildcard column), and the background may be a
  sub-distribution — both are more than the property asks for.
-/
import LMV.Lemmas.DistPvalue

namespace LMV.C11
open LMV.Dist

variable {R : Nat} {syms : List Nat} {bg : List Rat} {m : List (List (Option Rat))} {d : Dist Rat}

/-! ### (1) the density is the distribution of the integer score -/

/-- `pdf[j] = P(D = j)` for the integer score `D` of a background-distributed word -/
theorem pdf_eq_prob (hyp : Hyp R syms bg m) (h : build R syms bg m = some d) (hs : 0 < d.scale)
    (j : Nat) : vget (pdfOf R syms bg d.data) j = prob syms bg m.length (dEq d.data j) :=
  (build_facts hyp h hs).pdf j

/-- `0 ≤ D ≤ R·M` (`D` is a natural number; `R = 1000`) -/
theorem dscore_range (hyp : Hyp R syms bg m) (h : build R syms bg m = some d) (hs : 0 < d.scale)
    {w : List Nat} (hw : w ∈ words syms m.length) {t : Nat} (ht : dscore d.data w = some t) :
    t ≤ R * m.length := by
  have := (build_facts hyp h hs).wordBound w hw t ht
  rw [Nat.mul_comm]; exact this

/-! ### (2) the survival function -/

theorem sf_size (hyp : Hyp R syms bg m) (h : build R syms bg m = some d) (hs : 0 < d.scale) :
    d.sf.size = m.length * R + 1 := (build_facts hyp h hs).size

/-- `sf[j] = P(D ≥ j)` -/
theorem sf_eq_tail (hyp : Hyp R syms bg m) (h : build R syms bg m = some d) (hs : 0 < d.scale)
    {j : Nat} (hj : j < d.sf.size) :
    vget d.sf j = prob syms bg m.length (dGe d.data (j : Int)) :=
  (build_facts hyp h hs).sf j hj

/-- `sf` is non-increasing -/
theorem sf_antitone (hyp : Hyp R syms bg m) (h : build R syms bg m = some d) (hs : 0 < d.scale)
    {i j : Nat} (hij : i ≤ j) (hj : j < d.sf.size) : vget d.sf j ≤ vget d.sf i := by
  rw [sf_eq_tail hyp h hs hj, sf_eq_tail hyp h hs (lt_of_le_of_lt hij hj)]
  exact prob_mono hyp.bg_nonneg _ _ _ (fun w _ => dGe_antitone d.data (by omega) w)

/-- `sf` has values in `[0, 1]` -/
theorem sf_mem_unit (hyp : Hyp R syms bg m) (h : build R syms bg m = some d) (hs : 0 < d.scale)
    {j : Nat} (hj : j < d.sf.size) : 0 ≤ vget d.sf j ∧ vget d.sf j ≤ 1 := by
  rw [sf_eq_tail hyp h hs hj]
  exact ⟨prob_nonneg hyp.bg_nonneg _ _, prob_le_one hyp.bg_nonneg hyp.bg_sum _ _⟩

/-! ### (3) discretisation error and the two-sided bound on the p-value -/

/-- a word is skipped by the convolution iff its exact score is −∞ -/
theorem skipped_iff (hyp : Hyp R syms bg m) (h : build R syms bg m = some d) (hs : 0 < d.scale)
    {w : List Nat} (hw : w ∈ words syms m.length) : dscore d.data w = none ↔ rscore m w = none := by
  have F := build_facts hyp h hs
  obtain ⟨hwl, hwm⟩ := mem_words hw
  rcases word_scores F.R_i32 hs m w F.cells hwl (fun row hrow a ha => hyp.cols row hrow a (hwm a ha)) with
    ⟨hr, hd⟩ | ⟨v, t, hr, hd, _⟩
  · rw [← F.data] at hd; simp [hr, hd]
  · rw [← F.data] at hd; simp [hr, hd]

/-- `|D(w) − scale·(S(w) − M·offset)| ≤ M/2` -/
theorem disc_error (hyp : Hyp R syms bg m) (h : build R syms bg m = some d) (hs : 0 < d.scale)
    {w : List Nat} (hw : w ∈ words syms m.length) {v : Rat} {t : Nat}
    (hv : rscore m w = some v) (ht : dscore d.data w = some t) :
    |(t : Rat) - d.scale * (v - m.length * d.offset)| ≤ (m.length : Rat) / 2 := by
  have F := build_facts hyp h hs
  obtain ⟨hwl, hwm⟩ := mem_words hw
  rcases word_scores F.R_i32 hs m w F.cells hwl (fun row hrow a ha => hyp.cols row hrow a (hwm a ha)) with
    ⟨hr, _⟩ | ⟨v', t', hr, hd, hu, hl, _⟩
  · rw [hr] at hv; cases hv
  · rw [← F.data] at hd
    rw [hr] at hv; rw [hd] at ht; cases hv; cases ht
    rw [abs_le]; constructor <;> linarith

/-- `pvalue s = P(D ≥ round((s − M·offset)·scale))`, in every branch of `pvalue` (below the minimum
    score, inside the table, past its end; `as i32` saturating or not) -/
theorem pvalue_eq_tail (hyp : Hyp R syms bg m) (h : build R syms bg m = some d) (hs : 0 < d.scale)
    (s : Rat) :
    d.pvalue s =
      prob syms bg m.length (dGe d.data (ratRound ((s - m.length * d.offset) * d.scale))) :=
  pvalue_eq hyp (build_facts hyp h hs) s

/-- Clause (3): with `dd` at least `(M+1)/2` discretisation steps (`(M+1)/2 ≤ dd·scale`),
    `P(S ≥ s + dd) ≤ pvalue s ≤ P(S ≥ s − dd)`. -/
theorem pvalue_bounds_of_steps (hyp : Hyp R syms bg m) (h : build R syms bg m = some d)
    (hs : 0 < d.scale) (s dd : Rat) (hdd : ((m.length : Rat) + 1) / 2 ≤ dd * d.scale) :
    prob syms bg m.length (sGe m (s + dd)) ≤ d.pvalue s ∧
    d.pvalue s ≤ prob syms bg m.length (sGe m (s - dd)) := by
  have F := build_facts hyp h hs
  rw [pvalue_eq_tail hyp h hs]
  have hru := ratRound_le ((s - m.length * d.offset) * d.scale)
  have hrl := le_ratRound ((s - m.length * d.offset) * d.scale)
  constructor
  · apply prob_mono hyp.bg_nonneg
    intro w hw hev
    obtain ⟨hwl, hwm⟩ := mem_words hw
    unfold sGe at hev
    unfold dGe
    rcases word_scores F.R_i32 hs m w F.cells hwl (fun row hrow a ha => hyp.cols row hrow a (hwm a ha)) with
      ⟨hr, _⟩ | ⟨v, t, hr, hd, hu, hl, _⟩
    · rw [hr] at hev; cases hev
    · rw [← F.data] at hd
      rw [hr] at hev
      rw [hd]
      have hsv : s + dd ≤ v := by simpa using hev
      have : ((ratRound ((s - m.length * d.offset) * d.scale) : Int) : Rat) ≤ ((t : Int) : Rat) := by
        push_cast
        nlinarith [mul_le_mul_of_nonneg_right hsv hs.le]
      have : ratRound ((s - m.length * d.offset) * d.scale) ≤ (t : Int) := by exact_mod_cast this
      simpa using this
  · apply prob_mono hyp.bg_nonneg
    intro w hw hev
    obtain ⟨hwl, hwm⟩ := mem_words hw
    unfold dGe at hev
    unfold sGe
    rcases word_scores F.R_i32 hs m w F.cells hwl (fun row hrow a ha => hyp.cols row hrow a (hwm a ha)) with
      ⟨_, hd⟩ | ⟨v, t, hr, hd, hu, hl, _⟩
    · rw [← F.data] at hd; rw [hd] at hev; cases hev
    · rw [← F.data] at hd
      rw [hd] at hev
      rw [hr]
      have hkt : ratRound ((s - m.length * d.offset) * d.scale) ≤ (t : Int) := by simpa using hev
      have hktR : ((ratRound ((s - m.length * d.offset) * d.scale) : Int) : Rat) ≤ (t : Rat) := by
        exact_mod_cast hkt
      have hmul : (s - v) * d.scale ≤ dd * d.scale := by nlinarith
      have : s - v ≤ dd := le_of_mul_le_mul_right hmul hs
      have : s - dd ≤ v := by linarith
      simpa using this

/-- Clause (3) with the property's `d = (M/2 + 1)` steps, `M/2` read as a rational … -/
theorem pvalue_bounds (hyp : Hyp R syms bg m) (h : build R syms bg m = some d) (hs : 0 < d.scale)
    (s : Rat) :
    prob syms bg m.length (sGe m (s + ((m.length : Rat) / 2 + 1) / d.scale)) ≤ d.pvalue s ∧
    d.pvalue s ≤ prob syms bg m.length (sGe m (s - ((m.length : Rat) / 2 + 1) / d.scale)) := by
  apply pvalue_bounds_of_steps hyp h hs
  rw [div_mul_cancel₀ _ hs.ne']
  linarith

/-- … and with `M/2` read as integer division (the tighter bound, the one the oracle checks) -/
theorem pvalue_bounds_intdiv (hyp : Hyp R syms bg m) (h : build R syms bg m = some d)
    (hs : 0 < d.scale) (s : Rat) :
    prob syms bg m.length (sGe m (s + (((m.length / 2 + 1 : Nat) : Rat)) / d.scale)) ≤ d.pvalue s ∧
    d.pvalue s ≤ prob syms bg m.length (sGe m (s - (((m.length / 2 + 1 : Nat) : Rat)) / d.scale)) := by
  apply pvalue_bounds_of_steps hyp h hs
  rw [div_mul_cancel₀ _ hs.ne']
  have h2 : m.length ≤ 2 * (m.length / 2) + 1 := by omega
  have h3 : ((m.length : Nat) : Rat) ≤ ((2 * (m.length / 2) + 1 : Nat) : Rat) := by exact_mod_cast h2
  push_cast at h3 ⊢
  linarith

/-! ### (4) p-values are non-increasing in the score -/

theorem pvalue_antitone (hyp : Hyp R syms bg m) (h : build R syms bg m = some d) (hs : 0 < d.scale)
    {s1 s2 : Rat} (hle : s1 ≤ s2) : d.pvalue s2 ≤ d.pvalue s1 := by
  rw [pvalue_eq_tail hyp h hs, pvalue_eq_tail hyp h hs]
  apply prob_mono hyp.bg_nonneg
  intro w _
  apply dGe_antitone
  apply ratRound_mono
  exact mul_le_mul_of_nonneg_right (by linarith) hs.le

/-- p-values lie in `[0, 1]` -/
theorem pvalue_mem_unit (hyp : Hyp R syms bg m) (h : build R syms bg m = some d) (hs : 0 < d.scale)
    (s : Rat) : 0 ≤ d.pvalue s ∧ d.pvalue s ≤ 1 := by
  rw [pvalue_eq_tail hyp h hs]
  exact ⟨prob_nonneg hyp.bg_nonneg _ _, prob_le_one hyp.bg_nonneg hyp.bg_sum _ _⟩

/-! ### (5) p-value → score → p-value never yields a larger p-value -/

/-- exact `unscale`/`scale` round trip -/
theorem scaleScore_unscale (hyp : Hyp R syms bg m) (h : build R syms bg m = some d) (hs : 0 < d.scale)
    {x : Int} (hx0 : 0 ≤ x) (hx1 : x ≤ d.sf.size) : d.scaleScore (d.unscale x) = x := by
  have F := build_facts hyp h hs
  unfold Dist.scaleScore Dist.unscale
  simp only [roundI32_rat, ofInt_rat, ofIntF32_rat, toF32_rat, divF32_rat, addF32_rat]
  have : ((x : Rat) / d.scale + ((Int.ofNat d.rows * d.offset : Int) : Rat)
      - ((Int.ofNat d.rows * d.offset : Int) : Rat)) * d.scale = (x : Rat) := by
    rw [add_sub_cancel_right, div_mul_cancel₀ _ hs.ne']
  rw [this, ratRound_intCast]
  have hsz := F.size
  have hi := hyp.i32_size
  apply clampI32_of_mem
  · unfold I32_MIN; omega
  · rw [hsz] at hx1; omega

/-- Clause (5): for `p > 0` and any index `x` that `binary_search_by` may return,
    `pvalue (score p) ≤ p` (for `p ≥ 1` the index is irrelevant: `score` returns the minimum). -/
theorem pvalue_score_le (hyp : Hyp R syms bg m) (h : build R syms bg m = some d) (hs : 0 < d.scale)
    {p : Rat} (hp : 0 < p) {x : Nat} (hadm : d.SearchAdmissible p x) :
    d.pvalue (d.score p x) ≤ p := by
  have F := build_facts hyp h hs
  have hsz := F.size
  have hmin0 := F.min_nonneg
  have hminlt := F.min_lt
  have hsfmin : vget d.sf d.minScore.toNat = prob syms bg m.length (dGe d.data d.minScore) := by
    rw [F.sf d.minScore.toNat (by omega)]
    have : ((d.minScore.toNat : Nat) : Int) = d.minScore := by omega
    rw [this]
  unfold Dist.score Dist.scoreBranch
  simp only [leb_rat, one_rat, zero_rat, decide_eq_true_eq]
  by_cases hp1 : 1 ≤ p
  · -- `pvalue >= 1.0`: the minimum score
    rw [if_pos hp1]
    show d.pvalue (d.unscale d.minScore) ≤ p
    unfold Dist.pvalue
    rw [scaleScore_unscale hyp h hs hmin0 (by omega)]
    rw [if_neg (lt_irrefl _), if_neg (by omega), if_neg (by omega), hsfmin]
    exact le_trans (prob_le_one hyp.bg_nonneg hyp.bg_sum _ _) hp1
  · rw [if_neg hp1, if_neg (by linarith)]
    show d.pvalue (d.unscale (Int.ofNat x)) ≤ p
    obtain ⟨hxle, hcase⟩ := hadm
    unfold Dist.pvalue
    rw [scaleScore_unscale hyp h hs (by simp) (by simpa using hxle)]
    have hxnat : (Int.ofNat x).toNat = x := by simp
    -- what the table says at `x`, from admissibility
    have htab : x < d.sf.size → vget d.sf x ≤ p := by
      intro hxlt
      rcases hcase with ⟨_, heq⟩ | ⟨_, hlt⟩
      · have : vget d.sf x = p := by simpa using heq
        rw [this]
      · have := hlt x (le_refl _) hxlt
        have : vget d.sf x < p := by simpa using this
        exact le_of_lt this
    by_cases hb1 : Int.ofNat x < d.minScore
    · -- below the minimum: the tail is the same as at `x`
      rw [if_pos hb1, hsfmin]
      have hxlt : x < d.sf.size := by
        have : (x : Int) < d.minScore := hb1
        omega
      have := tail_below_min hyp F (le_of_lt hb1)
      rw [← this]
      have hx' := F.sf x hxlt
      have hcast : ((x : Nat) : Int) = Int.ofNat x := rfl
      rw [hcast] at hx'
      rw [← hx']
      exact htab hxlt
    · rw [if_neg hb1, if_neg (by simp)]
      by_cases hb2 : d.sf.size ≤ (Int.ofNat x).toNat
      · rw [if_pos hb2]; exact le_of_lt hp
      · rw [if_neg hb2, hxnat]
        rw [hxnat] at hb2
        exact htab (by omega)

end LMV.C11
