/-
  C11 — MEME-style score distribution agrees with the exact tail within its resolution.

  Exact arithmetic (`Rat` instance of LMV.Model.Dist, the model the driver executes at `Float`).
  Probabilities are finite sums over all words (LMV.Spec.Dist).  Hypotheses (`Hyp`): background
  frequencies of the symbols non-negative with sum ≤ 1, every row has a column per symbol, table
  length and finite entries fit `i32`; plus `0 < scale` (span of the finite entries ≤ CDF_RANGE).
  Matrix entries may be −∞ anywhere (not only in the wildcard column), and the background may be a
  sub-distribution — both are more than the property asks for.
-/
import LMV.Lemmas.DistPvalue

namespace LMV.C11
open LMV.Dist

/-! ### a concrete instance of the hypotheses (non-vacuity of every theorem below)

Two rows over three symbols, range `R = 4`; the third symbol has background mass 1/4 and a −∞
entry in the first row, so the table is a proper sub-distribution (total mass 3/4).
`build` gives scale 2, offset −1, integer matrix `[[0,3,MIN],[2,4,3]]`,
`sf = [3/4, 3/4, 3/4, 1/2, 3/8, 1/4, 1/8, 1/16, 0]`, `min_score = 2`, `max_score = 7`. -/
namespace Witness

def syms : List Nat := [0, 1, 2]
def bg : List Rat := [1/2, 1/4, 1/4]
def mat : List (List (Option Rat)) := [[some (-1), some (1/2), none], [some 0, some (3/4), some (1/4)]]

theorem hyp : Hyp 4 syms bg mat where
  bg_nonneg := by decide +kernel
  bg_sum := by decide +kernel
  cols := by decide
  i32_size := by decide
  i32_cells := by decide +kernel

theorem built : ∃ d, build 4 syms bg mat = some d ∧ 0 < d.scale ∧
    d.sf = #[3/4, 3/4, 3/4, 1/2, 3/8, 1/4, 1/8, 1/16, 0] ∧ d.minScore = 2 ∧ d.maxScore = 7 ∧
    d.pvalue (1/2) = 1/4 ∧ d.SearchAdmissible (1/2) 3 ∧ d.SearchAdmissible (2/5) 4 := by
  have h : (match build 4 syms bg mat with
      | some d => decide (0 < d.scale) && decide (d.sf = #[3/4, 3/4, 3/4, 1/2, 3/8, 1/4, 1/8, 1/16, 0])
          && decide (d.minScore = 2) && decide (d.maxScore = 7) && decide (d.pvalue (1/2) = 1/4)
          && d.searchAdmissibleB (1/2) 3 && d.searchAdmissibleB (2/5) 4
      | none => false) = true := by decide +kernel
  cases hb : build 4 syms bg mat with
  | none => rw [hb] at h; cases h
  | some d =>
    rw [hb] at h
    simp only [Bool.and_eq_true, decide_eq_true_eq] at h
    obtain ⟨⟨⟨⟨⟨⟨h1, h2⟩, h3⟩, h4⟩, h5⟩, h6⟩, h7⟩ := h
    exact ⟨d, rfl, h1, h2, h3, h4, h5, (searchAdmissibleB_iff d _ _).mp h6, (searchAdmissibleB_iff d _ _).mp h7⟩

/-- the same matrix without the third symbol: a full distribution -/
def syms2 : List Nat := [0, 1]
def bg2 : List Rat := [1/2, 1/2]
def mat2 : List (List (Option Rat)) := [[some (-1), some (1/2)], [some 0, some (3/4)]]

theorem hyp2 : Hyp 4 syms2 bg2 mat2 where
  bg_nonneg := by decide +kernel
  bg_sum := by decide +kernel
  cols := by decide
  i32_size := by decide
  i32_cells := by decide +kernel

end Witness

variable {R : Nat} {syms : List Nat} {bg : List Rat} {m : List (List (Option Rat))} {d : Dist Rat}

/-! ### (1) the density is the distribution of the integer score -/

/-- `pdf[j] = P(D = j)` for the integer score `D` of a background-distributed word -/
theorem pdf_eq_prob (hyp : Hyp R syms bg m) (h : build R syms bg m = some d) (hs : 0 < d.scale)
    (j : Nat) : vget (pdfOf R syms bg d.data) j = prob syms bg m.length (dEq d.data j) :=
  (build_facts hyp h hs).pdf j

example : ∃ d, build 4 Witness.syms Witness.bg Witness.mat = some d ∧
    ∀ j, vget (pdfOf 4 Witness.syms Witness.bg d.data) j
      = prob Witness.syms Witness.bg 2 (dEq d.data j) := by
  obtain ⟨d, hb, hs, _⟩ := Witness.built
  exact ⟨d, hb, pdf_eq_prob Witness.hyp hb hs⟩

/-- `0 ≤ D ≤ R·M` (`D` is a natural number; `R = 1000`) -/
theorem dscore_range (hyp : Hyp R syms bg m) (h : build R syms bg m = some d) (hs : 0 < d.scale)
    {w : List Nat} (hw : w ∈ words syms m.length) {t : Nat} (ht : dscore d.data w = some t) :
    t ≤ R * m.length := by
  have := (build_facts hyp h hs).wordBound w hw t ht
  rw [Nat.mul_comm]; exact this

example : ∃ d, build 4 Witness.syms Witness.bg Witness.mat = some d ∧
    dscore d.data [1, 1] = some 7 ∧ [1, 1] ∈ words Witness.syms 2 ∧ 7 ≤ 4 * 2 := by
  obtain ⟨d, hb, hs, _⟩ := Witness.built
  have h : (match build 4 Witness.syms Witness.bg Witness.mat with
      | some d => decide (dscore d.data [1, 1] = some 7) | none => false) = true := by decide +kernel
  rw [hb] at h
  exact ⟨d, hb, by simpa using h, by decide, by decide⟩

/-! ### (2) the survival function -/

theorem sf_size (hyp : Hyp R syms bg m) (h : build R syms bg m = some d) (hs : 0 < d.scale) :
    d.sf.size = m.length * R + 1 := (build_facts hyp h hs).size

example : ∃ d, build 4 Witness.syms Witness.bg Witness.mat = some d ∧ d.sf.size = 2 * 4 + 1 := by
  obtain ⟨d, hb, hs, _⟩ := Witness.built
  exact ⟨d, hb, sf_size Witness.hyp hb hs⟩

/-- `sf[j] = P(D ≥ j)` -/
theorem sf_eq_tail (hyp : Hyp R syms bg m) (h : build R syms bg m = some d) (hs : 0 < d.scale)
    {j : Nat} (hj : j < d.sf.size) :
    vget d.sf j = prob syms bg m.length (dGe d.data (j : Int)) :=
  (build_facts hyp h hs).sf j hj

example : ∃ d, build 4 Witness.syms Witness.bg Witness.mat = some d ∧
    vget d.sf 3 = prob Witness.syms Witness.bg 2 (dGe d.data 3) ∧ vget d.sf 3 = 1/2 := by
  obtain ⟨d, hb, hs, hsf, _⟩ := Witness.built
  have h3 : 3 < d.sf.size := by rw [hsf]; decide
  refine ⟨d, hb, sf_eq_tail Witness.hyp hb hs h3, ?_⟩
  rw [hsf]; decide +kernel

/-- `sf` is non-increasing -/
theorem sf_antitone (hyp : Hyp R syms bg m) (h : build R syms bg m = some d) (hs : 0 < d.scale)
    {i j : Nat} (hij : i ≤ j) (hj : j < d.sf.size) : vget d.sf j ≤ vget d.sf i := by
  rw [sf_eq_tail hyp h hs hj, sf_eq_tail hyp h hs (lt_of_le_of_lt hij hj)]
  exact prob_mono hyp.bg_nonneg _ _ _ (fun w _ => dGe_antitone d.data (by omega) w)

example : ∃ d, build 4 Witness.syms Witness.bg Witness.mat = some d ∧ vget d.sf 5 ≤ vget d.sf 3 := by
  obtain ⟨d, hb, hs, hsf, _⟩ := Witness.built
  exact ⟨d, hb, sf_antitone Witness.hyp hb hs (by decide) (by rw [hsf]; decide)⟩

/-- `sf` has values in `[0, 1]` -/
theorem sf_mem_unit (hyp : Hyp R syms bg m) (h : build R syms bg m = some d) (hs : 0 < d.scale)
    {j : Nat} (hj : j < d.sf.size) : 0 ≤ vget d.sf j ∧ vget d.sf j ≤ 1 := by
  rw [sf_eq_tail hyp h hs hj]
  exact ⟨prob_nonneg hyp.bg_nonneg _ _, prob_le_one hyp.bg_nonneg hyp.bg_sum _ _⟩

example : ∃ d, build 4 Witness.syms Witness.bg Witness.mat = some d ∧
    0 ≤ vget d.sf 0 ∧ vget d.sf 0 ≤ 1 := by
  obtain ⟨d, hb, hs, hsf, _⟩ := Witness.built
  exact ⟨d, hb, sf_mem_unit Witness.hyp hb hs (by rw [hsf]; decide)⟩

/-! ### (3) discretisation error and the two-sided bound on the p-value -/

/-- a word is skipped by the convolution iff its exact score is −∞ -/
theorem skipped_iff (hyp : Hyp R syms bg m) (h : build R syms bg m = some d) (hs : 0 < d.scale)
    {w : List Nat} (hw : w ∈ words syms m.length) : dscore d.data w = none ↔ rscore m w = none := by
  have F := build_facts hyp h hs
  obtain ⟨hwl, hwm⟩ := mem_words hw
  rcases word_scores F.R_i32 hs m w F.cells hwl (fun row hrow a ha => hyp.cols row hrow a (hwm a ha)) with
    ⟨hr, hd⟩ | ⟨v, t, hr, hd, _⟩
  · rw [← F.data] at hd; simp [hr, hd]
  · rw [← F.data] at hd; simp [hr, hd]

example : ∃ d, build 4 Witness.syms Witness.bg Witness.mat = some d ∧
    rscore Witness.mat [2, 0] = none ∧ dscore d.data [2, 0] = none := by
  obtain ⟨d, hb, hs, _⟩ := Witness.built
  have hr : rscore Witness.mat [2, 0] = none := by decide +kernel
  exact ⟨d, hb, hr, (skipped_iff Witness.hyp hb hs (by decide)).mpr hr⟩

/-- `|D(w) − scale·(S(w) − M·offset)| ≤ M/2` -/
theorem disc_error (hyp : Hyp R syms bg m) (h : build R syms bg m = some d) (hs : 0 < d.scale)
    {w : List Nat} (hw : w ∈ words syms m.length) {v : Rat} {t : Nat}
    (hv : rscore m w = some v) (ht : dscore d.data w = some t) :
    |(t : Rat) - d.scale * (v - m.length * d.offset)| ≤ (m.length : Rat) / 2 := by
  have F := build_facts hyp h hs
  obtain ⟨hwl, hwm⟩ := mem_words hw
  rcases word_scores F.R_i32 hs m w F.cells hwl (fun row hrow a ha => hyp.cols row hrow a (hwm a ha)) with
    ⟨hr, _⟩ | ⟨v', t', hr, hd, hu, hl, _⟩
  · rw [hr] at hv; cases hv
  · rw [← F.data] at hd
    rw [hr] at hv; rw [hd] at ht; cases hv; cases ht
    rw [abs_le]; constructor <;> linarith

example : ∃ d, build 4 Witness.syms Witness.bg Witness.mat = some d ∧
    |((7 : Nat) : Rat) - d.scale * ((5/4 : Rat) - (2 : Nat) * d.offset)| ≤ ((2 : Nat) : Rat) / 2 := by
  obtain ⟨d, hb, hs, _⟩ := Witness.built
  have h : (match build 4 Witness.syms Witness.bg Witness.mat with
      | some d => decide (dscore d.data [1, 1] = some 7) | none => false) = true := by decide +kernel
  rw [hb] at h
  have hr : rscore Witness.mat [1, 1] = some (5/4) := by decide +kernel
  exact ⟨d, hb, disc_error Witness.hyp hb hs (w := [1, 1]) (by decide) hr (by simpa using h)⟩

/-- `pvalue s = P(D ≥ round((s − M·offset)·scale))`, in every branch of `pvalue` (below the minimum
    score, inside the table, past its end; `as i32` saturating or not) -/
theorem pvalue_eq_tail (hyp : Hyp R syms bg m) (h : build R syms bg m = some d) (hs : 0 < d.scale)
    (s : Rat) :
    d.pvalue s =
      prob syms bg m.length (dGe d.data (ratRound ((s - m.length * d.offset) * d.scale))) :=
  pvalue_eq hyp (build_facts hyp h hs) s

example : ∃ d, build 4 Witness.syms Witness.bg Witness.mat = some d ∧ d.pvalue (1/2) = 1/4 ∧
    d.pvalue (1/2) = prob Witness.syms Witness.bg 2
      (dGe d.data (ratRound ((1/2 - ((2 : Nat) : Rat) * d.offset) * d.scale))) := by
  obtain ⟨d, hb, hs, _, _, _, hpv, _⟩ := Witness.built
  exact ⟨d, hb, hpv, pvalue_eq_tail Witness.hyp hb hs (1/2)⟩

/-- Clause (3): with `dd` at least `(M+1)/2` discretisation steps (`(M+1)/2 ≤ dd·scale`),
    `P(S ≥ s + dd) ≤ pvalue s ≤ P(S ≥ s − dd)`. -/
theorem pvalue_bounds_of_steps (hyp : Hyp R syms bg m) (h : build R syms bg m = some d)
    (hs : 0 < d.scale) (s dd : Rat) (hdd : ((m.length : Rat) + 1) / 2 ≤ dd * d.scale) :
    prob syms bg m.length (sGe m (s + dd)) ≤ d.pvalue s ∧
    d.pvalue s ≤ prob syms bg m.length (sGe m (s - dd)) := by
  have F := build_facts hyp h hs
  rw [pvalue_eq_tail hyp h hs]
  have hru := ratRound_le ((s - m.length * d.offset) * d.scale)
  have hrl := le_ratRound ((s - m.length * d.offset) * d.scale)
  constructor
  · apply prob_mono hyp.bg_nonneg
    intro w hw hev
    obtain ⟨hwl, hwm⟩ := mem_words hw
    unfold sGe at hev
    unfold dGe
    rcases word_scores F.R_i32 hs m w F.cells hwl (fun row hrow a ha => hyp.cols row hrow a (hwm a ha)) with
      ⟨hr, _⟩ | ⟨v, t, hr, hd, hu, hl, _⟩
    · rw [hr] at hev; cases hev
    · rw [← F.data] at hd
      rw [hr] at hev
      rw [hd]
      have hsv : s + dd ≤ v := by simpa using hev
      have : ((ratRound ((s - m.length * d.offset) * d.scale) : Int) : Rat) ≤ ((t : Int) : Rat) := by
        push_cast
        nlinarith [mul_le_mul_of_nonneg_right hsv hs.le]
      have : ratRound ((s - m.length * d.offset) * d.scale) ≤ (t : Int) := by exact_mod_cast this
      simpa using this
  · apply prob_mono hyp.bg_nonneg
    intro w hw hev
    obtain ⟨hwl, hwm⟩ := mem_words hw
    unfold dGe at hev
    unfold sGe
    rcases word_scores F.R_i32 hs m w F.cells hwl (fun row hrow a ha => hyp.cols row hrow a (hwm a ha)) with
      ⟨_, hd⟩ | ⟨v, t, hr, hd, hu, hl, _⟩
    · rw [← F.data] at hd; rw [hd] at hev; cases hev
    · rw [← F.data] at hd
      rw [hd] at hev
      rw [hr]
      have hkt : ratRound ((s - m.length * d.offset) * d.scale) ≤ (t : Int) := by simpa using hev
      have hktR : ((ratRound ((s - m.length * d.offset) * d.scale) : Int) : Rat) ≤ (t : Rat) := by
        exact_mod_cast hkt
      have hmul : (s - v) * d.scale ≤ dd * d.scale := by nlinarith
      have : s - v ≤ dd := le_of_mul_le_mul_right hmul hs
      have : s - dd ≤ v := by linarith
      simpa using this

example : ∃ d, build 4 Witness.syms Witness.bg Witness.mat = some d ∧
    prob Witness.syms Witness.bg 2 (sGe Witness.mat (1/2 + 3/4)) ≤ d.pvalue (1/2) ∧
    d.pvalue (1/2) ≤ prob Witness.syms Witness.bg 2 (sGe Witness.mat (1/2 - 3/4)) := by
  have h : (match build 4 Witness.syms Witness.bg Witness.mat with
      | some d => decide (((Witness.mat.length : Rat) + 1) / 2 ≤ 3/4 * d.scale) | none => false) = true := by
    decide +kernel
  obtain ⟨d, hb, hs, _⟩ := Witness.built
  rw [hb] at h
  exact ⟨d, hb, pvalue_bounds_of_steps Witness.hyp hb hs (1/2) (3/4) (by simpa using h)⟩

/-- Clause (3) with the property's `d = (M/2 + 1)` steps, `M/2` read as a rational … -/
theorem pvalue_bounds (hyp : Hyp R syms bg m) (h : build R syms bg m = some d) (hs : 0 < d.scale)
    (s : Rat) :
    prob syms bg m.length (sGe m (s + ((m.length : Rat) / 2 + 1) / d.scale)) ≤ d.pvalue s ∧
    d.pvalue s ≤ prob syms bg m.length (sGe m (s - ((m.length : Rat) / 2 + 1) / d.scale)) := by
  apply pvalue_bounds_of_steps hyp h hs
  rw [div_mul_cancel₀ _ hs.ne']
  linarith

example : ∃ d, build 4 Witness.syms Witness.bg Witness.mat = some d ∧ d.pvalue (1/2) = 1/4 ∧
    prob Witness.syms Witness.bg 2 (sGe Witness.mat (1/2 + (((2 : Nat) : Rat) / 2 + 1) / d.scale)) ≤ d.pvalue (1/2) ∧
    d.pvalue (1/2) ≤ prob Witness.syms Witness.bg 2 (sGe Witness.mat (1/2 - (((2 : Nat) : Rat) / 2 + 1) / d.scale)) := by
  obtain ⟨d, hb, hs, _, _, _, hpv, _⟩ := Witness.built
  exact ⟨d, hb, hpv, pvalue_bounds Witness.hyp hb hs (1/2)⟩

/-- … and with `M/2` read as integer division (the tighter bound, the one the oracle checks) -/
theorem pvalue_bounds_intdiv (hyp : Hyp R syms bg m) (h : build R syms bg m = some d)
    (hs : 0 < d.scale) (s : Rat) :
    prob syms bg m.length (sGe m (s + (((m.length / 2 + 1 : Nat) : Rat)) / d.scale)) ≤ d.pvalue s ∧
    d.pvalue s ≤ prob syms bg m.length (sGe m (s - (((m.length / 2 + 1 : Nat) : Rat)) / d.scale)) := by
  apply pvalue_bounds_of_steps hyp h hs
  rw [div_mul_cancel₀ _ hs.ne']
  have h2 : m.length ≤ 2 * (m.length / 2) + 1 := by omega
  have h3 : ((m.length : Nat) : Rat) ≤ ((2 * (m.length / 2) + 1 : Nat) : Rat) := by exact_mod_cast h2
  push_cast at h3 ⊢
  linarith

example : ∃ d, build 4 Witness.syms Witness.bg Witness.mat = some d ∧
    prob Witness.syms Witness.bg 2 (sGe Witness.mat (1/2 + (((2 / 2 + 1 : Nat) : Rat)) / d.scale)) ≤ d.pvalue (1/2) ∧
    d.pvalue (1/2) ≤ prob Witness.syms Witness.bg 2 (sGe Witness.mat (1/2 - (((2 / 2 + 1 : Nat) : Rat)) / d.scale)) := by
  obtain ⟨d, hb, hs, _⟩ := Witness.built
  exact ⟨d, hb, pvalue_bounds_intdiv Witness.hyp hb hs (1/2)⟩

/-! ### (4) p-values are non-increasing in the score -/

theorem pvalue_antitone (hyp : Hyp R syms bg m) (h : build R syms bg m = some d) (hs : 0 < d.scale)
    {s1 s2 : Rat} (hle : s1 ≤ s2) : d.pvalue s2 ≤ d.pvalue s1 := by
  rw [pvalue_eq_tail hyp h hs, pvalue_eq_tail hyp h hs]
  apply prob_mono hyp.bg_nonneg
  intro w _
  apply dGe_antitone
  apply ratRound_mono
  exact mul_le_mul_of_nonneg_right (by linarith) hs.le

example : ∃ d, build 4 Witness.syms Witness.bg Witness.mat = some d ∧ d.pvalue 1 ≤ d.pvalue (1/2) := by
  obtain ⟨d, hb, hs, _⟩ := Witness.built
  exact ⟨d, hb, pvalue_antitone Witness.hyp hb hs (by decide +kernel)⟩

/-- p-values lie in `[0, 1]` -/
theorem pvalue_mem_unit (hyp : Hyp R syms bg m) (h : build R syms bg m = some d) (hs : 0 < d.scale)
    (s : Rat) : 0 ≤ d.pvalue s ∧ d.pvalue s ≤ 1 := by
  rw [pvalue_eq_tail hyp h hs]
  exact ⟨prob_nonneg hyp.bg_nonneg _ _, prob_le_one hyp.bg_nonneg hyp.bg_sum _ _⟩

example : ∃ d, build 4 Witness.syms Witness.bg Witness.mat = some d ∧
    0 ≤ d.pvalue (-10) ∧ d.pvalue (-10) ≤ 1 := by
  obtain ⟨d, hb, hs, _⟩ := Witness.built
  exact ⟨d, hb, pvalue_mem_unit Witness.hyp hb hs (-10)⟩

/-- `min_pvalue()` is the tail at `max_score`, and it is the least positive p-value: every p-value
    is 0 or at least `min_pvalue()` (the `max_score` bookkeeping of the sf loop). -/
theorem min_pvalue_least (hyp : Hyp R syms bg m) (h : build R syms bg m = some d) (hs : 0 < d.scale) :
    d.minPvalue = prob syms bg m.length (dGe d.data d.maxScore) ∧
    ∀ s, d.pvalue s = 0 ∨ d.minPvalue ≤ d.pvalue s := by
  have F := build_facts hyp h hs
  have hmx0 := F.max_nonneg
  have hmx1 := F.max_lt
  have hcast : ((d.maxScore.toNat : Nat) : Int) = d.maxScore := by omega
  have hmp : d.minPvalue = prob syms bg m.length (dGe d.data d.maxScore) := by
    unfold Dist.minPvalue
    rw [F.sf d.maxScore.toNat (by omega), hcast]
  refine ⟨hmp, fun s => ?_⟩
  rw [pvalue_eq_tail hyp h hs, hmp]
  generalize ratRound ((s - m.length * d.offset) * d.scale) = k0
  by_cases hk : k0 ≤ d.maxScore
  · right
    exact prob_mono hyp.bg_nonneg _ _ _ (fun w _ => dGe_antitone d.data hk w)
  · left
    by_cases hbig : (d.sf.size : Int) ≤ k0
    · apply prob_dGe_of_large F.wordBound
      have := F.size
      rw [this] at hbig; push_cast at hbig ⊢; omega
    · have hk0 : ((k0.toNat : Nat) : Int) = k0 := by omega
      have hlt : k0.toNat < d.sf.size := by omega
      rcases F.max_tail with ⟨hz, hall⟩ | ⟨_, _, hall⟩
      · have := hall k0.toNat (by omega) hlt
        simp only [hk0] at this; exact this
      · have := hall k0.toNat (by omega) hlt
        simp only [hk0] at this; exact this

example : ∃ d, build 4 Witness.syms Witness.bg Witness.mat = some d ∧ d.minPvalue = 1/16 ∧
    ∀ s, d.pvalue s = 0 ∨ d.minPvalue ≤ d.pvalue s := by
  obtain ⟨d, hb, hs, hsf, _, hmx, _⟩ := Witness.built
  refine ⟨d, hb, ?_, (min_pvalue_least Witness.hyp hb hs).2⟩
  unfold Dist.minPvalue
  rw [hsf, hmx]; decide +kernel

/-! ### (5) p-value → score → p-value never yields a larger p-value -/

/-- exact `unscale`/`scale` round trip -/
theorem scaleScore_unscale (hyp : Hyp R syms bg m) (h : build R syms bg m = some d) (hs : 0 < d.scale)
    {x : Int} (hx0 : 0 ≤ x) (hx1 : x ≤ d.sf.size) : d.scaleScore (d.unscale x) = x := by
  have F := build_facts hyp h hs
  unfold Dist.scaleScore Dist.unscale
  simp only [roundI32_rat, ofInt_rat, ofIntF32_rat, toF32_rat, divF32_rat, addF32_rat]
  have : ((x : Rat) / d.scale + ((Int.ofNat d.rows * d.offset : Int) : Rat)
      - ((Int.ofNat d.rows * d.offset : Int) : Rat)) * d.scale = (x : Rat) := by
    rw [add_sub_cancel_right, div_mul_cancel₀ _ hs.ne']
  rw [this, ratRound_intCast]
  have hsz := F.size
  have hi := hyp.i32_size
  apply clampI32_of_mem
  · unfold I32_MIN; omega
  · rw [hsz] at hx1; omega

example : ∃ d, build 4 Witness.syms Witness.bg Witness.mat = some d ∧ d.scaleScore (d.unscale 5) = 5 := by
  obtain ⟨d, hb, hs, hsf, _⟩ := Witness.built
  exact ⟨d, hb, scaleScore_unscale Witness.hyp hb hs (by decide) (by rw [hsf]; decide)⟩

/-- the stepping loop of `score` stops at once on a score that maps back to (at least) cell `x` -/
theorem bump_stop {α : Type} [Add α] [Sub α] [Mul α] [Div α] [Scalar α] (d : Dist α) (x : Int) (fuel : Nat)
    (s : α) (h : ¬ d.scaleScore s < x) : d.bump x fuel s = s := by
  cases fuel with
  | zero => rfl
  | succ n => simp [Dist.bump, h]

/-- what the loop of `score` returns, on ANY carrier (the executed `f32` one included): a score that maps
    back to cell `x` or above, or a non-finite one — unless the model's fuel ran out, in which case every
    step so far was finite and mapped below `x` -/
theorem bump_spec {α : Type} [Add α] [Sub α] [Mul α] [Div α] [Scalar α] (d : Dist α) (x : Int) (fuel : Nat)
    (s : α) : (x ≤ d.scaleScore (d.bump x fuel s) ∨ Scalar.isFiniteF32 (d.bump x fuel s) = false) ∨
      ∀ k, k ≤ fuel → d.scaleScore (Nat.iterate Scalar.nextUpF32 k s) < x := by
  induction fuel generalizing s with
  | zero =>
    by_cases h : d.scaleScore s < x
    · right; intro k hk; have : k = 0 := by omega
      subst this; simpa using h
    · left; left; simp only [Dist.bump]; omega
  | succ n ih =>
    by_cases hf : Scalar.isFiniteF32 s = true
    · by_cases h : d.scaleScore s < x
      · simp only [Dist.bump, hf, h, decide_true, Bool.and_self, if_true]
        rcases ih (Scalar.nextUpF32 s) with hl | hr
        · exact Or.inl hl
        · right; intro k hk
          cases k with
          | zero => simpa using h
          | succ k => simpa [Function.iterate_succ] using hr k (by omega)
      · left; left; simp only [Dist.bump, h, decide_false, Bool.and_false]; simp; omega
    · left; right
      have : Scalar.isFiniteF32 s = false := by simpa using hf
      simp [Dist.bump, this]

/-- Clause (5): for `p > 0` and any index `x` that `binary_search_by` may return,
    `pvalue (score p) ≤ p` (for `p ≥ 1` the index is irrelevant: `score` returns the minimum). -/
theorem pvalue_score_le (hyp : Hyp R syms bg m) (h : build R syms bg m = some d) (hs : 0 < d.scale)
    {p : Rat} (hp : 0 < p) {x : Nat} (hadm : d.SearchAdmissible p x) :
    d.pvalue (d.score p x) ≤ p := by
  have F := build_facts hyp h hs
  have hsz := F.size
  have hmin0 := F.min_nonneg
  have hminlt := F.min_lt
  have hsfmin : vget d.sf d.minScore.toNat = prob syms bg m.length (dGe d.data d.minScore) := by
    rw [F.sf d.minScore.toNat (by omega)]
    have : ((d.minScore.toNat : Nat) : Int) = d.minScore := by omega
    rw [this]
  unfold Dist.score Dist.scoreBranch
  simp only [leb_rat, one_rat, zero_rat, decide_eq_true_eq]
  by_cases hp1 : 1 ≤ p
  · -- `pvalue >= 1.0`: the minimum score
    rw [if_pos hp1]
    show d.pvalue (d.unscale d.minScore) ≤ p
    unfold Dist.pvalue
    rw [scaleScore_unscale hyp h hs hmin0 (by omega)]
    rw [if_neg (lt_irrefl _), if_neg (by omega), if_neg (by omega), hsfmin]
    exact le_trans (prob_le_one hyp.bg_nonneg hyp.bg_sum _ _) hp1
  · rw [if_neg hp1, if_neg (by linarith)]
    show d.pvalue (d.bump (Int.ofNat x) Dist.bumpFuel (d.unscale (Int.ofNat x))) ≤ p
    obtain ⟨hxle, hcase⟩ := hadm
    rw [bump_stop d _ _ _ (by rw [scaleScore_unscale hyp h hs (by simp) (by simpa using hxle)]; omega)]
    unfold Dist.pvalue
    rw [scaleScore_unscale hyp h hs (by simp) (by simpa using hxle)]
    have hxnat : (Int.ofNat x).toNat = x := by simp
    -- what the table says at `x`, from admissibility
    have htab : x < d.sf.size → vget d.sf x ≤ p := by
      intro hxlt
      rcases hcase with ⟨_, heq⟩ | ⟨_, hlt⟩
      · have : vget d.sf x = p := by simpa using heq
        rw [this]
      · have := hlt x (le_refl _) hxlt
        have : vget d.sf x < p := by simpa using this
        exact le_of_lt this
    by_cases hb1 : Int.ofNat x < d.minScore
    · -- below the minimum: the tail is the same as at `x`
      rw [if_pos hb1, hsfmin]
      have hxlt : x < d.sf.size := by
        have : (x : Int) < d.minScore := hb1
        omega
      have := tail_below_min hyp F (le_of_lt hb1)
      rw [← this]
      have hx' := F.sf x hxlt
      have hcast : ((x : Nat) : Int) = Int.ofNat x := rfl
      rw [hcast] at hx'
      rw [← hx']
      exact htab hxlt
    · rw [if_neg hb1, if_neg (by simp)]
      by_cases hb2 : d.sf.size ≤ (Int.ofNat x).toNat
      · rw [if_pos hb2]; exact le_of_lt hp
      · rw [if_neg hb2, hxnat]
        rw [hxnat] at hb2
        exact htab (by omega)

example : ∃ d, build 4 Witness.syms Witness.bg Witness.mat = some d ∧
    d.pvalue (d.score (1/2) 3) ≤ 1/2 ∧ d.pvalue (d.score (2/5) 4) ≤ 2/5 := by
  obtain ⟨d, hb, hs, _, _, _, _, ha1, ha2⟩ := Witness.built
  exact ⟨d, hb, pvalue_score_le Witness.hyp hb hs (by decide +kernel) ha1,
    pvalue_score_le Witness.hyp hb hs (by decide +kernel) ha2⟩

/-! ### the sub-distribution case and the clamp `1.0` of the code before the repair

Before the repair (`fix:` commit 8d28a79 in the library) `pvalue` returned the constant `1.0` for
every score below `min_score`.  That is the same function when the table carries all the mass
(`clampOne_eq_pvalue_of_full_mass`: the hypothesis "background sums to 1 over the symbols with
finite scores"), and violates clauses (3) and (5) as soon as a symbol with a −∞ entry has
background mass (`clampOne_counterexample`, on the witness above; the same situation was run on
the real code, corpus/C11/clamp-one-below-minimum.case). -/

/-- `ScoreDistribution::pvalue` as it stood before the repair -/
def pvalueClampOne (d : Dist Rat) (s : Rat) : Rat :=
  if d.scaleScore s < d.minScore then 1 else d.pvalue s

theorem clampOne_eq_pvalue_of_full_mass (hyp : Hyp R syms bg m) (h : build R syms bg m = some d)
    (hs : 0 < d.scale) (hfull : prob syms bg m.length (dGe d.data 0) = 1) (s : Rat) :
    pvalueClampOne d s = d.pvalue s := by
  have F := build_facts hyp h hs
  unfold pvalueClampOne
  by_cases hlt : d.scaleScore s < d.minScore
  · rw [if_pos hlt]
    unfold Dist.pvalue
    simp only []
    rw [if_pos hlt, F.sf d.minScore.toNat (by have := F.min_lt; have := F.min_nonneg; omega)]
    have hc : ((d.minScore.toNat : Nat) : Int) = d.minScore := by have := F.min_nonneg; omega
    rw [hc, ← tail_below_min hyp F F.min_nonneg, hfull]
  · rw [if_neg hlt]

example : ∃ d, build 4 Witness.syms2 Witness.bg2 Witness.mat2 = some d ∧
    pvalueClampOne d (-10) = d.pvalue (-10) := by
  have h : (match build 4 Witness.syms2 Witness.bg2 Witness.mat2 with
      | some d => decide (0 < d.scale) && decide (prob Witness.syms2 Witness.bg2 2 (dGe d.data 0) = 1)
      | none => false) = true := by decide +kernel
  cases hb : build 4 Witness.syms2 Witness.bg2 Witness.mat2 with
  | none => rw [hb] at h; cases h
  | some d =>
    rw [hb] at h
    simp only [Bool.and_eq_true, decide_eq_true_eq] at h
    exact ⟨d, rfl, clampOne_eq_pvalue_of_full_mass Witness.hyp2 hb h.1 h.2 (-10)⟩

/-- With the clamp, a symbol with background mass and a −∞ score breaks the upper bound of clause
    (3) (`1 > 3/4 = P(S ≥ s − d)` for a score far below the minimum) and clause (5)
    (`p = 4/5`: index 0 is admissible, the score maps back to p-value `1 > p`). -/
theorem clampOne_counterexample :
    ∃ d, build 4 Witness.syms Witness.bg Witness.mat = some d ∧ 0 < d.scale ∧
      ¬ pvalueClampOne d (-10) ≤
          prob Witness.syms Witness.bg 2 (sGe Witness.mat (-10 - (((2 : Nat) : Rat) / 2 + 1) / d.scale)) ∧
      d.SearchAdmissible (4/5) 0 ∧ ¬ pvalueClampOne d (d.score (4/5) 0) ≤ 4/5 := by
  have h : (match build 4 Witness.syms Witness.bg Witness.mat with
      | some d => decide (0 < d.scale) &&
          decide (¬ pvalueClampOne d (-10) ≤
            prob Witness.syms Witness.bg 2 (sGe Witness.mat (-10 - (((2 : Nat) : Rat) / 2 + 1) / d.scale))) &&
          d.searchAdmissibleB (4/5) 0 && decide (¬ pvalueClampOne d (d.score (4/5) 0) ≤ 4/5)
      | none => false) = true := by decide +kernel
  cases hb : build 4 Witness.syms Witness.bg Witness.mat with
  | none => rw [hb] at h; cases h
  | some d =>
    rw [hb] at h
    simp only [Bool.and_eq_true, decide_eq_true_eq] at h
    obtain ⟨⟨⟨h1, h2⟩, h3⟩, h4⟩ := h
    exact ⟨d, rfl, h1, h2, (searchAdmissibleB_iff d _ _).mp h3, h4⟩

end LMV.C11
