import LMV.Model.Dist

namespace LMV.C11

theorem placeholder : True := trivial

end LMV.C11
