/-
  C18 — Python indexing and buffer views expose exactly the logical contents.
-/
import LMV.Model.PyView

namespace LMV
namespace C18

open PyView

theorem placeholder : normIndex 3 (-1) = some 2 := by decide

end C18
end LMV
