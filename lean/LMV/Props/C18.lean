/-
  C18 — Python indexing and buffer views expose exactly the logical contents.

  The model (LMV.Model.PyView) is the glue of lightmotif-py/lightmotif/lib.rs after the `fix:`
  commits (normalised index used for the data access; `shape = [rows, cols]` for `ScoringMatrix`;
  negative indices normalised in `StripedScores`; `len = product(shape) * itemsize`; base pointer of
  the row storage).  The variants of the pinned commit are kept next to it with their
  counterexamples.
-/
import LMV.Model.PyView
import LMV.Props.C19

namespace LMV
namespace C18

open PyView Dense

/-! ### indexing: every `__getitem__` is Python sequence indexing -/

/-- the index normalisation accepts exactly `-len ≤ index < len` and designates element
    `index mod len` -/
theorem normIndex_spec (len : Nat) (index : Int) :
    normIndex len index =
      if -(len : Int) ≤ index ∧ index < len then some (index % (len : Int)).toNat else none := by
  by_cases hneg : index < 0
  · by_cases hlo : -(len : Int) ≤ index
    · have h3 : index % (len : Int) = index + (len : Int) := by
        rw [← Int.add_emod_right index (len : Int)]
        exact Int.emod_eq_of_lt (by omega) (by omega)
      have h1 : ¬ (index + (len : Int) < 0 ∨ index + (len : Int) ≥ (len : Int)) := by omega
      have h2 : -(len : Int) ≤ index ∧ index < (len : Int) := by omega
      simp only [normIndex, if_pos hneg, if_neg h1, if_pos h2, h3]
    · have h1 : (index + (len : Int) < 0 ∨ index + (len : Int) ≥ (len : Int)) := by omega
      have h2 : ¬ (-(len : Int) ≤ index ∧ index < (len : Int)) := by omega
      simp only [normIndex, if_pos hneg, if_pos h1, if_neg h2]
  · by_cases hhi : index < (len : Int)
    · have h1 : ¬ (index < 0 ∨ index ≥ (len : Int)) := by omega
      have h2 : -(len : Int) ≤ index ∧ index < (len : Int) := by omega
      simp only [normIndex, if_neg hneg, if_neg h1, if_pos h2, Int.emod_eq_of_lt (by omega : 0 ≤ index) hhi]
    · have h1 : (index < 0 ∨ index ≥ (len : Int)) := by omega
      have h2 : ¬ (-(len : Int) ≤ index ∧ index < (len : Int)) := by omega
      simp only [normIndex, if_neg hneg, if_pos h1, if_neg h2]

example : normIndex 5 (-5) = some 0 ∧ normIndex 5 4 = some 4 ∧ normIndex 5 5 = none ∧
    normIndex 5 (-6) = none ∧ normIndex 0 0 = none ∧ normIndex 0 (-1) = none := by decide

theorem normIndex_lt {len : Nat} {index : Int} {i : Nat} (h : normIndex len index = some i) : i < len := by
  rw [normIndex_spec] at h
  split at h
  · rename_i hc
    have := Option.some.inj h
    have hpos : (0 : Int) < len := by omega
    have h1 := Int.emod_nonneg index (Int.ne_of_gt hpos)
    have h2 := Int.emod_lt_of_pos index hpos
    omega
  · exact absurd h (by simp)

theorem emod_toNat_lt (len : Nat) (index : Int) (h : -(len : Int) ≤ index ∧ index < len) :
    (index % (len : Int)).toNat < len := by
  have hpos : (0 : Int) < len := by omega
  have := Int.emod_nonneg index (Int.ne_of_gt hpos)
  have := Int.emod_lt_of_pos index hpos
  omega

/-- C18, indexing: for every list-like object (`EncodedSequence`, `CountMatrix`, `WeightMatrix`,
    `ScoringMatrix`), every length and every integer a `Py_ssize_t` can hold, `obj[index]` is the
    element `index mod len` when `-len ≤ index < len` and `IndexError` otherwise -/
theorem getitem_spec {α : Type} (xs : List α) (index : Int) (hfit : fitsSsize index = true) :
    getitem xs index =
      if h : -(xs.length : Int) ≤ index ∧ index < xs.length then
        .ok (xs[(index % (xs.length : Int)).toNat]'(emod_toNat_lt xs.length index h))
      else .indexError := by
  unfold getitem
  rw [if_pos hfit, normIndex_spec]
  by_cases h : -(xs.length : Int) ≤ index ∧ index < xs.length
  · rw [if_pos h, dif_pos h]
    have hlt := emod_toNat_lt xs.length index h
    simp only [List.getElem?_eq_getElem hlt]
  · rw [if_neg h, dif_neg h]

/-- … and it never panics -/
theorem getitem_never_panics {α : Type} (xs : List α) (index : Int) (site : String) :
    getitem xs index ≠ .panic site := by
  unfold getitem
  split
  · split
    · simp
    · rename_i i hi
      have hlt := normIndex_lt hi
      simp only [List.getElem?_eq_getElem hlt]
      simp
  · simp

/-- Python's reading of a negative index: `obj[-k]` is `obj[len - k]` -/
theorem getitem_negative {α : Type} (xs : List α) (k : Nat) (hk : 0 < k) (hk' : k ≤ xs.length)
    (hfit : fitsSsize (-(k : Int)) = true) :
    getitem xs (-(k : Int)) = .ok (xs[xs.length - k]'(by omega)) := by
  unfold getitem
  rw [if_pos hfit]
  have hn : normIndex xs.length (-(k : Int)) = some (xs.length - k) := by
    unfold normIndex
    have h0 : (-(k : Int)) < 0 := by omega
    simp only [h0, if_true]
    have h1 : ¬ (-(k : Int) + (xs.length : Int) < 0 ∨ -(k : Int) + (xs.length : Int) ≥ (xs.length : Int)) := by omega
    rw [if_neg h1]
    congr 1
    omega
  rw [hn]
  have hlt : xs.length - k < xs.length := by omega
  simp only [List.getElem?_eq_getElem hlt]

example : getitem [10, 20, 30] (-1) = .ok 30 ∧ getitem [10, 20, 30] (-3) = .ok 10 ∧
    getitem [10, 20, 30] 2 = .ok 30 ∧ getitem [10, 20, 30] 3 = .indexError ∧
    getitem [10, 20, 30] (-4) = .indexError ∧ getitem ([] : List Nat) 0 = .indexError ∧
    getitem [10, 20, 30] ((2:Int)^63) = .overflowError := by decide

/-- the pinned commit (`self.data.get(index as usize)` after the bounds check on the normalised
    index): EVERY in-range negative index panics -/
theorem getitemUnnormalised_negative_panics {α : Type} (xs : List α) (index : Int)
    (hlen : xs.length < 2 ^ 63) (hlo : -(xs.length : Int) ≤ index) (hneg : index < 0)
    (hfit : fitsSsize index = true) :
    getitemUnnormalised xs index = .panic "index out of bounds" := by
  unfold getitemUnnormalised
  rw [if_pos hfit, normIndex_spec]
  have h : -(xs.length : Int) ≤ index ∧ index < xs.length := by omega
  rw [if_pos h]
  simp only [hneg, if_true]
  have hbig : xs.length ≤ (index + (2:Int)^64).toNat := by
    have : (2:Int)^64 = 18446744073709551616 := by decide
    have : (2:Nat)^63 = 9223372036854775808 := by decide
    omega
  simp only [List.getElem?_eq_none hbig]

theorem getitemUnnormalised_counterexample :
    ∃ (xs : List Nat) (index : Int), -(xs.length : Int) ≤ index ∧ index < xs.length ∧
      getitemUnnormalised xs index = .panic "index out of bounds" :=
  ⟨[7, 8, 9], -1, by decide, by decide, by decide⟩

/-- C18, `StripedScores`: with `max_index ≤ rows · cols` (the positions fit the score matrix — what
    the core guarantees for a motif of at least one row), `scores[index]` is the score of position
    `index mod len`, stored at row `i % rows`, column `i / rows` of the striped matrix (the cell whose
    column-major position is `i`); `IndexError` outside `-len ≤ index < len`; no panic -/
theorem scoresGetitem_spec {α : Type} (rows cols maxIndex : Nat) (cell : Nat → Nat → α) (index : Int)
    (hfit : fitsSsize index = true) (hcap : maxIndex ≤ rows * cols) :
    scoresGetitem rows cols maxIndex cell index =
      if -(maxIndex : Int) ≤ index ∧ index < maxIndex then
        .ok (cell ((index % (maxIndex : Int)).toNat % rows) ((index % (maxIndex : Int)).toNat / rows))
      else .indexError := by
  unfold scoresGetitem
  rw [if_pos hfit]
  cases hn : normIndex maxIndex index with
  | none =>
    rw [normIndex_spec] at hn
    by_cases h : -(maxIndex : Int) ≤ index ∧ index < maxIndex
    · rw [if_pos h] at hn; exact absurd hn (by simp)
    · rw [if_neg h]
  | some i =>
    have hlt := normIndex_lt hn
    rw [normIndex_spec] at hn
    by_cases h : -(maxIndex : Int) ≤ index ∧ index < maxIndex
    · rw [if_pos h] at hn
      have hi := Option.some.inj hn
      rw [if_pos h, hi]
      have hr : rows ≠ 0 := by
        intro h0; subst h0; simp at hcap; omega
      have hc : i / rows < cols := Nat.div_lt_of_lt_mul (Nat.lt_of_lt_of_le hlt hcap)
      simp only [hr, if_false]
      rw [if_pos hc]
    · rw [if_neg h] at hn; exact absurd hn (by simp)

/-- the cell returned for position `i` is the one whose column-major position is `i` -/
theorem scores_cell_position (rows i : Nat) : (i / rows) * rows + i % rows = i := by
  rw [Nat.mul_comm]; exact Nat.div_add_mod i rows

theorem scoresGetitem_never_panics {α : Type} (rows cols maxIndex : Nat) (cell : Nat → Nat → α)
    (index : Int) (hcap : maxIndex ≤ rows * cols) (site : String) :
    scoresGetitem rows cols maxIndex cell index ≠ .panic site := by
  by_cases hfit : fitsSsize index = true
  · rw [scoresGetitem_spec rows cols maxIndex cell index hfit hcap]
    split <;> simp
  · unfold scoresGetitem
    rw [if_neg hfit]; simp

example : scoresGetitem 4 32 115 (fun r c => c * 4 + r) (-1) = .ok 114 ∧
    scoresGetitem 4 32 115 (fun r c => c * 4 + r) 115 = .indexError ∧
    scoresGetitem 4 32 115 (fun r c => c * 4 + r) (-116) = .indexError := by decide

/-! ### what a byte offset into a `DenseMatrix` designates -/

/-- byte `b` of element `(i, j)` lives at offset `i · pitch + j · size + b`, for every pitch that
    covers a row -/
theorem cellAt_elem (rows cols size pitch i j b : Nat) (hi : i < rows) (hj : j < cols) (hb : b < size)
    (hp : cols * size ≤ pitch) :
    cellAt rows cols size pitch (i * pitch + j * size + b) = .elem i j b := by
  have hq : j * size + b < cols * size := by
    have : (j + 1) * size ≤ cols * size := Nat.mul_le_mul_right size hj
    rw [Nat.add_mul, Nat.one_mul] at this
    omega
  have hqp : j * size + b < pitch := Nat.lt_of_lt_of_le hq hp
  have hpos : 0 < pitch := by omega
  have hoff : i * pitch + j * size + b = pitch * i + (j * size + b) := by
    rw [Nat.mul_comm i pitch, Nat.add_assoc]
  have hin : i * pitch + j * size + b < rows * pitch := by
    have : (i + 1) * pitch ≤ rows * pitch := Nat.mul_le_mul_right pitch hi
    rw [Nat.add_mul, Nat.one_mul] at this
    omega
  unfold cellAt
  rw [if_pos hin, hoff, Nat.mul_add_mod, Nat.mod_eq_of_lt hqp, if_pos hq,
    Nat.mul_add_div hpos, Nat.div_eq_of_lt hqp, Nat.add_zero]
  have h1 : (j * size + b) / size = j := by
    rw [Nat.mul_comm j size, Nat.mul_add_div (by omega), Nat.div_eq_of_lt hb, Nat.add_zero]
  have h2 : (j * size + b) % size = b := by
    rw [Nat.mul_comm j size, Nat.mul_add_mod, Nat.mod_eq_of_lt hb]
  rw [h1, h2]

/-- … and that byte is inside the row storage -/
theorem elem_inside (rows size pitch i j b cols : Nat) (hi : i < rows) (hj : j < cols) (hb : b < size)
    (hp : cols * size ≤ pitch) : i * pitch + j * size + b < rows * pitch := by
  have hq : j * size + b < cols * size := by
    have : (j + 1) * size ≤ cols * size := Nat.mul_le_mul_right size hj
    rw [Nat.add_mul, Nat.one_mul] at this
    omega
  have : (i + 1) * pitch ≤ rows * pitch := Nat.mul_le_mul_right pitch hi
  rw [Nat.add_mul, Nat.one_mul] at this
  omega

/-- a `size`-byte item starting at the first byte of element `(i, j)` is that element -/
theorem elemAt_elem (rows cols size pitch i j : Nat) (hi : i < rows) (hj : j < cols) (hs : 0 < size)
    (hp : cols * size ≤ pitch) :
    elemAt rows cols size pitch (i * pitch + j * size) = some (i, j) := by
  unfold elemAt
  have h0 := cellAt_elem rows cols size pitch i j 0 hi hj hs hp
  rw [Nat.add_zero] at h0
  have h1 := cellAt_elem rows cols size pitch i j (size - 1) hi hj (by omega) hp
  have he : i * pitch + j * size + size - 1 = i * pitch + j * size + (size - 1) := by omega
  rw [h0]
  simp only
  rw [he, h1]
  simp

/-- the row pitch in bytes is the stride in elements times the element size -/
theorem stride_mul_size (cols size align : Nat) (hd : size ∣ align) :
    stride cols size align * size = rowBytes cols size align := by
  unfold stride
  exact Nat.div_mul_cancel (Nat.dvd_trans hd (C19.rowBytes_dvd cols size align))

/-! ### the exported views -/

/-- C18, `ScoringMatrix`: the view has the shape of the matrix, and for every `(i, j)` in shape the
    item at byte offset `i·strides₀ + j·strides₁` is entry `(i, j)` of the matrix in the C19 layout,
    wholly inside the row storage — for every row count, every column count (5 and 21 in the
    module: row pitches 32 and 96 bytes, so padding exists) and every alignment the element size divides -/
theorem scoring_view_exact (rows cols align i j : Nat) (ha : 0 < align) (hd : 4 ∣ align)
    (hi : i < (scoringView rows cols align).shape0) (hj : j < (scoringView rows cols align).shape1) :
    (scoringView rows cols align).shape0 = rows ∧ (scoringView rows cols align).shape1 = cols ∧
    elemAt rows cols 4 (rowBytes cols 4 align) ((scoringView rows cols align).offset i j) = some (i, j) ∧
    (scoringView rows cols align).offset i j + (scoringView rows cols align).itemsize
      ≤ rows * rowBytes cols 4 align := by
  have hp := C19.rowBytes_ge cols 4 align ha
  have hs := stride_mul_size cols 4 align hd
  simp only [scoringView] at hi hj
  refine ⟨rfl, rfl, ?_, ?_⟩
  · simp only [scoringView, View2.offset, hs]
    exact elemAt_elem rows cols 4 _ i j hi hj (by omega) hp
  · simp only [scoringView, View2.offset, hs]
    have := elem_inside rows 4 (rowBytes cols 4 align) i j 3 cols hi hj (by omega) hp
    omega

example : (scoringView 15 5 32).shape0 = 15 ∧ (scoringView 15 5 32).stride0 = 32 ∧
    elemAt 15 5 4 32 ((scoringView 15 5 32).offset 14 4) = some (14, 4) := by decide

/-- the pinned commit exported `shape = [cols, rows]` over the same strides: in a 15 × 5 matrix, item
    `[0][5]` of that view is alignment padding and item `[0][8]` is entry `(1, 0)` -/
theorem scoringViewAsIs_counterexample :
    5 < (scoringViewAsIs 15 5 32).shape1 ∧
    cellAt 15 5 4 (rowBytes 5 4 32) ((scoringViewAsIs 15 5 32).offset 0 5) = .pad ∧
    elemAt 15 5 4 (rowBytes 5 4 32) ((scoringViewAsIs 15 5 32).offset 0 8) = some (1, 0) := by decide

/-- C18, `StripedScores`: item `[c][r]` of the view is the score at (column `c`, row `r`), inside the
    row storage -/
theorem scores_view_exact (rows cols align c r : Nat) (ha : 0 < align) (hd : 4 ∣ align)
    (hc : c < (scoresView cols rows align).shape0) (hr : r < (scoresView cols rows align).shape1) :
    (scoresView cols rows align).shape0 = cols ∧ (scoresView cols rows align).shape1 = rows ∧
    elemAt rows cols 4 (rowBytes cols 4 align) ((scoresView cols rows align).offset c r) = some (r, c) ∧
    (scoresView cols rows align).offset c r + (scoresView cols rows align).itemsize
      ≤ rows * rowBytes cols 4 align := by
  have hp := C19.rowBytes_ge cols 4 align ha
  have hs := stride_mul_size cols 4 align hd
  simp only [scoresView] at hc hr
  have hoff : c * 4 + r * rowBytes cols 4 align = r * rowBytes cols 4 align + c * 4 := Nat.add_comm _ _
  refine ⟨rfl, rfl, ?_, ?_⟩
  · simp only [scoresView, View2.offset, hs, hoff]
    exact elemAt_elem rows cols 4 _ r c hr hc (by omega) hp
  · simp only [scoresView, View2.offset, hs, hoff]
    have := elem_inside rows 4 (rowBytes cols 4 align) r c 3 cols hr hc (by omega) hp
    omega

example : elemAt 4 32 4 128 ((scoresView 32 4 32).offset 31 3) = some (3, 31) := by decide

/-- the `len` field of every 2-D export is `product(shape) · itemsize` -/
theorem view_len (rows cols align : Nat) :
    (scoringView rows cols align).len
      = (scoringView rows cols align).shape0 * (scoringView rows cols align).shape1 * (scoringView rows cols align).itemsize ∧
    (scoresView cols rows align).len
      = (scoresView cols rows align).shape0 * (scoresView cols rows align).shape1 * (scoresView cols rows align).itemsize ∧
    (stripedView cols rows align).len
      = (stripedView cols rows align).shape0 * (stripedView cols rows align).shape1 * (stripedView cols rows align).itemsize := by
  simp [scoringView, scoresView, stripedView]

/-- C18, one-dimensional exports: item `i` of `memoryview(EncodedSequence)` is symbol `i`, item `i` of
    `memoryview(ScoreDistribution)` is value `i` of the survival function; the views have exactly
    `n` items -/
theorem flat_views_exact (n i : Nat) (hi : i < n) :
    (encView n).items = n ∧ elemAt n 1 1 1 ((encView n).offset i) = some (i, 0) ∧
    (distView n).items = n ∧ elemAt n 1 8 8 ((distView n).offset i) = some (i, 0) ∧
    (distView n).offset i + 8 ≤ (distView n).len := by
  refine ⟨by simp [encView, View1.items], ?_, by simp [distView, View1.items], ?_, ?_⟩
  · have := elemAt_elem n 1 1 1 i 0 hi (by omega) (by omega) (by omega)
    simpa [encView, View1.offset] using this
  · have := elemAt_elem n 1 8 8 i 0 hi (by omega) (by omega) (by omega)
    simpa [distView, View1.offset] using this
  · simp only [distView, View1.offset]; omega

example : (distView 6001).items = 6001 ∧ elemAt 6001 1 8 8 ((distView 6001).offset 6000) = some (6000, 0) := by decide

/-! ### one striped sequence reused for scoring: every history -/

/-- the relation between the cached shape and the matrix -/
def PySeq.Inv (s : PySeq) (cols R : Nat) : Prop :=
  s.cols = cols ∧ s.shapeRows = R ∧ s.shapeRows + s.wrap = s.dataRows

theorem PySeq.fresh_inv (cols R : Nat) : PySeq.Inv (PySeq.fresh cols R) cols R :=
  ⟨rfl, rfl, rfl⟩

theorem PySeq.configure_inv (s : PySeq) (cols R M : Nat) (h : PySeq.Inv s cols R) :
    PySeq.Inv (s.configure M) cols R := by
  obtain ⟨h1, h2, h3⟩ := h
  unfold PySeq.configure
  split
  · exact ⟨h1, h2, h3⟩
  · split
    · refine ⟨h1, h2, ?_⟩
      simp only
      omega
    · exact ⟨h1, h2, h3⟩

theorem PySeq.run_inv (Ms : List Nat) (s : PySeq) (cols R : Nat) (h : PySeq.Inv s cols R) :
    PySeq.Inv (s.run Ms) cols R := by
  induction Ms generalizing s with
  | nil => exact h
  | cons M Ms ih => exact ih (s.configure M) (PySeq.configure_inv s cols R M h)

/-- C18, histories: after ANY sequence of `calculate` / `Scanner` calls with motifs of any widths
    (increasing, decreasing, zero), a view of the striped sequence still has shape
    `[cols, R]`, and its item `[c][r]` is the symbol at (column `c`, row `r`) of the matrix, inside the
    row storage; the look-ahead rows added meanwhile are never visible -/
theorem reuse_view_exact (cols R align : Nat) (Ms : List Nat) (c r : Nat) (ha : 0 < align)
    (hc : c < cols) (hr : r < R) :
    ((PySeq.fresh cols R).run Ms).view align = stripedView cols R align ∧
    ((PySeq.fresh cols R).run Ms).viewCell align c r = .elem r c 0 ∧
    ((stripedView cols R align).offset c r) < ((PySeq.fresh cols R).run Ms).dataRows * rowBytes cols 1 align := by
  obtain ⟨h1, h2, h3⟩ := PySeq.run_inv Ms (PySeq.fresh cols R) cols R (PySeq.fresh_inv cols R)
  have hp := C19.rowBytes_ge cols 1 align ha
  have hs := stride_mul_size cols 1 align (Nat.one_dvd align)
  have hrow : r < ((PySeq.fresh cols R).run Ms).dataRows := by omega
  have hoff : (stripedView cols R align).offset c r = r * rowBytes cols 1 align + c * 1 + 0 := by
    simp only [stripedView, View2.offset, Nat.one_mul]
    rw [Nat.mul_one] at hs
    rw [hs]; omega
  refine ⟨by simp [PySeq.view, h1, h2], ?_, ?_⟩
  · simp only [PySeq.viewCell, PySeq.view, h1, h2, hoff]
    exact cellAt_elem _ cols 1 _ r c 0 hrow hc (by omega) hp
  · rw [hoff]
    exact elem_inside _ 1 _ r c 0 cols hrow hc (by omega) hp

example : ((PySeq.fresh 32 4).run [6, 2, 21, 3]).dataRows = 24 ∧
    ((PySeq.fresh 32 4).run [6, 2, 21, 3]).view 32 = stripedView 32 4 32 ∧
    ((PySeq.fresh 32 4).run [6, 2, 21, 3]).viewCell 32 31 3 = .elem 3 31 0 := by decide

/-! ### views exported before the object is reused

  The property also quantifies over views taken BEFORE the object is reused for scoring.  For those
  it was false on the code as found (`Variant.asIs`, `stale_view_counterexample`); the repair in
  lightmotif-py (/repo 34d1e9e, `Variant.repaired`: the sequence counts its exported buffers and refuses
  to add look-ahead rows while one is alive) makes it true for every history of exports, releases and
  reuses (`stale_view_repaired`, `views_never_stale`): -/

/-- the full statement for exported views: whatever the allocator does, a view exported at any time
    still points into the storage of the object after a later `calculate` -/
def StaleViewStatement (v : Variant) : Prop :=
  ∀ (cols R align M : Nat) (moves : Bool) (o' : PyObj),
    PyObj.calculate v moves ((PyObj.fresh cols R).export align).1 M = .ok o' →
    ((PyObj.fresh cols R).export align).2.valid o'

/-- as the code is: a view of a 250-row sequence exported before `calculate` with a 4000-row motif
    points into a block the object no longer owns (run on the real module: pyharness/stale_view.py) -/
theorem stale_view_counterexample : ¬ StaleViewStatement .asIs := by
  intro h
  have := h 32 250 32 4000 true _ rfl
  revert this
  decide

/-- with the reconfiguration refused while a view is exported, every exported view stays valid -/
theorem stale_view_repaired : StaleViewStatement .repaired := by
  intro cols R align M moves o' h
  unfold PyObj.calculate at h
  split at h
  · simp [PyObj.export] at h
  · cases h
    simp [Exported.valid, PyObj.export]

/-- what does hold as the code is: a view stays valid across every `calculate` that does not grow
    the storage (motif not longer than the look-ahead rows already present) -/
theorem stale_view_partial (o : PyObj) (align M : Nat) (moves : Bool) (o' : PyObj)
    (hg : o.seq.grows M = false)
    (h : PyObj.calculate .asIs moves (o.export align).1 M = .ok o') :
    (o.export align).2.valid o' := by
  unfold PyObj.calculate at h
  have hg' : (o.export align).1.seq.grows M = false := by simpa [PyObj.export] using hg
  rw [hg'] at h
  simp at h
  cases h
  simp [Exported.valid, PyObj.export]

example : (PySeq.fresh 32 4).grows 6 = true ∧ ((PySeq.fresh 32 4).configure 6).grows 3 = false ∧
    staleAdmissible .asIs (PySeq.fresh 32 4) 6 = ["same", "differs"] := by decide

/-! ### every history of exports, releases and reuses (the code as repaired) -/

/-- what a Python program can do with one striped sequence and its views -/
inductive ViewOp where
  | export (align : Nat)              -- `memoryview(seq)`
  | release (i : Nat)                 -- `view.release()` / the view is collected (the i-th live one)
  | reuse (M : Nat) (moves : Bool)    -- `calculate` / `Scanner` / `scan` with a motif of `M` rows; `moves` =
                                      -- the allocator's choice if the storage grows
deriving Repr

/-- the object and its live views -/
structure ViewState where
  obj : PyObj
  live : List Exported

def ViewState.step (s : ViewState) : ViewOp → ViewState
  | .export a => ⟨(s.obj.export a).1, (s.obj.export a).2 :: s.live⟩
  | .release i =>
    if i < s.live.length then ⟨{ s.obj with exports := s.obj.exports - 1 }, s.live.eraseIdx i⟩ else s
  | .reuse M moves =>
    match PyObj.calculate .repaired moves s.obj M with
    | .ok o' => ⟨o', s.live⟩
    | .error _ => s                   -- `BufferError`: the object is left as it was

/-- the export count is the number of live views and every live view points into the current storage -/
def ViewState.Inv (s : ViewState) : Prop :=
  s.obj.exports = s.live.length ∧ ∀ e ∈ s.live, e.valid s.obj

theorem ViewState.step_inv (s : ViewState) (op : ViewOp) (h : s.Inv) : (s.step op).Inv := by
  obtain ⟨hc, hv⟩ := h
  cases op with
  | «export» a =>
    have hs : s.step (.export a) =
        ⟨{ s.obj with exports := s.obj.exports + 1 }, ⟨s.obj.seq.view a, s.obj.block⟩ :: s.live⟩ := by
      simp [ViewState.step, PyObj.export]
    rw [hs]
    refine ⟨by simp [hc], ?_⟩
    intro e he
    simp only [List.mem_cons] at he
    rcases he with rfl | he
    · simp [Exported.valid]
    · have := hv e he
      simpa [Exported.valid] using this
  | release i =>
    by_cases hi : i < s.live.length
    · have hs : s.step (.release i) = ⟨{ s.obj with exports := s.obj.exports - 1 }, s.live.eraseIdx i⟩ := by
        simp [ViewState.step, hi]
      rw [hs]
      refine ⟨?_, ?_⟩
      · simp only [List.length_eraseIdx, hi, if_true]; omega
      · intro e he
        have := hv e (List.mem_of_mem_eraseIdx he)
        simpa [Exported.valid] using this
    · have hs : s.step (.release i) = s := by simp [ViewState.step, hi]
      rw [hs]; exact ⟨hc, hv⟩
  | reuse M moves =>
    by_cases hg : s.obj.seq.grows M = true
    · by_cases he : s.obj.exports > 0
      · have hs : s.step (.reuse M moves) = s := by
          simp [ViewState.step, PyObj.calculate, hg, he]
        rw [hs]; exact ⟨hc, hv⟩
      · have hs : s.step (.reuse M moves) =
            ⟨{ s.obj with seq := s.obj.seq.configure M, block := if moves then s.obj.block + 1 else s.obj.block }, s.live⟩ := by
          simp [ViewState.step, PyObj.calculate, hg, he]
        rw [hs]
        have h0 : s.live = [] := by
          have : s.live.length = 0 := by omega
          exact List.length_eq_zero_iff.mp this
        refine ⟨by simpa using hc, ?_⟩
        intro e he'; simp [h0] at he'
    · have hs : s.step (.reuse M moves) = ⟨{ s.obj with seq := s.obj.seq.configure M }, s.live⟩ := by
        simp [ViewState.step, PyObj.calculate, hg]
      rw [hs]
      refine ⟨hc, ?_⟩
      intro e he
      have := hv e he
      simpa [Exported.valid] using this

/-- **C18, views taken before the object is reused, every history.**  Whatever a program does with
    one striped sequence — export views, release them in any order, reuse the sequence with motifs of any
    widths, whatever the allocator does when the storage grows — every view that is still alive points
    into the storage the object owns (so it shows the logical contents, by `view_after_reuse`), and the
    object's export count is the number of live views. -/
theorem views_never_stale (cols R : Nat) (ops : List ViewOp) :
    (ops.foldl ViewState.step ⟨PyObj.fresh cols R, []⟩).Inv := by
  have h0 : (ViewState.mk (PyObj.fresh cols R) []).Inv := ⟨rfl, by simp⟩
  generalize ViewState.mk (PyObj.fresh cols R) [] = s at h0
  induction ops generalizing s with
  | nil => exact h0
  | cons op ops ih => exact ih _ (s.step_inv op h0)

/-- non-vacuity: a history in which a reuse is refused (a view is alive), then allowed (released), and in
    which the storage moves while no view is alive -/
example :
    let s := [ViewOp.export 32, .reuse 4000 true, .release 0, .reuse 4000 true, .export 32, .reuse 3 true].foldl
      ViewState.step ⟨PyObj.fresh 32 250, []⟩
    s.obj.block = 1 ∧ s.live.length = 1 ∧ s.obj.exports = 1 ∧ s.obj.seq.dataRows = 250 + 3999 := by decide

end C18
end LMV
