/-
  C12 — TFM-PVALUE p-value ranges are consistent with the exact score distribution.

  Exact instance (`Rat`) of the mirror model LMV.Model.Tfm (the code with the four `fix:` commits).
  `tail bg rows x` is P(S ≥ x) for the exact score S of a background-distributed word.  Shared
  lemmas (R) `rounding` and (D) `distribution_spec` are in LMV.Lemmas.Tfm.
-/
import LMV.Lemmas.Tfm

namespace LMV
namespace C12
open Tfm

/-- `P(S ≥ x)`: the exact tail of the score of a background-distributed word -/
def tail (bg : List Rat) (rows : List (List Rat)) (x : Rat) : Rat :=
  expect bg rows (fun s => if x ≤ s then 1 else 0)

/-- total mass of all words (1 for a background that sums to 1) -/
def totalMass (bg : List Rat) (rows : List (List Rat)) : Rat := expect bg rows (fun _ => 1)

theorem tail_antitone {bg : List Rat} (hbg : ∀ b ∈ bg, 0 ≤ b) (rows : List (List Rat)) {x y : Rat}
    (h : x ≤ y) : tail bg rows y ≤ tail bg rows x := by
  apply expect_mono hbg
  intro s
  by_cases hy : y ≤ s
  · simp [hy, le_trans h hy]
  · by_cases hx : x ≤ s <;> simp [hy, hx]

theorem tail_le_total {bg : List Rat} (hbg : ∀ b ∈ bg, 0 ≤ b) (rows : List (List Rat)) (x : Rat) :
    tail bg rows x ≤ totalMass bg rows := by
  apply expect_mono hbg
  intro s
  by_cases hx : x ≤ s <;> simp [hx]

theorem tail_nonneg {bg : List Rat} (hbg : ∀ b ∈ bg, 0 ≤ b) (rows : List (List Rat)) (x : Rat) :
    0 ≤ tail bg rows x := by
  have := expect_mono hbg rows (f := fun _ => 0) (h := fun s => if x ≤ s then 1 else 0)
    (by intro s; by_cases hx : x ≤ s <;> simp [hx])
  rwa [expect_zero] at this

/-! ### the two look-ups inside `lookup_pvalue` -/

/-- the least key `≥ avg` of an ascending key list selects the same entries as `avg` itself -/
theorem firstGe_spec {q : List (Int × Rat)} (hq : q.Pairwise (fun a b => a.1 ≤ b.1))
    (avg d : Int) (hd : avg ≤ d) :
    avg ≤ q.foldr (fun e s => if avg ≤ e.1 then e.1 else s) d ∧
      ∀ e ∈ q, (q.foldr (fun e s => if avg ≤ e.1 then e.1 else s) d ≤ e.1 ↔ avg ≤ e.1) := by
  induction q with
  | nil => simp [hd]
  | cons e0 t ih =>
    rw [List.pairwise_cons] at hq
    obtain ⟨i1, i2⟩ := ih hq.2
    simp only [List.foldr_cons]
    by_cases h : avg ≤ e0.1
    · rw [if_pos h]
      refine ⟨h, ?_⟩
      intro e he
      rcases List.mem_cons.1 he with he | he
      · subst he; simp [h]
      · have := hq.1 e he
        constructor <;> intro <;> omega
    · rw [if_neg h]
      refine ⟨i1, ?_⟩
      intro e he
      rcases List.mem_cons.1 he with he | he
      · subst he
        constructor <;> intro <;> omega
      · exact i2 e he

theorem walkDown_mem (thr : Rat) (l : List Int) (d : Int) :
    walkDown thr l d = d ∨ walkDown thr l d ∈ l := by
  induction l with
  | nil => simp [walkDown]
  | cons k t ih =>
    cases t with
    | nil => simp [walkDown]
    | cons k' t' =>
      unfold walkDown
      split
      · rcases ih with ih | ih
        · exact Or.inl ih
        · exact Or.inr (List.mem_cons_of_mem _ ih)
      · exact Or.inr List.mem_cons_self

/-! ### one refinement step -/

/-- **C12, one step, sharp form.**  For every matrix (rows in any order), every non-negative
    background, every granularity `g > 0` and every score `s`, with `E = error_max`:
    `P(S ≥ s+(E+1)g) ≤ pmin ≤ pmax ≤ P(S ≥ s-(E+2)g)`. -/
theorem lookupPvalue_spec {bg : List Rat} (hbg : ∀ b ∈ bg, 0 ≤ b) (rows : List (List Rat))
    (hne : rows ≠ []) {g : Rat} (hg : 0 < g) (s : Rat) :
    tail bg rows (s + (errorMax g rows + 1) * g) ≤ (lookupPvalue (recompute rows g) bg s).1 ∧
      (lookupPvalue (recompute rows g) bg s).1 ≤ (lookupPvalue (recompute rows g) bg s).2 ∧
      (lookupPvalue (recompute rows g) bg s).2 ≤ tail bg rows (s - (errorMax g rows + 2) * g) := by
  -- the window
  obtain ⟨hE0, _⟩ := errorMax_bounds g rows
  set rc := recompute rows g with hrc
  have hEq : rc.errorMax = errorMax g rows := rfl
  set E := errorMax g rows with hE
  set X : Rat := s / g + ((rc.offsets.sum : Int) : Rat) with hX
  have hgg : rc.g = g := rfl
  have hwin : pvalueWindow rc s = (⌊X⌋, ⌊X - E - 1⌋, ⌊X + E + 1⌋) := by
    simp [pvalueWindow, hX, hEq, hgg]
  have hmin_avg : ⌊X - E - 1⌋ ≤ ⌊X⌋ := Int.floor_le_floor (by linarith)
  have havg_max : ⌊X⌋ ≤ ⌊X + E + 1⌋ := Int.floor_le_floor (by linarith)
  set avg := ⌊X⌋ with havg
  set mn := ⌊X - E - 1⌋ with hmn
  set mx := ⌊X + E + 1⌋ with hmx
  -- the map
  set Q := distribution rc.im bg mn mx with hQ
  have him : NonnegRows rc.im := nonneg_im g rows
  have hne' : rc.im ≠ [] := by
    simp only [hrc, recompute]
    intro h; exact hne (List.map_eq_nil_iff.1 h)
  have hQall := distribution_forall hbg him (min := mn) (max := mx) (by omega)
  have hQsorted : Q.Pairwise (fun a b => a.1 ≤ b.1) := by
    rw [hQ]; unfold distribution
    split
    · exact List.Pairwise.nil
    · exact pairwise_normalize _
  -- the two keys
  set s' := Q.foldr (fun e s => if avg ≤ e.1 then e.1 else s) (mx + 1) with hs'
  obtain ⟨hs'1, hs'2⟩ := firstGe_spec hQsorted avg (mx + 1) (by omega)
  rw [← hs'] at hs'1 hs'2
  set below := (Q.filter (fun e => decide (e.1 ≤ s'))).map (·.1) with hbelow
  set kmax := walkDown (Num.ofInt s' - rc.errorMax) below.reverse s' with hkmax
  have hlk : lookupPvalue rc bg s = (tailFrom Q s', tailFrom Q kmax) := by
    simp only [lookupPvalue, hwin]
    rfl
  have hkmax_le : kmax ≤ s' := by
    rcases walkDown_mem (Num.ofInt s' - rc.errorMax) below.reverse s' with h | h
    · rw [hkmax, h]
    · rw [← hkmax] at h
      rw [List.mem_reverse, hbelow, List.mem_map] at h
      obtain ⟨e, he, h⟩ := h
      rw [← h]
      simpa using (List.mem_filter.1 he).2
  rw [hlk]
  simp only
  -- pmin = P(D ≥ avg)
  have hpmin : tailFrom Q s' = expect bg rc.im (fun k => if avg ≤ k then 1 else 0) := by
    rw [tailFrom_eq, ← distribution_spec bg him hne' (min := mn) (max := mx)]
    · apply wsum_congr
      intro e he
      by_cases h : avg ≤ e.1
      · simp [h, (hs'2 e he).2 h]
      · have : ¬ s' ≤ e.1 := fun h' => h ((hs'2 e he).1 h')
        simp [h, this]
    · constructor
      · intro k hk; simp; omega
      · intro k hk
        have h1 : avg ≤ k := by omega
        have h2 : avg ≤ mx + 1 := by omega
        simp [h1, h2]
  -- everything in the map is P(D ≥ min)
  have hall : wsum Q (fun _ => 1) = expect bg rc.im (fun k => if mn ≤ k then 1 else 0) := by
    rw [← distribution_spec bg him hne' (min := mn) (max := mx)]
    · apply wsum_congr
      intro e he
      simp [(hQall e he).1]
    · constructor
      · intro k hk; simp; omega
      · intro k hk
        have h1 : mn ≤ k := by omega
        have h2 : mn ≤ mx + 1 := by omega
        simp [h1, h2]
  refine ⟨?_, ?_, ?_⟩
  · -- lower bound through the coupling and (R)
    rw [hpmin, ← expect_pair_snd bg g rows, tail, ← expect_pair_fst bg g rows]
    apply expect_mono_reach hbg
    rintro ⟨S, D⟩ hreach
    obtain ⟨_, r2⟩ := rounding g rows hreach
    by_cases hS : s + (E + 1) * g ≤ S
    · have h1 : s / g + (E + 1) ≤ S / g := by
        rw [← sub_nonneg] at hS ⊢
        have : S / g - (s / g + (E + 1)) = (S - (s + (E + 1) * g)) / g := by
          field_simp
        rw [this]; exact div_nonneg hS (le_of_lt hg)
      have h2 : X < (D : Rat) := by
        rw [hX]; linarith
      have h3 : avg ≤ D := by
        have := Int.floor_le X
        have h4 : ((avg : Int) : Rat) < (D : Rat) := lt_of_le_of_lt this h2
        exact le_of_lt (by exact_mod_cast h4)
      simp [hS, h3]
    · simp only [hS, if_false]
      by_cases h3 : avg ≤ D <;> simp [h3]
  · -- pmin ≤ pmax
    rw [tailFrom_eq, tailFrom_eq]
    apply wsum_mono (fun e he => (hQall e he).2)
    intro e _
    by_cases h : s' ≤ e.1
    · have : kmax ≤ e.1 := le_trans hkmax_le h
      simp [h, this]
    · by_cases h' : kmax ≤ e.1 <;> simp [h, h']
  · -- upper bound
    have h1 : tailFrom Q kmax ≤ wsum Q (fun _ => 1) := by
      rw [tailFrom_eq]
      apply wsum_mono (fun e he => (hQall e he).2)
      intro e _
      by_cases h' : kmax ≤ e.1 <;> simp [h']
    refine le_trans h1 ?_
    rw [hall, ← expect_pair_snd bg g rows, tail, ← expect_pair_fst bg g rows]
    apply expect_mono_reach hbg
    rintro ⟨S, D⟩ hreach
    obtain ⟨r1, _⟩ := rounding g rows hreach
    by_cases hD : mn ≤ D
    · have h2 : X - E - 1 < (mn : Rat) + 1 := Int.lt_floor_add_one _
      have h3 : ((mn : Int) : Rat) ≤ (D : Rat) := by exact_mod_cast hD
      have h4 : s / g - (E + 2) < S / g := by
        rw [hX] at h2; linarith
      have h5 : s - (E + 2) * g ≤ S := by
        have : (s - (E + 2) * g) / g < S / g := by
          have : (s - (E + 2) * g) / g = s / g - (E + 2) := by field_simp
          rw [this]; exact h4
        exact le_of_lt ((div_lt_div_iff_of_pos_right hg).1 this)
      simp [hD, h5]
    · simp only [hD, if_false]
      by_cases h5 : s - (E + 2) * g ≤ S <;> simp [h5]

end C12
end LMV
