/-
  C12 — TFM-PVALUE p-value ranges are consistent with the exact score distribution.
  (theorems under construction)
-/
import LMV.Model.Tfm

namespace LMV
namespace C12
open Tfm

/-- the first granularity of the exact instance is 1/10 -/
theorem tenth_rat : (Num.tenth : Rat) = 1 / 10 := rfl

end C12
end LMV
