/-
  C12 — TFM-PVALUE p-value ranges are consistent with the exact score distribution.

  Exact instance (`Rat`) of the mirror model LMV.Model.Tfm (the code with the four `fix:` commits).
  `tail bg rows x` is P(S ≥ x) for the exact score S of a background-distributed word.  Shared
  lemmas (R) `rounding` and (D) `distribution_spec` are in LMV.Lemmas.Tfm.
-/
import LMV.Lemmas.Tfm

namespace LMV
namespace C12
open Tfm

/-- `P(S ≥ x)`: the exact tail of the score of a background-distributed word -/
def tail (bg : List Rat) (rows : List (List Rat)) (x : Rat) : Rat :=
  expect bg rows (fun s => if x ≤ s then 1 else 0)

/-- total mass of all words (1 for a background that sums to 1) -/
def totalMass (bg : List Rat) (rows : List (List Rat)) : Rat := expect bg rows (fun _ => 1)

theorem tail_antitone {bg : List Rat} (hbg : ∀ b ∈ bg, 0 ≤ b) (rows : List (List Rat)) {x y : Rat}
    (h : x ≤ y) : tail bg rows y ≤ tail bg rows x := by
  apply expect_mono hbg
  intro s
  by_cases hy : y ≤ s
  · simp [hy, le_trans h hy]
  · by_cases hx : x ≤ s <;> simp [hy, hx]

theorem tail_le_total {bg : List Rat} (hbg : ∀ b ∈ bg, 0 ≤ b) (rows : List (List Rat)) (x : Rat) :
    tail bg rows x ≤ totalMass bg rows := by
  apply expect_mono hbg
  intro s
  by_cases hx : x ≤ s <;> simp [hx]

theorem tail_nonneg {bg : List Rat} (hbg : ∀ b ∈ bg, 0 ≤ b) (rows : List (List Rat)) (x : Rat) :
    0 ≤ tail bg rows x := by
  have := expect_mono hbg rows (f := fun _ => 0) (h := fun s => if x ≤ s then 1 else 0)
    (by intro s; by_cases hx : x ≤ s <;> simp [hx])
  rwa [expect_zero] at this

/-! ### the two look-ups inside `lookup_pvalue` -/

/-- the least key `≥ avg` of an ascending key list selects the same entries as `avg` itself -/
theorem firstGe_spec {q : List (Int × Rat)} (hq : q.Pairwise (fun a b => a.1 ≤ b.1))
    (avg d : Int) (hd : avg ≤ d) :
    avg ≤ q.foldr (fun e s => if avg ≤ e.1 then e.1 else s) d ∧
      ∀ e ∈ q, (q.foldr (fun e s => if avg ≤ e.1 then e.1 else s) d ≤ e.1 ↔ avg ≤ e.1) := by
  induction q with
  | nil => simp [hd]
  | cons e0 t ih =>
    rw [List.pairwise_cons] at hq
    obtain ⟨i1, i2⟩ := ih hq.2
    simp only [List.foldr_cons]
    by_cases h : avg ≤ e0.1
    · rw [if_pos h]
      refine ⟨h, ?_⟩
      intro e he
      rcases List.mem_cons.1 he with he | he
      · subst he; simp [h]
      · have := hq.1 e he
        constructor <;> intro <;> omega
    · rw [if_neg h]
      refine ⟨i1, ?_⟩
      intro e he
      rcases List.mem_cons.1 he with he | he
      · subst he
        constructor <;> intro <;> omega
      · exact i2 e he

theorem walkDown_mem (thr : Rat) (l : List Int) (d : Int) :
    walkDown thr l d = d ∨ walkDown thr l d ∈ l := by
  induction l with
  | nil => simp [walkDown]
  | cons k t ih =>
    cases t with
    | nil => simp [walkDown]
    | cons k' t' =>
      unfold walkDown
      split
      · rcases ih with ih | ih
        · exact Or.inl ih
        · exact Or.inr (List.mem_cons_of_mem _ ih)
      · exact Or.inr List.mem_cons_self

/-! ### one refinement step -/

/-- **C12, one step, sharp form.**  For every matrix (rows in any order), every non-negative
    background, every granularity `g > 0` and every score `s`, with `E = error_max`:
    `P(S ≥ s+(E+1)g) ≤ pmin ≤ pmax ≤ P(S ≥ s-(E+2)g)`. -/
theorem lookupPvalue_spec {bg : List Rat} (hbg : ∀ b ∈ bg, 0 ≤ b) (rows : List (List Rat))
    (hne : rows ≠ []) {g : Rat} (hg : 0 < g) (s : Rat) :
    tail bg rows (s + (errorMax g rows + 1) * g) ≤ (lookupPvalue (recompute rows g) bg s).1 ∧
      (lookupPvalue (recompute rows g) bg s).1 ≤ (lookupPvalue (recompute rows g) bg s).2 ∧
      (lookupPvalue (recompute rows g) bg s).2 ≤ tail bg rows (s - (errorMax g rows + 2) * g) := by
  -- the window
  obtain ⟨hE0, _⟩ := errorMax_bounds g rows
  set rc := recompute rows g with hrc
  have hEq : rc.errorMax = errorMax g rows := rfl
  set E := errorMax g rows with hE
  set X : Rat := s / g + ((rc.offsets.sum : Int) : Rat) with hX
  have hgg : rc.g = g := rfl
  have hwin : pvalueWindow rc s = (⌊X⌋, ⌊X - E - 1⌋, ⌊X + E + 1⌋) := by
    simp [pvalueWindow, hX, hEq, hgg]
  have hmin_avg : ⌊X - E - 1⌋ ≤ ⌊X⌋ := Int.floor_le_floor (by linarith)
  have havg_max : ⌊X⌋ ≤ ⌊X + E + 1⌋ := Int.floor_le_floor (by linarith)
  set avg := ⌊X⌋ with havg
  set mn := ⌊X - E - 1⌋ with hmn
  set mx := ⌊X + E + 1⌋ with hmx
  -- the map
  set Q := distribution rc.im bg mn mx with hQ
  have him : NonnegRows rc.im := nonneg_im g rows
  have hne' : rc.im ≠ [] := by
    simp only [hrc, recompute]
    intro h; exact hne (List.map_eq_nil_iff.1 h)
  have hQall := distribution_forall hbg him (min := mn) (max := mx) (by omega)
  have hQsorted : Q.Pairwise (fun a b => a.1 ≤ b.1) := by
    rw [hQ]; unfold distribution
    split
    · exact List.Pairwise.nil
    · exact pairwise_normalize _
  -- the two keys
  set s' := Q.foldr (fun e s => if avg ≤ e.1 then e.1 else s) (mx + 1) with hs'
  obtain ⟨hs'1, hs'2⟩ := firstGe_spec hQsorted avg (mx + 1) (by omega)
  rw [← hs'] at hs'1 hs'2
  set below := (Q.filter (fun e => decide (e.1 ≤ s'))).map (·.1) with hbelow
  set kmax := walkDown (Num.ofInt s' - rc.errorMax) below.reverse s' with hkmax
  have hlk : lookupPvalue rc bg s = (tailFrom Q s', tailFrom Q kmax) := by
    simp only [lookupPvalue, hwin]
    rfl
  have hkmax_le : kmax ≤ s' := by
    rcases walkDown_mem (Num.ofInt s' - rc.errorMax) below.reverse s' with h | h
    · rw [hkmax, h]
    · rw [← hkmax] at h
      rw [List.mem_reverse, hbelow, List.mem_map] at h
      obtain ⟨e, he, h⟩ := h
      rw [← h]
      simpa using (List.mem_filter.1 he).2
  rw [hlk]
  simp only
  -- pmin = P(D ≥ avg)
  have hpmin : tailFrom Q s' = expect bg rc.im (fun k => if avg ≤ k then 1 else 0) := by
    rw [tailFrom_eq, ← distribution_spec bg him hne' (min := mn) (max := mx)]
    · apply wsum_congr
      intro e he
      by_cases h : avg ≤ e.1
      · simp [h, (hs'2 e he).2 h]
      · have : ¬ s' ≤ e.1 := fun h' => h ((hs'2 e he).1 h')
        simp [h, this]
    · constructor
      · intro k hk; simp; omega
      · intro k hk
        have h1 : avg ≤ k := by omega
        have h2 : avg ≤ mx + 1 := by omega
        simp [h1, h2]
  -- everything in the map is P(D ≥ min)
  have hall : wsum Q (fun _ => 1) = expect bg rc.im (fun k => if mn ≤ k then 1 else 0) := by
    rw [← distribution_spec bg him hne' (min := mn) (max := mx)]
    · apply wsum_congr
      intro e he
      simp [(hQall e he).1]
    · constructor
      · intro k hk; simp; omega
      · intro k hk
        have h1 : mn ≤ k := by omega
        have h2 : mn ≤ mx + 1 := by omega
        simp [h1, h2]
  refine ⟨?_, ?_, ?_⟩
  · -- lower bound through the coupling and (R)
    rw [hpmin, ← expect_pair_snd bg g rows, tail, ← expect_pair_fst bg g rows]
    apply expect_mono_reach hbg
    rintro ⟨S, D⟩ hreach
    obtain ⟨_, r2⟩ := rounding g rows hreach
    by_cases hS : s + (E + 1) * g ≤ S
    · have h1 : s / g + (E + 1) ≤ S / g := by
        rw [← sub_nonneg] at hS ⊢
        have : S / g - (s / g + (E + 1)) = (S - (s + (E + 1) * g)) / g := by
          field_simp
        rw [this]; exact div_nonneg hS (le_of_lt hg)
      have h2 : X < (D : Rat) := by
        rw [hX]; linarith
      have h3 : avg ≤ D := by
        have := Int.floor_le X
        have h4 : ((avg : Int) : Rat) < (D : Rat) := lt_of_le_of_lt this h2
        exact le_of_lt (by exact_mod_cast h4)
      simp [hS, h3]
    · simp only [hS, if_false]
      by_cases h3 : avg ≤ D <;> simp [h3]
  · -- pmin ≤ pmax
    rw [tailFrom_eq, tailFrom_eq]
    apply wsum_mono (fun e he => (hQall e he).2)
    intro e _
    by_cases h : s' ≤ e.1
    · have : kmax ≤ e.1 := le_trans hkmax_le h
      simp [h, this]
    · by_cases h' : kmax ≤ e.1 <;> simp [h, h']
  · -- upper bound
    have h1 : tailFrom Q kmax ≤ wsum Q (fun _ => 1) := by
      rw [tailFrom_eq]
      apply wsum_mono (fun e he => (hQall e he).2)
      intro e _
      by_cases h' : kmax ≤ e.1 <;> simp [h']
    refine le_trans h1 ?_
    rw [hall, ← expect_pair_snd bg g rows, tail, ← expect_pair_fst bg g rows]
    apply expect_mono_reach hbg
    rintro ⟨S, D⟩ hreach
    obtain ⟨r1, _⟩ := rounding g rows hreach
    by_cases hD : mn ≤ D
    · have h2 : X - E - 1 < (mn : Rat) + 1 := Int.lt_floor_add_one _
      have h3 : ((mn : Int) : Rat) ≤ (D : Rat) := by exact_mod_cast hD
      have h4 : s / g - (E + 2) < S / g := by
        rw [hX] at h2; linarith
      have h5 : s - (E + 2) * g ≤ S := by
        have : (s - (E + 2) * g) / g < S / g := by
          have : (s - (E + 2) * g) / g = s / g - (E + 2) := by field_simp
          rw [this]; exact h4
        exact le_of_lt ((div_lt_div_iff_of_pos_right hg).1 this)
      simp [hD, h5]
    · simp only [hD, if_false]
      by_cases h5 : s - (E + 2) * g ≤ S <;> simp [h5]

/-! ### the total mass -/

theorem sum_zip_snd_le {β : Type} {bg : List Rat} (hbg : ∀ b ∈ bg, 0 ≤ b) (r : List β) :
    0 ≤ ((r.zip bg).map (·.2)).sum ∧ ((r.zip bg).map (·.2)).sum ≤ bg.sum := by
  induction bg generalizing r with
  | nil => simp
  | cons b t ih =>
    have hb : 0 ≤ b := hbg b (by simp)
    have ht : ∀ b' ∈ t, 0 ≤ b' := fun b' hb' => hbg b' (by simp [hb'])
    cases r with
    | nil => simpa using add_nonneg hb (List.sum_nonneg ht)
    | cons x r' =>
      obtain ⟨h1, h2⟩ := ih ht r'
      simp only [List.zip_cons_cons, List.map_cons, List.sum_cons]
      constructor <;> linarith

theorem totalMass_bounds {bg : List Rat} (hbg : ∀ b ∈ bg, 0 ≤ b) (hsum : bg.sum ≤ 1)
    (rows : List (List Rat)) : 0 ≤ totalMass bg rows ∧ totalMass bg rows ≤ 1 := by
  induction rows with
  | nil => simp [totalMass, expect]
  | cons r rs ih =>
    obtain ⟨h1, h2⟩ := sum_zip_snd_le hbg r
    simp only [totalMass, expect] at ih ⊢
    rw [List.sum_map_mul_right]
    constructor
    · exact mul_nonneg h1 ih.1
    · calc _ ≤ (1 : Rat) * 1 := mul_le_mul (le_trans h2 hsum) ih.2 ih.1 (by norm_num)
        _ = 1 := by norm_num

/-! ### the score distribution does not depend on the order of the rows -/

theorem list_sum_comm {β γ : Type} (l₁ : List β) (l₂ : List γ) (F : β → γ → Rat) :
    (l₁.map fun a => (l₂.map fun b => F a b).sum).sum =
      (l₂.map fun b => (l₁.map fun a => F a b).sum).sum := by
  induction l₁ with
  | nil => simp
  | cons a t ih => simp only [List.map_cons, List.sum_cons, ih, List.sum_map_add]

theorem expect_perm (bg : List Rat) {rows rows' : List (List Rat)} (h : rows.Perm rows')
    (f : Rat → Rat) : expect bg rows f = expect bg rows' f := by
  induction h generalizing f with
  | nil => rfl
  | cons r _ ih =>
    simp only [expect]
    congr 1
    apply List.map_congr_left
    intro xb _
    rw [ih]
  | swap a b l =>
    simp only [expect]
    simp only [← List.sum_map_mul_left]
    rw [list_sum_comm]
    congr 1
    apply List.map_congr_left
    intro xa _
    congr 1
    apply List.map_congr_left
    intro xb _
    have : (fun s => f (xb.1 + (xa.1 + s))) = (fun s => f (xa.1 + (xb.1 + s))) := by
      funext s; congr 1; ring
    rw [this]; ring
  | trans _ _ ih₁ ih₂ => rw [ih₁, ih₂]

theorem permute_perm {β : Type} (rows : List (List β)) {perm : List Nat}
    (hperm : perm.Perm (List.range rows.length)) : (permute rows perm).Perm rows := by
  unfold permute
  have h1 := hperm.map (fun p => rows.getD p [])
  have h2 : (List.range rows.length).map (fun p => rows.getD p []) = rows := by
    apply List.ext_getElem
    · simp
    · intro i h1 h2
      simp [List.getD_eq_getElem?_getD, h2]
  rw [h2] at h1
  exact h1

theorem tail_permute (bg : List Rat) (rows : List (List Rat)) {perm : List Nat}
    (hperm : perm.Perm (List.range rows.length)) (x : Rat) :
    tail bg (permute rows perm) x = tail bg rows x :=
  expect_perm bg (permute_perm rows hperm) _

/-- what the driver checks of the implementation's permutation implies the hypothesis the theorems
    use: it is a permutation of the row indices -/
theorem admissiblePerm_perm {ranges : List Float32} {perm : List Nat}
    (h : admissiblePerm ranges perm = true) : perm.Perm (List.range ranges.length) := by
  simp only [admissiblePerm, Bool.and_eq_true, beq_iff_eq, List.all_eq_true, List.mem_range,
    List.contains_eq_mem, decide_eq_true_eq] at h
  obtain ⟨⟨hlen, hall⟩, _⟩ := h
  have hsub : List.range ranges.length ⊆ perm := fun i hi => hall i (List.mem_range.1 hi)
  have hsp : (List.range ranges.length).Subperm perm :=
    List.subperm_of_subset List.nodup_range hsub
  exact (hsp.perm_of_length_le (by simp [hlen])).symm

/-! ### every refinement step -/

theorem pvalueSteps_mem {rows : List (List Rat)} {bg : List Rat} {s : Rat} {fuel : Nat} {g : Rat}
    {conv : Bool} {it : Iteration Rat} (h : it ∈ pvalueSteps rows bg s fuel g conv) (hg : 0 < g) :
    (∃ k : Nat, it.granularity = g / 10 ^ k) ∧ it.score = s ∧
      (it.start, it.stop) = lookupPvalue (recompute rows it.granularity) bg s := by
  induction fuel generalizing g conv with
  | zero => simp [pvalueSteps] at h
  | succ n ih =>
    unfold pvalueSteps at h
    split at h
    · simp at h
    · simp only [List.mem_cons] at h
      rcases h with h | h
      · subst h
        exact ⟨⟨0, by simp⟩, rfl, rfl⟩
      · obtain ⟨⟨k, hk⟩, h2, h3⟩ := ih h (by simp only [div_rat, ten_rat]; positivity)
        refine ⟨⟨k + 1, ?_⟩, h2, h3⟩
        rw [hk]; simp only [div_rat, ten_rat]; rw [pow_succ]; field_simp

/-- **C12.**  Every `Iteration` of `approximate_pvalue(s)` — for every matrix, every order of its
    rows, every non-negative background, every score — is taken at a granularity `g = 10^-(k+1)`
    and reports `pmin ≤ pmax` with `P(S ≥ s+(M+1)g) ≤ pmin`, `pmax ≤ P(S ≥ s-(M+2)g)`,
    `0 ≤ pmin`, `pmax ≤` total mass (`≤ 1` when the background sums to at most 1, `totalMass_bounds`);
    `S` is the exact score of a background-distributed word under the ORIGINAL row order. -/
theorem c12 {bg : List Rat} (hbg : ∀ b ∈ bg, 0 ≤ b) (rows : List (List Rat)) (hne : rows ≠ [])
    {perm : List Nat} (hperm : perm.Perm (List.range rows.length)) (s : Rat) (fuel : Nat)
    {it : Iteration Rat} (hit : it ∈ approximatePvalue (permute rows perm) bg s fuel) :
    (∃ k : Nat, it.granularity = (1 / 10) ^ (k + 1)) ∧
      it.start ≤ it.stop ∧ 0 ≤ it.start ∧ it.stop ≤ totalMass bg rows ∧
      tail bg rows (s + (rows.length + 1) * it.granularity) ≤ it.start ∧
      it.stop ≤ tail bg rows (s - (rows.length + 2) * it.granularity) := by
  unfold approximatePvalue at hit
  obtain ⟨⟨k, hk⟩, _, hlk⟩ := pvalueSteps_mem hit (by simp)
  have hg : 0 < it.granularity := by rw [hk]; simp only [tenth_rat]; positivity
  set prow := permute rows perm with hprow
  have hlen : prow.length = rows.length := by
    rw [hprow]; exact (permute_perm rows hperm).length_eq
  have hne' : prow ≠ [] := by
    intro h; rw [h] at hlen; exact hne (List.length_eq_zero_iff.1 hlen.symm)
  obtain ⟨h1, h2, h3⟩ := lookupPvalue_spec hbg prow hne' hg s
  rw [← hlk] at h1 h2 h3
  simp only at h1 h2 h3
  obtain ⟨hE0, hE1⟩ := errorMax_bounds it.granularity prow
  rw [hlen] at hE1
  have hM : (1 : Rat) ≤ rows.length := by
    have : 0 < rows.length := List.length_pos_iff.2 hne
    exact_mod_cast this
  have hE1' : errorMax it.granularity prow ≤ (rows.length : Rat) - 1 := by
    have : ((rows.length - 1 : Nat) : Rat) = (rows.length : Rat) - 1 := by
      rw [Nat.cast_sub (List.length_pos_iff.2 hne)]; simp
    rw [this] at hE1; exact hE1
  rw [tail_permute bg rows hperm] at h1 h3
  refine ⟨⟨k, ?_⟩, h2, ?_, ?_, ?_, ?_⟩
  · rw [hk]; simp only [tenth_rat]; rw [pow_succ, one_div, inv_pow]; field_simp
  · exact le_trans (tail_nonneg hbg rows _) h1
  · exact le_trans h3 (tail_le_total hbg rows _)
  · refine le_trans (tail_antitone hbg rows ?_) h1
    have : (errorMax it.granularity prow + 1) * it.granularity ≤ ((rows.length : Rat) + 1) * it.granularity :=
      mul_le_mul_of_nonneg_right (by linarith) (le_of_lt hg)
    linarith
  · refine le_trans h3 (tail_antitone hbg rows ?_)
    have : (errorMax it.granularity prow + 2) * it.granularity ≤ ((rows.length : Rat) + 2) * it.granularity :=
      mul_le_mul_of_nonneg_right (by linarith) (le_of_lt hg)
    linarith

/-- the hypotheses of `c12` are satisfiable and the iterator does produce iterations -/
example : ∃ it, it ∈ approximatePvalue (permute [[(1 : Rat), -1], [0, 2]] [1, 0]) [1 / 2, 1 / 2] (1 / 3) 1 := by
  simp [approximatePvalue, pvalueSteps]

/-- the property as stated in properties.jsonl (width `M ≥ 2`, a background that is a probability
    vector on the non-wildcard symbols), for the model -/
def Statement : Prop :=
  ∀ (bg : List Rat) (rows : List (List Rat)) (perm : List Nat) (s : Rat) (fuel : Nat),
    (∀ b ∈ bg, 0 ≤ b) → bg.sum ≤ 1 → 2 ≤ rows.length → perm.Perm (List.range rows.length) →
    ∀ it ∈ approximatePvalue (permute rows perm) bg s fuel,
      it.start ≤ it.stop ∧ 0 ≤ it.start ∧ it.stop ≤ 1 ∧
        tail bg rows (s + (rows.length + 1) * it.granularity) ≤ it.start ∧
        it.stop ≤ tail bg rows (s - (rows.length + 2) * it.granularity)

theorem c12_statement : Statement := by
  intro bg rows perm s fuel hbg hsum hM hperm it hit
  have hne : rows ≠ [] := by intro h; simp [h] at hM
  obtain ⟨_, h1, h2, h3, h4, h5⟩ := c12 hbg rows hne hperm s fuel hit
  exact ⟨h1, h2, le_trans h3 (totalMass_bounds hbg hsum rows).2, h4, h5⟩

/-- `tail` is the sum, over the explicit list of all words, of the probabilities of the words
    scoring at least `x` -/
theorem tail_eq_words (bg : List Rat) (rows : List (List Rat)) (x : Rat) :
    tail bg rows x =
      ((words bg rows).map fun w => wordProb w * (if x ≤ wordScore w then 1 else 0)).sum :=
  expect_eq_words bg rows _

end C12
end LMV
