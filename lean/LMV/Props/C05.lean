/-
  C05 — Encoding accepts exactly the alphabet and is identical on every backend.

  `tables_dna` / `tables_protein` are kernel evaluations over the tables regenerated from abc.rs on
  every run (all 256 byte values, every arm); everything else is proved for every byte string of
  every length, at every position relative to the vector blocks.
-/
import LMV.Model.Encode

namespace LMV
namespace C05

open Encode

deriving instance DecidableEq for Except

/-! ### Decidable facts about one alphabet's tables (checked by kernel evaluation) -/

/-- expected result of one vector lane: the symbol of the byte, or the fill value, flagged -/
def laneSpec (A : Alphabet) (fillv : Nat) (b : UInt8) : UInt8 × UInt8 :=
  match A.fromAscii b with
  | some a => (a.toUInt8, 0)
  | none => (fillv.toUInt8, 0xFF)

/-- `from_ascii` on byte `b` returns the position of `b` in `as_str`, or rejects a non-letter -/
def FromOK (A : Alphabet) (b : UInt8) : Prop :=
  match A.fromAscii b with
  | some a => A.letters[a]? = some b
  | none => b ∉ A.letters

instance (A : Alphabet) (b : UInt8) : Decidable (FromOK A b) := by
  unfold FromOK; split <;> infer_instance

/-- all the facts about the regenerated tables that the unbounded theorems use -/
def TablesOK (A : Alphabet) : Prop :=
  A.letters.length = A.K ∧ 1 ≤ A.K ∧ A.K ≤ 255 ∧ A.letters.Nodup ∧
  A.symbols = List.range A.K ∧ A.dflt = A.K - 1 ∧
  -- letters are upper-case ASCII
  (∀ b ∈ A.letters, 65 ≤ b.toNat ∧ b.toNat ≤ 90) ∧
  -- `from_ascii` accepts exactly the letters of `as_str` and returns the letter's position
  (∀ n, n < 256 → FromOK A n.toUInt8) ∧
  -- `as_ascii` of symbol `a` is letter `a`
  (∀ a, a < A.K → A.asAscii a = A.letters[a]?) ∧
  -- the AVX2 compare/blend chain and the SSE2 and/andnot/or chain compute `from_ascii` per lane
  (∀ n, n < 256 → laneAvx2 A n.toUInt8 = laneSpec A A.K n.toUInt8) ∧
  (∀ n, n < 256 → laneSse2 A n.toUInt8 = laneSpec A (A.K - 1) n.toUInt8)

instance (A : Alphabet) : Decidable (TablesOK A) := by unfold TablesOK; infer_instance

theorem tables_dna : TablesOK dna := by decide +kernel
theorem tables_protein : TablesOK protein := by decide +kernel

/-! ### Consequences of the table facts, for every byte -/

section
variable {A : Alphabet} (T : TablesOK A)
include T

theorem fromOK (b : UInt8) : FromOK A b := by
  have := T.2.2.2.2.2.2.2.1 b.toNat (UInt8.toNat_lt_size b)
  simpa using this

theorem laneA (b : UInt8) : laneAvx2 A b = laneSpec A A.K b := by
  have := T.2.2.2.2.2.2.2.2.2.1 b.toNat (UInt8.toNat_lt_size b)
  simpa using this

theorem laneS (b : UInt8) : laneSse2 A b = laneSpec A (A.K - 1) b := by
  have := T.2.2.2.2.2.2.2.2.2.2 b.toNat (UInt8.toNat_lt_size b)
  simpa using this

/-- `from_ascii b = some a`  iff  `b` is letter number `a` of the alphabet string -/
theorem fromAscii_eq_some_iff (b : UInt8) (a : Nat) :
    A.fromAscii b = some a ↔ A.letters[a]? = some b := by
  have h := fromOK T b
  unfold FromOK at h
  constructor
  · intro e; rw [e] at h; exact h
  · intro e
    cases hf : A.fromAscii b with
    | none => rw [hf] at h; exact absurd (List.mem_of_getElem? e) h
    | some a' =>
      rw [hf] at h
      have hnd := T.2.2.2.1
      have ha : a < A.letters.length := by
        rcases List.getElem?_eq_some_iff.mp e with ⟨h1, _⟩; exact h1
      have ha' : a' < A.letters.length := by
        rcases List.getElem?_eq_some_iff.mp h with ⟨h1, _⟩; exact h1
      have e1 : A.letters[a] = b := (List.getElem?_eq_some_iff.mp e).2
      have e2 : A.letters[a'] = b := (List.getElem?_eq_some_iff.mp h).2
      have := (List.getElem_inj (h₀ := ha') (h₁ := ha) hnd).mp (e2.trans e1.symm)
      rw [this]

/-- `from_ascii` accepts exactly the letters -/
theorem fromAscii_isSome_iff (b : UInt8) : (A.fromAscii b).isSome ↔ b ∈ A.letters := by
  constructor
  · intro h
    rcases Option.isSome_iff_exists.mp h with ⟨a, ha⟩
    exact List.mem_of_getElem? ((fromAscii_eq_some_iff T b a).mp ha)
  · intro h
    rcases List.getElem?_of_mem h with ⟨a, ha⟩
    rw [(fromAscii_eq_some_iff T b a).mpr ha]; rfl

theorem fromAscii_lt (b : UInt8) (a : Nat) (h : A.fromAscii b = some a) : a < A.K := by
  have := (fromAscii_eq_some_iff T b a).mp h
  rcases List.getElem?_eq_some_iff.mp this with ⟨h1, _⟩
  rw [← T.1]; exact h1

end

/-! ### C05 (1): the generic encoder accepts exactly the alphabet -/

/-- success: same length, and symbol `i` of the result is the symbol whose letter is byte `i` -/
theorem generic_ok {A : Alphabet} (T : TablesOK A) (s : List UInt8) (v : List Nat)
    (h : generic A s = .ok v) :
    v.length = s.length ∧ ∀ i, (hi : i < s.length) → ∃ a, v[i]? = some a ∧ A.letters[a]? = some s[i] := by
  induction s generalizing v with
  | nil => simp [generic] at h; subst h; simp
  | cons c cs ih =>
    unfold generic at h
    cases hf : A.fromAscii c with
    | none => rw [hf] at h; cases h
    | some a =>
      rw [hf] at h; simp only at h
      cases hg : generic A cs with
      | error e => rw [hg] at h; cases h
      | ok w =>
        rw [hg] at h; simp only at h
        have : v = a :: w := by cases h; rfl
        subst this
        have ⟨l, r⟩ := ih w hg
        refine ⟨by simp [l], ?_⟩
        intro i hi
        cases i with
        | zero => exact ⟨a, by simp, (fromAscii_eq_some_iff T c a).mp hf⟩
        | succ j =>
          have := r j (by simpa using hi)
          simpa using this

/-- it succeeds if (and, by `generic_error`, only if) every byte is a letter of the alphabet -/
theorem generic_succeeds {A : Alphabet} (T : TablesOK A) (s : List UInt8)
    (h : ∀ b ∈ s, b ∈ A.letters) : ∃ v, generic A s = .ok v := by
  induction s with
  | nil => exact ⟨[], rfl⟩
  | cons c cs ih =>
    have hc := (fromAscii_isSome_iff T c).mpr (h c (by simp))
    rcases Option.isSome_iff_exists.mp hc with ⟨a, ha⟩
    rcases ih (fun b hb => h b (by simp [hb])) with ⟨w, hw⟩
    exact ⟨a :: w, by simp [generic, ha, hw]⟩

/-- failure reports the FIRST byte that is not a letter of the alphabet -/
theorem generic_error {A : Alphabet} (T : TablesOK A) (s : List UInt8) (e : UInt8)
    (h : generic A s = .error e) :
    ∃ pre post, s = pre ++ e :: post ∧ (∀ b ∈ pre, b ∈ A.letters) ∧ e ∉ A.letters := by
  induction s with
  | nil => simp [generic] at h
  | cons c cs ih =>
    unfold generic at h
    cases hf : A.fromAscii c with
    | none =>
      rw [hf] at h; simp only at h
      have : e = c := by cases h; rfl
      subst this
      refine ⟨[], cs, rfl, by simp, ?_⟩
      intro hm
      have := (fromAscii_isSome_iff T e).mpr hm
      rw [hf] at this; cases this
    | some a =>
      rw [hf] at h; simp only at h
      cases hg : generic A cs with
      | ok w => rw [hg] at h; cases h
      | error e' =>
        rw [hg] at h; simp only at h
        have : e = e' := by cases h; rfl
        subst this
        rcases ih hg with ⟨pre, post, h1, h2, h3⟩
        refine ⟨c :: pre, post, by simp [h1], ?_, h3⟩
        intro b hb
        rcases List.mem_cons.mp hb with rfl | hb
        · exact (fromAscii_isSome_iff T b).mp (by rw [hf]; rfl)
        · exact h2 b hb

/-- exact characterisation: success iff every byte is an (upper-case) letter of the alphabet -/
theorem generic_ok_iff {A : Alphabet} (T : TablesOK A) (s : List UInt8) :
    (∃ v, generic A s = .ok v) ↔ ∀ b ∈ s, b ∈ A.letters := by
  constructor
  · rintro ⟨v, hv⟩ b hb
    rcases List.getElem_of_mem hb with ⟨i, hi, rfl⟩
    rcases (generic_ok T s v hv).2 i hi with ⟨a, _, ha⟩
    exact List.mem_of_getElem? ha
  · exact generic_succeeds T s

/-- displaying an encoded sequence reproduces the input -/
theorem display_generic {A : Alphabet} (T : TablesOK A) (s : List UInt8) (v : List Nat)
    (h : generic A s = .ok v) : display A v = some s := by
  induction s generalizing v with
  | nil => simp [generic] at h; subst h; rfl
  | cons c cs ih =>
    unfold generic at h
    cases hf : A.fromAscii c with
    | none => rw [hf] at h; cases h
    | some a =>
      rw [hf] at h; simp only at h
      cases hg : generic A cs with
      | error e => rw [hg] at h; cases h
      | ok w =>
        rw [hg] at h; simp only at h
        have : v = a :: w := by cases h; rfl
        subst this
        have hlt := fromAscii_lt T c a hf
        have h1 : A.asAscii a = some c := by
          rw [T.2.2.2.2.2.2.2.2.1 a hlt]; exact (fromAscii_eq_some_iff T c a).mp hf
        have h2 := ih w hg
        unfold display at h2 ⊢
        simp [List.mapM_cons, h1, h2]

/-! ### C05 (2): every backend and every dispatcher arm equals the generic encoder -/

theorem generic_append (A : Alphabet) (x y : List UInt8) :
    generic A (x ++ y) =
      match generic A x with
      | .error e => .error e
      | .ok v => match generic A y with
        | .error e => .error e
        | .ok w => .ok (v ++ w) := by
  induction x with
  | nil => simp [generic]; cases generic A y <;> rfl
  | cons c cs ih =>
    simp only [List.cons_append, generic]
    cases A.fromAscii c with
    | none => rfl
    | some a =>
      simp only [ih]
      cases generic A cs with
      | error e => rfl
      | ok v => cases generic A y <;> rfl

theorem rescan_eq (A : Alphabet) (s : List UInt8) :
    rescan A s = match generic A s with | .ok _ => .ok () | .error e => .error e := by
  induction s with
  | nil => rfl
  | cons c cs ih =>
    simp only [rescan, generic]
    cases A.fromAscii c with
    | none => rfl
    | some a => simp only [ih]; cases generic A cs <;> rfl

/-- what the block loop has done when it stops: it consumed a prefix `p`, stored `lane` of every
    byte of `p`, and raised the flag iff some lane of `p` was flagged -/
theorem blocks_spec (stride : Nat) (strict : Bool) (lane : UInt8 → UInt8 × UInt8) :
    ∀ (fuel : Nat) (s acc : List UInt8) (err : Bool),
      ∃ p rest, s = p ++ rest ∧
        blocks stride strict lane fuel s acc err =
          (acc ++ p.map (fun b => (lane b).1), err || p.any (fun b => (lane b).2 != 0), rest) := by
  intro fuel
  induction fuel with
  | zero => intro s acc err; exact ⟨[], s, rfl, by simp [blocks]⟩
  | succ n ih =>
    intro s acc err
    unfold blocks
    by_cases h0 : stride = 0
    · exact ⟨[], s, rfl, by simp [h0]⟩
    · simp only [h0, if_false]
      by_cases hc : (if strict then stride < s.length else stride ≤ s.length)
      · simp only [hc, if_true]
        rcases ih (s.drop stride) (acc ++ ((s.take stride).map lane).map (·.1))
          (err || ((s.take stride).map lane).any (·.2 != 0)) with ⟨p, rest, h1, h2⟩
        refine ⟨s.take stride ++ p, rest, ?_, ?_⟩
        · rw [List.append_assoc, ← h1, List.take_append_drop]
        · rw [h2]
          simp only [List.map_append, List.any_append, Bool.or_assoc, List.map_map, List.any_map,
            List.append_assoc, Function.comp_def]
      · exact ⟨[], s, rfl, by simp [hc]⟩

section
variable {A : Alphabet} (T : TablesOK A)
include T

theorem generic_of_known (f : Nat) (p : List UInt8) (h : ∀ b ∈ p, (A.fromAscii b).isSome) :
    generic A p = .ok (p.map (fun b => ((laneSpec A f b).1).toNat)) := by
  induction p with
  | nil => rfl
  | cons c cs ih =>
    have hc := h c (by simp)
    rcases Option.isSome_iff_exists.mp hc with ⟨a, ha⟩
    have hlt := fromAscii_lt T c a ha
    have hk := T.2.2.1
    simp only [generic, ha, ih (fun b hb => h b (by simp [hb])), List.map_cons, laneSpec]
    congr 2
    simp [Nat.toUInt8, UInt8.ofNat, UInt8.toNat]
    omega

theorem generic_of_unknown (p : List UInt8) (h : ∃ b ∈ p, A.fromAscii b = none) :
    ∃ e, generic A p = .error e := by
  cases hg : generic A p with
  | error e => exact ⟨e, rfl⟩
  | ok v =>
    rcases h with ⟨b, hb, hn⟩
    have := (generic_ok_iff T p).mp ⟨v, hg⟩ b hb
    have := (fromAscii_isSome_iff T b).mpr this
    rw [hn] at this; cases this

/-- the SIMD skeleton with a correct lane function is the generic encoder, for every stride, either
    loop test, every fill value and every input -/
theorem simd_eq_generic (stride : Nat) (strict : Bool) (f : Nat) (s : List UInt8) :
    simd A stride strict (laneSpec A f) s = generic A s := by
  unfold simd
  rcases blocks_spec stride strict (laneSpec A f) s.length s [] false with ⟨p, rest, hs, hb⟩
  rw [hb]
  simp only [List.nil_append, Bool.false_or]
  have hflag : ∀ b, ((laneSpec A f b).2 != 0) = (A.fromAscii b).isNone := by
    intro b; unfold laneSpec; cases A.fromAscii b <;> simp
  by_cases herr : p.any (fun b => (laneSpec A f b).2 != 0) = true
  · -- an unknown byte was seen in the vectorised prefix: the rescan reports the first bad byte
    have : ∃ b ∈ p, A.fromAscii b = none := by
      rcases List.any_eq_true.mp herr with ⟨b, hb1, hb2⟩
      rw [hflag] at hb2
      exact ⟨b, hb1, by simpa using hb2⟩
    rcases generic_of_unknown T p this with ⟨e, he⟩
    have hall : generic A s = .error e := by
      have h := generic_append A p rest
      rw [← hs] at h
      rw [h, he]
    simp only [herr, if_true, rescan_eq, hall]
  · have hk : ∀ b ∈ p, (A.fromAscii b).isSome := by
      intro b hb
      cases hf : A.fromAscii b with
      | some a => rfl
      | none =>
        exfalso; apply herr
        exact List.any_eq_true.mpr ⟨b, hb, by rw [hflag, hf]; rfl⟩
    have hp := generic_of_known T f p hk
    have hfalse : p.any (fun b => (laneSpec A f b).2 != 0) = false := by
      cases h : p.any (fun b => (laneSpec A f b).2 != 0) with
      | true => exact absurd h herr
      | false => rfl
    simp only [hfalse]
    have h := generic_append A p rest
    rw [← hs] at h
    rw [h, hp]
    simp only [Bool.false_eq_true, if_false, List.map_map, Function.comp_def]
    cases generic A rest <;> rfl

theorem avx2_eq_generic (s : List UInt8) : avx2 A s = generic A s := by
  have : laneAvx2 A = laneSpec A A.K := funext (laneA T)
  unfold avx2; rw [this]; exact simd_eq_generic T 32 false A.K s

theorem sse2_eq_generic (s : List UInt8) : sse2 A s = generic A s := by
  have : laneSse2 A = laneSpec A (A.K - 1) := funext (laneS T)
  unfold sse2; rw [this]; exact simd_eq_generic T 16 true (A.K - 1) s

theorem dispatch_eq_generic (arm : Backend) (s : List UInt8) :
    dispatch A arm s = generic A s := by
  cases arm <;> simp [dispatch, avx2_eq_generic T]

end

/-! ### The property, instantiated for the two alphabets the library ships -/

/-- C05 for DNA: all backends agree with the generic encoder on every byte string … -/
theorem c05_dna_backends (arm : Backend) (s : List UInt8) :
    avx2 dna s = generic dna s ∧ sse2 dna s = generic dna s ∧ dispatch dna arm s = generic dna s :=
  ⟨avx2_eq_generic tables_dna s, sse2_eq_generic tables_dna s, dispatch_eq_generic tables_dna arm s⟩

/-- … and for protein -/
theorem c05_protein_backends (arm : Backend) (s : List UInt8) :
    avx2 protein s = generic protein s ∧ sse2 protein s = generic protein s ∧
      dispatch protein arm s = generic protein s :=
  ⟨avx2_eq_generic tables_protein s, sse2_eq_generic tables_protein s,
   dispatch_eq_generic tables_protein arm s⟩

/-- C05, acceptance: success iff every byte is an upper-case letter of the alphabet -/
theorem c05_dna_accepts (s : List UInt8) :
    (∃ v, generic dna s = .ok v) ↔ ∀ b ∈ s, b ∈ dna.letters := generic_ok_iff tables_dna s
theorem c05_protein_accepts (s : List UInt8) :
    (∃ v, generic protein s = .ok v) ↔ ∀ b ∈ s, b ∈ protein.letters :=
  generic_ok_iff tables_protein s

/-! ### the character entry point (`Symbol::from_char`, used by the text parsers and the Python module) -/

/-- `from_char` accepts exactly the (ASCII, upper-case) letters of the alphabet and returns the
    letter's rank; every non-ASCII character is rejected, whatever its low byte -/
theorem fromChar_eq_some_iff {A : Alphabet} (T : TablesOK A) (cp a : Nat) :
    A.fromChar cp = some a ↔ cp < 128 ∧ A.letters[a]? = some cp.toUInt8 := by
  unfold Alphabet.fromChar
  by_cases h : cp < 128
  · simp only [h, if_true, true_and]
    exact fromAscii_eq_some_iff T cp.toUInt8 a
  · simp [h]

example : dna.fromChar 65 = some 0 ∧ dna.fromChar 0x141 = none ∧ dna.fromChar 97 = none := by decide

/-! ### Non-vacuity: the hypotheses are met by real inputs and both outcomes occur -/

example : generic dna [65, 84, 71, 67, 78] = .ok [0, 2, 3, 1, 4] := by decide
example : generic dna [65, 84, 97, 67] = .error 97 := by decide          -- lower-case 'a' rejected
example : avx2 dna (List.replicate 40 65 ++ [120]) = .error 120 := by decide +kernel
example : sse2 protein (List.replicate 17 88) = .ok (List.replicate 17 20) := by decide +kernel
example : display dna [0, 2, 3, 1, 4] = some [65, 84, 71, 67, 78] := by decide

end C05
end LMV
