import LMV.Model.Pwm
namespace LMV
namespace C09
theorem placeholder : True := trivial
end C09
end LMV
