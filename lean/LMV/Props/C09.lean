/-
  C09 — Count → frequency → weight → log-odds conversions obey their definitions.
-/
import LMV.Model.Pwm
import LMV.Model.Abc

namespace LMV
namespace C09

open Pwm

/-! ### (1) counting (Nat) -/

section counting
variable {K : Nat}

/-- number of sequences having symbol `a` at position `i` -/
def colCount (seqs : List (List Nat)) (i a : Nat) : Nat :=
  (seqs.filter fun s => s[i]? == some a).length

/-- the common length `from_sequences` commits to: the length of the first sequence -/
def firstLen : List (List Nat) → Nat
  | [] => 0
  | s :: _ => s.length

theorem addSeq_rows (d : Mat Nat K) (i : Nat) (xs : List Nat) : (addSeq d i xs).rows = d.rows := by
  induction xs generalizing d i with
  | nil => rfl
  | cons x xs ih => simp [addSeq, ih]

/-- one sequence adds one to the cell of each of its symbols and to no other cell -/
theorem addSeq_get (d : Mat Nat K) (i : Nat) (xs : List Nat) (r a : Nat)
    (hx : ∀ x ∈ xs, x < K) (hlen : i + xs.length ≤ d.rows) (ha : a < K) :
    (addSeq d i xs).get r a = d.get r a + (if i ≤ r ∧ xs[r - i]? = some a then 1 else 0) := by
  induction xs generalizing d i with
  | nil => simp [addSeq]
  | cons x xs ih =>
    simp only [addSeq]
    have hxK : x < K := hx x (by simp)
    have hi : i < d.rows := by simp at hlen; omega
    rw [ih _ _ (fun y hy => hx y (by simp [hy])) (by simp at hlen ⊢; omega)]
    simp only [Mat.get_set]
    by_cases h1 : r = i
    · subst h1
      have : ¬ (r + 1 ≤ r) := by omega
      by_cases h2 : a = x
      · subst h2; simp [hi, ha, this]
      · have h3 : ¬ x = a := fun h => h2 h.symm
        simp [h2, h3, this]
    · by_cases h2 : i + 1 ≤ r
      · have h3 : i ≤ r := by omega
        have h4 : r - i = (r - (i + 1)) + 1 := by omega
        simp [h1, h2, h3, h4]
      · have h3 : ¬ i ≤ r := by omega
        simp [h1, h2, h3]

theorem colCount_cons (s : List Nat) (rest : List (List Nat)) (i a : Nat) :
    colCount (s :: rest) i a = (if s[i]? = some a then 1 else 0) + colCount rest i a := by
  unfold colCount
  rw [List.filter_cons]
  by_cases h : s[i]? = some a
  · simp [h]; omega
  · simp [h]

/-- the loop of `from_sequences` once the matrix exists: accepted iff every remaining sequence
    has `d.rows` symbols; the counts of the accepted sequences are added cell by cell -/
theorem loop_some_ok (d : Mat Nat K) (n : Nat) (seqs : List (List Nat))
    (hlen : ∀ s ∈ seqs, s.length = d.rows) :
    ∃ d', fromSeqsLoop (some d) n seqs = .ok (some d', n + seqs.length) ∧ d'.rows = d.rows ∧
      ((∀ s ∈ seqs, ∀ x ∈ s, x < K) →
        ∀ r a, a < K → d'.get r a = d.get r a + colCount seqs r a) := by
  induction seqs generalizing d n with
  | nil => exact ⟨d, by simp [fromSeqsLoop], rfl, fun _ r a _ => by simp [colCount]⟩
  | cons s rest ih =>
    have hs : s.length = d.rows := hlen s (by simp)
    have ⟨d', h1, h2, h3⟩ := ih (addSeq d 0 s) (n + 1)
      (fun t ht => by rw [addSeq_rows]; exact hlen t (by simp [ht]))
    refine ⟨d', ?_, by rw [h2, addSeq_rows], ?_⟩
    · simp only [fromSeqsLoop, hs, ne_eq, not_true_eq_false, if_false]
      rw [h1]; simp; omega
    · intro hsym r a ha
      rw [h3 (fun t ht => hsym t (by simp [ht])) r a ha,
        addSeq_get d 0 s r a (hsym s (by simp)) (by omega) ha, colCount_cons]
      simp; omega

theorem loop_some_err (d : Mat Nat K) (n : Nat) (seqs : List (List Nat))
    (h : ∃ s ∈ seqs, s.length ≠ d.rows) : fromSeqsLoop (some d) n seqs = .error () := by
  induction seqs generalizing d n with
  | nil => simp at h
  | cons s rest ih =>
    by_cases hs : s.length = d.rows
    · simp only [fromSeqsLoop, hs, ne_eq, not_true_eq_false, if_false]
      apply ih
      rcases h with ⟨t, ht, hne⟩
      rw [addSeq_rows]
      rcases List.mem_cons.mp ht with rfl | ht'
      · exact absurd hs hne
      · exact ⟨t, ht', hne⟩
    · simp [fromSeqsLoop, hs]

theorem loop_none_cons (n : Nat) (s : List Nat) (rest : List (List Nat)) :
    fromSeqsLoop (K := K) none n (s :: rest)
      = fromSeqsLoop (some ((Mat.empty : Mat Nat K).resize s.length 0)) n (s :: rest) := by
  simp [fromSeqsLoop]

/-- **counting**: equal-length sequences are accepted, the matrix has one row per position,
    `sequence_count` is the number of sequences and entry `(i, a)` is the number of sequences with
    symbol `a` at position `i` -/
theorem fromSequences_ok (seqs : List (List Nat)) (hsym : ∀ s ∈ seqs, ∀ x ∈ s, x < K)
    (hlen : ∀ s ∈ seqs, s.length = firstLen seqs) :
    ∃ c, fromSequences (K := K) seqs = .ok c ∧ c.n = seqs.length ∧ c.data.rows = firstLen seqs ∧
      ∀ i a, i < firstLen seqs → a < K → c.data.get i a = colCount seqs i a := by
  cases seqs with
  | nil => exact ⟨⟨Mat.empty, 0⟩, by simp [fromSequences, fromSeqsLoop], rfl, rfl, fun i a hi => by simp [firstLen] at hi⟩
  | cons s rest =>
    have ⟨d', h1, h2, h3⟩ := loop_some_ok ((Mat.empty : Mat Nat K).resize s.length 0) 0 (s :: rest)
      (fun t ht => by rw [Mat.rows_resize]; exact hlen t ht)
    refine ⟨⟨d', (s :: rest).length⟩, ?_, rfl, by rw [h2]; simp [firstLen], ?_⟩
    · unfold fromSequences
      rw [loop_none_cons, h1]; simp
    · intro i a hi ha
      rw [h3 hsym i a ha]
      simp [firstLen] at hi
      simp [hi, ha]

/-- **unequal lengths are rejected** (`InvalidData`) -/
theorem fromSequences_err (seqs : List (List Nat)) (h : ∃ s ∈ seqs, s.length ≠ firstLen seqs) :
    fromSequences (K := K) seqs = .error () := by
  cases seqs with
  | nil => simp at h
  | cons s rest =>
    unfold fromSequences
    rw [loop_none_cons, loop_some_err _ _ _ (by simpa [firstLen] using h)]

/-- acceptance is exactly "all sequences have the same length" -/
theorem fromSequences_ok_iff (seqs : List (List Nat)) :
    (∃ c, fromSequences (K := K) seqs = .ok c) ↔ ∀ s ∈ seqs, s.length = firstLen seqs := by
  constructor
  · intro ⟨c, hc⟩
    apply Classical.byContradiction
    intro hn
    have : ∃ s ∈ seqs, s.length ≠ firstLen seqs := by
      simpa [Classical.not_forall] using hn
    rw [fromSequences_err seqs this] at hc
    cases hc
  · intro h
    cases seqs with
    | nil => exact ⟨⟨Mat.empty, 0⟩, by simp [fromSequences, fromSeqsLoop]⟩
    | cons s rest =>
      have ⟨d', h1, _, _⟩ := loop_some_ok ((Mat.empty : Mat Nat K).resize s.length 0) 0 (s :: rest)
        (fun t ht => by rw [Mat.rows_resize]; exact h t ht)
      exact ⟨⟨d', (s :: rest).length⟩, by unfold fromSequences; rw [loop_none_cons, h1]; simp⟩

/- non-vacuity: three DNA sequences of length 2 (counted), and a set with a shorter one (rejected) -/
example :
    (match fromSequences (K := 5) [[0, 1], [0, 3], [2, 1]] with
      | .ok c => c.n == 3 && c.data.rows == 2 && c.data.get 0 0 == 2 && c.data.get 1 1 == 2 &&
          c.data.get 1 3 == 1
      | .error _ => false) = true ∧
    colCount [[0, 1], [0, 3], [2, 1]] 0 0 = 2 ∧
    (match fromSequences (K := 5) [[0, 1], [0], [2, 1]] with | .ok _ => false | .error _ => true) = true := by
  decide +kernel

end counting

end C09
end LMV
