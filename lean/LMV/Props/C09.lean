/-
  C09 — Count → frequency → weight → log-odds conversions obey their definitions.

  Models: LMV.Model.Pwm over the carriers of LMV.Model.PwmScalar (abstract / `Rat` / `Float32`).

  (1) counting (Nat)      `fromSequences_ok`, `fromSequences_err`, `fromSequences_ok_iff`, `countNew_n`
  (2) exact (Rat)         `freq_eq`, `freq_row_sum`, `weight_rat`, `weight_of_counts`, `rescale_rat`
  (3) structural          `intoScoring_get`, `twoStep_get`, `logBase_cases`, `oneStep_eq_twoStep`,
                          `negInf_where_bg_zero`, `negInf_iff_bg_zero`
  (4) validation (Rat)    `bgNew_ok_iff`, `bgNew_err_iff`, `freqNew_ok_iff`, `freqNew_err_iff`,
                          `toFreq_valid`
  (5) bounds (Rat)        `min_le_score_le_max`, `scorePosition_rat`
  (6) backgrounds         `tables_symbols`, `bgFromCounts_ok`, `bgFromCounts_err_iff`,
                          `bgFromSequence_eq`, `bgFromSequences_eq`, `bgUniform_valid`,
                          `countSymbols_eq`, `pseudoUniform_get`, `rowTotal_ne_zero`
  (7) chain               `colCount_row_sum`, `freq_of_sequences`

  Guards the real code relies on are explicit hypotheses (row total ≠ 0, symbols < K, K ≥ 2,
  window inside the non-wildcard columns); each theorem is followed by a non-vacuity example.
-/
import LMV.Model.Pwm
import LMV.Model.Abc
import Mathlib.Algebra.Field.Rat
import Mathlib.Algebra.Order.Ring.Rat
import Mathlib.Algebra.BigOperators.Group.List.Basic
import Mathlib.Algebra.Order.BigOperators.Group.List
import Mathlib.Algebra.Order.Field.Basic
import Mathlib.Tactic.Ring
import Mathlib.Tactic.Linarith
import Mathlib.Tactic.FieldSimp

namespace LMV
namespace C09

open Pwm

/-! ### (1) counting (Nat) -/

section counting
variable {K : Nat}

/-- number of sequences having symbol `a` at position `i` -/
def colCount (seqs : List (List Nat)) (i a : Nat) : Nat :=
  (seqs.filter fun s => s[i]? == some a).length

/-- the common length `from_sequences` commits to: the length of the first sequence -/
def firstLen : List (List Nat) → Nat
  | [] => 0
  | s :: _ => s.length

theorem addSeq_rows (d : Mat Nat K) (i : Nat) (xs : List Nat) : (addSeq d i xs).rows = d.rows := by
  induction xs generalizing d i with
  | nil => rfl
  | cons x xs ih => simp [addSeq, ih]

/-- one sequence adds one to the cell of each of its symbols and to no other cell -/
theorem addSeq_get (d : Mat Nat K) (i : Nat) (xs : List Nat) (r a : Nat)
    (hx : ∀ x ∈ xs, x < K) (hlen : i + xs.length ≤ d.rows) (ha : a < K) :
    (addSeq d i xs).get r a = d.get r a + (if i ≤ r ∧ xs[r - i]? = some a then 1 else 0) := by
  induction xs generalizing d i with
  | nil => simp [addSeq]
  | cons x xs ih =>
    simp only [addSeq]
    have hxK : x < K := hx x (by simp)
    have hi : i < d.rows := by simp at hlen; omega
    rw [ih _ _ (fun y hy => hx y (by simp [hy])) (by simp at hlen ⊢; omega)]
    simp only [Mat.get_set]
    by_cases h1 : r = i
    · subst h1
      have : ¬ (r + 1 ≤ r) := by omega
      by_cases h2 : a = x
      · subst h2; simp [hi, ha, this]
      · have h3 : ¬ x = a := fun h => h2 h.symm
        simp [h2, h3, this]
    · by_cases h2 : i + 1 ≤ r
      · have h3 : i ≤ r := by omega
        have h4 : r - i = (r - (i + 1)) + 1 := by omega
        simp [h1, h2, h3, h4]
      · have h3 : ¬ i ≤ r := by omega
        simp [h1, h2, h3]

theorem colCount_cons (s : List Nat) (rest : List (List Nat)) (i a : Nat) :
    colCount (s :: rest) i a = (if s[i]? = some a then 1 else 0) + colCount rest i a := by
  unfold colCount
  rw [List.filter_cons]
  by_cases h : s[i]? = some a
  · simp [h]; omega
  · simp [h]

/-- the loop of `from_sequences` once the matrix exists: accepted iff every remaining sequence
    has `d.rows` symbols; the counts of the accepted sequences are added cell by cell -/
theorem loop_some_ok (d : Mat Nat K) (n : Nat) (seqs : List (List Nat))
    (hlen : ∀ s ∈ seqs, s.length = d.rows) :
    ∃ d', fromSeqsLoop (some d) n seqs = .ok (some d', n + seqs.length) ∧ d'.rows = d.rows ∧
      ((∀ s ∈ seqs, ∀ x ∈ s, x < K) →
        ∀ r a, a < K → d'.get r a = d.get r a + colCount seqs r a) := by
  induction seqs generalizing d n with
  | nil => exact ⟨d, by simp [fromSeqsLoop], rfl, fun _ r a _ => by simp [colCount]⟩
  | cons s rest ih =>
    have hs : s.length = d.rows := hlen s (by simp)
    have ⟨d', h1, h2, h3⟩ := ih (addSeq d 0 s) (n + 1)
      (fun t ht => by rw [addSeq_rows]; exact hlen t (by simp [ht]))
    refine ⟨d', ?_, by rw [h2, addSeq_rows], ?_⟩
    · simp only [fromSeqsLoop, hs, ne_eq, not_true_eq_false, if_false]
      rw [h1]; simp; omega
    · intro hsym r a ha
      rw [h3 (fun t ht => hsym t (by simp [ht])) r a ha,
        addSeq_get d 0 s r a (hsym s (by simp)) (by omega) ha, colCount_cons]
      simp; omega

theorem loop_some_err (d : Mat Nat K) (n : Nat) (seqs : List (List Nat))
    (h : ∃ s ∈ seqs, s.length ≠ d.rows) : fromSeqsLoop (some d) n seqs = .error () := by
  induction seqs generalizing d n with
  | nil => simp at h
  | cons s rest ih =>
    by_cases hs : s.length = d.rows
    · simp only [fromSeqsLoop, hs, ne_eq, not_true_eq_false, if_false]
      apply ih
      rcases h with ⟨t, ht, hne⟩
      rw [addSeq_rows]
      rcases List.mem_cons.mp ht with rfl | ht'
      · exact absurd hs hne
      · exact ⟨t, ht', hne⟩
    · simp [fromSeqsLoop, hs]

theorem loop_none_cons (n : Nat) (s : List Nat) (rest : List (List Nat)) :
    fromSeqsLoop (K := K) none n (s :: rest)
      = fromSeqsLoop (some ((Mat.empty : Mat Nat K).resize s.length 0)) n (s :: rest) := by
  simp [fromSeqsLoop]

/-- **counting**: equal-length sequences are accepted, the matrix has one row per position,
    `sequence_count` is the number of sequences and entry `(i, a)` is the number of sequences with
    symbol `a` at position `i` -/
theorem fromSequences_ok (seqs : List (List Nat)) (hsym : ∀ s ∈ seqs, ∀ x ∈ s, x < K)
    (hlen : ∀ s ∈ seqs, s.length = firstLen seqs) :
    ∃ c, fromSequences (K := K) seqs = .ok c ∧ c.n = seqs.length ∧ c.data.rows = firstLen seqs ∧
      ∀ i a, i < firstLen seqs → a < K → c.data.get i a = colCount seqs i a := by
  cases seqs with
  | nil => exact ⟨⟨Mat.empty, 0⟩, by simp [fromSequences, fromSeqsLoop], rfl, rfl, fun i a hi => by simp [firstLen] at hi⟩
  | cons s rest =>
    have ⟨d', h1, h2, h3⟩ := loop_some_ok ((Mat.empty : Mat Nat K).resize s.length 0) 0 (s :: rest)
      (fun t ht => by rw [Mat.rows_resize]; exact hlen t ht)
    refine ⟨⟨d', (s :: rest).length⟩, ?_, rfl, by rw [h2]; simp [firstLen], ?_⟩
    · unfold fromSequences
      rw [loop_none_cons, h1]; simp
    · intro i a hi ha
      rw [h3 hsym i a ha]
      simp [firstLen] at hi
      simp [hi, ha]

/-- **unequal lengths are rejected** (`InvalidData`) -/
theorem fromSequences_err (seqs : List (List Nat)) (h : ∃ s ∈ seqs, s.length ≠ firstLen seqs) :
    fromSequences (K := K) seqs = .error () := by
  cases seqs with
  | nil => simp at h
  | cons s rest =>
    unfold fromSequences
    rw [loop_none_cons, loop_some_err _ _ _ (by simpa [firstLen] using h)]

/-- acceptance is exactly "all sequences have the same length" -/
theorem fromSequences_ok_iff (seqs : List (List Nat)) :
    (∃ c, fromSequences (K := K) seqs = .ok c) ↔ ∀ s ∈ seqs, s.length = firstLen seqs := by
  constructor
  · intro ⟨c, hc⟩
    apply Classical.byContradiction
    intro hn
    have : ∃ s ∈ seqs, s.length ≠ firstLen seqs := by
      simpa [Classical.not_forall] using hn
    rw [fromSequences_err seqs this] at hc
    cases hc
  · intro h
    cases seqs with
    | nil => exact ⟨⟨Mat.empty, 0⟩, by simp [fromSequences, fromSeqsLoop]⟩
    | cons s rest =>
      have ⟨d', h1, _, _⟩ := loop_some_ok ((Mat.empty : Mat Nat K).resize s.length 0) 0 (s :: rest)
        (fun t ht => by rw [Mat.rows_resize]; exact h t ht)
      exact ⟨⟨d', (s :: rest).length⟩, by unfold fromSequences; rw [loop_none_cons, h1]; simp⟩

/- non-vacuity: three DNA sequences of length 2 (counted), and a set with a shorter one (rejected) -/
example :
    (match fromSequences (K := 5) [[0, 1], [0, 3], [2, 1]] with
      | .ok c => c.n == 3 && c.data.rows == 2 && c.data.get 0 0 == 2 && c.data.get 1 1 == 2 &&
          c.data.get 1 3 == 1
      | .error _ => false) = true ∧
    colCount [[0, 1], [0, 3], [2, 1]] 0 0 = 2 ∧
    (match fromSequences (K := 5) [[0, 1], [0], [2, 1]] with | .ok _ => false | .error _ => true) = true := by
  decide +kernel

/-- `CountMatrix::new` never rejects; its `sequence_count` is the largest row sum: an upper bound
    of every row sum, attained by some row when there is one -/
theorem countNew_n (data : Mat Nat K) :
    (countNew data).data = data ∧
    (∀ i, i < data.rows → natSum K (data.get i) ≤ (countNew data).n) ∧
    (0 < data.rows → ∃ i, i < data.rows ∧ natSum K (data.get i) = (countNew data).n) ∧
    (data.rows = 0 → (countNew data).n = 0) := by
  have key : ∀ (l : List Nat) (a : Nat),
      a ≤ l.foldl max a ∧ (∀ x ∈ l, x ≤ l.foldl max a) ∧ (l.foldl max a = a ∨ l.foldl max a ∈ l) := by
    intro l
    induction l with
    | nil => intro a; simp
    | cons x xs ih =>
      intro a
      have ⟨h1, h2, h3⟩ := ih (max a x)
      simp only [List.foldl_cons, List.mem_cons]
      refine ⟨le_trans (Nat.le_max_left a x) h1, ?_, ?_⟩
      · intro y hy
        rcases hy with rfl | hy
        · exact le_trans (Nat.le_max_right a y) h1
        · exact h2 y hy
      · rcases h3 with h | h
        · rw [h]
          rcases Nat.le_total a x with hle | hle
          · right; left; exact Nat.max_eq_right hle
          · left; exact Nat.max_eq_left hle
        · right; right; exact h
  unfold countNew
  by_cases h0 : data.rows = 0
  · simp [h0]
  · simp only [h0, if_false]
    have ⟨_, h2, h3⟩ := key ((List.range data.rows).map fun i => natSum K (data.get i)) 0
    refine ⟨trivial, ?_, ?_, False.elim⟩
    · intro i hi
      exact h2 _ (List.mem_map.mpr ⟨i, List.mem_range.mpr hi, rfl⟩)
    · intro _
      rcases h3 with h | h
      · -- the maximum is 0: every row sums to 0, row 0 attains it
        refine ⟨0, by omega, ?_⟩
        have := h2 _ (List.mem_map.mpr ⟨0, List.mem_range.mpr (by omega), rfl⟩)
        omega
      · rcases List.mem_map.mp h with ⟨i, hi, e⟩
        exact ⟨i, List.mem_range.mp hi, e⟩

end counting

/-! ### (2) exact arithmetic (`Rat`): frequencies and weights -/

section exact
variable {K : Nat}

/-! the `Arith Rat` instance in ordinary notation -/
@[simp] theorem rat_zero : (Arith.zero : Rat) = 0 := rfl
@[simp] theorem rat_sumZero : (Arith.sumZero : Rat) = 0 := rfl
@[simp] theorem rat_one : (Arith.one : Rat) = 1 := rfl
@[simp] theorem rat_hundredth : (Arith.hundredth : Rat) = 1 / 100 := rfl
@[simp] theorem rat_ofNat (n : Nat) : (Arith.ofNat n : Rat) = (n : Rat) := rfl
@[simp] theorem rat_add (a b : Rat) : Arith.add a b = a + b := rfl
@[simp] theorem rat_sub (a b : Rat) : Arith.sub a b = a - b := rfl
@[simp] theorem rat_mul (a b : Rat) : Arith.mul a b = a * b := rfl
@[simp] theorem rat_div (a b : Rat) : Arith.div a b = a / b := rfl
@[simp] theorem rat_beq (a b : Rat) : Arith.beq a b = decide (a = b) := rfl
@[simp] theorem rat_lt (a b : Rat) : Arith.lt a b = decide (a < b) := rfl
@[simp] theorem rat_le (a b : Rat) : Arith.le a b = decide (a ≤ b) := rfl
@[simp] theorem rat_abs (a : Rat) : Arith.abs a = |a| := by
  show (if a < 0 then -a else a) = |a|
  split
  · rw [abs_of_neg ‹_›]
  · rw [abs_of_nonneg (not_lt.mp ‹_›)]

theorem foldl_add_rat (l : List Nat) (f : Nat → Rat) (a : Rat) :
    l.foldl (fun acc j => acc + f j) a = a + (l.map f).sum := by
  induction l generalizing a with
  | nil => simp
  | cons x xs ih => simp only [List.foldl_cons, List.map_cons, List.sum_cons, ih]; ring

/-- over `Rat` the left fold of `iter().sum()` is the sum -/
theorem sumRange_rat (n : Nat) (f : Nat → Rat) : sumRange n f = ((List.range n).map f).sum := by
  unfold sumRange
  show List.foldl (fun acc j => acc + f j) 0 _ = _
  rw [foldl_add_rat]; simp

theorem sum_map_div (l : List Nat) (f : Nat → Rat) (t : Rat) :
    (l.map fun j => f j / t).sum = (l.map f).sum / t := by
  induction l with
  | nil => simp
  | cons x xs ih => simp only [List.map_cons, List.sum_cons, ih]; ring

/-- the row total `Σ_j (count[i][j] + pseudo[j])` -/
def rowTotal (c : Mat Nat K) (p : Nat → Rat) (i : Nat) : Rat :=
  ((List.range K).map fun j => (c.get i j : Rat) + p j).sum

theorem toFreq_rows {α : Type} [Arith α] (c : Mat Nat K) (p : Nat → α) :
    (toFreq c p).rows = c.rows := by simp [toFreq]

/-- **frequency = (count + pseudocount) / row total** (the guard `total ≠ 0` is the one the real
    code relies on: with a zero total the `f32` result is NaN) -/
theorem freq_eq (c : Mat Nat K) (p : Nat → Rat) (i j : Nat) (hi : i < c.rows) (hj : j < K)
    (_ht : rowTotal c p i ≠ 0) :
    (toFreq c p).get i j = ((c.get i j : Rat) + p j) / rowTotal c p i := by
  simp only [toFreq, Mat.get_ofFn, hi, hj, and_self, if_true]
  rw [sumRange_rat]
  rfl

/-- **every frequency row sums to one** -/
theorem freq_row_sum (c : Mat Nat K) (p : Nat → Rat) (i : Nat) (hi : i < c.rows)
    (ht : rowTotal c p i ≠ 0) :
    sumRange K ((toFreq c p).get i) = 1 := by
  rw [sumRange_rat]
  have : (List.range K).map ((toFreq c p).get i)
      = (List.range K).map (fun j => ((c.get i j : Rat) + p j) / rowTotal c p i) := by
    apply List.map_congr_left
    intro j hj
    exact freq_eq c p i j hi (List.mem_range.mp hj) ht
  rw [this, sum_map_div]
  exact div_self ht

/-- a frequency matrix produced by `to_freq` passes the validation of `FrequencyMatrix::new`
    (stated after `freqNew_ok_iff` below as `toFreq_valid`) -/
theorem weight_struct {α : Type} [Inhabited α] [Arith α] (m : Mat α K) (bg : Nat → α) (i j : Nat)
    (hi : i < m.rows) (hj : j < K) :
    (toWeight m bg).get i j =
      if Arith.beq (bg j) zero then zero else div (m.get i j) (bg j) := by
  simp [toWeight, hi, hj]

/-- **weight = frequency / background, and 0 where the background is 0** -/
theorem weight_rat (m : Mat Rat K) (bg : Nat → Rat) (i j : Nat) (hi : i < m.rows) (hj : j < K) :
    (bg j = 0 → (toWeight m bg).get i j = 0) ∧
    (bg j ≠ 0 → (toWeight m bg).get i j = m.get i j / bg j) := by
  rw [weight_struct m bg i j hi hj]
  constructor
  · intro h; simp [h]
  · intro h; simp [h]

/-- the two stages composed, from the counts -/
theorem weight_of_counts (c : Mat Nat K) (p bg : Nat → Rat) (i j : Nat) (hi : i < c.rows)
    (hj : j < K) (ht : rowTotal c p i ≠ 0) :
    (bg j = 0 → (toWeight (toFreq c p) bg).get i j = 0) ∧
    (bg j ≠ 0 → (toWeight (toFreq c p) bg).get i j
        = ((c.get i j : Rat) + p j) / rowTotal c p i / bg j) := by
  have h := weight_rat (toFreq c p) bg i j (by rw [toFreq_rows]; exact hi) hj
  rw [freq_eq c p i j hi hj ht] at h
  exact h

/-- `rescale` (after the fix): from odds against `old` to odds against `new`, zero where `new` is
    zero; where `old` is zero the information is gone (the odds stay zero) -/
theorem rescale_rat (f : Mat Rat K) (old new : Nat → Rat) (i j : Nat) (hi : i < f.rows)
    (hj : j < K) :
    (new j = 0 → (rescale (toWeight f old) old new).get i j = 0) ∧
    (new j ≠ 0 → old j ≠ 0 → (rescale (toWeight f old) old new).get i j = f.get i j / new j) := by
  have hw := weight_rat f old i j hi hj
  have hr : (toWeight f old).rows = f.rows := by simp [toWeight]
  unfold rescale
  by_cases hd : bgDiffers K new old = true
  · simp only [hd, if_true, Mat.get_ofFn, hr, hi, hj, and_self]
    constructor
    · intro h; simp [h]
    · intro h h'
      rw [hw.2 h']
      simp only [rat_beq, rat_zero, rat_mul, rat_div, h, decide_false, Bool.false_eq_true, if_false]
      field_simp
  · -- the backgrounds are equal on `0..K`
    have hd2 : bgDiffers K new old = false := by simpa using hd
    have hd' : (List.range K).all (fun j => Arith.beq (new j) (old j)) = true := by
      unfold bgDiffers at hd2; simpa using hd2
    have hj' : new j = old j := by
      have := (List.all_eq_true.mp hd') j (List.mem_range.mpr hj)
      simpa using this
    simp only [hd2, Bool.false_eq_true, if_false]
    constructor
    · intro h; exact hw.1 (hj' ▸ h)
    · intro _ h'; rw [hw.2 h', hj']

end exact

/-! ### (3) structural theorems: any carrier, no laws beyond the ones named -/

section structural
variable {α : Type} [Inhabited α] [Arith α] [Logs α] {K : Nat}

/-- the operation tree of the one-step route: `-∞` where the background is zero, `log2 (x / f)`
    elsewhere -/
theorem intoScoring_get (m : Mat α K) (bg : Nat → α) (i j : Nat) (hi : i < m.rows) (hj : j < K) :
    (intoScoring m bg).get i j =
      if Arith.beq (bg j) zero then negInf else log2 (div (m.get i j) (bg j)) := by
  simp [intoScoring, hi, hj]

/-- the operation tree of the two-step route in any base -/
theorem twoStep_get (m : Mat α K) (bg : Nat → α) (base : α) (i j : Nat) (hi : i < m.rows)
    (hj : j < K) :
    (toScoringWithBase (toWeight m bg) base).get i j =
      logBase base (if Arith.beq (bg j) zero then zero else div (m.get i j) (bg j)) := by
  simp [toScoringWithBase, toWeight, hi, hj]

/-- the base dispatch: `log2` for 2.0, `log10` for 10.0, `ln x / ln base` otherwise -/
theorem logBase_cases (base x : α) :
    (Arith.beq base (Arith.ofNat 2) = true → logBase base x = log2 x) ∧
    (Arith.beq base (Arith.ofNat 2) = false → Arith.beq base (Arith.ofNat 10) = true →
        logBase base x = log10 x) ∧
    (Arith.beq base (Arith.ofNat 2) = false → Arith.beq base (Arith.ofNat 10) = false →
        logBase base x = div (ln x) (ln base)) := by
  unfold logBase
  refine ⟨fun h => by simp [h], fun h h' => by simp [h, h'], fun h h' => by simp [h, h']⟩

/-- **one-step and two-step scoring are the same operation tree** `log2 (x / f)`: cell for cell
    the same expression over any carrier, given only that `2.0 == 2.0` and `log2 0.0 = -∞` (the
    value the zero-background convention of `to_weight` turns into under `log2`) -/
theorem oneStep_eq_twoStep (h2 : Arith.beq (Arith.ofNat 2 : α) (Arith.ofNat 2) = true)
    (hlog : log2 (zero : α) = negInf) (m : Mat α K) (bg : Nat → α) :
    intoScoring m bg = toScoring (toWeight m bg) := by
  apply Mat.ext
  · simp [intoScoring, toScoring, toScoringWithBase, toWeight]
  · intro i j hi hj
    have hi' : i < m.rows := by simpa [intoScoring] using hi
    unfold toScoring
    rw [intoScoring_get m bg i j hi' hj, twoStep_get m bg _ i j hi' hj, (logBase_cases _ _).1 h2]
    by_cases hb : Arith.beq (bg j) zero = true
    · simp [hb, hlog]
    · simp [hb]

/-- where the background is not zero the two routes are the same tree with no law at all -/
theorem oneStep_eq_twoStep_cell (h2 : Arith.beq (Arith.ofNat 2 : α) (Arith.ofNat 2) = true)
    (m : Mat α K) (bg : Nat → α) (i j : Nat) (hi : i < m.rows) (hj : j < K)
    (hb : Arith.beq (bg j) zero = false) :
    (intoScoring m bg).get i j = log2 (div (m.get i j) (bg j)) ∧
    (toScoring (toWeight m bg)).get i j = log2 (div (m.get i j) (bg j)) := by
  unfold toScoring
  rw [intoScoring_get m bg i j hi hj, twoStep_get m bg _ i j hi hj, (logBase_cases _ _).1 h2]
  simp [hb]

/-- **`-∞` exactly where the background is zero**, structurally: the constant `NEG_INFINITY` is
    stored in the cells of a zero-background column and in no other cell (every other cell holds
    `log2 (x / f)`) -/
theorem negInf_where_bg_zero (m : Mat α K) (bg : Nat → α) (i j : Nat) (hi : i < m.rows) (hj : j < K) :
    (Arith.beq (bg j) zero = true → (intoScoring m bg).get i j = negInf) ∧
    (Arith.beq (bg j) zero = false → (intoScoring m bg).get i j = log2 (div (m.get i j) (bg j))) := by
  rw [intoScoring_get m bg i j hi hj]
  exact ⟨fun h => by simp [h], fun h => by simp [h]⟩

/-- … and as an equivalence on values, for a carrier in which a logarithm is `-∞` only at zero and
    a quotient by a non-zero number is zero only for a zero numerator (both laws named, both true
    of the reals): a cell with a non-zero frequency scores `-∞` iff its background is zero -/
theorem negInf_iff_bg_zero
    (hlog : ∀ y : α, log2 y = negInf → y = zero)
    (hdiv : ∀ x f : α, Arith.beq f zero = false → div x f = zero → x = zero)
    (m : Mat α K) (bg : Nat → α) (i j : Nat) (hi : i < m.rows) (hj : j < K)
    (hx : m.get i j ≠ zero) :
    (intoScoring m bg).get i j = negInf ↔ Arith.beq (bg j) zero = true := by
  rw [intoScoring_get m bg i j hi hj]
  by_cases hb : Arith.beq (bg j) zero = true
  · simp [hb]
  · have hb' : Arith.beq (bg j) zero = false := by simpa using hb
    simp only [hb', Bool.false_eq_true, if_false, iff_false]
    intro h
    exact hx (hdiv _ _ hb' (hlog _ h))

end structural

/-! ### (4) validation (exact) -/

section validation
variable {K : Nat}

theorem bgNewLoop_ok (fs : List Rat) (s : Rat) (h : ∀ f ∈ fs, 0 ≤ f ∧ f ≤ 1) :
    bgNewLoop fs s = .ok (s + fs.sum) := by
  induction fs generalizing s with
  | nil => simp [bgNewLoop]
  | cons f fs ih =>
    have hf := h f (by simp)
    simp only [bgNewLoop, rat_le, rat_zero, rat_one, hf.1, hf.2, decide_true, Bool.and_self,
      Bool.not_true, Bool.false_eq_true, if_false, rat_add]
    rw [ih _ (fun g hg => h g (by simp [hg]))]
    simp only [List.sum_cons]
    congr 1; ring

theorem bgNewLoop_err (fs : List Rat) (s : Rat) (h : ∃ f ∈ fs, ¬ (0 ≤ f ∧ f ≤ 1)) :
    bgNewLoop fs s = .error () := by
  induction fs generalizing s with
  | nil => simp at h
  | cons f fs ih =>
    by_cases hf : 0 ≤ f ∧ f ≤ 1
    · simp only [bgNewLoop, rat_le, rat_zero, rat_one, hf.1, hf.2, decide_true, Bool.and_self,
        Bool.not_true, Bool.false_eq_true, if_false]
      apply ih
      rcases h with ⟨g, hg, hn⟩
      rcases List.mem_cons.mp hg with rfl | hg'
      · exact absurd hf hn
      · exact ⟨g, hg', hn⟩
    · have : (decide (0 ≤ f) && decide (f ≤ 1)) = false := by
        by_cases h0 : 0 ≤ f
        · have : ¬ f ≤ 1 := fun h1 => hf ⟨h0, h1⟩
          simp [h0, this]
        · simp [h0]
      simp [bgNewLoop, this]

/-- **`Background::new` accepts exactly the vectors with every entry in [0,1] and sum one** -/
theorem bgNew_ok_iff (fs : List Rat) :
    bgNew fs = .ok fs ↔ (∀ f ∈ fs, 0 ≤ f ∧ f ≤ 1) ∧ fs.sum = 1 := by
  by_cases h : ∀ f ∈ fs, 0 ≤ f ∧ f ≤ 1
  · unfold bgNew
    rw [bgNewLoop_ok fs _ h]
    by_cases hs : fs.sum = 1
    · simp [hs]; exact h
    · simp [hs]
  · have h' : ∃ f ∈ fs, ¬ (0 ≤ f ∧ f ≤ 1) := by
      simpa [Classical.not_forall] using h
    unfold bgNew
    rw [bgNewLoop_err fs _ h']
    simp [h]

/-- … and rejects (`InvalidData`) everything else -/
theorem bgNew_err_iff (fs : List Rat) :
    bgNew fs = .error () ↔ ¬ ((∀ f ∈ fs, 0 ≤ f ∧ f ≤ 1) ∧ fs.sum = 1) := by
  rw [← bgNew_ok_iff]
  unfold bgNew
  cases bgNewLoop fs zero with
  | error e => simp
  | ok s => by_cases hs : Arith.beq s one = true <;> simp [hs]

/-- **`FrequencyMatrix::new` accepts exactly the matrices whose every row is within 0.01 of one** -/
theorem freqNew_ok_iff (data : Mat Rat K) :
    freqNew data = .ok data ↔
      ∀ i, i < data.rows → |((List.range K).map (data.get i)).sum - 1| < 1 / 100 := by
  unfold freqNew
  have key : (List.range data.rows).all
      (fun i => Arith.lt (Arith.abs (sub (sumRange K (data.get i)) one)) hundredth) = true ↔
      ∀ i, i < data.rows → |((List.range K).map (data.get i)).sum - 1| < 1 / 100 := by
    rw [List.all_eq_true]
    constructor
    · intro h i hi
      have := h i (List.mem_range.mpr hi)
      rw [sumRange_rat] at this
      simpa using this
    · intro h i hi
      have := h i (List.mem_range.mp hi)
      rw [sumRange_rat]
      simpa using this
  by_cases h : (List.range data.rows).all
      (fun i => Arith.lt (Arith.abs (sub (sumRange K (data.get i)) one)) hundredth) = true
  · simp only [h, if_true, true_iff]; exact key.mp h
  · simp only [h, Bool.false_eq_true, if_false]
    constructor
    · intro h'; cases h'
    · intro h'; exact absurd (key.mpr h') h

theorem freqNew_err_iff (data : Mat Rat K) :
    freqNew data = .error () ↔
      ∃ i, i < data.rows ∧ ¬ |((List.range K).map (data.get i)).sum - 1| < 1 / 100 := by
  have := freqNew_ok_iff data
  unfold freqNew at *
  by_cases h : (List.range data.rows).all
      (fun i => Arith.lt (Arith.abs (sub (sumRange K (data.get i)) one)) hundredth) = true
  · simp only [h, if_true, true_iff] at this
    simp only [h, if_true]
    constructor
    · intro h'; cases h'
    · rintro ⟨i, hi, hn⟩; exact absurd (this i hi) hn
  · simp only [h, Bool.false_eq_true, if_false] at this ⊢
    simp only [true_iff]
    apply Classical.byContradiction
    intro hn
    have h' := this.mpr (fun i hi => by
      apply Classical.byContradiction
      intro hlt
      exact hn ⟨i, hi, hlt⟩)
    cases h'

/-- what `to_freq` produces is a valid frequency matrix (every row total non-zero) -/
theorem toFreq_valid (c : Mat Nat K) (p : Nat → Rat) (ht : ∀ i, i < c.rows → rowTotal c p i ≠ 0) :
    freqNew (toFreq c p) = .ok (toFreq c p) := by
  rw [freqNew_ok_iff]
  intro i hi
  rw [toFreq_rows] at hi
  rw [← sumRange_rat, freq_row_sum c p i hi (ht i hi)]
  norm_num

/- non-vacuity -/
example : bgNew [(1 : Rat) / 4, 1 / 4, 1 / 2, 0, 0] = .ok [1 / 4, 1 / 4, 1 / 2, 0, 0] := by
  rw [bgNew_ok_iff]; refine ⟨?_, by norm_num⟩
  intro f hf
  simp only [List.mem_cons, List.mem_nil_iff, or_false] at hf
  rcases hf with rfl | rfl | rfl | rfl | rfl <;> norm_num
example : bgNew [(3 : Rat) / 4, 1 / 2, -1 / 4, 0, 0] = .error () := by
  rw [bgNew_err_iff]; intro hh; have := hh.1 (-1 / 4) (by simp); norm_num at this
example : bgNew [(1 : Rat) / 4, 1 / 4, 1 / 4, 0, 0] = .error () := by
  rw [bgNew_err_iff]; intro hh; have := hh.2; norm_num at this

end validation

/-! ### (5) exact: every window without wildcard scores between `min_score` and `max_score` -/

section bounds
variable {K : Nat}

theorem pcmp_rat (a b : Rat) :
    pcmp a b = some (if a < b then .lt else if a = b then .eq else .gt) := by
  unfold pcmp
  simp only [rat_lt, rat_beq, decide_eq_true_eq]
  by_cases h1 : a < b
  · simp [h1]
  · by_cases h2 : a = b
    · simp [h2]
    · have : b < a := lt_of_le_of_ne (not_lt.mp h1) (fun h => h2 h.symm)
      simp [h1, h2, this]

/-- `min_by` over `Rat` never panics and returns a lower bound of the slice -/
theorem reduceBy_min (x : Rat) (ys : List Rat) :
    ∃ v, reduceBy minKeepY x ys = .ok v ∧ v ≤ x ∧ ∀ y ∈ ys, v ≤ y := by
  induction ys generalizing x with
  | nil => exact ⟨x, rfl, le_refl _, by simp⟩
  | cons y ys ih =>
    simp only [reduceBy, pcmp_rat]
    by_cases h1 : x < y
    · have ⟨v, e, hv, hall⟩ := ih x
      refine ⟨v, by simpa [h1, minKeepY] using e, hv, ?_⟩
      intro w hw
      rcases List.mem_cons.mp hw with rfl | hw'
      · exact le_trans hv (le_of_lt h1)
      · exact hall w hw'
    · by_cases h2 : x = y
      · have ⟨v, e, hv, hall⟩ := ih x
        refine ⟨v, by simpa [h1, h2, minKeepY] using e, hv, ?_⟩
        intro w hw
        rcases List.mem_cons.mp hw with rfl | hw'
        · rw [← h2]; exact hv
        · exact hall w hw'
      · have ⟨v, e, hv, hall⟩ := ih y
        refine ⟨v, by simpa [h1, h2, minKeepY] using e, le_trans hv (not_lt.mp h1), ?_⟩
        intro w hw
        rcases List.mem_cons.mp hw with rfl | hw'
        · exact hv
        · exact hall w hw'

/-- `max_by` over `Rat` never panics and returns an upper bound of the slice -/
theorem reduceBy_max (x : Rat) (ys : List Rat) :
    ∃ v, reduceBy maxKeepY x ys = .ok v ∧ x ≤ v ∧ ∀ y ∈ ys, y ≤ v := by
  induction ys generalizing x with
  | nil => exact ⟨x, rfl, le_refl _, by simp⟩
  | cons y ys ih =>
    simp only [reduceBy, pcmp_rat]
    by_cases h1 : x < y
    · have ⟨v, e, hv, hall⟩ := ih y
      refine ⟨v, by simpa [h1, maxKeepY] using e, le_trans (le_of_lt h1) hv, ?_⟩
      intro w hw
      rcases List.mem_cons.mp hw with rfl | hw'
      · exact hv
      · exact hall w hw'
    · by_cases h2 : x = y
      · have ⟨v, e, hv, hall⟩ := ih y
        refine ⟨v, by simpa [h1, h2, maxKeepY] using e, by rw [h2]; exact hv, ?_⟩
        intro w hw
        rcases List.mem_cons.mp hw with rfl | hw'
        · exact hv
        · exact hall w hw'
      · have ⟨v, e, hv, hall⟩ := ih x
        refine ⟨v, by simpa [h1, h2, maxKeepY] using e, hv, ?_⟩
        intro w hw
        rcases List.mem_cons.mp hw with rfl | hw'
        · exact le_trans (not_lt.mp h1) hv
        · exact hall w hw'

/-- the row minimum over the non-wildcard columns: no panic (`K ≥ 2`), a lower bound of every
    non-wildcard entry of the row -/
theorem rowMin_le (m : Mat Rat K) (i : Nat) (hK : 2 ≤ K) :
    ∃ v, rowExt minKeepY m i = .ok v ∧ ∀ a, a < K - 1 → v ≤ m.get i a := by
  unfold rowExt
  have hne : (List.range (K - 1)).map (m.get i) ≠ [] := by
    intro h
    have := congrArg List.length h
    simp at this; omega
  have hmem : ∀ a, a < K - 1 → m.get i a ∈ (List.range (K - 1)).map (m.get i) :=
    fun a ha => List.mem_map.mpr ⟨a, List.mem_range.mpr ha, rfl⟩
  revert hmem
  cases hl : (List.range (K - 1)).map (m.get i) with
  | nil => exact absurd hl hne
  | cons x xs =>
    intro hmem
    have ⟨v, e, hv, hall⟩ := reduceBy_min x xs
    refine ⟨v, e, fun a ha => ?_⟩
    rcases List.mem_cons.mp (hmem a ha) with h | h
    · rw [h]; exact hv
    · exact hall _ h

theorem rowMax_ge (m : Mat Rat K) (i : Nat) (hK : 2 ≤ K) :
    ∃ v, rowExt maxKeepY m i = .ok v ∧ ∀ a, a < K - 1 → m.get i a ≤ v := by
  unfold rowExt
  have hne : (List.range (K - 1)).map (m.get i) ≠ [] := by
    intro h
    have := congrArg List.length h
    simp at this; omega
  have hmem : ∀ a, a < K - 1 → m.get i a ∈ (List.range (K - 1)).map (m.get i) :=
    fun a ha => List.mem_map.mpr ⟨a, List.mem_range.mpr ha, rfl⟩
  revert hmem
  cases hl : (List.range (K - 1)).map (m.get i) with
  | nil => exact absurd hl hne
  | cons x xs =>
    intro hmem
    have ⟨v, e, hv, hall⟩ := reduceBy_max x xs
    refine ⟨v, e, fun a ha => ?_⟩
    rcases List.mem_cons.mp (hmem a ha) with h | h
    · rw [h]; exact hv
    · exact hall _ h

/-- summing per-row values that are below (above) the terms of another left fold -/
theorem sumRows_le (g : Nat → Except String Rat) (w : Nat → Rat) (l : List Nat) (acc acc' : Rat)
    (hg : ∀ i ∈ l, ∃ v, g i = .ok v ∧ v ≤ w i) (hacc : acc ≤ acc') :
    ∃ lo, sumRows g l acc = .ok lo ∧ lo ≤ l.foldl (fun a i => a + w i) acc' := by
  induction l generalizing acc acc' with
  | nil => exact ⟨acc, rfl, hacc⟩
  | cons i is ih =>
    have ⟨v, e, hv⟩ := hg i (by simp)
    simp only [sumRows, e, List.foldl_cons, rat_add]
    exact ih _ _ (fun k hk => hg k (by simp [hk])) (by linarith)

theorem sumRows_ge (g : Nat → Except String Rat) (w : Nat → Rat) (l : List Nat) (acc acc' : Rat)
    (hg : ∀ i ∈ l, ∃ v, g i = .ok v ∧ w i ≤ v) (hacc : acc' ≤ acc) :
    ∃ hi, sumRows g l acc = .ok hi ∧ l.foldl (fun a i => a + w i) acc' ≤ hi := by
  induction l generalizing acc acc' with
  | nil => exact ⟨acc, rfl, hacc⟩
  | cons i is ih =>
    have ⟨v, e, hv⟩ := hg i (by simp)
    simp only [sumRows, e, List.foldl_cons, rat_add]
    exact ih _ _ (fun k hk => hg k (by simp [hk])) (by linarith)

/-- **every window without wildcard scores between the reported minimum and maximum**: in exact
    arithmetic `min_score` and `max_score` do not panic and bracket `score_position` for every
    sequence whose window at `pos` contains no wildcard (symbols `< K-1`) -/
theorem min_le_score_le_max (m : Mat Rat K) (hK : 2 ≤ K) (seq : Nat → Nat) (pos : Nat)
    (hwin : ∀ j, j < m.rows → seq (pos + j) < K - 1) :
    ∃ lo hi, minScore m = .ok lo ∧ maxScore m = .ok hi ∧
      lo ≤ scorePosition m seq pos ∧ scorePosition m seq pos ≤ hi := by
  have hlo := sumRows_le (rowExt minKeepY m) (fun j => m.get j (seq (pos + j)))
    (List.range m.rows) 0 0
    (fun i hi => by
      have ⟨v, e, hv⟩ := rowMin_le m i hK
      exact ⟨v, e, hv _ (hwin i (List.mem_range.mp hi))⟩) (le_refl _)
  have hhi := sumRows_ge (rowExt maxKeepY m) (fun j => m.get j (seq (pos + j)))
    (List.range m.rows) 0 0
    (fun i hi => by
      have ⟨v, e, hv⟩ := rowMax_ge m i hK
      exact ⟨v, e, hv _ (hwin i (List.mem_range.mp hi))⟩) (le_refl _)
  rcases hlo with ⟨lo, e1, h1⟩
  rcases hhi with ⟨hi, e2, h2⟩
  exact ⟨lo, hi, e1, e2, h1, h2⟩

/-- the window score is the sum of the entries the window selects (exact) -/
theorem scorePosition_rat (m : Mat Rat K) (seq : Nat → Nat) (pos : Nat) :
    scorePosition m seq pos = ((List.range m.rows).map fun j => m.get j (seq (pos + j))).sum := by
  unfold scorePosition
  show List.foldl (fun acc j => acc + m.get j (seq (pos + j))) 0 _ = _
  rw [foldl_add_rat]; simp

/- non-vacuity: a 2×5 matrix, the window `[1, 3]` of `[0, 1, 3]`: -2 ≤ -1 ≤ 4 -/
def exS : Mat Rat 5 := Mat.ofFn 2 fun i j => if i = 0 then ((j : Nat) : Rat) - 1 else 2 - (j : Nat)

example : ∃ lo hi, minScore exS = .ok lo ∧ maxScore exS = .ok hi ∧
    lo ≤ scorePosition exS (fun k => [0, 1, 3].getD k 0) 1 ∧
    scorePosition exS (fun k => [0, 1, 3].getD k 0) 1 ≤ hi :=
  min_le_score_le_max exS (by norm_num) _ 1 (by
    intro j hj
    have : j < 2 := by simpa [exS] using hj
    have : j = 0 ∨ j = 1 := by omega
    rcases this with rfl | rfl <;> decide)

example :
    minScore exS = .ok (-2) ∧ maxScore exS = .ok 4 ∧
    scorePosition exS (fun k => [0, 1, 3].getD k 0) 1 = -1 := by
  decide +kernel

end bounds

/-! ### (6) backgrounds, pseudocounts and symbol counts -/

section background

/-- the tie to the regenerated alphabet tables: `symbols()` enumerates `0..K` in order and the
    wildcard (default symbol) is the last one, for both alphabets -/
theorem tables_symbols :
    dna.symbols = List.range dna.K ∧ dna.dflt = dna.K - 1 ∧ 2 ≤ dna.K ∧
    protein.symbols = List.range protein.K ∧ protein.dflt = protein.K - 1 ∧ 2 ≤ protein.K := by
  decide +kernel

theorem natSum_eq (n : Nat) (f : Nat → Nat) : natSum n f = ((List.range n).map f).sum := by
  unfold natSum
  have : ∀ (l : List Nat) (a : Nat), l.foldl (fun acc j => acc + f j) a = a + (l.map f).sum := by
    intro l
    induction l with
    | nil => simp
    | cons x xs ih => intro a; simp only [List.foldl_cons, List.map_cons, List.sum_cons, ih]; omega
  rw [this]; simp

/-- `count_symbols` (one pass, `counts[c] += 1`) equals `count_symbol` for every symbol -/
theorem countSymbolsFn_eq (seq : List Nat) (j : Nat) : countSymbolsFn seq j = countSymbol seq j := by
  unfold countSymbolsFn countSymbol
  have : ∀ (l : List Nat) (init : Nat → Nat),
      l.foldl (fun cnt c => fun j => if j = c then cnt j + 1 else cnt j) init j
        = init j + (l.filter (· == j)).length := by
    intro l
    induction l with
    | nil => simp
    | cons c cs ih =>
      intro init
      simp only [List.foldl_cons, ih, List.filter_cons]
      by_cases h : j = c
      · subst h; simp; omega
      · have : ¬ c = j := fun e => h e.symm
        simp [h, this]
  rw [this]; simp

theorem countSymbols_eq (K : Nat) (seq : List Nat) :
    countSymbols K seq = (List.range K).map (countSymbol seq) := by
  unfold countSymbols
  apply List.map_congr_left
  intro j _
  exact countSymbolsFn_eq seq j

/-- `Background::from_counts` rejects exactly the all-zero count vector … -/
theorem bgFromCounts_err_iff (K : Nat) (counts : Nat → Nat) :
    bgFromCounts (α := Rat) K counts = .error () ↔ ((List.range K).map counts).sum = 0 := by
  unfold bgFromCounts
  rw [natSum_eq]
  by_cases h : ((List.range K).map counts).sum = 0 <;> simp [h]

/-- … and otherwise returns `counts[j] / total`, a vector that `Background::new` accepts (every
    entry in [0,1], sum one) -/
theorem bgFromCounts_ok (K : Nat) (counts : Nat → Nat) (h : ((List.range K).map counts).sum ≠ 0) :
    ∃ l : List Rat, bgFromCounts K counts = .ok l ∧ l.length = K ∧
      (∀ j, j < K → l.getD j 0 = (counts j : Rat) / (((List.range K).map counts).sum : Nat)) ∧
      bgNew l = .ok l := by
  let total : Nat := ((List.range K).map counts).sum
  have htot : (total : Rat) ≠ 0 := by exact_mod_cast h
  have hpos : (0 : Rat) < total := by
    have : 0 < total := Nat.pos_of_ne_zero h
    exact_mod_cast this
  refine ⟨(List.range K).map fun j => (counts j : Rat) / (total : Rat), ?_, by simp, ?_, ?_⟩
  · unfold bgFromCounts
    rw [natSum_eq]
    simp only [h, if_false]
    rfl
  · intro j hj
    simp [List.getD_eq_getElem?_getD, hj, total]
  · rw [bgNew_ok_iff]
    constructor
    · intro f hf
      rcases List.mem_map.mp hf with ⟨j, hj, rfl⟩
      have hle : counts j ≤ total := by
        have : counts j ∈ (List.range K).map counts := List.mem_map.mpr ⟨j, hj, rfl⟩
        exact List.single_le_sum (fun x _ => Nat.zero_le x) _ this
      have hle' : (counts j : Rat) ≤ total := by exact_mod_cast hle
      constructor
      · exact div_nonneg (by exact_mod_cast Nat.zero_le _) (le_of_lt hpos)
      · rw [div_le_one hpos]; exact hle'
    · rw [sum_map_div]
      have : ((List.range K).map fun j => (counts j : Rat)).sum = (total : Rat) := by
        show _ = ((((List.range K).map counts).sum : Nat) : Rat)
        induction (List.range K) with
        | nil => simp
        | cons x xs ih => simp only [List.map_cons, List.sum_cons, ih]; push_cast; ring
      rw [this]
      exact div_self htot

/-- `from_sequence` counts every symbol but (unless asked to) the wildcard, then normalises -/
theorem bgFromSequence_eq (K dflt : Nat) (seq : List Nat) (unknown : Bool) :
    bgFromSequence (α := Rat) K dflt seq unknown
      = bgFromCounts K (fun c => if unknown || c != dflt then countSymbol seq c else 0) := rfl

/-- `from_sequences` is `from_sequence` of the concatenation -/
theorem bgFromSequences_eq (K dflt : Nat) (seqs : List (List Nat)) (unknown : Bool) :
    bgFromSequences (α := Rat) K dflt seqs unknown = bgFromSequence K dflt seqs.flatten unknown := by
  unfold bgFromSequences bgFromSequence
  congr 1
  funext c
  have : ∀ (l : List (List Nat)) (init : Nat → Nat),
      l.foldl (fun cnt seq => fun c => if unknown || c != dflt then cnt c + countSymbol seq c else cnt c)
        init c = if unknown || c != dflt then init c + countSymbol l.flatten c else init c := by
    intro l
    induction l with
    | nil => intro init; simp [countSymbol]
    | cons x xs ih =>
      intro init
      simp only [List.foldl_cons, ih, List.flatten_cons]
      by_cases h : (unknown || c != dflt) = true
      · simp only [h, if_true, countSymbol, List.filter_append, List.length_append]; omega
      · simp [h]
  rw [this]
  by_cases h : (unknown || c != dflt) = true <;> simp [h]

/-- the uniform background is a valid background -/
theorem bgUniform_valid (K : Nat) (hK : 2 ≤ K) :
    bgNew (bgUniform (α := Rat) K (K - 1)) = .ok (bgUniform K (K - 1)) := by
  rw [bgNew_ok_iff]
  have hpos : (0 : Rat) < ((K - 1 : Nat) : Rat) := by
    have : 0 < K - 1 := by omega
    exact_mod_cast this
  constructor
  · intro f hf
    unfold bgUniform at hf
    rcases List.mem_map.mp hf with ⟨i, _, rfl⟩
    by_cases h : (i != K - 1) = true
    · simp only [h, if_true, rat_div, rat_one, rat_ofNat]
      constructor
      · exact div_nonneg (by norm_num) (le_of_lt hpos)
      · rw [div_le_one hpos]
        have : 1 ≤ K - 1 := by omega
        exact_mod_cast this
    · simp [h]
  · unfold bgUniform
    obtain ⟨n, rfl⟩ : ∃ n, K = n + 1 := ⟨K - 1, by omega⟩
    simp only [Nat.add_sub_cancel] at hpos ⊢
    rw [List.range_succ, List.map_append, List.sum_append]
    have h1 : (List.range n).map (fun i => if (i != n) = true then div (one : Rat) (Arith.ofNat n) else zero)
        = (List.range n).map (fun _ => (1 : Rat) / (n : Rat)) := by
      apply List.map_congr_left
      intro i hi
      have : i ≠ n := by have := List.mem_range.mp hi; omega
      simp [this]
    rw [h1]
    simp only [List.map_const', List.length_range, List.sum_replicate, List.map_cons, List.map_nil,
      bne_self_eq_false, Bool.false_eq_true, if_false, List.sum_cons, List.sum_nil, rat_zero,
      nsmul_eq_mul]
    field_simp
    ring

/-- a scalar pseudocount applies to every symbol but the wildcard -/
theorem pseudoUniform_get (K dflt : Nat) (c : Rat) (j : Nat) (hj : j < K) :
    fnOf (pseudoUniform K dflt c) j = if j = dflt then 0 else c := by
  unfold fnOf pseudoUniform
  simp only [List.getD_eq_getElem?_getD, List.getElem?_map, List.getElem?_range hj, Option.map_some,
    Option.getD_some]
  by_cases h : j = dflt <;> simp [h]

/-- the guard `row total ≠ 0` holds as soon as the pseudocounts are non-negative and one cell of
    the row has a positive count or pseudocount -/
theorem rowTotal_ne_zero {K : Nat} (c : Mat Nat K) (p : Nat → Rat) (i : Nat)
    (hp : ∀ j, j < K → 0 ≤ p j) (hpos : ∃ j, j < K ∧ 0 < (c.get i j : Rat) + p j) :
    rowTotal c p i ≠ 0 := by
  rcases hpos with ⟨j, hj, h⟩
  have hmem : (c.get i j : Rat) + p j ∈ (List.range K).map fun j => (c.get i j : Rat) + p j :=
    List.mem_map.mpr ⟨j, List.mem_range.mpr hj, rfl⟩
  have hnn : ∀ x ∈ (List.range K).map (fun j => (c.get i j : Rat) + p j), 0 ≤ x := by
    intro x hx
    rcases List.mem_map.mp hx with ⟨k, hk, rfl⟩
    exact add_nonneg (by exact_mod_cast Nat.zero_le _) (hp k (List.mem_range.mp hk))
  have := List.single_le_sum hnn _ hmem
  unfold rowTotal
  linarith

/- non-vacuity: the README motif's first column (counts 0 0 0 2 0, pseudocount 0.1, uniform bg) -/
def exC : Mat Nat 5 := Mat.ofFn 1 fun _ j => if j = 3 then 2 else 0
def exP : Nat → Rat := fnOf (pseudoUniform 5 4 (1 / 10))

example : rowTotal exC exP 0 = 12 / 5 ∧ rowTotal exC exP 0 ≠ 0 ∧
    (toFreq exC exP).get 0 3 = 7 / 8 ∧ (toFreq exC exP).get 0 0 = 1 / 24 ∧
    (toWeight (toFreq exC exP) (fnOf (bgUniform 5 4))).get 0 3 = 7 / 2 ∧
    (toWeight (toFreq exC exP) (fnOf (bgUniform 5 4))).get 0 4 = 0 ∧
    sumRange 5 ((toFreq exC exP).get 0) = 1 := by
  decide +kernel

end background

/-! ### (7) from sequences to frequencies: the row total is `n + Σ pseudo` -/

section chain
variable {K : Nat}

theorem sum_ite_eq_range (K x : Nat) (hx : x < K) :
    ((List.range K).map fun a => if x = a then 1 else 0).sum = 1 := by
  induction K with
  | zero => omega
  | succ n ih =>
    rw [List.range_succ, List.map_append, List.sum_append]
    by_cases h : x = n
    · subst h
      have : ((List.range x).map fun a => if x = a then 1 else 0) = (List.range x).map fun _ => 0 := by
        apply List.map_congr_left
        intro a ha
        have : x ≠ a := by have := List.mem_range.mp ha; omega
        simp [this]
      rw [this]; simp
    · rw [ih (by omega)]; simp [h]

/-- every position of an aligned set is counted exactly once per sequence: the counts of row `i`
    sum to the number of sequences -/
theorem colCount_row_sum (seqs : List (List Nat)) (i : Nat)
    (h : ∀ s ∈ seqs, ∃ x, s[i]? = some x ∧ x < K) :
    ((List.range K).map (colCount seqs i)).sum = seqs.length := by
  induction seqs with
  | nil =>
    have : (List.range K).map (colCount [] i) = (List.range K).map fun _ => 0 := by
      apply List.map_congr_left; intro a _; rfl
    rw [this]; simp
  | cons s rest ih =>
    have ⟨x, hx, hxK⟩ := h s (by simp)
    have e : (List.range K).map (colCount (s :: rest) i)
        = (List.range K).map (fun a => (if x = a then 1 else 0) + colCount rest i a) := by
      apply List.map_congr_left
      intro a _
      rw [colCount_cons, hx]
      simp
    rw [e, List.sum_map_add, sum_ite_eq_range K x hxK, ih (fun t ht => h t (by simp [ht]))]
    simp; omega

/-- **from aligned sequences to frequencies**: with `n` equal-length sequences over the alphabet,
    the frequency of symbol `a` at position `i` is
    `(#sequences with a at i + pseudo[a]) / (n + Σ pseudo)` -/
theorem freq_of_sequences (seqs : List (List Nat)) (p : Nat → Rat)
    (hsym : ∀ s ∈ seqs, ∀ x ∈ s, x < K) (hlen : ∀ s ∈ seqs, s.length = firstLen seqs)
    (hden : (seqs.length : Rat) + ((List.range K).map p).sum ≠ 0) :
    ∃ c, fromSequences (K := K) seqs = .ok c ∧
      ∀ i a, i < firstLen seqs → a < K →
        (toFreq c.data p).get i a
          = ((colCount seqs i a : Rat) + p a) / ((seqs.length : Rat) + ((List.range K).map p).sum) := by
  have ⟨c, hc, _, hrows, hget⟩ := fromSequences_ok seqs hsym hlen
  refine ⟨c, hc, ?_⟩
  intro i a hi ha
  have htot : rowTotal c.data p i = (seqs.length : Rat) + ((List.range K).map p).sum := by
    unfold rowTotal
    have e : (List.range K).map (fun j => (c.data.get i j : Rat) + p j)
        = (List.range K).map (fun j => ((colCount seqs i j : Nat) : Rat) + p j) := by
      apply List.map_congr_left
      intro j hj
      rw [hget i j hi (List.mem_range.mp hj)]
    rw [e, List.sum_map_add]
    congr 1
    have := colCount_row_sum (K := K) seqs i (fun s hs => by
      have hl : i < s.length := by rw [hlen s hs]; exact hi
      exact ⟨s[i], by simp [hl], hsym s hs _ (List.getElem_mem _)⟩)
    rw [← this]
    induction (List.range K) with
    | nil => simp
    | cons x xs ih => simp only [List.map_cons, List.sum_cons, ih]; push_cast; ring
  rw [freq_eq c.data p i a (by rw [hrows]; exact hi) ha (by rw [htot]; exact hden), htot,
    hget i a hi ha]

end chain

end C09
end LMV
