/-
  C01 — Every backend computes the defined PSSM score at every position.

  Layout of this file
    §A  the definition: `windowScore` (the scalar-order sum of one window), over any carrier
    §B  the generic backend computes it: cells of any row range, `unstripe` of a full scan,
        `score_position`; no panic                                   (theorem groups (3) and (6))
    §C  exact arithmetic: the scalar-order sum IS the sum, and is ⊥ iff a term is   (group (4))
    §D  the SIMD backends equal the generic backend, cell for cell, over any carrier:
        AVX2 permute / gather / u8 shuffle with NO law about `add`                    (group (1))
        SSE2 with the single law `add x zero = x`; every dispatcher arm              (group (2))
    §E  every pipeline computes the window score (composition of §B and §D), no panic (group (6))
    §F  the rounding-error lemma for a left fold                                     (group (5))
    §G  non-vacuity
-/
import LMV.Lemmas.Score
import LMV.Lemmas.ScoreAvx2
import LMV.Lemmas.ScoreSse2
import LMV.Props.C04
import Mathlib.Algebra.Ring.Rat
import Mathlib.Algebra.Order.Monoid.Unbundled.WithTop
import Mathlib.Algebra.Order.Ring.Abs
import Mathlib.Algebra.Order.Field.Rat
import Mathlib.Tactic.Ring
import Mathlib.Tactic.Linarith
import Mathlib.Tactic.GCongr

namespace LMV
namespace C01

open Score Striped C04

variable {α : Type} {C K : Nat}

/-! ## §A  the definition -/

/-- the score of the window starting at position `i` of the sequence `s` (read with the wildcard
    `N` past its end), in scalar order: `((zero + m[0][s⟦i⟧]) + m[1][s⟦i+1⟧]) + … + m[M-1][s⟦i+M-1⟧]`.
    Nothing is assumed about `add`: for `f32` this is the IEEE sum as executed, including `-inf`. -/
def windowScore (zero : α) (add : α → α → α) (pssm : Mat α K) (N : Nat) (s : List Nat) (i : Nat) : α :=
  cellSum zero add pssm fun j => pad N s (i + j)

/-- the same thing as a left fold over the list of terms -/
theorem windowScore_eq_foldl (zero : α) (add : α → α → α) (pssm : Mat α K) (N : Nat) (s : List Nat)
    (i : Nat) :
    windowScore zero add pssm N s i =
      List.foldl add zero ((List.range pssm.rows).map fun j => pssm.getD j (pad N s (i + j)) zero) := by
  unfold windowScore cellSum
  rw [List.foldl_map]

theorem cellSum_congr (zero : α) (add : α → α → α) (pssm : Mat α K) (f g : Nat → Nat)
    (h : ∀ j, j < pssm.rows → f j = g j) : cellSum zero add pssm f = cellSum zero add pssm g := by
  unfold cellSum
  apply foldl_ext_mem'
  intro v j hj
  rw [h j (List.mem_range.mp hj)]

theorem pad_lt (N : Nat) (s : List Nat) (hs : ∀ x ∈ s, x < K) (hN : N < K) (p : Nat) : pad N s p < K := by
  unfold pad
  by_cases h : p < s.length
  · have : s.getD p N = s[p] := by simp [List.getD, List.getElem?_eq_getElem h]
    rw [this]; exact hs _ (List.getElem_mem h)
  · rw [getD_of_le s p N (by omega)]; exact hN

/-! ## §B  the generic backend -/

/-- **C01 (3a) + (6), generic backend.**  Under the striping invariant of C04 (established by
    `stripe_into` on any backend and preserved by every `configure`/`configure_wrap` history), with
    at least `M − 1` wrap rows and a row range ending inside the sequence rows, the trait-default
    `score_rows_into` does not panic, and
      * yields no rows and `max_index = 0` when `L < M` or the range is empty,
      * otherwise `b − a` rows, `max_index = L + 1 − M`, and cell `(r − a, c)` holds the scalar-order
        score of the window at position `c·R + r` — for EVERY carrier and `add` (no law used). -/
theorem scoreRowsGeneric_spec (_hC : 0 < C) (zero : α) (add : α → α → α) (pssm : Mat α K) (N : Nat)
    (seq : Striped C) (s : List Nat) (inv : Inv N seq s) (hs : ∀ x ∈ s, x < K) (hN : N < K)
    (hW : pssm.rows - 1 ≤ seq.wrap) (a b : Nat) (hb : b ≤ seqRowsOf C s.length) (sc0 : Scores α C) :
    ∃ sc, scoreRowsGeneric zero add pssm seq a b sc0 = .ok sc ∧
      if s.length < pssm.rows ∨ b ≤ a then sc.data.rows = 0 ∧ sc.maxIndex = 0
      else sc.data.rows = b - a ∧ sc.maxIndex = s.length + 1 - pssm.rows ∧
        ∀ r c, a ≤ r → r < b → c < C →
          sc.data.getD (r - a) c zero = windowScore zero add pssm N s (c * seqRowsOf C s.length + r) := by
  unfold scoreRowsGeneric
  rw [inv.len]
  by_cases hexit : s.length < pssm.rows ∨ b ≤ a
  · rw [if_pos hexit]
    refine ⟨_, rfl, ?_⟩
    rw [if_pos hexit]
    exact ⟨by simp [resize], rfl⟩
  · rw [if_neg hexit]
    have hok : ∀ k j col, k < b - a → j < pssm.rows → col < C →
        a + k + j < seq.data.rows ∧ seq.data.getD (a + k + j) col 0 < K := by
      intro k j col hk hj hcol
      have hrow : a + k + j < seqRowsOf C s.length + seq.wrap := by omega
      refine ⟨by rw [inv.rows]; exact hrow, ?_⟩
      have := inv.cell (a + k + j) col hrow hcol
      have e : seq.data.getD (a + k + j) col 0 = seq.data.get (a + k + j) col := rfl
      rw [e, this]
      exact pad_lt N s hs hN _
    simp only [resize]
    rw [rowsGeneric_ok zero add pssm seq.data a (b - a) _ hok]
    refine ⟨_, rfl, ?_⟩
    rw [if_neg hexit]
    simp only
    refine ⟨?_, trivial, ?_⟩
    · rw [(genericRows_spec zero add pssm seq.data a (b - a) _ 0 0).1, Mat.rows_resize]
    · intro r c har hrb hc
      rw [(genericRows_spec zero add pssm seq.data a (b - a) _ (r - a) c).2, Mat.rows_resize,
        if_pos ⟨by omega, by omega, by simpa using hc⟩]
      unfold windowScore
      apply cellSum_congr
      intro j hj
      have e : seq.data.getD (a + (r - a) + j) c 0 = seq.data.get (r + j) c := by
        have : a + (r - a) = r := by omega
        rw [this]; rfl
      rw [e, lookahead N seq s inv r j c (by omega) (by omega) hc]

/-- **C01 (6), generic backend**: no panic in contract (`M` may even be 0 here; the SIMD wrappers
    need `M ≥ 1`, see §D) -/
theorem scoreRowsGeneric_no_panic (hC : 0 < C) (zero : α) (add : α → α → α) (pssm : Mat α K) (N : Nat)
    (seq : Striped C) (s : List Nat) (inv : Inv N seq s) (hs : ∀ x ∈ s, x < K) (hN : N < K)
    (hW : pssm.rows - 1 ≤ seq.wrap) (a b : Nat) (hb : b ≤ seqRowsOf C s.length) (sc0 : Scores α C) :
    ∀ e, scoreRowsGeneric zero add pssm seq a b sc0 ≠ .error e := by
  intro e h
  obtain ⟨sc, hsc, _⟩ := scoreRowsGeneric_spec hC zero add pssm N seq s inv hs hN hW a b hb sc0
  rw [hsc] at h; cases h

/-- **C01 (3b): the values returned.**  A full scan (`score` = `score_into` on an empty buffer, rows
    `0 .. R`) followed by `unstripe()` returns exactly `L + 1 − M` values (none when `L < M`), and
    value `i` is the scalar-order score of the window at position `i`. -/
theorem score_unstripe (hC : 0 < C) (zero : α) (add : α → α → α) (pssm : Mat α K) (N : Nat)
    (seq : Striped C) (s : List Nat) (inv : Inv N seq s) (hs : ∀ x ∈ s, x < K) (hN : N < K)
    (hM : 1 ≤ pssm.rows) (hW : pssm.rows - 1 ≤ seq.wrap) :
    ∃ sc, scoreFull (scoreRowsGeneric zero add pssm seq) seq = .ok sc ∧
      (unstripe zero sc).length = s.length + 1 - pssm.rows ∧
      ∀ i, i < s.length + 1 - pssm.rows →
        (unstripe zero sc)[i]? = some (windowScore zero add pssm N s i) := by
  unfold scoreFull scoreInto
  rw [if_neg (by rw [inv.rows]; omega)]
  have hrows : seq.data.rows - seq.wrap = seqRowsOf C s.length := by rw [inv.rows]; omega
  rw [hrows]
  obtain ⟨sc, hsc, hspec⟩ := scoreRowsGeneric_spec hC zero add pssm N seq s inv hs hN hW 0
    (seqRowsOf C s.length) (Nat.le_refl _) Score.empty
  refine ⟨sc, hsc, ?_⟩
  by_cases hLM : s.length < pssm.rows
  · rw [if_pos (Or.inl hLM)] at hspec
    have hend : iterEnd sc = 0 := by unfold iterEnd; rw [hspec.2]; exact Nat.zero_min _
    have hlen : s.length + 1 - pssm.rows = 0 := by omega
    refine ⟨by unfold unstripe; rw [hend, hlen]; rfl, ?_⟩
    intro i hi; omega
  · have hL : 0 < s.length := by omega
    have hR := seqRowsOf_pos hC hL
    rw [if_neg (by omega)] at hspec
    obtain ⟨h1, h2, h3⟩ := hspec
    rw [Nat.sub_zero] at h1
    have hge := seqRowsOf_mul_ge hC s.length
    have hend : iterEnd sc = s.length + 1 - pssm.rows := by
      unfold iterEnd; rw [h1, h2]; omega
    refine ⟨by unfold unstripe; rw [hend]; simp, ?_⟩
    intro i hi
    unfold unstripe
    rw [hend, List.getElem?_map, List.getElem?_range hi]
    simp only [Option.map_some, h1, Nat.sub_zero]
    have hcol : i / seqRowsOf C s.length < C := by
      apply Nat.div_lt_of_lt_mul; omega
    have hrow : i % seqRowsOf C s.length < seqRowsOf C s.length := Nat.mod_lt _ hR
    have := h3 (i % seqRowsOf C s.length) (i / seqRowsOf C s.length) (Nat.zero_le _) hrow hcol
    rw [Nat.sub_zero] at this
    rw [this]
    have e : i / seqRowsOf C s.length * seqRowsOf C s.length + i % seqRowsOf C s.length = i := by
      rw [Nat.mul_comm]; exact Nat.div_add_mod i _
    rw [e]

/-- **C01 (3b')**: indexing the result of a full scan, `scores[i]` for `i ≤ L − M`, does not panic and
    is the window score at position `i` (`offset(row, col) = col · rows + row` is that position). -/
theorem score_index (hC : 0 < C) (zero : α) (add : α → α → α) (pssm : Mat α K) (N : Nat)
    (seq : Striped C) (s : List Nat) (inv : Inv N seq s) (hs : ∀ x ∈ s, x < K) (hN : N < K)
    (hW : pssm.rows - 1 ≤ seq.wrap) :
    ∃ sc, scoreFull (scoreRowsGeneric zero add pssm seq) seq = .ok sc ∧
      ∀ i, i < s.length + 1 - pssm.rows → i < s.length →
        Score.index zero sc i = .ok (windowScore zero add pssm N s i) ∧
        offset sc (i % sc.data.rows) (i / sc.data.rows) = i := by
  unfold scoreFull scoreInto
  rw [if_neg (by rw [inv.rows]; omega)]
  have hrows : seq.data.rows - seq.wrap = seqRowsOf C s.length := by rw [inv.rows]; omega
  rw [hrows]
  obtain ⟨sc, hsc, hspec⟩ := scoreRowsGeneric_spec hC zero add pssm N seq s inv hs hN hW 0
    (seqRowsOf C s.length) (Nat.le_refl _) Score.empty
  refine ⟨sc, hsc, ?_⟩
  intro i hi hiL
  have hL : 0 < s.length := by omega
  have hR := seqRowsOf_pos hC hL
  rw [if_neg (by omega)] at hspec
  obtain ⟨h1, _, h3⟩ := hspec
  rw [Nat.sub_zero] at h1
  have hge := seqRowsOf_mul_ge hC s.length
  have hcol : i / seqRowsOf C s.length < C := by
    apply Nat.div_lt_of_lt_mul; omega
  have hrow : i % seqRowsOf C s.length < seqRowsOf C s.length := Nat.mod_lt _ hR
  have e : i / seqRowsOf C s.length * seqRowsOf C s.length + i % seqRowsOf C s.length = i := by
    rw [Nat.mul_comm]; exact Nat.div_add_mod i _
  constructor
  · unfold Score.index
    rw [h1, if_neg (by omega), if_pos ⟨hrow, hcol⟩]
    have := h3 (i % seqRowsOf C s.length) (i / seqRowsOf C s.length) (Nat.zero_le _) hrow hcol
    rw [Nat.sub_zero] at this
    rw [this, e]
  · unfold offset
    rw [h1, e]

/-- **C01 (3c)**: `ScoringMatrix::score_position(seq, i)` for a position `i ≤ L − M` does not panic
    and returns the same scalar-order score. -/
theorem scorePosition_spec (hC : 0 < C) (zero : α) (add : α → α → α) (pssm : Mat α K) (N : Nat)
    (seq : Striped C) (s : List Nat) (inv : Inv N seq s) (hs : ∀ x ∈ s, x < K)
    (i : Nat) (hi : i + pssm.rows ≤ s.length) :
    scorePosition zero add pssm seq i = .ok (windowScore zero add pssm N s i) := by
  unfold scorePosition windowScore cellSum
  apply foldE_ok
  intro v j hj
  have hj := List.mem_range.mp hj
  rw [index_eq hC N seq s inv (i + j) (by omega)]
  have hlt : s.getD (i + j) N < K := by
    have h : i + j < s.length := by omega
    have : s.getD (i + j) N = s[i + j] := by simp [List.getD, List.getElem?_eq_getElem h]
    rw [this]; exact hs _ (List.getElem_mem h)
  simp only [hlt, if_true, pad]

/-! ## §C  exact arithmetic -/

section exact

theorem foldl_add_eq_sum {β : Type} [AddMonoid β] (l : List β) (a : β) :
    List.foldl (· + ·) a l = a + l.sum := by
  induction l generalizing a with
  | nil => simp
  | cons x xs ih => rw [List.foldl_cons, ih, List.sum_cons, add_assoc]

theorem sum_eq_bot_iff (l : List (WithBot ℚ)) : l.sum = ⊥ ↔ ∃ x ∈ l, x = ⊥ := by
  induction l with
  | nil => simp
  | cons x xs ih =>
    rw [List.sum_cons, WithBot.add_eq_bot, ih]
    constructor
    · rintro (h | ⟨y, hy, hb⟩)
      · exact ⟨x, by simp, h⟩
      · exact ⟨y, by simp [hy], hb⟩
    · rintro ⟨y, hy, hb⟩
      rcases List.mem_cons.mp hy with rfl | hy
      · exact Or.inl hb
      · exact Or.inr ⟨y, hy, hb⟩

/-- the terms of the window at position `i`: `m[j][s⟦i+j⟧]` for `j < M` -/
def windowTerms (zero : α) (pssm : Mat α K) (N : Nat) (s : List Nat) (i : Nat) : List α :=
  (List.range pssm.rows).map fun j => pssm.getD j (pad N s (i + j)) zero

/-- **C01 (4)**: over exact scores with an absorbing `−∞` (`WithBot ℚ`: `⊥ + x = ⊥`), the scalar-order
    score is the sum over `j` of `matrix[j][sequence[i+j]]` … -/
theorem windowScore_exact (pssm : Mat (WithBot ℚ) K) (N : Nat) (s : List Nat) (i : Nat) :
    windowScore 0 (· + ·) pssm N s i = (windowTerms 0 pssm N s i).sum := by
  rw [windowScore_eq_foldl, foldl_add_eq_sum, zero_add]; rfl

/-- … and it is `−∞` as soon as (and only if) one term is -/
theorem windowScore_eq_bot_iff (pssm : Mat (WithBot ℚ) K) (N : Nat) (s : List Nat) (i : Nat) :
    windowScore 0 (· + ·) pssm N s i = ⊥ ↔ ∃ j, j < pssm.rows ∧ pssm.getD j (pad N s (i + j)) 0 = ⊥ := by
  rw [windowScore_exact, sum_eq_bot_iff]
  unfold windowTerms
  constructor
  · rintro ⟨x, hx, hb⟩
    obtain ⟨j, hj, rfl⟩ := List.mem_map.mp hx
    exact ⟨j, List.mem_range.mp hj, hb⟩
  · rintro ⟨j, hj, hb⟩
    exact ⟨_, List.mem_map.mpr ⟨j, List.mem_range.mpr hj, rfl⟩, hb⟩

end exact

/-! ## §D  the SIMD backends equal the generic backend -/

/-- every cell of the sequence matrix is a symbol index of the alphabet (in the Rust this is the
    type of the cells: `A::Symbol`, an enum with `K` variants stored in one byte) -/
def SymOK (K : Nat) (seq : Striped C) : Prop :=
  ∀ r c, r < seq.data.rows → c < C → seq.data.getD r c 0 < K

/-- the in-contract reads of a scan of rows `a .. b` stay inside the matrix and see alphabet symbols -/
theorem reads_ok (pssm : Mat α K) (seq : Striped C) (a b : Nat)
    (hW : pssm.rows - 1 ≤ seq.wrap) (hb : b ≤ seq.data.rows - seq.wrap) (hsym : SymOK K seq) :
    ∀ k j col, k < b - a → j < pssm.rows → col < C →
      a + k + j < seq.data.rows ∧ seq.data.getD (a + k + j) col 0 < K := by
  intro k j col hk hj hcol
  have h : a + k + j < seq.data.rows := by omega
  exact ⟨h, hsym _ _ h hcol⟩

/-- the guards of the SIMD wrappers are those of the generic code once `M ≥ 1`, `wrap ≥ M − 1` and
    the range ends inside the sequence rows; what remains is the kernel against the generic loops -/
theorem simdWrapper_eq_generic (zero : α) (add : α → α → α) (pssm : Mat α K) (seq : Striped C)
    (a b : Nat) (sc : Scores α C) (run : Mat α C → Mat α C)
    (hM : 1 ≤ pssm.rows) (hW : pssm.rows - 1 ≤ seq.wrap) (hb : b ≤ seq.data.rows - seq.wrap)
    (hsym : SymOK K seq)
    (hrun : ∀ d, run d = genericRows zero add pssm seq.data a (b - a) d) :
    simdWrapper zero pssm seq a b sc run = scoreRowsGeneric zero add pssm seq a b sc := by
  unfold simdWrapper scoreRowsGeneric
  rw [if_neg (by omega), if_neg (by omega)]
  by_cases hexit : seq.length < pssm.rows ∨ b ≤ a
  · rw [if_pos hexit, if_pos hexit]
  · rw [if_neg hexit, if_neg hexit]
    rw [if_neg (by omega)]
    simp only [resize]
    rw [rowsGeneric_ok zero add pssm seq.data a (b - a) _
      (reads_ok pssm seq a b hW hb hsym), hrun]

/-! ### any row range: the same outcome, panics included

With the row-range check of the repaired wrappers the SIMD backends agree with the generic backend
on EVERY range `a..b`, also ranges reaching into or past the wrap rows: either both return the same
result, or both panic (the generic code on its row index, the wrappers on the explicit check). -/

/-- equal, or both a panic (messages are not compared) -/
def SameOutcome {β : Type} (x y : Except String β) : Prop :=
  x = y ∨ ∃ e₁ e₂, x = .error e₁ ∧ y = .error e₂

theorem simdWrapper_same_outcome (hC : 0 < C) (zero : α) (add : α → α → α) (pssm : Mat α K)
    (seq : Striped C) (a b : Nat) (sc : Scores α C) (run : Mat α C → Mat α C)
    (hM : 1 ≤ pssm.rows) (hW : pssm.rows - 1 ≤ seq.wrap) (hsym : SymOK K seq)
    (hrun : (∀ k j col, k < b - a → j < pssm.rows → col < C →
        a + k + j < seq.data.rows ∧ seq.data.getD (a + k + j) col 0 < K) →
      ∀ d, run d = genericRows zero add pssm seq.data a (b - a) d) :
    SameOutcome (simdWrapper zero pssm seq a b sc run) (scoreRowsGeneric zero add pssm seq a b sc) := by
  unfold simdWrapper scoreRowsGeneric
  rw [if_neg (by omega), if_neg (by omega)]
  by_cases hexit : seq.length < pssm.rows ∨ b ≤ a
  · rw [if_pos hexit, if_pos hexit]; exact Or.inl rfl
  · rw [if_neg hexit, if_neg hexit]
    by_cases hout : b > seq.data.rows ∨ seq.data.rows - b < pssm.rows - 1
    · -- out of range: the wrapper's explicit panic, the generic code's row index
      rw [if_pos hout]
      simp only [resize]
      obtain ⟨e, he⟩ := rowsGeneric_error hC zero add pssm seq.data a (b - a)
        (sc.data.resize (b - a) zero) (b - a - 1) (pssm.rows - 1) (by omega) (by omega) (by omega)
      refine Or.inr ⟨"row-range", e, rfl, ?_⟩
      rw [he]
    · rw [if_neg hout]
      have hok : ∀ k j col, k < b - a → j < pssm.rows → col < C →
          a + k + j < seq.data.rows ∧ seq.data.getD (a + k + j) col 0 < K := by
        intro k j col hk hj hcol
        have h : a + k + j < seq.data.rows := by omega
        exact ⟨h, hsym _ _ h hcol⟩
      simp only [resize]
      rw [rowsGeneric_ok zero add pssm seq.data a (b - a) _ hok, hrun hok]
      exact Or.inl rfl

theorem sext32_small (v : Nat) (h : v < 2147483648) : Isa.sext32 v = Int.ofNat v := by
  unfold Isa.sext32
  have : v % 4294967296 = v := Nat.mod_eq_of_lt (by omega)
  rw [this, if_pos h]

/-- **C01 (1), AVX2 permute kernel (`K ≤ 8`, DNA).**  For EVERY carrier, `zero` and `add` (no law:
    the statement holds for IEEE `f32` as executed, `-inf`, rounding and all), every motif of
    `M ≥ 1` rows, every sequence matrix with at least `M − 1` wrap rows, every row range ending
    inside the sequence rows and every previous content of the score buffer, the AVX2 wrapper +
    kernel returns exactly what the generic code returns: same panic/no-panic, same `max_index`,
    same matrix cell for cell.  The lane bookkeeping (shuffle masks → dword lanes → look-up →
    `permute2f128` → store offsets) is discharged by `Avx2.permute_table`, a kernel evaluation of the
    complete 32-column table regenerated from avx2.rs. -/
theorem scorePermute_eq_generic (zero : α) (add : α → α → α) (pssm : Mat α K) (hK : K ≤ 8)
    (seq : Striped 32) (a b : Nat) (sc : Scores α 32)
    (hM : 1 ≤ pssm.rows) (hW : pssm.rows - 1 ≤ seq.wrap) (hb : b ≤ seq.data.rows - seq.wrap)
    (hsym : SymOK K seq) :
    Avx2.scorePermute zero add pssm seq a b sc = scoreRowsGeneric zero add pssm seq a b sc := by
  unfold Avx2.scorePermute
  rw [if_neg (by omega)]
  apply simdWrapper_eq_generic zero add pssm seq a b sc _ hM hW hb hsym
  intro d
  apply Avx2.kernel_eq_genericRows Avx2.permuteTables Avx2.permute_table zero add pssm
    (Avx2.lookupPermute zero pssm) (fun j sym => pssm.getD j (sym % 8) zero)
  · intro j idx l; rfl
  · intro j sym hs
    rw [Nat.mod_eq_of_lt (by omega)]
  · intro k j col hk hj hcol
    exact (reads_ok pssm seq a b hW hb hsym k j col hk hj hcol).2

/-- **C01 (1), AVX2 gather kernel (any alphabet whose symbols are bytes, e.g. protein `K = 21`).** -/
theorem scoreGather_eq_generic (zero : α) (add : α → α → α) (pssm : Mat α K) (hK : K ≤ 256)
    (seq : Striped 32) (a b : Nat) (sc : Scores α 32)
    (hM : 1 ≤ pssm.rows) (hW : pssm.rows - 1 ≤ seq.wrap) (hb : b ≤ seq.data.rows - seq.wrap)
    (hsym : SymOK K seq) :
    Avx2.scoreGather zero add pssm seq a b sc = scoreRowsGeneric zero add pssm seq a b sc := by
  unfold Avx2.scoreGather
  apply simdWrapper_eq_generic zero add pssm seq a b sc _ hM hW hb hsym
  intro d
  apply Avx2.kernel_eq_genericRows Avx2.gatherTables Avx2.gather_table zero add pssm
    (Avx2.lookupGather zero pssm)
    (fun j sym => if 0 ≤ Isa.sext32 sym then pssm.getD j (Isa.sext32 sym).toNat zero else zero)
  · intro j idx l; rfl
  · intro j sym hs
    rw [sext32_small sym (by omega)]
    simp
  · intro k j col hk hj hcol
    exact (reads_ok pssm seq a b hW hb hsym k j col hk hj hcol).2

/-- `Avx2::score_f32_rows_into` (permute when `K ≤ 8`, gather otherwise) = generic -/
theorem scoreF32Avx2_eq_generic (zero : α) (add : α → α → α) (pssm : Mat α K) (hK : K ≤ 256)
    (seq : Striped 32) (a b : Nat) (sc : Scores α 32)
    (hM : 1 ≤ pssm.rows) (hW : pssm.rows - 1 ≤ seq.wrap) (hb : b ≤ seq.data.rows - seq.wrap)
    (hsym : SymOK K seq) :
    Avx2.scoreF32 zero add pssm seq a b sc = scoreRowsGeneric zero add pssm seq a b sc := by
  unfold Avx2.scoreF32
  split
  · rename_i h
    exact scorePermute_eq_generic zero add pssm h seq a b sc hM hW hb hsym
  · exact scoreGather_eq_generic zero add pssm hK seq a b sc hM hW hb hsym

/-- **C01 (1), AVX2 `u8` shuffle kernel (`K ≤ 16`).**  With the SAME lane addition on both sides —
    in particular the saturating `adds_epu8` — the byte-shuffle kernel equals the generic loops;
    every one of the 32 byte lanes is handled (per-128-bit-lane shuffle of the broadcast row). -/
theorem scoreU8_eq_generic (zero : α) (add : α → α → α) (pssm : Mat α K) (hK : K ≤ 16)
    (seq : Striped 32) (a b : Nat) (sc : Scores α 32)
    (hM : 1 ≤ pssm.rows) (hW : pssm.rows - 1 ≤ seq.wrap) (hb : b ≤ seq.data.rows - seq.wrap)
    (hsym : SymOK K seq) :
    Avx2.scoreU8 zero add pssm seq a b sc = scoreRowsGeneric zero add pssm seq a b sc := by
  unfold Avx2.scoreU8
  apply simdWrapper_eq_generic zero add pssm seq a b sc _ hM hW hb hsym
  intro d
  apply Avx2.kernelU8_eq_genericRows zero add pssm hK
  intro k j col hk hj hcol
  exact (reads_ok pssm seq a b hW hb hsym k j col hk hj hcol).2

/-- **C01 (2), SSE2 kernel, 16- and 32-column layouts (any multiple of 16).**  With the single law
    `add x zero = x` (the compare-and-mask trick adds `+0.0` for the `K − 1` symbols that do not
    match; IEEE `x + (+0.0) = x` for every `x` except `-0.0`, which is never a partial sum of a fold
    started at `+0.0`), the SSE2 wrapper + kernel returns exactly what the generic code returns.
    The unpack chain and the store offsets are discharged by `Sse2.sse2_table` (kernel evaluation of
    the complete 16-column table regenerated from sse2.rs). -/
theorem scoreSse2_eq_generic (zero : α) (add : α → α → α) (hz : ∀ x, add x zero = x)
    (pssm : Mat α K) (hC : 16 ∣ C) (seq : Striped C) (a b : Nat) (sc : Scores α C)
    (hM : 1 ≤ pssm.rows) (hW : pssm.rows - 1 ≤ seq.wrap) (hb : b ≤ seq.data.rows - seq.wrap)
    (hsym : SymOK K seq) :
    Sse2.score zero add pssm seq a b sc = scoreRowsGeneric zero add pssm seq a b sc := by
  unfold Sse2.score
  apply simdWrapper_eq_generic zero add pssm seq a b sc _ hM hW hb hsym
  intro d
  apply Sse2.kernel_eq_genericRows zero add hz pssm hC
  intro k j col hk hj hcol
  exact (reads_ok pssm seq a b hW hb hsym k j col hk hj hcol).2

/-- **every arm of the runtime dispatcher (`f32`)** returns what the generic backend returns -/
theorem dispatchF32_eq_generic (arm : Arm) (zero : α) (add : α → α → α) (hz : ∀ x, add x zero = x)
    (pssm : Mat α K) (hK : K ≤ 256) (seq : Striped 32) (a b : Nat) (sc : Scores α 32)
    (hM : 1 ≤ pssm.rows) (hW : pssm.rows - 1 ≤ seq.wrap) (hb : b ≤ seq.data.rows - seq.wrap)
    (hsym : SymOK K seq) :
    dispatchF32 arm zero add pssm seq a b sc = scoreRowsGeneric zero add pssm seq a b sc := by
  cases arm
  · rfl
  · exact scoreSse2_eq_generic zero add hz pssm (by decide) seq a b sc hM hW hb hsym
  · exact scoreF32Avx2_eq_generic zero add pssm hK seq a b sc hM hW hb hsym

/-- **every arm of the runtime dispatcher (`u8`)**: the AVX2 arm is the generic loop run with the
    lane addition of `adds_epu8`, the other arms ARE the generic loop (with `Accumulate::accumulate`).
    Both are the saturating addition `u8Sat` in the code as it is (see `dispatchU8_all_arms`). -/
theorem dispatchU8_eq_generic (arm : Arm) (zero : α) (add addSat : α → α → α)
    (pssm : Mat α K) (hK : K ≤ 16) (seq : Striped 32) (a b : Nat) (sc : Scores α 32)
    (hM : 1 ≤ pssm.rows) (hW : pssm.rows - 1 ≤ seq.wrap) (hb : b ≤ seq.data.rows - seq.wrap)
    (hsym : SymOK K seq) :
    dispatchU8 arm zero add addSat pssm seq a b sc =
      scoreRowsGeneric zero (if arm = Arm.avx2 then addSat else add) pssm seq a b sc := by
  cases arm
  · rfl
  · rfl
  · exact scoreU8_eq_generic zero addSat pssm hK seq a b sc hM hW hb hsym

/-- with the one saturating addition on both sides, all three `u8` arms return the same thing -/
theorem dispatchU8_all_arms (arm : Arm) (zero : α) (addSat : α → α → α)
    (pssm : Mat α K) (hK : K ≤ 16) (seq : Striped 32) (a b : Nat) (sc : Scores α 32)
    (hM : 1 ≤ pssm.rows) (hW : pssm.rows - 1 ≤ seq.wrap) (hb : b ≤ seq.data.rows - seq.wrap)
    (hsym : SymOK K seq) :
    dispatchU8 arm zero addSat addSat pssm seq a b sc =
      scoreRowsGeneric zero addSat pssm seq a b sc := by
  rw [dispatchU8_eq_generic arm zero addSat addSat pssm hK seq a b sc hM hW hb hsym]
  split <;> rfl

/-- **C01 (1)/(2)/(6), any row range.**  For `M ≥ 1` and `wrap ≥ M − 1`, on EVERY row range `a..b`
    (inside the sequence rows or not) each SIMD backend and each dispatcher arm has the same outcome
    as the generic backend: the same result matrix and `max_index`, or a panic on both sides. -/
theorem scorePermute_same_outcome (zero : α) (add : α → α → α) (pssm : Mat α K) (hK : K ≤ 8)
    (seq : Striped 32) (a b : Nat) (sc : Scores α 32)
    (hM : 1 ≤ pssm.rows) (hW : pssm.rows - 1 ≤ seq.wrap) (hsym : SymOK K seq) :
    SameOutcome (Avx2.scorePermute zero add pssm seq a b sc)
      (scoreRowsGeneric zero add pssm seq a b sc) := by
  unfold Avx2.scorePermute
  rw [if_neg (by omega)]
  apply simdWrapper_same_outcome (by decide) zero add pssm seq a b sc _ hM hW hsym
  intro hok d
  apply Avx2.kernel_eq_genericRows Avx2.permuteTables Avx2.permute_table zero add pssm
    (Avx2.lookupPermute zero pssm) (fun j sym => pssm.getD j (sym % 8) zero)
  · intro j idx l; rfl
  · intro j sym hs
    rw [Nat.mod_eq_of_lt (by omega)]
  · intro k j col hk hj hcol
    exact (hok k j col hk hj hcol).2

theorem scoreGather_same_outcome (zero : α) (add : α → α → α) (pssm : Mat α K) (hK : K ≤ 256)
    (seq : Striped 32) (a b : Nat) (sc : Scores α 32)
    (hM : 1 ≤ pssm.rows) (hW : pssm.rows - 1 ≤ seq.wrap) (hsym : SymOK K seq) :
    SameOutcome (Avx2.scoreGather zero add pssm seq a b sc)
      (scoreRowsGeneric zero add pssm seq a b sc) := by
  unfold Avx2.scoreGather
  apply simdWrapper_same_outcome (by decide) zero add pssm seq a b sc _ hM hW hsym
  intro hok d
  apply Avx2.kernel_eq_genericRows Avx2.gatherTables Avx2.gather_table zero add pssm
    (Avx2.lookupGather zero pssm)
    (fun j sym => if 0 ≤ Isa.sext32 sym then pssm.getD j (Isa.sext32 sym).toNat zero else zero)
  · intro j idx l; rfl
  · intro j sym hs
    rw [sext32_small sym (by omega)]
    simp
  · intro k j col hk hj hcol
    exact (hok k j col hk hj hcol).2

theorem scoreU8_same_outcome (zero : α) (add : α → α → α) (pssm : Mat α K) (hK : K ≤ 16)
    (seq : Striped 32) (a b : Nat) (sc : Scores α 32)
    (hM : 1 ≤ pssm.rows) (hW : pssm.rows - 1 ≤ seq.wrap) (hsym : SymOK K seq) :
    SameOutcome (Avx2.scoreU8 zero add pssm seq a b sc)
      (scoreRowsGeneric zero add pssm seq a b sc) := by
  unfold Avx2.scoreU8
  apply simdWrapper_same_outcome (by decide) zero add pssm seq a b sc _ hM hW hsym
  intro hok d
  apply Avx2.kernelU8_eq_genericRows zero add pssm hK
  intro k j col hk hj hcol
  exact (hok k j col hk hj hcol).2

theorem scoreSse2_same_outcome (zero : α) (add : α → α → α) (hz : ∀ x, add x zero = x)
    (pssm : Mat α K) (hC0 : 0 < C) (hC : 16 ∣ C) (seq : Striped C) (a b : Nat) (sc : Scores α C)
    (hM : 1 ≤ pssm.rows) (hW : pssm.rows - 1 ≤ seq.wrap) (hsym : SymOK K seq) :
    SameOutcome (Sse2.score zero add pssm seq a b sc)
      (scoreRowsGeneric zero add pssm seq a b sc) := by
  unfold Sse2.score
  apply simdWrapper_same_outcome hC0 zero add pssm seq a b sc _ hM hW hsym
  intro hok d
  apply Sse2.kernel_eq_genericRows zero add hz pssm hC
  intro k j col hk hj hcol
  exact (hok k j col hk hj hcol).2

theorem dispatchF32_same_outcome (arm : Arm) (zero : α) (add : α → α → α) (hz : ∀ x, add x zero = x)
    (pssm : Mat α K) (hK : K ≤ 256) (seq : Striped 32) (a b : Nat) (sc : Scores α 32)
    (hM : 1 ≤ pssm.rows) (hW : pssm.rows - 1 ≤ seq.wrap) (hsym : SymOK K seq) :
    SameOutcome (dispatchF32 arm zero add pssm seq a b sc)
      (scoreRowsGeneric zero add pssm seq a b sc) := by
  cases arm
  · exact Or.inl rfl
  · exact scoreSse2_same_outcome zero add hz pssm (by decide) (by decide) seq a b sc hM hW hsym
  · unfold dispatchF32 Avx2.scoreF32
    simp only
    split
    · rename_i h
      exact scorePermute_same_outcome zero add pssm h seq a b sc hM hW hsym
    · exact scoreGather_same_outcome zero add pssm hK seq a b sc hM hW hsym

theorem dispatchU8_same_outcome (arm : Arm) (zero : α) (addSat : α → α → α)
    (pssm : Mat α K) (hK : K ≤ 16) (seq : Striped 32) (a b : Nat) (sc : Scores α 32)
    (hM : 1 ≤ pssm.rows) (hW : pssm.rows - 1 ≤ seq.wrap) (hsym : SymOK K seq) :
    SameOutcome (dispatchU8 arm zero addSat addSat pssm seq a b sc)
      (scoreRowsGeneric zero addSat pssm seq a b sc) := by
  cases arm
  · exact Or.inl rfl
  · exact Or.inl rfl
  · exact scoreU8_same_outcome zero addSat pssm hK seq a b sc hM hW hsym

/-! ## §E  every pipeline computes the window score -/

theorem symOK_of_inv (N : Nat) (seq : Striped C) (s : List Nat) (inv : Inv N seq s)
    (hs : ∀ x ∈ s, x < K) (hN : N < K) : SymOK K seq := by
  intro r c hr hc
  have e : seq.data.getD r c 0 = seq.data.get r c := rfl
  rw [e, inv.cell r c (by rw [← inv.rows]; exact hr) hc]
  exact pad_lt N s hs hN _

/-- what a correct `score_rows_into(pssm, seq, a..b, buf)` returns for the sequence `s` -/
def RowsSpec (zero : α) (add : α → α → α) (pssm : Mat α K) (N : Nat) (s : List Nat) (C a b : Nat)
    (res : Except String (Scores α C)) : Prop :=
  ∃ sc, res = .ok sc ∧
    if s.length < pssm.rows ∨ b ≤ a then sc.data.rows = 0 ∧ sc.maxIndex = 0
    else sc.data.rows = b - a ∧ sc.maxIndex = s.length + 1 - pssm.rows ∧
      ∀ r c, a ≤ r → r < b → c < C →
        sc.data.getD (r - a) c zero = windowScore zero add pssm N s (c * seqRowsOf C s.length + r)

/-- **C01, all `f32` pipelines and lane counts.**  Let the sequence matrix satisfy the striping
    invariant for `s` (any striping backend, any configure history — C04), with `wrap ≥ M − 1`,
    `M ≥ 1`, and let `a..b` end inside the sequence rows.  Then the generic backend (any column
    count), the SSE2 backend (any multiple of 16 columns: 16 and 32), the AVX2 backend and all
    three arms of the runtime dispatcher (32 columns) return WITHOUT PANIC the same result, whose
    cell `(r − a, c)` is the scalar-order window score at position `c·R + r` — identical values
    on every backend because it is literally the same expression.  The only law used about the
    arithmetic is `add x zero = x`, and only by the SSE2 kernel. -/
theorem all_f32_pipelines (zero : α) (add : α → α → α) (hz : ∀ x, add x zero = x) (pssm : Mat α K)
    (hK : K ≤ 256) (N : Nat) (s : List Nat) (hs : ∀ x ∈ s, x < K) (hN : N < K)
    (hM : 1 ≤ pssm.rows) (a b : Nat) :
    (∀ (C : Nat) (_ : 0 < C) (seq : Striped C) (sc0 : Scores α C), Inv N seq s →
      pssm.rows - 1 ≤ seq.wrap → b ≤ seqRowsOf C s.length →
      RowsSpec zero add pssm N s C a b (scoreRowsGeneric zero add pssm seq a b sc0)) ∧
    (∀ (C : Nat) (_ : 0 < C) (_ : 16 ∣ C) (seq : Striped C) (sc0 : Scores α C), Inv N seq s →
      pssm.rows - 1 ≤ seq.wrap → b ≤ seqRowsOf C s.length →
      RowsSpec zero add pssm N s C a b (Sse2.score zero add pssm seq a b sc0)) ∧
    (∀ (seq : Striped 32) (sc0 : Scores α 32), Inv N seq s →
      pssm.rows - 1 ≤ seq.wrap → b ≤ seqRowsOf 32 s.length →
      RowsSpec zero add pssm N s 32 a b (Avx2.scoreF32 zero add pssm seq a b sc0) ∧
      ∀ arm, RowsSpec zero add pssm N s 32 a b (dispatchF32 arm zero add pssm seq a b sc0)) := by
  have gen : ∀ (C : Nat) (_ : 0 < C) (seq : Striped C) (sc0 : Scores α C), Inv N seq s →
      pssm.rows - 1 ≤ seq.wrap → b ≤ seqRowsOf C s.length →
      RowsSpec zero add pssm N s C a b (scoreRowsGeneric zero add pssm seq a b sc0) :=
    fun C hC seq sc0 inv hW hb => scoreRowsGeneric_spec hC zero add pssm N seq s inv hs hN hW a b hb sc0
  have hb' : ∀ {C : Nat} (seq : Striped C), Inv N seq s → b ≤ seqRowsOf C s.length →
      b ≤ seq.data.rows - seq.wrap := by
    intro C seq inv hb; rw [inv.rows]; omega
  refine ⟨gen, ?_, ?_⟩
  · intro C hC h16 seq sc0 inv hW hb
    rw [scoreSse2_eq_generic zero add hz pssm h16 seq a b sc0 hM hW (hb' seq inv hb)
      (symOK_of_inv N seq s inv hs hN)]
    exact gen C hC seq sc0 inv hW hb
  · intro seq sc0 inv hW hb
    have hsym := symOK_of_inv N seq s inv hs hN
    refine ⟨?_, fun arm => ?_⟩
    · rw [scoreF32Avx2_eq_generic zero add pssm hK seq a b sc0 hM hW (hb' seq inv hb) hsym]
      exact gen 32 (by decide) seq sc0 inv hW hb
    · rw [dispatchF32_eq_generic arm zero add hz pssm hK seq a b sc0 hM hW (hb' seq inv hb) hsym]
      exact gen 32 (by decide) seq sc0 inv hW hb

/-- **C01, `u8` pipelines**: the AVX2 shuffle kernel (hence the AVX2 arm of the dispatcher) computes
    the window score for the saturating addition, with no law assumed -/
theorem u8_avx2_pipeline (zero : α) (addSat : α → α → α) (pssm : Mat α K) (hK : K ≤ 16) (N : Nat)
    (s : List Nat) (hs : ∀ x ∈ s, x < K) (hN : N < K) (hM : 1 ≤ pssm.rows) (a b : Nat)
    (seq : Striped 32) (sc0 : Scores α 32) (inv : Inv N seq s) (hW : pssm.rows - 1 ≤ seq.wrap)
    (hb : b ≤ seqRowsOf 32 s.length) :
    RowsSpec zero addSat pssm N s 32 a b (Avx2.scoreU8 zero addSat pssm seq a b sc0) := by
  rw [scoreU8_eq_generic zero addSat pssm hK seq a b sc0 hM hW (by rw [inv.rows]; omega)
    (symOK_of_inv N seq s inv hs hN)]
  exact scoreRowsGeneric_spec (by decide) zero addSat pssm N seq s inv hs hN hW a b hb sc0

/-- **the values returned, on every `f32` pipeline**: `score` (full scan) then `unstripe()` gives
    exactly `L + 1 − M` values, value `i` being the window score at position `i`; stated for any
    `score_rows_into` that agrees with the generic one on the full row range, which §D provides for
    SSE2, AVX2 and every dispatcher arm. -/
theorem score_unstripe_any (hC : 0 < C) (zero : α) (add : α → α → α) (pssm : Mat α K) (N : Nat)
    (seq : Striped C) (s : List Nat) (inv : Inv N seq s) (hs : ∀ x ∈ s, x < K) (hN : N < K)
    (hM : 1 ≤ pssm.rows) (hW : pssm.rows - 1 ≤ seq.wrap)
    (rowsInto : Nat → Nat → Scores α C → Except String (Scores α C))
    (heq : ∀ sc, rowsInto 0 (seq.data.rows - seq.wrap) sc =
      scoreRowsGeneric zero add pssm seq 0 (seq.data.rows - seq.wrap) sc) :
    ∃ sc, scoreFull rowsInto seq = .ok sc ∧
      (unstripe zero sc).length = s.length + 1 - pssm.rows ∧
      ∀ i, i < s.length + 1 - pssm.rows →
        (unstripe zero sc)[i]? = some (windowScore zero add pssm N s i) := by
  have e : scoreFull rowsInto seq = scoreFull (scoreRowsGeneric zero add pssm seq) seq := by
    unfold scoreFull scoreInto
    split
    · rfl
    · exact heq _
  rw [e]
  exact score_unstripe hC zero add pssm N seq s inv hs hN hM hW

/-- instance of `score_unstripe_any`: `ScoringMatrix::score` through any arm of the dispatcher -/
theorem score_unstripe_dispatch (arm : Arm) (zero : α) (add : α → α → α) (hz : ∀ x, add x zero = x)
    (pssm : Mat α K) (hK : K ≤ 256) (N : Nat) (seq : Striped 32) (s : List Nat) (inv : Inv N seq s)
    (hs : ∀ x ∈ s, x < K) (hN : N < K) (hM : 1 ≤ pssm.rows) (hW : pssm.rows - 1 ≤ seq.wrap) :
    ∃ sc, scoreFull (dispatchF32 arm zero add pssm seq) seq = .ok sc ∧
      (unstripe zero sc).length = s.length + 1 - pssm.rows ∧
      ∀ i, i < s.length + 1 - pssm.rows →
        (unstripe zero sc)[i]? = some (windowScore zero add pssm N s i) :=
  score_unstripe_any (by decide) zero add pssm N seq s inv hs hN hM hW _
    (fun sc => dispatchF32_eq_generic arm zero add hz pssm hK seq 0 _ sc hM hW (Nat.le_refl _)
      (symOK_of_inv N seq s inv hs hN))

/-! ### `u8`: the saturating accumulation of every backend is the sum capped at 255 -/

/-- a left fold of `saturating_add` over byte scores is the exact sum, capped at 255 -/
theorem u8_fold_sat (terms : List Nat) : List.foldl u8Sat 0 terms = min terms.sum 255 := by
  induction terms using list_snoc_induction with
  | nil => rfl
  | snoc l x ih =>
    rw [List.foldl_append, List.sum_append]
    simp only [List.foldl_cons, List.foldl_nil, List.sum_cons, List.sum_nil, Nat.add_zero]
    rw [ih]
    unfold u8Sat
    omega

/-- while the sum fits a byte, wrapping accumulation (the generic kernel before `Accumulate`) gives
    the same value -/
theorem u8_fold_agree (terms : List Nat) (h : terms.sum ≤ 255) :
    List.foldl u8Sat 0 terms = terms.sum ∧ List.foldl u8Wrap 0 terms = terms.sum := by
  induction terms using list_snoc_induction with
  | nil => exact ⟨rfl, rfl⟩
  | snoc l x ih =>
    rw [List.sum_append, List.sum_cons, List.sum_nil, Nat.add_zero] at h
    have ih := ih (by omega)
    rw [List.foldl_append, List.foldl_append, List.sum_append]
    simp only [List.foldl_cons, List.foldl_nil, List.sum_cons, List.sum_nil, Nat.add_zero]
    rw [ih.1, ih.2]
    unfold u8Sat u8Wrap
    exact ⟨by omega, by omega⟩

/-- **C01, `u8` streams**: with `Accumulate` = `saturating_add` (generic backend,
    `DiscreteMatrix::score_position`) and `adds_epu8` (AVX2), every backend's window score is the sum
    of the byte scores capped at 255 — for EVERY input, also above 255. -/
theorem windowScore_u8 (pssm : Mat Nat K) (N : Nat) (s : List Nat) (i : Nat) :
    windowScore 0 u8Sat pssm N s i = min (windowTerms 0 pssm N s i).sum 255 := by
  rw [windowScore_eq_foldl]
  exact u8_fold_sat _

/-! ## §F  floating-point summation error of a left fold -/

section rounding

theorem abs_list_sum_le (l : List ℚ) : |l.sum| ≤ (l.map (|·|)).sum := by
  induction l with
  | nil => simp
  | cons x xs ih =>
    simp only [List.sum_cons, List.map_cons]
    exact (abs_add_le x xs.sum).trans (by linarith)

theorem list_abs_sum_nonneg (l : List ℚ) : 0 ≤ (l.map (|·|)).sum := by
  induction l with
  | nil => simp
  | cons x xs ih =>
    simp only [List.sum_cons, List.map_cons]
    have := abs_nonneg x
    linarith

/-- **C01 (5), the standard rounding-error bound.**  If every addition is exact up to a relative
    error `|δ| ≤ u` (`fl(x + y) = (x + y)(1 + δ)`: IEEE round-to-nearest with `u = 2⁻²⁴` for `f32`,
    valid for all finite operands short of overflow — additions are exact in the subnormal range),
    a left fold of `n` terms started at `0` is within `((1 + u)ⁿ − 1) · Σ|xᵢ|` of the exact sum. -/
theorem foldl_round_error (u : ℚ) (hu : 0 ≤ u) (fl : ℚ → ℚ → ℚ)
    (hfl : ∀ x y, ∃ δ, |δ| ≤ u ∧ fl x y = (x + y) * (1 + δ)) (xs : List ℚ) :
    |List.foldl fl 0 xs - xs.sum| ≤ ((1 + u) ^ xs.length - 1) * (xs.map (|·|)).sum := by
  induction xs using list_snoc_induction with
  | nil => simp
  | snoc l x ih =>
    rw [List.foldl_append, List.sum_append, List.map_append, List.sum_append, List.length_append]
    simp only [List.foldl_cons, List.foldl_nil, List.sum_cons, List.sum_nil, List.map_cons,
      List.map_nil, List.length_cons, List.length_nil, add_zero, zero_add]
    obtain ⟨δ, hδ, he⟩ := hfl (List.foldl fl 0 l) x
    rw [he]
    generalize List.foldl fl 0 l = S at ih ⊢
    have hT := abs_list_sum_le l
    have hA := list_abs_sum_nonneg l
    generalize l.sum = T at ih hT ⊢
    generalize (l.map (|·|)).sum = A at ih hT hA ⊢
    have hp : (1 : ℚ) ≤ (1 + u) ^ l.length := one_le_pow₀ (by linarith)
    rw [pow_succ]
    generalize (1 + u) ^ l.length = p at ih hp ⊢
    have key : (S + x) * (1 + δ) - (T + x) = (S - T) * (1 + δ) + (T + x) * δ := by ring
    rw [key]
    have h1 : |1 + δ| ≤ 1 + u := (abs_add_le 1 δ).trans (by rw [abs_one]; linarith)
    have h2 : |T + x| ≤ A + |x| := (abs_add_le T x).trans (by linarith)
    have hx := abs_nonneg x
    have hST := abs_nonneg (S - T)
    have hTx := abs_nonneg (T + x)
    calc |(S - T) * (1 + δ) + (T + x) * δ|
        ≤ |S - T| * |1 + δ| + |T + x| * |δ| := by
          refine (abs_add_le _ _).trans ?_
          rw [abs_mul, abs_mul]
      _ ≤ ((p - 1) * A) * (1 + u) + (A + |x|) * u := by
          gcongr
      _ ≤ (p * (1 + u) - 1) * (A + |x|) := by
          nlinarith [mul_nonneg (mul_nonneg (sub_nonneg.mpr hp) hu) hx, mul_nonneg (sub_nonneg.mpr hp) hx]

/-- the bound for the window score: what every backend returns for a window of finite entries is
    within `((1 + u)^M − 1) · Σ_j |m[j][s[i+j]]|` of the exact sum `Σ_j m[j][s[i+j]]` -/
theorem windowScore_round_error (u : ℚ) (hu : 0 ≤ u) (fl : ℚ → ℚ → ℚ)
    (hfl : ∀ x y, ∃ δ, |δ| ≤ u ∧ fl x y = (x + y) * (1 + δ)) (pssm : Mat ℚ K) (N : Nat)
    (s : List Nat) (i : Nat) :
    |windowScore 0 fl pssm N s i - (windowTerms 0 pssm N s i).sum| ≤
      ((1 + u) ^ pssm.rows - 1) * ((windowTerms 0 pssm N s i).map (|·|)).sum := by
  have h := foldl_round_error u hu fl hfl (windowTerms 0 pssm N s i)
  rw [windowScore_eq_foldl]
  have hl : (windowTerms 0 pssm N s i).length = pssm.rows := by simp [windowTerms]
  rw [hl] at h
  exact h

end rounding

/-! ## §G  non-vacuity: the hypotheses are satisfiable and the theorems say something -/

section examples

/-- a 7-symbol DNA sequence containing the wildcard `N = 4`, and a 2-row integer matrix -/
def exS : List Nat := [0, 2, 3, 1, 0, 4, 2]
def exP : Mat Int 5 := Mat.ofFn 2 fun r c => (r : Int) * 10 - c
def exSeq4 : Striped 4 := Striped.configure 4 2 (stripeGeneric (C := 4) 4 exS Striped.empty)
/-- 40 symbols in 32 columns: 2 sequence rows + 1 wrap row -/
def exS32 : List Nat := (List.range 40).map fun i => (i * i + i / 3) % 5
def exSeq32 : Striped 32 := Striped.configure 4 2 (stripeGeneric (C := 32) 4 exS32 Striped.empty)

def unOf {C : Nat} (r : Except String (Scores Int C)) : List Int :=
  match r with
  | .ok sc => unstripe 0 sc
  | .error _ => [-999]

-- the hypotheses of §B/§E hold for a striped and configured sequence
example : Inv 4 exSeq4 exS := configure_inv (by decide) 4 _ _ 2 (stripeGeneric_inv (by decide) 4 _ _)
example : Inv 4 exSeq32 exS32 := configure_inv (by decide) 4 _ _ 2 (stripeGeneric_inv (by decide) 4 _ _)
example : (∀ x ∈ exS, x < 5) ∧ 1 ≤ exP.rows ∧ exP.rows - 1 ≤ exSeq4.wrap := by decide
example : SymOK 5 exSeq32 :=
  symOK_of_inv 4 exSeq32 exS32
    (configure_inv (by decide) 4 _ _ 2 (stripeGeneric_inv (by decide) 4 _ _)) (by decide) (by decide)
-- and the conclusions are the expected numbers: L - M + 1 = 6 values, each the window score
example : unOf (scoreFull (scoreRowsGeneric 0 (· + ·) exP exSeq4) exSeq4) = [8, 5, 6, 9, 6, 4] := by decide +kernel
example : (List.range 6).map (fun i => windowScore 0 (· + ·) exP 4 exS i) = [8, 5, 6, 9, 6, 4] := by decide +kernel
-- the SIMD models really run their lanes (39 = 40 - 2 + 1 values, two sequence rows, look-ahead row used)
example : unOf (scoreFull (Avx2.scoreF32 0 (· + ·) exP exSeq32) exSeq32) =
    (List.range 39).map fun i => windowScore 0 (· + ·) exP 4 exS32 i := by decide +kernel
example : unOf (scoreFull (Sse2.score 0 (· + ·) exP exSeq32) exSeq32) =
    (List.range 39).map fun i => windowScore 0 (· + ·) exP 4 exS32 i := by decide +kernel
example : unOf (scoreFull (Avx2.scoreU8 0 (· + ·) exP exSeq32) exSeq32) =
    (List.range 39).map fun i => windowScore 0 (· + ·) exP 4 exS32 i := by decide +kernel
-- a sub-range at the end of the rows; an empty range; L < M
example : unOf (Avx2.scoreF32 0 (· + ·) exP exSeq32 1 2 Score.empty) =
    unOf (scoreRowsGeneric 0 (· + ·) exP exSeq32 1 2 Score.empty) := by decide +kernel
example : unOf (Sse2.score 0 (· + ·) exP exSeq32 1 1 Score.empty) = [] := by decide +kernel
example : unOf (scoreFull (scoreRowsGeneric 0 (· + ·) exP
    (Striped.configure 4 2 (stripeGeneric (C := 4) 4 [3] Striped.empty)))
    (Striped.configure 4 2 (stripeGeneric (C := 4) 4 [3] Striped.empty))) = [] := by decide +kernel
-- the guards are needed: without the wrap row the SIMD wrapper panics and the generic code reads a missing row
example : (match Avx2.scoreF32 0 (· + ·) exP (stripeGeneric (C := 32) 4 exS32 Striped.empty) 0 2 Score.empty with
    | .ok _ => false | .error _ => true) = true := by decide +kernel
example : (match scoreRowsGeneric 0 (· + ·) exP (stripeGeneric (C := 32) 4 exS32 Striped.empty) 0 2 Score.empty with
    | .ok _ => false | .error _ => true) = true := by decide +kernel
-- a range past the matrix: the repaired wrapper and the generic code both panic (SameOutcome, right disjunct)
example : (match Avx2.scoreF32 0 (· + ·) exP exSeq32 1 3 Score.empty,
    scoreRowsGeneric 0 (· + ·) exP exSeq32 1 3 Score.empty with
    | .error _, .error _ => true | _, _ => false) = true := by decide +kernel
-- the full range, whose last row reads the wrap row: both compute, and agree (SameOutcome, left disjunct)
example : unOf (Sse2.score 0 (· + ·) exP exSeq32 0 2 Score.empty) =
    unOf (scoreRowsGeneric 0 (· + ·) exP exSeq32 0 2 Score.empty) := by decide +kernel
-- the law `add x zero = x` of the SSE2 theorem is not vacuous either: it holds for exact numbers
example : ∀ x : Int, x + 0 = x := Int.add_zero
-- exact arithmetic: a `⊥` entry makes exactly the windows that meet it `⊥`
example : windowScore (0 : WithBot ℚ) (· + ·) (Mat.ofFn (C := 5) 1 fun _ c => if c = 4 then ⊥ else 1) 4 [0, 4, 1] 1 = ⊥ := by
  rw [windowScore_eq_bot_iff]; exact ⟨0, by decide, by decide⟩

end examples

end C01
end LMV
