import LMV.Model.Score
namespace LMV
namespace C01
end C01
end LMV
