import LMV.Model.Discrete

namespace LMV
namespace C08

theorem placeholder : True := trivial

end C08
end LMV
